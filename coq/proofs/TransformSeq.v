(* AttachIndex, ExtractV1File on a CARv1 source, and sequences of transforms on one file: any
   finite sequence of wrap / extract-in-place / replace-roots / attach-index steps keeps the
   innermost CARv1's sections. *)
From GoCar Require Import Bytes Varint Cid Header Frame V2Header Scan Index Transform.
From GoCarProofs Require Import BytesFacts VarintFacts CidFacts HeaderFacts ScanFacts IndexRoundtrip
  TransformFacts TransformWrap TransformReplace.

(* ---- AttachIndex ---------------------------------------------------------------------------------- *)
(* as found: fails for every input, nothing is attached (an absent file is created, empty) *)
Theorem attach_as_found_never_attaches f i off :
  attach_index_as_found f i off = (Err EOther, Some (match f with Some a => a | None => [] end)).
Proof. reflexivity. Qed.

(* repaired: the index bytes land at the offset, everything else stays *)
Theorem attach_index_writes f i off : off < two63 ->
  attach_index f i off
  = (Ok tt, Some (write_at (match f with Some a => a | None => [] end) off (idx_write i))).
Proof. intros H. unfold attach_index. replace (two63 <=? off) with false by lia. reflexivity. Qed.

Theorem attach_index_negative_offset f i off : two63 <= off ->
  attach_index f i off = (Err EOther, Some (match f with Some a => a | None => [] end)).
Proof. intros H. unfold attach_index. replace (two63 <=? off) with true by lia. reflexivity. Qed.

(* at or after the end of the data payload of a CARv2 (offset inside the file or at its end): pragma,
   header and the payload window are untouched, and index.ReadFrom at the offset gives the index *)
Theorem attach_index_preserves_payload a i off h s rest0 :
  off < two63 -> off <= blen a -> 51 <= h_doff h -> h_doff h + h_dsize h <= off ->
  idx_read s = Ok (i, rest0) ->
  exists a', attach_index (Some a) i off = (Ok tt, Some a') /\
             take 51 a' = take 51 a /\ payload_window h a' = payload_window h a /\
             idx_read (drop off a') = Ok (i, drop (off + blen (idx_write i)) a).
Proof.
  intros H63 Hin Hd Hend Hread. eexists. split; [apply attach_index_writes; exact H63|].
  split; [|split].
  - pose proof (take_drop_write_at_before a off (idx_write i) 0 51 Hin ltac:(lia)) as Ht.
    rewrite !drop_0 in Ht. exact Ht.
  - unfold payload_window. apply take_drop_write_at_before; [exact Hin|lia].
  - rewrite drop_write_at_at by exact Hin. eapply idx_read_then_roundtrip. exact Hread.
Qed.

(* ---- ExtractV1File on a CARv1 source --------------------------------------------------------------- *)
Section V1Source.
  Variable hdrdec : bytes -> option (list bytes * N).

  Theorem extract_carv1_source csz o roots bs dst :
    hdr_good hdrdec roots -> blen (enc_header (Some roots) 1) <= x_maxh o ->
    blen (enc_header (Some roots) 1) < two63 ->
    extract_file hdrdec csz o (mkfs (Some (enc_payload roots bs)) dst)
    = (XAlreadyV1, mkfs (Some (enc_payload roots bs)) dst).
  Proof.
    intros Hg Hmax H63. unfold extract_file. cbn [f_src]. unfold enc_payload at 1.
    rewrite read_header_payload by assumption. reflexivity.
  Qed.
End V1Source.

(* ---- sequences ---------------------------------------------------------------------------------------- *)
Lemma write_at_app_after (P t : bytes) off d : blen P <= off ->
  write_at (P ++ t) off d = P ++ write_at t (off - blen P) d.
Proof.
  intros H. unfold write_at. rewrite take_app_ge by exact H. rewrite drop_app_ge by lia.
  rewrite blen_app. rewrite <- !app_assoc.
  replace (off - (blen P + blen t)) with (off - blen P - blen t) by lia.
  replace (off + blen d - blen P) with (off - blen P + blen d) by lia. reflexivity.
Qed.

Lemma new_header_bytes_long roots : 18 <= blen (new_header_bytes roots).
Proof.
  unfold new_header_bytes. rewrite blen_ld. unfold ld_size, enc_header.
  rewrite !blen_app. change (blen [xa2]) with 1. change (blen key_roots) with 6. change (blen key_version) with 8.
  assert (1 <= blen (enc_roots roots)).
  { destruct roots as [rs|]; [|cbn; lia]. cbn [enc_roots]. rewrite blen_app.
    pose proof (cbor_head_nonempty 4 (N.of_nat (length rs))). destruct (cbor_head 4 (N.of_nat (length rs))); [congruence|rewrite blen_cons; lia]. }
  assert (1 <= blen (cbor_head 0 1)) by (cbn; lia).
  pose proof (uv_size_pos (1 + (6 + (blen (enc_roots roots) + (8 + blen (cbor_head 0 1)))))). lia.
Qed.

Section Compose.
  Variable hdrdec : bytes -> option (list bytes * N).
  Variable srt : list irec -> list irec.
  Variable csz : N -> N.
  Hypothesis Hcsz : csz_pos csz.
  Hypothesis Hpg : pragma_good hdrdec.
  Variable bs : list block.

  (* reading a framed header back, for any limit *)
  Lemma read_header_ld hb rest maxh : blen hb < two63 ->
    read_header hdrdec maxh (ld hb ++ rest)
    = if maxh <? blen hb then Err EHeaderTooLarge
      else match hdrdec hb with
           | None => Err EOther
           | Some (r, v) => Ok (r, v, rest, ld_size (blen hb))
           end.
  Proof.
    intros H63. unfold read_header, ld_read, ld_read_size, ld. rewrite <- app_assoc.
    rewrite read_uv_put_uv by exact H63. rewrite andb_false_r.
    destruct (maxh <? blen hb); [reflexivity|].
    replace (blen (hb ++ rest) <? blen hb) with false by (rewrite blen_app; lia).
    rewrite take_app, drop_app. destruct (hdrdec hb) as [[r v]|]; reflexivity.
  Qed.

  Lemma read_header_pragma_any rest maxh :
    exists rs, read_header hdrdec maxh (pragma ++ rest)
               = if maxh <? 10 then Err EHeaderTooLarge else Ok (rs, 2, rest, 11).
  Proof.
    destruct Hpg as (rs & Hp). exists rs. rewrite pragma_is_ld.
    rewrite read_header_ld by (cbn; unfold two63; lia). change (blen pragma_body) with 10.
    rewrite Hp. reflexivity.
  Qed.

  (* a CARv1 header the decoder reads as version 1 *)
  Definition base_ok (hb : bytes) : Prop := (exists rs, hdrdec hb = Some (rs, 1)) /\ blen hb < two63.

  (* the shapes a file goes through: a CARv1 with the sections of bs, or a CARv2 (accepted header, any
     padding, any trailer) whose payload is such a shape *)
  Inductive nested : bytes -> Prop :=
  | nest_v1 hb : base_ok hb -> nested (ld hb ++ enc_sections bs)
  | nest_v2 h pad inner tail :
      nested inner -> v2hdr_ok h -> h_doff h = 51 + blen pad -> h_dsize h = blen inner ->
      nested (v2_container h pad inner tail).

  Lemma nested_nonempty a : nested a -> 0 < blen a.
  Proof.
    intros [hb _|h pad inner tail _ _ _ _].
    - rewrite blen_app, blen_ld. unfold ld_size. pose proof (uv_size_pos (blen hb)). lia.
    - unfold v2_container. rewrite blen_app. change (blen pragma) with 11. lia.
  Qed.

  Lemma v2hdr_ok_accepted h : v2hdr_ok h -> v2hdr_accepted h = true.
  Proof.
    intros (_ & _ & Hd & Hs & Hi). unfold v2hdr_accepted.
    replace (51 <=? h_doff h) with true by lia. replace (h_doff h <? two63) with true by lia.
    replace (0 <? h_dsize h) with true by lia. replace (h_dsize h <? two63) with true by lia.
    replace (h_ioff h <? two63) with true by lia. reflexivity.
  Qed.

  Lemma container_window h pad inner tail : h_doff h = 51 + blen pad -> h_dsize h = blen inner ->
    payload_window h (v2_container h pad inner tail) = inner
    /\ drop (h_doff h) (v2_container h pad inner tail) = inner ++ tail
    /\ h_doff h + h_dsize h <= blen (v2_container h pad inner tail).
  Proof.
    intros Hd Hs. unfold payload_window, v2_container.
    set (A := pragma ++ enc_v2hdr h ++ pad).
    assert (HA : blen A = h_doff h).
    { unfold A. rewrite !blen_app, blen_enc_v2hdr. change (blen pragma) with 11. lia. }
    assert (E : pragma ++ enc_v2hdr h ++ pad ++ inner ++ tail = A ++ inner ++ tail)
      by (unfold A; rewrite <- !app_assoc; reflexivity).
    rewrite E, <- HA, drop_app, Hs, take_app. repeat split. rewrite !blen_app. lia.
  Qed.

  (* the layer-B observation: peeling the containers reaches the sections of bs *)
  Theorem nested_innermost a : nested a ->
    exists n, forall fuel, (n <= fuel)%nat -> innermost_sections hdrdec fuel a = Some (enc_sections bs).
  Proof.
    induction 1 as [hb [[rs Hh] H63]|h pad inner tail Hin [n IH] Hok Hd Hs].
    - exists 1%nat. intros [|f] Hf; [lia|]. cbn [innermost_sections].
      rewrite read_header_ld by exact H63. replace (two63 <? blen hb) with false by lia.
      rewrite Hh. reflexivity.
    - exists (S n). intros [|f] Hf; [lia|]. cbn [innermost_sections].
      destruct (read_header_pragma_any (enc_v2hdr h ++ pad ++ inner ++ tail) two63) as (rs & Hr).
      unfold v2_container at 1. rewrite Hr. cbn [N.ltb N.compare two63 Pos.compare Pos.compare_cont N.eqb Pos.eqb].
      rewrite read_v2hdr_enc by exact Hok.
      destruct (container_window h pad inner tail Hd Hs) as (Hw & _). rewrite Hw. apply IH. lia.
  Qed.

  (* a replace step is given roots whose header the decoder reads as version 1 *)
  Definition op_ok (op : xop) : Prop :=
    match op with
    | OReplace _ roots => base_ok (enc_header roots 1)
    | _ => True
    end.

  Lemma step_wrap o a : nested a -> blen a + 51 < two63 -> nested (snd (xstep hdrdec srt csz (OWrap o) a)).
  Proof.
    intros Hn H63. cbn [xstep]. destruct (wrap_bytes_with hdrdec srt o a) as [w|e] eqn:Ew; cbn [snd]; [|exact Hn].
    destruct (wrap_layout_any hdrdec srt o a w Ew) as (i0 & recs & _ & _ & ->).
    pose proof (nested_nonempty a Hn) as Hpos.
    change (pragma ++ enc_v2hdr (new_header (blen a)) ++ a ++ idx_write (idx_load_with srt recs i0))
      with (v2_container (new_header (blen a)) [] a (idx_write (idx_load_with srt recs i0))).
    apply nest_v2; [exact Hn| |reflexivity|reflexivity].
    unfold v2hdr_ok, new_header, wrap64. cbn [h_hi h_lo h_doff h_dsize h_ioff].
    rewrite N.mod_small by (unfold two63, two64 in *; lia). unfold two63, two64 in *. lia.
  Qed.

  Lemma step_extract o a : nested a -> nested (snd (xstep hdrdec srt csz (OExtract o) a)).
  Proof.
    intros Hn. cbn [xstep]. rewrite (extract_file_closed hdrdec csz o _ Hcsz).
    destruct Hn as [hb [[rs Hh] H63]|h pad inner tail Hin Hok Hd Hs].
    - unfold extract_spec. cbn [f_src]. rewrite read_header_ld by exact H63.
      destruct (x_maxh o <? blen hb); cbn [snd f_src]; [apply nest_v1; split; eauto|].
      rewrite Hh. cbn [N.eqb Pos.eqb snd f_src]. apply nest_v1. split; eauto.
    - pose proof (nest_v2 h pad inner tail Hin Hok Hd Hs) as Hwhole.
      unfold extract_spec. cbn [f_src].
      destruct (read_header_pragma_any (enc_v2hdr h ++ pad ++ inner ++ tail) (x_maxh o)) as (rs & Hr).
      unfold v2_container at 1. rewrite Hr.
      destruct (x_maxh o <? 10); cbn [snd f_src]; [exact Hwhole|].
      cbn [N.eqb Pos.eqb negb]. rewrite read_v2hdr_enc by exact Hok.
      destruct (seek_ok o (h_doff h)); cbn [negb snd f_src]; [|exact Hwhole].
      destruct (container_window h pad inner tail Hd Hs) as (Hw & _ & Hlen).
      fold (v2_container h pad inner tail). rewrite Hw. cbv zeta.
      replace (blen inner <? h_dsize h) with false by lia. cbn [snd set_dst f_dst f_src]. exact Hin.
  Qed.

  Lemma step_replace o roots a : nested a -> base_ok (enc_header roots 1) ->
    nested (snd (xstep hdrdec srt csz (OReplace o roots) a)).
  Proof.
    intros Hn Hnew. cbn [xstep]. unfold replace_roots.
    destruct Hn as [hb [[rs Hh] H63]|h pad inner tail Hin Hok Hd Hs].
    - pose proof (nest_v1 hb (conj (ex_intro _ rs Hh) H63)) as Hwhole.
      rewrite read_header_ld by exact H63.
      destruct (x_maxh o <? blen hb); cbn [snd]; [exact Hwhole|]. rewrite Hh. cbn [N.eqb Pos.eqb].
      rewrite (consumed_app hdrdec).
      change (ld hb ++ enc_sections bs) with ([] ++ ld hb ++ enc_sections bs) at 1.
      change 0 with (blen (@nil byte)). rewrite (replace_finish_spec hdrdec).
      destruct (blen (ld hb) =? blen (new_header_bytes roots)); cbn [snd app]; [|exact Hwhole].
      unfold new_header_bytes. apply nest_v1. exact Hnew.
    - pose proof (nest_v2 h pad inner tail Hin Hok Hd Hs) as Hwhole.
      destruct (read_header_pragma_any (enc_v2hdr h ++ pad ++ inner ++ tail) (x_maxh o)) as (rs & Hr).
      unfold v2_container at 1. rewrite Hr.
      destruct (x_maxh o <? 10) eqn:E10; cbn [snd]; [exact Hwhole|].
      cbn [N.eqb Pos.eqb]. rewrite read_v2hdr_enc by exact Hok.
      destruct (seek_ok o (h_doff h)); cbn [negb snd]; [|exact Hwhole].
      destruct (container_window h pad inner tail Hd Hs) as (_ & Hdrop & _).
      fold (v2_container h pad inner tail). rewrite Hdrop.
      set (A := pragma ++ enc_v2hdr h ++ pad).
      assert (HA : blen A = h_doff h).
      { unfold A. rewrite !blen_app, blen_enc_v2hdr. change (blen pragma) with 11. lia. }
      assert (Efile : forall x, v2_container h pad x tail = A ++ x ++ tail)
        by (intros x; unfold v2_container, A; rewrite <- !app_assoc; reflexivity).
      destruct Hin as [hb [[rs1 Hh] H63]|h2 pad2 inner2 tail2 Hin2 Hok2 Hd2 Hs2].
      + rewrite <- app_assoc. rewrite read_header_ld by exact H63.
        destruct (x_maxh o <? blen hb); cbn [snd]; [exact Hwhole|]. rewrite Hh.
        rewrite (consumed_app hdrdec). rewrite <- HA.
        rewrite (Efile (ld hb ++ enc_sections bs)), <- app_assoc.
        rewrite (replace_finish_spec hdrdec).
        destruct (blen (ld hb) =? blen (new_header_bytes roots)) eqn:El; cbn [snd].
        * replace (A ++ new_header_bytes roots ++ enc_sections bs ++ tail)
            with (v2_container h pad (new_header_bytes roots ++ enc_sections bs) tail)
            by (rewrite Efile, <- app_assoc; reflexivity).
          apply nest_v2; [unfold new_header_bytes; apply nest_v1; exact Hnew|exact Hok|exact Hd|].
          rewrite Hs, !blen_app. lia.
        * replace (A ++ ld hb ++ enc_sections bs ++ tail) with (v2_container h pad (ld hb ++ enc_sections bs) tail)
            by (rewrite Efile, <- app_assoc; reflexivity).
          exact Hwhole.
      + (* the payload is itself a CARv2: its pragma is read as "the inner header"; sizes never agree *)
        set (R := (enc_v2hdr h2 ++ pad2 ++ inner2 ++ tail2) ++ tail).
        destruct (read_header_pragma_any R (x_maxh o)) as (rs2 & Hr2).
        assert (Ei : v2_container h2 pad2 inner2 tail2 ++ tail = pragma ++ R)
          by (unfold v2_container, R; rewrite <- !app_assoc; reflexivity).
        rewrite Ei, Hr2, E10, (consumed_app hdrdec). change (blen pragma) with 11.
        unfold replace_finish. pose proof (new_header_bytes_long roots).
        replace (11 =? blen (new_header_bytes roots)) with false by lia. cbn [negb snd].
        exact Hwhole.
  Qed.

  Lemma step_attach i off a : nested a -> attach_guard hdrdec a off = true ->
    nested (snd (xstep hdrdec srt csz (OAttach i off) a)).
  Proof.
    intros Hn Hg. cbn [xstep]. unfold attach_guard in Hg.
    destruct Hn as [hb [[rs Hh] H63]|h pad inner tail Hin Hok Hd Hs].
    - rewrite read_header_ld in Hg by exact H63. replace (two63 <? blen hb) with false in Hg by lia.
      rewrite Hh in Hg. cbn in Hg. discriminate.
    - destruct (read_header_pragma_any (enc_v2hdr h ++ pad ++ inner ++ tail) two63) as (rs & Hr).
      unfold v2_container at 1 in Hg. rewrite Hr in Hg.
      cbn [N.ltb N.compare two63 Pos.compare Pos.compare_cont N.eqb Pos.eqb] in Hg.
      rewrite read_v2hdr_enc in Hg by exact Hok. apply andb_true_iff in Hg. destruct Hg as [Hend H63].
      unfold attach_index. replace (two63 <=? off) with false by lia. cbn [snd].
      set (P := pragma ++ enc_v2hdr h ++ pad ++ inner).
      assert (HP : blen P = h_doff h + h_dsize h).
      { unfold P. rewrite !blen_app, blen_enc_v2hdr. change (blen pragma) with 11. lia. }
      assert (E : v2_container h pad inner tail = P ++ tail)
        by (unfold v2_container, P; rewrite <- !app_assoc; reflexivity).
      rewrite E, write_at_app_after by lia.
      replace (P ++ write_at tail (off - blen P) (idx_write i))
        with (v2_container h pad inner (write_at tail (off - blen P) (idx_write i)))
        by (unfold v2_container, P; rewrite <- !app_assoc; reflexivity).
      apply nest_v2; assumption.
  Qed.

  Lemma step_nested op a : nested a -> op_ok op -> step_guard hdrdec op a = true ->
    nested (snd (xstep hdrdec srt csz op a)).
  Proof.
    intros Hn Hop Hg. destruct op as [o|o|o roots|i off].
    - apply step_wrap; [exact Hn|]. cbn in Hg. lia.
    - apply step_extract; exact Hn.
    - apply step_replace; assumption.
    - apply step_attach; assumption.
  Qed.

  (* the composition theorem: by induction over the sequence *)
  Theorem xrun_nested ops : forall a, nested a -> Forall op_ok ops ->
    seq_guard hdrdec srt csz ops a = true -> nested (snd (xrun hdrdec srt csz ops a)).
  Proof.
    induction ops as [|op t IH]; intros a Hn Hops Hg; [exact Hn|].
    cbn [xrun seq_guard] in *. apply andb_true_iff in Hg. destruct Hg as [Hg1 Hg2].
    inversion Hops as [|? ? Hop Hops']; subst.
    pose proof (step_nested op a Hn Hop Hg1) as Hn1.
    destruct (xstep hdrdec srt csz op a) as [r a1]. cbn [snd] in *.
    specialize (IH a1 Hn1 Hops' Hg2).
    destruct (xrun hdrdec srt csz t a1) as [rs an]. exact IH.
  Qed.

  Corollary xrun_preserves_blocks ops roots :
    base_ok (enc_header (Some roots) 1) -> Forall op_ok ops ->
    seq_guard hdrdec srt csz ops (enc_payload roots bs) = true ->
    exists n, innermost_sections hdrdec n (snd (xrun hdrdec srt csz ops (enc_payload roots bs)))
              = Some (enc_sections bs).
  Proof.
    intros Hb Hops Hg.
    destruct (nested_innermost _ (xrun_nested ops _ (nest_v1 _ Hb) Hops Hg)) as (n & Hn).
    exists n. apply Hn. lia.
  Qed.
End Compose.
