(* MonitorInst.v -- from the executable verdict [violations I = []] over a generated instance
   record to the semantic statements about every client of that object: any number of threads,
   each running any finite sequence of calls of the listed operations, each call following any
   of its control-flow paths with loops unrolled any number of times, any interleaving. *)
From Coq Require Import List Arith Bool Lia.
Import ListNotations.
From GoCar Require Import Monitor.
From GoCarProofs Require Import MonitorDRF MonitorLive.

Lemma app_nil_both {A} (a b : list A) : a ++ b = [] -> a = [] /\ b = [].
Proof. destruct a; cbn; [auto|discriminate]. Qed.

Lemma bad_paths_from_nil I name ps : forall n,
  bad_paths_from I name n ps = [] -> forall p, In p ps -> i_ok_path I [] p = true.
Proof.
  induction ps as [|q ps IH]; intros n H p Hin; [destruct Hin|].
  cbn in H. apply app_nil_both in H as [H1 H2]. destruct Hin as [<-|Hin].
  - destruct (i_ok_path I [] q); [reflexivity|discriminate].
  - eapply IH; eauto.
Qed.

Lemma bad_methods_nil I ms :
  bad_methods I ms = [] -> forall name ps p, In (name, ps) ms -> In p ps -> i_ok_path I [] p = true.
Proof.
  unfold bad_methods. induction ms as [|e ms IH]; intros H name ps p Hin Hp; [destruct Hin|].
  cbn in H. apply app_nil_both in H as [H1 H2]. destruct Hin as [->|Hin].
  - eapply bad_paths_from_nil; eauto.
  - eapply IH; eauto.
Qed.

Lemma bad_entries_from_nil I es : forall n,
  bad_entries_from I n es = [] ->
  forallb (fun e => hsorted (fst e) && i_ok_path I (fst e) (snd e)) (map (fun e => (snd (fst e), snd e)) es) = true.
Proof.
  induction es as [|e es IH]; intros n H; [reflexivity|].
  cbn in H. apply app_nil_both in H as [H1 H2]. cbn.
  destruct (hsorted (snd (fst e)) && i_ok_path I (snd (fst e)) (snd e)); [|discriminate]. cbn. eauto.
Qed.

Lemma violations_nil I :
  violations I = [] ->
  tbl_ok (i_guard I) (i_exempt I) (i_listed I) (i_table I) = true /\
  forall name ps p, In (name, ps) (i_methods I) -> In p ps -> i_ok_path I [] p = true.
Proof.
  unfold violations. intro H. apply app_nil_both in H as [_ H]. apply app_nil_both in H as [H1 H2].
  split.
  - unfold tbl_ok, i_table. apply (bad_entries_from_nil I _ 0 H1).
  - apply bad_methods_nil. exact H2.
Qed.

Lemma client_code_ok I cd :
  violations I = [] -> client_code I cd ->
  ok (i_guard I) (i_exempt I) (i_listed I) (i_table I) [] cd = true.
Proof.
  intros Hv (cds & Hall & ->). destruct (violations_nil I Hv) as [_ Hm].
  apply ok_concat. eapply Forall_impl; [|exact Hall].
  intros c (name & ps & p & Hin & Hp & Hex). eapply ok_path_expands; [|exact Hex].
  exact (Hm _ _ _ Hin Hp).
Qed.

Lemma clients_inv I progs c :
  violations I = [] -> Forall (client_code I) progs -> steps (i_table I) (init progs) c ->
  Inv (i_guard I) (i_exempt I) (i_listed I) (i_table I) c.
Proof.
  intros Hv Hp Hs. destruct (violations_nil I Hv) as [Ht _].
  eapply steps_inv; eauto. apply init_inv.
  eapply Forall_impl; [|exact Hp]. intros cd Hc. apply client_code_ok; auto.
Qed.

(* no data race, no unlock of a mutex that is not held *)
Theorem instance_race_free I progs c :
  violations I = [] -> Forall (client_code I) progs -> steps (i_table I) (init progs) c ->
  ~ race c /\ ~ bad_unlock c.
Proof.
  intros Hv Hp Hs. pose proof (clients_inv I progs c Hv Hp Hs) as Hi.
  split; [eapply inv_no_race | eapply inv_no_bad_unlock]; eauto.
Qed.

(* critical sections are isolated *)
Theorem instance_isolation I progs c l t1 mid t2 r f w :
  violations I = [] -> Forall (client_code I) progs -> steps (i_table I) (init progs) c ->
  ts c = l ++ t1 :: mid ++ t2 :: r -> i_exempt I f = false ->
  (holdsW (th t1) (i_guard I f) = true -> ~ accesses t2 f w) /\
  (holdsW (th t2) (i_guard I f) = true -> ~ accesses t1 f w) /\
  (holdsAny (th t1) (i_guard I f) = true -> ~ accesses t2 f true) /\
  (holdsAny (th t2) (i_guard I f) = true -> ~ accesses t1 f true).
Proof.
  intros Hv Hp Hs E Hx. eapply inv_isolation; eauto. eapply clients_inv; eauto.
Qed.

(* no reachable configuration is stuck *)
Theorem instance_no_deadlock I progs c :
  violations I = [] -> Forall (client_code I) progs -> steps (i_table I) (init progs) c ->
  (exists t, In t (ts c) /\ code t <> []) ->
  exists i a c', step (i_table I) c i a c'.
Proof.
  intros Hv Hp Hs Hex. destruct (violations_nil I Hv) as [Ht _].
  eapply inv_progress; eauto. eapply clients_inv; eauto.
Qed.
