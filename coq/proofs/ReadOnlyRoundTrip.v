(* Reader side of C01: every reader over a constructed archive (CARv1, or CARv2 with any padding,
   with or without an index; optional null padding under ZeroLengthSectionAsEOF) returns exactly the
   roots and the (CID, bytes) sequence.  Extends ScanFacts' CARv1 lemmas. *)
From GoCar Require Import Bytes Varint Cid Header Frame V2Header Scan Index Store ReadOnly.
From GoCarProofs Require Import BytesFacts VarintFacts CidFacts HeaderFacts ScanFacts ReadOnlyFacts.

Section Readers.
  Variable hok : bytes -> bytes -> option bool.
  Variable hdrdec : bytes -> option (list bytes * N).

  Lemma next_block_zeros o k t : o_zeof o = true -> next_block hok o (zeros (S k) ++ t) = Err EEof.
  Proof.
    intros Hz. unfold next_block, read_node, ld_read, ld_read_size.
    destruct (read_uv_zeros k t) as [_ ->]. rewrite Hz. reflexivity.
  Qed.

  (* sections followed by null padding (only under ZeroLengthSectionAsEOF) *)
  Lemma scan_blocks_sections_np o bs npad :
    Forall (block_ok (o_maxs o)) bs -> (o_trusted o = false -> Forall (hash_good hok) bs) ->
    (npad = 0 \/ o_zeof o = true) ->
    forall fuel acc, (length bs < fuel)%nat ->
    scan_blocks hok fuel o (enc_sections bs ++ zerosN npad) acc = mkscan (rev acc ++ bs) EEof.
  Proof.
    intros Hok Hh Hz. induction bs as [|[c d] bs IH]; intros fuel acc Hf.
    - destruct fuel; [cbn in Hf; lia|]. cbn [enc_sections map concat app scan_blocks].
      destruct (zerosN_cases npad) as [[-> ->]|[k Hk]].
      + cbn. rewrite app_nil_r. reflexivity.
      + rewrite Hk. destruct Hz as [->|Hz]; [cbn in Hk; discriminate|].
        rewrite <- (app_nil_r (zeros (S k))). rewrite next_block_zeros by exact Hz. rewrite app_nil_r. reflexivity.
    - destruct fuel; [cbn in Hf; lia|]. cbn [scan_blocks].
      rewrite enc_sections_cons. cbn [fst snd]. rewrite <- app_assoc.
      rewrite next_block_section; [|exact (Forall_inv Hok)|intros Ht; exact (Forall_inv (Hh Ht))].
      rewrite IH; [|exact (Forall_inv_tail Hok)|intros Ht; exact (Forall_inv_tail (Hh Ht))|cbn in Hf; lia].
      cbn [rev]. rewrite <- app_assoc. reflexivity.
  Qed.

  Lemma scan_all_sections_np o bs npad :
    Forall (block_ok (o_maxs o)) bs -> (o_trusted o = false -> Forall (hash_good hok) bs) ->
    (npad = 0 \/ o_zeof o = true) ->
    scan_all hok o (enc_sections bs ++ zerosN npad) = mkscan bs EEof.
  Proof.
    intros Hok Hh Hz. unfold scan_all. rewrite scan_blocks_sections_np; try assumption; [reflexivity|].
    pose proof (enc_sections_length hok hdrdec bs). rewrite app_length. lia.
  Qed.

  (* v2 BlockReader over a CARv1 with null padding *)
  Theorem br_read_all_v1_np o roots bs npad : archive_ok hok hdrdec o roots bs ->
    (npad = 0 \/ o_zeof o = true) ->
    br_read_all hok hdrdec o (payload_np roots bs npad) = Ok (1, roots, mkscan bs EEof).
  Proof.
    intros (Hg & Hmax & H63 & Hok & Hh) Hz. unfold br_read_all, br_open, payload_np, enc_payload.
    rewrite <- app_assoc. rewrite read_header_payload by assumption. cbn [N.eqb Pos.eqb].
    rewrite scan_all_sections_np by assumption. reflexivity.
  Qed.

  (* v2 BlockReader over a CARv2 container *)
  Theorem br_read_all_v2 o roots bs npad chi clo dpad ipad ib :
    archive_ok hok hdrdec o roots bs -> (npad = 0 \/ o_zeof o = true) ->
    hdrdec pragma_body = Some ([], 2) -> 10 <= o_maxh o ->
    chi < two64 -> clo < two64 ->
    blen (v2_file chi clo dpad ipad (payload_np roots bs npad) ib) < two63 ->
    br_read_all hok hdrdec o (v2_file chi clo dpad ipad (payload_np roots bs npad) ib)
    = Ok (2, roots, mkscan bs EEof).
  Proof.
    intros (Hg & Hmax & H63 & Hok & Hh) Hz Hpr Hmh Hchi Hclo Hlen.
    set (payload := payload_np roots bs npad) in *.
    set (ioff := match ib with Some _ => 51 + dpad + blen payload + ipad | None => 0 end).
    set (h := mkv2 chi clo (51 + dpad) (blen payload) ioff).
    assert (Hpay : 0 < blen payload).
    { unfold payload, payload_np, enc_payload. rewrite !blen_app, blen_ld. unfold ld_size.
      pose proof (uv_size_pos (blen (enc_header (Some roots) 1))). lia. }
    pose proof (v2_file_len chi clo dpad ipad payload ib _ ioff h eq_refl eq_refl eq_refl) as Hl.
    unfold br_read_all, br_open.
    assert (Hfile : v2_file chi clo dpad ipad payload ib
                    = ld pragma_body ++ enc_v2hdr h ++ zerosN dpad ++ payload ++ zerosN ipad ++ match ib with Some x => x | None => [] end)
      by reflexivity.
    rewrite Hfile. unfold read_header at 1. rewrite ld_read_ld; [|cbn; unfold two63; lia|exact Hmh|discriminate].
    rewrite Hpr. cbn [N.eqb Pos.eqb].
    rewrite read_v2hdr_enc; cbn [h_hi h_lo h_doff h_dsize h_ioff h]; try assumption; try lia;
      [|unfold ioff; destruct ib; lia].
    replace (51 + dpad - 51) with (blen (zerosN dpad)) by (rewrite blen_zerosN; lia).
    rewrite drop_app, take_app.
    unfold payload at 1, payload_np, enc_payload. rewrite <- app_assoc.
    rewrite read_header_payload by assumption. cbn [N.eqb Pos.eqb].
    rewrite scan_all_sections_np by assumption. reflexivity.
  Qed.
End Readers.
