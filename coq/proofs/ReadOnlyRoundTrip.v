(* Reader side of C01: every reader over a constructed archive (CARv1, or CARv2 with any padding,
   with or without an index; optional null padding under ZeroLengthSectionAsEOF) returns exactly the
   roots and the (CID, bytes) sequence.  Extends ScanFacts' CARv1 lemmas. *)
From GoCar Require Import Bytes Varint Cid Header Frame V2Header Scan Index Store ReadOnly.
From GoCarProofs Require Import BytesFacts VarintFacts CidFacts HeaderFacts ScanFacts ReadOnlyFacts ReadOnlyRefine.

Section Readers.
  Variable hok : bytes -> bytes -> option bool.
  Variable hdrdec : bytes -> option (list bytes * N).

  Lemma next_block_zeros o k t : o_zeof o = true -> next_block hok o (zeros (S k) ++ t) = Err EEof.
  Proof.
    intros Hz. unfold next_block, read_node, ld_read, ld_read_size.
    destruct (read_uv_zeros k t) as [_ ->]. rewrite Hz. reflexivity.
  Qed.

  (* sections followed by null padding (only under ZeroLengthSectionAsEOF) *)
  Lemma scan_blocks_sections_np o bs npad :
    Forall (block_ok (o_maxs o)) bs -> (o_trusted o = false -> Forall (hash_good hok) bs) ->
    (npad = 0 \/ o_zeof o = true) ->
    forall fuel acc, (length bs < fuel)%nat ->
    scan_blocks hok fuel o (enc_sections bs ++ zerosN npad) acc = mkscan (rev acc ++ bs) EEof.
  Proof.
    intros Hok Hh Hz. induction bs as [|[c d] bs IH]; intros fuel acc Hf.
    - destruct fuel; [cbn in Hf; lia|]. cbn [enc_sections map concat app scan_blocks].
      destruct (zerosN_cases npad) as [[-> ->]|[k Hk]].
      + cbn. rewrite app_nil_r. reflexivity.
      + rewrite Hk. destruct Hz as [->|Hz]; [cbn in Hk; discriminate|].
        rewrite <- (app_nil_r (zeros (S k))). rewrite next_block_zeros by exact Hz. rewrite app_nil_r. reflexivity.
    - destruct fuel; [cbn in Hf; lia|]. cbn [scan_blocks].
      rewrite enc_sections_cons. cbn [fst snd]. rewrite <- app_assoc.
      rewrite next_block_section; [|exact (Forall_inv Hok)|intros Ht; exact (Forall_inv (Hh Ht))].
      rewrite IH; [|exact (Forall_inv_tail Hok)|intros Ht; exact (Forall_inv_tail (Hh Ht))|cbn in Hf; lia].
      cbn [rev]. rewrite <- app_assoc. reflexivity.
  Qed.

  Lemma scan_all_sections_np o bs npad :
    Forall (block_ok (o_maxs o)) bs -> (o_trusted o = false -> Forall (hash_good hok) bs) ->
    (npad = 0 \/ o_zeof o = true) ->
    scan_all hok o (enc_sections bs ++ zerosN npad) = mkscan bs EEof.
  Proof.
    intros Hok Hh Hz. unfold scan_all. rewrite scan_blocks_sections_np; try assumption; [reflexivity|].
    pose proof (enc_sections_length hok hdrdec bs). rewrite app_length. lia.
  Qed.

  (* a constructed archive a (verifying) sequential reader accepts under options o; ro = None: nil roots *)
  Definition archive_ok_o (o : ropts) (ro : option (list bytes)) (bs : list block) : Prop :=
    hdrdec (enc_header ro 1) = Some (hdr_roots ro, 1) /\ blen (enc_header ro 1) <= o_maxh o /\
    blen (enc_header ro 1) < two63 /\
    Forall (block_ok (o_maxs o)) bs /\ (o_trusted o = false -> Forall (hash_good hok) bs).

  (* v2 BlockReader over a CARv1 with null padding *)
  Theorem br_read_all_v1_np o ro bs npad : archive_ok_o o ro bs ->
    (npad = 0 \/ o_zeof o = true) ->
    br_read_all hok hdrdec o (payload_np ro bs npad) = Ok (1, hdr_roots ro, mkscan bs EEof).
  Proof.
    intros (Hg & Hmax & H63 & Hok & Hh) Hz. unfold br_read_all, br_open. rewrite payload_np_split.
    rewrite (read_header_ld hdrdec) by assumption. cbn [N.eqb Pos.eqb].
    rewrite scan_all_sections_np by assumption. reflexivity.
  Qed.

  (* v2 BlockReader over a CARv2 container *)
  Theorem br_read_all_v2 o ro bs npad chi clo dpad ipad ib :
    archive_ok_o o ro bs -> (npad = 0 \/ o_zeof o = true) ->
    hdrdec pragma_body = Some ([], 2) -> 10 <= o_maxh o ->
    chi < two64 -> clo < two64 ->
    blen (v2_file chi clo dpad ipad (payload_np ro bs npad) ib) < two63 ->
    br_read_all hok hdrdec o (v2_file chi clo dpad ipad (payload_np ro bs npad) ib)
    = Ok (2, hdr_roots ro, mkscan bs EEof).
  Proof.
    intros (Hg & Hmax & H63 & Hok & Hh) Hz Hpr Hmh Hchi Hclo Hlen.
    set (payload := payload_np ro bs npad) in *.
    set (ioff := match ib with Some _ => 51 + dpad + blen payload + ipad | None => 0 end).
    set (h := mkv2 chi clo (51 + dpad) (blen payload) ioff).
    assert (Hpay : 0 < blen payload).
    { unfold payload. rewrite payload_np_split, !blen_app, blen_ld. unfold ld_size.
      pose proof (uv_size_pos (blen (enc_header ro 1))). lia. }
    pose proof (v2_file_len chi clo dpad ipad payload ib _ ioff h eq_refl eq_refl eq_refl) as Hl.
    unfold br_read_all, br_open.
    assert (Hfile : v2_file chi clo dpad ipad payload ib
                    = ld pragma_body ++ enc_v2hdr h ++ zerosN dpad ++ payload ++ zerosN ipad ++ match ib with Some x => x | None => [] end)
      by reflexivity.
    rewrite Hfile. unfold read_header at 1. rewrite ld_read_ld; [|cbn; unfold two63; lia|exact Hmh|discriminate].
    rewrite Hpr. cbn [N.eqb Pos.eqb].
    rewrite read_v2hdr_enc; cbn [h_hi h_lo h_doff h_dsize h_ioff h]; try assumption; try lia;
      [|unfold ioff; destruct ib; lia].
    replace (51 + dpad - 51) with (blen (zerosN dpad)) by (rewrite blen_zerosN; lia).
    rewrite drop_app, take_app.
    unfold payload at 1. rewrite payload_np_split.
    rewrite (read_header_ld hdrdec) by assumption. cbn [N.eqb Pos.eqb].
    rewrite scan_all_sections_np by assumption. reflexivity.
  Qed.
End Readers.

(* ---- the root module's reader (encoding/binary varints, bufio, CidFromReader on the section) ------- *)
Ltac Zify.zify_post_hook ::= Z.div_mod_to_equations.

Lemma read_std_put_gen : forall fuel rf n i x rest,
  (S fuel <= rf)%nat -> n < 128 ^ N.of_nat (S fuel) -> N.of_nat (S fuel) + i <= 9 ->
  read_uv_std_f rf i x (put_uv_f (S fuel) n ++ rest)
  = VOk (x + n * 2 ^ (7 * i)) rest (i + uv_size_f (S fuel) n).
Proof.
  induction fuel as [|f IH]; intros rf n i x rest Hrf Hn Hi;
    (destruct rf as [|rf']; [lia|]); cbn [put_uv_f]; rewrite (uv_size_f_S _ n); destruct (n <? 128) eqn:E.
  - cbn [app read_uv_std_f]. rewrite b2n_n2b by lia. rewrite E.
    replace ((i =? 9) && (1 <? n)) with false by lia. reflexivity.
  - change (128 ^ N.of_nat 1) with 128 in Hn. lia.
  - cbn [app read_uv_std_f]. rewrite b2n_n2b by lia. rewrite E.
    replace ((i =? 9) && (1 <? n)) with false by lia. reflexivity.
  - cbn [app read_uv_std_f].
    assert (Hm : n mod 128 < 128) by (apply N.mod_lt; lia).
    rewrite b2n_n2b by lia.
    replace (128 + n mod 128 <? 128) with false by lia.
    replace (i =? 9) with false by lia.
    assert (Hdiv : n / 128 < 128 ^ N.of_nat (S f)).
    { rewrite pow128_succ in Hn. apply N.div_lt_upper_bound; lia. }
    rewrite (IH rf' (n / 128) (i + 1) _ rest); try lia.
    f_equal; [|lia].
    replace (7 * (i + 1)) with (7 * i + 7) by lia. rewrite N.pow_add_r.
    change (2 ^ 7) with 128.
    pose proof (N.div_mod n 128).
    replace (128 + n mod 128 - 128) with (n mod 128) by lia. nia.
Qed.

Theorem read_uv_std_put_uv n rest : n < two63 ->
  read_uv_std (put_uv n ++ rest) = VOk n rest (uv_size n).
Proof.
  intros Hn. unfold read_uv_std, put_uv, uv_size.
  assert (H9 : n < 128 ^ N.of_nat 9) by (unfold two63 in Hn; change (128 ^ N.of_nat 9) with 9223372036854775808; lia).
  rewrite (put_uv_f_fuel 8 10 n) by (try lia; exact H9).
  rewrite (uv_size_f_fuel 8 10 n) by (try lia; exact H9).
  rewrite (read_std_put_gen 8 11 n 0 0 rest); try lia; try exact H9.
  f_equal. cbn. lia.
Qed.

Lemma ld_read_root_ld payload rest :
  blen payload <= root_max_section ->
  ld_read_root (ld payload ++ rest) = Ok (payload, rest).
Proof.
  intros Hmax. unfold ld_read_root, ld. rewrite <- app_assoc.
  destruct (put_uv (blen payload) ++ payload ++ rest) as [|b0 t0] eqn:E.
  - exfalso. pose proof (put_uv_nonempty (blen payload)) as Hne.
    destruct (put_uv (blen payload)); [congruence|discriminate].
  - rewrite <- E. clear E.
    assert (H63 : blen payload < two63) by (unfold root_max_section, two63 in *; lia).
    rewrite read_uv_std_put_uv by exact H63.
    unfold wrap64. rewrite N.mod_small by (unfold two63, two64 in *; lia).
    replace (root_max_section <? blen payload) with false by lia.
    replace (blen (payload ++ rest) <? blen payload) with false by (rewrite blen_app; lia).
    rewrite take_app, drop_app. reflexivity.
Qed.

(* a block the root reader accepts *)
Definition root_block_ok (b : block) : Prop :=
  exists p, cid_ok p /\ fst b = cid_enc p /\ blen (c_digest p) <= max_digest_alloc /\
            blen (fst b) + blen (snd b) <= root_max_section.

Lemma read_node_root_section c d rest :
  root_block_ok (c, d) ->
  exists p, cid_parse c = Some p /\ read_node_root (enc_section c d ++ rest) = Ok (c, p, d, rest).
Proof.
  intros (p & Hp & Hc & Hcap & Hmax). cbn [fst snd] in *. exists p. split; [rewrite Hc; apply cid_parse_enc; exact Hp|].
  unfold read_node_root. rewrite enc_section_ld, ld_read_root_ld by (rewrite blen_app; exact Hmax).
  rewrite Hc. rewrite (cid_from_reader_enc p d Hp Hcap). reflexivity.
Qed.

Section RootReader.
  Variable hok : bytes -> bytes -> option bool.
  Variable hdrdec : bytes -> option (list bytes * N).

  Lemma next_block_root_section c d rest :
    root_block_ok (c, d) -> hash_good hok (c, d) ->
    next_block_root hok (enc_section c d ++ rest) = Ok ((c, d), rest).
  Proof.
    intros Hb Hh. destruct (read_node_root_section c d rest Hb) as (p & Hp & Hr).
    unfold next_block_root. rewrite Hr. unfold verify. pose proof (Hh p Hp) as X. cbn [fst snd] in X. rewrite X. reflexivity.
  Qed.

  Lemma scan_blocks_root_sections bs :
    Forall root_block_ok bs -> Forall (hash_good hok) bs ->
    forall fuel acc, (length bs < fuel)%nat ->
    scan_blocks_root hok fuel (enc_sections bs) acc = mkscan (rev acc ++ bs) EEof.
  Proof.
    intros Hok Hh. induction bs as [|[c d] bs IH]; intros fuel acc Hf.
    - destruct fuel; [cbn in Hf; lia|]. cbn. rewrite app_nil_r. reflexivity.
    - destruct fuel; [cbn in Hf; lia|]. cbn [scan_blocks_root].
      rewrite enc_sections_cons. cbn [fst snd].
      rewrite next_block_root_section; [|exact (Forall_inv Hok)|exact (Forall_inv Hh)].
      rewrite IH; [|exact (Forall_inv_tail Hok)|exact (Forall_inv_tail Hh)|cbn in Hf; lia].
      cbn [rev]. rewrite <- app_assoc. reflexivity.
  Qed.

  (* root-module car.NewCarReader + Next loop (also what car.LoadCar stores, in order) *)
  Theorem root_read_all_v1 ro bs :
    hdrdec (enc_header ro 1) = Some (hdr_roots ro, 1) -> blen (enc_header ro 1) <= root_max_section ->
    hdr_roots ro <> [] ->
    Forall root_block_ok bs -> Forall (hash_good hok) bs ->
    root_read_all hok hdrdec (ld (enc_header ro 1) ++ enc_sections bs) = Ok (hdr_roots ro, mkscan bs EEof).
  Proof.
    intros Hg Hmax Hne Hok Hh. unfold root_read_all, read_header_root.
    rewrite ld_read_root_ld by exact Hmax. rewrite Hg. cbn [N.eqb Pos.eqb negb].
    destruct (hdr_roots ro) as [|r rs]; [congruence|].
    unfold scan_all_root. rewrite scan_blocks_root_sections; try assumption; [reflexivity|].
    pose proof (enc_sections_length hok hdrdec bs). lia.
  Qed.
End RootReader.
