(* C03: ReadOrGenerateIndex.  Version 1, or version 2 without an index: it is GenerateIndex over the
   data reader, i.e. the index of exactly the payload's section records; version 2 with an index:
   it is index.ReadFrom at IndexOffset -- and when the file carries its payload's own index (what
   Finalize / GenerateIndex wrote), that is again the index of the section records, so the
   soundness / completeness theorems apply to the result unchanged. *)
From Coq Require Import Permutation Sorting.Sorted.
From GoCar Require Import Bytes Varint Cid Header Frame V2Header Scan Index IndexGen.
From GoCarProofs Require Import BytesFacts VarintFacts CidFacts HeaderFacts ScanFacts
  IndexKv IndexSort IndexCompact IndexSearch IndexRoundtrip IndexLoad IndexCanon IndexGenFacts IndexGenLookup.

Section Rog.
  Variable hdrdec : bytes -> option (list bytes * N).
  Variable srt : list irec -> list irec.

  (* the two headers of a constructed CARv2 as NewReader reads them *)
  Lemma v2_container_headers o hi lo ioff pad payload trailer :
    pragma_good hdrdec o -> hi < two64 -> lo < two64 -> ioff < two63 -> 0 < blen payload ->
    blen (v2_container hi lo ioff pad payload trailer) < two63 ->
    (exists r rest, read_header hdrdec (g_maxh o) (v2_container hi lo ioff pad payload trailer) = Ok (r, 2, rest, 11)) /\
    read_v2hdr (take 40 (drop 11 (v2_container hi lo ioff pad payload trailer)))
    = Ok (mkv2 hi lo (51 + blen pad) (blen payload) ioff, []).
  Proof.
    intros ((r & Hprag) & Hmaxp) Hhi Hlo Hio Hpay Hall.
    set (h := mkv2 hi lo (51 + blen pad) (blen payload) ioff).
    assert (Hcont : blen (v2_container hi lo ioff pad payload trailer) = 51 + blen pad + blen payload + blen trailer).
    { unfold v2_container. rewrite !blen_app, blen_enc_v2hdr. change (blen pragma) with 11. lia. }
    assert (Hv : v2hdr_ok h).
    { unfold v2hdr_ok, h. cbn [h_hi h_lo h_doff h_dsize h_ioff]. rewrite Hcont in Hall. repeat split; try assumption; lia. }
    set (all := v2_container hi lo ioff pad payload trailer) in *.
    assert (Eall0 : all = ld pragma_body ++ (enc_v2hdr h ++ pad ++ payload ++ trailer)) by reflexivity.
    split.
    - exists r, (enc_v2hdr h ++ pad ++ payload ++ trailer).
      rewrite Eall0. unfold read_header. rewrite ld_read_ld; [|cbv; reflexivity|change (blen pragma_body) with 10; lia|discriminate].
      rewrite Hprag. reflexivity.
    - assert (E11 : drop 11 all = enc_v2hdr h ++ pad ++ payload ++ trailer).
      { rewrite Eall0. change 11 with (blen (ld pragma_body)). apply drop_app. }
      rewrite E11. rewrite <- (blen_enc_v2hdr h) at 1. rewrite take_app.
      rewrite <- (app_nil_r (enc_v2hdr h)) at 1. apply (read_v2hdr_enc h [] Hv).
  Qed.

  Lemma payload_nonempty roots bs : 0 < blen (enc_payload roots bs).
  Proof.
    rewrite (blen_payload_split roots bs). unfold hlen_of, ld_size.
    pose proof (uv_size_pos (blen (enc_header (Some roots) 1))). lia.
  Qed.

  (* (a) CARv1: generate *)
  Theorem rog_v1 codec i0 o roots bs :
    idx_new codec = Some i0 ->
    hdr_fits hdrdec o roots -> Forall gblock_ok bs -> Forall (cid_fits o) bs ->
    blen (enc_payload roots bs) < two63 ->
    read_or_generate_index_with srt hdrdec codec o (enc_payload roots bs)
    = Ok (idx_load_with srt (section_recs o (hlen_of roots) bs) i0).
  Proof.
    intros Hnew Hh Hok Hfit Hall. unfold read_or_generate_index_with.
    destruct Hh as (Hg & Hmax & H63).
    unfold enc_payload at 1. rewrite (read_header_payload hdrdec (g_maxh o) roots _ Hg Hmax H63).
    change (1 =? 1) with true. cbv iota. unfold generate_index_reader_at_with. rewrite Hnew.
    rewrite (load_index_reader_at_v1 hdrdec o roots bs); [reflexivity|repeat split; assumption|assumption..].
  Qed.

  (* (b) CARv2 without an index (IndexOffset = 0): generate from the data payload *)
  Theorem rog_v2_without_index codec i0 o hi lo pad roots bs trailer :
    idx_new codec = Some i0 ->
    pragma_good hdrdec o -> hdr_fits hdrdec o roots -> Forall gblock_ok bs -> Forall (cid_fits o) bs ->
    hi < two64 -> lo < two64 ->
    blen (v2_container hi lo 0 pad (enc_payload roots bs) trailer) < two63 ->
    read_or_generate_index_with srt hdrdec codec o (v2_container hi lo 0 pad (enc_payload roots bs) trailer)
    = Ok (idx_load_with srt (section_recs o (hlen_of roots) bs) i0).
  Proof.
    intros Hnew Hp Hh Hok Hfit Hhi Hlo Hall. unfold read_or_generate_index_with.
    destruct (v2_container_headers o hi lo 0 pad (enc_payload roots bs) trailer Hp Hhi Hlo
                ltac:(unfold two63; lia) (payload_nonempty roots bs) Hall) as ((r & rest & E1) & E2).
    rewrite E1. change (2 =? 1) with false. change (2 =? 2) with true. change (11 =? 11) with true. cbv iota. cbn [negb].
    rewrite E2. unfold has_index. cbn [h_ioff N.eqb negb].
    unfold generate_index_reader_at_with. rewrite Hnew.
    rewrite (load_index_reader_at_v2 hdrdec o hi lo 0 pad roots bs trailer Hp Hh Hok Hfit Hhi Hlo ltac:(unfold two63; lia) Hall).
    reflexivity.
  Qed.

  (* (c) CARv2 with an index: whatever index.ReadFrom makes of the bytes at IndexOffset; nothing
     is scanned and the codec option is ignored *)
  Theorem rog_v2_reads_index codec o hi lo ioff pad payload trailer :
    pragma_good hdrdec o -> hi < two64 -> lo < two64 -> 0 < ioff < two63 -> 0 < blen payload ->
    blen (v2_container hi lo ioff pad payload trailer) < two63 ->
    read_or_generate_index_with srt hdrdec codec o (v2_container hi lo ioff pad payload trailer)
    = match idx_read (drop ioff (v2_container hi lo ioff pad payload trailer)) with
      | Ok (i, _) => Ok i
      | Err e => Err e
      end.
  Proof.
    intros Hp Hhi Hlo Hio Hpay Hall. unfold read_or_generate_index_with.
    destruct (v2_container_headers o hi lo ioff pad payload trailer Hp Hhi Hlo ltac:(lia) Hpay Hall) as ((r & rest & E1) & E2).
    rewrite E1. change (2 =? 1) with false. change (2 =? 2) with true. change (11 =? 11) with true. cbv iota. cbn [negb].
    rewrite E2. unfold has_index. cbn [h_ioff]. replace (ioff =? 0) with false by lia. reflexivity.
  Qed.

  (* ... in particular a written index, anywhere after the payload (index padding [gap]), comes back *)
  Theorem rog_v2_with_written_index codec o hi lo pad payload gap i rest :
    pragma_good hdrdec o -> hi < two64 -> lo < two64 -> 0 < blen payload -> idx_wf i ->
    blen (v2_container hi lo (51 + blen pad + blen payload + blen gap) pad payload (gap ++ idx_write i ++ rest)) < two63 ->
    read_or_generate_index_with srt hdrdec codec o
      (v2_container hi lo (51 + blen pad + blen payload + blen gap) pad payload (gap ++ idx_write i ++ rest))
    = Ok i.
  Proof.
    intros Hp Hhi Hlo Hpay Hwf Hall.
    set (ioff := 51 + blen pad + blen payload + blen gap) in *.
    assert (Hcont : blen (v2_container hi lo ioff pad payload (gap ++ idx_write i ++ rest))
                    = 51 + blen pad + blen payload + blen (gap ++ idx_write i ++ rest)).
    { unfold v2_container. rewrite !blen_app, blen_enc_v2hdr. change (blen pragma) with 11. lia. }
    rewrite rog_v2_reads_index; try assumption.
    - set (h := mkv2 hi lo (51 + blen pad) (blen payload) ioff).
      assert (Ed : drop ioff (v2_container hi lo ioff pad payload (gap ++ idx_write i ++ rest)) = idx_write i ++ rest).
      { unfold v2_container. fold h.
        replace (pragma ++ enc_v2hdr h ++ pad ++ payload ++ gap ++ idx_write i ++ rest)
          with ((pragma ++ enc_v2hdr h ++ pad ++ payload ++ gap) ++ idx_write i ++ rest)
          by (rewrite <- !app_assoc; reflexivity).
        replace ioff with (blen (pragma ++ enc_v2hdr h ++ pad ++ payload ++ gap))
          by (rewrite !blen_app, blen_enc_v2hdr; change (blen pragma) with 11; unfold ioff; lia).
        apply drop_app. }
      rewrite Ed, (idx_read_write i rest Hwf). reflexivity.
    - rewrite Hcont in Hall. rewrite !blen_app in Hall. unfold ioff. lia.
  Qed.

  (* (d) the file carries ITS PAYLOAD'S OWN index (built by any sort.Sort [srt'] under codec'):
     the result is the index of the section records, exactly as when generating *)
  Theorem rog_v2_with_own_index (srt' : list irec -> list irec) codec codec' i0' o hi lo pad roots bs gap rest :
    sort_contract srt' -> idx_new codec' = Some i0' ->
    pragma_good hdrdec o -> hi < two64 -> lo < two64 ->
    Forall gblock_ok bs -> blen (enc_payload roots bs) < two63 ->
    fits codec' (section_recs o (hlen_of roots) bs) ->
    let i := idx_load_with srt' (section_recs o (hlen_of roots) bs) i0' in
    blen (v2_container hi lo (51 + blen pad + blen (enc_payload roots bs) + blen gap) pad (enc_payload roots bs)
            (gap ++ idx_write i ++ rest)) < two63 ->
    read_or_generate_index_with srt hdrdec codec o
      (v2_container hi lo (51 + blen pad + blen (enc_payload roots bs) + blen gap) pad (enc_payload roots bs)
         (gap ++ idx_write i ++ rest))
    = Ok i.
  Proof.
    intros Hs' Hnew' Hp Hhi Hlo Hok Hpl Hfits i Hall.
    apply rog_v2_with_written_index; try assumption.
    - apply payload_nonempty.
    - apply (idx_load_fresh_wf srt' Hs' codec' i0'); [exact Hnew'| |exact Hfits].
      apply section_recs_ok; assumption.
  Qed.
End Rog.

(* ---- soundness and completeness lifted to ReadOrGenerateIndex ------------------------------------- *)
Definition answers_exactly (o : gopts) (codec : N) (roots : list bytes) (bs : list block) (i : index) : Prop :=
  forall code d,
    Permutation (idx_getall i code d)
                (spec_lookup o (negb (codec =? codec_sorted)) code d (hlen_of roots) bs) /\
    (forall off, In off (idx_getall i code d) ->
       exists c dd, section_at (enc_payload roots bs) off = Some (c, dd) /\
                    section_indexed o c = true /\ key_match (negb (codec =? codec_sorted)) code d c = true).

Lemma loaded_answers_exactly (srt : list irec -> list irec) o codec i0 roots bs :
  sort_contract srt -> idx_new codec = Some i0 ->
  Forall gblock_ok bs -> blen (enc_payload roots bs) < two63 ->
  recs_fit (section_recs o (hlen_of roots) bs) ->
  answers_exactly o codec roots bs (idx_load_with srt (section_recs o (hlen_of roots) bs) i0).
Proof.
  intros Hs Hnew Hok Hall Hfit code d. split.
  - apply gen_getall_exact; assumption.
  - intros off Hin. eapply gen_getall_sound; eassumption.
Qed.

Section RogLift.
  Variable hdrdec : bytes -> option (list bytes * N).
  Variable srt : list irec -> list irec.
  Hypothesis srt_ok : sort_contract srt.

  Theorem rog_generated_answers_exactly codec i0 o hi lo pad roots bs trailer :
    idx_new codec = Some i0 ->
    pragma_good hdrdec o -> hdr_fits hdrdec o roots -> Forall gblock_ok bs -> Forall (cid_fits o) bs ->
    hi < two64 -> lo < two64 ->
    blen (v2_container hi lo 0 pad (enc_payload roots bs) trailer) < two63 ->
    recs_fit (section_recs o (hlen_of roots) bs) ->
    exists i,
      read_or_generate_index_with srt hdrdec codec o (enc_payload roots bs) = Ok i /\
      read_or_generate_index_with srt hdrdec codec o (v2_container hi lo 0 pad (enc_payload roots bs) trailer) = Ok i /\
      answers_exactly o codec roots bs i.
  Proof.
    intros Hnew Hp Hh Hok Hfit Hhi Hlo Hall Hrf.
    assert (Hpl : blen (enc_payload roots bs) < two63).
    { unfold v2_container in Hall. rewrite !blen_app in Hall. lia. }
    exists (idx_load_with srt (section_recs o (hlen_of roots) bs) i0).
    split; [apply rog_v1; assumption|]. split; [apply rog_v2_without_index; assumption|].
    apply loaded_answers_exactly; assumption.
  Qed.

  Theorem rog_own_index_answers_exactly (srt' : list irec -> list irec) codec codec' i0' o hi lo pad roots bs gap rest :
    sort_contract srt' -> idx_new codec' = Some i0' ->
    pragma_good hdrdec o -> hi < two64 -> lo < two64 ->
    Forall gblock_ok bs -> blen (enc_payload roots bs) < two63 ->
    fits codec' (section_recs o (hlen_of roots) bs) ->
    blen (v2_container hi lo (51 + blen pad + blen (enc_payload roots bs) + blen gap) pad (enc_payload roots bs)
            (gap ++ idx_write (idx_load_with srt' (section_recs o (hlen_of roots) bs) i0') ++ rest)) < two63 ->
    exists i,
      read_or_generate_index_with srt hdrdec codec o
        (v2_container hi lo (51 + blen pad + blen (enc_payload roots bs) + blen gap) pad (enc_payload roots bs)
           (gap ++ idx_write (idx_load_with srt' (section_recs o (hlen_of roots) bs) i0') ++ rest)) = Ok i /\
      answers_exactly o codec' roots bs i.
  Proof.
    intros Hs' Hnew' Hp Hhi Hlo Hok Hpl Hfits Hall.
    exists (idx_load_with srt' (section_recs o (hlen_of roots) bs) i0'). split.
    - apply (rog_v2_with_own_index hdrdec srt srt' codec codec' i0' o hi lo pad roots bs gap rest); assumption.
    - apply loaded_answers_exactly; try assumption. apply Hfits.
  Qed.
End RogLift.
