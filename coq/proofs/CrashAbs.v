(* C06: the abstract map (C04's [StoreSpec.abs]) of the store a crash image resumes into.
   (1) for every guarded crash point: it is the specification's stored list ([Wf.spec_stored], the
       ShouldPut decision folded over a put history) of the ACKNOWLEDGED puts, plus possibly puts of
       the crashing process that were in flight and whose section is completely in the image;
   (2) crash inside the writes Resume itself issued (Truncate, header zeroing; class resume-phase):
       the second resume is refused with the image untouched, or yields exactly the state the first
       resume was building -- same file, index, position as [start], abstract map = the
       specification's map of the puts acknowledged by the earlier processes. *)
From Coq Require Import Permutation.
From GoCar Require Import Bytes Varint Cid Header Frame V2Header Index Scan Store Crash StoreSpec Wf.
From GoCarProofs Require StoreInv StoreSpecFacts StoreSpecCor FinalMain.
From GoCarProofs Require Import BytesFacts VarintFacts CidFacts HeaderFacts ScanFacts ResumeFacts ResumeInv ResumeReject
     CrashImage CrashScan CrashResume CrashPut CrashDev CrashPartial CrashResumePhase CrashTheorems CrashGuarded.

Section A.
  Variable hdrdec : bytes -> option (list bytes * N).
  Variables (k : skind) (o : wopts) (nilroots : bool) (roots : list bytes).
  Hypothesis Hpar : params_ok hdrdec o nilroots roots.
  Hypothesis Hkind : kind_ok k o.

  Notation Inv := (ResumeInv.Inv k o nilroots roots).
  Notation abs_put := (abs_put o nilroots roots).
  Notation abs_puts := (abs_puts o nilroots roots).
  Notation budget := (budget o nilroots roots).
  Notation fits := (ResumeInv.fits o nilroots roots).
  Notation hdr := (hdr nilroots roots).

  (* a put the store decides to write is acknowledged (no write faults in these sessions) *)
  Lemma put_one_nil s st c d p :
    Inv s st -> should_put o (idx_of nilroots roots st) c p = Ok true -> snd (put_one s c d p) = ONil.
  Proof.
    intros HI Es. unfold put_one.
    rewrite (inv_opts _ _ _ _ _ _ HI), (inv_idx _ _ _ _ _ _ HI), Es.
    rewrite write_chunks_nofault by exact (inv_faults _ _ _ _ _ _ HI).
    reflexivity.
  Qed.

  (* ... so a put that is NOT acknowledged leaves the stored list as it was *)
  Lemma put_not_nil_abs s st b : Inv s st -> is_onil (snd (fe_put s b)) = false -> abs_put st b = st.
  Proof.
    intros HI Hn. destruct b as [c d]. unfold ResumeInv.abs_put. cbn [fst].
    destruct (cid_parse c) as [p|] eqn:Ep; [|reflexivity].
    destruct (should_put o (idx_of nilroots roots st) c p) as [[|]|e] eqn:Es; try reflexivity.
    exfalso. pose proof (put_one_nil s st c d p HI Es) as H1.
    unfold fe_put in Hn. destruct (ws_kind s).
    - unfold bs_put_many in Hn. rewrite (inv_closed _ _ _ _ _ _ HI), (inv_fin _ _ _ _ _ _ HI) in Hn.
      cbn [put_many_loop] in Hn. rewrite Ep in Hn.
      destruct (put_one s c d p) as [s' [| | | | |]]; cbn [snd] in *; try discriminate.
    - unfold st_put in Hn. cbn [fst snd] in Hn. rewrite Ep in Hn.
      rewrite (inv_closed _ _ _ _ _ _ HI), (inv_fin _ _ _ _ _ _ HI) in Hn. rewrite H1 in Hn. discriminate.
  Qed.

  (* the specification's stored list depends on the acknowledged puts only *)
  Lemma abs_puts_acked L : forall s st,
    Inv s st -> budget st L -> abs_puts st (puts_acked s L) = abs_puts st L.
  Proof.
    induction L as [|b r IH]; intros s st HI Hb; [reflexivity|].
    cbn [puts_acked]. unfold ResumeInv.budget in Hb.
    pose proof (abs_puts_size o nilroots roots [b] st) as Hs1.
    unfold ResumeInv.abs_puts in Hs1. cbn [fold_left] in Hs1.
    change (b :: r) with ([b] ++ r) in Hb. rewrite enc_sections_app, blen_app in Hb.
    assert (Hfit : fits (abs_put st b)) by (unfold ResumeInv.fits; unfold block in *; lia).
    pose proof (fe_put_inv hdrdec k o nilroots roots Hpar s st b HI Hfit) as HI'.
    assert (Hb' : budget (abs_put st b) r) by (unfold ResumeInv.budget; unfold block in *; lia).
    destruct (fe_put s b) as [s' ro] eqn:Efp. cbn [fst] in HI'.
    destruct (is_onil ro) eqn:Eo.
    - unfold ResumeInv.abs_puts at 1 2. cbn [fold_left]. fold (abs_puts (abs_put st b) (puts_acked s' r)).
      fold (abs_puts (abs_put st b) r). apply (IH s' _ HI' Hb').
    - assert (Hsame : abs_put st b = st) by (apply (put_not_nil_abs s st b HI); rewrite Efp; exact Eo).
      unfold ResumeInv.abs_puts at 2. cbn [fold_left]. fold (abs_puts (abs_put st b) r).
      rewrite Hsame in *. apply (IH s' st HI' Hb').
  Qed.

  (* ... across the earlier processes of a session *)
  Lemma run_segs_f_acked segs : forall s st f0 acked f0' start acked',
    Inv s st -> budget st (concat (map fst segs)) ->
    abs_puts [] acked = st ->
    run_segs_f hdrdec nilroots f0 s acked segs = Some (f0', start, acked') ->
    abs_puts [] acked' = abs_puts st (concat (map fst segs)).
  Proof.
    induction segs as [|[bs c] r IH]; intros s st f0 acked f0' start acked' HI Hb Hacked H.
    - cbn [run_segs_f] in H. injection H as _ _ <-. cbn [map concat]. unfold ResumeInv.abs_puts at 2. cbn [fold_left].
      exact Hacked.
    - cbn [run_segs_f map concat fst] in *. unfold ResumeInv.budget in Hb.
      rewrite enc_sections_app, blen_app in Hb.
      assert (Hb1 : budget st bs) by (unfold ResumeInv.budget; lia).
      assert (HI1 : Inv (run_puts s bs) (abs_puts st bs)) by (apply (run_puts_inv hdrdec k o nilroots roots Hpar); [exact HI|exact Hb1]).
      rewrite (end_seg_file k o nilroots roots _ _ c HI1) in H.
      rewrite (inv_kind _ _ _ _ _ _ HI), (inv_opts _ _ _ _ _ _ HI), (inv_roots _ _ _ _ _ _ HI) in H.
      pose proof (abs_puts_size o nilroots roots bs st) as Hsz.
      pose proof (inv_cids _ _ _ _ _ _ HI1) as Hc1. pose proof (inv_fits _ _ _ _ _ _ HI1) as Hf1.
      assert (Hre : exists log, reopen hdrdec k o nilroots roots (cut_file o nilroots roots c (abs_puts st bs))
                                = inl (resumed_state k o nilroots roots log (abs_puts st bs))).
      { destruct (reopen_cut_forms hdrdec k o nilroots roots Hpar c (abs_puts st bs) Hc1 Hf1) as [[_ Hre]|(_ & fi & _ & Hre)];
          eexists; exact Hre. }
      destruct Hre as (log & Hre). rewrite Hre in H.
      assert (Hacc : abs_puts [] (acked ++ puts_acked s bs) = abs_puts st bs).
      { rewrite abs_puts_app, Hacked. apply (abs_puts_acked bs s st HI Hb1). }
      assert (Hbr : budget (abs_puts st bs) (concat (map fst r))) by (unfold ResumeInv.budget; lia).
      rewrite abs_puts_app.
      exact (IH _ (abs_puts st bs) _ _ _ _ _ (resumed_state_inv k o nilroots roots log _ Hc1 Hf1) Hbr Hacc H).
  Qed.

  (* the abstract map of a state with the layout invariant is its stored list *)
  Lemma abs_inv s st : Inv s st -> Forall (StoreInv.blk_ok (w_maxs o)) st ->
    StoreSpec.abs s = mkm st false false.
  Proof.
    intros HI Hok. unfold StoreSpec.abs.
    rewrite (inv_closed _ _ _ _ _ _ HI), (inv_fin _ _ _ _ _ _ HI). f_equal.
    apply (StoreSpecFacts.stored_of_inv (w_maxs o) s hdr st (inv_store_inv k o nilroots roots s st HI) Hok).
    pose proof (inv_fits _ _ _ _ _ _ HI) as Hf. unfold ResumeInv.fits in Hf.
    unfold hsz, ld_size, ResumeInv.hdr in *. lia.
  Qed.
End A.

Section Main.
  Variable hdrdec : bytes -> option (list bytes * N).
  Variable x : csess.
  Let k := cs_kind x.
  Let o := cs_opts x.
  Let nilroots := cs_nil x.
  Let roots := cs_roots x.
  Hypothesis Hpar : params_ok hdrdec o nilroots roots.
  Hypothesis Hkind : kind_ok k o.
  Hypothesis Hbud : budget o nilroots roots [] (concat (map fst (cs_pre x)) ++ cs_puts x).
  (* what the session puts: as in C04 *)
  Hypothesis Hhyg : Forall (hyg o) (cs_attempted x).

  Notation st0 := (abs_puts o nilroots roots [] (concat (map fst (cs_pre x)))).
  (* the specification's stored list of a put history, one Put call per block *)
  Notation spec L := (spec_stored k o (roots_opt nilroots roots) (singles L)).

  Lemma spec_abs_puts L : spec L = abs_puts o nilroots roots [] L.
  Proof. unfold spec_stored. apply spec_stored_singles. Qed.

  Lemma cs_start_acked f0 start acked_pre :
    cs_start hdrdec x = Some (f0, start, acked_pre) -> abs_puts o nilroots roots [] acked_pre = st0.
  Proof.
    unfold cs_start. fold k o nilroots roots.
    unfold ResumeInv.budget in Hbud. change (enc_sections []) with (@nil byte) in Hbud. rewrite blen_nil in Hbud.
    rewrite enc_sections_app, blen_app in Hbud.
    assert (Hfit0 : fits o nilroots roots []).
    { unfold fits. change (enc_sections []) with (@nil byte). rewrite blen_nil. lia. }
    rewrite (open_new_eq k o nilroots roots Hkind Hfit0).
    intros H.
    apply (run_segs_f_acked hdrdec k o nilroots roots Hpar (cs_pre x) _ [] [] [] f0 start acked_pre
             (open_state_inv k o nilroots roots Hfit0)); [|reflexivity|exact H].
    unfold ResumeInv.budget. change (enc_sections []) with (@nil byte). rewrite blen_nil. unfold block in *; lia.
  Qed.

  (* (1) every guarded crash point: the abstract map of the resumed store *)
  Theorem abs_map_thm f0 start acked_pre kk t :
    cs_start hdrdec x = Some (f0, start, acked_pre) ->
    crash_guard x start kk t = true ->
    let img := image f0 (cs_writes x start) kk t in
    refused_untouched hdrdec k o nilroots roots img \/
    exists s1 j, reopen hdrdec k o nilroots roots img = inl s1 /\
      (cs_done x start kk <= j <= length (cs_puts x))%nat /\
      StoreSpec.abs s1 = mkm (spec (acked_pre ++ puts_acked start (firstn j (cs_puts x)))) false false /\
      StoreSpec.abs s1 = StoreSpec.abs (run_puts start (firstn j (cs_puts x))).
  Proof.
    intros Hst Hg. cbv zeta.
    destruct (partial_thm hdrdec k o nilroots roots Hpar Hkind x eq_refl eq_refl eq_refl eq_refl Hbud
                          f0 start acked_pre kk t Hst Hg) as [Hl|(log & j & Hj & Hre)]; [left; exact Hl|right].
    destruct (cs_start_inv hdrdec k o nilroots roots Hpar Hkind x eq_refl eq_refl eq_refl eq_refl Hbud
                           f0 start acked_pre Hst) as (HI & _ & Hb0 & _).
    set (stj := abs_puts o nilroots roots st0 (firstn j (cs_puts x))) in *.
    pose proof (firstn_enc_sections_le (cs_puts x) j) as Hlej.
    assert (Hbj : budget o nilroots roots st0 (firstn j (cs_puts x))).
    { unfold ResumeInv.budget in *. unfold block in *; lia. }
    assert (HIj : Inv k o nilroots roots (run_puts start (firstn j (cs_puts x))) stj).
    { apply (run_puts_inv hdrdec k o nilroots roots Hpar); [exact HI|exact Hbj]. }
    pose proof (inv_cids _ _ _ _ _ _ HIj) as Hcj. pose proof (inv_fits _ _ _ _ _ _ HIj) as Hfj.
    pose proof (resumed_state_inv k o nilroots roots log stj Hcj Hfj) as HI1.
    assert (Hst0 : incl st0 (concat (map fst (cs_pre x)))) by (intros y Hy; apply (abs_puts_incl o nilroots roots [] _ y Hy)).
    assert (Hstj : incl stj (cs_attempted x)).
    { intros y Hy. apply (abs_puts_incl o nilroots roots st0 _) in Hy. unfold cs_attempted.
      apply in_app_or in Hy. destruct Hy as [Hy|Hy]; [apply in_or_app; left; apply Hst0; exact Hy|].
      apply in_or_app. right. apply (in_firstn _ _ _ Hy). }
    assert (Hokj : Forall (StoreInv.blk_ok (w_maxs o)) stj) by (apply (hyg_blk_ok o stj (cs_attempted x) Hcj Hstj Hhyg)).
    exists (resumed_state k o nilroots roots log stj), j.
    split; [exact Hre|]. split; [exact Hj|].
    rewrite (abs_inv k o nilroots roots _ stj HI1 Hokj).
    rewrite (abs_inv k o nilroots roots _ stj HIj Hokj).
    split; [|reflexivity]. f_equal.
    rewrite spec_abs_puts, abs_puts_app, (cs_start_acked f0 start acked_pre Hst).
    symmetry. apply (abs_puts_acked hdrdec k o nilroots roots Hpar _ start st0 HI Hbj).
  Qed.
  (* (2) class resume-phase: a crash inside the writes Resume itself issued *)
  Theorem resume_phase_thm f0 start acked_pre kk t :
    cs_start hdrdec x = Some (f0, start, acked_pre) ->
    crash_class x start kk t = CResume ->
    let img := image f0 (cs_writes x start) kk t in
    refused_untouched hdrdec k o nilroots roots img \/
    exists s1, reopen hdrdec k o nilroots roots img = inl s1 /\
      ws_file s1 = ws_file start /\ ws_idx s1 = ws_idx start /\ ws_pos s1 = ws_pos start /\
      cs_acked x start acked_pre kk = acked_pre /\
      StoreSpec.abs s1 = mkm (spec acked_pre) false false /\
      StoreSpec.abs s1 = StoreSpec.abs start.
  Proof.
    intros Hst Hc. cbv zeta.
    destruct (cs_start_inv hdrdec k o nilroots roots Hpar Hkind x eq_refl eq_refl eq_refl eq_refl Hbud
                           f0 start acked_pre Hst) as (HI & Hdev & Hb & Hfresh & Hres).
    destruct (cs_writes_shape hdrdec k o nilroots roots Hpar x start st0 HI Hb) as (F & HW & _).
    unfold crash_class in Hc.
    destruct (loglen (cs_end x start) <=? kk)%nat; [discriminate|].
    destruct (kk <? loglen start)%nat eqn:E2.
    2:{ destruct (put_class start (cs_puts x) (kk - loglen start) t) as [cl|] eqn:Epc.
        - destruct (put_class_range _ _ _ _ _ Epc) as [->|[->| ->]]; discriminate.
        - destruct ((kk =? loglen (cs_after_puts x start))%nat && (t =? 0)); [discriminate|].
          destruct (S kk =? loglen (cs_end x start))%nat; [|discriminate].
          destruct (t =? 0); [discriminate|]. destruct (t <? 24); discriminate. }
    assert (Hpre : cs_pre x <> []) by (intros E; rewrite E in Hc; discriminate).
    assert (Hack : cs_acked x start acked_pre kk = acked_pre).
    { unfold cs_acked, cs_done. rewrite E2. cbn [firstn puts_acked]. apply app_nil_r. }
    apply Nat.ltb_lt in E2.
    destruct (Hres Hpre) as (Hr1 & Hr2).
    destruct (w_v1 o) eqn:Ev; [rewrite (Hr1 eq_refl) in E2; lia|].
    rewrite HW.
    destruct (resume_phase_images hdrdec k o nilroots roots Hpar Ev f0 start st0 kk t
                (sess_writes o nilroots roots st0 (cs_puts x) ++ F) (Hr2 eq_refl)
                (inv_cids _ _ _ _ _ _ HI) (inv_fits _ _ _ _ _ _ HI) E2) as (Hne & [(log & Hr)|Hr]).
    - right. pose proof (resumed_state_inv k o nilroots roots log st0 (inv_cids _ _ _ _ _ _ HI) (inv_fits _ _ _ _ _ _ HI)) as HI1.
      assert (Hst0 : incl st0 (cs_attempted x)).
      { intros y Hy. apply (abs_puts_incl o nilroots roots [] _ y) in Hy. unfold cs_attempted.
        apply in_or_app. left. exact Hy. }
      assert (Hok0 : Forall (StoreInv.blk_ok (w_maxs o)) st0)
        by (apply (hyg_blk_ok o st0 (cs_attempted x) (inv_cids _ _ _ _ _ _ HI) Hst0 Hhyg)).
      exists (resumed_state k o nilroots roots log st0).
      split; [rewrite (reopen_nonempty hdrdec k o nilroots roots _ Hne); exact Hr|].
      split; [rewrite (inv_file _ _ _ _ _ _ HI1), (inv_file _ _ _ _ _ _ HI); reflexivity|].
      split; [rewrite (inv_idx _ _ _ _ _ _ HI1), (inv_idx _ _ _ _ _ _ HI); reflexivity|].
      split; [rewrite (inv_pos _ _ _ _ _ _ HI1), (inv_pos _ _ _ _ _ _ HI); reflexivity|].
      split; [exact Hack|].
      rewrite (abs_inv k o nilroots roots _ st0 HI1 Hok0), (abs_inv k o nilroots roots _ st0 HI Hok0).
      split; [|reflexivity]. f_equal. rewrite spec_abs_puts.
      symmetry. exact (cs_start_acked f0 start acked_pre Hst).
    - left. exists EOther. eexists.
      split; [rewrite (reopen_nonempty hdrdec k o nilroots roots _ Hne); exact Hr|reflexivity].
  Qed.
  (* (3) the continuation of a resumed crash image, finalized, IS the file of a crash-free session
     (C05's [Wf.session]) over the puts of the earlier processes, the first j puts of the crashed one
     and the continuation's: every C05 theorem about finished files applies to it *)
  Theorem continuation_thm f0 start acked_pre kk t :
    cs_start hdrdec x = Some (f0, start, acked_pre) ->
    crash_guard x start kk t = true ->
    let img := image f0 (cs_writes x start) kk t in
    refused_untouched hdrdec k o nilroots roots img \/
    exists s1 j, reopen hdrdec k o nilroots roots img = inl s1 /\
      (cs_done x start kk <= j <= length (cs_puts x))%nat /\
      forall more,
        51 + w_dpad o + w_ipad o + ld_size (blen (enc_header (roots_opt nilroots roots) 1))
          + blen (enc_sections (cs_attempted x)) + blen (enc_sections more) < two63 ->
        w_v1 o = true \/ idx_new (w_codec o) <> None ->
        let L := concat (map fst (cs_pre x)) ++ firstn j (cs_puts x) ++ more in
        snd (fe_finalize (run_puts s1 more)) = ONil /\
        incl L (cs_attempted x ++ more) /\
        exists sF outs, session k o nilroots roots (singles L) = Ok (sF, outs, ONil) /\
          ws_file sF = ws_file (fst (fe_finalize (run_puts s1 more))).
  Proof.
    intros Hst Hg. cbv zeta.
    destruct (partial_thm hdrdec k o nilroots roots Hpar Hkind x eq_refl eq_refl eq_refl eq_refl Hbud
                          f0 start acked_pre kk t Hst Hg) as [Hl|(log & j & Hj & Hre)]; [left; exact Hl|right].
    destruct (cs_start_inv hdrdec k o nilroots roots Hpar Hkind x eq_refl eq_refl eq_refl eq_refl Hbud
                           f0 start acked_pre Hst) as (HI & _ & Hb0 & _).
    set (stj := abs_puts o nilroots roots st0 (firstn j (cs_puts x))) in *.
    pose proof (firstn_enc_sections_le (cs_puts x) j) as Hlej.
    assert (HIj : Inv k o nilroots roots (run_puts start (firstn j (cs_puts x))) stj).
    { apply (run_puts_inv hdrdec k o nilroots roots Hpar); [exact HI|]. unfold ResumeInv.budget in *. unfold block in *; lia. }
    pose proof (inv_cids _ _ _ _ _ _ HIj) as Hcj. pose proof (inv_fits _ _ _ _ _ _ HIj) as Hfj.
    pose proof (resumed_state_inv k o nilroots roots log stj Hcj Hfj) as HI1.
    set (s1 := resumed_state k o nilroots roots log stj) in *.
    exists s1, j. split; [exact Hre|]. split; [exact Hj|].
    intros more Hbm Hcodec.
    set (stF := abs_puts o nilroots roots stj more).
    set (Lpre := concat (map fst (cs_pre x))) in *.
    set (Lall := Lpre ++ firstn j (cs_puts x) ++ more).
    assert (HstF : abs_puts o nilroots roots [] Lall = stF).
    { unfold Lall, stF, stj. rewrite !abs_puts_app. reflexivity. }
    assert (Hsz1 : blen (enc_sections (Lpre ++ firstn j (cs_puts x))) <= blen (enc_sections (cs_attempted x))).
    { unfold cs_attempted. fold Lpre. rewrite !enc_sections_app, !blen_app. unfold block in *; lia. }
    assert (Hszj : blen (enc_sections stj) <= blen (enc_sections (cs_attempted x))).
    { pose proof (abs_puts_size o nilroots roots (Lpre ++ firstn j (cs_puts x)) []) as H.
      rewrite abs_puts_app in H. fold stj in H. change (enc_sections []) with (@nil byte) in H. rewrite blen_nil in H. unfold block in *; lia. }
    assert (Hbj : budget o nilroots roots stj more).
    { unfold ResumeInv.budget, hsz, ResumeInv.hdr. unfold block in *; lia. }
    assert (HIF : Inv k o nilroots roots (run_puts s1 more) stF)
      by (apply (run_puts_inv hdrdec k o nilroots roots Hpar); [exact HI1|exact Hbj]).
    assert (Hnil : snd (fe_finalize (run_puts s1 more)) = ONil)
      by (apply (fe_finalize_nil k o nilroots roots (run_puts s1 more) stF HIF Hcodec)).
    split; [exact Hnil|].
    assert (HLall : incl Lall (cs_attempted x ++ more)).
    { unfold Lall, cs_attempted. fold Lpre. intros y Hy. apply in_app_or in Hy. destruct Hy as [Hy|Hy].
      - apply in_or_app. left. apply in_or_app. left. exact Hy.
      - apply in_app_or in Hy. destruct Hy as [Hy|Hy].
        + apply in_or_app. left. apply in_or_app. right. apply (in_firstn _ _ _ Hy).
        + apply in_or_app. right. exact Hy. }
    split; [exact HLall|].
    assert (Hfit0 : fits o nilroots roots []).
    { unfold ResumeInv.budget in Hbud. unfold fits. change (enc_sections []) with (@nil byte) in *. rewrite blen_nil in *. unfold block in *; lia. }
    pose proof (open_new_eq k o nilroots roots Hkind Hfit0) as Hopen.
    assert (HballL : budget o nilroots roots [] Lall).
    { unfold ResumeInv.budget, Lall, hsz, ResumeInv.hdr. change (enc_sections []) with (@nil byte). rewrite blen_nil.
      rewrite app_assoc, enc_sections_app, blen_app. unfold block in *; lia. }
    assert (HIfresh : Inv k o nilroots roots (run_puts (open_state k o nilroots roots) Lall) stF).
    { rewrite <- HstF. apply (run_puts_inv hdrdec k o nilroots roots Hpar); [apply open_state_inv; exact Hfit0|exact HballL]. }
    destruct (session_singles k o nilroots roots Lall _ Hopen) as (outs & Hsess).
    rewrite (fe_finalize_nil k o nilroots roots _ stF HIfresh Hcodec) in Hsess.
    eexists. exists outs. split; [exact Hsess|].
    change (fst (fe_finalize ?s)) with (end_seg CFinalize s).
    rewrite (end_seg_file k o nilroots roots _ _ CFinalize HIfresh), (end_seg_file k o nilroots roots _ _ CFinalize HIF).
    reflexivity.
  Qed.
End Main.

(* ---- statements as they appear in props/C06.v ------------------------------------------------------ *)
Theorem C06_abstract_map_thm :
  forall (hdrdec : bytes -> option (list bytes * N)) (x : csess) (f0 : bytes) (start : wstate)
         (acked_pre : list (bytes * bytes)) (k : nat) (t : N),
    let o := cs_opts x in
    let hdr := enc_header (roots_opt (cs_nil x) (cs_roots x)) 1 in
    let wellformed_put (b : bytes * bytes) :=
      cid_parse (fst b) <> None ->
      (exists p, cid_ok p /\ fst b = cid_enc p /\ blen (c_digest p) <= max_digest_alloc) /\
      blen (fst b) + blen (snd b) <= w_maxs o /\ blen (fst b) + blen (snd b) < two63 in
    let spec (L : list (bytes * bytes)) :=
      spec_stored (cs_kind x) o (roots_opt (cs_nil x) (cs_roots x)) (map (fun b => [b]) L) in
    hdrdec hdr = Some (cs_roots x, 1) ->
    (exists r, hdrdec pragma_body = Some (r, 2)) ->
    blen hdr <= w_maxh o -> w_maxcid o <= max_digest_alloc ->
    match cs_kind x with KStorage false => negb (w_v1 o) | _ => false end = false ->
    51 + w_dpad o + w_ipad o + ld_size (blen hdr)
      + blen (enc_sections (concat (map fst (cs_pre x)) ++ cs_puts x)) < two63 ->
    Forall wellformed_put (cs_attempted x) ->
    cs_start hdrdec x = Some (f0, start, acked_pre) ->
    crash_guard x start k t = true ->
    let img := image f0 (cs_writes x start) k t in
    (exists e dv, reopen hdrdec (cs_kind x) o (cs_nil x) (cs_roots x) img = inr (e, dv) /\ d_file dv = img)
    \/
    (exists s1 j, reopen hdrdec (cs_kind x) o (cs_nil x) (cs_roots x) img = inl s1 /\
       (cs_done x start k <= j <= length (cs_puts x))%nat /\
       StoreSpec.abs s1 = mkm (spec (acked_pre ++ puts_acked start (firstn j (cs_puts x)))) false false /\
       StoreSpec.abs s1 = StoreSpec.abs (run_puts start (firstn j (cs_puts x)))).
Proof.
  intros hdrdec x f0 start acked_pre k t o hdr wellformed_put spec H1 H2 H3 H5 H6 H7 Hwf Hst Hg.
  assert (Hpar : params_ok hdrdec o (cs_nil x) (cs_roots x)) by (constructor; assumption).
  assert (Hb : budget o (cs_nil x) (cs_roots x) [] (concat (map fst (cs_pre x)) ++ cs_puts x)).
  { unfold budget. change (enc_sections []) with (@nil byte). rewrite blen_nil. unfold hsz, ResumeInv.hdr. fold hdr. lia. }
  exact (abs_map_thm hdrdec x Hpar H6 Hb Hwf f0 start acked_pre k t Hst Hg).
Qed.

Theorem C06_resume_phase_thm :
  forall (hdrdec : bytes -> option (list bytes * N)) (x : csess) (f0 : bytes) (start : wstate)
         (acked_pre : list (bytes * bytes)) (k : nat) (t : N),
    let o := cs_opts x in
    let hdr := enc_header (roots_opt (cs_nil x) (cs_roots x)) 1 in
    let wellformed_put (b : bytes * bytes) :=
      cid_parse (fst b) <> None ->
      (exists p, cid_ok p /\ fst b = cid_enc p /\ blen (c_digest p) <= max_digest_alloc) /\
      blen (fst b) + blen (snd b) <= w_maxs o /\ blen (fst b) + blen (snd b) < two63 in
    let spec (L : list (bytes * bytes)) :=
      spec_stored (cs_kind x) o (roots_opt (cs_nil x) (cs_roots x)) (map (fun b => [b]) L) in
    hdrdec hdr = Some (cs_roots x, 1) ->
    (exists r, hdrdec pragma_body = Some (r, 2)) ->
    blen hdr <= w_maxh o -> w_maxcid o <= max_digest_alloc ->
    match cs_kind x with KStorage false => negb (w_v1 o) | _ => false end = false ->
    51 + w_dpad o + w_ipad o + ld_size (blen hdr)
      + blen (enc_sections (concat (map fst (cs_pre x)) ++ cs_puts x)) < two63 ->
    Forall wellformed_put (cs_attempted x) ->
    cs_start hdrdec x = Some (f0, start, acked_pre) ->
    crash_class x start k t = CResume ->
    let img := image f0 (cs_writes x start) k t in
    crash_guard x start k t = true /\
    ((exists e dv, reopen hdrdec (cs_kind x) o (cs_nil x) (cs_roots x) img = inr (e, dv) /\ d_file dv = img)
     \/
     (exists s1, reopen hdrdec (cs_kind x) o (cs_nil x) (cs_roots x) img = inl s1 /\
        ws_file s1 = ws_file start /\ ws_idx s1 = ws_idx start /\ ws_pos s1 = ws_pos start /\
        cs_acked x start acked_pre k = acked_pre /\
        StoreSpec.abs s1 = mkm (spec acked_pre) false false /\
        StoreSpec.abs s1 = StoreSpec.abs start)).
Proof.
  intros hdrdec x f0 start acked_pre k t o hdr wellformed_put spec H1 H2 H3 H5 H6 H7 Hwf Hst Hc.
  assert (Hpar : params_ok hdrdec o (cs_nil x) (cs_roots x)) by (constructor; assumption).
  assert (Hb : budget o (cs_nil x) (cs_roots x) [] (concat (map fst (cs_pre x)) ++ cs_puts x)).
  { unfold budget. change (enc_sections []) with (@nil byte). rewrite blen_nil. unfold hsz, ResumeInv.hdr. fold hdr. lia. }
  split; [unfold crash_guard; rewrite Hc; reflexivity|].
  exact (resume_phase_thm hdrdec x Hpar H6 Hb Hwf f0 start acked_pre k t Hst Hc).
Qed.

Lemma forall_singles {P : block -> Prop} (L big : list block) :
  Forall P big -> incl L big -> Forall (Forall P) (singles L).
Proof.
  intros Hb Hi. unfold singles. apply Forall_forall. intros bb Hbb. apply in_map_iff in Hbb.
  destruct Hbb as (y & <- & Hy). constructor; [|constructor]. rewrite Forall_forall in Hb. apply Hb. apply Hi. exact Hy.
Qed.

Theorem C06_continuation_thm :
  forall (hok : bytes -> bytes -> option bool) (hdrdec : bytes -> option (list bytes * N)) (x : csess)
         (f0 : bytes) (start : wstate) (acked_pre : list (bytes * bytes)) (k : nat) (t : N),
    let o := cs_opts x in
    let hdr := enc_header (roots_opt (cs_nil x) (cs_roots x)) 1 in
    hdrdec hdr = Some (cs_roots x, 1) ->
    hdrdec pragma_body = Some ([], 2) ->
    blen hdr <= w_maxh o -> w_maxcid o <= max_digest_alloc ->
    match cs_kind x with KStorage false => negb (w_v1 o) | _ => false end = false ->
    51 + w_dpad o + w_ipad o + ld_size (blen hdr)
      + blen (enc_sections (concat (map fst (cs_pre x)) ++ cs_puts x)) < two63 ->
    cs_start hdrdec x = Some (f0, start, acked_pre) ->
    crash_guard x start k t = true ->
    let img := image f0 (cs_writes x start) k t in
    (exists e dv, reopen hdrdec (cs_kind x) o (cs_nil x) (cs_roots x) img = inr (e, dv) /\ d_file dv = img)
    \/
    (exists s1, reopen hdrdec (cs_kind x) o (cs_nil x) (cs_roots x) img = inl s1 /\
      forall (more : list (bytes * bytes)) (r : ropts) (validate : bool),
        let file := ws_file (fst (fe_finalize (run_puts s1 more))) in
        51 + w_dpad o + w_ipad o + ld_size (blen hdr)
          + blen (enc_sections (cs_attempted x)) + blen (enc_sections more) < two63 ->
        w_v1 o = true \/ idx_new (w_codec o) <> None ->
        snd (fe_finalize (run_puts s1 more)) = ONil /\
        (exists h sF outs,
           session (cs_kind x) o (cs_nil x) (cs_roots x) h = Ok (sF, outs, ONil) /\ ws_file sF = file /\
           incl (concat h) (cs_attempted x ++ more)) /\
        (w_maxcid o + 8 <= max_width ->
         Forall (fun b : block => blen (fst b) + blen (snd b) < 2 ^ 56) (cs_attempted x ++ more) ->
         blen file < two63 ->
         blen hdr <= o_maxh r ->
         Forall (fun b : block => blen (fst b) + blen (snd b) <= o_maxs r) (cs_attempted x ++ more) ->
         (validate = true -> Forall (hash_good hok) (cs_attempted x ++ more)) ->
         inspect_check hok hdrdec r validate file = Ok tt)).
Proof.
  intros hok hdrdec x f0 start acked_pre k t o hdr H1 H2 H3 H5 H6 H7 Hst Hg.
  assert (Hpar : params_ok hdrdec o (cs_nil x) (cs_roots x)) by (constructor; [assumption|exists []; assumption|assumption|assumption]).
  assert (Hb : budget o (cs_nil x) (cs_roots x) [] (concat (map fst (cs_pre x)) ++ cs_puts x)).
  { unfold budget. change (enc_sections []) with (@nil byte). rewrite blen_nil. unfold hsz, ResumeInv.hdr. fold hdr. lia. }
  destruct (continuation_thm hdrdec x Hpar H6 Hb f0 start acked_pre k t Hst Hg) as [Hl|(s1 & j & Hre & _ & Hcont)];
    [left; exact Hl|right].
  exists s1. split; [exact Hre|]. intros more r validate file Hbm Hcodec.
  destruct (Hcont more Hbm Hcodec) as (Hnil & Hincl & sF & outs & Hsess & Hfile).
  set (L := concat (map fst (cs_pre x)) ++ firstn j (cs_puts x) ++ more) in *.
  split; [exact Hnil|]. split.
  { exists (singles L), sF, outs. split; [exact Hsess|]. split; [exact Hfile|].
    replace (concat (singles L)) with L; [exact Hincl|].
    unfold singles. clear. induction L as [|a l IH]; [reflexivity|]. cbn [map concat app]. rewrite <- IH. reflexivity. }
  intros Hmc H56 Hflen Hmaxh Hsz Hh. unfold file. rewrite <- Hfile.
  apply (FinalMain.c05_inspect_accepts hok hdrdec (cs_kind x) o (cs_nil x) (cs_roots x) (singles L) sF outs r validate Hsess).
  - unfold two63, two64 in *. lia.
  - lia.
  - exact Hmc.
  - exact (forall_singles L _ H56 Hincl).
  - rewrite Hfile. exact Hflen.
  - exact H2.
  - exact H1.
  - exact Hmaxh.
  - exact (forall_singles L _ Hsz Hincl).
  - intros Hv. exact (forall_singles L _ (Hh Hv) Hincl).
Qed.

(* ---- non-vacuity: a session whose crashing process resumed a finalized file; Resume issued
   Truncate 158, 16 zero bytes at 11, 24 zero bytes at 27; every point inside is class resume-phase ---- *)
From GoCarProofs Require Import ResumeRefuted CrashRefuted.
Definition c6r_sess : csess :=
  mkcs KBlockstore wit_opts false [c6_root] [([(c6_c1, c6_d1)], CFinalize)] [(c6_c2, c6_d2)] true.

Example resume_phase_example :
  exists f0 start acked,
    cs_start dec_header_canon c6r_sess = Some (f0, start, acked) /\
    acked = [(c6_c1, c6_d1)] /\
    firstn 3 (cs_writes c6r_sess start) = [Trunc 158; WrAt 11 (zerosN 16); WrAt 27 (zerosN 24)] /\
    loglen start = 3%nat /\
    crash_class c6r_sess start 0 0 = CResume /\ crash_class c6r_sess start 1 7 = CResume /\
    crash_class c6r_sess start 2 9 = CResume /\ crash_class c6r_sess start 3 0 = CBoundary /\
    pt_of_units (cs_writes c6r_sess start) 26 = (2%nat, 9) /\   (* corpus/C06/resume-phase-example.case *)
    (exists s1, reopen dec_header_canon KBlockstore wit_opts false [c6_root] (image f0 (cs_writes c6r_sess start) 2 9) = inl s1 /\
                StoreSpec.abs s1 = mkm [(c6_c1, c6_d1)] false false).
Proof.
  eexists. eexists. eexists.
  split; [vm_compute; reflexivity|]. split; [reflexivity|]. split; [vm_compute; reflexivity|].
  split; [vm_compute; reflexivity|]. split; [vm_compute; reflexivity|]. split; [vm_compute; reflexivity|].
  split; [vm_compute; reflexivity|]. split; [vm_compute; reflexivity|]. split; [vm_compute; reflexivity|].
  eexists. split; [vm_compute; reflexivity|vm_compute; reflexivity].
Qed.
