(* C12, second half: a reopen with mismatching roots, CAR version or data padding is refused before
   Resume has issued any write -- the file is untouched.  The padding clause needs a guard on a
   non-finalized file (see ResumeRefuted.v for the counterexample). *)
From GoCar Require Import Bytes Varint Cid Header Frame V2Header Index Scan Store Crash.
From GoCarProofs Require Import BytesFacts VarintFacts CidFacts ResumeFacts ResumeInv.

Lemma data_base_with_dpad o p : w_v1 o = false -> 51 + p < two64 -> data_base (with_dpad o p) = 51 + p.
Proof. intros Hv H. apply data_base_v2; [exact Hv|exact H]. Qed.

(* for EVERY byte string: a reopen refused by the checks has not touched the file *)
Theorem resume_rejected hdrdec k ct o roots file faults e :
  resume_checks hdrdec ct o roots file = Err e ->
  resume hdrdec k ct o roots file faults = inr (e, mkdev file [] faults).
Proof.
  unfold resume_checks, resume.
  destruct (read_header hdrdec (w_maxh o) file) as [[[[r ver] rest] n]|e0]; [|intros H; injection H as <-; reflexivity].
  destruct (negb (((ver =? 1) && w_v1 o) || ((ver =? 2) && negb (w_v1 o)))); [intros H; injection H as <-; reflexivity|].
  destruct (if w_v1 o then Ok None
            else if negb ct then Err EOther
            else match read_v2hdr (drop pragma_size file) with
                 | Ok (h, _) => if negb (h_doff h =? data_base o) then Err EOther else Ok (Some h)
                 | Err _ => Ok None
                 end) as [hin|e1]; [|intros H; injection H as <-; reflexivity].
  destruct (read_header hdrdec (w_maxh o) (drop (data_base o) file)) as [[[[hroots hver] rest2] n2]|e2];
    [|intros H; injection H as <-; reflexivity].
  destruct (negb (header_matches hroots hver roots)); [intros H; injection H as <-; reflexivity|discriminate].
Qed.

(* WHICH check refuses: [resume_refusal] names the failing check of [resume_checks], and the error
   the caller sees is [refusal_err] of it *)
Theorem refusal_checks hdrdec ct o roots file r :
  resume_refusal hdrdec ct o roots file = Some r ->
  resume_checks hdrdec ct o roots file = Err (refusal_err r).
Proof.
  unfold resume_checks, resume_refusal.
  destruct (read_header hdrdec (w_maxh o) file) as [[[[r0 ver] rest] n]|e0]; [|intros H; injection H as <-; reflexivity].
  destruct (negb (((ver =? 1) && w_v1 o) || ((ver =? 2) && negb (w_v1 o)))); [intros H; injection H as <-; reflexivity|].
  destruct (w_v1 o).
  - destruct (read_header hdrdec (w_maxh o) (drop (data_base o) file)) as [[[[hroots hver] rest2] n2]|e2];
      [|intros H; injection H as <-; reflexivity].
    destruct (negb (header_matches hroots hver roots)); [intros H; injection H as <-; reflexivity|discriminate].
  - destruct (negb ct); [intros H; injection H as <-; reflexivity|].
    destruct (read_v2hdr (drop pragma_size file)) as [[h rest1]|e1].
    + destruct (negb (h_doff h =? data_base o)); [intros H; injection H as <-; reflexivity|].
      destruct (read_header hdrdec (w_maxh o) (drop (data_base o) file)) as [[[[hroots hver] rest2] n2]|e2];
        [|intros H; injection H as <-; reflexivity].
      destruct (negb (header_matches hroots hver roots)); [intros H; injection H as <-; reflexivity|discriminate].
    + destruct (read_header hdrdec (w_maxh o) (drop (data_base o) file)) as [[[[hroots hver] rest2] n2]|e2];
        [|intros H; injection H as <-; reflexivity].
      destruct (negb (header_matches hroots hver roots)); [intros H; injection H as <-; reflexivity|discriminate].
Qed.

(* ... and every refusal of the checks is one of the six *)
Theorem checks_refusal hdrdec ct o roots file e :
  resume_checks hdrdec ct o roots file = Err e ->
  exists r, resume_refusal hdrdec ct o roots file = Some r /\ e = refusal_err r.
Proof.
  unfold resume_checks, resume_refusal.
  destruct (read_header hdrdec (w_maxh o) file) as [[[[r0 ver] rest] n]|e0];
    [|intros H; injection H as <-; eexists; split; reflexivity].
  destruct (negb (((ver =? 1) && w_v1 o) || ((ver =? 2) && negb (w_v1 o))));
    [intros H; injection H as <-; eexists; split; reflexivity|].
  destruct (w_v1 o).
  - destruct (read_header hdrdec (w_maxh o) (drop (data_base o) file)) as [[[[hroots hver] rest2] n2]|e2];
      [|intros H; injection H as <-; eexists; split; reflexivity].
    destruct (negb (header_matches hroots hver roots)); [intros H; injection H as <-; eexists; split; reflexivity|discriminate].
  - destruct (negb ct); [intros H; injection H as <-; eexists; split; reflexivity|].
    destruct (read_v2hdr (drop pragma_size file)) as [[h rest1]|e1].
    + destruct (negb (h_doff h =? data_base o)); [intros H; injection H as <-; eexists; split; reflexivity|].
      destruct (read_header hdrdec (w_maxh o) (drop (data_base o) file)) as [[[[hroots hver] rest2] n2]|e2];
        [|intros H; injection H as <-; eexists; split; reflexivity].
      destruct (negb (header_matches hroots hver roots)); [intros H; injection H as <-; eexists; split; reflexivity|discriminate].
    + destruct (read_header hdrdec (w_maxh o) (drop (data_base o) file)) as [[[[hroots hver] rest2] n2]|e2];
        [|intros H; injection H as <-; eexists; split; reflexivity].
      destruct (negb (header_matches hroots hver roots)); [intros H; injection H as <-; eexists; split; reflexivity|discriminate].
Qed.

Theorem resume_refused hdrdec k ct o roots file faults r :
  resume_refusal hdrdec ct o roots file = Some r ->
  resume hdrdec k ct o roots file faults = inr (refusal_err r, mkdev file [] faults).
Proof. intros H. apply resume_rejected. apply refusal_checks. exact H. Qed.

Theorem refusal_any_file hdrdec k ct o roots file faults :
  (forall r, resume_refusal hdrdec ct o roots file = Some r ->
             resume hdrdec k ct o roots file faults = inr (refusal_err r, mkdev file [] faults)) /\
  (forall e, resume_checks hdrdec ct o roots file = Err e ->
             exists r, resume_refusal hdrdec ct o roots file = Some r /\ e = refusal_err r).
Proof. split; [intros r; apply resume_refused|intros e; apply checks_refusal]. Qed.

(* headers above the caller's MaxAllowedHeaderSize, WHATEVER the limit (below or above the 32 MiB
   default; since d0c2027 both header reads of a resume run under the caller's limit): a file whose
   header at the data offset declares more than the limit is never resumed -- if the earlier checks
   let it through, the refusal is "error reading car header" with the header-too-large class --
   and it is left untouched *)
Theorem resume_oversized_header hdrdec k ct o roots file faults l rest :
  l < two63 -> w_maxh o < l ->
  drop (data_base o) file = put_uv l ++ rest ->
  exists r, resume_refusal hdrdec ct o roots file = Some r /\
            match r with
            | RMismatch => False
            | RDataHeader e => e = EHeaderTooLarge
            | _ => True
            end /\
            resume hdrdec k ct o roots file faults = inr (refusal_err r, mkdev file [] faults).
Proof.
  intros H63 Hl Hd.
  assert (Hh : read_header hdrdec (w_maxh o) (drop (data_base o) file) = Err EHeaderTooLarge).
  { rewrite Hd. unfold read_header, ld_read, ld_read_size. rewrite read_uv_put_uv by exact H63.
    rewrite Bool.andb_false_r. replace (w_maxh o <? l) with true by lia. reflexivity. }
  assert (Hr : exists r, resume_refusal hdrdec ct o roots file = Some r /\
               match r with RMismatch => False | RDataHeader e => e = EHeaderTooLarge | _ => True end).
  { unfold resume_refusal. rewrite Hh.
    destruct (read_header hdrdec (w_maxh o) file) as [[[[r0 ver] rest0] n]|e0]; [|eexists; split; [reflexivity|exact I]].
    destruct (negb (((ver =? 1) && w_v1 o) || ((ver =? 2) && negb (w_v1 o)))); [eexists; split; [reflexivity|exact I]|].
    destruct (w_v1 o); [eexists; split; reflexivity|].
    destruct (negb ct); [eexists; split; [reflexivity|exact I]|].
    destruct (read_v2hdr (drop pragma_size file)) as [[h rest1]|e1]; [|eexists; split; reflexivity].
    destruct (negb (h_doff h =? data_base o)); [eexists; split; [reflexivity|exact I]|eexists; split; reflexivity]. }
  destruct Hr as (r & Hr & Hm). exists r. split; [exact Hr|]. split; [exact Hm|].
  apply resume_refused. exact Hr.
Qed.

Section Reject.
  Variable hdrdec : bytes -> option (list bytes * N).
  Variables (k : skind) (o : wopts) (nilroots : bool) (roots : list bytes).
  Hypothesis Hpar : params_ok hdrdec o nilroots roots.

  Notation live_file := (live_file o nilroots roots).
  Notation fin_file := (fin_file o nilroots roots).
  Notation cut_file := (cut_file o nilroots roots).
  Notation fits := (fits o nilroots roots).
  Notation hdr := (hdr nilroots roots).
  Notation hsz := (hsz nilroots roots).

  (* the files a session leaves behind: the first read of Resume (ResumableVersion) *)
  Lemma version_of_cut_file c st : fits st ->
    exists r rest n, read_header hdrdec (w_maxh o) (cut_file c st)
                     = Ok (r, (if w_v1 o then 1 else 2), rest, n).
  Proof.
    intros Hfit. pose proof (fits_mono _ _ _ _ Hfit) as Hfit0.
    destruct Hpar as [Hhdr [r0 Hprag] Hmaxh Hcid].
    assert (Hp10 : 10 <= w_maxh o) by (pose proof (hdr_ge_10 nilroots roots); unfold ResumeInv.hdr in *; lia).
    assert (Hv2 : forall tail, w_v1 o = false ->
              exists r rest n, read_header hdrdec (w_maxh o) (pragma ++ tail) = Ok (r, 2, rest, n)).
    { intros tail _. rewrite pragma_is_ld.
      rewrite (read_header_ld hdrdec (w_maxh o) pragma_body r0 2) by
        (try exact Hprag; rewrite blen_pragma_body; try exact Hp10; unfold two63; lia).
      eexists _, _, _. reflexivity. }
    assert (Hlive : exists r rest n, read_header hdrdec (w_maxh o) (live_file st)
                     = Ok (r, (if w_v1 o then 1 else 2), rest, n)).
    { unfold ResumeInv.live_file, base_file, v2_prefix. destruct (w_v1 o) eqn:Ev.
      - cbn [app]. rewrite (read_payload_header hdrdec o nilroots roots Hpar) by assumption.
        eexists _, _, _. reflexivity.
      - rewrite <- !app_assoc. apply Hv2. reflexivity. }
    unfold ResumeInv.cut_file. destruct c; [exact Hlive|].
    destruct (w_v1 o) eqn:Ev; [exact Hlive|].
    destruct (ii_flatten (w_codec o) (idx_of nilroots roots st)); [|exact Hlive].
    unfold ResumeInv.fin_file. apply Hv2. reflexivity.
  Qed.

  (* ---- wrong CAR version ------------------------------------------------------------------ *)
  Theorem reject_version c st : fits st ->
    reopen_refusal hdrdec (with_v1 o (negb (w_v1 o))) roots (cut_file c st) = Some RVersion /\
    reopen hdrdec k (with_v1 o (negb (w_v1 o))) nilroots roots (cut_file c st)
    = inr (EOther, mkdev (cut_file c st) [] []).
  Proof.
    intros Hfit. destruct (version_of_cut_file c st Hfit) as (r & rest & n & Hv).
    assert (Hne : cut_file c st <> []).
    { unfold ResumeInv.cut_file. destruct c; [apply live_file_nonempty|].
      destruct (w_v1 o); [apply live_file_nonempty|].
      destruct (ii_flatten _ _); [apply fin_file_nonempty|apply live_file_nonempty]. }
    assert (Hr : reopen_refusal hdrdec (with_v1 o (negb (w_v1 o))) roots (cut_file c st) = Some RVersion).
    { unfold reopen_refusal, resume_refusal. cbn [w_maxh with_v1]. rewrite Hv. cbn [w_v1 with_v1].
      destruct (w_v1 o); reflexivity. }
    split; [exact Hr|]. rewrite reopen_nonempty by exact Hne. exact (resume_refused _ _ _ _ _ _ _ _ Hr).
  Qed.

  (* ---- what the CARv2 header probe finds ------------------------------------------------------- *)
  Notation fin_hdr := (fin_hdr o nilroots roots).

  Lemma probe_live st : w_v1 o = false ->
    read_v2hdr (drop pragma_size (live_file st)) = Err EOther.
  Proof.
    intros Ev. rewrite live_file_v2 by exact Ev.
    rewrite (drop_app_len pragma_size pragma) by reflexivity.
    rewrite zero_hdr_enc. rewrite read_v2hdr_enc by (repeat split; reflexivity). reflexivity.
  Qed.

  Lemma probe_fin st fi : fits st ->
    exists rest, read_v2hdr (drop pragma_size (fin_file st fi)) = Ok (fin_hdr st, rest).
  Proof.
    intros Hfit. unfold ResumeInv.fin_file.
    rewrite (drop_app_len pragma_size pragma) by reflexivity.
    rewrite read_v2hdr_enc by (apply fin_hdr_fields_ok; exact Hfit).
    pose proof Hfit as Hfit'. unfold ResumeInv.fits in Hfit'.
    pose proof (hsz_pos nilroots roots) as Hhp.
    assert (Hpos : pos_of nilroots roots st = hsz + blen (enc_sections st)) by reflexivity.
    cbn [h_doff h_dsize h_ioff ResumeInv.fin_hdr].
    rewrite !as_int64_small by lia.
    replace (Z.of_N (51 + w_dpad o) <? 51)%Z with false by lia.
    replace (Z.of_N (pos_of nilroots roots st) <=? 0)%Z with false by lia.
    replace (Z.of_N (51 + w_dpad o + w_ipad o + pos_of nilroots roots st) <? 0)%Z with false by lia.
    eexists. reflexivity.
  Qed.

  (* the inner header of a session file, read at the session's own data offset *)
  Lemma inner_header_live st : fits st ->
    exists rest, read_header hdrdec (w_maxh o) (drop (data_base o) (live_file st)) = Ok (roots, 1, rest, hsz).
  Proof.
    intros Hfit. pose proof (fits_mono _ _ _ _ Hfit) as Hfit0. pose proof (fits_nil_64 _ _ _ Hfit0) as Hf0.
    assert (H64 : 51 + w_dpad o < two64) by (unfold two63, two64 in *; lia).
    unfold ResumeInv.live_file, base_file, v2_prefix. destruct (w_v1 o) eqn:Ev.
    - rewrite data_base_v1 by exact Ev. rewrite drop_0. cbn [app].
      rewrite (read_payload_header hdrdec o nilroots roots Hpar) by (try assumption; exact (po_maxh _ _ _ _ Hpar)).
      eexists. reflexivity.
    - rewrite data_base_v2 by assumption. rewrite <- !app_assoc.
      rewrite (app_assoc pragma). rewrite drop_app_len by (rewrite blen_app, blen_pragma, blen_zerosN; lia).
      rewrite (read_payload_header hdrdec o nilroots roots Hpar) by (try assumption; exact (po_maxh _ _ _ _ Hpar)).
      eexists. reflexivity.
  Qed.

  Lemma inner_header_fin st fi : fits st -> w_v1 o = false ->
    exists rest, read_header hdrdec (w_maxh o) (drop (data_base o) (fin_file st fi)) = Ok (roots, 1, rest, hsz).
  Proof.
    intros Hfit Ev. pose proof (fits_mono _ _ _ _ Hfit) as Hfit0. pose proof (fits_nil_64 _ _ _ Hfit0) as Hf0.
    assert (H64 : 51 + w_dpad o < two64) by (unfold two63, two64 in *; lia).
    unfold ResumeInv.fin_file. rewrite data_base_v2 by assumption.
    rewrite (app_assoc (enc_v2hdr _)), (app_assoc pragma).
    rewrite drop_app_len by (rewrite !blen_app, blen_pragma, blen_enc_v2hdr, blen_zerosN; lia).
    rewrite (read_payload_header hdrdec o nilroots roots Hpar) by (try assumption; exact (po_maxh _ _ _ _ Hpar)).
    eexists. reflexivity.
  Qed.

  Lemma cut_file_cases c st :
    cut_file c st = live_file st \/
    (w_v1 o = false /\ exists fi, cut_file c st = fin_file st fi).
  Proof.
    unfold ResumeInv.cut_file. destruct c; [left; reflexivity|].
    destruct (w_v1 o) eqn:Ev; [left; reflexivity|].
    destruct (ii_flatten (w_codec o) (idx_of nilroots roots st)) as [fi|]; [|left; reflexivity].
    right. split; [reflexivity|]. exists fi. reflexivity.
  Qed.

  Lemma cut_file_nonempty c st : cut_file c st <> [].
  Proof.
    destruct (cut_file_cases c st) as [->|(_ & fi & ->)]; [apply live_file_nonempty|apply fin_file_nonempty].
  Qed.

  (* ---- different roots ---------------------------------------------------------------------- *)
  Theorem reject_roots c st roots' : fits st -> header_matches roots 1 roots' = false ->
    reopen_refusal hdrdec o roots' (cut_file c st) = Some RMismatch /\
    reopen hdrdec k o nilroots roots' (cut_file c st) = inr (EOther, mkdev (cut_file c st) [] []).
  Proof.
    intros Hfit Hm.
    assert (Hr : reopen_refusal hdrdec o roots' (cut_file c st) = Some RMismatch).
    { unfold reopen_refusal, resume_refusal. destruct (version_of_cut_file c st Hfit) as (r & rest & n & Hv). rewrite Hv.
      assert (Hver : negb ((((if w_v1 o then 1 else 2) =? 1) && w_v1 o) || (((if w_v1 o then 1 else 2) =? 2) && negb (w_v1 o))) = false)
        by (destruct (w_v1 o); reflexivity).
      rewrite Hver.
      destruct (cut_file_cases c st) as [->|(Ev & fi & ->)].
      - destruct (inner_header_live st Hfit) as (rest2 & Hih).
        destruct (w_v1 o) eqn:Ev.
        + rewrite Hih, Hm. reflexivity.
        + cbn [negb]. rewrite probe_live by exact Ev. rewrite Hih, Hm. reflexivity.
      - destruct (inner_header_fin st fi Hfit Ev) as (rest2 & Hih).
        destruct (probe_fin st fi Hfit) as (rest3 & Hpf).
        rewrite Ev. cbn [negb]. rewrite Hpf.
        assert (H64 : 51 + w_dpad o < two64) by (unfold ResumeInv.fits, two63, two64 in *; lia).
        rewrite data_base_v2 by assumption. cbn [h_doff ResumeInv.fin_hdr]. rewrite N.eqb_refl. cbn [negb].
        rewrite <- (data_base_v2 o Ev H64). rewrite Hih, Hm. reflexivity. }
    split; [exact Hr|]. rewrite reopen_nonempty by apply cut_file_nonempty. exact (resume_refused _ _ _ _ _ _ _ _ Hr).
  Qed.

  (* ---- different data padding ---------------------------------------------------------------- *)
  (* finalized file: the padding is recorded in the CARv2 header -- always noticed *)
  Theorem reject_padding_finalized st fi p' :
    fits st -> w_v1 o = false -> p' <> w_dpad o -> 51 + p' < two64 ->
    reopen_refusal hdrdec (with_dpad o p') roots (fin_file st fi) = Some RDataOffset /\
    reopen hdrdec k (with_dpad o p') nilroots roots (fin_file st fi)
    = inr (EOther, mkdev (fin_file st fi) [] []).
  Proof.
    intros Hfit Ev Hp H64.
    assert (Hr : reopen_refusal hdrdec (with_dpad o p') roots (fin_file st fi) = Some RDataOffset).
    { unfold reopen_refusal, resume_refusal. cbn [w_maxh with_dpad].
      assert (Hcf : cut_file CFinalize st = fin_file st fi \/ True) by (right; exact I).
      destruct Hpar as [Hhdr [r0 Hprag] Hmaxh Hcid].
    assert (Hp10 : 10 <= w_maxh o) by (pose proof (hdr_ge_10 nilroots roots); unfold ResumeInv.hdr in *; lia).
      unfold ResumeInv.fin_file at 1. rewrite pragma_is_ld at 1.
      rewrite (read_header_ld hdrdec (w_maxh o) pragma_body r0 2) by
        (try exact Hprag; rewrite blen_pragma_body; try exact Hp10; unfold two63; lia).
      cbn [w_v1 with_dpad]. rewrite Ev. cbn [N.eqb Pos.eqb andb orb negb].
      destruct (probe_fin st fi Hfit) as (rest3 & Hpf). rewrite Hpf.
      rewrite data_base_with_dpad by assumption. cbn [h_doff ResumeInv.fin_hdr].
      replace (51 + w_dpad o =? 51 + p') with false by lia. reflexivity. }
    split; [exact Hr|]. rewrite reopen_nonempty by apply fin_file_nonempty. exact (resume_refused _ _ _ _ _ _ _ _ Hr).
  Qed.

  (* non-finalized file: nothing in the file records the padding; the mismatch is noticed only if
     the bytes at the caller's offset are not a matching CARv1 header *)
  Theorem reject_padding_unfinalized st p' :
    fits st -> w_v1 o = false ->
    header_at hdrdec (with_dpad o p') roots (live_file st) = false ->
    reopen_refusal hdrdec (with_dpad o p') roots (live_file st)
      = Some (refusal_at hdrdec (with_dpad o p') roots (live_file st)) /\
    reopen hdrdec k (with_dpad o p') nilroots roots (live_file st)
    = inr (refusal_err (refusal_at hdrdec (with_dpad o p') roots (live_file st)), mkdev (live_file st) [] []).
  Proof.
    intros Hfit0 Ev Hha.
    assert (Hr : reopen_refusal hdrdec (with_dpad o p') roots (live_file st)
                 = Some (refusal_at hdrdec (with_dpad o p') roots (live_file st))).
    { unfold reopen_refusal, resume_refusal, refusal_at. cbn [w_maxh with_dpad].
      destruct (version_of_cut_file CDiscard st) as (r & rest & n & Hv); [exact Hfit0|].
      change (cut_file CDiscard st) with (live_file st) in Hv. rewrite Hv.
      cbn [w_v1 with_dpad]. rewrite Ev. cbn [N.eqb Pos.eqb andb orb negb]. rewrite probe_live by exact Ev.
      unfold header_at in Hha. cbn [w_maxh with_dpad] in Hha.
      destruct (read_header hdrdec (w_maxh o) (drop (data_base (with_dpad o p')) (live_file st)))
        as [[[[hroots hver] rest2] n2]|e2]; [|reflexivity].
      rewrite Hha. reflexivity. }
    split; [exact Hr|]. rewrite reopen_nonempty by apply live_file_nonempty. exact (resume_refused _ _ _ _ _ _ _ _ Hr).
  Qed.

  Lemma finalized_file_live st : w_v1 o = false -> finalized_file (live_file st) = false.
  Proof. intros Ev. unfold finalized_file. rewrite probe_live by exact Ev. reflexivity. Qed.

  Lemma finalized_file_fin st fi : fits st -> finalized_file (fin_file st fi) = true.
  Proof. intros Hfit. unfold finalized_file. destruct (probe_fin st fi Hfit) as (rest & ->). reflexivity. Qed.

  (* the padding clause with its executable guard *)
  Theorem reject_padding c st p' :
    fits st -> w_v1 o = false -> p' <> w_dpad o -> 51 + p' < two64 ->
    finalized_file (cut_file c st) || negb (header_at hdrdec (with_dpad o p') roots (cut_file c st)) = true ->
    reopen_refusal hdrdec (with_dpad o p') roots (cut_file c st) = Some (padding_refusal hdrdec (with_dpad o p') roots (cut_file c st)) /\
    reopen hdrdec k (with_dpad o p') nilroots roots (cut_file c st)
    = inr (refusal_err (padding_refusal hdrdec (with_dpad o p') roots (cut_file c st)), mkdev (cut_file c st) [] []).
  Proof.
    intros Hfit Ev Hp H64 Hg. unfold padding_refusal.
    destruct (cut_file_cases c st) as [E|(_ & fi & E)]; rewrite E in *.
    - rewrite finalized_file_live in * by exact Ev. cbn [orb] in Hg.
      apply reject_padding_unfinalized; [exact Hfit|exact Ev|]. destruct (header_at _ _ _ _); [discriminate|reflexivity].
    - rewrite finalized_file_fin by exact Hfit. apply reject_padding_finalized; assumption.
  Qed.
End Reject.
