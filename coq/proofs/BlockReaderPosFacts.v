(* C14: the position-tracking BlockReader model on constructed archives.
   Main result: [brp_walk] over a valid CARv1 / CARv2 equals [exp_walk] for every choice
   string, every source kind; then the unpacked facts about [exp_walk]. *)
From GoCar Require Import Bytes Varint Cid Header Frame V2Header Scan BlockReaderPos.
From GoCarProofs Require Import BytesFacts VarintFacts CidFacts HeaderFacts ScanFacts.

(* ---- the reader sits at [pre | x | trailer] ------------------------------------------- *)
Definition at_bytes (st : brp) (pre x trailer : bytes) : Prop :=
  p_all st = pre ++ x ++ trailer /\ p_pos st = blen pre /\
  match p_lim st with
  | None => trailer = []
  | Some n => n = blen x \/ (blen x <= n /\ trailer = [])   (* the LimitedReader may promise more
                                                               than a truncated source holds *)
  end.

Lemma vis_at st pre x tr : at_bytes st pre x tr -> vis st = x.
Proof.
  intros (Hall & Hpos & Hlim). unfold vis. rewrite Hall, Hpos, drop_app.
  destruct (p_lim st) as [n|].
  - destruct Hlim as [->|(Hle & ->)]; [apply take_app|]. rewrite app_nil_r. apply take_ge. exact Hle.
  - subst tr. apply app_nil_r.
Qed.

Lemma at_adv st pre a b tr :
  at_bytes st pre (a ++ b) tr -> at_bytes (adv (blen a) st) (pre ++ a) b tr.
Proof.
  intros (Hall & Hpos & Hlim). unfold at_bytes, adv. cbn [p_all p_pos p_lim].
  split; [|split].
  - rewrite Hall. rewrite <- !app_assoc. reflexivity.
  - rewrite Hpos, blen_app. reflexivity.
  - destruct (p_lim st) as [n|]; [|exact Hlim].
    destruct Hlim as [->|(Hle & ->)]; [left|right; split; [|reflexivity]]; rewrite blen_app in *; lia.
Qed.

Lemma at_set_off st off pre x tr : at_bytes st pre x tr -> at_bytes (set_off off st) pre x tr.
Proof. intros H. exact H. Qed.

(* readerSize, once learnt on the seek path, is the size of the source *)
Definition rsize_inv (st : brp) : Prop :=
  match p_rsize st with None => True | Some r => p_lim st = None -> r = blen (p_all st) end.

Definition is_none {A} (x : option A) : bool := match x with None => true | Some _ => false end.
Definition seekpath (st : brp) : bool := p_seek st && is_none (p_lim st).

(* the parts of the state a step never changes *)
Definition same_shape (st st' : brp) : Prop :=
  p_seek st' = p_seek st /\ p_v1off st' = p_v1off st /\ is_none (p_lim st') = is_none (p_lim st).

(* a CID the stream parser of go-cid accepts as well (digest within its 32 MiB cap) *)
Definition cid_stream_ok (c : bytes) : Prop :=
  exists p, cid_ok p /\ blen (c_digest p) <= max_digest_alloc /\ c = cid_enc p.

Lemma cid_stream_ok_bytes c : cid_stream_ok c -> cid_bytes_ok c.
Proof. intros (p & H1 & _ & H2). exists p. auto. Qed.

Lemma last_cons {A} l : forall (a d : A), last (a :: l) d = last l a.
Proof.
  induction l as [|b l IH]; intros a d; [reflexivity|].
  change (last (a :: b :: l) d) with (last (b :: l) d). rewrite (IH b d), (IH b a). reflexivity.
Qed.

Lemma section_size_pos c d : 1 <= section_size c d.
Proof. unfold section_size, ld_size. pose proof (uv_size_pos (blen c + blen d)). lia. Qed.

Section Oracles.
  Variable hok : bytes -> bytes -> option bool.

  (* ---- one Next on a valid section -------------------------------------------------- *)
  Lemma brp_next_at o st pre c d x tr :
    at_bytes st pre (enc_section c d ++ x) tr -> p_off st = blen pre ->
    block_ok (o_maxs o) (c, d) -> (o_trusted o = false -> hash_good hok (c, d)) ->
    exists st', brp_next hok o st = Ok ((c, d), st') /\
      at_bytes st' (pre ++ enc_section c d) x tr /\
      p_off st' = blen (pre ++ enc_section c d) /\
      p_hw st' = N.max (p_hw st) (blen pre + section_size c d) /\
      same_shape st st' /\ (rsize_inv st -> rsize_inv st').
  Proof.
    intros Hat Hoff Hb Hh.
    pose proof (vis_at _ _ _ _ Hat) as Hvis.
    eexists. split; [|split; [|split; [|split; [|split]]]].
    - unfold brp_next. rewrite Hvis. rewrite next_block_section by assumption. reflexivity.
    - rewrite blen_app, blen_enc_section.
      replace (section_size c d + blen x - blen x) with (blen (enc_section c d))
        by (rewrite blen_enc_section; lia).
      apply at_set_off. apply at_adv. exact Hat.
    - cbn [set_off p_off]. rewrite Hoff, blen_app, blen_enc_section.
      unfold section_size, ld_size. lia.
    - cbn [set_off adv p_hw]. destruct Hat as (_ & Hpos & _). rewrite Hpos.
      rewrite blen_app, blen_enc_section. pose proof (section_size_pos c d).
      replace (section_size c d + blen x - blen x) with (section_size c d) by lia.
      replace (section_size c d =? 0) with false by lia. reflexivity.
    - unfold same_shape. cbn [set_off adv p_seek p_v1off p_lim].
      destruct (p_lim st); auto.
    - unfold rsize_inv. cbn [set_off adv p_rsize p_lim p_all].
      destruct (p_rsize st); [|auto]. intros Hr. destruct (p_lim st); [discriminate|exact Hr].
  Qed.

  (* ---- one SkipNext on a valid section ---------------------------------------------- *)
  Lemma brp_skip_at o st pre c d x tr :
    at_bytes st pre (enc_section c d ++ x) tr -> p_off st = blen pre ->
    block_ok (o_maxs o) (c, d) -> cid_stream_ok c -> rsize_inv st ->
    exists st', brp_skip o st
                = Ok (mkmeta c (blen pre - p_v1off st) (blen pre) (blen d), st') /\
      at_bytes st' (pre ++ enc_section c d) x tr /\
      p_off st' = blen (pre ++ enc_section c d) /\
      p_hw st' = (if seekpath st
                  then N.max (p_hw st) (blen pre + uv_size (blen c + blen d) + blen c)
                  else N.max (p_hw st) (blen pre + section_size c d)) /\
      same_shape st st' /\ rsize_inv st'.
  Proof.
    intros Hat Hoff (Hc & Hmax & H63) Hs Hrs. cbn [fst snd] in *.
    pose proof (vis_at _ _ _ _ Hat) as Hvis.
    destruct Hs as (p & Hp & Hcap & ->).
    pose proof (cid_enc_nonempty p Hp) as Hne.
    set (c := cid_enc p) in *. set (l := blen c + blen d) in *.
    (* the section, split as varint | cid | data *)
    assert (Hsec : enc_section c d ++ x = put_uv l ++ (c ++ d) ++ x).
    { unfold enc_section. fold l. rewrite <- !app_assoc. reflexivity. }
    assert (Hsize : ld_read_size (o_zeof o) (o_maxs o) (vis st) = Ok (l, (c ++ d) ++ x, uv_size l)).
    { rewrite Hvis, Hsec. apply ld_read_size_put; [exact H63|exact Hmax|intros _; unfold l; lia]. }
    assert (Htake : take l ((c ++ d) ++ x) = c ++ d).
    { unfold l. rewrite <- blen_app. apply take_app. }
    assert (Hcfr : cid_from_reader (c ++ d) = CfrOk (blen c) c p d).
    { unfold c. apply cid_from_reader_enc; assumption. }
    (* state after varint + cid *)
    assert (Hat1 : at_bytes (adv (uv_size l + blen c) st) (pre ++ put_uv l ++ c) (d ++ x) tr).
    { replace (uv_size l + blen c) with (blen (put_uv l ++ c)) by (rewrite blen_app, blen_put_uv; reflexivity).
      apply at_adv. rewrite Hsec in Hat. rewrite <- !app_assoc in *. exact Hat. }
    pose proof (vis_at _ _ _ _ Hat1) as Hvis1.
    assert (Hpre' : pre ++ enc_section c d = (pre ++ put_uv l ++ c) ++ d).
    { unfold enc_section. fold l. rewrite <- !app_assoc. reflexivity. }
    assert (Hbsz : l - blen c = blen d) by (unfold l; lia).
    assert (Hss : section_size c d = uv_size l + blen c + blen d).
    { unfold section_size, ld_size. fold l. unfold l. lia. }
    destruct Hat as (Hall & Hpos & Hlim).
    unfold brp_skip. rewrite Hsize.
    replace (l =? 0) with false by (unfold l; lia).
    rewrite Htake, Hcfr. rewrite Hbsz. rewrite Hoff.
    unfold seekpath.
    destruct (p_lim st) as [n|] eqn:El; [|destruct (p_seek st) eqn:Es].
    - (* CARv2: LimitReader, discard *)
      rewrite Hvis1. replace (blen (d ++ x) <? blen d) with false by (rewrite blen_app; lia).
      eexists. split; [reflexivity|]. rewrite andb_false_r.
      split; [|split; [|split; [|split]]].
      + rewrite Hpre'. apply at_set_off. apply at_adv. exact Hat1.
      + cbn [set_off p_off]. rewrite blen_app, blen_enc_section, Hss. lia.
      + cbn [set_off adv p_hw p_pos]. rewrite Hpos, Hss. pose proof (uv_size_pos l).
        replace (uv_size l + blen c =? 0) with false by lia.
        destruct (blen d =? 0) eqn:Ed; lia.
      + unfold same_shape. cbn [set_off adv p_seek p_v1off p_lim]. rewrite El. auto.
      + unfold rsize_inv. cbn [set_off adv p_rsize p_lim]. rewrite El.
        destruct (p_rsize st); [discriminate|exact I].
    - (* CARv1 over a ReadSeeker: seek path *)
      cbn [adv p_pos]. rewrite Hpos.
      assert (Hfinal : blen pre + (uv_size l + blen c) + blen d = blen pre + uv_size l + l)
        by (unfold l; lia).
      replace (blen pre + (uv_size l + blen c) + blen d =? blen pre + uv_size l + l) with true by lia.
      cbn [negb].
      assert (Hr : match p_rsize st with Some r => r | None => blen (p_all st) end = blen (p_all st)).
      { unfold rsize_inv in Hrs. destruct (p_rsize st); [apply Hrs; exact El|reflexivity]. }
      rewrite Hr.
      assert (Hle : blen pre + (uv_size l + blen c) + blen d <= blen (p_all st)).
      { rewrite Hall, Hsec. rewrite !blen_app, blen_put_uv. lia. }
      replace (blen (p_all st) <? blen pre + (uv_size l + blen c) + blen d) with false by lia.
      eexists. split; [reflexivity|]. cbn [andb is_none].
      split; [|split; [|split; [|split]]].
      + unfold at_bytes. cbn [set_off seek_to adv p_all p_pos p_lim]. rewrite El.
        split; [|split].
        * rewrite Hall. rewrite <- !app_assoc. reflexivity.
        * rewrite blen_app, blen_enc_section, Hss. lia.
        * exact Hlim.
      + cbn [set_off p_off]. rewrite blen_app, blen_enc_section, Hss. lia.
      + cbn [set_off seek_to adv p_hw p_pos]. rewrite Hpos. pose proof (uv_size_pos l).
        replace (uv_size l + blen c =? 0) with false by lia. f_equal. lia.
      + unfold same_shape. cbn [set_off seek_to adv p_seek p_v1off p_lim]. rewrite El. auto.
      + unfold rsize_inv. cbn [set_off seek_to adv p_rsize p_lim p_all]. intros _. reflexivity.
    - (* CARv1 over a plain reader: discard *)
      rewrite Hvis1. replace (blen (d ++ x) <? blen d) with false by (rewrite blen_app; lia).
      eexists. split; [reflexivity|]. cbn [andb].
      split; [|split; [|split; [|split]]].
      + rewrite Hpre'. apply at_set_off. apply at_adv. exact Hat1.
      + cbn [set_off p_off]. rewrite blen_app, blen_enc_section, Hss. lia.
      + cbn [set_off adv p_hw p_pos]. rewrite Hpos, Hss. pose proof (uv_size_pos l).
        replace (uv_size l + blen c =? 0) with false by lia.
        destruct (blen d =? 0) eqn:Ed; lia.
      + unfold same_shape. cbn [set_off adv p_seek p_v1off p_lim]. rewrite El. auto.
      + unfold rsize_inv. cbn [set_off adv p_rsize p_lim p_all]. rewrite El.
        unfold rsize_inv in Hrs. rewrite El in Hrs. exact Hrs.
  Qed.

  (* ---- at the end of the sections both calls report a clean io.EOF ------------------- *)
  Lemma brp_next_end o st pre tr : at_bytes st pre [] tr -> brp_next hok o st = Err EEof.
  Proof. intros Hat. unfold brp_next. rewrite (vis_at _ _ _ _ Hat). reflexivity. Qed.
  Lemma brp_skip_end o st pre tr : at_bytes st pre [] tr -> brp_skip o st = Err EEof.
  Proof. intros Hat. unfold brp_skip. rewrite (vis_at _ _ _ _ Hat). reflexivity. Qed.

  (* ---- the whole walk ---------------------------------------------------------------- *)
  Definition blocks_ok (o : ropts) (bs : list block) : Prop :=
    Forall (block_ok (o_maxs o)) bs /\ Forall (fun b => cid_stream_ok (fst b)) bs /\
    (o_trusted o = false -> Forall (hash_good hok) bs).

  Lemma brp_walk_sections o : forall w bs st pre tr,
    blocks_ok o bs ->
    at_bytes st pre (enc_sections bs) tr -> p_off st = blen pre -> rsize_inv st ->
    (fst (brp_walk hok o w st), fst (snd (brp_walk hok o w st)))
    = exp_walk (seekpath st) (p_v1off st) w bs (blen pre) (p_hw st) /\
    p_hw (snd (snd (brp_walk hok o w st)))
    = last (map step_hw (fst (brp_walk hok o w st))) (p_hw st).
  Proof.
    induction w as [|ch w IH]; intros bs st pre tr Hbs Hat Hoff Hrs; [split; reflexivity|].
    destruct bs as [|[c d] bs].
    - cbn [exp_walk]. change (enc_sections []) with (@nil byte) in Hat.
      assert (He : end_state EEof st = st) by (unfold end_state; rewrite (vis_at _ _ _ _ Hat); reflexivity).
      destruct ch; cbn [brp_walk].
      + rewrite (brp_next_end o st pre tr Hat), He. split; reflexivity.
      + rewrite (brp_skip_end o st pre tr Hat), He. split; reflexivity.
    - destruct Hbs as (Hok & Hst & Hh).
      inversion Hok as [|? ? Hb Hok']; subst. inversion Hst as [|? ? Hs Hst']; subst.
      cbn [fst] in Hs.
      assert (Hbs' : blocks_ok o bs).
      { split; [exact Hok'|split; [exact Hst'|]]. intros Ht. specialize (Hh Ht). inversion Hh; assumption. }
      change (enc_sections ((c, d) :: bs)) with (enc_section c d ++ enc_sections bs) in Hat.
      assert (Hss : uv_size (blen c + blen d) + (blen c + blen d) = section_size c d)
        by (unfold section_size, ld_size; lia).
      destruct ch; cbn [brp_walk exp_walk orb].
      + destruct (brp_next_at o st pre c d (enc_sections bs) tr Hat Hoff Hb) as (st' & Hn & Hat' & Hoff' & Hhw & (Hk1 & Hk2 & Hk3) & Hrs').
        { intros Ht. specialize (Hh Ht). inversion Hh; assumption. }
        rewrite Hn. cbn [fst snd].
        destruct (IH bs st' (pre ++ enc_section c d) tr Hbs' Hat' Hoff' (Hrs' Hrs)) as (IH1 & IH2).
        assert (Hsp : seekpath st' = seekpath st) by (unfold seekpath; rewrite Hk1, Hk3; reflexivity).
        rewrite Hsp, Hk2, Hhw in IH1. rewrite blen_app, blen_enc_section in IH1.
        destruct Hat' as (_ & Hpos' & _). rewrite Hpos', blen_app, blen_enc_section, Hhw.
        rewrite Hss. rewrite <- IH1. split; [reflexivity|].
        cbn [map]. rewrite last_cons. cbn [step_hw]. rewrite <- Hhw. exact IH2.
      + destruct (brp_skip_at o st pre c d (enc_sections bs) tr Hat Hoff Hb Hs Hrs) as (st' & Hn & Hat' & Hoff' & Hhw & (Hk1 & Hk2 & Hk3) & Hrs').
        rewrite Hn. cbn [fst snd].
        destruct (IH bs st' (pre ++ enc_section c d) tr Hbs' Hat' Hoff' Hrs') as (IH1 & IH2).
        assert (Hsp : seekpath st' = seekpath st) by (unfold seekpath; rewrite Hk1, Hk3; reflexivity).
        rewrite Hsp, Hk2 in IH1. rewrite blen_app, blen_enc_section in IH1.
        destruct Hat' as (_ & Hpos' & _). rewrite Hpos', blen_app, blen_enc_section.
        rewrite Hss.
        assert (Hhw2 : p_hw st' = (if negb (seekpath st) then N.max (p_hw st) (blen pre + section_size c d)
                                   else N.max (p_hw st) (blen pre + uv_size (blen c + blen d) + blen c))).
        { rewrite Hhw. destruct (seekpath st); reflexivity. }
        rewrite <- Hhw2. rewrite <- IH1. split; [reflexivity|].
        cbn [map]. rewrite last_cons. cbn [step_hw]. exact IH2.
  Qed.
End Oracles.

(* ---- io.EOF means a clean end: for ALL inputs ------------------------------------------- *)
Lemma read_uv_f_not_eof : forall f i x s, i <> 0 -> read_uv_f f i x s <> VEof.
Proof.
  induction f as [|f IH]; intros i x s Hi; cbn [read_uv_f]; [discriminate|].
  destruct s as [|b rest].
  - replace (i =? 0) with false by lia. discriminate.
  - destruct (((i =? 8) && (128 <=? b2n b)) || (9 <=? i)); [discriminate|].
    destruct (b2n b <? 128).
    + destruct ((b2n b =? 0) && (0 <? i)); discriminate.
    + apply IH. lia.
Qed.

Lemma read_uv_eof_nil s : read_uv s = VEof -> s = [].
Proof.
  destruct s as [|b rest]; [reflexivity|]. unfold read_uv.
  change 10%nat with (S 9). generalize 9%nat. intros f. cbn [read_uv_f].
  intros H. exfalso. revert H.
  destruct (((0 =? 8) && (128 <=? b2n b)) || (9 <=? 0)); [discriminate|].
  destruct (b2n b <? 128).
  - destruct ((b2n b =? 0) && (0 <? 0)); discriminate.
  - apply read_uv_f_not_eof. lia.
Qed.

(* what "clean end" means for the stream a call sees *)
Definition clean_end (o : ropts) (s : bytes) : Prop :=
  s = [] \/ (o_zeof o = true /\ exists rest n, read_uv s = VOk 0 rest n).

Lemma ld_read_size_eof o s r : ld_read_size (o_zeof o) (o_maxs o) s = Err EEof -> r = tt -> clean_end o s.
Proof.
  intros H _. unfold ld_read_size in H. destruct (read_uv s) as [l rest n| | | |] eqn:E; try discriminate.
  - destruct ((l =? 0) && o_zeof o) eqn:Ez.
    + apply andb_true_iff in Ez. destruct Ez as (Hl & Hz). right. split; [exact Hz|].
      exists rest, n. rewrite E. f_equal. lia.
    + destruct (o_maxs o <? l); discriminate.
  - left. apply read_uv_eof_nil. exact E.
Qed.

Theorem brp_skip_eof_clean o st : brp_skip o st = Err EEof -> clean_end o (vis st).
Proof.
  unfold brp_skip. intros H.
  destruct (ld_read_size (o_zeof o) (o_maxs o) (vis st)) as [[[l rest] n]|e] eqn:E.
  - exfalso. destruct (l =? 0); [discriminate|].
    destruct (cid_from_reader (take l rest)) as [cn c p after| |k]; try discriminate.
    destruct (p_lim st); [|destruct (p_seek st)].
    + destruct (blen (vis (adv (n + cn) st)) <? l - cn); discriminate.
    + destruct (negb (p_pos (adv (n + cn) st) + (l - cn) =? p_off st + uv_size l + l)); [discriminate|].
      destruct (match p_rsize st with Some r => r | None => blen (p_all st) end <? p_pos (adv (n + cn) st) + (l - cn)); discriminate.
    + destruct (blen (vis (adv (n + cn) st)) <? l - cn); discriminate.
  - inversion H; subst. eapply ld_read_size_eof; [exact E|reflexivity].
Qed.

Theorem brp_next_eof_clean hok o st : brp_next hok o st = Err EEof -> clean_end o (vis st).
Proof.
  unfold brp_next, next_block, read_node, ld_read. intros H.
  destruct (ld_read_size (o_zeof o) (o_maxs o) (vis st)) as [[[l rest] n]|e] eqn:E.
  - exfalso. destruct (blen rest <? l); [discriminate|].
    destruct (cid_from_bytes (take l rest)) as [[cn p]|]; [|discriminate].
    destruct (o_trusted o); [discriminate|].
    unfold verify in H. destruct (hash_matches hok (take cn (take l rest)) p (drop cn (take l rest))) as [[|]|]; discriminate.
  - inversion H; subst. eapply ld_read_size_eof; [exact E|reflexivity].
Qed.
