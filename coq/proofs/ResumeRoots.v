(* CarHeader.Matches (repaired) = equality of the root lists as multisets. *)
From Coq Require Import Permutation.
From GoCar Require Import Bytes Varint Cid Header Frame V2Header Index Store.
From GoCarProofs Require Import BytesFacts.

Lemma roots_count_nil r : roots_count [] r = 0.
Proof. reflexivity. Qed.
Lemma roots_count_cons a t r :
  roots_count (a :: t) r = (if bytes_eqb r a then 1 else 0) + roots_count t r.
Proof. unfold roots_count. cbn [filter]. destruct (bytes_eqb r a); cbn [length]; lia. Qed.
Lemma roots_count_app a b r : roots_count (a ++ b) r = roots_count a r + roots_count b r.
Proof. unfold roots_count. rewrite filter_app, app_length. lia. Qed.

Lemma roots_count_pos_in rs r : 0 < roots_count rs r -> In r rs.
Proof.
  induction rs as [|a t IH]; [rewrite roots_count_nil; lia|].
  rewrite roots_count_cons. destruct (bytes_eqb r a) eqn:E.
  - apply bytes_eqb_eq in E. subst. intros _. left. reflexivity.
  - intros H. right. apply IH. lia.
Qed.

Lemma bytes_eqb_neq a b : a <> b -> bytes_eqb a b = false.
Proof. intros H. destruct (bytes_eqb a b) eqn:E; [apply bytes_eqb_eq in E; congruence|reflexivity]. Qed.

(* equal length + equal multiplicity of every element of the first list => permutation *)
Lemma counts_perm : forall hr r,
  length hr = length r -> (forall x, In x hr -> roots_count hr x = roots_count r x) -> Permutation hr r.
Proof.
  induction hr as [|a t IH]; intros r Hlen Hc.
  - destruct r; [constructor|discriminate].
  - assert (Hin : In a r).
    { apply roots_count_pos_in. rewrite <- Hc by (left; reflexivity).
      rewrite roots_count_cons, bytes_eqb_refl. lia. }
    destruct (in_split _ _ Hin) as (r1 & r2 & ->).
    apply Permutation_cons_app. apply IH.
    + rewrite app_length in *. cbn [length] in Hlen. lia.
    + intros x Hx. specialize (Hc x (or_intror Hx)).
      rewrite roots_count_cons, roots_count_app, roots_count_cons in Hc. rewrite roots_count_app.
      destruct (bytes_eqb x a); lia.
Qed.

Lemma roots_count_perm a b : Permutation a b -> forall x, roots_count a x = roots_count b x.
Proof.
  induction 1 as [|y l l' _ IH|y z l|l l' l'' _ IH1 _ IH2]; intros x.
  - reflexivity.
  - rewrite !roots_count_cons, IH. reflexivity.
  - rewrite !roots_count_cons. lia.
  - rewrite IH1. apply IH2.
Qed.

Theorem header_matches_perm hr r : header_matches hr 1 r = true <-> Permutation hr r.
Proof.
  unfold header_matches. rewrite N.eqb_refl. cbn [andb]. split.
  - intros H. apply andb_true_iff in H. destruct H as [Hl Hm].
    assert (Hlen : length hr = length r) by lia.
    destruct hr as [|a [|b t]].
    + destruct r; [constructor|discriminate].
    + destruct r as [|c [|d u]]; try discriminate. apply bytes_eqb_eq in Hm. subst. constructor. constructor.
    + apply counts_perm; [exact Hlen|]. intros x Hx.
      assert (Hall : forallb (fun r0 => roots_count (a :: b :: t) r0 =? roots_count r r0) (a :: b :: t) = true)
        by (destruct r as [|c [|d u]]; exact Hm).
      rewrite forallb_forall in Hall. specialize (Hall x Hx). lia.
  - intros HP. pose proof (Permutation_length HP) as Hlen. rewrite Hlen, N.eqb_refl. cbn [andb].
    assert (Hall : forallb (fun r0 => roots_count hr r0 =? roots_count r r0) hr = true).
    { apply forallb_forall. intros x _. rewrite (roots_count_perm _ _ HP). apply N.eqb_refl. }
    destruct hr as [|a [|b t]]; [destruct r; [reflexivity|discriminate]| |destruct r as [|c [|d u]]; exact Hall].
    destruct r as [|c [|d u]]; try discriminate.
    apply Permutation_length_1 in HP. subst. apply bytes_eqb_refl.
Qed.

Corollary header_matches_not_perm hr r : ~ Permutation hr r -> header_matches hr 1 r = false.
Proof.
  intros H. destruct (header_matches hr 1 r) eqn:E; [|reflexivity].
  apply header_matches_perm in E. contradiction.
Qed.
