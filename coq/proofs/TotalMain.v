(* C09: totality of the parsing entry points (they return a result or an error: the outcome is never
   the out-of-fuel marker and never a panic) and exact enforcement of the header/section limits. *)
From GoCar Require Import Bytes Varint Cid Header Frame V2Header Scan Index Store Alloc RunTotal.
From GoCarProofs Require Import BytesFacts VarintFacts CidFacts HeaderFacts ScanFacts ScanTrunc
     Termination TotalAlloc TotalIndex.

Definition err_total (e : err) : Prop := e <> EFuel /\ e <> EPanic.

Ltac et := split; discriminate.

(* ---- framing ----------------------------------------------------------------------------------- *)
Lemma ld_read_err_total zeof maxb s e : ld_read zeof maxb s = Err e -> err_total e.
Proof.
  unfold ld_read, ld_read_size. intros H.
  destruct (read_uv s) as [l r n| | | |]; try (inversion H; et).
  destruct ((l =? 0) && zeof); [inversion H; et|].
  destruct (maxb <? l); [inversion H; et|].
  destruct (blen r <? l); inversion H; et.
Qed.
Lemma read_node_err_total zeof maxb s e : read_node zeof maxb s = Err e -> err_total e.
Proof.
  unfold read_node. intros H. destruct (ld_read zeof maxb s) as [[buf r]|e'] eqn:E.
  - destruct (cid_from_bytes buf) as [[n q]|]; inversion H; et.
  - inversion H; subst. eapply ld_read_err_total; eassumption.
Qed.
Lemma ld_read_root_err_total s e : ld_read_root s = Err e -> err_total e.
Proof.
  unfold ld_read_root. intros H. destruct s as [|b t]; [inversion H; et|].
  destruct (read_uv_std (b :: t)) as [l r n| | | |]; try (inversion H; et).
  destruct (root_max_section <? wrap64 l); [inversion H; et|].
  destruct (blen r <? wrap64 l); inversion H; et.
Qed.
Lemma read_v2hdr_err_total s e : read_v2hdr s = Err e -> err_total e.
Proof.
  unfold read_v2hdr. intros H.
  destruct (blen s <? 16); [destruct (blen s =? 0); inversion H; et|].
  destruct (blen s <? 40); [destruct (blen s =? 16); inversion H; et|].
  destruct (as_int64 _ <? 51)%Z; [inversion H; et|]. destruct (as_int64 _ <=? 0)%Z; [inversion H; et|].
  destruct (as_int64 _ <? 0)%Z; inversion H; et.
Qed.

Section Scan.
  Variable hok : bytes -> bytes -> option bool.
  Variable hdrdec : bytes -> option (list bytes * N).

  Lemma read_header_err_total maxh s e : read_header hdrdec maxh s = Err e -> err_total e.
  Proof using hdrdec.
    unfold read_header. intros H. destruct (ld_read false maxh s) as [[hb r]|e'] eqn:E.
    - destruct (hdrdec hb) as [[rs v]|]; inversion H; et.
    - apply ld_read_err_total in E. destruct E as (E1 & E2).
      destruct e'; inversion H; subst; try et; exfalso; ((apply E1; reflexivity) || (apply E2; reflexivity)).
  Qed.
  Lemma read_header_root_err_total s e : read_header_root hdrdec s = Err e -> err_total e.
  Proof.
    unfold read_header_root. intros H. destruct (ld_read_root s) as [[hb r]|e'] eqn:E.
    - destruct (hdrdec hb) as [[rs v]|]; inversion H; et.
    - inversion H; subst. eapply ld_read_root_err_total; eassumption.
  Qed.

  Lemma verify_err_total c p d e : verify hok c p d = Err e -> err_total e.
  Proof. unfold verify. destruct (hash_matches hok c p d) as [[|]|]; intros H; inversion H; et. Qed.

  Lemma next_block_err_total o s e : next_block hok o s = Err e -> err_total e.
  Proof.
    unfold next_block. intros H.
    destruct (read_node (o_zeof o) (o_maxs o) s) as [[[[c p] d] r]|e'] eqn:E.
    - destruct (o_trusted o); [discriminate|].
      destruct (verify hok c p d) eqn:Ev; [discriminate|]. inversion H; subst.
      eapply verify_err_total; eassumption.
    - inversion H; subst. eapply read_node_err_total; eassumption.
  Qed.
  Lemma next_block_root_err_total s e : next_block_root hok s = Err e -> err_total e.
  Proof.
    unfold next_block_root, read_node_root. intros H.
    destruct (ld_read_root s) as [[buf r]|e'] eqn:E.
    - destruct (cid_from_reader buf) as [n c p after| |]; try (inversion H; et).
      destruct (verify hok c p after) eqn:Ev; [discriminate|]. inversion H; subst.
      eapply verify_err_total; eassumption.
    - inversion H; subst. eapply ld_read_root_err_total; eassumption.
  Qed.

  (* the scan ends with out-of-fuel or with the error of one of its steps *)
  Lemma scan_blocks_end o : forall fuel s acc,
    s_end (scan_blocks hok fuel o s acc) = EFuel \/
    exists s', next_block hok o s' = Err (s_end (scan_blocks hok fuel o s acc)).
  Proof.
    induction fuel as [|f IH]; intros s acc; cbn [scan_blocks]; [left; reflexivity|].
    destruct (next_block hok o s) as [[b rest]|e] eqn:E; [apply IH|].
    right. exists s. exact E.
  Qed.
  Theorem scan_all_end_total o s : err_total (s_end (scan_all hok o s)).
  Proof.
    pose proof (scan_all_terminates hok o s) as Hf. unfold scan_all in *.
    destruct (scan_blocks_end o (S (length s)) s []) as [H|(s' & H)]; [congruence|].
    apply next_block_err_total in H. exact H.
  Qed.
  Lemma scan_blocks_root_end : forall fuel s acc,
    s_end (scan_blocks_root hok fuel s acc) = EFuel \/
    exists s', next_block_root hok s' = Err (s_end (scan_blocks_root hok fuel s acc)).
  Proof.
    induction fuel as [|f IH]; intros s acc; cbn [scan_blocks_root]; [left; reflexivity|].
    destruct (next_block_root hok s) as [[b rest]|e] eqn:E; [apply IH|].
    right. exists s. exact E.
  Qed.
  Theorem scan_all_root_end_total s : err_total (s_end (scan_all_root hok s)).
  Proof.
    pose proof (scan_all_root_terminates hok s) as Hf. unfold scan_all_root in *.
    destruct (scan_blocks_root_end (S (length s)) s []) as [H|(s' & H)]; [congruence|].
    apply next_block_root_err_total in H. exact H.
  Qed.

  Lemma br_open_err_total o file e : br_open hdrdec o file = Err e -> err_total e.
  Proof.
    unfold br_open. intros H.
    destruct (read_header hdrdec (o_maxh o) file) as [[[[roots v] rest] used]|e'] eqn:E;
      [|inversion H; subst; eapply read_header_err_total; eassumption].
    destruct (v =? 1); [discriminate|]. destruct (v =? 2); [|inversion H; et].
    destruct (read_v2hdr rest) as [[h rest2]|e'] eqn:E2;
      [|inversion H; subst; eapply read_v2hdr_err_total; eassumption].
    cbv zeta in H.
    match type of H with context [read_header hdrdec (o_maxh o) (take ?a ?b)] =>
      destruct (read_header hdrdec (o_maxh o) (take a b)) as [[[[roots1 v1] rest3] used1]|e'] eqn:E3 end;
      [|inversion H; subst; eapply read_header_err_total; eassumption].
    destruct (v1 =? 1); [discriminate|inversion H; et].
  Qed.

  (* ---- the entry points ---- *)
  Theorem tot_br_total o file : o_maxh o <= go_max_alloc -> o_maxs o <= go_max_alloc ->
    (exists e, tot_br hok hdrdec o file = TOpen e /\ err_total e) \/
    (exists e, tot_br hok hdrdec o file = TEnd e /\ err_total e).
  Proof.
    intros Hh Hs. unfold tot_br. rewrite allocs_panic_false.
    2:{ eapply Forall_weaken; [|apply br_allocs_bound]. cbv beta. intros n [H|H]; lia. }
    unfold br_read_all. destruct (br_open hdrdec o file) as [[[[[v roots] s] off] base]|e] eqn:E.
    - right. eexists. split; [reflexivity|]. apply scan_all_end_total.
    - left. exists e. split; [reflexivity|]. eapply br_open_err_total; eassumption.
  Qed.

  Theorem tot_carv1_total o file : o_maxh o <= go_max_alloc -> o_maxs o <= go_max_alloc ->
    (exists e, tot_carv1 hok hdrdec o file = TOpen e /\ err_total e) \/
    (exists e, tot_carv1 hok hdrdec o file = TEnd e /\ err_total e).
  Proof.
    intros Hh Hs. unfold tot_carv1. rewrite allocs_panic_false.
    2:{ eapply Forall_weaken; [|apply carv1_allocs_bound]. cbv beta. intros n [H|H]; lia. }
    unfold carv1_read_all.
    destruct (read_header hdrdec (o_maxh o) file) as [[[[roots v] rest] used]|e] eqn:E.
    - destruct (negb (v =? 1)); [left; eexists; split; [reflexivity|et]|].
      destruct roots; [left; eexists; split; [reflexivity|et]|].
      right. eexists. split; [reflexivity|]. apply scan_all_end_total.
    - left. exists e. split; [reflexivity|]. eapply read_header_err_total; eassumption.
  Qed.

  Lemma root_allocs_no_panic file : allocs_panic (root_allocs hok hdrdec file) = false.
  Proof.
    apply allocs_panic_false. eapply Forall_weaken; [|apply root_allocs_bound]. cbv beta.
    unfold root_max_section, max_digest_alloc, go_max_alloc. intros n [H|H]; lia.
  Qed.
  Theorem tot_root_total file :
    (exists e, tot_root hok hdrdec file = TOpen e /\ err_total e) \/
    (exists e, tot_root hok hdrdec file = TEnd e /\ err_total e).
  Proof.
    unfold tot_root. rewrite root_allocs_no_panic. unfold root_read_all.
    destruct (read_header_root hdrdec file) as [[[roots v] rest]|e] eqn:E.
    - destruct (negb (v =? 1)); [left; eexists; split; [reflexivity|et]|].
      destruct roots; [left; eexists; split; [reflexivity|et]|].
      right. eexists. split; [reflexivity|]. apply scan_all_root_end_total.
    - left. exists e. split; [reflexivity|]. eapply read_header_root_err_total; eassumption.
  Qed.
  Theorem tot_rootload_total file :
    tot_rootload hok hdrdec file = TOk \/ exists e, tot_rootload hok hdrdec file = TErr e /\ err_total e.
  Proof.
    unfold tot_rootload. rewrite root_allocs_no_panic. unfold root_read_all.
    destruct (read_header_root hdrdec file) as [[[roots v] rest]|e] eqn:E.
    - destruct (negb (v =? 1)); [right; eexists; split; [reflexivity|et]|].
      destruct roots; [right; eexists; split; [reflexivity|et]|].
      pose proof (scan_all_root_end_total rest) as Ht. cbn [s_end].
      destruct (s_end (scan_all_root hok rest)); try (right; eexists; split; [reflexivity|exact Ht]).
      left. reflexivity.
    - right. exists e. split; [reflexivity|]. eapply read_header_root_err_total; eassumption.
  Qed.

  Theorem tot_version_total maxh s : maxh <= go_max_alloc ->
    tot_version hdrdec maxh s = TOk \/ exists e, tot_version hdrdec maxh s = TErr e /\ err_total e.
  Proof using hdrdec.
    clear hok. intros Hh. unfold tot_version. rewrite allocs_panic_false.
    2:{ eapply Forall_weaken; [|apply ld_read_allocs_bound]. cbv beta. intros; lia. }
    destruct (read_header hdrdec maxh s) as [x|e] eqn:E; [left; reflexivity|].
    right. exists e. split; [reflexivity|]. eapply read_header_err_total; eassumption.
  Qed.
End Scan.

Theorem tot_v2hdr_total s : tot_v2hdr s = TOk \/ exists e, tot_v2hdr s = TErr e /\ err_total e.
Proof.
  unfold tot_v2hdr. destruct (read_v2hdr s) as [x|e] eqn:E; [left; reflexivity|].
  right. exists e. split; [reflexivity|]. eapply read_v2hdr_err_total; eassumption.
Qed.

(* ---- index.ReadFrom ---------------------------------------------------------------------------- *)
Lemma swi_unmarshal_not_panic s e : swi_unmarshal s = Err e -> e <> EPanic.
Proof.
  unfold swi_unmarshal. cbv zeta. intros H.
  repeat match type of H with
         | (if ?c then _ else _) = _ => destruct c; try (inversion H; discriminate)
         end.
Qed.
Lemma swis_unmarshal_not_panic : forall fuel count s m e, swis_unmarshal fuel count s m = Err e -> e <> EPanic.
Proof.
  induction fuel as [|f IH]; intros count s m e H; cbn [swis_unmarshal] in H; [inversion H; discriminate|].
  destruct (count =? 0); [discriminate|].
  destruct (swi_unmarshal s) as [[b rest]|e'] eqn:E; [eapply IH; eassumption|].
  inversion H; subst. eapply swi_unmarshal_not_panic; eassumption.
Qed.
Lemma mwi_unmarshal_not_panic s e : mwi_unmarshal s = Err e -> e <> EPanic.
Proof.
  unfold mwi_unmarshal. intros H. destruct (blen s <? 4); [inversion H; discriminate|].
  destruct (two31 <=? _); [inversion H; discriminate|]. eapply swis_unmarshal_not_panic; eassumption.
Qed.
Lemma mwcis_unmarshal_not_panic : forall fuel count s m e, mwcis_unmarshal fuel count s m = Err e -> e <> EPanic.
Proof.
  induction fuel as [|f IH]; intros count s m e H; cbn [mwcis_unmarshal] in H; [inversion H; discriminate|].
  destruct (count =? 0); [discriminate|]. destruct (blen s <? 8); [inversion H; discriminate|].
  destruct (mwi_unmarshal (drop 8 s)) as [[w rest]|e'] eqn:E; [eapply IH; eassumption|].
  inversion H; subst. eapply mwi_unmarshal_not_panic; eassumption.
Qed.
Lemma idx_read_err_total s e : idx_read s = Err e -> err_total e.
Proof.
  intros H. split; [intros ->; exact (idx_read_terminates s H)|].
  unfold idx_read in H. destruct (read_uv s) as [codec rest n| | | |]; try (inversion H; discriminate).
  destruct (codec =? codec_sorted).
  - destruct (mwi_unmarshal rest) as [[m r]|e'] eqn:E; [discriminate|]. inversion H; subst.
    eapply mwi_unmarshal_not_panic; eassumption.
  - destruct (codec =? codec_mh_sorted); [|inversion H; discriminate].
    destruct (mh_unmarshal rest) as [[m r]|e'] eqn:E; [discriminate|]. inversion H; subst.
    unfold mh_unmarshal in E. destruct (blen rest <? 4); [inversion E; discriminate|].
    destruct (two31 <=? _); [inversion E; discriminate|]. eapply mwcis_unmarshal_not_panic; eassumption.
Qed.
Theorem tot_idx_total s : 2 * blen s <= go_max_alloc ->
  tot_idx s = TOk \/ exists e, tot_idx s = TErr e /\ err_total e.
Proof.
  intros Hs. unfold tot_idx. rewrite idx_allocs_no_panic by exact Hs.
  destruct (idx_read s) as [x|e] eqn:E; [left; reflexivity|].
  right. exists e. split; [reflexivity|]. eapply idx_read_err_total; eassumption.
Qed.

(* ---- store.Resume --------------------------------------------------------------------------------- *)
Lemma resume_scan_not_panic zeof base view : forall fuel pos ii e,
  resume_scan fuel zeof base view pos ii = Err e -> e <> EPanic.
Proof.
  induction fuel as [|f IH]; intros pos ii e H; cbn [resume_scan] in H; [inversion H; discriminate|].
  destruct (read_uv (drop pos view)) as [len r1 n1| | | |]; try (inversion H; discriminate).
  destruct (len =? 0); [destruct zeof; inversion H; discriminate|].
  destruct (cid_from_reader r1) as [n c p rest| |]; try (inversion H; discriminate).
  destruct ((n <=? len) && _); [inversion H; discriminate|]. eapply IH; eassumption.
Qed.

Section Resume.
  Variable hdrdec : bytes -> option (list bytes * N).
  Lemma resume_err_total k ct o roots file faults e dv :
    resume hdrdec k ct o roots file faults = inr (e, dv) -> err_total e.
  Proof.
    unfold resume. intros H.
    destruct (read_header hdrdec (w_maxh o) file) as [[[[rs ver] rest] used]|e'] eqn:E;
      [|inversion H; subst; eapply read_header_err_total; eassumption].
    destruct (negb _); [inversion H; et|].
    match type of H with context [match ?p with Ok _ => _ | Err _ => _ end] => destruct p as [hin|e'] eqn:Ep end.
    2:{ inversion H; subst.
        destruct (w_v1 o); [discriminate|]. destruct (negb ct); [inversion Ep; et|].
        destruct (read_v2hdr _) as [[h r]|]; [|discriminate].
        destruct (negb _); inversion Ep; et. }
    destruct (read_header hdrdec (w_maxh o) (drop (data_base o) file)) as [[[[hroots hver] rest'] used']|e'] eqn:E2.
    2:{ apply read_header_err_total in E2. destruct E2 as (E2a & E2b).
        destruct e'; inversion H; subst; try et; exfalso; ((apply E2a; reflexivity) || (apply E2b; reflexivity)). }
    destruct (negb (header_matches hroots hver roots)); [inversion H; et|].
    match type of H with context [let '(_, _) := ?p in _] => destruct p as [dv2 ok2] end.
    destruct (negb ok2); [inversion H; et|].
    match type of H with context [resume_scan ?f ?z ?b ?v ?st ?i] =>
      destruct (resume_scan f z b v st i) as [[ii pos]|e'] eqn:Es end; [discriminate|].
    inversion H; subst. split.
    - intros ->. exact (resume_scan_terminates _ _ _ _ Es).
    - eapply resume_scan_not_panic; eassumption.
  Qed.

  Theorem tot_resume_total o roots file : w_maxh o <= go_max_alloc ->
    tot_resume hdrdec o roots file = TOk \/ exists e, tot_resume hdrdec o roots file = TErr e /\ err_total e.
  Proof.
    intros Hh. unfold tot_resume. rewrite allocs_panic_false.
    2:{ eapply Forall_weaken; [|apply resume_allocs_bound]. cbv beta.
        unfold max_digest_alloc, go_max_alloc in *. intros n [H|H]; lia. }
    destruct (resume hdrdec KBlockstore true o roots file []) as [st|[e dv]] eqn:E; [left; reflexivity|].
    right. exists e. split; [reflexivity|]. eapply resume_err_total; eassumption.
  Qed.
End Resume.

(* ---- Resume's version probe obeys the configured header limit (repaired) ------------------------------------ *)
(* OpenReadWrite(.., MaxAllowedHeaderSize(1 KiB)) on four bytes that declare a 24 MiB header: the first
   header read (store.ResumableVersion -> ReadVersion, now with the caller's options) answers
   ErrHeaderTooLarge and requests nothing.  Before notes/fixes/C09-resume-version-probe-limit.patch it ran
   under the 32 MiB default: 24 MiB were requested and the answer was unexpected EOF. *)
Definition probe_wopts : wopts := mkwopts 0 0 1025 false 2048 false false false false 1024 8388608.
Definition probe_file : bytes := put_uv 25165824.
Lemma resume_probe_over_limit :
  resume_allocs dec_header_canon KBlockstore true probe_wopts [] probe_file [] = [] /\
  tot_resume dec_header_canon probe_wopts [] probe_file = TErr EHeaderTooLarge.
Proof. vm_compute. repeat split; reflexivity. Qed.

(* for EVERY input: a first header that declares more than the configured limit is refused with the
   too-large error and nothing is requested *)
Section ResumeProbe.
  Variable hdrdec : bytes -> option (list bytes * N).
  Theorem resume_first_header_over_limit k ct o roots l rest faults :
    l < two63 -> w_maxh o < l ->
    resume_allocs hdrdec k ct o roots (put_uv l ++ rest) faults = [] /\
    exists dv, resume hdrdec k ct o roots (put_uv l ++ rest) faults = inr (EHeaderTooLarge, dv).
  Proof.
    intros H63 Hl.
    assert (Hrd : ld_read false (w_maxh o) (put_uv l ++ rest) = Err ESectionTooLarge).
    { unfold ld_read, ld_read_size. rewrite read_uv_put_uv by exact H63. rewrite andb_false_r.
      replace (w_maxh o <? l) with true by lia. reflexivity. }
    assert (Hal : ld_read_allocs false (w_maxh o) (put_uv l ++ rest) = []).
    { unfold ld_read_allocs, ld_read_size. rewrite read_uv_put_uv by exact H63. rewrite andb_false_r.
      replace (w_maxh o <? l) with true by lia. reflexivity. }
    assert (Hh : read_header hdrdec (w_maxh o) (put_uv l ++ rest) = Err EHeaderTooLarge)
      by (unfold read_header; rewrite Hrd; reflexivity).
    split.
    - unfold resume_allocs. rewrite Hal, Hh. reflexivity.
    - unfold resume. rewrite Hh. eexists. reflexivity.
  Qed.
End ResumeProbe.

(* ---- a limit above what the runtime can allocate: the guard is needed -------------------------------- *)
(* MaxAllowedSectionSize(1<<62) and a section that declares 2^61 bytes: make() itself panics *)
Definition huge_limit_opts : ropts := mkropts false 33554432 4611686018427387904 true.
Definition huge_limit_file : bytes :=
  ld (enc_header (Some []) 1) ++ [xff; xff; xff; xff; xff; xff; xff; xff; x1f].
Lemma tot_br_huge_limit_panics :
  tot_br (fun _ _ => None) dec_header_canon huge_limit_opts huge_limit_file = TPanic.
Proof. vm_compute. reflexivity. Qed.

(* ---- limits are enforced exactly, before the buffer is requested -------------------------------------- *)
Theorem ld_read_limit_exact zeof maxb payload rest :
  blen payload < two63 -> (zeof = true -> blen payload <> 0) -> blen payload = maxb ->
  ld_read zeof maxb (ld payload ++ rest) = Ok (payload, rest) /\
  ld_read_allocs zeof maxb (ld payload ++ rest) = [maxb].
Proof.
  intros H63 Hz Hm. assert (Hr : ld_read zeof maxb (ld payload ++ rest) = Ok (payload, rest))
    by (apply ld_read_ld; [assumption|lia|assumption]).
  split; [exact Hr|]. destruct (ld_read_allocs_ok _ _ _ _ _ Hr) as (-> & _). congruence.
Qed.
Theorem ld_read_limit_over zeof maxb payload rest :
  blen payload < two63 -> blen payload = maxb + 1 ->
  ld_read zeof maxb (ld payload ++ rest) = Err ESectionTooLarge /\
  ld_read_allocs zeof maxb (ld payload ++ rest) = [].
Proof.
  intros H63 Hm.
  assert (Hs : ld_read_size zeof maxb (ld payload ++ rest) = Err ESectionTooLarge).
  { unfold ld_read_size, ld. rewrite <- app_assoc, read_uv_put_uv by exact H63.
    replace (blen payload =? 0) with false by lia. cbn [andb].
    replace (maxb <? blen payload) with true by lia. reflexivity. }
  split; [unfold ld_read; rewrite Hs; reflexivity|]. eapply ld_read_allocs_rejected; exact Hs.
Qed.

Section Limits.
  Variable hok : bytes -> bytes -> option bool.
  Variable hdrdec : bytes -> option (list bytes * N).

  Theorem read_header_limit_exact maxh hb rest roots v :
    blen hb < two63 -> hdrdec hb = Some (roots, v) -> blen hb = maxh ->
    read_header hdrdec maxh (ld hb ++ rest) = Ok (roots, v, rest, ld_size maxh).
  Proof.
    intros H63 Hd Hm. unfold read_header.
    destruct (ld_read_limit_exact false maxh hb rest H63 ltac:(discriminate) Hm) as (-> & _).
    rewrite Hd, Hm. reflexivity.
  Qed.
  Theorem read_header_limit_over maxh hb rest :
    blen hb < two63 -> blen hb = maxh + 1 ->
    read_header hdrdec maxh (ld hb ++ rest) = Err EHeaderTooLarge /\
    ld_read_allocs false maxh (ld hb ++ rest) = [].
  Proof.
    intros H63 Hm. destruct (ld_read_limit_over false maxh hb rest H63 Hm) as (Hr & Ha).
    split; [unfold read_header; rewrite Hr; reflexivity|exact Ha].
  Qed.

  (* reader level: an archive whose header is exactly MaxAllowedHeaderSize and whose largest
     section is exactly MaxAllowedSectionSize reads back completely ... *)
  Theorem br_limit_exact o roots bs :
    archive_ok hok hdrdec o roots bs ->
    blen (enc_header (Some roots) 1) = o_maxh o ->
    br_read_all hok hdrdec o (enc_payload roots bs) = Ok (1, roots, mkscan bs EEof).
  Proof. intros H _. apply br_read_all_v1. exact H. Qed.

  (* ... one byte less of header limit: the constructor fails with the header-too-large error *)
  Theorem br_header_limit_over o roots rest :
    blen (enc_header (Some roots) 1) < two63 -> blen (enc_header (Some roots) 1) = o_maxh o + 1 ->
    br_read_all hok hdrdec o (ld (enc_header (Some roots) 1) ++ rest) = Err EHeaderTooLarge /\
    br_allocs hok hdrdec o (ld (enc_header (Some roots) 1) ++ rest) = [].
  Proof.
    intros H63 Hm. destruct (read_header_limit_over (o_maxh o) _ rest H63 Hm) as (Hr & Ha).
    split.
    - unfold br_read_all, br_open. rewrite Hr. reflexivity.
    - unfold br_allocs. rewrite Hr, Ha. reflexivity.
  Qed.

  (* ... a section one byte over MaxAllowedSectionSize: exactly the sections in front of it are
     returned, then the section-too-large error, and nothing is requested for it *)
  Theorem scan_section_limit_over o pre c d rest :
    Forall (block_ok (o_maxs o)) pre -> (o_trusted o = false -> Forall (hash_good hok) pre) ->
    blen c + blen d < two63 -> blen c + blen d = o_maxs o + 1 ->
    scan_all hok o (enc_sections pre ++ enc_section c d ++ rest) = mkscan pre ESectionTooLarge /\
    ld_read_allocs (o_zeof o) (o_maxs o) (enc_section c d ++ rest) = [].
  Proof.
    intros Hok Hh H63 Hm.
    destruct (ld_read_limit_over (o_zeof o) (o_maxs o) (c ++ d) rest) as (Hr & Ha);
      [rewrite blen_app; exact H63|rewrite blen_app; exact Hm|].
    rewrite <- enc_section_ld in Hr, Ha. split; [|exact Ha].
    unfold scan_all.
    pose proof (enc_sections_length hok hdrdec pre) as Hl. pose proof (enc_section_pos hok hdrdec c d) as Hp.
    assert (Hlen : (length pre + 1 <= length (enc_sections pre ++ enc_section c d ++ rest))%nat).
    { rewrite !app_length. unfold blen in Hp. lia. }
    remember (length (enc_sections pre ++ enc_section c d ++ rest)) as L.
    replace (S L) with (length pre + S (L - length pre))%nat by lia.
    rewrite scan_blocks_prefix by assumption.
    cbn [scan_blocks]. unfold next_block, read_node. rewrite Hr.
    rewrite app_nil_r, rev_involutive. reflexivity.
  Qed.
End Limits.

(* ---- non-vacuity: concrete instances (identity CIDs: the hash is defined, no oracle needed) --------- *)
Definition c09_file : bytes := enc_payload [ex_cid1] ex_blocks.
Definition c09_opts_exact : ropts := mkropts false 27 8 false.   (* header 27 bytes, largest section 8 *)
Definition c09_opts_over_h : ropts := mkropts false 26 8 false.
Definition c09_opts_over_s : ropts := mkropts false 27 7 false.

Example c09_ex_sizes :
  blen (enc_header (Some [ex_cid1]) 1) = 27 /\
  map (fun b => blen (fst b) + blen (snd b)) ex_blocks = [8; 6].
Proof. vm_compute. split; reflexivity. Qed.
(* exactly at the limits: accepted, and the buffers requested are exactly header and sections *)
Example c09_ex_exact :
  tot_br ex_hok dec_header_canon c09_opts_exact c09_file = TEnd EEof /\
  br_allocs ex_hok dec_header_canon c09_opts_exact c09_file = [27; 8; 6].
Proof. vm_compute. split; reflexivity. Qed.
(* one byte less: too-large errors, and nothing requested for the rejected item *)
Example c09_ex_over_h :
  tot_br ex_hok dec_header_canon c09_opts_over_h c09_file = TOpen EHeaderTooLarge /\
  br_allocs ex_hok dec_header_canon c09_opts_over_h c09_file = [].
Proof. vm_compute. split; reflexivity. Qed.
Example c09_ex_over_s :
  tot_br ex_hok dec_header_canon c09_opts_over_s c09_file = TEnd ESectionTooLarge /\
  br_allocs ex_hok dec_header_canon c09_opts_over_s c09_file = [27].
Proof. vm_compute. split; reflexivity. Qed.
(* hostile lengths with default limits: a section declaring 2^62 bytes, a header declaring 2^31 *)
Example c09_ex_hostile_section :
  tot_br ex_hok dec_header_canon default_ropts
         (ld (enc_header (Some [ex_cid1]) 1) ++ put_uv 4611686018427387904) = TEnd ESectionTooLarge /\
  tot_br ex_hok dec_header_canon default_ropts (put_uv 2147483648) = TOpen EHeaderTooLarge.
Proof. vm_compute. split; reflexivity. Qed.
(* index: a bucket declaring 2^40 bytes with 3 present costs one chunk; a well-formed one its size *)
Example c09_ex_index :
  idx_allocs (put_uv codec_sorted ++ le_enc 4 1 ++ le_enc 4 9 ++ le_enc 8 1099511627776 ++ [x01; x02; x03])
    = [idx_chunk] /\
  tot_idx (put_uv codec_sorted ++ le_enc 4 1 ++ le_enc 4 9 ++ le_enc 8 1099511627776 ++ [x01; x02; x03])
    = TErr EUnexpectedEof /\
  idx_allocs (put_uv codec_sorted ++ le_enc 4 1 ++ le_enc 4 9 ++ le_enc 8 9 ++ zeros 9) = [9] /\
  tot_idx (put_uv codec_sorted ++ le_enc 4 1 ++ le_enc 4 9 ++ le_enc 8 9 ++ zeros 9) = TOk.
Proof. vm_compute. repeat split; reflexivity. Qed.
(* the doubling schedule of readBucket: 5 MiB declared, 3 MiB delivered *)
Example c09_ex_bucket_schedule :
  read_bucket_allocs 5242880 3145728 = [1048576; 2097152; 4194304].
Proof. vm_compute. reflexivity. Qed.
