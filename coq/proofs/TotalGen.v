(* C09 for LoadIndex/GenerateIndex over every source kind (theories/IndexGen.v) and for
   NewReader + Inspect (theories/Inspect.v): termination, totality, buffer bounds -- ALL byte strings. *)
From GoCar Require Import Bytes Varint Cid Header Frame V2Header Scan Index Store Alloc RunTotal.
From GoCar Require IndexGen Inspect.
From GoCarProofs Require Import BytesFacts VarintFacts Termination TotalAlloc TotalIndex TotalMain InspectC13.

(* ---- IndexGen ---------------------------------------------------------------------------------------- *)

Section Gen.
  Variable hdrdec : bytes -> option (list bytes * N).

  (* every iteration moves the source forward by at least one byte, whatever the seek does *)
  Lemma gen_loop_no_fuel tc k o all doff dsize : forall fuel st acc,
    (1 <= fuel)%nat -> (length all + 1 <= fuel + N.to_nat (IndexGen.rs_pos st))%nat ->
    IndexGen.li_loop fuel tc k o all doff dsize st acc <> Err EFuel.
  Proof.
    induction fuel as [|f IH]; intros st acc H1 Hf; [lia|]. cbn [IndexGen.li_loop].
    destruct (tc && IndexGen.payload_end doff dsize st); [discriminate|].
    destruct (read_uv (IndexGen.view all st)) as [slen r n| | | |] eqn:E; try discriminate.
    apply read_uv_consumes in E. unfold IndexGen.view in E. rewrite blen_drop in E.
    destruct (slen =? 0) eqn:Es; [destruct (IndexGen.g_zeof o); discriminate|].
    destruct (cid_from_reader _) as [cn c p rest| |]; try discriminate.
    destruct (IndexGen.indexed o p && _); [discriminate|].
    destruct (IndexGen.seek_cur k all _ _) as [st3|e] eqn:Es3.
    2:{ unfold IndexGen.seek_cur in Es3. destruct k.
        - destruct (_ <? 0)%Z; [inversion Es3; discriminate|].
          destruct (_ <=? _)%Z; inversion Es3; discriminate.
        - destruct (_ <=? 0)%Z; [discriminate|]. destruct (_ <? _); inversion Es3; discriminate. }
    destruct (negb tc && _); [discriminate|].
    assert (Hp : IndexGen.rs_pos st + 1 <= IndexGen.rs_pos st3).
    { unfold IndexGen.seek_cur, IndexGen.advance in Es3. cbn [IndexGen.rs_pos IndexGen.rs_woff] in Es3. destruct k.
      - destruct (_ <? 0)%Z eqn:E1; [discriminate|]. destruct (_ <=? _)%Z; [discriminate|].
        inversion Es3; subst. cbn [IndexGen.rs_pos]. lia.
      - destruct (_ <=? 0)%Z; [inversion Es3; subst; cbn [IndexGen.rs_pos]; lia|].
        destruct (_ <? _); [discriminate|]. inversion Es3; subst. cbn [IndexGen.rs_pos]. lia. }
    unfold blen in E. apply IH; lia.
  Qed.

  Lemma gen_loop_not_panic tc k o all doff dsize : forall fuel st acc e,
    IndexGen.li_loop fuel tc k o all doff dsize st acc = Err e -> e <> EPanic.
  Proof.
    induction fuel as [|f IH]; intros st acc e H; cbn [IndexGen.li_loop] in H; [inversion H; discriminate|].
    destruct (tc && IndexGen.payload_end doff dsize st); [discriminate|].
    destruct (read_uv (IndexGen.view all st)) as [slen r n| | | |]; try (inversion H; discriminate).
    destruct (slen =? 0); [destruct (IndexGen.g_zeof o); inversion H; discriminate|].
    destruct (cid_from_reader _) as [cn c p rest| |]; try (inversion H; discriminate).
    destruct (IndexGen.indexed o p && _); [inversion H; discriminate|].
    destruct (IndexGen.seek_cur k all _ _) as [st3|e'] eqn:Es3.
    2:{ inversion H; subst. unfold IndexGen.seek_cur in Es3. destruct k.
        - destruct (_ <? 0)%Z; [inversion Es3; discriminate|].
          destruct (_ <=? _)%Z; inversion Es3; discriminate.
        - destruct (_ <=? 0)%Z; [discriminate|]. destruct (_ <? _); inversion Es3; discriminate. }
    destruct (negb tc && _); [discriminate|]. eapply IH; eassumption.
  Qed.

  Lemma seek_start_err_total k all off st e : IndexGen.seek_start k all off st = Err e -> err_total e.
  Proof.
    unfold IndexGen.seek_start. destruct k; [discriminate|].
    destruct (off <? IndexGen.rs_woff st); [intros H; inversion H; split; discriminate|].
    destruct (_ <? _); intros H; inversion H; split; discriminate.
  Qed.

  Lemma load_index_gen_err_total fx k o all e :
    IndexGen.load_index_gen hdrdec fx k o all = Err e -> err_total e.
  Proof.
    unfold IndexGen.load_index_gen. cbv zeta. intros H.
    destruct (read_header hdrdec (IndexGen.g_maxh o) all) as [[[[roots v] rest] used]|e'] eqn:E.
    2:{ destruct e'; inversion H; split; discriminate. }
    assert (Hloop : forall doff dsize st, (IndexGen.rs_pos st <= blen all \/ True) ->
              IndexGen.li_loop (S (length all)) (IndexGen.fx_topcheck fx) k o all doff dsize st [] = Err e ->
              e <> EPanic) by (intros; eapply gen_loop_not_panic; eassumption).
    destruct (v =? 1).
    { split; [|eapply gen_loop_not_panic; eassumption].
      intros ->. revert H. apply gen_loop_no_fuel; lia. }
    destruct (v =? 2); [|inversion H; split; discriminate].
    destruct (read_v2hdr _) as [[h rest2]|e'] eqn:E2; [|inversion H; subst; apply (read_v2hdr_err_total _ _ E2)].
    destruct (IndexGen.seek_start k all (h_doff h) _) as [st2|e'] eqn:E3;
      [|inversion H; subst; apply (seek_start_err_total _ _ _ _ _ E3)].
    destruct (read_header hdrdec (IndexGen.g_maxh o) (IndexGen.view all st2)) as [[[[roots1 v1] rest1] used1]|e'] eqn:E4;
      [|inversion H; subst; apply (read_header_err_total hdrdec _ _ _ E4)].
    destruct (negb (v1 =? 1)); [inversion H; split; discriminate|].
    split; [|eapply gen_loop_not_panic; eassumption].
    intros ->. revert H. apply gen_loop_no_fuel; lia.
  Qed.

  (* buffers: header buffers within MaxAllowedHeaderSize, digest buffers within go-cid's constant *)
  Lemma gen_loop_allocs_bound tc k o all doff dsize : forall fuel st,
    Forall (fun a => a <= max_digest_alloc) (gen_loop_allocs fuel tc k o all doff dsize st).
  Proof.
    induction fuel as [|f IH]; intros st; cbn [gen_loop_allocs]; [constructor|].
    destruct (tc && IndexGen.payload_end doff dsize st); [constructor|].
    destruct (read_uv (IndexGen.view all st)) as [slen r n| | | |]; try constructor. cbv zeta.
    destruct (slen =? 0); [constructor|]. apply Forall_app. split; [apply cfr_allocs_bound|].
    destruct (cid_from_reader _) as [cn c p rest| |]; try constructor.
    destruct (IndexGen.indexed o p && _); [constructor|].
    destruct (IndexGen.seek_cur k all _ _) as [st3|e]; [|constructor].
    destruct (negb tc && _); [constructor|apply IH].
  Qed.

  Theorem gen_allocs_bound fx k o all :
    Forall (fun a => a <= IndexGen.g_maxh o \/ a <= max_digest_alloc) (gen_allocs hdrdec fx k o all).
  Proof.
    unfold gen_allocs. cbv zeta.
    assert (Hh : forall s, Forall (fun a => a <= IndexGen.g_maxh o \/ a <= max_digest_alloc)
                                  (ld_read_allocs false (IndexGen.g_maxh o) s)).
    { intros s. eapply Forall_weaken; [|apply ld_read_allocs_bound]. cbv beta. intros; lia. }
    assert (Hl : forall fuel tc doff dsize st, Forall (fun a => a <= IndexGen.g_maxh o \/ a <= max_digest_alloc)
                                  (gen_loop_allocs fuel tc k o all doff dsize st)).
    { intros. eapply Forall_weaken; [|apply gen_loop_allocs_bound]. cbv beta. intros; lia. }
    apply Forall_app. split; [apply Hh|].
    destruct (read_header hdrdec (IndexGen.g_maxh o) all) as [[[[roots v] rest] used]|]; [|constructor].
    destruct (v =? 1); [apply Hl|]. destruct (v =? 2); [|constructor].
    destruct (read_v2hdr _) as [[h rest2]|]; [|constructor].
    destruct (IndexGen.seek_start k all (h_doff h) _) as [st2|]; [|constructor].
    apply Forall_app. split; [apply Hh|].
    destruct (read_header hdrdec (IndexGen.g_maxh o) (IndexGen.view all st2)) as [[[[roots1 v1] rest1] used1]|]; [|constructor].
    destruct (negb (v1 =? 1)); [constructor|apply Hl].
  Qed.

  Theorem tot_gen_total k o all : IndexGen.g_maxh o <= go_max_alloc ->
    tot_gen hdrdec k o all = TOk \/ exists e, tot_gen hdrdec k o all = TErr e /\ err_total e.
  Proof.
    intros Hh. unfold tot_gen. rewrite allocs_panic_false.
    2:{ eapply Forall_weaken; [|apply gen_allocs_bound]. cbv beta.
        unfold max_digest_alloc, go_max_alloc in *. intros n [H|H]; lia. }
    unfold IndexGen.load_index.
    destruct (IndexGen.load_index_gen hdrdec IndexGen.repaired k o all) as [x|e] eqn:E; [left; reflexivity|].
    right. exists e. split; [reflexivity|]. eapply load_index_gen_err_total; eassumption.
  Qed.
End Gen.

(* ---- Inspect ----------------------------------------------------------------------------------------------- *)
Section Insp.
  Variable hok : bytes -> bytes -> option bool.
  Variable hdrdec : bytes -> option (list bytes * N).

  Lemma insp_loop_not_panic v o roots : forall fuel s a e,
    Inspect.insp_loop hok fuel v o roots s a = Err e -> e <> EPanic.
  Proof.
    induction fuel as [|f IH]; intros s a e H; cbn [Inspect.insp_loop] in H; [inversion H; discriminate|].
    destruct (read_uv s) as [l rest n| | | |]; try (inversion H; discriminate).
    destruct ((l =? 0) && o_zeof o); [discriminate|].
    destruct (o_maxs o <? l); [inversion H; discriminate|].
    destruct (cid_from_reader rest) as [cn c p after| |]; try (inversion H; discriminate).
    destruct (l <? cn); [inversion H; discriminate|]. cbv zeta in H.
    destruct v.
    - destruct (blen after <? l - cn); [inversion H; discriminate|].
      destruct (verify hok c p (take (l - cn) after)) as [u|e'] eqn:Ev.
      + eapply IH; eassumption.
      + inversion H; subst. apply (verify_err_total hok _ _ _ _ Ev).
    - eapply IH; eassumption.
  Qed.

  Lemma new_reader_err_total o file e : Inspect.new_reader hdrdec o file = Err e -> err_total e.
  Proof.
    unfold Inspect.new_reader. intros H.
    destruct (read_header hdrdec (o_maxh o) file) as [[[[roots v] rest] used]|e'] eqn:E;
      [|inversion H; subst; apply (read_header_err_total hdrdec _ _ _ E)].
    destruct (v =? 1); [discriminate|]. destruct (v =? 2); [|inversion H; split; discriminate].
    destruct (negb (used =? 11)); [inversion H; split; discriminate|].
    destruct (read_v2hdr (drop 11 file)) as [[h r]|e'] eqn:E2; [discriminate|].
    inversion H; subst. apply (read_v2hdr_err_total _ _ E2).
  Qed.

  Lemma inspect_err_total o rd file v e : Inspect.inspect hok hdrdec o rd file v = Err e -> err_total e.
  Proof.
    intros H. split; [intros ->; exact (inspect_never_out_of_fuel hok hdrdec o rd file v H)|].
    unfold Inspect.inspect in H. cbv zeta in H.
    destruct (read_header hdrdec (o_maxh o) _) as [[[[roots hv] rest] used]|e'] eqn:E;
      [|inversion H; subst; apply (read_header_err_total hdrdec _ _ _ E)].
    destruct ((Inspect.r_version rd =? 2) && negb (hv =? 1)); [inversion H; discriminate|].
    destruct (Inspect.insp_loop hok _ v o roots rest _) as [a|e'] eqn:El.
    - unfold Inspect.index_codec in H.
      destruct (negb (Inspect.r_version rd =? 1) && has_index (Inspect.r_hdr rd)); [|discriminate].
      destruct (read_uv _); inversion H; discriminate.
    - inversion H; subst. eapply insp_loop_not_panic; eassumption.
  Qed.

  Lemma insp_loop_allocs_bound v o : forall fuel s,
    Forall (fun a => a <= max_digest_alloc) (insp_loop_allocs hok fuel v o s).
  Proof.
    induction fuel as [|f IH]; intros s; cbn [insp_loop_allocs]; [constructor|].
    destruct (read_uv s) as [l rest n| | | |]; try constructor.
    destruct ((l =? 0) && o_zeof o); [constructor|]. destruct (o_maxs o <? l); [constructor|].
    apply Forall_app. split; [apply cfr_allocs_bound|].
    destruct (cid_from_reader rest) as [cn c p after| |]; try constructor.
    destruct (l <? cn); [constructor|]. cbv zeta. destruct v; [|apply IH].
    destruct (blen after <? l - cn); [constructor|].
    destruct (verify hok c p _); [apply IH|constructor].
  Qed.

  Theorem inspect_allocs_bound o file v :
    Forall (fun a => a <= o_maxh o \/ a <= max_digest_alloc) (inspect_allocs hok hdrdec o file v).
  Proof.
    unfold inspect_allocs. cbv zeta.
    assert (Hh : forall s, Forall (fun a => a <= o_maxh o \/ a <= max_digest_alloc) (ld_read_allocs false (o_maxh o) s)).
    { intros s. eapply Forall_weaken; [|apply ld_read_allocs_bound]. cbv beta. intros; lia. }
    apply Forall_app. split; [apply Hh|].
    destruct (Inspect.new_reader hdrdec o file) as [rd|]; [|constructor].
    apply Forall_app. split; [apply Hh|].
    destruct (read_header hdrdec (o_maxh o) _) as [[[[roots hv] rest] used]|]; [|constructor].
    destruct ((Inspect.r_version rd =? 2) && negb (hv =? 1)); [constructor|].
    eapply Forall_weaken; [|apply insp_loop_allocs_bound]. cbv beta. intros; lia.
  Qed.

  Theorem tot_inspect_total o file v : o_maxh o <= go_max_alloc ->
    tot_inspect hok hdrdec o file v = TOk \/ exists e, tot_inspect hok hdrdec o file v = TErr e /\ err_total e.
  Proof.
    intros Hh. unfold tot_inspect. rewrite allocs_panic_false.
    2:{ eapply Forall_weaken; [|apply inspect_allocs_bound]. cbv beta.
        unfold max_digest_alloc, go_max_alloc in *. intros n [H|H]; lia. }
    unfold Inspect.inspect_file.
    destruct (Inspect.new_reader hdrdec o file) as [rd|e] eqn:E.
    - destruct (Inspect.inspect hok hdrdec o rd file v) as [st|e] eqn:Ei; [left; reflexivity|].
      right. exists e. split; [reflexivity|]. eapply inspect_err_total; eassumption.
    - right. exists e. split; [reflexivity|]. eapply new_reader_err_total; eassumption.
  Qed.
End Insp.
