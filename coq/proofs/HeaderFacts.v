(* CARv1 header (dag-cbor) round trip for the canonical-shape decoder. *)
From GoCar Require Import Bytes Varint Cid Header.
From GoCarProofs Require Import BytesFacts VarintFacts CidFacts.
Ltac Zify.zify_post_hook ::= Z.div_mod_to_equations.

Lemma be_enc_length w n : length (be_enc w n) = w.
Proof. induction w; cbn; [reflexivity|rewrite IHw; reflexivity]. Qed.
Lemma blen_be_enc w n : blen (be_enc w n) = N.of_nat w.
Proof. unfold blen. rewrite be_enc_length. reflexivity. Qed.

Lemma be_dec_acc_app acc a b : be_dec_acc acc (a ++ b) = be_dec_acc (be_dec_acc acc a) b.
Proof. revert acc. induction a as [|x a IH]; intros acc; cbn; [reflexivity|apply IH]. Qed.

Lemma be_dec_enc w : forall acc n,
  be_dec_acc acc (be_enc w n) = acc * 256 ^ N.of_nat w + n mod 256 ^ N.of_nat w.
Proof.
  induction w as [|w IH]; intros acc n.
  - cbn. rewrite N.mod_1_r. lia.
  - cbn [be_enc be_dec_acc]. rewrite IH.
    rewrite b2n_n2b by (apply N.mod_lt; lia).
    rewrite Nnat.Nat2N.inj_succ, N.pow_succ_r'.
    set (P := 256 ^ N.of_nat w). assert (HP : P <> 0) by (unfold P; apply N.pow_nonzero; lia).
    rewrite (N.mul_comm 256 P). rewrite (N.mod_mul_r n P 256) by lia. lia.
Qed.
Lemma be_dec_enc0 w n : n < 256 ^ N.of_nat w -> be_dec_acc 0 (be_enc w n) = n.
Proof. intros H. rewrite be_dec_enc, N.mod_small by exact H. lia. Qed.

Lemma b2n_head m i : m < 8 -> i < 32 -> b2n (n2b (m * 32 + i)) = m * 32 + i.
Proof. intros. apply b2n_n2b. lia. Qed.

Lemma dec_head_enc m n rest : m < 8 -> n < two64 ->
  dec_head (cbor_head m n ++ rest) = Some (m, n, rest).
Proof.
  intros Hm Hn. unfold cbor_head.
  destruct (n <? 24) eqn:E1.
  { cbn [app dec_head]. rewrite b2n_head by lia.
    replace ((m * 32 + n) mod 32) with n by lia. replace ((m * 32 + n) / 32) with m by lia.
    rewrite E1. reflexivity. }
  assert (Hgen : forall w info, (info =? 24) || (info =? 25) || (info =? 26) || (info =? 27) = true ->
     N.of_nat w = (if info =? 24 then 1 else if info =? 25 then 2 else if info =? 26 then 4 else 8) ->
     n < 256 ^ N.of_nat w ->
     dec_head ((n2b (m * 32 + info) :: be_enc w n) ++ rest) = Some (m, n, rest)).
  { intros w info Hinfo Hw Hlt. cbn [app dec_head]. 
    assert (info < 32) by lia.
    rewrite b2n_head by lia.
    replace ((m * 32 + info) mod 32) with info by lia. replace ((m * 32 + info) / 32) with m by lia.
    replace (info <? 24) with false by lia.
    pose proof (blen_be_enc w n) as Hb.
    destruct (info =? 24) eqn:I24.
    { rewrite <- Hw, <- Hb, take_app, drop_app.
      replace (blen (be_enc w n ++ rest) <? blen (be_enc w n)) with false by (rewrite blen_app; lia).
      rewrite be_dec_enc0 by exact Hlt. reflexivity. }
    destruct (info =? 25) eqn:I25.
    { rewrite <- Hw, <- Hb, take_app, drop_app.
      replace (blen (be_enc w n ++ rest) <? blen (be_enc w n)) with false by (rewrite blen_app; lia).
      rewrite be_dec_enc0 by exact Hlt. reflexivity. }
    destruct (info =? 26) eqn:I26.
    { rewrite <- Hw, <- Hb, take_app, drop_app.
      replace (blen (be_enc w n ++ rest) <? blen (be_enc w n)) with false by (rewrite blen_app; lia).
      rewrite be_dec_enc0 by exact Hlt. reflexivity. }
    replace (info =? 27) with true by lia.
    rewrite <- Hw, <- Hb, take_app, drop_app.
    replace (blen (be_enc w n ++ rest) <? blen (be_enc w n)) with false by (rewrite blen_app; lia).
    rewrite be_dec_enc0 by exact Hlt. reflexivity. }
  destruct (n <? 256) eqn:E2.
  { apply (Hgen 1%nat 24); [reflexivity|reflexivity|change (256 ^ N.of_nat 1) with 256; lia]. }
  destruct (n <? 65536) eqn:E3.
  { apply (Hgen 2%nat 25); [reflexivity|reflexivity|change (256 ^ N.of_nat 2) with 65536; lia]. }
  destruct (n <? 4294967296) eqn:E4.
  { apply (Hgen 4%nat 26); [reflexivity|reflexivity|change (256 ^ N.of_nat 4) with 4294967296; lia]. }
  apply (Hgen 8%nat 27); [reflexivity|reflexivity|change (256 ^ N.of_nat 8) with 18446744073709551616; unfold two64 in Hn; lia].
Qed.

Lemma cbor_head_nonempty m n : cbor_head m n <> [].
Proof.
  unfold cbor_head. destruct (n <? 24); [discriminate|]. destruct (n <? 256); [discriminate|].
  destruct (n <? 65536); [discriminate|]. destruct (n <? 4294967296); discriminate.
Qed.

Lemma strip_prefix_app p rest : strip_prefix p (p ++ rest) = Some rest.
Proof. unfold strip_prefix. rewrite take_app, drop_app, bytes_eqb_refl. reflexivity. Qed.

Lemma dec_cid_link_enc c rest : cid_bytes_ok c -> blen c < two63 ->
  dec_cid_link (enc_cid_link c ++ rest) = Some (c, rest).
Proof.
  intros Hc Hl. unfold dec_cid_link, enc_cid_link.
  rewrite <- !app_assoc. rewrite strip_prefix_app.
  rewrite dec_head_enc by (unfold two63, two64 in *; lia).
  cbn [N.eqb Pos.eqb negb].
  replace (blen ([x00] ++ c ++ rest) <? 1 + blen c) with false by (rewrite !blen_app; change (blen [x00]) with 1; lia).
  replace (1 + blen c) with (blen ([x00] ++ c)) by (rewrite blen_app; reflexivity).
  rewrite app_assoc. rewrite take_app, drop_app. cbn [app]. change (b2n x00 =? 0) with true. cbv iota.
  destruct (cid_from_bytes_ok c [] Hc) as (p & _ & Hp). rewrite Hp. reflexivity.
Qed.

Lemma dec_cid_links_enc cs rest :
  Forall (fun c => cid_bytes_ok c /\ blen c < two63) cs ->
  dec_cid_links (length cs) (concat (map enc_cid_link cs) ++ rest) = Some (cs, rest).
Proof.
  induction 1 as [|c cs [Hc Hl] _ IH]; cbn [length map concat dec_cid_links app]; [reflexivity|].
  rewrite <- app_assoc. rewrite dec_cid_link_enc by assumption. rewrite IH. reflexivity.
Qed.

Lemma enc_cid_link_len c : 1 <= blen (enc_cid_link c).
Proof. unfold enc_cid_link. rewrite !blen_app. change (blen [xd8; x2a]) with 2. lia. Qed.
Lemma blen_concat_links cs : N.of_nat (length cs) <= blen (concat (map enc_cid_link cs)).
Proof.
  induction cs as [|c cs IH]; cbn [length map concat]; [cbn; lia|].
  rewrite blen_app. pose proof (enc_cid_link_len c). lia.
Qed.

Definition roots_ok (roots : list bytes) : Prop :=
  Forall (fun c => cid_bytes_ok c /\ blen c < two63) roots /\ N.of_nat (length roots) < two64.

Lemma cbor_head_hd m n : m < 8 -> b2n (hd x00 (cbor_head m n)) / 32 = m.
Proof.
  intros Hm. unfold cbor_head.
  destruct (n <? 24) eqn:E1; [cbn [hd]; rewrite b2n_n2b by lia; lia|].
  destruct (n <? 256); [cbn [hd]; rewrite b2n_n2b by lia; lia|].
  destruct (n <? 65536); [cbn [hd]; rewrite b2n_n2b by lia; lia|].
  destruct (n <? 4294967296); cbn [hd]; rewrite b2n_n2b by lia; lia.
Qed.

Lemma dec_roots_enc roots rest : roots_ok roots ->
  dec_roots (enc_roots (Some roots) ++ rest) = Some (roots, rest).
Proof.
  intros [Hall Hn]. unfold dec_roots, enc_roots.
  set (K := N.of_nat (length roots)) in *.
  destruct (cbor_head 4 K) as [|b0 t0] eqn:E2; [exact (False_ind _ (cbor_head_nonempty _ _ E2))|].
  pose proof (cbor_head_hd 4 K ltac:(lia)) as Hhd. rewrite E2 in Hhd. cbn [hd] in Hhd.
  cbn [app]. replace (b2n b0 =? 246) with false by lia.
  change (b0 :: (t0 ++ concat (map enc_cid_link roots)) ++ rest)
    with (((b0 :: t0) ++ concat (map enc_cid_link roots)) ++ rest).
  rewrite <- E2.
  rewrite <- app_assoc. rewrite dec_head_enc by (try exact Hn; lia).
  cbn [N.eqb Pos.eqb negb].
  replace (blen (concat (map enc_cid_link roots) ++ rest) <? K) with false
    by (rewrite blen_app; pose proof (blen_concat_links roots); unfold K; lia).
  unfold K. rewrite Nnat.Nat2N.id. apply dec_cid_links_enc. exact Hall.
Qed.

Lemma dec_version_enc v : v < two64 -> dec_version (key_version ++ cbor_head 0 v) = Some v.
Proof.
  intros Hv. unfold dec_version. rewrite strip_prefix_app.
  rewrite <- (app_nil_r (cbor_head 0 v)). rewrite dec_head_enc by (try exact Hv; lia).
  reflexivity.
Qed.

Theorem dec_header_enc roots v : roots_ok roots -> v < two64 ->
  dec_header_canon (enc_header (Some roots) v) = Some (roots, v).
Proof.
  intros Hr Hv. unfold dec_header_canon, enc_header. cbn [app]. change (b2n xa2 =? 162) with true. cbv iota.
  rewrite strip_prefix_app. rewrite dec_roots_enc by exact Hr. rewrite dec_version_enc by exact Hv. reflexivity.
Qed.

Theorem dec_header_enc_nil v : v < two64 ->
  dec_header_canon (enc_header None v) = Some ([], v).
Proof.
  intros Hv. unfold dec_header_canon, enc_header. cbn [app]. change (b2n xa2 =? 162) with true. cbv iota.
  rewrite strip_prefix_app. cbn [enc_roots app dec_roots]. change (b2n xf6 =? 246) with true. cbv iota.
  rewrite dec_version_enc by exact Hv. reflexivity.
Qed.

Lemma dec_header_pragma : dec_header_canon pragma_body = Some ([], 2).
Proof. reflexivity. Qed.
