(* C19 closure: the models of `car inspect --full` (lib.InspectCar) and `car verify` (lib.VerifyCar)
   accept every valid archive of the shapes the producers write. *)
From GoCar Require Import Bytes Varint Cid Header Frame V2Header Scan Index Store CliCmds.
From GoCarProofs Require Import BytesFacts VarintFacts CidFacts HeaderFacts ScanFacts ScanTrunc ScanTruncV2 StoreInv CliBase CliWalk CliProducers.

Set Default Proof Using "All".
Section Closure.
  Variable hok : bytes -> bytes -> option bool.
  Variable hdrdec : bytes -> option (list bytes * N).
  Hypothesis pragma_ok : hdrdec pragma_body = Some ([], 2).

  (* ---- car inspect --full ---------------------------------------------------------------------------- *)
  Theorem inspect_full_v1 hb roots bs :
    hdr_ok hdrdec hb roots -> blocks_ok bs -> hashes_ok hok bs ->
    inspect_car hok hdrdec true (payload_hb hb bs)
    = Ok (mkis 1 zero_v2hdr roots (map isec_of bs) 0 (blen (payload_hb hb bs))).
  Proof.
    intros Hh Hb Hg. unfold inspect_car.
    rewrite (new_reader_v1 hok hdrdec pragma_ok hb roots bs Hh).
    rewrite (reader_inspect_payload hok hdrdec pragma_ok hb roots bs (mkcr 1 zero_v2hdr) (payload_hb hb bs) Hh Hb Hg eq_refl).
    cbn [cr_ver cr_hdr N.eqb Pos.eqb andb is_ver is_end].
    replace (blen (payload_hb hb bs) <? blen (payload_hb hb bs)) with false by lia. reflexivity.
  Qed.

  (* an index-less CARv2: IndexOffset 0, whatever follows the payload *)
  Theorem inspect_full_v2_indexless hb roots bs hi lo dpad trailer :
    hdr_ok hdrdec hb roots -> blocks_ok bs -> hashes_ok hok bs ->
    hi < two64 -> lo < two64 -> 51 + dpad + blen (payload_hb hb bs) + blen trailer < two63 ->
    inspect_car hok hdrdec true (v2file hi lo dpad 0 (payload_hb hb bs) trailer)
    = Ok (mkis 2 (mkv2 hi lo (51 + dpad) (blen (payload_hb hb bs)) 0) roots (map isec_of bs) 0
               (blen (payload_hb hb bs))).
  Proof.
    intros Hh Hb Hg H1 H2 H63. pose proof (payload_nonempty hb bs) as Hp.
    assert (Hok : v2hdr_ok (mkv2 hi lo (51 + dpad) (blen (payload_hb hb bs)) 0)).
    { apply (v2file_hdr_ok hi lo dpad 0 _ trailer); try assumption. unfold two63; lia. }
    unfold inspect_car. rewrite (new_reader_v2 hok hdrdec pragma_ok) by exact Hok.
    rewrite (reader_inspect_payload hok hdrdec pragma_ok hb roots bs _ _ Hh Hb Hg (data_view_v2 hok hdrdec pragma_ok _ _ _ _ _ _)).
    reflexivity.
  Qed.

  (* a CARv2 whose IndexOffset points, behind payload and index padding, at a codec varint *)
  Theorem inspect_full_v2_indexed hb roots bs hi lo dpad ipad codec rest :
    hdr_ok hdrdec hb roots -> blocks_ok bs -> hashes_ok hok bs ->
    hi < two64 -> lo < two64 -> codec < two63 ->
    51 + dpad + blen (payload_hb hb bs) + ipad + blen (put_uv codec ++ rest) < two63 ->
    inspect_car hok hdrdec true
      (v2file hi lo dpad (51 + dpad + blen (payload_hb hb bs) + ipad) (payload_hb hb bs)
              (zerosN ipad ++ put_uv codec ++ rest))
    = Ok (mkis 2 (mkv2 hi lo (51 + dpad) (blen (payload_hb hb bs)) (51 + dpad + blen (payload_hb hb bs) + ipad))
               roots (map isec_of bs) codec (blen (payload_hb hb bs))).
  Proof.
    intros Hh Hb Hg H1 H2 Hc H63. pose proof (payload_nonempty hb bs) as Hp.
    set (P := payload_hb hb bs) in *. set (ioff := 51 + dpad + blen P + ipad).
    assert (Hok : v2hdr_ok (mkv2 hi lo (51 + dpad) (blen P) ioff)).
    { apply (v2file_hdr_ok hi lo dpad ioff P (zerosN ipad ++ put_uv codec ++ rest)); try assumption.
      - unfold ioff. lia.
      - rewrite blen_app, blen_zerosN. lia. }
    unfold inspect_car. rewrite (new_reader_v2 hok hdrdec pragma_ok) by exact Hok.
    rewrite (reader_inspect_payload hok hdrdec pragma_ok hb roots bs _ _ Hh Hb Hg (data_view_v2 hok hdrdec pragma_ok _ _ _ _ _ _)).
    fold P. cbn [cr_ver cr_hdr N.eqb Pos.eqb andb]. unfold has_index. cbn [h_ioff].
    replace (ioff =? 0) with false by (unfold ioff; lia). cbn [negb].
    rewrite v2file_split.
    replace ((pragma ++ enc_v2hdr (mkv2 hi lo (51 + dpad) (blen P) ioff) ++ zerosN dpad) ++ P ++ zerosN ipad ++ put_uv codec ++ rest)
      with (((pragma ++ enc_v2hdr (mkv2 hi lo (51 + dpad) (blen P) ioff) ++ zerosN dpad) ++ P ++ zerosN ipad) ++ put_uv codec ++ rest)
      by (rewrite <- !app_assoc; reflexivity).
    rewrite (drop_app_eq _ _ ioff)
      by (rewrite blen_app, blen_v2_prefix, blen_app, blen_zerosN; unfold ioff; lia).
    rewrite read_uv_put_uv by exact Hc. reflexivity.
  Qed.

  (* ---- car verify -------------------------------------------------------------------------------------------- *)
  Lemma roots_check roots bs : roots_present roots bs = true ->
    forallb (cid_in (map fst (s_blocks (mkscan bs EEof)))) roots = true.
  Proof. intros H. exact H. Qed.

  Theorem verify_v1 hb roots bs :
    hdr_ok hdrdec hb roots -> blocks_ok bs -> hashes_ok hok bs ->
    roots <> [] -> roots_present roots bs = true ->
    verify_car hok hdrdec (payload_hb hb bs) = Ok tt.
  Proof.
    intros Hh Hb Hg Hne Hrp. unfold verify_car.
    rewrite (new_reader_v1 hok hdrdec pragma_ok hb roots bs Hh).
    unfold reader_roots, data_view. cbn [cr_ver N.eqb Pos.eqb]. unfold payload_hb at 1.
    rewrite (read_header_hb hok hdrdec pragma_ok hb roots 1)
      by (try apply Hh; eapply (hdr_ok_63 hok hdrdec pragma_ok); exact Hh).
    destruct roots as [|r0 rs]; [congruence|].
    unfold verify_header_ok. cbn [cr_ver N.eqb Pos.eqb negb].
    rewrite (br_read_all_payload hok hdrdec pragma_ok hb (r0 :: rs) bs Hh Hb Hg).
    cbn [s_end s_blocks]. unfold roots_present in Hrp. rewrite Hrp. reflexivity.
  Qed.

  (* verify refuses every archive without roots, whatever else is true of it *)
  Theorem verify_rootless hb bs file :
    hdr_ok hdrdec hb [] -> valid_input hb bs file ->
    verify_car hok hdrdec file = Err EOther.
  Proof.
    intros Hh Hv.
    destruct (valid_reader hok hdrdec pragma_ok hb [] bs file Hh Hv) as (r & Hr).
    unfold verify_car. rewrite (proj1 Hr).
    rewrite (reader_roots_valid hok hdrdec pragma_ok hb [] bs file r Hh Hr). reflexivity.
  Qed.

  (* index-less, unpadded CARv2 (what car index --codec none writes) *)
  Theorem verify_v2_indexless hb roots bs hi lo :
    hdr_ok hdrdec hb roots -> blocks_ok bs -> hashes_ok hok bs ->
    roots <> [] -> roots_present roots bs = true ->
    hi < two64 -> lo < two64 -> 51 + blen (payload_hb hb bs) < two63 ->
    verify_car hok hdrdec (v2file hi lo 0 0 (payload_hb hb bs) []) = Ok tt.
  Proof.
    intros Hh Hb Hg Hne Hrp H1 H2 H63. pose proof (payload_nonempty hb bs) as Hp.
    set (P := payload_hb hb bs) in *.
    assert (Hok : v2hdr_ok (mkv2 hi lo (51 + 0) (blen P) 0)).
    { apply (v2file_hdr_ok hi lo 0 0 P []); try assumption; [unfold two63; lia|rewrite blen_nil; lia]. }
    unfold verify_car. rewrite (new_reader_v2 hok hdrdec pragma_ok) by exact Hok.
    unfold reader_roots. rewrite (data_view_v2 hok hdrdec pragma_ok). unfold P at 1, payload_hb at 1.
    rewrite (read_header_hb hok hdrdec pragma_ok hb roots 1)
      by (try apply Hh; eapply (hdr_ok_63 hok hdrdec pragma_ok); exact Hh).
    destruct roots as [|r0 rs]; [congruence|].
    unfold verify_header_ok. cbn [cr_ver cr_hdr h_dsize h_doff h_ioff N.eqb Pos.eqb].
    rewrite blen_v2file. cbn [blen length N.of_nat].
    rewrite wrap64_small by (unfold two63, two64 in *; lia).
    replace (blen P =? 0) with false by lia.
    replace (51 + blen P <? 51 + 0 + blen P + 0) with false by lia.
    cbn [andb negb]. replace (51 + 0 <? 51) with false by lia.
    unfold P. rewrite (br_read_all_v2file hok hdrdec pragma_ok hb (r0 :: rs) bs hi lo 0 0 [] Hh Hb Hg H1 H2)
      by (try (unfold two63; lia); cbn [blen length N.of_nat]; fold P; lia).
    cbn [s_end s_blocks]. unfold roots_present in Hrp. rewrite Hrp. cbn [negb].
    unfold has_index. cbn [h_ioff N.eqb negb andb]. reflexivity.
  Qed.

  (* CARv2 with an index behind payload and index padding -- under the executable guard that the
     index bytes parse and answer for every block's CID *)
  Theorem verify_v2_indexed_guarded hb roots bs hi lo dpad ipad ibytes :
    hdr_ok hdrdec hb roots -> blocks_ok bs -> hashes_ok hok bs ->
    roots <> [] -> roots_present roots bs = true ->
    hi < two64 -> lo < two64 ->
    51 + dpad + blen (payload_hb hb bs) + ipad + blen ibytes < two63 ->
    index_answers ibytes (map fst bs) = true ->
    verify_car hok hdrdec
      (v2file hi lo dpad (51 + dpad + blen (payload_hb hb bs) + ipad) (payload_hb hb bs) (zerosN ipad ++ ibytes))
    = Ok tt.
  Proof.
    intros Hh Hb Hg Hne Hrp H1 H2 H63 Hans. pose proof (payload_nonempty hb bs) as Hp.
    set (P := payload_hb hb bs) in *. set (ioff := 51 + dpad + blen P + ipad).
    assert (Hok : v2hdr_ok (mkv2 hi lo (51 + dpad) (blen P) ioff)).
    { apply (v2file_hdr_ok hi lo dpad ioff P (zerosN ipad ++ ibytes)); try assumption.
      - unfold ioff. lia.
      - rewrite blen_app, blen_zerosN. lia. }
    unfold verify_car. rewrite (new_reader_v2 hok hdrdec pragma_ok) by exact Hok.
    unfold reader_roots. rewrite (data_view_v2 hok hdrdec pragma_ok). unfold P at 1, payload_hb at 1.
    rewrite (read_header_hb hok hdrdec pragma_ok hb roots 1)
      by (try apply Hh; eapply (hdr_ok_63 hok hdrdec pragma_ok); exact Hh).
    destruct roots as [|r0 rs]; [congruence|].
    unfold verify_header_ok. cbn [cr_ver cr_hdr h_dsize h_doff h_ioff N.eqb Pos.eqb].
    rewrite wrap64_small by (unfold two63, two64 in *; lia).
    replace (blen P =? 0) with false by lia.
    replace (ioff =? 0) with false by (unfold ioff; lia). rewrite andb_false_r.
    replace (51 + dpad <? 51) with false by lia.
    replace (ioff <? 51 + blen P) with false by (unfold ioff; lia). rewrite andb_false_r.
    cbn [negb].
    unfold P. rewrite (br_read_all_v2file hok hdrdec pragma_ok hb (r0 :: rs) bs hi lo dpad ioff (zerosN ipad ++ ibytes) Hh Hb Hg H1 H2)
      by (try (unfold ioff; fold P; lia); rewrite blen_app, blen_zerosN; fold P; lia).
    cbn [s_end s_blocks]. unfold roots_present in Hrp. rewrite Hrp. cbn [negb].
    unfold has_index. cbn [h_ioff]. replace (ioff =? 0) with false by (unfold ioff; lia). cbn [negb andb].
    fold P. rewrite blen_v2file, blen_app, blen_zerosN.
    replace (51 + dpad + blen P + (ipad + blen ibytes) <? ioff) with false by (unfold ioff; lia).
    rewrite v2file_split.
    replace ((pragma ++ enc_v2hdr (mkv2 hi lo (51 + dpad) (blen P) ioff) ++ zerosN dpad) ++ P ++ zerosN ipad ++ ibytes)
      with (((pragma ++ enc_v2hdr (mkv2 hi lo (51 + dpad) (blen P) ioff) ++ zerosN dpad) ++ P ++ zerosN ipad) ++ ibytes)
      by (rewrite <- !app_assoc; reflexivity).
    rewrite (drop_app_eq _ _ ioff)
      by (rewrite blen_app, blen_v2_prefix, blen_app, blen_zerosN; unfold ioff; lia).
    unfold index_answers in Hans. destruct (idx_read ibytes) as [[i rest]|e]; [|discriminate].
    rewrite Hans. reflexivity.
  Qed.
End Closure.
