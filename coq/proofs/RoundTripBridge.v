(* C01 bridge, part 1: the index a finalizing writer embeds -- the insertion index flattened,
   Store.ii_flatten codec (ii_load recs []) -- is the index Load()ed directly from the same records in
   section order (ReadOnly.flat_of codec recs): the stable sort by digest commutes with the grouping by
   width / hash code.  Hence C05's layout expression is ReadOnly.car_file. *)
From Coq Require Import Sorting.Sorted Permutation.
From GoCar Require Import Bytes Varint Cid Header Frame V2Header Scan Index Store ReadOnly.
From GoCarProofs Require Import BytesFacts VarintFacts CidFacts StoreInv ReadOnlyFacts ReadOnlyRefine ReadOnlyIndex.

(* ---- sorted association lists are determined by their lookups -------------------------------------- *)
Lemma kv_get_above {A} k (m : list (N * A)) : Forall (fun e => k < fst e) m -> kv_get k m = None.
Proof.
  induction 1 as [|[k0 v0] t H0 _ IH]; [reflexivity|]. cbn [kv_get fst] in *.
  replace (k =? k0) with false by lia. exact IH.
Qed.

Lemma kv_sorted_ext {A} (m1 : list (N * A)) : forall m2,
  kv_sorted m1 -> kv_sorted m2 -> (forall k, kv_get k m1 = kv_get k m2) -> m1 = m2.
Proof.
  unfold kv_sorted. induction m1 as [|[k1 v1] t1 IH]; intros [|[k2 v2] t2] S1 S2 E.
  - reflexivity.
  - specialize (E k2). cbn [kv_get] in E. replace (k2 =? k2) with true in E by lia. discriminate.
  - specialize (E k1). cbn [kv_get] in E. replace (k1 =? k1) with true in E by lia. discriminate.
  - inversion S1 as [|? ? S1' A1]; inversion S2 as [|? ? S2' A2]; subst.
    assert (Hk : k1 = k2).
    { destruct (N.lt_trichotomy k1 k2) as [Hlt|[Heq|Hgt]]; [exfalso|exact Heq|exfalso].
      - pose proof (E k1) as E1. cbn [kv_get] in E1. replace (k1 =? k1) with true in E1 by lia.
        replace (k1 =? k2) with false in E1 by lia.
        rewrite kv_get_above in E1; [discriminate|].
        rewrite Forall_forall in *. intros e He. specialize (A2 e He). cbn [fst] in *. lia.
      - pose proof (E k2) as E1. cbn [kv_get] in E1. replace (k2 =? k2) with true in E1 by lia.
        replace (k2 =? k1) with false in E1 by lia.
        rewrite kv_get_above in E1; [discriminate|].
        rewrite Forall_forall in *. intros e He. specialize (A1 e He). cbn [fst] in *. lia. }
    subst k2.
    pose proof (E k1) as E1. cbn [kv_get] in E1. replace (k1 =? k1) with true in E1 by lia. inversion E1; subst v2.
    f_equal. apply IH; try assumption. intros k. destruct (k =? k1) eqn:Ek.
    + assert (k = k1) by lia. subst k. rewrite !kv_get_above; [reflexivity| |]; assumption.
    + specialize (E k). cbn [kv_get] in E. rewrite Ek in E. exact E.
Qed.

(* ---- digest-sorted lists are determined by their per-digest sublists ------------------------------- *)
Lemma filter_digest_nil_iff d (l : list irec) :
  filter (has_digest d) l = [] <-> forall r, In r l -> r_digest r <> d.
Proof.
  split.
  - intros H r Hr E. assert (Hin : In r (filter (has_digest d) l)).
    { apply filter_In. split; [exact Hr|]. unfold has_digest. rewrite E. apply bytes_eqb_refl. }
    rewrite H in Hin. contradiction.
  - intros H. destruct (filter (has_digest d) l) as [|x t] eqn:E; [reflexivity|].
    assert (Hin : In x (filter (has_digest d) l)) by (rewrite E; left; reflexivity).
    apply filter_In in Hin. destruct Hin as [Hx Hd]. unfold has_digest in Hd. apply bytes_eqb_eq in Hd.
    exfalso. exact (H x Hx Hd).
Qed.

Lemma has_digest_self r : has_digest (r_digest r) r = true.
Proof. unfold has_digest. apply bytes_eqb_refl. Qed.

Lemma sorted_digest_unique (A : list irec) : forall B,
  ii_sorted A -> ii_sorted B ->
  (forall d, filter (has_digest d) A = filter (has_digest d) B) -> A = B.
Proof.
  unfold ii_sorted. induction A as [|x A' IH]; intros B SA SB E.
  - destruct B as [|y B']; [reflexivity|]. specialize (E (r_digest y)). cbn [filter] in E.
    rewrite has_digest_self in E. discriminate.
  - destruct B as [|y B'].
    { specialize (E (r_digest x)). cbn [filter] in E. rewrite has_digest_self in E. discriminate. }
    inversion SA as [|? ? SA' HA]; inversion SB as [|? ? SB' HB]; subst.
    rewrite Forall_forall in HA, HB.
    assert (Hd : r_digest x = r_digest y).
    { apply bytes_leb_antisym.
      - (* y's digest occurs in A: x <= it *)
        pose proof (E (r_digest y)) as Ey. cbn [filter] in Ey. rewrite has_digest_self in Ey.
        destruct (has_digest (r_digest y) x) eqn:Hx.
        + unfold has_digest in Hx. apply bytes_eqb_eq in Hx. rewrite Hx. apply bytes_leb_refl.
        + assert (Hin : In y (filter (has_digest (r_digest y)) A')) by (rewrite Ey; left; reflexivity).
          apply filter_In in Hin. destruct Hin as [Hin Hh]. apply (HA y Hin).
      - pose proof (E (r_digest x)) as Ex. cbn [filter] in Ex. rewrite has_digest_self in Ex.
        destruct (has_digest (r_digest x) y) eqn:Hy.
        + unfold has_digest in Hy. apply bytes_eqb_eq in Hy. rewrite Hy. apply bytes_leb_refl.
        + assert (Hin : In x (filter (has_digest (r_digest x)) B')) by (rewrite <- Ex; left; reflexivity).
          apply filter_In in Hin. destruct Hin as [Hin Hh]. apply (HB x Hin). }
    pose proof (E (r_digest x)) as Ex. cbn [filter] in Ex. rewrite has_digest_self in Ex.
    rewrite Hd, has_digest_self in Ex. inversion Ex as [[Hxy Htl]]. subst y.
    f_equal. apply IH; try assumption. intros d. specialize (E d). cbn [filter] in E.
    destruct (has_digest d x); [inversion E; reflexivity|exact E].
Qed.

Lemma filter_comm {A} (f g : A -> bool) l : filter f (filter g l) = filter g (filter f l).
Proof.
  induction l as [|x l IH]; [reflexivity|]. cbn [filter].
  destruct (g x) eqn:Eg, (f x) eqn:Ef; cbn [filter]; rewrite ?Eg, ?Ef, IH; reflexivity.
Qed.

Lemma filter_sorted (f : irec -> bool) l : ii_sorted l -> ii_sorted (filter f l).
Proof.
  unfold ii_sorted. induction 1 as [|x l Hs IH Hall]; cbn [filter]; [constructor|].
  destruct (f x); [|exact IH]. constructor; [exact IH|].
  rewrite Forall_forall in *. intros y Hy. apply filter_In in Hy. apply Hall. tauto.
Qed.

Lemma sort_sorted l : ii_sorted (sort_by_digest l).
Proof. rewrite sort_by_digest_ii. apply ii_load_sorted. constructor. Qed.
Lemma sort_filter_digest d l : filter (has_digest d) (sort_by_digest l) = filter (has_digest d) l.
Proof. rewrite sort_by_digest_ii. apply (ii_with_digest_load_nil d l). Qed.

(* the stable sort commutes with filtering, and is idempotent *)
Lemma filter_sort_comm (f : irec -> bool) l : filter f (sort_by_digest l) = sort_by_digest (filter f l).
Proof.
  apply sorted_digest_unique.
  - apply filter_sorted. apply sort_sorted.
  - apply sort_sorted.
  - intros d. rewrite filter_comm, !sort_filter_digest. apply filter_comm.
Qed.
Lemma sort_idem l : sort_by_digest (sort_by_digest l) = sort_by_digest l.
Proof.
  apply sorted_digest_unique; try apply sort_sorted. intros d. rewrite !sort_filter_digest. reflexivity.
Qed.

(* ---- Load of the sorted records = Load of the records ------------------------------------------------ *)
Lemma with_key_sort (key : irec -> N) k l :
  with_key key k (sort_by_digest l) = sort_by_digest (with_key key k l).
Proof. unfold with_key. apply filter_sort_comm. Qed.

Lemma sort_nil_iff l : sort_by_digest l = [] <-> l = [].
Proof.
  split; [|intros ->; reflexivity]. intros H.
  pose proof (ii_load_perm l []) as P. rewrite <- sort_by_digest_ii, H in P. cbn [app] in P.
  apply Permutation_nil in P. exact P.
Qed.

Lemma mwi_load_sort l : mwi_load (sort_by_digest l) [] = mwi_load l [].
Proof.
  rewrite !mwi_load_nil. apply kv_sorted_ext.
  - apply (kv_sorted_map (fun x => compact (sort_by_digest x))). apply group_by_sorted.
  - apply (kv_sorted_map (fun x => compact (sort_by_digest x))). apply group_by_sorted.
  - intros k. rewrite !(kv_get_map (fun x => compact (sort_by_digest x))), !group_by_get, with_key_sort.
    destruct (with_key rec_width k l) as [|r t] eqn:E.
    + reflexivity.
    + destruct (sort_by_digest (r :: t)) as [|r' t'] eqn:E2.
      * destruct (sort_nil_iff (r :: t)) as [H1 _]. specialize (H1 E2). discriminate.
      * cbn [option_map]. rewrite <- E2, sort_idem. reflexivity.
Qed.

Lemma mh_load_sort l : mh_load (sort_by_digest l) [] = mh_load l [].
Proof.
  rewrite !mh_load_nil. apply kv_sorted_ext.
  - apply (kv_sorted_map (fun x => mwi_load x [])). apply group_by_sorted.
  - apply (kv_sorted_map (fun x => mwi_load x [])). apply group_by_sorted.
  - intros k. rewrite !(kv_get_map (fun x => mwi_load x [])), !group_by_get, with_key_sort.
    destruct (with_key r_code k l) as [|r t] eqn:E.
    + reflexivity.
    + destruct (sort_by_digest (r :: t)) as [|r' t'] eqn:E2.
      * destruct (sort_nil_iff (r :: t)) as [H1 _]. specialize (H1 E2). discriminate.
      * cbn [option_map]. rewrite <- E2, mwi_load_sort. reflexivity.
Qed.

(* what Finalize embeds = what Load builds from the records in section order *)
Theorem ii_flatten_flat_of codec recs : ii_flatten codec (ii_load recs []) = flat_of codec recs.
Proof.
  unfold ii_flatten, flat_of, ii_flatten_records. destruct (idx_new codec) as [i0|] eqn:En; [|reflexivity].
  unfold idx_new in En. destruct (codec =? codec_sorted); [|destruct (codec =? codec_mh_sorted); [|discriminate]];
    inversion En; subst i0; cbn [idx_load]; rewrite <- sort_by_digest_ii; f_equal; f_equal.
  - apply mwi_load_sort.
  - apply mh_load_sort.
Qed.
