(* C19: car get-block (blockstore.OpenReadOnly + Get).  Identity keys are answered from the key itself.
   For other keys the index yields candidate offsets and FindCid reads the sections there; under the
   executable guards [candidates_sound] / [candidates_ok] (what index soundness and completeness, C03,
   say about those offsets) the command returns the bytes of a block of the archive carrying the key's
   multihash, or "not found" when there is none. *)
From GoCar Require Import Bytes Varint Cid Header Frame V2Header Scan Index Store CliCmds.
From GoCarProofs Require Import BytesFacts VarintFacts CidFacts HeaderFacts ScanFacts ScanTrunc ScanTruncV2 StoreInv
  CliBase CliWalk CliProducers CliFilter.

Lemma block_at_view : forall bs pre o b,
  block_at (blen pre) bs o = Some b ->
  In b bs /\ exists rest, drop o (pre ++ enc_sections bs) = enc_section (fst b) (snd b) ++ rest.
Proof.
  induction bs as [|[c d] t IH]; intros pre o b H; [discriminate|]. cbn [block_at fst snd] in H.
  destruct (o =? blen pre) eqn:E.
  - inversion H; subst. apply N.eqb_eq in E. subst o. split; [left; reflexivity|].
    exists (enc_sections t). rewrite drop_app. reflexivity.
  - replace (blen pre + section_size c d) with (blen (pre ++ enc_section c d)) in H
      by (rewrite blen_app, blen_enc_section; reflexivity).
    destruct (IH _ _ _ H) as (Hin & rest & Hd). split; [right; exact Hin|].
    exists rest. rewrite enc_sections_cons, app_assoc. exact Hd.
Qed.

Lemma key_matches_same_mh key kp c p : cid_parse key = Some kp -> cid_parse c = Some p ->
  key_matches false key kp c p = same_mh c key.
Proof.
  intros Hk Hc. unfold key_matches, same_mh. rewrite (mh_of_parse c p Hc), (mh_of_parse key kp Hk). reflexivity.
Qed.

(* FindCid over sound candidates = the first candidate whose block carries the key's multihash *)
Lemma find_cid_candidates hb bs key kp : blocks_ok bs -> cid_parse key = Some kp ->
  forall cands, candidates_sound hb bs cands = true ->
  find_cid (payload_hb hb bs) cands key kp false false default_maxs true
  = match find (cand_matches hb bs key) cands with
    | Some o => match cand_block hb bs o with
                | Some b => Ok (snd b, 0, Z.of_N (blen (snd b)))
                | None => Err ENotFound
                end
    | None => Err ENotFound
    end.
Proof.
  intros Hb Hk. induction cands as [|o t IH]; intros Hs; [reflexivity|].
  cbn [candidates_sound forallb] in Hs. apply andb_true_iff in Hs. destruct Hs as [Ho Ht].
  cbn [find find_cid]. unfold cand_matches at 1.
  destruct (cand_block hb bs o) as [[c d]|] eqn:Eb; [|discriminate].
  unfold cand_block in Eb. destruct (block_at_view bs (ld hb) o (c, d) Eb) as (Hin & rest & Hd).
  unfold payload_hb. rewrite Hd. cbn [fst snd].
  assert (Hbk : blk_ok default_maxs (c, d)) by exact (proj1 (Forall_forall _ _) Hb _ Hin).
  destruct (read_node_section false default_maxs c d rest (blk_ok_block_ok _ _ Hbk)) as (p & Hp & Hrn).
  rewrite Hrn. rewrite (key_matches_same_mh key kp c p Hk Hp).
  destruct (same_mh c key); [unfold cand_block; rewrite Eb; reflexivity|].
  fold (payload_hb hb bs). apply IH. exact Ht.
Qed.

Lemma find_some_matches hb bs key cands o :
  find (cand_matches hb bs key) cands = Some o ->
  exists b, cand_block hb bs o = Some b /\ same_mh (fst b) key = true.
Proof.
  intros H. apply find_some in H. destruct H as [_ Hm]. unfold cand_matches in Hm.
  destruct (cand_block hb bs o) as [b|]; [|discriminate]. exists b. auto.
Qed.

Set Default Proof Using "All".
Section Get.
  Variable hok : bytes -> bytes -> option bool.
  Variable hdrdec : bytes -> option (list bytes * N).
  Hypothesis pragma_ok : hdrdec pragma_body = Some ([], 2).

  (* what Get does once the read-only blockstore is open with index i *)
  Lemma get_with_index hb roots bs file r i key kp :
    hdr_ok hdrdec hb roots -> blocks_ok bs -> reader_of hdrdec hb bs file r ->
    open_readonly_index hdrdec r file = Ok i -> cid_parse key = Some kp -> is_identity kp = false ->
    candidates_sound hb bs (idx_getall i (c_mhcode kp) (c_digest kp)) = true ->
    get_block hdrdec file key
    = match find (cand_matches hb bs key) (idx_getall i (c_mhcode kp) (c_digest kp)) with
      | Some o => match cand_block hb bs o with Some b => Ok (snd b) | None => Err ENotFound end
      | None => Err ENotFound
      end.
  Proof.
    intros Hh Hb Hr Hi Hk Hid Hs. unfold get_block. rewrite (proj1 Hr), Hi, Hk, Hid.
    rewrite (proj1 (proj2 Hr)).
    rewrite (find_cid_candidates hb bs key kp Hb Hk _ Hs).
    destruct (find (cand_matches hb bs key) (idx_getall i (c_mhcode kp) (c_digest kp))) as [o|]; [|reflexivity].
    destruct (cand_block hb bs o); reflexivity.
  Qed.

  (* the index OpenReadOnly uses when the file carries none: generated, car-multihash-index-sorted *)
  Definition generated_index (hb : bytes) (bs : list block) : index :=
    idx_load (regen_records_hb hb bs) (IdxMh []).

  Lemma open_generated hb roots bs file r :
    hdr_ok hdrdec hb roots -> blocks_ok bs -> cids_indexable bs -> reader_of hdrdec hb bs file r ->
    (cr_ver r =? 2) && has_index (cr_hdr r) = false ->
    open_readonly_index hdrdec r file = Ok (generated_index hb bs).
  Proof.
    intros Hh Hb Hix Hr Hno. unfold open_readonly_index. rewrite Hno.
    apply (generate_index_valid hok hdrdec pragma_ok hb roots bs file r codec_mh_sorted (IdxMh []) Hh Hb Hix Hr eq_refl).
  Qed.

  (* ---- CARv1, or CARv2 without an index ---------------------------------------------------------------- *)
  Definition no_index_input (hb : bytes) (bs : list block) (file : bytes) : Prop :=
    (file = payload_hb hb bs /\ blen (payload_hb hb bs) < two63) \/
    exists hi lo dpad trailer,
      file = v2file hi lo dpad 0 (payload_hb hb bs) trailer /\ hi < two64 /\ lo < two64 /\
      51 + dpad + blen (payload_hb hb bs) + blen trailer < two63.

  Lemma no_index_reader hb roots bs file : hdr_ok hdrdec hb roots -> no_index_input hb bs file ->
    exists r, reader_of hdrdec hb bs file r /\ (cr_ver r =? 2) && has_index (cr_hdr r) = false.
  Proof.
    intros Hh [(-> & H63)|(hi & lo & dpad & tr & -> & H1 & H2 & H63)].
    - destruct (valid_reader hok hdrdec pragma_ok hb roots bs _ Hh (VI_v1 hb bs H63)) as (r & Hr).
      exists r. split; [exact Hr|].
      pose proof (proj1 Hr) as Hn. rewrite (new_reader_v1 hok hdrdec pragma_ok hb roots bs Hh) in Hn.
      inversion Hn. reflexivity.
    - assert (Hv : valid_input hb bs (v2file hi lo dpad 0 (payload_hb hb bs) tr))
        by (apply VI_v2; try assumption; unfold two63; lia).
      destruct (valid_reader hok hdrdec pragma_ok hb roots bs _ Hh Hv) as (r & Hr).
      exists r. split; [exact Hr|].
      pose proof (proj1 Hr) as Hn.
      rewrite (new_reader_v2 hok hdrdec pragma_ok) in Hn.
      + inversion Hn. reflexivity.
      + apply (v2file_hdr_ok hi lo dpad 0 _ tr); try assumption; [unfold two63; lia|apply payload_nonempty].
  Qed.

  (* present key (partial: guard candidates_ok on the generated index) *)
  Theorem get_block_generated hb roots bs file key kp :
    hdr_ok hdrdec hb roots -> blocks_ok bs -> cids_indexable bs -> no_index_input hb bs file ->
    cid_parse key = Some kp -> is_identity kp = false ->
    candidates_ok hb bs (idx_getall (generated_index hb bs) (c_mhcode kp) (c_digest kp)) key = true ->
    exists c d, In (c, d) bs /\ same_mh c key = true /\ get_block hdrdec file key = Ok d.
  Proof.
    intros Hh Hb Hix Hni Hk Hid Hg. apply andb_true_iff in Hg. destruct Hg as [Hs He].
    destruct (no_index_reader hb roots bs file Hh Hni) as (r & Hr & Hno).
    rewrite (get_with_index hb roots bs file r _ key kp Hh Hb Hr (open_generated hb roots bs file r Hh Hb Hix Hr Hno) Hk Hid Hs).
    apply existsb_exists in He. destruct He as (o' & Hin' & Hm').
    destruct (find (cand_matches hb bs key) _) as [o|] eqn:Ef.
    - destruct (find_some_matches hb bs key _ o Ef) as ([c d] & Hcb & Hsm). rewrite Hcb.
      exists c, d. split; [|split; [exact Hsm|reflexivity]].
      unfold cand_block in Hcb. exact (proj1 (block_at_view bs (ld hb) o (c, d) Hcb)).
    - exfalso. pose proof (find_none _ _ Ef o' Hin') as Hn. congruence.
  Qed.

  (* absent key (partial: guard candidates_sound): "not found", exit status 1 *)
  Theorem get_block_generated_absent hb roots bs file key kp :
    hdr_ok hdrdec hb roots -> blocks_ok bs -> cids_indexable bs -> no_index_input hb bs file ->
    cid_parse key = Some kp -> is_identity kp = false ->
    existsb (fun b => same_mh (fst b) key) bs = false ->
    candidates_sound hb bs (idx_getall (generated_index hb bs) (c_mhcode kp) (c_digest kp)) = true ->
    get_block hdrdec file key = Err ENotFound.
  Proof.
    intros Hh Hb Hix Hni Hk Hid Habs Hs.
    destruct (no_index_reader hb roots bs file Hh Hni) as (r & Hr & Hno).
    rewrite (get_with_index hb roots bs file r _ key kp Hh Hb Hr (open_generated hb roots bs file r Hh Hb Hix Hr Hno) Hk Hid Hs).
    destruct (find (cand_matches hb bs key) _) as [o|] eqn:Ef; [|reflexivity].
    exfalso. destruct (find_some_matches hb bs key _ o Ef) as ([c d] & Hcb & Hsm).
    unfold cand_block in Hcb. pose proof (proj1 (block_at_view bs (ld hb) o (c, d) Hcb)) as Hin.
    assert (Hex : existsb (fun b => same_mh (fst b) key) bs = true)
      by (apply existsb_exists; exists (c, d); split; [exact Hin|exact Hsm]).
    congruence.
  Qed.

  (* identity keys never reach the index: the block is the digest *)
  Theorem get_block_identity hb roots bs file key kp :
    hdr_ok hdrdec hb roots -> blocks_ok bs -> cids_indexable bs -> no_index_input hb bs file ->
    cid_parse key = Some kp -> is_identity kp = true ->
    get_block hdrdec file key = Ok (c_digest kp).
  Proof.
    intros Hh Hb Hix Hni Hk Hid.
    destruct (no_index_reader hb roots bs file Hh Hni) as (r & Hr & Hno).
    unfold get_block. rewrite (proj1 Hr), (open_generated hb roots bs file r Hh Hb Hix Hr Hno), Hk, Hid. reflexivity.
  Qed.

  (* ---- CARv2 with an embedded index (whatever bytes parse as one) --------------------------------------- *)
  Theorem get_block_embedded hb roots bs hi lo dpad ipad ibytes i rest key kp :
    hdr_ok hdrdec hb roots -> blocks_ok bs ->
    hi < two64 -> lo < two64 ->
    51 + dpad + blen (payload_hb hb bs) + ipad + blen ibytes < two63 ->
    idx_read ibytes = Ok (i, rest) ->
    cid_parse key = Some kp -> is_identity kp = false ->
    candidates_ok hb bs (idx_getall i (c_mhcode kp) (c_digest kp)) key = true ->
    exists c d, In (c, d) bs /\ same_mh c key = true /\
      get_block hdrdec (v2file hi lo dpad (51 + dpad + blen (payload_hb hb bs) + ipad) (payload_hb hb bs)
                               (zerosN ipad ++ ibytes)) key = Ok d.
  Proof.
    intros Hh Hb H1 H2 H63 Hir Hk Hid Hg. apply andb_true_iff in Hg. destruct Hg as [Hs He].
    set (P := payload_hb hb bs) in *. set (ioff := 51 + dpad + blen P + ipad).
    set (file := v2file hi lo dpad ioff P (zerosN ipad ++ ibytes)).
    assert (Hv : valid_input hb bs file).
    { apply VI_v2; try assumption; [unfold ioff; lia|rewrite blen_app, blen_zerosN; fold P; lia]. }
    destruct (valid_reader hok hdrdec pragma_ok hb roots bs file Hh Hv) as (r & Hr).
    assert (Hrr : r = mkcr 2 (mkv2 hi lo (51 + dpad) (blen P) ioff)).
    { pose proof (proj1 Hr) as Hn. unfold file in Hn. rewrite (new_reader_v2 hok hdrdec pragma_ok) in Hn.
      - inversion Hn. reflexivity.
      - apply (v2file_hdr_ok hi lo dpad ioff P (zerosN ipad ++ ibytes)); try assumption;
          [unfold ioff; lia|apply payload_nonempty|rewrite blen_app, blen_zerosN; lia]. }
    assert (Hopen : open_readonly_index hdrdec r file = Ok i).
    { unfold open_readonly_index. rewrite Hrr. cbn [cr_ver cr_hdr N.eqb Pos.eqb andb]. unfold has_index. cbn [h_ioff].
      replace (ioff =? 0) with false by (unfold ioff; lia). cbn [negb].
      unfold file. rewrite blen_v2file, blen_app, blen_zerosN.
      replace (51 + dpad + blen P + (ipad + blen ibytes) <? ioff) with false by (unfold ioff; lia).
      rewrite v2file_split.
      replace ((pragma ++ enc_v2hdr (mkv2 hi lo (51 + dpad) (blen P) ioff) ++ zerosN dpad) ++ P ++ zerosN ipad ++ ibytes)
        with (((pragma ++ enc_v2hdr (mkv2 hi lo (51 + dpad) (blen P) ioff) ++ zerosN dpad) ++ P ++ zerosN ipad) ++ ibytes)
        by (rewrite <- !app_assoc; reflexivity).
      rewrite (drop_app_eq _ _ ioff)
        by (rewrite blen_app, blen_v2_prefix, blen_app, blen_zerosN; unfold ioff; lia).
      rewrite Hir. reflexivity. }
    fold P ioff file.
    rewrite (get_with_index hb roots bs file r i key kp Hh Hb Hr Hopen Hk Hid Hs).
    apply existsb_exists in He. destruct He as (o' & Hin' & Hm').
    destruct (find (cand_matches hb bs key) _) as [o|] eqn:Ef.
    - destruct (find_some_matches hb bs key _ o Ef) as ([c d] & Hcb & Hsm). rewrite Hcb.
      exists c, d. split; [|split; [exact Hsm|reflexivity]].
      unfold cand_block in Hcb. exact (proj1 (block_at_view bs (ld hb) o (c, d) Hcb)).
    - exfalso. pose proof (find_none _ _ Ef o' Hin') as Hn. congruence.
  Qed.
End Get.
