(* MonitorStore.v -- linearizability against the map specification of C04.
   (1) For any sequential model [step]: an execution of atomic sections, each section being ONE
       application of [step], is linearizable with respect to [step] (generic form of MonitorLin.v).
   (2) Instantiated with StoreSpec.impl_step (the dispatcher onto the functions of Store.v that model
       blockstore.ReadWrite and storage.StorageCar) and composed with C04's refinement theorem: the
       results the calls return are exactly the results of the reference map StoreSpec.spec_step along
       an order of all calls that respects real time -- linearizability against the map specification.
       The remaining assumption is the one the differential histories sample: "the critical section of
       operation X executes Store.v's function for X".
   (3) Instantiated with Deferred.d_step (C20's model of the deferred writer). *)
From Coq Require Import List Arith NArith Lia Bool Permutation.
From GoCar Require Import Bytes Varint Cid Header Frame V2Header Index Store StoreSpec Deferred RunConc.
From GoCarProofs Require Import CidFacts StoreInv StoreSpecFacts StoreSpecCor MonitorLin.
Import ListNotations.
Local Open Scope nat_scope.

(* ---- (1) generic ---------------------------------------------------------------------------------- *)
Theorem atomic_sections_linearizable_gen {St Op Res} (step : St -> Op -> St * Res) (dflt : Op)
        (s0 : St) (ops : list Op) (tr : list ev) :
  wf_trace (length ops) tr ->
  glinearizable St Op Res step dflt s0 ops (hist_of (length ops) tr) (gresults St Op Res step dflt s0 ops tr).
Proof.
  intro Hwf. exists (lin_order tr). split; [apply atomic_perm_ok; exact Hwf|].
  split; [apply (atomic_rt_ok _ _ Hwf tr [] eq_refl)|reflexivity].
Qed.

(* the order of the sections is a permutation of the calls *)
Lemma lin_order_perm n tr : wf_trace n tr -> Permutation (lin_order tr) (seq 0 n).
Proof.
  intros (Hnd & Hlt & Hall). apply NoDup_Permutation; [apply lin_order_nodup; exact Hnd|apply seq_NoDup|].
  intro i. rewrite in_lin_order, in_seq. split.
  - intro Hi. specialize (Hlt _ Hi). cbn in Hlt. lia.
  - intros [_ Hi]. destruct (Hall i Hi) as (a & b & c & _ & Hb & _). eapply pos_some_in; eauto.
Qed.

Lemma map_nth_seq {A} (l : list A) d : map (fun i => nth i l d) (seq 0 (length l)) = l.
Proof.
  induction l as [|x l IH]; [reflexivity|]. cbn [length seq map nth]. f_equal.
  rewrite <- seq_shift, map_map. exact IH.
Qed.

Lemma ops_along_perm {Op} (dflt : Op) ops tr :
  wf_trace (length ops) tr -> Permutation (ops_along Op dflt ops (lin_order tr)) ops.
Proof.
  intro Hwf. unfold ops_along.
  eapply Permutation_trans; [apply Permutation_map; apply lin_order_perm; exact Hwf|].
  rewrite map_nth_seq. apply Permutation_refl.
Qed.

Lemma gexec_outs {St} (step : St -> sop -> St * out) s l : gexec St sop out step s l = outs (trace step s l).
Proof.
  revert s. induction l as [|o l IH]; intro s; cbn; [reflexivity|].
  destruct (step s o) as [s' r]. cbn. f_equal. apply IH.
Qed.

(* ---- (2) the stores of C04 -------------------------------------------------------------------------- *)
(* C04's side condition on a history (see props/C04.v): well-formed CIDs and sections within the limits
   for what is put, no 64-bit wrap-around *)
Definition c04_hist_ok (o : wopts) (nilroots : bool) (roots : list bytes) (ops : list sop) : Prop :=
  Forall (fun op =>
       match op with
       | OpPut c d =>
           cid_parse (fst (c, d)) <> None ->
           (exists p, cid_ok p /\ fst (c, d) = cid_enc p /\ blen (c_digest p) <= max_digest_alloc)%N /\
           (blen (fst (c, d)) + blen (snd (c, d)) <= w_maxs o)%N /\ (blen (fst (c, d)) + blen (snd (c, d)) < two63)%N
       | OpPutMany l =>
           Forall (fun b =>
             cid_parse (fst b) <> None ->
             (exists p, cid_ok p /\ fst b = cid_enc p /\ blen (c_digest p) <= max_digest_alloc)%N /\
             (blen (fst b) + blen (snd b) <= w_maxs o)%N /\ (blen (fst b) + blen (snd b) < two63)%N) l
       | _ => True
       end) ops /\
  (51 + w_dpad o + w_ipad o + ld_size (blen (enc_header (roots_opt nilroots roots) 1)) + ops_size ops < two64)%N.

Lemma ops_size_perm a b : Permutation a b -> ops_size a = ops_size b.
Proof. unfold ops_size. induction 1; cbn [fold_right]; lia. Qed.

Lemma c04_hist_ok_perm o nilroots roots a b :
  Permutation a b -> c04_hist_ok o nilroots roots b -> c04_hist_ok o nilroots roots a.
Proof.
  intros Hp [HF Hs]. split.
  - rewrite Forall_forall in *. intros x Hx. apply HF. eapply Permutation_in; eauto.
  - rewrite (ops_size_perm _ _ Hp). exact Hs.
Qed.

Theorem store_sections_linearizable_wrt_map
        (hdrdec : bytes -> option (list bytes * N)) (k : skind) (o : wopts) (nilroots : bool)
        (roots : list bytes) (s0 : wstate) (f : front) (ops : list sop) (tr : list ev) :
  (51 + w_dpad o + w_ipad o < two64)%N ->
  hdrdec (enc_header (roots_opt nilroots roots) 1) = Some (roots, 1%N) ->
  (blen (enc_header (roots_opt nilroots roots) 1) <= w_maxh o)%N ->
  (blen (enc_header (roots_opt nilroots roots) 1) < two63)%N ->
  open_new k o nilroots roots [] = Ok s0 ->
  c04_hist_ok o nilroots roots ops ->
  wf_trace (length ops) tr ->
  glinearizable mstate sop out (StoreSpec.spec_step f o roots) OpRoots m_empty ops (hist_of (length ops) tr)
                (gresults wstate sop out (impl_step hdrdec f) OpRoots s0 ops tr).
Proof.
  intros H1 H2 H3 H4 Hopen Hok Hwf.
  destruct (atomic_sections_linearizable_gen (impl_step hdrdec f) OpRoots s0 ops tr Hwf) as (w & Hp & Hr & E).
  exists (lin_order tr). split; [apply atomic_perm_ok; exact Hwf|].
  split; [apply (atomic_rt_ok _ _ Hwf tr [] eq_refl)|].
  unfold gresults. f_equal. rewrite !gexec_outs.
  apply (refines_map hdrdec k o nilroots roots H1 H2 H3 H4 s0 Hopen f).
  apply (c04_hist_ok_perm o nilroots roots _ ops); [apply ops_along_perm; exact Hwf|exact Hok].
Qed.

(* ---- (3) the deferred writer of C20 -------------------------------------------------------------------- *)
Theorem deferred_sections_linearizable (c : dcfg) (ops : list dop) (tr : list ev) :
  wf_trace (length ops) tr ->
  glinearizable dstate dop dout (d_step c) DClose d_init ops (hist_of (length ops) tr)
                (gresults dstate dop dout (d_step c) DClose d_init ops tr).
Proof. apply atomic_sections_linearizable_gen. Qed.

(* ---- non-vacuity ------------------------------------------------------------------------------------
   the blockstore of C04's example (StoreSpecExamples.v: StoreIdentityCIDs, paddings 7/1), three calls:
   Put(A) and Has(A) overlap -- the Has takes effect first and answers false --, then Get(A) *)
From GoCarProofs Require Import StoreSpecExamples.
Definition exs_ops : list sop := [OpPut ex_cA ex_data; OpHas ex_cA; OpGet ex_cA].

Example exs_hist_ok : c04_hist_ok ex_o false ex_roots exs_ops.
Proof.
  split; [|vm_compute; reflexivity].
  constructor; [|repeat constructor].
  change (put_ok ex_o (ex_cA, ex_data)). ex_put.
Qed.

Example exs_linearizable_wrt_map :
  glinearizable mstate sop out (StoreSpec.spec_step FBs ex_o ex_roots) OpRoots m_empty exs_ops
                (hist_of 3 ex_trace)
                (gresults wstate sop out (impl_step dec_header_canon FBs) OpRoots ex_s0 exs_ops ex_trace).
Proof.
  apply (store_sections_linearizable_wrt_map dec_header_canon KBlockstore ex_o false ex_roots ex_s0 FBs exs_ops ex_trace).
  - vm_compute. reflexivity.
  - apply hdr_canon_ok. exact ex_roots_ok.
  - vm_compute. congruence.
  - vm_compute. reflexivity.
  - exact ex_open.
  - exact exs_hist_ok.
  - exact ex_trace_wf.
Qed.

Example exs_results :
  gresults wstate sop out (impl_step dec_header_canon FBs) OpRoots ex_s0 exs_ops ex_trace
  = [(1, OBool false); (0, ONil); (2, OBytes ex_data)].
Proof. vm_compute. reflexivity. Qed.
