(* C13, part 3: NewReader/Inspect and NewBlockReader open the same payload; the iff theorem;
   termination; examples. *)
From GoCar Require Import Bytes Varint Cid Header Frame V2Header Scan Inspect.
From GoCarProofs Require Import BytesFacts VarintFacts CidFacts HeaderFacts ScanFacts
  InspectParse InspectFacts InspectStats.

Lemma ld_read_rest zeof maxb s buf rest : ld_read zeof maxb s = Ok (buf, rest) ->
  rest = drop (ld_size (blen buf)) s.
Proof.
  unfold ld_read, ld_read_size.
  destruct (read_uv s) as [l r n| | | |] eqn:E; try discriminate.
  destruct ((l =? 0) && zeof); [discriminate|]. destruct (maxb <? l); [discriminate|].
  destruct (blen r <? l) eqn:El; [discriminate|]. intros H. inversion H; subst buf rest.
  destruct (read_uv_inv _ _ _ _ E) as (Hs & _ & _).
  rewrite blen_take. replace (N.min l (blen r)) with l by lia. unfold ld_size.
  rewrite Hs. rewrite drop_app_ge by (rewrite blen_put_uv; lia).
  rewrite blen_put_uv. f_equal. lia.
Qed.

Lemma ld_read_not_fuel zeof maxb s : ld_read zeof maxb s <> Err EFuel.
Proof.
  unfold ld_read, ld_read_size. destruct (read_uv s) as [l r n| | | |]; try discriminate.
  destruct ((l =? 0) && zeof); [discriminate|]. destruct (maxb <? l); [discriminate|].
  destruct (blen r <? l); discriminate.
Qed.

Lemma le_dec_lt bs : le_dec bs < 256 ^ blen bs.
Proof.
  induction bs as [|b t IH]; [cbn; lia|]. cbn [le_dec]. rewrite blen_cons.
  replace (1 + blen t) with (N.succ (blen t)) by lia. rewrite N.pow_succ_r'.
  pose proof (b2n_lt b). lia.
Qed.
Lemma le_dec_take8 s : le_dec (take 8 s) < two64.
Proof.
  eapply N.lt_le_trans; [apply le_dec_lt|]. change two64 with (256 ^ 8).
  apply N.pow_le_mono_r; [lia|]. rewrite blen_take. lia.
Qed.

Lemma read_v2hdr_ok s h r : read_v2hdr s = Ok (h, r) -> r = drop 40 s /\ 51 <= h_doff h.
Proof.
  unfold read_v2hdr. destruct (blen s <? 16); [discriminate|]. destruct (blen s <? 40); [discriminate|].
  set (doff := le_dec (take 8 (drop 16 s))).
  destruct (as_int64 doff <? 51)%Z eqn:E1; [discriminate|].
  destruct (as_int64 (le_dec (take 8 (drop 24 s))) <=? 0)%Z; [discriminate|].
  destruct (as_int64 (le_dec (take 8 (drop 32 s))) <? 0)%Z; [discriminate|].
  intros H. inversion H; subst h r. cbn [h_doff]. split; [reflexivity|].
  change (51 <= doff). assert (Hlt : doff < two64) by apply le_dec_take8.
  clearbody doff. unfold as_int64 in E1. destruct (doff <? two63) eqn:E2; [lia|].
  exfalso. unfold two63, two64 in *. lia.
Qed.

Section Oracles.
  Variable hok : bytes -> bytes -> option bool.
  Variable hdrdec : bytes -> option (list bytes * N).

  Lemma read_header_rest maxh s roots v rest used :
    read_header hdrdec maxh s = Ok (roots, v, rest, used) -> rest = drop used s.
  Proof.
    unfold read_header. destruct (ld_read false maxh s) as [[hb r]|e] eqn:E.
    - destruct (hdrdec hb) as [[rs v']|]; [|discriminate]. intros H. inversion H; subst.
      eapply ld_read_rest. exact E.
    - destruct e; discriminate.
  Qed.

  Lemma read_header_not_fuel maxh s : read_header hdrdec maxh s <> Err EFuel.
  Proof.
    unfold read_header. destruct (ld_read false maxh s) as [[hb r]|e] eqn:E.
    - destruct (hdrdec hb) as [[? ?]|]; discriminate.
    - destruct e; try discriminate. exfalso. eapply ld_read_not_fuel. exact E.
  Qed.

  (* the payload header Inspect reads, with the (repaired) inner-version check *)
  Definition open_sections (o : ropts) (rd : rdr) (file : bytes) : res (list bytes * bytes) :=
    match read_header hdrdec (o_maxh o) (data_window rd file) with
    | Err e => Err e
    | Ok (roots, hv, rest, _) =>
        if (r_version rd =? 2) && negb (hv =? 1) then Err EOther else Ok (roots, rest)
    end.

  Lemma inspect_open o rd file v :
    inspect hok hdrdec o rd file v
    = match open_sections o rd file with
      | Err e => Err e
      | Ok (roots, rest) =>
        match insp_loop hok (S (length rest)) v o roots rest (iacc0 roots) with
        | Err e => Err e
        | Ok a => match index_codec rd file with
                  | Err e => Err e
                  | Ok codec => Ok (finish_stats rd roots a codec)
                  end
        end
      end.
  Proof.
    unfold inspect, open_sections.
    destruct (read_header hdrdec (o_maxh o) (data_window rd file)) as [[[[roots hv] rest] u]|e]; [|reflexivity].
    destruct ((r_version rd =? 2) && negb (hv =? 1)); reflexivity.
  Qed.

  (* NewBlockReader (with the same limits) opens exactly the section stream Inspect walks *)
  Lemma br_open_of_reader o file rd : new_reader hdrdec o file = Ok rd ->
    match open_sections o rd file with
    | Ok (roots, rest) =>
        exists a b, br_open hdrdec (untrusted o) file = Ok (r_version rd, roots, rest, a, b)
    | Err _ => exists e, br_open hdrdec (untrusted o) file = Err e
    end.
  Proof.
    unfold new_reader, br_open, open_sections. change (o_maxh (untrusted o)) with (o_maxh o).
    destruct (read_header hdrdec (o_maxh o) file) as [[[[roots0 v] rest] used]|e] eqn:Eh; [|discriminate].
    pose proof (read_header_rest _ _ _ _ _ _ Eh) as Hrest.
    destruct (v =? 1) eqn:E1.
    - intros H. inversion H; subst rd. unfold data_window. cbn [r_version N.eqb Pos.eqb].
      rewrite Eh. cbn [andb]. eauto.
    - destruct (v =? 2) eqn:E2; [|discriminate].
      destruct (negb (used =? 11)) eqn:E11; [discriminate|].
      assert (used = 11) by (destruct (used =? 11) eqn:X; [lia|discriminate]). subst used.
      destruct (read_v2hdr (drop 11 file)) as [[h r2]|e] eqn:Ev; [|discriminate].
      intros H. inversion H; subst rd. rewrite Hrest, Ev.
      destruct (read_v2hdr_ok _ _ _ Ev) as (Hr2 & Hdoff).
      unfold data_window. cbn [r_version r_hdr N.eqb Pos.eqb].
      assert (Hwin : take (h_dsize h) (drop (h_doff h - 51) r2) = take (h_dsize h) (drop (h_doff h) file)).
      { rewrite Hr2, !drop_drop. f_equal. f_equal. lia. }
      rewrite Hwin.
      destruct (read_header hdrdec (o_maxh o) (take (h_dsize h) (drop (h_doff h) file))) as [[[[roots1 v1] rest3] used1]|e]; [|eauto].
      cbn [andb]. destruct (v1 =? 1); cbn [negb]; eauto.
  Qed.

  (* ---- the theorem ------------------------------------------------------------------------ *)
  Theorem c13_iff o file rd :
    o_maxs o <= max_digest_alloc ->
    new_reader hdrdec o file = Ok rd ->
    forall st,
      inspect hok hdrdec o rd file true = Ok st <->
      exists roots blocks codec,
        br_read_all hok hdrdec (untrusted o) file = Ok (r_version rd, roots, mkscan blocks EEof) /\
        index_codec rd file = Ok codec /\
        st = stats_of (r_version rd) (r_hdr rd) roots blocks codec.
  Proof.
    intros Hcap Hnew st. rewrite inspect_open. unfold br_read_all.
    pose proof (br_open_of_reader o file rd Hnew) as Hopen.
    destruct (open_sections o rd file) as [[roots rest]|e].
    - destruct Hopen as (a0 & b0 & Hbr). rewrite Hbr. unfold scan_all.
      generalize (S (length rest)). intros fuel.
      pose proof (loop_scan hok o roots Hcap fuel rest (iacc0 roots) []) as Hls.
      destruct (insp_loop hok fuel true o roots rest (iacc0 roots)) as [a|e].
      + destruct Hls as (bs & Hscan & Ha & Hsmall). change (rev [] ++ bs) with bs in Hscan.
        assert (Hfin : forall codec, finish_stats rd roots a codec
                                     = stats_of (r_version rd) (r_hdr rd) roots bs codec).
        { intros codec. rewrite Ha. apply (finish_stats_fold rd roots bs codec (o_maxs o)).
          - exact Hsmall.
          - unfold max_digest_alloc, max_uint64, two64 in *. lia. }
        split.
        * intros H. destruct (index_codec rd file) as [codec|e]; [|discriminate].
          inversion H; subst st. exists roots, bs, codec.
          split; [rewrite Hscan; reflexivity|split; [reflexivity|apply Hfin]].
        * intros (roots' & blocks & codec & Hb & Hi & Hst). rewrite Hscan in Hb.
          inversion Hb; subst roots' blocks. rewrite Hi, Hst, Hfin. reflexivity.
      + split; [discriminate|]. intros (roots' & blocks & codec & Hb & _).
        exfalso. apply Hls. inversion Hb as [[H1 H2]]. rewrite H2. reflexivity.
    - destruct Hopen as (e' & Hbr). rewrite Hbr. split; [discriminate|].
      intros (? & ? & ? & Hb & _). discriminate.
  Qed.

  (* ---- termination: the fuel Inspect's loop is given always suffices ---------------------- *)
  Lemma insp_loop_fuel_enough v o roots : forall fuel s a,
    (length s < fuel)%nat -> insp_loop hok fuel v o roots s a <> Err EFuel.
  Proof.
    induction fuel as [|f IH]; intros s a Hf; [lia|]. cbn [insp_loop].
    destruct (read_uv s) as [l rest n| | | |] eqn:Euv; try discriminate.
    destruct ((l =? 0) && o_zeof o); [discriminate|]. destruct (o_maxs o <? l); [discriminate|].
    destruct (cid_from_reader rest) as [cn c p after| |k] eqn:Ec; try discriminate.
    destruct (l <? cn); [discriminate|].
    destruct (read_uv_ok_len _ _ _ _ Euv) as (Hlen & Hn1).
    destruct (cid_from_reader_inv _ _ _ _ _ Ec) as (_ & _ & Hs & _ & _).
    assert (Hshort : (length (drop (l - cn) after) < f)%nat).
    { assert (X : blen (drop (l - cn) after) <= blen after) by (rewrite blen_drop; lia).
      assert (Y : blen rest = blen (cid_enc p) + blen after) by (rewrite Hs at 1; apply blen_app).
      unfold blen in *. lia. }
    destruct v.
    - destruct (blen after <? l - cn); [discriminate|].
      destruct (verify hok c p (take (l - cn) after)) as [[]|e] eqn:Ev.
      + apply IH. exact Hshort.
      + intros X. inversion X; subst e. unfold verify in Ev.
        destruct (hash_matches hok c p (take (l - cn) after)) as [[|]|]; discriminate.
    - apply IH. exact Hshort.
  Qed.

  Theorem inspect_never_out_of_fuel o rd file v : inspect hok hdrdec o rd file v <> Err EFuel.
  Proof.
    rewrite inspect_open. destruct (open_sections o rd file) as [[roots rest]|e] eqn:Eo.
    - pose proof (insp_loop_fuel_enough v o roots (S (length rest)) rest (iacc0 roots) ltac:(lia)) as Hf.
      destruct (insp_loop hok (S (length rest)) v o roots rest (iacc0 roots)) as [a|e]; [|congruence].
      unfold index_codec. destruct (negb (r_version rd =? 1) && has_index (r_hdr rd)); [|discriminate].
      destruct (read_uv (drop (h_ioff (r_hdr rd)) file)); discriminate.
    - unfold open_sections in Eo.
      destruct (read_header hdrdec (o_maxh o) (data_window rd file)) as [[[[roots hv] rest] u]|e0] eqn:Eh.
      + destruct ((r_version rd =? 2) && negb (hv =? 1)); inversion Eo; discriminate.
      + inversion Eo; subst e0. intros X. inversion X; subst e. eapply read_header_not_fuel. exact Eh.
  Qed.

  (* ---- io.EOF as Inspect's error never comes from the section walk ------------------------ *)
  Lemma insp_loop_not_eof v o roots : forall fuel s a, insp_loop hok fuel v o roots s a <> Err EEof.
  Proof.
    induction fuel as [|f IH]; intros s a; cbn [insp_loop]; [discriminate|].
    destruct (read_uv s) as [l rest n| | | |]; try discriminate.
    destruct ((l =? 0) && o_zeof o); [discriminate|]. destruct (o_maxs o <? l); [discriminate|].
    destruct (cid_from_reader rest) as [cn c p after| |k]; try discriminate.
    destruct (l <? cn); [discriminate|].
    destruct v; [|apply IH].
    destruct (blen after <? l - cn); [discriminate|].
    destruct (verify hok c p (take (l - cn) after)) as [[]|e] eqn:Ev; [apply IH|].
    intros X. inversion X; subst e. eapply verify_not_eof. exact Ev.
  Qed.

  Theorem inspect_eof_origin o rd file v :
    inspect hok hdrdec o rd file v = Err EEof ->
    read_header hdrdec (o_maxh o) (data_window rd file) = Err EEof \/ index_codec rd file = Err EEof.
  Proof.
    unfold inspect.
    destruct (read_header hdrdec (o_maxh o) (data_window rd file)) as [[[[roots hv] rest] u]|e].
    - destruct ((r_version rd =? 2) && negb (hv =? 1)); [discriminate|].
      pose proof (insp_loop_not_eof v o roots (S (length rest)) rest (iacc0 roots)) as Hl.
      destruct (insp_loop hok (S (length rest)) v o roots rest (iacc0 roots)) as [a|e]; [|congruence].
      destruct (index_codec rd file) as [c|e]; [discriminate|]. intros H. right. congruence.
    - intros H. left. congruence.
  Qed.
End Oracles.
