(* L5: facts about the writable-store model (theories/Store.v) that every property built on it needs:
   - the backing file under fault-free writes (write_at / write_chunks);
   - the insertion index: sortedness, per-digest view = insertion order;
   - the store invariant [Inv s hb bs]: the file is  <prefix> ++ ld hb ++ sections bs ++ <suffix>,
     the index is the records of bs, the writer position is the payload length;
     it holds after open_new and is preserved by put_one and store_finalize;
   - FindCid over a file with that layout returns the first stored block carrying the key. *)
From GoCar Require Import Bytes Varint Cid Header Frame V2Header Scan Index Store.
From GoCarProofs Require Import BytesFacts VarintFacts CidFacts HeaderFacts ScanFacts.
From Coq Require Import Sorting.Sorted Permutation.

(* ---- the backing file ------------------------------------------------------------------------------ *)
Lemma write_at_nil f off : write_at f off [] = f.
Proof. reflexivity. Qed.

(* overwrite at the end of a known prefix: the bytes after the prefix are replaced one for one *)
Lemma write_at_mid a b d : write_at (a ++ b) (blen a) d = a ++ d ++ drop (blen d) b.
Proof.
  destruct d as [|x d']; [cbn [write_at app]; rewrite blen_nil, drop_0; reflexivity|].
  unfold write_at. replace (blen a <=? blen (a ++ b)) with true by (rewrite blen_app; lia).
  rewrite take_app. rewrite drop_app_ge by lia.
  replace (blen a + blen (x :: d') - blen a) with (blen (x :: d')) by lia. reflexivity.
Qed.

Lemma write_at_end f d : write_at f (blen f) d = f ++ d.
Proof.
  rewrite <- (app_nil_r f) at 1. rewrite write_at_mid.
  destruct (blen d); cbn [drop]; rewrite app_nil_r; reflexivity.
Qed.

(* write beyond the end: the hole reads back as zeros *)
Lemma write_at_beyond f off d : blen f <= off -> d <> [] ->
  write_at f off d = f ++ zerosN (off - blen f) ++ d.
Proof.
  intros Hle Hd. destruct d as [|x d']; [congruence|]. unfold write_at.
  destruct (off <=? blen f) eqn:E; [|reflexivity].
  assert (off = blen f) by lia. subst off.
  rewrite take_all. rewrite drop_ge by lia. rewrite N.sub_diag. cbn [zerosN N.to_nat zeros app].
  rewrite app_nil_r. reflexivity.
Qed.

(* consecutive writes through a position-tracking writer = one write of the concatenation *)
Lemma write_at_seq f a c1 c2 :
  write_at (write_at f a c1) (a + blen c1) c2 = write_at f a (c1 ++ c2).
Proof.
  destruct c1 as [|x1 c1']; [cbn [write_at app]; rewrite blen_nil, N.add_0_r; reflexivity|].
  destruct c2 as [|x2 c2']; [rewrite app_nil_r; apply write_at_nil|].
  set (c1 := x1 :: c1'). set (c2 := x2 :: c2').
  destruct (a <=? blen f) eqn:E.
  - assert (H1 : write_at f a c1 = (take a f ++ c1) ++ drop (a + blen c1) f).
    { unfold write_at, c1. rewrite E. rewrite <- app_assoc. reflexivity. }
    assert (Hl : blen (take a f ++ c1) = a + blen c1) by (rewrite blen_app, blen_take; lia).
    rewrite H1, <- Hl, write_at_mid, Hl, drop_drop.
    unfold write_at at 1. change (c1 ++ c2) with (x1 :: c1' ++ c2). cbv iota. rewrite E.
    change (x1 :: c1' ++ c2) with (c1 ++ c2). rewrite blen_app, <- !app_assoc.
    replace (a + (blen c1 + blen c2)) with (a + blen c1 + blen c2) by lia. reflexivity.
  - assert (H1 : write_at f a c1 = f ++ zerosN (a - blen f) ++ c1).
    { unfold write_at, c1. rewrite E. reflexivity. }
    assert (Hl : blen (f ++ zerosN (a - blen f) ++ c1) = a + blen c1)
      by (rewrite !blen_app, blen_zerosN; lia).
    rewrite H1, <- Hl, write_at_end.
    unfold write_at. change (c1 ++ c2) with (x1 :: c1' ++ c2). cbv iota. rewrite E.
    change (x1 :: c1' ++ c2) with (c1 ++ c2). rewrite <- !app_assoc. reflexivity.
Qed.

Lemma dev_write_nofault dv off data : d_faults dv = [] ->
  dev_write dv off data
  = (mkdev (write_at (d_file dv) off data) (WrAt off data :: d_log dv) [], blen data, true).
Proof. intros H. unfold dev_write. rewrite H. reflexivity. Qed.

(* fault-free Write calls: all succeed, the file is as after one write of the concatenation *)
Lemma write_chunks_nofault chunks : forall dv abs, d_faults dv = [] ->
  exists dv', write_chunks dv abs chunks = (dv', abs + blen (concat chunks), true) /\
              d_faults dv' = [] /\
              d_file dv' = write_at (d_file dv) abs (concat chunks).
Proof.
  induction chunks as [|c t IH]; intros dv abs Hf.
  - exists dv. cbn [write_chunks concat]. rewrite blen_nil, N.add_0_r, write_at_nil. auto.
  - cbn [write_chunks concat]. rewrite dev_write_nofault by exact Hf.
    destruct (IH (mkdev (write_at (d_file dv) abs c) (WrAt abs c :: d_log dv) []) (abs + blen c) eq_refl)
      as (dv' & Hw & Hf' & Hfile).
    exists dv'. rewrite Hw. split; [|split].
    + rewrite blen_app. f_equal. f_equal. lia.
    + exact Hf'.
    + rewrite Hfile. cbn [d_file]. apply write_at_seq.
Qed.

(* ---- lexicographic order on byte strings ----------------------------------------------------------- *)
Lemma b2n_inj x y : b2n x = b2n y -> x = y.
Proof. intros H. rewrite <- (n2b_b2n x), <- (n2b_b2n y), H. reflexivity. Qed.

Lemma bytes_cmp_refl a : bytes_cmp a a = Eq.
Proof. induction a as [|x a IH]; cbn [bytes_cmp]; [reflexivity|]. rewrite N.compare_refl. exact IH. Qed.

Lemma bytes_cmp_eq a : forall b, bytes_cmp a b = Eq -> a = b.
Proof.
  induction a as [|x a IH]; intros [|y b]; cbn [bytes_cmp]; try discriminate; [reflexivity|].
  destruct (N.compare (b2n x) (b2n y)) eqn:E; try discriminate.
  intros H. apply N.compare_eq in E. apply b2n_inj in E. subst. f_equal. apply IH. exact H.
Qed.

Lemma bytes_cmp_antisym a : forall b, bytes_cmp b a = CompOpp (bytes_cmp a b).
Proof.
  induction a as [|x a IH]; intros [|y b]; cbn [bytes_cmp CompOpp]; try reflexivity.
  rewrite (N.compare_antisym (b2n x) (b2n y)).
  destruct (N.compare (b2n x) (b2n y)); cbn [CompOpp]; [apply IH|reflexivity|reflexivity].
Qed.

Lemma bytes_cmp_lt_trans a : forall b c,
  bytes_cmp a b = Lt -> bytes_cmp b c = Lt -> bytes_cmp a c = Lt.
Proof.
  induction a as [|x a IH]; intros [|y b] [|z c]; cbn [bytes_cmp]; try discriminate; try reflexivity.
  destruct (N.compare (b2n x) (b2n y)) eqn:E1; try discriminate;
    destruct (N.compare (b2n y) (b2n z)) eqn:E2; try discriminate; intros H1 H2.
  - apply N.compare_eq in E1, E2. rewrite E1, E2, N.compare_refl. eapply IH; eassumption.
  - apply N.compare_eq in E1. rewrite E1, E2. reflexivity.
  - apply N.compare_eq in E2. rewrite <- E2, E1. reflexivity.
  - rewrite N.compare_lt_iff in E1, E2. replace (N.compare (b2n x) (b2n z)) with Lt; [reflexivity|].
    symmetry. rewrite N.compare_lt_iff. lia.
Qed.

Lemma bytes_ltb_irrefl a : bytes_ltb a a = false.
Proof. unfold bytes_ltb. rewrite bytes_cmp_refl. reflexivity. Qed.

(* not (a < b)  ->  b <= a *)
Lemma bytes_nlt_le a b : bytes_ltb a b = false -> bytes_leb b a = true.
Proof.
  unfold bytes_ltb, bytes_leb. rewrite (bytes_cmp_antisym a b).
  destruct (bytes_cmp a b); cbn [CompOpp]; congruence.
Qed.

Lemma bytes_lt_le_trans a b c : bytes_ltb a b = true -> bytes_leb b c = true -> bytes_ltb a c = true.
Proof.
  unfold bytes_ltb, bytes_leb. destruct (bytes_cmp a b) eqn:E1; try discriminate. intros _.
  destruct (bytes_cmp b c) eqn:E2; try discriminate; intros _.
  - apply bytes_cmp_eq in E2. subst. rewrite E1. reflexivity.
  - rewrite (bytes_cmp_lt_trans a b c E1 E2). reflexivity.
Qed.

Lemma bytes_lt_le a b : bytes_ltb a b = true -> bytes_leb a b = true.
Proof. unfold bytes_ltb, bytes_leb. destruct (bytes_cmp a b); congruence. Qed.

Lemma bytes_lt_not_ge a b : bytes_ltb a b = true -> bytes_leb b a = false.
Proof.
  unfold bytes_ltb, bytes_leb. rewrite (bytes_cmp_antisym a b).
  destruct (bytes_cmp a b); cbn [CompOpp]; congruence.
Qed.

Lemma bytes_leb_refl a : bytes_leb a a = true.
Proof. unfold bytes_leb. rewrite bytes_cmp_refl. reflexivity. Qed.

(* ---- the insertion index ---------------------------------------------------------------------------- *)
Definition dig_le (a b : irec) : Prop := bytes_leb (r_digest a) (r_digest b) = true.
Definition ii_sorted (ii : iidx) : Prop := StronglySorted dig_le ii.

Lemma ins_by_digest_in r l x : In x (ins_by_digest r l) -> x = r \/ In x l.
Proof.
  induction l as [|y t IH]; cbn [ins_by_digest]; [intros [H|[]]; auto|].
  destruct (bytes_ltb (r_digest r) (r_digest y)).
  - intros [H|H]; [left; auto|right; exact H].
  - intros [H|H]; [right; left; exact H|]. destruct (IH H); [left|right; right]; assumption.
Qed.

Lemma ins_by_digest_sorted r l : ii_sorted l -> ii_sorted (ins_by_digest r l).
Proof.
  unfold ii_sorted. induction 1 as [|y t Hs IH Hall]; cbn [ins_by_digest].
  - constructor; constructor.
  - destruct (bytes_ltb (r_digest r) (r_digest y)) eqn:E.
    + constructor; [constructor; assumption|].
      constructor; [apply bytes_lt_le; exact E|].
      rewrite Forall_forall in *. intros z Hz. apply bytes_lt_le.
      eapply bytes_lt_le_trans; [exact E|apply Hall; exact Hz].
    + constructor; [exact IH|]. rewrite Forall_forall in *. intros z Hz.
      destruct (ins_by_digest_in _ _ _ Hz) as [->|Hz']; [apply bytes_nlt_le; exact E|apply Hall; exact Hz'].
Qed.

Lemma ii_load_sorted rs : forall ii, ii_sorted ii -> ii_sorted (ii_load rs ii).
Proof.
  unfold ii_load. induction rs as [|r t IH]; intros ii H; cbn [fold_left]; [exact H|].
  apply IH. apply ins_by_digest_sorted. exact H.
Qed.

Definition has_digest (d : bytes) (r : irec) : bool := bytes_eqb (r_digest r) d.

(* inserting into a sorted index appends to the group of records with the same digest *)
Lemma filter_ins_by_digest d r l : ii_sorted l ->
  filter (has_digest d) (ins_by_digest r l)
  = filter (has_digest d) l ++ (if has_digest d r then [r] else []).
Proof.
  unfold ii_sorted. induction 1 as [|y t Hs IH Hall]; cbn [ins_by_digest filter].
  - destruct (has_digest d r); reflexivity.
  - destruct (bytes_ltb (r_digest r) (r_digest y)) eqn:E.
    + cbn [filter]. destruct (has_digest d r) eqn:Er; [|rewrite app_nil_r; reflexivity].
      (* r < y <= everything in t: nothing there carries r's digest *)
      assert (Hnone : filter (has_digest d) (y :: t) = []).
      { apply bytes_eqb_eq in Er.
        assert (Hy : forall z, z = y \/ In z t -> has_digest d z = false).
        { intros z Hz. unfold has_digest. destruct (bytes_eqb (r_digest z) d) eqn:Ez; [|reflexivity].
          apply bytes_eqb_eq in Ez. exfalso.
          assert (Hle : bytes_leb (r_digest y) (r_digest z) = true).
          { destruct Hz as [->|Hz]; [apply bytes_leb_refl|]. rewrite Forall_forall in Hall. apply Hall. exact Hz. }
          pose proof (bytes_lt_le_trans _ _ _ E Hle) as Hlt. rewrite Ez, <- Er, bytes_ltb_irrefl in Hlt. discriminate. }
        cbn [filter]. rewrite (Hy y (or_introl eq_refl)).
        clear -Hy. induction t as [|z t IHt]; [reflexivity|]. cbn [filter].
        rewrite (Hy z (or_intror (or_introl eq_refl))). apply IHt. intros w [Hw|Hw]; apply Hy; [left|right; right]; assumption. }
      cbn [filter] in Hnone. rewrite Hnone. reflexivity.
    + cbn [filter]. rewrite IH. destruct (has_digest d y); reflexivity.
Qed.

Lemma ii_with_digest_load d rs : forall ii, ii_sorted ii ->
  ii_with_digest d (ii_load rs ii) = ii_with_digest d ii ++ filter (has_digest d) rs.
Proof.
  unfold ii_load, ii_with_digest. change (fun r => bytes_eqb (r_digest r) d) with (has_digest d).
  induction rs as [|r t IH]; intros ii H; cbn [fold_left filter]; [rewrite app_nil_r; reflexivity|].
  rewrite IH by (apply ins_by_digest_sorted; exact H).
  unfold ii_insert. rewrite filter_ins_by_digest by exact H. rewrite <- app_assoc.
  destruct (has_digest d r); reflexivity.
Qed.

(* the per-digest view of an index loaded from scratch: the records with that digest, in order *)
Corollary ii_with_digest_load_nil d rs : ii_with_digest d (ii_load rs []) = filter (has_digest d) rs.
Proof. rewrite ii_with_digest_load by constructor. reflexivity. Qed.

Lemma ins_by_digest_perm r l : Permutation (ins_by_digest r l) (r :: l).
Proof.
  induction l as [|y t IH]; cbn [ins_by_digest]; [apply Permutation_refl|].
  destruct (bytes_ltb (r_digest r) (r_digest y)); [apply Permutation_refl|].
  eapply Permutation_trans; [apply perm_skip; exact IH|apply perm_swap].
Qed.

Lemma ii_load_perm rs : forall ii, Permutation (ii_load rs ii) (ii ++ rs).
Proof.
  unfold ii_load. induction rs as [|r t IH]; intros ii; cbn [fold_left]; [rewrite app_nil_r; apply Permutation_refl|].
  eapply Permutation_trans; [apply IH|]. unfold ii_insert.
  eapply Permutation_trans; [apply Permutation_app_tail; apply ins_by_digest_perm|].
  cbn [app]. apply Permutation_middle.
Qed.

Lemma ii_load_snoc rs r ii : ii_load (rs ++ [r]) ii = ii_insert r (ii_load rs ii).
Proof. unfold ii_load. rewrite fold_left_app. reflexivity. Qed.

(* ---- sections and their records --------------------------------------------------------------------- *)
Definition sections (bs : stored_blocks) : bytes :=
  concat (map (fun b => enc_section (fst b) (snd b)) bs).

Lemma sections_app a b : sections (a ++ b) = sections a ++ sections b.
Proof. unfold sections. rewrite map_app, concat_app. reflexivity. Qed.
Lemma sections_cons c d t : sections ((c, d) :: t) = enc_section c d ++ sections t.
Proof. reflexivity. Qed.
Lemma payload_of_sections roots bs : payload_of roots bs = ld (enc_header (Some roots) 1) ++ sections bs.
Proof. reflexivity. Qed.

Lemma records_from_app a : forall pos b,
  records_from pos (a ++ b) = records_from pos a ++ records_from (pos + blen (sections a)) b.
Proof.
  induction a as [|[c d] t IH]; intros pos b.
  - cbn [app records_from sections map concat]. rewrite blen_nil, N.add_0_r. reflexivity.
  - cbn [app records_from]. rewrite sections_cons, blen_app, blen_enc_section.
    rewrite IH. replace (pos + section_size c d + blen (sections t)) with (pos + (section_size c d + blen (sections t))) by lia.
    destruct (cid_parse c); reflexivity.
Qed.

(* ---- blocks the stores can hold and give back ---------------------------------------------------- *)
(* the CID is one go-cid produces (and CidFromReader reads back: digest within its 32 MiB cap);
   the section fits the reader's MaxAllowedSectionSize and the int64 range *)
Definition cid_rd_ok (c : bytes) : Prop :=
  exists p, cid_ok p /\ c = cid_enc p /\ blen (c_digest p) <= max_digest_alloc.
Definition blk_ok (maxs : N) (b : bytes * bytes) : Prop :=
  cid_rd_ok (fst b) /\ blen (fst b) + blen (snd b) <= maxs /\ blen (fst b) + blen (snd b) < two63.

Lemma blk_ok_block_ok maxs b : blk_ok maxs b -> block_ok maxs b.
Proof. intros ((p & Hp & Hc & _) & H1 & H2). split; [exists p; auto|auto]. Qed.

Lemma cid_rd_ok_parse c : cid_rd_ok c -> exists p, cid_parse c = Some p /\ cid_ok p /\ c = cid_enc p /\ blen (c_digest p) <= max_digest_alloc.
Proof. intros (p & Hp & -> & Hd). exists p. split; [apply cid_parse_enc; exact Hp|auto]. Qed.

(* ---- FindCid over a file with the section layout --------------------------------------------------- *)
(* the key test of the reference map, on a stored CID c and the CID k asked about *)
Definition same_key_p (whole : bool) (c : bytes) (p : cidp) (k : bytes) (kp : cidp) : bool :=
  if whole then bytes_eqb c k else (c_mhcode p =? c_mhcode kp) && bytes_eqb (c_digest p) (c_digest kp).

Lemma key_matches_same whole key kp c p : key_matches whole key kp c p = same_key_p whole c p key kp.
Proof. reflexivity. Qed.

Lemma view_at (all a b : bytes) : all = a ++ b -> drop (blen a) all = b.
Proof. intros ->. apply drop_app. Qed.

Section FindCid.
  Variables (whole zeof : bool) (maxs : N) (key : bytes) (kp : cidp) (post : bytes).
  Hypothesis Hkey : cid_parse key = Some kp.

  Definition keyed (b : bytes * bytes) : bool :=
    match cid_parse (fst b) with
    | Some p => same_key_p whole (fst b) p key kp
    | None => false
    end.

  (* a record is a candidate (same digest) whenever its block carries the key *)
  Lemma keyed_candidate c d p : cid_parse c = Some p -> keyed (c, d) = true ->
    bytes_eqb (c_digest p) (c_digest kp) = true.
  Proof.
    intros Hp. unfold keyed. cbn [fst]. rewrite Hp. unfold same_key_p. destruct whole.
    - intros H. apply bytes_eqb_eq in H. subst c. rewrite Hkey in Hp. inversion Hp. apply bytes_eqb_refl.
    - intros H. apply andb_true_iff in H. apply H.
  Qed.

  Lemma find_cid_sections_rb : forall bs view pre,
    view = pre ++ sections bs ++ post -> Forall (blk_ok maxs) bs ->
    find_cid view (map r_off (filter (has_digest (c_digest kp)) (records_from (blen pre) bs)))
             key kp whole zeof maxs true
    = match find keyed bs with
      | Some b => Ok (snd b, 0, Z.of_N (blen (snd b)))
      | None => Err ENotFound
      end.
  Proof.
    induction bs as [|[c d] t IH]; intros view pre Hv Hok; [reflexivity|].
    inversion Hok as [|? ? Hb Hok']; subst.
    destruct (cid_rd_ok_parse c (proj1 Hb)) as (p & Hp & _).
    destruct (read_node_section zeof maxs c d (sections t ++ post) (blk_ok_block_ok _ _ Hb)) as (p' & Hp' & Hrn).
    rewrite Hp in Hp'. inversion Hp'; subst p'. clear Hp'.
    assert (Hnext : pre ++ sections ((c, d) :: t) ++ post = (pre ++ enc_section c d) ++ sections t ++ post)
      by (rewrite sections_cons, <- !app_assoc; reflexivity).
    cbn [records_from find]. rewrite Hp. cbn [filter].
    unfold has_digest at 1. cbn [r_digest].
    destruct (bytes_eqb (c_digest p) (c_digest kp)) eqn:Ed.
    - cbn [map r_off find_cid].
      rewrite (view_at _ pre (enc_section c d ++ sections t ++ post))
        by (rewrite sections_cons, <- !app_assoc; reflexivity).
      rewrite Hrn. rewrite key_matches_same.
      unfold keyed at 1. cbn [fst]. rewrite Hp.
      destruct (same_key_p whole c p key kp); [reflexivity|].
      specialize (IH _ (pre ++ enc_section c d) Hnext Hok').
      rewrite blen_app, blen_enc_section in IH. exact IH.
    - destruct (keyed (c, d)) eqn:Ek.
      + pose proof (keyed_candidate c d p Hp Ek). congruence.
      + specialize (IH _ (pre ++ enc_section c d) Hnext Hok').
        rewrite blen_app, blen_enc_section in IH. exact IH.
  Qed.

  (* the size-only path (GetSize, Has on read-only stores, StorageCar.GetStream): offset and length
     of the data of the first block carrying the key *)
  Lemma find_cid_step_sz c d t view pre :
    view = pre ++ sections ((c, d) :: t) ++ post -> blk_ok maxs (c, d) ->
    find_cid view (map r_off (filter (has_digest (c_digest kp)) (records_from (blen pre) ((c, d) :: t))))
             key kp whole zeof maxs false
    = if keyed (c, d)
      then Ok ([], blen pre + uv_size (blen c + blen d) + blen c, Z.of_N (blen d))
      else find_cid view (map r_off (filter (has_digest (c_digest kp))
                                            (records_from (blen (pre ++ enc_section c d)) t)))
                    key kp whole zeof maxs false.
  Proof.
    intros Hv Hb.
    destruct (cid_rd_ok_parse c (proj1 Hb)) as (p & Hp & Hcok & Hc & Hdig).
    destruct Hb as (_ & Hmax & H63). cbn [fst snd] in Hmax, H63.
    cbn [records_from]. rewrite Hp. cbn [filter].
    unfold has_digest at 1. cbn [r_digest].
    rewrite blen_app, blen_enc_section.
    destruct (bytes_eqb (c_digest p) (c_digest kp)) eqn:Ed.
    - cbn [map r_off find_cid].
      rewrite (view_at view pre (enc_section c d ++ sections t ++ post))
        by (rewrite Hv, sections_cons, <- !app_assoc; reflexivity).
      unfold enc_section at 1. rewrite <- !app_assoc.
      unfold raw_uv. rewrite read_uv_put_uv by exact H63.
      replace (maxs <? blen c + blen d) with false by lia.
      rewrite Hc at 1. rewrite cid_from_reader_enc by assumption. rewrite <- Hc.
      rewrite key_matches_same. unfold keyed. cbn [fst]. rewrite Hp.
      destruct (same_key_p whole c p key kp); [|reflexivity].
      f_equal. f_equal. lia.
    - destruct (keyed (c, d)) eqn:Ek; [|reflexivity].
      pose proof (keyed_candidate c d p Hp Ek). congruence.
  Qed.

  Lemma find_cid_sections_sz : forall bs view pre,
    view = pre ++ sections bs ++ post -> Forall (blk_ok maxs) bs ->
    match find keyed bs with
    | Some b => exists off,
        find_cid view (map r_off (filter (has_digest (c_digest kp)) (records_from (blen pre) bs)))
                 key kp whole zeof maxs false = Ok ([], off, Z.of_N (blen (snd b))) /\
        take (blen (snd b)) (drop off view) = snd b
    | None =>
        find_cid view (map r_off (filter (has_digest (c_digest kp)) (records_from (blen pre) bs)))
                 key kp whole zeof maxs false = Err ENotFound
    end.
  Proof.
    induction bs as [|[c d] t IH]; intros view pre Hv Hok; [reflexivity|].
    inversion Hok as [|? ? Hb Hok']; subst.
    rewrite find_cid_step_sz by (auto).
    cbn [find]. destruct (keyed (c, d)).
    - exists (blen pre + uv_size (blen c + blen d) + blen c). cbn [snd]. split; [reflexivity|].
      assert (Hsplit : pre ++ sections ((c, d) :: t) ++ post
                       = (pre ++ put_uv (blen c + blen d) ++ c) ++ d ++ sections t ++ post)
        by (rewrite sections_cons; unfold enc_section; rewrite <- !app_assoc; reflexivity).
      rewrite Hsplit.
      replace (blen pre + uv_size (blen c + blen d) + blen c) with (blen (pre ++ put_uv (blen c + blen d) ++ c))
        by (rewrite !blen_app, blen_put_uv; lia).
      rewrite drop_app. apply take_app.
    - apply IH; [|exact Hok']. rewrite sections_cons, <- !app_assoc. reflexivity.
  Qed.
End FindCid.

(* ---- more about write_at: what a write cannot touch ---------------------------------------------- *)
Lemma write_at_keeps_prefix a b off d : blen a <= off -> exists b', write_at (a ++ b) off d = a ++ b'.
Proof.
  intros Hle. destruct d as [|x d']; [exists b; reflexivity|]. unfold write_at.
  destruct (off <=? blen (a ++ b)) eqn:E.
  - rewrite take_app_ge by exact Hle. rewrite <- app_assoc. eexists. reflexivity.
  - rewrite <- app_assoc. eexists. reflexivity.
Qed.

Lemma write_at_inside_prefix pre rest off d : off + blen d <= blen pre ->
  exists pre', write_at (pre ++ rest) off d = pre' ++ rest /\ blen pre' = blen pre.
Proof.
  intros Hle. destruct d as [|x d']; [exists pre; split; reflexivity|]. unfold write_at.
  replace (off <=? blen (pre ++ rest)) with true by (rewrite blen_app; lia).
  rewrite take_app_le by lia. rewrite drop_app_le by lia.
  exists (take off pre ++ (x :: d') ++ drop (off + blen (x :: d')) pre). split.
  - rewrite <- !app_assoc. reflexivity.
  - rewrite !blen_app, blen_take, blen_drop. lia.
Qed.

(* ---- header arithmetic without wrap-around ----------------------------------------------------------- *)
Lemma wrap64_small n : n < two64 -> wrap64 n = n.
Proof. intros H. unfold wrap64. apply N.mod_small. exact H. Qed.

Lemma hdr_of_doff o : 51 + w_dpad o < two64 -> h_doff (hdr_of o) = 51 + w_dpad o.
Proof.
  intros H. unfold hdr_of, new_header.
  destruct (N.ltb_spec 0 (w_dpad o)); destruct (0 <? w_ipad o); cbn [with_data_padding with_index_padding h_doff];
    try (rewrite wrap64_small by exact H; reflexivity); lia.
Qed.

Lemma hdr_of_ioff o n : 51 + w_dpad o + w_ipad o + n < two64 ->
  h_ioff (set_fully_indexed (w_storeid o) (with_data_size n (hdr_of o))) = 51 + w_dpad o + w_ipad o + n.
Proof.
  intros H. unfold set_fully_indexed, with_data_size, hdr_of, new_header. cbn [h_ioff].
  destruct (N.ltb_spec 0 (w_dpad o)); destruct (N.ltb_spec 0 (w_ipad o));
    cbn [with_data_padding with_index_padding h_ioff h_hi h_lo h_doff h_dsize];
    repeat match goal with
           | |- context [wrap64 ?x] =>
               lazymatch x with
               | context [wrap64 _] => fail
               | _ => rewrite (wrap64_small x) by (unfold two64 in *; lia)
               end
           end; lia.
Qed.

Lemma data_base_v1 o : w_v1 o = true -> data_base o = 0.
Proof. intros H. unfold data_base. rewrite H. reflexivity. Qed.
Lemma data_base_v2 o : w_v1 o = false -> 51 + w_dpad o < two64 -> data_base o = 51 + w_dpad o.
Proof. intros H Hb. unfold data_base. rewrite H. apply hdr_of_doff. exact Hb. Qed.

(* ---- the store invariant ---------------------------------------------------------------------------------- *)
(* hb = the CARv1 header bytes the store was opened with; bs = the blocks stored so far, in order *)
Record Inv (s : wstate) (hb : bytes) (bs : stored_blocks) : Prop := mkInv {
  inv_file : exists pre post, ws_file s = pre ++ (ld hb ++ sections bs) ++ post /\
                              blen pre = data_base (ws_opts s);
  inv_pos : ws_pos s = blen (ld hb ++ sections bs);
  inv_idx : ws_idx s = ii_load (records_from (blen (ld hb)) bs) []
}.
Definition no_faults (s : wstate) : Prop := d_faults (ws_dev s) = [].

(* what the store's reader sees from the payload start *)
Lemma inv_view s hb bs : Inv s hb bs -> exists post, ws_view s = ld hb ++ sections bs ++ post.
Proof.
  intros [(pre & post & Hf & Hpre) _ _]. exists post. unfold ws_view. rewrite Hf, <- Hpre, drop_app, <- app_assoc.
  reflexivity.
Qed.

Lemma inv_sorted s hb bs : Inv s hb bs -> ii_sorted (ws_idx s).
Proof. intros [_ _ Hi]. rewrite Hi. apply ii_load_sorted. constructor. Qed.

Lemma inv_with_digest s hb bs d : Inv s hb bs ->
  ii_with_digest d (ws_idx s) = filter (has_digest d) (records_from (blen (ld hb)) bs).
Proof. intros [_ _ Hi]. rewrite Hi. apply ii_with_digest_load_nil. Qed.

(* the invariant does not look at the flags *)
Lemma inv_set_flags s hb bs c f : Inv s hb bs -> Inv (set_flags s c f) hb bs.
Proof. intros [H1 H2 H3]. constructor; assumption. Qed.

Lemma concat_ld_chunks_1 hb : concat (ld_chunks [hb]) = ld hb.
Proof. unfold ld_chunks, ld. cbn [fold_left concat]. rewrite N.add_0_l, app_nil_r. reflexivity. Qed.
Lemma concat_ld_chunks_2 c d : concat (ld_chunks [c; d]) = enc_section c d.
Proof. unfold ld_chunks, enc_section. cbn [fold_left concat]. rewrite N.add_0_l, app_nil_r. reflexivity. Qed.

Lemma ld_nonempty hb : ld hb <> [].
Proof. unfold ld. pose proof (put_uv_nonempty (blen hb)). destruct (put_uv (blen hb)); [congruence|discriminate]. Qed.

Lemma blen_pragma : blen pragma = 11.
Proof. reflexivity. Qed.

(* options whose paddings do not wrap the 64-bit header arithmetic (every real configuration) *)
Definition base_fits (o : wopts) : Prop := 51 + w_dpad o + w_ipad o < two64.

Lemma Ok_inj {A} (a b : A) : Ok a = Ok b -> a = b.
Proof. congruence. Qed.

(* open on an empty file *)
Lemma open_new_inv k o nilroots roots s :
  base_fits o ->
  open_new k o nilroots roots [] = Ok s ->
  Inv s (enc_header (roots_opt nilroots roots) 1) [] /\ no_faults s /\
  ws_closed s = false /\ ws_finalized s = false /\ ws_roots s = roots /\ ws_opts s = o /\ ws_kind s = k.
Proof.
  intros Hfit. unfold open_new, base_fits in *.
  set (hb := enc_header (roots_opt nilroots roots) 1).
  destruct (match k with KStorage false => negb (w_v1 o) | _ => false end); [discriminate|].
  destruct (w_v1 o) eqn:Ev1.
  - (* CARv1: the header frame at offset 0 *)
    cbn [negb].
    destruct (write_chunks_nofault (header_chunks nilroots roots) (mkdev [] [] []) (data_base o) eq_refl)
      as (dv & Hw & Hf & Hfile).
    rewrite Hw. change (negb true) with false. cbv iota. intros H; apply Ok_inj in H; subst s.
    unfold header_chunks in Hfile. fold hb in Hfile. rewrite concat_ld_chunks_1 in Hfile.
    unfold header_chunks. fold hb. rewrite concat_ld_chunks_1.
    rewrite data_base_v1 in * by exact Ev1. cbn [d_file] in Hfile.
    change 0 with (blen (@nil byte)) in Hfile. rewrite write_at_end in Hfile. cbn [app] in Hfile.
    repeat split; cbn [ws_closed ws_finalized ws_roots ws_opts ws_kind]; try reflexivity; try exact Hf.
    + exists [], []. unfold ws_file. cbn [ws_dev ws_opts]. rewrite Hfile.
      cbn [sections map concat app]. rewrite !app_nil_r. rewrite data_base_v1 by exact Ev1. split; reflexivity.
    + cbn [ws_pos sections map concat]. rewrite app_nil_r. lia.
  - (* CARv2: pragma at 0, then the header frame at DataOffset *)
    rewrite dev_write_nofault by reflexivity. cbn [negb d_file d_log].
    destruct (write_chunks_nofault (header_chunks nilroots roots)
                (mkdev (write_at [] 0 pragma) [WrAt 0 pragma] []) (data_base o) eq_refl)
      as (dv & Hw & Hf & Hfile).
    rewrite Hw. change (negb true) with false. cbv iota. intros H; apply Ok_inj in H; subst s.
    unfold header_chunks in Hfile. fold hb in Hfile. rewrite concat_ld_chunks_1 in Hfile.
    unfold header_chunks. fold hb. rewrite concat_ld_chunks_1.
    assert (Hbase : data_base o = 51 + w_dpad o) by (apply data_base_v2; [exact Ev1|lia]).
    cbn [d_file] in Hfile.
    change (write_at [] 0 pragma) with pragma in Hfile.
    rewrite write_at_beyond in Hfile by (try apply ld_nonempty; rewrite blen_pragma; lia).
    repeat split; cbn [ws_closed ws_finalized ws_roots ws_opts ws_kind]; try reflexivity; try exact Hf.
    + exists (pragma ++ zerosN (data_base o - blen pragma)), []. unfold ws_file. cbn [ws_dev ws_opts].
      rewrite Hfile. cbn [sections map concat]. rewrite !app_nil_r, <- app_assoc. split; [reflexivity|].
      rewrite blen_app, blen_zerosN, blen_pragma. lia.
    + cbn [ws_pos sections map concat]. rewrite app_nil_r. lia.
Qed.

(* one accepted block: LdWrite at the writer position, then InsertNoReplace *)
Lemma put_one_inv s hb bs c d p :
  Inv s hb bs -> no_faults s -> cid_parse c = Some p ->
  should_put (ws_opts s) (ws_idx s) c p = Ok true ->
  exists s', put_one s c d p = (s', ONil) /\ Inv s' hb (bs ++ [(c, d)]) /\ no_faults s' /\
             ws_closed s' = ws_closed s /\ ws_finalized s' = ws_finalized s /\
             ws_roots s' = ws_roots s /\ ws_opts s' = ws_opts s /\
             ws_pos s' = ws_pos s + section_size c d.
Proof.
  intros [(pre & post & Hfile & Hpre) Hpos Hidx] Hnf Hp Hsp. unfold put_one. rewrite Hsp.
  destruct (write_chunks_nofault (ld_chunks [c; d]) (ws_dev s) (data_base (ws_opts s) + ws_pos s) Hnf)
    as (dv & Hw & Hf & Hfile').
  rewrite Hw. rewrite concat_ld_chunks_2 in *. rewrite blen_enc_section.
  eexists. split; [reflexivity|].
  assert (Hoff : data_base (ws_opts s) + ws_pos s = blen (pre ++ ld hb ++ sections bs))
    by (rewrite blen_app, Hpre, Hpos; reflexivity).
  unfold ws_file in Hfile. rewrite Hfile, Hoff in Hfile'.
  rewrite (app_assoc pre) in Hfile'. rewrite write_at_mid in Hfile'.
  repeat split; cbn [set_idx set_dev ws_closed ws_finalized ws_roots ws_opts ws_pos ws_dev ws_idx]; try reflexivity; try exact Hf.
  - exists pre, (drop (blen (enc_section c d)) post). unfold ws_file. cbn [set_idx set_dev ws_dev ws_opts].
    rewrite Hfile', sections_app. cbn [sections map concat fst snd]. rewrite app_nil_r, <- !app_assoc.
    split; [reflexivity|exact Hpre].
  - rewrite sections_app. cbn [sections map concat fst snd]. rewrite app_nil_r.
    rewrite Hpos, !blen_app, blen_enc_section. lia.
  - rewrite Hidx, records_from_app. cbn [records_from]. rewrite Hp. rewrite ii_load_snoc.
    rewrite Hpos, blen_app. reflexivity.
  - lia.
Qed.

(* the refused / skipped cases leave the state alone *)
Lemma put_one_unchanged s c d p r :
  should_put (ws_opts s) (ws_idx s) c p = r -> r <> Ok true ->
  put_one s c d p = (s, match r with Ok _ => ONil | Err e => OErr e end).
Proof.
  intros Hr Hne. unfold put_one. rewrite Hr. destruct r as [[|]|e]; [congruence|reflexivity|reflexivity].
Qed.

Lemma blen_le_enc w n : blen (le_enc w n) = N.of_nat w.
Proof. unfold blen. rewrite le_enc_length. reflexivity. Qed.

Lemma blen_v2hdr_chunks h : blen (concat (v2hdr_chunks h)) = 40.
Proof. unfold v2hdr_chunks. cbn [concat]. rewrite !blen_app, !blen_le_enc, blen_nil. reflexivity. Qed.

Lemma ii_flatten_some codec ii : ii_flatten codec ii = None <-> idx_new codec = None.
Proof. unfold ii_flatten. destruct (idx_new codec); split; congruence. Qed.

(* store.Finalize (CARv2): the index goes behind the payload, the header into the prefix: the payload
   window and everything the invariant speaks about is untouched *)
Lemma store_finalize_inv s hb bs :
  Inv s hb bs -> no_faults s -> w_v1 (ws_opts s) = false ->
  51 + w_dpad (ws_opts s) + w_ipad (ws_opts s) + ws_pos s < two64 ->
  exists s', store_finalize s
             = (s', match idx_new (w_codec (ws_opts s)) with Some _ => ONil | None => OErr EOther end) /\
             Inv s' hb bs /\ no_faults s' /\
             ws_closed s' = ws_closed s /\ ws_finalized s' = ws_finalized s /\
             ws_roots s' = ws_roots s /\ ws_opts s' = ws_opts s /\ ws_pos s' = ws_pos s.
Proof.
  intros HI Hnf Hv1 Hfit. unfold store_finalize, ii_flatten.
  destruct (idx_new (w_codec (ws_opts s))) as [i0|] eqn:Ec.
  2:{ exists s. repeat split; try assumption; apply HI. }
  destruct HI as [(pre & post & Hfile & Hpre) Hpos Hidx].
  set (h := set_fully_indexed (w_storeid (ws_opts s)) (with_data_size (ws_pos s) (hdr_of (ws_opts s)))).
  set (fi := idx_load (ii_flatten_records (ws_idx s)) i0).
  destruct (write_chunks_nofault (idx_chunks fi) (ws_dev s) (h_ioff h) Hnf) as (dv1 & Hw1 & Hf1 & Hfile1).
  rewrite Hw1. cbn [negb].
  destruct (write_chunks_nofault (v2hdr_chunks h) dv1 pragma_size Hf1) as (dv2 & Hw2 & Hf2 & Hfile2).
  rewrite Hw2.
  eexists. split; [reflexivity|].
  assert (Hbase : data_base (ws_opts s) = 51 + w_dpad (ws_opts s)) by (apply data_base_v2; [exact Hv1|lia]).
  assert (Hioff : h_ioff h = 51 + w_dpad (ws_opts s) + w_ipad (ws_opts s) + ws_pos s) by (apply hdr_of_ioff; exact Hfit).
  unfold ws_file in Hfile. rewrite Hfile in Hfile1. rewrite app_assoc in Hfile1.
  destruct (write_at_keeps_prefix (pre ++ ld hb ++ sections bs) post (h_ioff h) (concat (idx_chunks fi))) as (post1 & Hk).
  { rewrite blen_app, Hpre, <- Hpos, Hbase, Hioff. lia. }
  rewrite Hk in Hfile1. rewrite <- app_assoc in Hfile1.
  destruct (write_at_inside_prefix pre ((ld hb ++ sections bs) ++ post1) pragma_size (concat (v2hdr_chunks h))) as (pre2 & Hk2 & Hpre2).
  { rewrite blen_v2hdr_chunks, Hpre, Hbase. unfold pragma_size. lia. }
  rewrite Hfile1 in Hfile2. rewrite Hk2 in Hfile2.
  repeat split; cbn [set_dev ws_closed ws_finalized ws_roots ws_opts ws_pos ws_dev ws_idx]; try reflexivity; try assumption.
  exists pre2, post1. unfold ws_file. cbn [set_dev ws_dev ws_opts]. split; [exact Hfile2|]. rewrite Hpre2. exact Hpre.
Qed.
