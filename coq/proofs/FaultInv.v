(* C16, part 3: the invariant of a store session under an arbitrary fault script.
   Clean: the file is exactly  prefix ++ payload(acknowledged blocks)  -- no junk anywhere --,
          the writer stands at its end, the index is the index of those blocks.
   Dead : the store refuses every further write and Finalize (CARv2 already finalized -- with
          success or not --, or the sticky write error of a plain io.Writer). *)
From GoCar Require Import Bytes Varint Cid Header Frame V2Header Index Store Fault.
From GoCarProofs Require Import BytesFacts VarintFacts CidFacts HeaderFacts ScanFacts StoreInv FaultDev FaultWf.
From Coq Require Import Permutation.

(* ---- small facts ---------------------------------------------------------------------------------- *)
Lemma kind_of_bs kn : kind_of kn = KBlockstore <-> kn = 0.
Proof.
  unfold kind_of. destruct (kn =? 0) eqn:E0; [split; [lia|reflexivity]|].
  destruct ((kn =? 3) || (kn =? 4)); split; intros H; try discriminate; lia.
Qed.

Lemma roots_ok_not_sticky roots : roots_ok roots ->
  match roots with [[]] => true | _ => false end = false.
Proof.
  intros [Hall _]. destruct roots as [|[|b r] [|r2 t]]; try reflexivity.
  inversion Hall as [|? ? [(p & Hp & He) _] _]; subst.
  pose proof (cid_enc_nonempty p Hp) as Hl. rewrite <- He in Hl. cbn in Hl. lia.
Qed.

Lemma dev_try_truncate_ok dv n dv' : dev_try_truncate dv n = (dv', true) ->
  d_file dv' = truncate_to (d_file dv) n.
Proof.
  unfold dev_try_truncate. destruct (d_faults dv) as [|[k|] rest]; intros H; inversion H; reflexivity.
Qed.
Lemma dev_try_truncate_fail dv n dv' : dev_try_truncate dv n = (dv', false) -> d_file dv' = d_file dv.
Proof.
  unfold dev_try_truncate. destruct (d_faults dv) as [|[k|] rest]; intros H; inversion H; reflexivity.
Qed.

Lemma records_from_length st : Forall stored_ok st -> forall pos, length (records_from pos st) = length st.
Proof.
  induction 1 as [|[c d] t [(p & Hp) _] _ IH]; intros pos; [reflexivity|].
  cbn [records_from fst] in *. rewrite Hp. cbn [length]. rewrite IH. reflexivity.
Qed.
Lemma idx_of_length start st : Forall stored_ok st -> length (idx_of start st) = length st.
Proof.
  intros H. unfold idx_of. rewrite (Permutation_length (ii_load_perm _ [])). cbn [app].
  apply records_from_length. exact H.
Qed.

Lemma idx_of_snoc start st c d p : cid_parse c = Some p ->
  idx_of start (st ++ [(c, d)])
  = ii_insert (mkrec c (c_mhcode p) (c_digest p) (start + blen (sections st))) (idx_of start st).
Proof.
  intros Hp. unfold idx_of. rewrite records_from_app. cbn [records_from]. rewrite Hp. apply ii_load_snoc.
Qed.

Lemma payload_snoc nilroots roots st c d :
  payload nilroots roots (st ++ [(c, d)]) = payload nilroots roots st ++ enc_section c d.
Proof.
  unfold payload. rewrite sections_app. cbn [sections map concat fst snd]. rewrite app_nil_r, <- app_assoc. reflexivity.
Qed.
Lemma blen_payload nilroots roots st :
  blen (payload nilroots roots st) = hdr_len nilroots roots + blen (sections st).
Proof. unfold payload, hdr_len. rewrite blen_app, blen_ld. reflexivity. Qed.

Lemma spec_put_upto_0 o start bs : forall st, spec_put_upto o start st bs 0 = st.
Proof. destruct bs as [|[c d] t]; reflexivity. Qed.

Lemma hdr_of_hi_lo o : h_hi (hdr_of o) = 0 /\ h_lo (hdr_of o) = 0.
Proof.
  unfold hdr_of, new_header. destruct (0 <? w_dpad o); destruct (0 <? w_ipad o); split; reflexivity.
Qed.

Section Session.
  Variable hdrdec : bytes -> option (list bytes * N).
  Variables (kn : N) (o : wopts) (nilroots : bool) (roots : list bytes).
  Hypothesis Hfit : base_fits o.
  Hypothesis Hhdr : hdr_ok nilroots roots.

  Let k := kind_of kn.
  Let start := hdr_len nilroots roots.

  Definition pre_of : bytes := if w_v1 o then [] else pragma ++ zerosN (40 + w_dpad o).

  Lemma blen_pre_of : blen pre_of = data_base o.
  Proof.
    unfold pre_of, base_fits in *. destruct (w_v1 o) eqn:E.
    - rewrite data_base_v1 by exact E. reflexivity.
    - rewrite data_base_v2 by (try exact E; lia). rewrite blen_app, blen_zerosN, blen_pragma. lia.
  Qed.

  Record Clean (s : wstate) (st : list blk) : Prop := mkClean {
    cl_file : ws_file s = pre_of ++ payload nilroots roots st;
    cl_pos : ws_pos s = blen (payload nilroots roots st);
    cl_idx : ws_idx s = idx_of start st;
    cl_st : Forall stored_ok st;
    cl_sticky : kn <> 0 -> ws_finalized s = false;
    cl_bs : bs_sticky s = false
  }.

  Definition Dead (s : wstate) : Prop :=
    if kn =? 0 then (w_v1 o = false /\ ws_finalized s = true) \/ bs_sticky s = true
    else (w_v1 o = false /\ ws_closed s = true) \/ ws_finalized s = true.

  (* what the read operations rely on: the payload of the acknowledged blocks sits untouched at the
     data offset (whatever lies before and behind it) and the index is theirs *)
  Definition Readable (s : wstate) (st : list blk) : Prop :=
    (exists pre post, ws_file s = pre ++ payload nilroots roots st ++ post /\ blen pre = data_base o) /\
    ws_idx s = idx_of start st /\ Forall stored_ok st.
  Definition size_ok (st : list blk) : Prop :=
    51 + w_dpad o + w_ipad o + blen (payload nilroots roots st) < two63.

  Record FInv (s : wstate) (st : list blk) : Prop := mkFInv {
    fi_opts : ws_opts s = o;
    fi_kind : ws_kind s = k;
    fi_len : length (ws_idx s) = length st;
    fi_read : size_ok st -> Readable s st;
    fi_state : Dead s \/ Clean s st
  }.

  Lemma clean_readable s st : Clean s st -> Readable s st.
  Proof.
    intros HC. split; [|split; [apply (cl_idx _ _ HC)|apply (cl_st _ _ HC)]].
    exists pre_of, []. rewrite app_nil_r. split; [apply (cl_file _ _ HC)|apply blen_pre_of].
  Qed.
  Lemma readable_same s s' st : ws_file s' = ws_file s -> ws_idx s' = ws_idx s -> Readable s st -> Readable s' st.
  Proof. intros Hf Hi (H1 & H2 & H3). split; [rewrite Hf; exact H1|split; [rewrite Hi; exact H2|exact H3]]. Qed.
  Lemma readable_append s s' st w : ws_file s' = ws_file s ++ w -> ws_idx s' = ws_idx s -> Clean s st -> Readable s' st.
  Proof.
    intros Hf Hi HC. split; [|split; [rewrite Hi; apply (cl_idx _ _ HC)|apply (cl_st _ _ HC)]].
    exists pre_of, w. split; [rewrite Hf, (cl_file _ _ HC), <- app_assoc; reflexivity|apply blen_pre_of].
  Qed.

  Lemma clean_len s st : Clean s st -> length (ws_idx s) = length st.
  Proof. intros H. rewrite (cl_idx _ _ H). apply idx_of_length. apply (cl_st _ _ H). Qed.

  Lemma clean_end s st : Clean s st -> ws_opts s = o ->
    data_base (ws_opts s) + ws_pos s = blen (d_file (ws_dev s)).
  Proof.
    intros H Ho. change (d_file (ws_dev s)) with (ws_file s).
    rewrite (cl_file _ _ H), (cl_pos _ _ H), blen_app, blen_pre_of, Ho. reflexivity.
  Qed.

  (* ---- open ------------------------------------------------------------------------------------ *)
  Lemma open_new_clean k' faults s :
    open_new k' o nilroots roots faults = Ok s ->
    Clean s [] /\ ws_opts s = o /\ ws_kind s = k' /\ ws_idx s = [] /\ ws_closed s = false /\ ws_finalized s = false.
  Proof.
    unfold open_new, base_fits in *.
    destruct (match k' with KStorage false => negb (w_v1 o) | _ => false end); [discriminate|].
    set (hb := enc_header (roots_opt nilroots roots) 1).
    assert (Hchunks : header_chunks nilroots roots = put_uv (0 + blen hb) :: [hb]) by reflexivity.
    assert (Hcat : concat (header_chunks nilroots roots) = ld hb) by apply concat_header_chunks.
    destruct (w_v1 o) eqn:Ev1.
    - cbn [negb].
      destruct (write_chunks (mkdev [] [] faults) (data_base o) (header_chunks nilroots roots)) as [[dv2 abs] ok2] eqn:Ew.
      destruct ok2; cbn [negb]; [|discriminate]. intros H; apply Ok_inj in H; subst s.
      rewrite data_base_v1 in * by exact Ev1.
      destruct (write_chunks_end _ _ _ _ _ _ eq_refl Ew) as (w & Hw & Ha & Hok & _).
      destruct (Hok eq_refl) as [-> _]. cbn [d_file app] in Hw. rewrite Hcat in *.
      assert (HC : Clean (mkws dv2 [] (abs - 0) false false roots o k') []).
      { constructor; cbn [ws_pos ws_idx ws_finalized]; try reflexivity; try constructor.
        - unfold ws_file. cbn [ws_dev]. unfold pre_of. rewrite Ev1. unfold payload.
          cbn [sections map concat app]. rewrite app_nil_r. exact Hw.
        - unfold payload. cbn [sections map concat]. rewrite app_nil_r. cbn [d_file] in Ha. rewrite blen_nil in Ha. fold hb. lia.
        - unfold bs_sticky. cbn [ws_roots]. apply roots_ok_not_sticky. apply Hhdr. }
      split; [exact HC|]. repeat split; reflexivity.
    - destruct (dev_write (mkdev [] [] faults) 0 pragma) as [[d1 n1] ok1] eqn:E1.
      destruct ok1; cbn [negb]; [|discriminate].
      destruct (write_chunks d1 (data_base o) (header_chunks nilroots roots)) as [[dv2 abs] ok2] eqn:Ew.
      destruct ok2; cbn [negb]; [|discriminate]. intros H; apply Ok_inj in H; subst s.
      apply dev_write_ok in E1. destruct E1 as (Hf1 & _ & _). cbn [d_file] in Hf1.
      change (write_at [] 0 pragma) with pragma in Hf1.
      assert (Hbase : data_base o = 51 + w_dpad o) by (apply data_base_v2; [exact Ev1|lia]).
      rewrite Hchunks in Ew.
      assert (Hge : blen (d_file d1) <= data_base o) by (rewrite Hf1, blen_pragma, Hbase; lia).
      destruct (write_chunks_beyond _ _ _ _ _ _ (put_uv_nonempty _) Hge Ew)
        as (Hw & Ha & _).
      cbn [concat] in Hw, Ha. rewrite app_nil_r, N.add_0_l in Hw, Ha. change (put_uv (blen hb) ++ hb) with (ld hb) in Hw, Ha. rewrite Hf1, blen_pragma in Hw.
      assert (HC : Clean (mkws dv2 [] (abs - data_base o) false false roots o k') []).
      { constructor; cbn [ws_pos ws_idx ws_finalized]; try reflexivity; try constructor.
        - unfold ws_file. cbn [ws_dev]. unfold pre_of. rewrite Ev1. unfold payload.
          cbn [sections map concat]. rewrite app_nil_r. rewrite Hw, Hbase, <- app_assoc.
          replace (51 + w_dpad o - 11) with (40 + w_dpad o) by lia. reflexivity.
        - unfold payload. cbn [sections map concat]. rewrite app_nil_r. fold hb. lia.
        - unfold bs_sticky. cbn [ws_roots]. apply roots_ok_not_sticky. apply Hhdr. }
      split; [exact HC|]. repeat split; reflexivity.
  Qed.

  Lemma clean_set_kind s st k' : Clean s st -> Clean (set_kind s k') st.
  Proof. intros [H1 H2 H3 H4 H5 H6]. constructor; assumption. Qed.

  Lemma fopen_clean faults s :
    fopen kn o nilroots roots faults = Ok s ->
    FInv s [] /\ Clean s [] /\ ws_closed s = false /\ ws_finalized s = false.
  Proof.
    unfold fopen. destruct (kn =? 4) eqn:E4.
    - destruct (open_new (KStorage true) o nilroots roots faults) as [s1|e] eqn:Eo; [|discriminate].
      intros H; inversion H; subst s. clear H.
      destruct (open_new_clean _ _ _ Eo) as (HC & Ho & Hk & Hi & Hc & Hf).
      pose proof (clean_set_kind s1 [] (KStorage false) HC) as HC'.
      split; [|split; [exact HC'|split; [exact Hc|exact Hf]]].
      constructor; [exact Ho| |cbn [set_kind ws_idx]; rewrite Hi; reflexivity|intros _; apply clean_readable; exact HC'|right; exact HC'].
      unfold k, kind_of. replace (kn =? 0) with false by lia. rewrite E4, orb_true_r. reflexivity.
    - intros Eo. destruct (open_new_clean _ _ _ Eo) as (HC & Ho & Hk & Hi & Hc & Hf).
      split; [|split; [exact HC|split; [exact Hc|exact Hf]]].
      constructor; [exact Ho|exact Hk|rewrite Hi; reflexivity|intros _; apply clean_readable; exact HC|right; exact HC].
  Qed.

  (* ---- one block ------------------------------------------------------------------------------------ *)
  (* what put_one can do to a clean state *)
  Lemma put_one_clean s st c d p s' out :
    Clean s st -> ws_opts s = o -> ws_kind s = k ->
    cid_parse c = Some p -> blk_small (c, d) ->
    put_one s c d p = (s', out) ->
    ws_opts s' = o /\ ws_kind s' = k /\ ws_closed s' = ws_closed s /\
    ((out = ONil /\ Clean s' (spec_put o start st c d) /\ ws_finalized s' = ws_finalized s) \/
     (is_err out = true /\ ws_idx s' = ws_idx s /\
      ((Clean s' st /\ ws_file s' = ws_file s /\ ws_finalized s' = ws_finalized s) \/
       (sticky kn s' = true /\ Readable s' st)))).
  Proof.
    intros HC Ho Hk Hp Hsm. unfold put_one. rewrite Ho.
    assert (Hspec : spec_put o start st c d
                    = match should_put o (ws_idx s) c p with Ok true => st ++ [(c, d)] | _ => st end).
    { unfold spec_put. rewrite Hp, (cl_idx _ _ HC). reflexivity. }
    destruct (should_put o (ws_idx s) c p) as [[|]|e] eqn:Esp.
    2:{ intros H; inversion H; subst s' out. split; [exact Ho|]. split; [exact Hk|]. split; [reflexivity|].
        left. rewrite Hspec. split; [reflexivity|]. split; [exact HC|reflexivity]. }
    2:{ intros H; inversion H; subst s' out. split; [exact Ho|]. split; [exact Hk|]. split; [reflexivity|].
        right. split; [reflexivity|]. split; [reflexivity|]. left. split; [exact HC|]. split; reflexivity. }
    destruct (write_chunks (ws_dev s) (data_base o + ws_pos s) (ld_chunks [c; d])) as [[dv abs] ok] eqn:Ew.
    pose proof (clean_end _ _ HC Ho) as Hend. rewrite Ho in Hend.
    destruct (write_chunks_end _ _ _ _ _ _ Hend Ew) as (w & Hw & Ha & Hok & Hbad).
    change (d_file (ws_dev s)) with (ws_file s) in Hw.
    destruct ok.
    - (* the whole section got out *)
      destruct (Hok eq_refl) as [-> _]. rewrite concat_ld_chunks2 in *.
      intros H; inversion H; subst s' out. clear H.
      cbn [set_idx set_dev ws_opts ws_kind ws_closed ws_finalized ws_idx ws_dev ws_pos].
      repeat split; try assumption. left. split; [reflexivity|]. split; [|reflexivity].
      rewrite Hspec. constructor; cbn [set_idx set_dev ws_idx ws_pos ws_finalized].
      + unfold ws_file. cbn [set_idx set_dev ws_dev]. rewrite Hw, (cl_file _ _ HC), payload_snoc, <- app_assoc. reflexivity.
      + rewrite payload_snoc, blen_app, Ha, (cl_pos _ _ HC). lia.
      + rewrite (idx_of_snoc _ _ _ _ _ Hp), (cl_idx _ _ HC), (cl_pos _ _ HC), blen_payload. reflexivity.
      + apply Forall_app. split; [apply HC|]. constructor; [|constructor]. split; [exists p; exact Hp|exact Hsm].
      + apply HC.
      + apply (cl_bs _ _ HC).
    - (* a write call failed: w is the part of the section that got out *)
      destruct (abs =? data_base o + ws_pos s) eqn:Eabs.
      + (* nothing got out *)
        assert (w = []) by (destruct w; [reflexivity|rewrite blen_cons in Ha; lia]). subst w.
        rewrite app_nil_r in Hw.
        intros H; inversion H; subst s' out. clear H.
        cbn [set_dev ws_opts ws_kind ws_closed ws_finalized ws_idx].
        split; [exact Ho|]. split; [exact Hk|]. split; [reflexivity|].
        right. split; [reflexivity|]. split; [reflexivity|]. left.
        assert (Hfile : ws_file (set_dev s dv (abs - data_base o)) = ws_file s)
          by (unfold ws_file; cbn [set_dev ws_dev]; exact Hw).
        split; [|split; [exact Hfile|reflexivity]].
        constructor; cbn [set_dev ws_idx ws_pos ws_finalized].
        * rewrite Hfile. apply (cl_file _ _ HC).
        * rewrite <- (cl_pos _ _ HC). lia.
        * apply (cl_idx _ _ HC).
        * apply (cl_st _ _ HC).
        * apply (cl_sticky _ _ HC).
        * apply (cl_bs _ _ HC).
      + (* part of the section got out *)
        assert (Hseek : forall dv', dev_try_truncate dv (data_base o + ws_pos s) = (dv', true) ->
                  let s2 := set_dev s dv' (ws_pos s) in
                  Clean s2 st /\ ws_file s2 = ws_file s).
        { intros dv' Et s2.
          assert (Hfile : ws_file s2 = ws_file s).
          { unfold ws_file, s2. cbn [set_dev ws_dev]. rewrite (dev_try_truncate_ok _ _ _ Et), Hw, Hend.
            apply truncate_to_app. }
          split; [|exact Hfile].
          constructor; unfold s2; cbn [set_dev ws_idx ws_pos ws_finalized].
          - fold s2. rewrite Hfile. apply (cl_file _ _ HC).
          - apply (cl_pos _ _ HC).
          - apply (cl_idx _ _ HC).
          - apply (cl_st _ _ HC).
          - apply (cl_sticky _ _ HC).
          - apply (cl_bs _ _ HC). }
        rewrite Hk. destruct k as [|[|]] eqn:Ek.
        * (* blockstore: rewind and truncate, or the sticky write error *)
          assert (Hkn : kn = 0) by (apply kind_of_bs; exact Ek).
          destruct (dev_try_truncate dv (data_base o + ws_pos s)) as [dv' tok] eqn:Et. destruct tok.
          -- intros H; inversion H; subst s' out. clear H. destruct (Hseek dv' eq_refl) as [HC2 Hf2].
             cbn [set_dev ws_opts ws_kind ws_closed ws_finalized ws_idx].
             split; [exact Ho|]. split; [exact Hk|]. split; [reflexivity|].
             right. split; [reflexivity|]. split; [reflexivity|]. left. split; [exact HC2|]. split; [exact Hf2|reflexivity].
          -- intros H; inversion H; subst s' out. clear H.
             cbn [set_roots set_dev ws_opts ws_kind ws_closed ws_finalized ws_idx].
             split; [exact Ho|]. split; [exact Hk|]. split; [reflexivity|].
             right. split; [reflexivity|]. split; [reflexivity|]. right.
             split; [unfold sticky; rewrite Hkn; reflexivity|].
             apply (readable_append s _ st w); [|reflexivity|exact HC].
             unfold ws_file. cbn [set_roots set_dev ws_dev]. rewrite (dev_try_truncate_fail _ _ _ Et). exact Hw.
        * (* storage on a WriterAt: the same; the sticky error lives in ws_finalized *)
          assert (Hkn : kn <> 0) by (intros E; apply kind_of_bs in E; pose proof Ek as Ek'; unfold k in Ek'; congruence).
          destruct (dev_try_truncate dv (data_base o + ws_pos s)) as [dv' tok] eqn:Et. destruct tok.
          -- intros H; inversion H; subst s' out. clear H. destruct (Hseek dv' eq_refl) as [HC2 Hf2].
             cbn [set_dev ws_opts ws_kind ws_closed ws_finalized ws_idx].
             split; [exact Ho|]. split; [exact Hk|]. split; [reflexivity|].
             right. split; [reflexivity|]. split; [reflexivity|]. left. split; [exact HC2|]. split; [exact Hf2|reflexivity].
          -- intros H; inversion H; subst s' out. clear H.
             cbn [set_flags set_dev ws_opts ws_kind ws_closed ws_finalized ws_idx].
             split; [exact Ho|]. split; [exact Hk|]. split; [reflexivity|].
             right. split; [reflexivity|]. split; [reflexivity|]. right.
             split; [unfold sticky; replace (kn =? 0) with false by lia; reflexivity|].
             apply (readable_append s _ st w); [|reflexivity|exact HC].
             unfold ws_file. cbn [set_flags set_dev ws_dev]. rewrite (dev_try_truncate_fail _ _ _ Et). exact Hw.
        * (* plain io.Writer: sticky write error *)
          assert (Hkn : kn <> 0) by (intros E; apply kind_of_bs in E; pose proof Ek as Ek'; unfold k in Ek'; congruence).
          intros H; inversion H; subst s' out. clear H.
          cbn [set_flags set_dev ws_opts ws_kind ws_closed ws_finalized ws_idx].
          split; [exact Ho|]. split; [exact Hk|]. split; [reflexivity|].
          right. split; [reflexivity|]. split; [reflexivity|]. right.
          split; [unfold sticky; replace (kn =? 0) with false by lia; reflexivity|].
          apply (readable_append s _ st w); [|reflexivity|exact HC].
          unfold ws_file. cbn [set_flags set_dev ws_dev]. exact Hw.
  Qed.

  (* ---- flags ---------------------------------------------------------------------------------------- *)
  Lemma clean_set_flags s st a b : Clean s st -> (kn <> 0 -> b = false) -> Clean (set_flags s a b) st.
  Proof. intros [H1 H2 H3 H4 H5] Hb. constructor; try assumption. Qed.

  (* store.Finalize cannot touch the payload: the index goes behind it, the header into the first 51
     bytes, whatever fails *)
  Lemma store_finalize_readable s st :
    ws_file s = pre_of ++ payload nilroots roots st -> ws_pos s = blen (payload nilroots roots st) ->
    ws_idx s = idx_of start st -> Forall stored_ok st -> ws_opts s = o -> w_v1 o = false ->
    size_ok st -> forall s' out, store_finalize s = (s', out) -> Readable s' st.
  Proof.
    intros Hfile Hpos Hidx Hst Ho Hv2 Hsz s2 out. pose proof Hfit as Hfit'. unfold base_fits in Hfit'.
    unfold size_ok in Hsz. unfold store_finalize. rewrite Ho.
      set (h := set_fully_indexed (w_storeid o) (with_data_size (ws_pos s) (hdr_of o))).
      assert (Hioff : h_ioff h = 51 + w_dpad o + w_ipad o + ws_pos s) by (apply hdr_of_ioff; unfold two63, two64 in *; lia).
      assert (Hbase : data_base o = 51 + w_dpad o) by (apply data_base_v2; [exact Hv2|lia]).
      assert (Hself : Readable s st).
      { split; [|split; assumption]. exists pre_of, []. rewrite app_nil_r. split; [exact Hfile|apply blen_pre_of]. }
      destruct (ii_flatten (w_codec o) (ws_idx s)) as [fi|]; [|intros H; inversion H; subst; exact Hself].
      destruct (write_chunks (ws_dev s) (h_ioff h) (idx_chunks fi)) as [[dv1 a1] ok1] eqn:E1.
      assert (Hge : blen (pre_of ++ payload nilroots roots st) <= h_ioff h)
        by (rewrite blen_app, blen_pre_of, Hbase, Hioff, Hpos; lia).
      assert (Hf0 : d_file (ws_dev s) = (pre_of ++ payload nilroots roots st) ++ []) by (rewrite app_nil_r; exact Hfile).
      destruct (write_chunks_keeps_prefix _ _ _ _ _ _ _ _ Hf0 Hge E1) as (b1 & Hb1).
      assert (Hr1 : forall s3, ws_file s3 = d_file dv1 -> ws_idx s3 = ws_idx s -> Readable s3 st).
      { intros s3 Hf3 Hi3. split; [|split; [rewrite Hi3; exact Hidx|exact Hst]].
        exists pre_of, b1. split; [rewrite Hf3, Hb1, <- app_assoc; reflexivity|apply blen_pre_of]. }
      destruct ok1; cbn [negb]; [|intros H; inversion H; subst; apply Hr1; reflexivity].
      destruct (write_chunks dv1 pragma_size (v2hdr_chunks h)) as [[dv2 a2] ok2] eqn:E2.
      intros H; inversion H; subst s2. clear H.
      rewrite <- app_assoc in Hb1.
      assert (Hin : pragma_size + blen (concat (v2hdr_chunks h)) <= blen pre_of)
        by (rewrite blen_v2hdr_chunks, blen_pre_of, Hbase; unfold pragma_size; lia).
      destruct (write_chunks_inside_prefix _ _ _ _ _ _ _ _ Hb1 Hin E2) as (pre2 & Hp2 & Hl2).
      split; [|split; [exact Hidx|exact Hst]].
      exists pre2, b1. unfold ws_file. cbn [set_dev ws_dev]. split; [exact Hp2|rewrite Hl2; apply blen_pre_of].
  Qed.

  (* ---- store.Finalize on a clean CARv2 state ---------------------------------------------------------- *)
  Lemma store_finalize_clean s st s' out :
    ws_file s = pre_of ++ payload nilroots roots st -> ws_pos s = blen (payload nilroots roots st) ->
    ws_idx s = idx_of start st -> Forall stored_ok st -> ws_opts s = o -> w_v1 o = false ->
    store_finalize s = (s', out) ->
    ws_opts s' = o /\ ws_kind s' = ws_kind s /\ ws_idx s' = ws_idx s /\
    ws_closed s' = ws_closed s /\ ws_finalized s' = ws_finalized s /\
    (out = ONil -> 51 + w_dpad o + w_ipad o + blen (payload nilroots roots st) < two63 ->
     wf_final (ws_file s') = Some (roots, st)) /\
    (size_ok st -> Readable s' st).
  Proof.
    intros Hfile Hpos Hidx Hst Ho Hv2 Hsf.
    pose proof (fun Hs => store_finalize_readable s st Hfile Hpos Hidx Hst Ho Hv2 Hs _ _ Hsf) as Hr. revert Hsf.
    unfold store_finalize. rewrite Ho.
    set (h := set_fully_indexed (w_storeid o) (with_data_size (ws_pos s) (hdr_of o))).
    destruct (ii_flatten (w_codec o) (ws_idx s)) as [fi|] eqn:Efl.
    2:{ intros H. inversion H; subst.
        split; [exact Ho|]. do 4 (split; [reflexivity|]). split; [discriminate|exact Hr]. }
    destruct (write_chunks (ws_dev s) (h_ioff h) (idx_chunks fi)) as [[dv1 a1] ok1] eqn:E1.
    destruct ok1; cbn [negb].
    2:{ intros H. inversion H; subst.
        cbn [set_dev ws_opts ws_kind ws_idx ws_closed ws_finalized].
        split; [exact Ho|]. do 4 (split; [reflexivity|]). split; [discriminate|exact Hr]. }
    destruct (write_chunks dv1 pragma_size (v2hdr_chunks h)) as [[dv2 a2] ok2] eqn:E2.
    intros H. inversion H; subst s' out. clear H.
    cbn [set_dev ws_opts ws_kind ws_idx ws_closed ws_finalized].
    split; [exact Ho|]. do 4 (split; [reflexivity|]). split; [|exact Hr].
    destruct ok2; [|discriminate]. intros _ Hsize.
    set (P := payload nilroots roots st) in *.
    unfold base_fits in Hfit.
    assert (Hioff : h_ioff h = 51 + w_dpad o + w_ipad o + ws_pos s) by (apply hdr_of_ioff; unfold two63, two64 in *; lia).
    assert (Hbase : data_base o = 51 + w_dpad o) by (apply data_base_v2; [exact Hv2|lia]).
    assert (Hlen : blen (d_file (ws_dev s)) = 51 + w_dpad o + blen P).
    { change (d_file (ws_dev s)) with (ws_file s). rewrite Hfile, blen_app, blen_pre_of, Hbase. reflexivity. }
    (* the index, behind the payload and the index padding *)
    assert (Hic : idx_chunks fi = put_uv (idx_codec fi) :: tl (idx_chunks fi)) by reflexivity.
    assert (Hge : blen (d_file (ws_dev s)) <= h_ioff h) by lia.
    destruct (write_chunks_beyond' _ _ _ _ _ _ _ Hic (put_uv_nonempty _) Hge E1) as (Hw1 & _ & _).
    rewrite concat_idx_chunks in Hw1.
    replace (h_ioff h - blen (d_file (ws_dev s))) with (w_ipad o) in Hw1 by lia.
    change (d_file (ws_dev s)) with (ws_file s) in Hw1. rewrite Hfile in Hw1.
    (* the header, over the 40 zero bytes after the pragma *)
    assert (Hpre : pre_of = pragma ++ (zerosN 16 ++ zerosN 24) ++ zerosN (w_dpad o)).
    { unfold pre_of. rewrite Hv2, zerosN_add. reflexivity. }
    rewrite Hpre in Hw1.
    assert (Hw1' : d_file dv1 = pragma ++ (zerosN 16 ++ zerosN 24) ++ (zerosN (w_dpad o) ++ P ++ zerosN (w_ipad o) ++ idx_write fi))
      by (rewrite Hw1, <- !app_assoc; reflexivity).
    unfold pragma_size in E2. change 11 with (blen pragma) in E2. unfold v2hdr_chunks in E2.
    assert (Hx : le_enc 8 (h_hi h) ++ le_enc 8 (h_lo h) <> []).
    { intros E. apply (f_equal blen) in E. rewrite blen_app, !blen_le_enc in E. discriminate. }
    assert (Hy : le_enc 8 (h_doff h) ++ le_enc 8 (h_dsize h) ++ le_enc 8 (h_ioff h) <> []).
    { intros E. apply (f_equal blen) in E. rewrite !blen_app, !blen_le_enc in E. discriminate. }
    pose proof (write_chunks_mid2 _ _ _ _ _ _ _ _ _ Hw1' Hx Hy
                  ltac:(rewrite blen_app, !blen_le_enc, blen_zerosN; reflexivity)
                  ltac:(rewrite !blen_app, !blen_le_enc, blen_zerosN; reflexivity) E2) as Hw2.
    unfold ws_file. cbn [set_dev ws_dev].
    assert (Hfinal : d_file dv2 = pragma ++ enc_v2hdr h ++ zerosN (w_dpad o) ++ P ++ zerosN (w_ipad o) ++ idx_write fi)
      by (rewrite Hw2; unfold enc_v2hdr; rewrite <- !app_assoc; reflexivity).
    rewrite Hfinal.
    destruct (hdr_of_hi_lo o) as [Hhi0 Hlo0].
    apply (wf_final_v2 nilroots roots st h (w_dpad o) (w_ipad o) fi (w_codec o)); try assumption.
    - unfold h. cbn [set_fully_indexed with_data_size h_hi]. rewrite Hhi0. destruct (w_storeid o); [right|left]; reflexivity.
    - unfold h. cbn [set_fully_indexed with_data_size h_doff]. apply hdr_of_doff. lia.
    - fold h. rewrite Hioff, Hpos. fold P. lia.
    - fold h. rewrite Hioff, Hpos. fold P. lia.
    - fold start. rewrite <- Hidx. exact Efl.
  Qed.

  (* ---- the acknowledged list only grows ------------------------------------------------------------------ *)
  Lemma spec_put_cases st c d :
    spec_put o start st c d = st \/ spec_put o start st c d = st ++ [(c, d)].
  Proof.
    unfold spec_put. destruct (cid_parse c); [|left; reflexivity].
    destruct (should_put o (idx_of start st) c c0) as [[|]|]; auto.
  Qed.
  Lemma spec_put_len st c d :
    (length st <= length (spec_put o start st c d) <= S (length st))%nat.
  Proof.
    destruct (spec_put_cases st c d) as [-> | ->]; [lia|]. rewrite app_length. cbn [length]. lia.
  Qed.
  Lemma spec_put_upto_len bs : forall st n, (length st <= length (spec_put_upto o start st bs n))%nat.
  Proof.
    induction bs as [|[c d] t IH]; intros st n; cbn [spec_put_upto]; [lia|].
    destruct (n =? 0); [lia|]. pose proof (spec_put_len st c d).
    specialize (IH (spec_put o start st c d) (n - (N.of_nat (length (spec_put o start st c d)) - N.of_nat (length st)))).
    lia.
  Qed.

  (* ---- PutMany's loop on a clean blockstore state ------------------------------------------------------------ *)
  Lemma loop_clean : forall blks s st s' out,
    kn = 0 -> Clean s st -> ws_opts s = o -> ws_kind s = k -> Forall blk_small blks ->
    put_many_loop s blks = (s', out) ->
    ws_opts s' = o /\ ws_kind s' = k /\ ws_closed s' = ws_closed s /\ ws_finalized s' = ws_finalized s /\
    exists st', length (ws_idx s') = length st' /\ (Clean s' st' \/ (sticky kn s' = true /\ Readable s' st')) /\
      ((out = ONil /\ st' = spec_put_all o start st blks) \/
       (is_err out = true /\
        st' = spec_put_upto o start st blks (N.of_nat (length st') - N.of_nat (length st)))).
  Proof.
    induction blks as [|[c d] t IH]; intros s st s' out Hkn HC Ho Hk Hsm H; cbn [put_many_loop] in H.
    - inversion H; subst. repeat split; try assumption; try reflexivity. exists st.
      split; [apply clean_len; exact HC|]. split; [left; exact HC|]. left. split; reflexivity.
    - inversion Hsm as [|? ? Hsm1 Hsm2]; subst.
      destruct (cid_parse c) as [p|] eqn:Hp.
      2:{ inversion H; subst. repeat split; try assumption; try reflexivity. exists st.
          split; [apply clean_len; exact HC|]. split; [left; exact HC|].
          right. split; [reflexivity|]. rewrite N.sub_diag. symmetry. apply spec_put_upto_0. }
      destruct (put_one s c d p) as [s1 r1] eqn:Ep.
      destruct (put_one_clean s st c d p s1 r1 HC Ho Hk Hp Hsm1 Ep) as (Ho1 & Hk1 & Hc1 & Hcase).
      destruct Hcase as [(-> & HC1 & Hf1) | (Herr & Hidx & Hrest)].
      + (* stored or skipped: go on *)
        destruct (IH s1 _ s' out Hkn HC1 Ho1 Hk1 Hsm2 H) as (Ho' & Hk' & Hc' & Hf' & st' & Hlen' & HC' & Hres).
        split; [exact Ho'|]. split; [exact Hk'|]. split; [congruence|]. split; [congruence|].
        exists st'. split; [exact Hlen'|]. split; [exact HC'|].
        destruct Hres as [(-> & ->) | (He & Hst')]; [left; split; reflexivity|].
        right. split; [exact He|].
        set (st1 := spec_put o start st c d) in *.
        pose proof (spec_put_len st c d) as Hl1. fold st1 in Hl1.
        pose proof (spec_put_upto_len t st1 (N.of_nat (length st') - N.of_nat (length st1))) as Hl2.
        rewrite <- Hst' in Hl2.
        cbn [spec_put_upto]. fold st1.
        destruct (N.of_nat (length st') - N.of_nat (length st) =? 0) eqn:EK.
        * (* nothing was added at all: the first block was a skip too *)
          assert (Hlen : length st1 = length st) by lia.
          assert (Hst1 : st1 = st).
          { destruct (spec_put_cases st c d) as [E|E]; [exact E|]. fold st1 in E. rewrite E, app_length in Hlen. cbn [length] in Hlen. lia. }
          rewrite Hst'. replace (N.of_nat (length st') - N.of_nat (length st1)) with 0 by lia.
          rewrite spec_put_upto_0. exact Hst1.
        * replace (N.of_nat (length st') - N.of_nat (length st) - (N.of_nat (length st1) - N.of_nat (length st)))
            with (N.of_nat (length st') - N.of_nat (length st1)) by lia.
          exact Hst'.
      + (* refused or failed: the loop stops here *)
        destruct r1; try discriminate. inversion H; subst s' out. clear H.
        assert (Hfin1 : ws_finalized s1 = ws_finalized s).
        { destruct Hrest as [(_ & _ & Hf1) | Hst]; [exact Hf1|].
          (* the blockstore's sticky error does not touch the finalized flag *)
          revert Ep. unfold put_one. rewrite Ho.
          destruct (should_put o (ws_idx s) c p) as [[|]|e0]; try (intros E; inversion E; reflexivity).
          destruct (write_chunks _ _ _) as [[dv abs] ok]. destruct ok; [intros E; inversion E; reflexivity|].
          destruct (abs =? _); [intros E; inversion E; reflexivity|].
          rewrite Hk. replace k with KBlockstore by (symmetry; apply kind_of_bs; exact Hkn).
          destruct (dev_try_truncate _ _) as [dv' [|]]; intros E; inversion E; reflexivity. }
        split; [exact Ho1|]. split; [exact Hk1|]. split; [exact Hc1|]. split; [exact Hfin1|].
        exists st. split; [rewrite Hidx; apply clean_len; exact HC|].
        split; [destruct Hrest as [(HC1 & _) | Hst]; [left; exact HC1|right; exact Hst]|].
        right. split; [reflexivity|]. rewrite N.sub_diag. symmetry. apply spec_put_upto_0.
  Qed.

  (* ---- one operation -------------------------------------------------------------------------------------- *)
  Definition fin_claim (op : fop) (s' : wstate) (out : out) (st' : list blk) : Prop :=
    is_finalize op = true -> out = ONil ->
    51 + w_dpad o + w_ipad o + blen (payload nilroots roots st') < two63 ->
    wf_final (ws_file s') = Some (roots, st').

  Lemma finv_of_clean s st : ws_opts s = o -> ws_kind s = k -> Clean s st -> FInv s st.
  Proof. intros Ho Hk HC. constructor; try assumption; [apply clean_len; exact HC|intros _; apply clean_readable; exact HC|right; exact HC]. Qed.

  Lemma finv_of_sticky s st : ws_opts s = o -> ws_kind s = k -> length (ws_idx s) = length st ->
    sticky kn s = true /\ Readable s st -> FInv s st.
  Proof.
    intros Ho Hk Hl [Hs Hr]. constructor; try assumption; [intros _; exact Hr|]. left. unfold Dead, sticky in *.
    destruct (kn =? 0); right; exact Hs.
  Qed.

  Lemma store_finalize_out s s' out : store_finalize s = (s', out) -> out = ONil \/ is_err out = true.
  Proof.
    unfold store_finalize. destruct (ii_flatten _ _); [|intros H; inversion H; right; reflexivity].
    destruct (write_chunks _ _ _) as [[dv1 a1] ok1]. destruct ok1; cbn [negb]; [|intros H; inversion H; right; reflexivity].
    destruct (write_chunks _ _ _) as [[dv2 a2] ok2]. intros H; inversion H. destruct ok2; [left|right]; reflexivity.
  Qed.

  Lemma clean_wf_v1 s st : Clean s st -> w_v1 o = true -> wf_final (ws_file s) = Some (roots, st).
  Proof.
    intros HC Hv1. rewrite (cl_file _ _ HC). unfold pre_of. rewrite Hv1. cbn [app].
    apply wf_final_v1; [exact Hhdr|apply (cl_st _ _ HC)].
  Qed.

  (* failed PutMany that changed nothing: the replay stays where it was *)
  Lemma ack_many_same s st bs e : length (ws_idx s) = length st ->
    ack_step o start st (N.of_nat (length st)) (FPutMany bs) (obs_of (s, OErr e)) = st.
  Proof.
    intros Hl. unfold ack_step, obs_of. cbn [fst snd is_nil]. rewrite Hl, N.sub_diag. apply spec_put_upto_0.
  Qed.

  Section Blockstore.
    Hypothesis Hkn : kn = 0.

    Lemma dead_bs s : Dead s <-> (w_v1 o = false /\ ws_finalized s = true) \/ bs_sticky s = true.
    Proof. unfold Dead. rewrite Hkn. reflexivity. Qed.

    Lemma finv_flags_bs s st a b : FInv s st -> (ws_finalized s = true -> b = true) -> FInv (set_flags s a b) st.
    Proof.
      intros [Ho Hk Hl Hr Hs] Hb. constructor; try assumption. destruct Hs as [Hd|HC].
      - left. apply dead_bs in Hd. apply dead_bs. cbn [set_flags ws_finalized].
        destruct Hd as [[Hv Hf]|Hd]; [left; split; [exact Hv|apply Hb; exact Hf]|right; exact Hd].
      - right. apply clean_set_flags; [exact HC|]. intros Hne. congruence.
    Qed.

    Lemma clean_of_finv_bs s st : FInv s st -> ws_finalized s = false -> bs_sticky s = false -> Clean s st.
    Proof.
      intros [_ _ _ _ [Hd|HC]] Hf Hs; [|exact HC]. apply dead_bs in Hd. destruct Hd as [[_ Hd]|Hd]; congruence.
    Qed.

    Lemma put_bs s st c d s' out : FInv s st -> blk_small (c, d) ->
      fbs_put_many s [(c, d)] = (s', out) ->
      FInv s' (if is_nil out then spec_put o start st c d else st).
    Proof.
      intros HI Hsm. unfold fbs_put_many, bs_put_many.
      destruct (ws_closed s); [intros H; inversion H; subst; exact HI|].
      destruct (ws_finalized s) eqn:Ef; [intros H; inversion H; subst; exact HI|]. cbn [orb].
      destruct (bs_sticky s) eqn:Es; [intros H; inversion H; subst; exact HI|].
      pose proof (clean_of_finv_bs _ _ HI Ef Es) as HC. cbn [put_many_loop].
      destruct (cid_parse c) as [p|] eqn:Hp; [|intros H; inversion H; subst; exact HI].
      destruct (put_one s c d p) as [s1 r1] eqn:Ep.
      destruct (put_one_clean s st c d p s1 r1 HC (fi_opts _ _ HI) (fi_kind _ _ HI) Hp Hsm Ep) as (Ho1 & Hk1 & _ & Hcase).
      destruct Hcase as [(-> & HC1 & _) | (Herr & Hidx & Hrest)].
      - intros H; inversion H; subst. cbn [is_nil]. apply finv_of_clean; assumption.
      - destruct r1; try discriminate. intros H; inversion H; subst. cbn [is_nil].
        destruct Hrest as [(HC1 & _) | Hst]; [apply finv_of_clean; assumption|].
        apply finv_of_sticky; try assumption. rewrite Hidx. apply HI.
    Qed.

    Lemma put_many_bs s st bs s' out : FInv s st -> Forall blk_small bs ->
      fbs_put_many s bs = (s', out) ->
      FInv s' (ack_step o start st (N.of_nat (length st)) (FPutMany bs) (obs_of (s', out))).
    Proof.
      intros HI Hsm. unfold fbs_put_many, bs_put_many.
      destruct (ws_closed s); [intros H; inversion H; subst; rewrite ack_many_same by apply HI; exact HI|].
      destruct (ws_finalized s) eqn:Ef; [intros H; inversion H; subst; rewrite ack_many_same by apply HI; exact HI|].
      cbn [orb].
      destruct (bs_sticky s) eqn:Es; [intros H; inversion H; subst; rewrite ack_many_same by apply HI; exact HI|].
      pose proof (clean_of_finv_bs _ _ HI Ef Es) as HC. intros H.
      destruct (loop_clean bs s st s' out Hkn HC (fi_opts _ _ HI) (fi_kind _ _ HI) Hsm H)
        as (Ho' & Hk' & _ & _ & st' & Hlen' & HC' & Hres).
      assert (HI' : FInv s' st').
      { destruct HC' as [HC'|Hst]; [apply finv_of_clean; assumption|apply finv_of_sticky; assumption]. }
      unfold ack_step, obs_of. cbn [fst snd].
      destruct Hres as [(-> & ->) | (He & Hst')].
      - cbn [is_nil]. exact HI'.
      - destruct out; try discriminate. cbn [is_nil]. rewrite Hlen', <- Hst'. exact HI'.
    Qed.

    Lemma finalize_ro_bs s st s1 r1 : FInv s st -> fbs_finalize_ro s = (s1, r1) ->
      FInv s1 st /\ (r1 = ONil \/ is_err r1 = true) /\
      (r1 = ONil -> 51 + w_dpad o + w_ipad o + blen (payload nilroots roots st) < two63 ->
       wf_final (ws_file s1) = Some (roots, st)).
    Proof.
      intros HI. unfold fbs_finalize_ro.
      destruct (bs_sticky s) eqn:Es; [intros H; inversion H; subst; split; [exact HI|split; [right; reflexivity|discriminate]]|].
      unfold bs_finalize_ro. rewrite (fi_opts _ _ HI).
      destruct (w_v1 o) eqn:Ev1.
      - intros H; inversion H; subst. split; [apply finv_flags_bs; [exact HI|reflexivity]|]. split; [left; reflexivity|].
        intros _ _. destruct (fi_state _ _ HI) as [Hd|HC]; [apply dead_bs in Hd; destruct Hd as [[Hd _]|Hd]; congruence|].
        change (ws_file (set_flags s (ws_closed s) true)) with (ws_file s). apply clean_wf_v1; assumption.
      - destruct (ws_closed s); [intros H; inversion H; subst; split; [exact HI|split; [right; reflexivity|discriminate]]|].
        destruct (ws_finalized s) eqn:Ef; [intros H; inversion H; subst; split; [exact HI|split; [right; reflexivity|discriminate]]|].
        pose proof (clean_of_finv_bs _ _ HI Ef Es) as HC. intros H.
        destruct (store_finalize_clean (set_flags s false true) st s1 r1 (cl_file _ _ HC) (cl_pos _ _ HC) (cl_idx _ _ HC)
                    (cl_st _ _ HC) (fi_opts _ _ HI) Ev1 H) as (Ho1 & Hk1 & Hi1 & Hc1 & Hf1 & Hwf & Hrd).
        cbn [set_flags ws_kind ws_idx ws_closed ws_finalized] in *.
        split; [|split; [exact (store_finalize_out _ _ _ H)|exact Hwf]].
        constructor; [exact Ho1|rewrite Hk1; apply HI|rewrite Hi1; apply HI|exact Hrd|].
        left. apply dead_bs. left. split; [exact Ev1|exact Hf1].
    Qed.

    Lemma close_bs s st s2 r2 : FInv s st -> bs_close s = (s2, r2) -> FInv s2 st /\ ws_file s2 = ws_file s.
    Proof.
      intros HI. unfold bs_close.
      destruct (negb (w_v1 (ws_opts s)) && negb (ws_finalized s)); [intros H; inversion H; subst; split; [exact HI|reflexivity]|].
      destruct (ws_closed s); intros H; inversion H; subst; (split; [|reflexivity]); [exact HI|].
      apply finv_flags_bs; [exact HI|trivial].
    Qed.

    Lemma step_bs s st op s' out : FInv s st -> Forall blk_small (op_blocks op) ->
      fstep hdrdec kn s op = (s', out) ->
      let st' := ack_step o start st (N.of_nat (length st)) op (obs_of (s', out)) in
      FInv s' st' /\ fin_claim op s' out st'.
    Proof.
      intros HI Hsm. unfold fstep. rewrite Hkn. cbn [N.eqb].
      destruct op; cbn [op_blocks] in Hsm; intros H; cbn zeta;
        try (inversion H; subst; split; [exact HI|intros Hf; discriminate]).
      - (* Put *)
        inversion Hsm as [|? ? Hsm1 _]; subst.
        split; [|intros Hf; discriminate]. unfold ack_step, obs_of. cbn [fst]. exact (put_bs _ _ _ _ _ _ HI Hsm1 H).
      - (* PutMany *)
        split; [|intros Hf; discriminate]. exact (put_many_bs _ _ _ _ _ HI Hsm H).
      - (* Finalize = FinalizeReadOnly; Close *)
        unfold fbs_finalize in H. destruct (fbs_finalize_ro s) as [s1 r1] eqn:E1. destruct (bs_close s1) as [s2 r2] eqn:E2.
        inversion H; subst s' out. clear H.
        destruct (finalize_ro_bs _ _ _ _ HI E1) as (HI1 & Hr1 & Hwf). destruct (close_bs _ _ _ _ HI1 E2) as (HI2 & Hfile).
        cbn [ack_step]. split; [exact HI2|]. intros _ Hout Hb. rewrite Hfile. apply Hwf; [|exact Hb].
        destruct r1; try reflexivity; destruct Hr1 as [Hr1|Hr1]; try discriminate.
      - (* FinalizeReadOnly *)
        destruct (finalize_ro_bs _ _ _ _ HI H) as (HI1 & _ & Hwf). cbn [ack_step]. split; [exact HI1|].
        intros _ Hout Hb. apply Hwf; assumption.
      - (* Close *)
        destruct (close_bs _ _ _ _ HI H) as (HI2 & _). cbn [ack_step]. split; [exact HI2|intros Hf; discriminate].
      - (* Discard *)
        unfold bs_discard in H. inversion H; subst. cbn [ack_step]. split; [|intros Hf; discriminate].
        apply finv_flags_bs; [exact HI|trivial].
    Qed.
  End Blockstore.

  Section Storage.
    Hypothesis Hkn : kn <> 0.

    Lemma dead_st s : Dead s <-> (w_v1 o = false /\ ws_closed s = true) \/ ws_finalized s = true.
    Proof. unfold Dead. replace (kn =? 0) with false by lia. reflexivity. Qed.

    Lemma clean_of_finv_st s st : FInv s st -> ws_closed s = false -> ws_finalized s = false -> Clean s st.
    Proof.
      intros [_ _ _ _ [Hd|HC]] Hc Hf; [|exact HC]. apply dead_st in Hd. destruct Hd as [[_ Hd]|Hd]; congruence.
    Qed.

    Lemma put_st s st c d s' out : FInv s st -> blk_small (c, d) ->
      st_put s c d = (s', out) ->
      FInv s' (if is_nil out then spec_put o start st c d else st).
    Proof.
      intros HI Hsm. unfold st_put.
      destruct (cid_parse c) as [p|] eqn:Hp; [|intros H; inversion H; subst; exact HI].
      destruct (ws_closed s) eqn:Ec; [intros H; inversion H; subst; exact HI|].
      destruct (ws_finalized s) eqn:Ef; [intros H; inversion H; subst; exact HI|].
      pose proof (clean_of_finv_st _ _ HI Ec Ef) as HC. intros Ep.
      destruct (put_one_clean s st c d p s' out HC (fi_opts _ _ HI) (fi_kind _ _ HI) Hp Hsm Ep) as (Ho1 & Hk1 & _ & Hcase).
      destruct Hcase as [(-> & HC1 & _) | (Herr & Hidx & Hrest)].
      - cbn [is_nil]. apply finv_of_clean; assumption.
      - destruct out; try discriminate. cbn [is_nil].
        destruct Hrest as [(HC1 & _) | Hst]; [apply finv_of_clean; assumption|].
        apply finv_of_sticky; try assumption. rewrite Hidx. apply HI.
    Qed.

    Lemma finalize_st s st s1 r1 : FInv s st -> st_finalize s = (s1, r1) ->
      FInv s1 st /\
      (r1 = ONil -> 51 + w_dpad o + w_ipad o + blen (payload nilroots roots st) < two63 ->
       wf_final (ws_file s1) = Some (roots, st)).
    Proof.
      intros HI. unfold st_finalize. rewrite (fi_opts _ _ HI).
      destruct (ws_finalized s) eqn:Ef.
      { intros H; inversion H; subst. split; [|discriminate].
        constructor; [apply HI|apply HI|apply HI|intros Hs; exact (readable_same s _ st eq_refl eq_refl (fi_read _ _ HI Hs))|].
        left. apply dead_st. right. reflexivity. }
      destruct (ws_closed s) eqn:Ec; [intros H; inversion H; subst; split; [exact HI|discriminate]|].
      pose proof (clean_of_finv_st _ _ HI Ec Ef) as HC.
      destruct (w_v1 o) eqn:Ev1.
      - intros H; inversion H; subst.
        assert (HC1 : Clean (set_flags s true false) st) by (apply clean_set_flags; [exact HC|reflexivity]).
        split; [apply finv_of_clean; [apply HI|apply HI|exact HC1]|].
        intros _ _. apply clean_wf_v1; assumption.
      - intros H.
        destruct (store_finalize_clean (set_flags s true false) st s1 r1 (cl_file _ _ HC) (cl_pos _ _ HC) (cl_idx _ _ HC)
                    (cl_st _ _ HC) (fi_opts _ _ HI) Ev1 H) as (Ho1 & Hk1 & Hi1 & Hc1 & Hf1 & Hwf & Hrd).
        cbn [set_flags ws_kind ws_idx ws_closed ws_finalized] in *.
        split; [|exact Hwf].
        constructor; [exact Ho1|rewrite Hk1; apply HI|rewrite Hi1; apply HI|exact Hrd|].
        left. apply dead_st. left. split; [exact Ev1|exact Hc1].
    Qed.

    Lemma step_st s st op s' out : FInv s st -> op_okb kn op = true -> Forall blk_small (op_blocks op) ->
      fstep hdrdec kn s op = (s', out) ->
      let st' := ack_step o start st (N.of_nat (length st)) op (obs_of (s', out)) in
      FInv s' st' /\ fin_claim op s' out st'.
    Proof.
      intros HI Hok Hsm. unfold op_okb in Hok. replace (kn =? 0) with false in Hok by lia. cbn [orb] in Hok.
      unfold fstep. replace (kn =? 0) with false by lia.
      destruct op; try discriminate; cbn [op_blocks] in Hsm; intros H; cbn zeta;
        try (inversion H; subst; split; [exact HI|intros Hf; discriminate]).
      - inversion Hsm as [|? ? Hsm1 _]; subst.
        split; [|intros Hf; discriminate]. unfold ack_step, obs_of. cbn [fst]. exact (put_st _ _ _ _ _ _ HI Hsm1 H).
      - destruct (finalize_st _ _ _ _ HI H) as (HI1 & Hwf). cbn [ack_step]. split; [exact HI1|].
        intros _ Hout Hb. apply Hwf; assumption.
    Qed.
  End Storage.

  (* ---- any front-end --------------------------------------------------------------------------------------- *)
  Lemma step_inv s st op s' out : FInv s st -> op_okb kn op = true -> Forall blk_small (op_blocks op) ->
    fstep hdrdec kn s op = (s', out) ->
    let st' := ack_step o start st (N.of_nat (length st)) op (obs_of (s', out)) in
    FInv s' st' /\ fin_claim op s' out st'.
  Proof.
    intros HI Hok Hsm H. destruct (N.eq_dec kn 0) as [E|E].
    - exact (step_bs E s st op s' out HI Hsm H).
    - exact (step_st E s st op s' out HI Hok Hsm H).
  Qed.

  (* ---- a whole session -------------------------------------------------------------------------------------- *)
  Lemma run_inv : forall ops s st sn tr,
    FInv s st -> forallb (op_okb kn) ops = true -> ops_small ops ->
    frun hdrdec kn s ops = (sn, tr) ->
    FInv sn (acked_from o start st ops (map obs_of tr)).
  Proof.
    induction ops as [|op t IH]; intros s st sn tr HI Hok Hsm H; cbn [frun] in H.
    - inversion H; subst. exact HI.
    - destruct (fstep hdrdec kn s op) as [s1 o1] eqn:E1. destruct (frun hdrdec kn s1 t) as [s2 tr2] eqn:E2.
      inversion H; subst sn tr. clear H. cbn [forallb] in Hok. apply andb_true_iff in Hok. destruct Hok as [Hok1 Hok2].
      inversion Hsm as [|? ? Hsm1 Hsm2]; subst.
      destruct (step_inv _ _ _ _ _ HI Hok1 Hsm1 E1) as [HI1 _].
      cbn [map acked_from]. apply (IH _ _ _ _ HI1 Hok2 Hsm2 E2).
  Qed.

  Lemma frun_app : forall a b s,
    frun hdrdec kn s (a ++ b)
    = let '(s1, t1) := frun hdrdec kn s a in let '(s2, t2) := frun hdrdec kn s1 b in (s2, t1 ++ t2).
  Proof.
    induction a as [|op a IH]; intros b s; cbn [app frun].
    - destruct (frun hdrdec kn s b). reflexivity.
    - destruct (fstep hdrdec kn s op) as [s1 o1]. rewrite IH.
      destruct (frun hdrdec kn s1 a) as [s2 t2]. destruct (frun hdrdec kn s2 b) as [s3 t3]. reflexivity.
  Qed.

  Lemma acked_from_app : forall a b st (ta tb : list fobs), length a = length ta ->
    acked_from o start st (a ++ b) (ta ++ tb) = acked_from o start (acked_from o start st a ta) b tb.
  Proof.
    induction a as [|op a IH]; intros b st ta tb Hl; destruct ta as [|x ta]; try discriminate; cbn [app acked_from]; [reflexivity|].
    apply IH. cbn [length] in Hl. lia.
  Qed.

  Lemma frun_length : forall ops s sn tr, frun hdrdec kn s ops = (sn, tr) -> length tr = length ops.
  Proof.
    induction ops as [|op t IH]; intros s sn tr H; cbn [frun] in H; [inversion H; reflexivity|].
    destruct (fstep hdrdec kn s op) as [s1 o1]. destruct (frun hdrdec kn s1 t) as [s2 tr2] eqn:E2.
    inversion H; subst. cbn [length]. f_equal. apply (IH _ _ _ E2).
  Qed.

  (* ---- a Put that returns an error changed nothing (or made the stream store refuse everything) ------------- *)
  Lemma put_err_unchanged s st c d s' out : FInv s st -> blk_small (c, d) ->
    fstep hdrdec kn s (FPut c d) = (s', out) -> is_err out = true ->
    ws_idx s' = ws_idx s /\ (ws_file s' = ws_file s \/ sticky kn s' = true).
  Proof.
    intros HI Hsm. unfold fstep. destruct (kn =? 0) eqn:Ekn.
    - assert (Hkn : kn = 0) by lia. unfold fbs_put_many, bs_put_many.
      destruct (ws_closed s); [intros H; inversion H; subst; split; [reflexivity|left; reflexivity]|].
      destruct (ws_finalized s) eqn:Ef; [intros H; inversion H; subst; split; [reflexivity|left; reflexivity]|].
      cbn [orb]. destruct (bs_sticky s) eqn:Es; [intros H; inversion H; subst; split; [reflexivity|left; reflexivity]|].
      pose proof (clean_of_finv_bs Hkn _ _ HI Ef Es) as HC. cbn [put_many_loop].
      destruct (cid_parse c) as [p|] eqn:Hp; [|intros H; inversion H; subst; split; [reflexivity|left; reflexivity]].
      destruct (put_one s c d p) as [s1 r1] eqn:Ep.
      destruct (put_one_clean s st c d p s1 r1 HC (fi_opts _ _ HI) (fi_kind _ _ HI) Hp Hsm Ep) as (_ & _ & _ & Hcase).
      destruct Hcase as [(-> & _) | (Herr & Hidx & Hrest)].
      + intros H; inversion H; subst. discriminate.
      + destruct r1; try discriminate. intros H; inversion H; subst. intros _. split; [exact Hidx|].
        destruct Hrest as [(_ & Hf & _) | [Hs _]]; [left; exact Hf|right; exact Hs].
    - assert (Hkn : kn <> 0) by lia. unfold st_put.
      destruct (cid_parse c) as [p|] eqn:Hp; [|intros H; inversion H; subst; split; [reflexivity|left; reflexivity]].
      destruct (ws_closed s) eqn:Ec; [intros H; inversion H; subst; split; [reflexivity|left; reflexivity]|].
      destruct (ws_finalized s) eqn:Ef; [intros H; inversion H; subst; split; [reflexivity|left; reflexivity]|].
      pose proof (clean_of_finv_st Hkn _ _ HI Ec Ef) as HC. intros Ep He.
      destruct (put_one_clean s st c d p s' out HC (fi_opts _ _ HI) (fi_kind _ _ HI) Hp Hsm Ep) as (_ & _ & _ & Hcase).
      destruct Hcase as [(-> & _) | (Herr & Hidx & Hrest)]; [discriminate|].
      split; [exact Hidx|]. destruct Hrest as [(_ & Hf & _) | [Hs _]]; [left; exact Hf|right; exact Hs].
  Qed.

  (* in CARv1 mode the file is a complete archive of the acknowledged blocks at every moment *)
  Lemma finv_v1_wf s st : FInv s st -> w_v1 o = true -> sticky kn s = false ->
    wf_final (ws_file s) = Some (roots, st).
  Proof.
    intros HI Hv1 Hns. destruct (fi_state _ _ HI) as [Hd|HC]; [|apply clean_wf_v1; assumption].
    exfalso. unfold Dead, sticky in *. destruct (kn =? 0) eqn:E.
    - destruct Hd as [[Hd _]|Hd]; congruence.
    - destruct Hd as [[Hd _]|Hd]; congruence.
  Qed.
End Session.
