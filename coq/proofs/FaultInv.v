(* C16, part 3: the invariant of a store session under an arbitrary fault script.
   Clean: the file is exactly  prefix ++ payload(acknowledged blocks)  -- no junk anywhere --,
          the writer stands at its end, the index is the index of those blocks.
   Dead : the store refuses every further write and Finalize (CARv2 already finalized -- with
          success or not --, or the sticky write error of a plain io.Writer). *)
From GoCar Require Import Bytes Varint Cid Header Frame V2Header Index Store Fault.
From GoCarProofs Require Import BytesFacts VarintFacts CidFacts HeaderFacts ScanFacts StoreInv FaultDev FaultWf.
From Coq Require Import Permutation.

(* ---- small facts ---------------------------------------------------------------------------------- *)
Lemma kind_of_0 kn : kn = 0 -> kind_of kn = KBlockstore.
Proof. intros ->. reflexivity. Qed.
Lemma kind_of_stream kn : kind_of kn = KStorage false <-> kn = 3.
Proof.
  unfold kind_of. destruct (kn =? 0) eqn:E0; [split; [discriminate|lia]|].
  destruct (kn =? 3) eqn:E3; split; intros H; try reflexivity; try lia; try discriminate.
Qed.
Lemma kind_of_not_bs kn : kn <> 0 -> kind_of kn <> KBlockstore.
Proof. intros H. unfold kind_of. replace (kn =? 0) with false by lia. destruct (kn =? 3); discriminate. Qed.

Lemma records_from_length st : Forall stored_ok st -> forall pos, length (records_from pos st) = length st.
Proof.
  induction 1 as [|[c d] t [(p & Hp) _] _ IH]; intros pos; [reflexivity|].
  cbn [records_from fst] in *. rewrite Hp. cbn [length]. rewrite IH. reflexivity.
Qed.
Lemma idx_of_length start st : Forall stored_ok st -> length (idx_of start st) = length st.
Proof.
  intros H. unfold idx_of. rewrite (Permutation_length (ii_load_perm _ [])). cbn [app].
  apply records_from_length. exact H.
Qed.

Lemma idx_of_snoc start st c d p : cid_parse c = Some p ->
  idx_of start (st ++ [(c, d)])
  = ii_insert (mkrec c (c_mhcode p) (c_digest p) (start + blen (sections st))) (idx_of start st).
Proof.
  intros Hp. unfold idx_of. rewrite records_from_app. cbn [records_from]. rewrite Hp. apply ii_load_snoc.
Qed.

Lemma payload_snoc nilroots roots st c d :
  payload nilroots roots (st ++ [(c, d)]) = payload nilroots roots st ++ enc_section c d.
Proof.
  unfold payload. rewrite sections_app. cbn [sections map concat fst snd]. rewrite app_nil_r, <- app_assoc. reflexivity.
Qed.
Lemma blen_payload nilroots roots st :
  blen (payload nilroots roots st) = hdr_len nilroots roots + blen (sections st).
Proof. unfold payload, hdr_len. rewrite blen_app, blen_ld. reflexivity. Qed.

Lemma spec_put_upto_0 o start bs : forall st, spec_put_upto o start st bs 0 = st.
Proof. destruct bs as [|[c d] t]; reflexivity. Qed.

Lemma hdr_of_hi_lo o : h_hi (hdr_of o) = 0 /\ h_lo (hdr_of o) = 0.
Proof.
  unfold hdr_of, new_header. destruct (0 <? w_dpad o); destruct (0 <? w_ipad o); split; reflexivity.
Qed.

Section Session.
  Variable hdrdec : bytes -> option (list bytes * N).
  Variables (kn : N) (o : wopts) (nilroots : bool) (roots : list bytes).
  Hypothesis Hfit : base_fits o.
  Hypothesis Hhdr : hdr_ok nilroots roots.

  Let k := kind_of kn.
  Let start := hdr_len nilroots roots.

  Definition pre_of : bytes := if w_v1 o then [] else pragma ++ zerosN (40 + w_dpad o).

  Lemma blen_pre_of : blen pre_of = data_base o.
  Proof.
    unfold pre_of, base_fits in *. destruct (w_v1 o) eqn:E.
    - rewrite data_base_v1 by exact E. reflexivity.
    - rewrite data_base_v2 by (try exact E; lia). rewrite blen_app, blen_zerosN, blen_pragma. lia.
  Qed.

  Record Clean (s : wstate) (st : list blk) : Prop := mkClean {
    cl_file : ws_file s = pre_of ++ payload nilroots roots st;
    cl_pos : ws_pos s = blen (payload nilroots roots st);
    cl_idx : ws_idx s = idx_of start st;
    cl_st : Forall stored_ok st;
    cl_sticky : kn <> 0 -> ws_finalized s = false
  }.

  Definition Dead (s : wstate) : Prop :=
    if kn =? 0 then w_v1 o = false /\ ws_finalized s = true
    else (w_v1 o = false /\ ws_closed s = true) \/ ws_finalized s = true.

  Record FInv (s : wstate) (st : list blk) : Prop := mkFInv {
    fi_opts : ws_opts s = o;
    fi_kind : ws_kind s = k;
    fi_len : length (ws_idx s) = length st;
    fi_state : Dead s \/ Clean s st
  }.

  Lemma clean_len s st : Clean s st -> length (ws_idx s) = length st.
  Proof. intros H. rewrite (cl_idx _ _ H). apply idx_of_length. apply (cl_st _ _ H). Qed.

  Lemma clean_end s st : Clean s st -> ws_opts s = o ->
    data_base (ws_opts s) + ws_pos s = blen (d_file (ws_dev s)).
  Proof.
    intros H Ho. change (d_file (ws_dev s)) with (ws_file s).
    rewrite (cl_file _ _ H), (cl_pos _ _ H), blen_app, blen_pre_of, Ho. reflexivity.
  Qed.

  (* ---- open ------------------------------------------------------------------------------------ *)
  Lemma open_new_clean faults s :
    open_new k o nilroots roots faults = Ok s ->
    FInv s [] /\ Clean s [] /\ ws_closed s = false /\ ws_finalized s = false.
  Proof.
    unfold open_new, base_fits in *.
    destruct (match k with KStorage false => negb (w_v1 o) | _ => false end); [discriminate|].
    set (hb := enc_header (roots_opt nilroots roots) 1).
    assert (Hchunks : header_chunks nilroots roots = put_uv (0 + blen hb) :: [hb]) by reflexivity.
    assert (Hcat : concat (header_chunks nilroots roots) = ld hb) by apply concat_header_chunks.
    destruct (w_v1 o) eqn:Ev1.
    - cbn [negb].
      destruct (write_chunks (mkdev [] [] faults) (data_base o) (header_chunks nilroots roots)) as [[dv2 abs] ok2] eqn:Ew.
      destruct ok2; cbn [negb]; [|discriminate]. intros H; apply Ok_inj in H; subst s.
      rewrite data_base_v1 in * by exact Ev1.
      destruct (write_chunks_end _ _ _ _ _ _ eq_refl Ew) as (w & Hw & Ha & Hok & _).
      destruct (Hok eq_refl) as [-> _]. cbn [d_file app] in Hw. rewrite Hcat in *.
      assert (HC : Clean (mkws dv2 [] (abs - 0) false false roots o k) []).
      { constructor; cbn [ws_pos ws_idx ws_finalized]; try reflexivity; try constructor.
        - unfold ws_file. cbn [ws_dev]. unfold pre_of. rewrite Ev1. unfold payload.
          cbn [sections map concat app]. rewrite app_nil_r. exact Hw.
        - unfold payload. cbn [sections map concat]. rewrite app_nil_r. cbn [d_file] in Ha. rewrite blen_nil in Ha. fold hb. lia. }
      split; [|split; [exact HC|split; reflexivity]].
      constructor; try reflexivity. right. exact HC.
    - destruct (dev_write (mkdev [] [] faults) 0 pragma) as [[d1 n1] ok1] eqn:E1.
      destruct ok1; cbn [negb]; [|discriminate].
      destruct (write_chunks d1 (data_base o) (header_chunks nilroots roots)) as [[dv2 abs] ok2] eqn:Ew.
      destruct ok2; cbn [negb]; [|discriminate]. intros H; apply Ok_inj in H; subst s.
      apply dev_write_ok in E1. destruct E1 as (Hf1 & _ & _). cbn [d_file] in Hf1.
      change (write_at [] 0 pragma) with pragma in Hf1.
      assert (Hbase : data_base o = 51 + w_dpad o) by (apply data_base_v2; [exact Ev1|lia]).
      rewrite Hchunks in Ew.
      assert (Hge : blen (d_file d1) <= data_base o) by (rewrite Hf1, blen_pragma, Hbase; lia).
      destruct (write_chunks_beyond _ _ _ _ _ _ (put_uv_nonempty _) Hge Ew)
        as (Hw & Ha & _).
      cbn [concat] in Hw, Ha. rewrite app_nil_r, N.add_0_l in Hw, Ha. change (put_uv (blen hb) ++ hb) with (ld hb) in Hw, Ha. rewrite Hf1, blen_pragma in Hw.
      assert (HC : Clean (mkws dv2 [] (abs - data_base o) false false roots o k) []).
      { constructor; cbn [ws_pos ws_idx ws_finalized]; try reflexivity; try constructor.
        - unfold ws_file. cbn [ws_dev]. unfold pre_of. rewrite Ev1. unfold payload.
          cbn [sections map concat]. rewrite app_nil_r. rewrite Hw, Hbase, <- app_assoc.
          replace (51 + w_dpad o - 11) with (40 + w_dpad o) by lia. reflexivity.
        - unfold payload. cbn [sections map concat]. rewrite app_nil_r. fold hb. lia. }
      split; [|split; [exact HC|split; reflexivity]].
      constructor; try reflexivity. right. exact HC.
  Qed.

  (* ---- one block ------------------------------------------------------------------------------------ *)
  (* what put_one can do to a clean state *)
  Lemma put_one_clean s st c d p s' out :
    Clean s st -> ws_opts s = o -> ws_kind s = k ->
    cid_parse c = Some p -> blk_small (c, d) ->
    put_one s c d p = (s', out) ->
    ws_opts s' = o /\ ws_kind s' = k /\ ws_closed s' = ws_closed s /\
    ((out = ONil /\ Clean s' (spec_put o start st c d) /\ ws_finalized s' = ws_finalized s) \/
     (is_err out = true /\ ws_idx s' = ws_idx s /\
      ((Clean s' st /\ ws_file s' = ws_file s /\ ws_finalized s' = ws_finalized s) \/
       (kn = 3 /\ ws_finalized s' = true)))).
  Proof.
    intros HC Ho Hk Hp Hsm. unfold put_one. rewrite Ho.
    assert (Hspec : spec_put o start st c d
                    = match should_put o (ws_idx s) c p with Ok true => st ++ [(c, d)] | _ => st end).
    { unfold spec_put. rewrite Hp, (cl_idx _ _ HC). reflexivity. }
    destruct (should_put o (ws_idx s) c p) as [[|]|e] eqn:Esp.
    2:{ intros H; inversion H; subst s' out. split; [exact Ho|]. split; [exact Hk|]. split; [reflexivity|].
        left. rewrite Hspec. split; [reflexivity|]. split; [exact HC|reflexivity]. }
    2:{ intros H; inversion H; subst s' out. split; [exact Ho|]. split; [exact Hk|]. split; [reflexivity|].
        right. split; [reflexivity|]. split; [reflexivity|]. left. split; [exact HC|]. split; reflexivity. }
    destruct (write_chunks (ws_dev s) (data_base o + ws_pos s) (ld_chunks [c; d])) as [[dv abs] ok] eqn:Ew.
    pose proof (clean_end _ _ HC Ho) as Hend. rewrite Ho in Hend.
    destruct (write_chunks_end _ _ _ _ _ _ Hend Ew) as (w & Hw & Ha & Hok & Hbad).
    change (d_file (ws_dev s)) with (ws_file s) in Hw.
    destruct ok.
    - (* the whole section got out *)
      destruct (Hok eq_refl) as [-> _]. rewrite concat_ld_chunks2 in *.
      intros H; inversion H; subst s' out. clear H.
      cbn [set_idx set_dev ws_opts ws_kind ws_closed ws_finalized ws_idx ws_dev ws_pos].
      repeat split; try assumption. left. split; [reflexivity|]. split; [|reflexivity].
      rewrite Hspec. constructor; cbn [set_idx set_dev ws_idx ws_pos ws_finalized].
      + unfold ws_file. cbn [set_idx set_dev ws_dev]. rewrite Hw, (cl_file _ _ HC), payload_snoc, <- app_assoc. reflexivity.
      + rewrite payload_snoc, blen_app, Ha, (cl_pos _ _ HC). lia.
      + rewrite (idx_of_snoc _ _ _ _ _ Hp), (cl_idx _ _ HC), (cl_pos _ _ HC), blen_payload. reflexivity.
      + apply Forall_app. split; [apply HC|]. constructor; [|constructor]. split; [exists p; exact Hp|exact Hsm].
      + apply HC.
    - (* a write call failed: w is the part of the section that got out *)
      destruct (abs =? data_base o + ws_pos s) eqn:Eabs.
      + (* nothing got out *)
        assert (w = []) by (destruct w; [reflexivity|rewrite blen_cons in Ha; lia]). subst w.
        rewrite app_nil_r in Hw.
        intros H; inversion H; subst s' out. clear H.
        cbn [set_dev ws_opts ws_kind ws_closed ws_finalized ws_idx].
        split; [exact Ho|]. split; [exact Hk|]. split; [reflexivity|].
        right. split; [reflexivity|]. split; [reflexivity|]. left.
        assert (Hfile : ws_file (set_dev s dv (abs - data_base o)) = ws_file s)
          by (unfold ws_file; cbn [set_dev ws_dev]; exact Hw).
        split; [|split; [exact Hfile|reflexivity]].
        constructor; cbn [set_dev ws_idx ws_pos ws_finalized].
        * rewrite Hfile. apply (cl_file _ _ HC).
        * rewrite <- (cl_pos _ _ HC). lia.
        * apply (cl_idx _ _ HC).
        * apply (cl_st _ _ HC).
        * apply (cl_sticky _ _ HC).
      + rewrite Hk. destruct k as [|[|]] eqn:Ek.
        * (* blockstore: rewind and truncate *)
          intros H; inversion H; subst s' out. clear H.
          cbn [set_dev ws_opts ws_kind ws_closed ws_finalized ws_idx].
          assert (Hfile : ws_file (set_dev s (dev_truncate dv (data_base o + ws_pos s)) (ws_pos s)) = ws_file s).
          { unfold ws_file. cbn [set_dev ws_dev dev_truncate d_file]. rewrite Hw, Hend. apply truncate_to_app. }
          split; [exact Ho|]. split; [exact Hk|]. split; [reflexivity|].
          right. split; [reflexivity|]. split; [reflexivity|]. left.
          split; [|split; [exact Hfile|reflexivity]].
          constructor; cbn [set_dev ws_idx ws_pos ws_finalized].
          -- rewrite Hfile. apply (cl_file _ _ HC).
          -- apply (cl_pos _ _ HC).
          -- apply (cl_idx _ _ HC).
          -- apply (cl_st _ _ HC).
          -- apply (cl_sticky _ _ HC).
        * (* storage on a WriterAt: rewind and truncate *)
          intros H; inversion H; subst s' out. clear H.
          cbn [set_dev ws_opts ws_kind ws_closed ws_finalized ws_idx].
          assert (Hfile : ws_file (set_dev s (dev_truncate dv (data_base o + ws_pos s)) (ws_pos s)) = ws_file s).
          { unfold ws_file. cbn [set_dev ws_dev dev_truncate d_file]. rewrite Hw, Hend. apply truncate_to_app. }
          split; [exact Ho|]. split; [exact Hk|]. split; [reflexivity|].
          right. split; [reflexivity|]. split; [reflexivity|]. left.
          split; [|split; [exact Hfile|reflexivity]].
          constructor; cbn [set_dev ws_idx ws_pos ws_finalized].
          -- rewrite Hfile. apply (cl_file _ _ HC).
          -- apply (cl_pos _ _ HC).
          -- apply (cl_idx _ _ HC).
          -- apply (cl_st _ _ HC).
          -- apply (cl_sticky _ _ HC).
        * (* plain io.Writer: sticky write error *)
          intros H; inversion H; subst s' out. clear H.
          cbn [set_flags set_dev ws_opts ws_kind ws_closed ws_finalized ws_idx].
          split; [exact Ho|]. split; [exact Hk|]. split; [reflexivity|].
          right. split; [reflexivity|]. split; [reflexivity|]. right. split; [|reflexivity].
          apply kind_of_stream. exact Ek.
  Qed.
End Session.
