(* C19 round 2: the formerly partial theorems in full -- verify accepts the outputs that embed an index,
   get-block returns a block with the key's multihash / "not found" -- plus detach-index list and
   inspect without --full.  The guards are discharged by proofs/CliIndexFacts.v. *)
From Coq Require Import Sorting.Sorted Permutation.
From GoCar Require Import Bytes Varint Cid Header Frame V2Header Scan Index Store CliCmds.
From GoCarProofs Require Import BytesFacts VarintFacts CidFacts HeaderFacts ScanFacts ScanTrunc ScanTruncV2 StoreInv
  CliBase CliWalk CliProducers CliConcat CliFilter CliClosure CliTheorems CliGet CliAppend CliIndexFacts.
From GoCarProofs Require FinalIndex IndexSort.

Lemma length_regen hb (bs : list block) : (length (regen_records_hb hb bs) <= length bs)%nat.
Proof.
  unfold regen_records_hb, all_records_hb.
  pose proof (length_records_from bs (blen (ld hb))).
  pose proof (ReadOnlyIndex.filter_length_le (fun r => negb (r_code r =? 0)) (records_from (blen (ld hb)) bs)). lia.
Qed.

Lemma payload_lt hb bs x : 51 + blen (payload_hb hb bs) + x < two63 -> blen (payload_hb hb bs) < two63.
Proof. lia. Qed.

(* the records a filter session keeps: the insertion index of all stored sections (a digest-sorted
   permutation of them) *)
Definition session_records (hb : bytes) (st : list block) : list irec :=
  ii_load (records_from (blen (ld hb)) st) [].

Lemma session_perm hb st : Permutation (all_records_hb hb st) (session_records hb st).
Proof. symmetry. apply (IndexSort.ii_load_perm (records_from (blen (ld hb)) st) []). Qed.

Lemma session_describes hb st : describes (session_records hb st) hb st.
Proof. apply (describes_perm _ _ hb st (session_perm hb st)). apply all_describes. Qed.

Lemma length_session hb (st : list block) : (length (session_records hb st) <= length st)%nat.
Proof.
  rewrite <- (Permutation_length (session_perm hb st)). apply length_records_from.
Qed.

Lemma filter_index_session hb st : filter_index hb st = idx_load (session_records hb st) (IdxMh []).
Proof. reflexivity. Qed.

Lemma small_count_codes i0 recs (bs : list block) :
  (length recs <= length bs)%nat -> N.of_nat (length bs) < two31 -> codes_fit i0 recs.
Proof. intros H1 H2. apply codes_fit_by_length. lia. Qed.

Set Default Proof Using "All".
Section Full.
  Variable hok : bytes -> bytes -> option bool.
  Variable hdrdec : bytes -> option (list bytes * N).
  Hypothesis pragma_ok : hdrdec pragma_body = Some ([], 2).

  (* ==== closure under verify, outputs that embed an index ================================================== *)
  (* car index with a sorted codec.  Residual hypothesis, only for car-multihash-index-sorted: fewer than
     2^31 blocks -- the codec stores the number of distinct hash codes in an int32 (index.Marshal), which
     the block count bounds *)
  Theorem closed_verify_index hb roots bs file k codec i0 :
    hdr_ok hdrdec hb roots -> reencode_header hb roots 1 = hb -> blocks_ok bs -> valid_input hb bs file ->
    codec_of_kind k = Some codec -> idx_new codec = Some i0 -> hashes_ok hok bs ->
    roots <> [] -> roots_present roots bs = true ->
    51 + blen (payload_hb hb bs) + blen (idx_write (idx_load (regen_records_hb hb bs) i0)) < two63 ->
    (codec = codec_mh_sorted -> N.of_nat (length bs) < two31) ->
    exists out, index_car hdrdec k 2 file = (true, Some out) /\ verify_car hok hdrdec out = Ok tt.
  Proof.
    intros Hh Hre Hb Hv Hk Hi0 Hg Hne Hrp H63 Hcnt.
    apply (closed_verify_index_codec_guarded hok hdrdec pragma_ok hb roots bs file Hh Hre Hb Hv k codec i0); try assumption.
    apply (own_index_answers (regen_records_hb hb bs) hb bs i0 (idx_new_fresh codec i0 Hi0) (regen_describes hb bs) Hb
             (payload_lt _ _ _ H63) (length_regen hb bs)); [lia|].
    destruct (idx_new_fresh codec i0 Hi0) as [-> | ->]; [exact I|].
    apply (small_count_codes _ _ bs (length_regen hb bs)). apply Hcnt.
    unfold idx_new in Hi0. destruct (codec =? codec_sorted) eqn:E1; [discriminate|].
    destruct (codec =? codec_mh_sorted) eqn:E2; [apply N.eqb_eq; exact E2|discriminate].
  Qed.

  (* car filter --version 2 *)
  Theorem closed_verify_filter_v2 sel inv hb roots bs file outf :
    hdr_ok hdrdec hb roots -> blocks_ok bs -> hashes_ok hok bs -> cids_indexable bs ->
    valid_input hb bs file ->
    hdr_ok hdrdec (filter_hb sel inv roots) (filter_roots sel inv roots) ->
    51 + blen (payload_hb (filter_hb sel inv roots) (filter_spec sel inv bs))
       + blen (idx_write (filter_index (filter_hb sel inv roots) (filter_spec sel inv bs))) < two63 ->
    filter_roots sel inv roots <> [] ->
    roots_present (filter_roots sel inv roots) (filter_spec sel inv bs) = true ->
    N.of_nat (length (filter_spec sel inv bs)) < two31 ->
    exists out,
      filter_car hok hdrdec sel inv 2 false file outf = (true, Some out) /\
      verify_car hok hdrdec out = Ok tt.
  Proof.
    intros Hh Hb Hg Hix Hv Hh' H63 Hne Hrp Hcnt.
    apply (closed_verify_filter_v2_guarded hok hdrdec pragma_ok sel inv hb roots bs file Hh Hb Hg Hix Hv Hh' outf H63 Hne Hrp).
    rewrite filter_index_session.
    apply (own_index_answers (session_records _ _) _ _ (IdxMh []) (or_intror eq_refl) (session_describes _ _)
             (filter_spec_forall _ sel inv bs Hb) (payload_lt _ _ _ H63) (length_session _ _)).
    - rewrite <- filter_index_session. lia.
    - apply (small_count_codes _ _ _ (length_session _ _) Hcnt).
  Qed.

  (* car filter --append *)
  Theorem closed_verify_filter_append sel inv hb roots bs file ohb oroots st hi lo ioff trailer :
    hdr_ok hdrdec hb roots -> blocks_ok bs -> hashes_ok hok bs -> cids_indexable bs ->
    valid_input hb bs file ->
    hdr_ok hdrdec ohb oroots -> blen (enc_header (Some oroots) 1) = blen ohb ->
    blocks_ok st -> hashes_ok hok st ->
    hi < two64 -> lo < two64 -> ioff < two63 ->
    51 + blen (payload_hb ohb st) + blen trailer < two63 ->
    let st' := st ++ dedup_from (map fst st) (filter (fun b => match_filter sel inv (fst b)) bs) in
    51 + blen (payload_hb ohb st') + blen (idx_write (filter_index ohb st')) < two63 ->
    oroots <> [] -> roots_present oroots st' = true -> N.of_nat (length st') < two31 ->
    exists out,
      filter_car hok hdrdec sel inv 2 true file (Some (v2file hi lo 0 ioff (payload_hb ohb st) trailer))
        = (true, Some out) /\
      verify_car hok hdrdec out = Ok tt.
  Proof.
    intros Hh Hb Hg Hix Hv Hoh Hlen Hst Hgst H1 H2 H3 H63 st' Hfit Hne Hrp Hcnt.
    assert (Hb' : blocks_ok st').
    { apply Forall_app. split; [exact Hst|]. apply Forall_forall. intros x Hx. apply dedup_from_in in Hx.
      apply filter_In in Hx. exact (proj1 (Forall_forall _ _) Hb x (proj1 Hx)). }
    assert (Hg' : hashes_ok hok st').
    { apply Forall_app. split; [exact Hgst|]. apply Forall_forall. intros x Hx. apply dedup_from_in in Hx.
      apply filter_In in Hx. exact (proj1 (Forall_forall _ _) Hg x (proj1 Hx)). }
    assert (Hfit64 : 51 + blen (payload_hb ohb st') < two64) by (unfold two63, two64 in *; lia).
    eexists. split.
    - apply (filter_car_append hok hdrdec pragma_ok sel inv hb roots bs file ohb oroots st hi lo ioff trailer); assumption.
    - apply (verify_indexed0 hok hdrdec pragma_ok ohb oroots st' _ Hoh Hb' Hg' Hne Hrp Hfit).
      rewrite filter_index_session.
      apply (own_index_answers (session_records _ _) _ _ (IdxMh []) (or_intror eq_refl) (session_describes _ _)
               Hb' (payload_lt _ _ _ Hfit) (length_session _ _)).
      + rewrite <- filter_index_session. lia.
      + apply (small_count_codes _ _ _ (length_session _ _) Hcnt).
  Qed.

  (* ==== car get-block ========================================================================================= *)
  Lemma no_index_size hb bs file : no_index_input hb bs file -> blen (payload_hb hb bs) < two63.
  Proof. intros [(_ & H)|(hi & lo & dpad & tr & _ & _ & _ & H)]; lia. Qed.

  (* CARv1 / index-less CARv2 (generated index): a present key *)
  Theorem get_block_present hb roots bs file key kp :
    hdr_ok hdrdec hb roots -> blocks_ok bs -> cids_indexable bs -> no_index_input hb bs file ->
    cid_parse key = Some kp -> is_identity kp = false ->
    existsb (fun b => same_mh (fst b) key) bs = true ->
    exists c d, In (c, d) bs /\ same_mh c key = true /\ get_block hdrdec file key = Ok d.
  Proof.
    intros Hh Hb Hix Hni Hk Hid Hex.
    apply (get_block_generated hok hdrdec pragma_ok hb roots bs file key kp Hh Hb Hix Hni Hk Hid).
    apply (own_candidates_ok (regen_records_hb hb bs) hb bs (IdxMh []) (or_intror eq_refl) (regen_describes hb bs) Hb
             (no_index_size hb bs file Hni) (length_regen hb bs) key kp Hk Hid Hex).
  Qed.

  (* ... an absent key *)
  Theorem get_block_absent hb roots bs file key kp :
    hdr_ok hdrdec hb roots -> blocks_ok bs -> cids_indexable bs -> no_index_input hb bs file ->
    cid_parse key = Some kp -> is_identity kp = false ->
    existsb (fun b => same_mh (fst b) key) bs = false ->
    get_block hdrdec file key = Err ENotFound.
  Proof.
    intros Hh Hb Hix Hni Hk Hid Habs.
    apply (get_block_generated_absent hok hdrdec pragma_ok hb roots bs file key kp Hh Hb Hix Hni Hk Hid Habs).
    apply (own_candidates_sound (regen_records_hb hb bs) hb bs (IdxMh []) (or_intror eq_refl) (regen_describes hb bs)
             (no_index_size hb bs file Hni) (length_regen hb bs)).
  Qed.

  (* CARv2 that embeds an index the library wrote: any codec, loaded with any record list that
     describes the payload (all section records, or the non-identity ones; in any order), behind any
     data / index padding, followed by anything *)
  Section Own.
    Variables (hb : bytes) (roots : list bytes) (bs : list block) (hi lo dpad ipad : N)
              (recs : list irec) (i0 : index) (extra : bytes).
    Hypothesis Hh : hdr_ok hdrdec hb roots.
    Hypothesis Hb : blocks_ok bs.
    Hypothesis H1 : hi < two64.
    Hypothesis H2 : lo < two64.
    Hypothesis Hfresh : fresh i0.
    Hypothesis Hdesc : describes recs hb bs.
    Hypothesis Hlen : (length recs <= length bs)%nat.
    Hypothesis Hcodes : codes_fit i0 recs.
    Let ibytes := idx_write (idx_load recs i0) ++ extra.
    Hypothesis H63 : 51 + dpad + blen (payload_hb hb bs) + ipad + blen ibytes < two63.
    Let file := v2file hi lo dpad (51 + dpad + blen (payload_hb hb bs) + ipad) (payload_hb hb bs) (zerosN ipad ++ ibytes).

    Lemma own_read : idx_read ibytes = Ok (idx_load recs i0, extra).
    Proof.
      unfold ibytes. apply roundtrip_fresh; try assumption.
      - apply (describes_fit recs hb bs Hdesc Hb). lia.
      - unfold ibytes in H63. rewrite blen_app in H63. lia.
    Qed.

    Lemma own_size : blen (payload_hb hb bs) < two63.
    Proof. lia. Qed.

    Theorem get_block_own_index_present key kp :
      cid_parse key = Some kp -> is_identity kp = false ->
      existsb (fun b => same_mh (fst b) key) bs = true ->
      exists c d, In (c, d) bs /\ same_mh c key = true /\ get_block hdrdec file key = Ok d.
    Proof.
      intros Hk Hid Hex.
      apply (get_block_embedded hok hdrdec pragma_ok hb roots bs hi lo dpad ipad ibytes _ extra key kp Hh Hb H1 H2 H63 own_read Hk Hid).
      apply (own_candidates_ok recs hb bs i0 Hfresh Hdesc Hb own_size Hlen key kp Hk Hid Hex).
    Qed.

    Theorem get_block_own_index_absent key kp :
      cid_parse key = Some kp -> is_identity kp = false ->
      existsb (fun b => same_mh (fst b) key) bs = false ->
      get_block hdrdec file key = Err ENotFound.
    Proof.
      intros Hk Hid Habs.
      pose proof (own_candidates_sound recs hb bs i0 Hfresh Hdesc own_size Hlen (c_mhcode kp) (c_digest kp)) as Hs.
      set (P := payload_hb hb bs) in *. set (ioff := 51 + dpad + blen P + ipad) in *.
      assert (Hv : valid_input hb bs file).
      { unfold file. apply VI_v2; try assumption; [unfold ioff; lia|rewrite blen_app, blen_zerosN; fold P; lia]. }
      destruct (valid_reader hok hdrdec pragma_ok hb roots bs file Hh Hv) as (r & Hr).
      assert (Hrr : r = mkcr 2 (mkv2 hi lo (51 + dpad) (blen P) ioff)).
      { pose proof (proj1 Hr) as Hn. unfold file in Hn. rewrite (new_reader_v2 hok hdrdec pragma_ok) in Hn.
        - inversion Hn. reflexivity.
        - apply (v2file_hdr_ok hi lo dpad ioff P (zerosN ipad ++ ibytes)); try assumption;
            [unfold ioff; lia|apply payload_nonempty|rewrite blen_app, blen_zerosN; lia]. }
      assert (Hopen : open_readonly_index hdrdec r file = Ok (idx_load recs i0)).
      { unfold open_readonly_index. rewrite Hrr. cbn [cr_ver cr_hdr N.eqb Pos.eqb andb]. unfold has_index. cbn [h_ioff].
        replace (ioff =? 0) with false by (unfold ioff; lia). cbn [negb].
        unfold file. rewrite blen_v2file, blen_app, blen_zerosN.
        replace (51 + dpad + blen P + (ipad + blen ibytes) <? ioff) with false by (unfold ioff; lia).
        rewrite v2file_split.
        replace ((pragma ++ enc_v2hdr (mkv2 hi lo (51 + dpad) (blen P) ioff) ++ zerosN dpad) ++ P ++ zerosN ipad ++ ibytes)
          with (((pragma ++ enc_v2hdr (mkv2 hi lo (51 + dpad) (blen P) ioff) ++ zerosN dpad) ++ P ++ zerosN ipad) ++ ibytes)
          by (rewrite <- !app_assoc; reflexivity).
        rewrite (drop_app_eq _ _ ioff)
          by (rewrite blen_app, blen_v2_prefix, blen_app, blen_zerosN; unfold ioff; lia).
        rewrite own_read. reflexivity. }
      rewrite (get_with_index hok hdrdec pragma_ok hb roots bs file r _ key kp Hh Hb Hr Hopen Hk Hid Hs).
      destruct (find (cand_matches hb bs key) _) as [o|] eqn:Ef; [|reflexivity].
      exfalso. destruct (find_some_matches hb bs key _ o Ef) as ([c d] & Hcb & Hsm).
      unfold cand_block in Hcb. pose proof (proj1 (block_at_view bs (ld hb) o (c, d) Hcb)) as Hin.
      assert (Hex : existsb (fun b => same_mh (fst b) key) bs = true)
        by (apply existsb_exists; exists (c, d); split; [exact Hin|exact Hsm]).
      congruence.
    Qed.
  End Own.

  (* ==== car detach-index list ================================================================================= *)
  (* on what car index create / car index / detach-index write with the multihash codec: one line per
     record (multihash, offset), as a multiset; the digest-only codec is "not iterable" (exit 1) *)
  Theorem detach_list_mh recs extra :
    Forall FinalIndex.rec_fits recs -> blen (idx_write (idx_load recs (IdxMh []))) < two63 ->
    N.of_nat (FinalIndex.n_codes recs) < two31 ->
    exists l, detach_list (idx_write (idx_load recs (IdxMh [])) ++ extra) = (true, l) /\
              Permutation l (map (fun r => (mh_enc (r_code r) (r_digest r), r_off r)) recs).
  Proof.
    intros Hfit Hsz Hc. unfold detach_list.
    rewrite (roundtrip_fresh (IdxMh []) recs extra (or_intror eq_refl) Hfit Hsz Hc). cbn [idx_load].
    eexists. split; [reflexivity|].
    pose proof (FinalIndex.mh_foreach_load recs (FinalIndex.recs_offs_ok recs Hfit)) as Hp.
    apply (Permutation_map (fun e : N * bytes * N => (mh_enc (fst (fst e)) (snd (fst e)), snd e))) in Hp.
    rewrite map_map in Hp. exact Hp.
  Qed.

  Theorem detach_list_sorted_refused recs extra :
    Forall FinalIndex.rec_fits recs -> blen (idx_write (idx_load recs (IdxSorted []))) < two63 ->
    detach_list (idx_write (idx_load recs (IdxSorted [])) ++ extra) = (false, []).
  Proof.
    intros Hfit Hsz. unfold detach_list.
    rewrite (roundtrip_fresh (IdxSorted []) recs extra (or_introl eq_refl) Hfit Hsz I). reflexivity.
  Qed.

  (* car index create (multihash codec) then car detach-index list: one line per non-identity section *)
  Theorem detach_list_of_index_create hb roots bs file k :
    hdr_ok hdrdec hb roots -> blocks_ok bs -> cids_indexable bs -> valid_input hb bs file ->
    codec_of_kind k = Some codec_mh_sorted ->
    blen (payload_hb hb bs) < two63 ->
    blen (idx_write (idx_load (regen_records_hb hb bs) (IdxMh []))) < two63 ->
    N.of_nat (length bs) < two31 ->
    exists ibytes l,
      index_create hdrdec k file = (true, Some ibytes) /\
      detach_list ibytes = (true, l) /\
      Permutation l (map (fun r => (mh_enc (r_code r) (r_digest r), r_off r)) (regen_records_hb hb bs)).
  Proof.
    intros Hh Hb Hix Hv Hk Hsz Hw Hcnt.
    destruct (detach_list_mh (regen_records_hb hb bs) []) as (l & Hl & Hp).
    - apply (describes_fit _ hb bs (regen_describes hb bs) Hb Hsz).
    - exact Hw.
    - pose proof (FinalIndex.n_codes_le (regen_records_hb hb bs)). pose proof (length_regen hb bs). lia.
    - rewrite app_nil_r in Hl. exists (idx_write (idx_load (regen_records_hb hb bs) (IdxMh []))), l.
      split; [|split; assumption].
      rewrite (index_create_valid hok hdrdec pragma_ok hb roots bs file k codec_mh_sorted Hh Hb Hix Hv Hk). reflexivity.
  Qed.

  (* ==== car inspect (without --full) ======================================================================= *)
  Lemma inspect_loop_sections_quick : forall bs view pre acc fuel,
    view = pre ++ enc_sections bs -> blocks_ok bs -> (length bs < fuel)%nat ->
    inspect_loop hok fuel false view (blen pre) acc = Ok (rev (map isec_of bs) ++ acc, blen view).
  Proof.
    induction bs as [|[c d] t IH]; intros view pre acc fuel Hv Hok Hf;
      (destruct fuel as [|f]; [cbn in Hf; lia|]); cbn [inspect_loop]; subst view.
    - cbn [enc_sections map concat]. rewrite app_nil_r, drop_all, read_uv_nil. reflexivity.
    - inversion Hok as [|? ? Hb Hok']; subst.
      destruct (section_front c d (enc_sections t) Hb) as (p & Hp & Hsplit & Hru & Hcr & Hc2 & Hmax & H63).
      rewrite drop_app. rewrite enc_sections_cons, Hsplit, Hru.
      replace (blen c + blen d =? 0) with false by lia.
      replace (default_maxs <? blen c + blen d) with false by lia.
      rewrite Hcr.
      replace (blen c + blen d <? blen c) with false by lia.
      replace (blen c + blen d - blen c) with (blen d) by lia.
      replace (blen pre + uv_size (blen c + blen d) + (blen c + blen d)) with (blen (pre ++ enc_section c d))
        by (rewrite blen_app, blen_enc_section; unfold section_size, ld_size; lia).
      rewrite (IH _ (pre ++ enc_section c d)).
      + cbn [map rev]. rewrite <- app_assoc. reflexivity.
      + rewrite <- app_assoc, Hsplit. reflexivity.
      + exact Hok'.
      + cbn in Hf. lia.
  Qed.

  Lemma reader_inspect_payload_quick hb roots bs r file :
    hdr_ok hdrdec hb roots -> blocks_ok bs -> data_view r file = payload_hb hb bs ->
    reader_inspect hok hdrdec false r file
    = if (cr_ver r =? 2) && has_index (cr_hdr r) then
        match read_uv (drop (h_ioff (cr_hdr r)) file) with
        | VOk codec _ _ => Ok (mkis (cr_ver r) (cr_hdr r) roots (map isec_of bs) codec (blen (payload_hb hb bs)))
        | VEof => Err EEof
        | VUnexpectedEof => Err EUnexpectedEof
        | VOverflow | VNotMinimal => Err EOther
        end
      else Ok (mkis (cr_ver r) (cr_hdr r) roots (map isec_of bs) 0 (blen (payload_hb hb bs))).
  Proof.
    intros Hh Hb Hdv. unfold reader_inspect. rewrite Hdv. unfold payload_hb at 1.
    rewrite (read_header_hb hok hdrdec pragma_ok hb roots 1)
      by (try apply Hh; eapply (hdr_ok_63 hok hdrdec pragma_ok); exact Hh).
    change (1 =? 1) with true. cbn [negb]. rewrite andb_false_r.
    rewrite <- blen_ld.
    rewrite (inspect_loop_sections_quick bs (payload_hb hb bs) (ld hb) [] _ eq_refl Hb (length_payload_ge hok hdrdec pragma_ok hb bs)).
    rewrite app_nil_r, rev_involutive. reflexivity.
  Qed.

  (* no hashing: no hypothesis on the hash oracle; the report is the one --full gives *)
  Theorem inspect_quick_v1 hb roots bs :
    hdr_ok hdrdec hb roots -> blocks_ok bs ->
    inspect_car hok hdrdec false (payload_hb hb bs)
    = Ok (mkis 1 zero_v2hdr roots (map isec_of bs) 0 (blen (payload_hb hb bs))).
  Proof.
    intros Hh Hb. unfold inspect_car.
    rewrite (new_reader_v1 hok hdrdec pragma_ok hb roots bs Hh).
    rewrite (reader_inspect_payload_quick hb roots bs (mkcr 1 zero_v2hdr) (payload_hb hb bs) Hh Hb eq_refl).
    reflexivity.
  Qed.

  Theorem inspect_quick_v2_indexless hb roots bs hi lo dpad trailer :
    hdr_ok hdrdec hb roots -> blocks_ok bs ->
    hi < two64 -> lo < two64 -> 51 + dpad + blen (payload_hb hb bs) + blen trailer < two63 ->
    inspect_car hok hdrdec false (v2file hi lo dpad 0 (payload_hb hb bs) trailer)
    = Ok (mkis 2 (mkv2 hi lo (51 + dpad) (blen (payload_hb hb bs)) 0) roots (map isec_of bs) 0
               (blen (payload_hb hb bs))).
  Proof.
    intros Hh Hb H1 H2 H63. pose proof (payload_nonempty hb bs) as Hp.
    assert (Hok : v2hdr_ok (mkv2 hi lo (51 + dpad) (blen (payload_hb hb bs)) 0)).
    { apply (v2file_hdr_ok hi lo dpad 0 _ trailer); try assumption. unfold two63; lia. }
    unfold inspect_car. rewrite (new_reader_v2 hok hdrdec pragma_ok) by exact Hok.
    rewrite (reader_inspect_payload_quick hb roots bs _ _ Hh Hb (data_view_v2 hok hdrdec pragma_ok _ _ _ _ _ _)).
    reflexivity.
  Qed.

  Theorem inspect_quick_v2_indexed hb roots bs hi lo dpad ipad codec rest :
    hdr_ok hdrdec hb roots -> blocks_ok bs ->
    hi < two64 -> lo < two64 -> codec < two63 ->
    51 + dpad + blen (payload_hb hb bs) + ipad + blen (put_uv codec ++ rest) < two63 ->
    inspect_car hok hdrdec false
      (v2file hi lo dpad (51 + dpad + blen (payload_hb hb bs) + ipad) (payload_hb hb bs)
              (zerosN ipad ++ put_uv codec ++ rest))
    = Ok (mkis 2 (mkv2 hi lo (51 + dpad) (blen (payload_hb hb bs)) (51 + dpad + blen (payload_hb hb bs) + ipad))
               roots (map isec_of bs) codec (blen (payload_hb hb bs))).
  Proof.
    intros Hh Hb H1 H2 Hc H63. pose proof (payload_nonempty hb bs) as Hp.
    set (P := payload_hb hb bs) in *. set (ioff := 51 + dpad + blen P + ipad).
    assert (Hok : v2hdr_ok (mkv2 hi lo (51 + dpad) (blen P) ioff)).
    { apply (v2file_hdr_ok hi lo dpad ioff P (zerosN ipad ++ put_uv codec ++ rest)); try assumption.
      - unfold ioff. lia.
      - rewrite blen_app, blen_zerosN. lia. }
    unfold inspect_car. rewrite (new_reader_v2 hok hdrdec pragma_ok) by exact Hok.
    rewrite (reader_inspect_payload_quick hb roots bs _ _ Hh Hb (data_view_v2 hok hdrdec pragma_ok _ _ _ _ _ _)).
    fold P. cbn [cr_ver cr_hdr N.eqb Pos.eqb andb]. unfold has_index. cbn [h_ioff].
    replace (ioff =? 0) with false by (unfold ioff; lia). cbn [negb].
    rewrite v2file_split.
    replace ((pragma ++ enc_v2hdr (mkv2 hi lo (51 + dpad) (blen P) ioff) ++ zerosN dpad) ++ P ++ zerosN ipad ++ put_uv codec ++ rest)
      with (((pragma ++ enc_v2hdr (mkv2 hi lo (51 + dpad) (blen P) ioff) ++ zerosN dpad) ++ P ++ zerosN ipad) ++ put_uv codec ++ rest)
      by (rewrite <- !app_assoc; reflexivity).
    rewrite (drop_app_eq _ _ ioff)
      by (rewrite blen_app, blen_v2_prefix, blen_app, blen_zerosN; unfold ioff; lia).
    rewrite read_uv_put_uv by exact Hc. reflexivity.
  Qed.
End Full.
