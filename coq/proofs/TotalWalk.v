(* C09 for BlockReader.Next / SkipNext in any order (theories/BlockReaderPos.v): every call returns a
   block / metadata or an error, every buffer is bounded, and a reader driven by ANY choice string runs
   into an error (io.EOF on a well-formed archive) after at most |file| successful calls -- the
   `for { br.Next() / br.SkipNext() }` loop terminates on every input. *)
From GoCar Require Import Bytes Varint Cid Header Frame V2Header Scan Index Store Alloc RunTotal.
From GoCar Require BlockReaderPos.
From GoCarProofs Require Import BytesFacts VarintFacts Termination TotalAlloc TotalIndex TotalMain.
Import BlockReaderPos.

Section Brp.
  Variable hok : bytes -> bytes -> option bool.
  Variable hdrdec : bytes -> option (list bytes * N).

  (* ---- every error is an ordinary error ---- *)
  Lemma ld_read_size_err_total zeof maxb s e : ld_read_size zeof maxb s = Err e -> err_total e.
  Proof.
    unfold ld_read_size. destruct (read_uv s) as [l r n| | | |]; try (intros H; inversion H; split; discriminate).
    destruct ((l =? 0) && zeof); [intros H; inversion H; split; discriminate|].
    destruct (maxb <? l); intros H; inversion H; split; discriminate.
  Qed.
  Lemma brp_next_err_total o st e : brp_next hok o st = Err e -> err_total e.
  Proof.
    unfold brp_next. destruct (next_block hok o (vis st)) as [[[c d] rest]|e'] eqn:E; [discriminate|].
    intros H; inversion H; subst. eapply next_block_err_total; eassumption.
  Qed.
  Lemma brp_skip_err_total o st e : brp_skip o st = Err e -> err_total e.
  Proof.
    unfold brp_skip. destruct (ld_read_size (o_zeof o) (o_maxs o) (vis st)) as [[[l rest] n]|e'] eqn:E;
      [|intros H; inversion H; subst; eapply ld_read_size_err_total; eassumption].
    destruct (l =? 0); [intros H; inversion H; split; discriminate|].
    destruct (cid_from_reader (take l rest)) as [cn c p r| |]; try (intros H; inversion H; split; discriminate).
    cbv zeta. destruct (p_lim st), (p_seek st);
      repeat match goal with |- context [if ?c then _ else _] => destruct c end;
      intros H; inversion H; split; discriminate.
  Qed.
  Lemma brp_open_err_total o seek file e : brp_open hdrdec o seek file = Err e -> err_total e.
  Proof.
    unfold brp_open. intros H.
    destruct (read_header hdrdec (o_maxh o) file) as [[[[roots v] rest] used]|e'] eqn:E;
      [|inversion H; subst; apply (read_header_err_total hdrdec _ _ _ E)].
    destruct (v =? 1); [discriminate|]. destruct (v =? 2); [|inversion H; split; discriminate].
    destruct (read_v2hdr rest) as [[h rest2]|e'] eqn:E2; [|inversion H; subst; apply (read_v2hdr_err_total _ _ E2)].
    cbv zeta in H. destruct (negb seek && _); [inversion H; split; discriminate|].
    match type of H with context [read_header hdrdec (o_maxh o) ?x] =>
      destruct (read_header hdrdec (o_maxh o) x) as [[[[roots1 v1] rest3] used1]|e'] eqn:E3 end;
      [|inversion H; subst; apply (read_header_err_total hdrdec _ _ _ E3)].
    destruct (v1 =? 1); [discriminate|inversion H; split; discriminate].
  Qed.

  (* the walk ends with [None] (choices ran out) or with the error of one of its calls *)
  Lemma brp_walk_end_total o : forall w st e st',
    snd (brp_walk hok o w st) = (Some e, st') -> err_total e.
  Proof.
    induction w as [|ch w IH]; intros st e st' H; cbn [brp_walk] in H; [discriminate|].
    destruct ch.
    - destruct (brp_next hok o st) as [[[c d] st1]|e1] eqn:E.
      + cbn [snd] in H. eapply IH; eassumption.
      + cbn [snd] in H. inversion H; subst. eapply brp_next_err_total; eassumption.
    - destruct (brp_skip o st) as [[m st1]|e1] eqn:E.
      + cbn [snd] in H. eapply IH; eassumption.
      + cbn [snd] in H. inversion H; subst. eapply brp_skip_err_total; eassumption.
  Qed.

  (* ---- buffers ---- *)
  Definition brp_buf (o : ropts) (a : N) : Prop := a <= o_maxh o \/ a <= o_maxs o \/ a <= max_digest_alloc.
  Lemma brp_walk_allocs_bound o : forall w st, Forall (brp_buf o) (brp_walk_allocs hok o w st).
  Proof.
    induction w as [|ch w IH]; intros st; cbn [brp_walk_allocs]; [constructor|]. destruct ch.
    - apply Forall_app. split.
      { unfold brp_next_allocs. eapply Forall_weaken; [|apply ld_read_allocs_bound]. unfold brp_buf. cbv beta. intros; lia. }
      destruct (brp_next hok o st) as [[b st1]|]; [apply IH|constructor].
    - apply Forall_app. split.
      { unfold brp_skip_allocs. destruct (ld_read_size _ _ _) as [[[l rest] n]|]; [|constructor].
        destruct (l =? 0); [constructor|].
        eapply Forall_weaken; [|apply cfr_allocs_bound]. unfold brp_buf. cbv beta. intros; lia. }
      destruct (brp_skip o st) as [[m st1]|]; [apply IH|constructor].
  Qed.
  Theorem brp_run_allocs_bound o seek file w : Forall (brp_buf o) (brp_run_allocs hok hdrdec o seek file w).
  Proof.
    unfold brp_run_allocs. apply Forall_app. split.
    - unfold brp_open_allocs.
      assert (Hh : forall s, Forall (brp_buf o) (ld_read_allocs false (o_maxh o) s)).
      { intros s. eapply Forall_weaken; [|apply ld_read_allocs_bound]. unfold brp_buf. cbv beta. intros; lia. }
      apply Forall_app. split; [apply Hh|].
      destruct (read_header hdrdec (o_maxh o) file) as [[[[roots v] rest] used]|]; [|constructor].
      destruct (v =? 2); [|constructor]. destruct (read_v2hdr rest) as [[h rest2]|]; [|constructor].
      cbv zeta. destruct (negb seek && _); [constructor|apply Hh].
    - destruct (brp_open hdrdec o seek file) as [[[v roots] st0]|]; [apply brp_walk_allocs_bound|constructor].
  Qed.

  (* ---- termination: every successful call moves the source forward, and never past its end ---- *)
  (* readerSize, once learnt, is the size of the source *)
  Definition rsize_ok (st : brp) : Prop :=
    p_lim st = None -> p_rsize st = None \/ p_rsize st = Some (blen (p_all st)).
  Definition in_range (st : brp) : Prop := p_pos st <= blen (p_all st).

  Lemma vis_len st : in_range st -> blen (vis st) <= blen (p_all st) - p_pos st.
  Proof.
    unfold vis, in_range. intros H. destruct (p_lim st); [rewrite blen_take|]; rewrite blen_drop; lia.
  Qed.

  Lemma brp_next_progress o st b st' : in_range st -> rsize_ok st -> brp_next hok o st = Ok (b, st') ->
    p_all st' = p_all st /\ p_pos st < p_pos st' /\ in_range st' /\ rsize_ok st'.
  Proof.
    unfold brp_next. intros Hr Hs H.
    destruct (next_block hok o (vis st)) as [[[c d] rest]|] eqn:E; [|discriminate].
    apply next_block_consumes in E. pose proof (vis_len st Hr) as Hv.
    inversion H; subst. unfold set_off, adv, in_range, rsize_ok in *. cbn [p_all p_pos p_lim p_rsize] in *.
    repeat split; try lia. destruct (p_lim st); [discriminate|exact Hs].
  Qed.

  Lemma cfr_consumed s n c p rest : cid_from_reader s = CfrOk n c p rest -> n <= blen s.
  Proof.
    unfold cid_from_reader. intros H.
    destruct (read_uv s) as [vers r1 n1| | | |] eqn:E1; try discriminate.
    apply read_uv_consumes in E1.
    destruct (vers =? 18).
    { destruct (blen r1 <? 33) eqn:E33; [discriminate|].
      destruct (take 34 s) as [|b0 [|b1 t]]; try discriminate.
      destruct (b2n b1 =? 32); [|discriminate]. inversion H; subst. lia. }
    destruct (negb (vers =? 1)); [discriminate|].
    destruct (read_uv r1) as [codec r2 n2| | | |] eqn:E2; try discriminate. apply read_uv_consumes in E2.
    destruct (read_uv r2) as [code r3 n3| | | |] eqn:E3; try discriminate. apply read_uv_consumes in E3.
    destruct (read_uv r3) as [mhl r4 n4| | | |] eqn:E4; try discriminate. apply read_uv_consumes in E4.
    destruct (max_digest_alloc <? mhl); [discriminate|].
    destruct (blen r4 <? mhl) eqn:E5; [discriminate|]. inversion H; subst. lia.
  Qed.

  Lemma brp_skip_progress o st m st' : in_range st -> rsize_ok st -> brp_skip o st = Ok (m, st') ->
    p_all st' = p_all st /\ p_pos st < p_pos st' /\ in_range st' /\ rsize_ok st'.
  Proof.
    unfold brp_skip. intros Hr Hs H. pose proof (vis_len st Hr) as Hv.
    destruct (ld_read_size (o_zeof o) (o_maxs o) (vis st)) as [[[l rest] n]|] eqn:E; [|discriminate].
    unfold ld_read_size in E. destruct (read_uv (vis st)) as [l' r' n'| | | |] eqn:Eu; try discriminate.
    apply read_uv_consumes in Eu.
    destruct ((l' =? 0) && o_zeof o); [discriminate|]. destruct (o_maxs o <? l'); [discriminate|].
    inversion E; subst l' r' n'. clear E.
    destruct (l =? 0) eqn:El; [discriminate|].
    destruct (cid_from_reader (take l rest)) as [cn c p r| |] eqn:Ec; try discriminate.
    apply cfr_consumed in Ec. rewrite blen_take in Ec. cbv zeta in H.
    unfold in_range, rsize_ok in *.
    destruct (p_lim st) as [lim|] eqn:Elim.
    - (* CARv2: discard through the LimitReader *)
      assert (Hd : forall x, (if blen (vis (adv (n + cn) st)) <? l - cn then Err EUnexpectedEof
                   else Ok (x, set_off (p_off st + uv_size l + cn + (l - cn)) (adv (l - cn) (adv (n + cn) st)))) = Ok (m, st') ->
                  p_all st' = p_all st /\ p_pos st < p_pos st' /\ p_pos st' <= blen (p_all st') /\
                  (p_lim st' = None -> p_rsize st' = None \/ p_rsize st' = Some (blen (p_all st')))).
      { intros x Hx. destruct (blen (vis (adv (n + cn) st)) <? l - cn) eqn:Eb; [discriminate|].
        inversion Hx; subst. unfold set_off, adv in *. cbn [p_all p_pos p_lim p_rsize] in *. rewrite Elim in *.
        unfold vis in Eb. cbn [p_all p_pos p_lim] in Eb. rewrite blen_take, blen_drop in Eb.
        repeat split; try lia. discriminate. }
      destruct (p_seek st); eapply Hd; exact H.
    - destruct (p_seek st) eqn:Eseek.
      + (* seek path *)
        destruct (negb (_ =? _)); [discriminate|].
        destruct (_ <? _) eqn:Er; [discriminate|]. inversion H; subst.
        unfold set_off, seek_to, adv in *. cbn [p_all p_pos p_lim p_rsize] in *. rewrite Elim in *.
        assert (Hrs : match p_rsize st with None => blen (p_all st) | Some r => r end = blen (p_all st)).
        { destruct (Hs eq_refl) as [->| ->]; reflexivity. }
        rewrite Hrs in *. repeat split; try lia. intros _. right. reflexivity.
      + destruct (blen (vis (adv (n + cn) st)) <? l - cn) eqn:Eb; [discriminate|].
        inversion H; subst. unfold set_off, adv in *. cbn [p_all p_pos p_lim p_rsize] in *. rewrite Elim in *.
        unfold vis in Eb. cbn [p_all p_pos p_lim] in Eb. rewrite blen_drop in Eb.
        repeat split; try lia. intros _. exact (Hs eq_refl).
  Qed.

  (* more choices than bytes left: the walk has hit an error *)
  Lemma brp_walk_terminates o : forall w st,
    in_range st -> rsize_ok st -> (N.to_nat (blen (p_all st) - p_pos st) < length w)%nat ->
    fst (snd (brp_walk hok o w st)) <> None.
  Proof.
    induction w as [|ch w IH]; intros st Hr Hs Hl; [cbn in Hl; lia|]. cbn [brp_walk]. destruct ch.
    - destruct (brp_next hok o st) as [[[c d] st1]|e] eqn:E; [|cbn [snd fst]; discriminate].
      destruct (brp_next_progress _ _ _ _ Hr Hs E) as (Ha & Hp & Hr1 & Hs1). cbn [snd].
      apply IH; try assumption. unfold in_range in *. rewrite Ha in *. cbn [length] in Hl. lia.
    - destruct (brp_skip o st) as [[m st1]|e] eqn:E; [|cbn [snd fst]; discriminate].
      destruct (brp_skip_progress _ _ _ _ Hr Hs E) as (Ha & Hp & Hr1 & Hs1). cbn [snd].
      apply IH; try assumption. unfold in_range in *. rewrite Ha in *. cbn [length] in Hl. lia.
  Qed.

  Lemma brp_open_state o seek file v roots st0 : brp_open hdrdec o seek file = Ok (v, roots, st0) ->
    p_all st0 = file /\ rsize_ok st0.
  Proof.
    unfold brp_open. intros H.
    destruct (read_header hdrdec (o_maxh o) file) as [[[[rs ver] rest] used]|] eqn:E; [|discriminate].
    destruct (ver =? 1).
    { inversion H; subst. cbn [p_all]. split; [reflexivity|]. intros _. left. reflexivity. }
    destruct (ver =? 2); [|discriminate].
    destruct (read_v2hdr rest) as [[h rest2]|]; [|discriminate]. cbv zeta in H.
    destruct (negb seek && _); [discriminate|].
    match type of H with context [read_header hdrdec (o_maxh o) ?x] =>
      destruct (read_header hdrdec (o_maxh o) x) as [[[[roots1 v1] rest3] used1]|] end; [|discriminate].
    destruct (v1 =? 1); [|discriminate]. inversion H; subst.
    unfold set_off, adv, rsize_ok. cbn [p_all p_lim p_rsize]. split; [reflexivity|discriminate].
  Qed.

  Lemma vis_beyond st : blen (p_all st) <= p_pos st -> vis st = [].
  Proof.
    intros H. unfold vis. rewrite (drop_ge (p_pos st) (p_all st)) by exact H.
    destruct (p_lim st); [destruct n; reflexivity|reflexivity].
  Qed.

  (* NewBlockReader + any choice string longer than the file: the walk ended with an error *)
  Theorem brp_run_terminates o seek file w v roots st0 r :
    (length file < length w)%nat ->
    brp_run hok hdrdec o seek file w = Ok (v, roots, st0, r) -> fst (snd r) <> None.
  Proof.
    unfold brp_run. intros Hl H.
    destruct (brp_open hdrdec o seek file) as [[[v' roots'] st]|] eqn:E; [|discriminate].
    inversion H; subst. destruct (brp_open_state _ _ _ _ _ _ E) as (Ha & Hs).
    destruct (N.le_gt_cases (p_pos st0) (blen (p_all st0))) as [Hin|Hout].
    - apply brp_walk_terminates; [exact Hin|exact Hs|]. rewrite Ha. unfold blen. lia.
    - destruct w as [|ch w]; [cbn in Hl; lia|]. cbn [brp_walk].
      pose proof (vis_beyond st0 ltac:(lia)) as Hv. destruct ch.
      + unfold brp_next. rewrite Hv. unfold next_block, read_node, ld_read, ld_read_size. cbn. discriminate.
      + unfold brp_skip. rewrite Hv. unfold ld_read_size. cbn. discriminate.
  Qed.

  (* ---- the end of the stream is a terminal state: calling again answers io.EOF again ---- *)
  Lemma next_block_at_end o : next_block hok o [] = Err EEof.
  Proof. reflexivity. Qed.
  Lemma next_block_root_at_end : next_block_root hok [] = Err EEof.
  Proof. reflexivity. Qed.
  Lemma again_next_at_end o : forall k, again_next hok k o [] = repeat tag_eof k.
  Proof. induction k as [|k IH]; [reflexivity|]. cbn [again_next repeat]. cbn. f_equal. exact IH. Qed.
  Lemma brp_at_end o st : vis st = [] ->
    brp_next hok o st = Err EEof /\ brp_skip o st = Err EEof /\ end_state EEof st = st.
  Proof.
    intros Hv. unfold brp_next, brp_skip, end_state. rewrite Hv. repeat split; reflexivity.
  Qed.
  (* ... so a walk that has exhausted the stream keeps answering EOF, whatever is called and however often *)
  Lemma brp_walk_at_end o : forall w st, vis st = [] -> w <> [] ->
    brp_walk hok o w st = ([], (Some EEof, st)).
  Proof.
    intros w st Hv Hw. destruct w as [|ch w]; [congruence|]. cbn [brp_walk].
    destruct (brp_at_end o st Hv) as (Hn & Hs & He). destruct ch; [rewrite Hn|rewrite Hs]; rewrite He; reflexivity.
  Qed.

  (* ---- the entry point ---- *)
  Theorem tot_brskip_total o seek file w :
    o_maxh o <= go_max_alloc -> o_maxs o <= go_max_alloc -> (length file < length w)%nat ->
    (exists e, tot_brskip hok hdrdec o seek file w = TOpen e /\ err_total e) \/
    (exists e, tot_brskip hok hdrdec o seek file w = TEnd e /\ err_total e).
  Proof.
    intros H1 H2 Hl. unfold tot_brskip. rewrite allocs_panic_false.
    2:{ eapply Forall_weaken; [|apply brp_run_allocs_bound]. unfold brp_buf. cbv beta.
        unfold max_digest_alloc, go_max_alloc in *. intros a [H|[H|H]]; lia. }
    destruct (brp_run hok hdrdec o seek file w) as [[[[v roots] st0] [steps [[e|] st']]]|e] eqn:E.
    - right. exists e. split; [reflexivity|].
      unfold brp_run in E. destruct (brp_open hdrdec o seek file) as [[[v' roots'] st]|]; [|discriminate].
      injection E as _ _ _ Hw. eapply (brp_walk_end_total o w st). rewrite Hw. reflexivity.
    - exfalso. exact (brp_run_terminates _ _ _ _ _ _ _ _ Hl E eq_refl).
    - left. exists e. split; [reflexivity|].
      unfold brp_run in E. destruct (brp_open hdrdec o seek file) as [[[v' roots'] st]|e'] eqn:Eo; [discriminate|].
      inversion E; subst. eapply brp_open_err_total; eassumption.
  Qed.
End Brp.
