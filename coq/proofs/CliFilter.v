(* C19: car filter (lib.FilterCar without --append): the BlockReader over a valid input feeds a
   default-option ReadWrite blockstore; the output is byte for byte the CARv1 / CARv2 of the
   de-duplicated selected blocks under the filtered roots. *)
From GoCar Require Import Bytes Varint Cid Header Frame V2Header Scan Index Store CliCmds.
From GoCarProofs Require Import BytesFacts VarintFacts CidFacts HeaderFacts ScanFacts ScanTrunc ScanTruncV2 StoreInv CliBase CliWalk CliProducers.

(* ---- the index's multihash test = a test on the stored blocks --------------------------------------- *)
Lemma mh_of_parse c p : cid_parse c = Some p -> mh_of c = Some (c_mhcode p, c_digest p).
Proof. intros H. unfold mh_of. rewrite H. reflexivity. Qed.

Lemma bytes_eqb_sym a b : bytes_eqb a b = bytes_eqb b a.
Proof.
  destruct (bytes_eqb a b) eqn:E.
  - apply bytes_eqb_eq in E. subst. symmetry. apply bytes_eqb_refl.
  - destruct (bytes_eqb b a) eqn:E2; [|reflexivity]. apply bytes_eqb_eq in E2. subst.
    rewrite bytes_eqb_refl in E. discriminate.
Qed.

Lemma has_mh_records c code dg : mh_of c = Some (code, dg) -> forall st pos,
  existsb (fun r => r_code r =? code) (filter (has_digest dg) (records_from pos st))
  = existsb (same_mh c) (map fst st).
Proof.
  intros Hc. induction st as [|[c' d'] t IH]; intros pos; [reflexivity|].
  cbn [records_from map fst existsb]. unfold same_mh at 1. rewrite Hc. unfold mh_of at 1.
  destruct (cid_parse c') as [q|] eqn:Eq.
  - cbn [filter]. unfold has_digest at 1. cbn [r_digest].
    rewrite (bytes_eqb_sym dg (c_digest q)), (N.eqb_sym code (c_mhcode q)).
    destruct (bytes_eqb (c_digest q) dg); cbn [existsb r_code]; rewrite IH.
    + rewrite andb_true_r. reflexivity.
    + rewrite andb_false_r. reflexivity.
  - rewrite IH. reflexivity.
Qed.

Lemma roots_opt_false roots : roots_opt false roots = Some roots.
Proof. destruct roots; reflexivity. Qed.

Lemma zerosN_40_blen : blen (pragma ++ zerosN 40) = 51.
Proof. reflexivity. Qed.

(* index.WriteTo issues the same bytes Marshal describes *)
Lemma concat_swi_chunks b : concat (swi_chunks b) = swi_marshal b.
Proof. unfold swi_chunks, swi_marshal. cbn [concat]. rewrite app_nil_r. reflexivity. Qed.
Lemma concat_mwi_chunks m : concat (mwi_chunks m) = mwi_marshal m.
Proof.
  unfold mwi_chunks, mwi_marshal. cbn [concat]. f_equal.
  induction m as [|b t IH]; [reflexivity|]. cbn [map concat]. rewrite concat_app, IH, concat_swi_chunks. reflexivity.
Qed.
Lemma concat_idx_chunks i : concat (idx_chunks i) = idx_write i.
Proof.
  unfold idx_chunks, idx_write. cbn [concat]. f_equal. destruct i as [m|m]; cbn [idx_marshal].
  - apply concat_mwi_chunks.
  - unfold mh_marshal. cbn [concat]. f_equal.
    induction m as [|[code w] t IH]; [reflexivity|]. cbn [map concat fst snd].
    rewrite concat_app, IH. cbn [concat]. rewrite concat_mwi_chunks, <- app_assoc. reflexivity.
Qed.
Lemma concat_v2hdr_chunks h : concat (v2hdr_chunks h) = enc_v2hdr h.
Proof. unfold v2hdr_chunks, enc_v2hdr. cbn [concat]. rewrite app_nil_r, <- !app_assoc. reflexivity. Qed.

(* the CARv2 files the commands write, in the container form the reader lemmas speak about *)
Lemma indexless_file_v2file hb bs :
  indexless_file hb bs = v2file 0 0 0 0 (payload_hb hb bs) [].
Proof. unfold indexless_file, v2file. cbn [zerosN N.to_nat zeros app]. rewrite app_nil_r. reflexivity. Qed.

Lemma new_header_small n : 51 + n < two64 -> new_header n = mkv2 0 0 51 n (51 + n).
Proof. intros H. unfold new_header. rewrite wrap64_small by exact H. reflexivity. Qed.

Lemma indexed_file_v2file codec hb bs i0 : idx_new codec = Some i0 ->
  51 + blen (payload_hb hb bs) < two64 ->
  indexed_file codec hb bs
  = Some (v2file 0 0 0 (51 + blen (payload_hb hb bs)) (payload_hb hb bs)
                 (idx_write (idx_load (regen_records_hb hb bs) i0))).
Proof.
  intros Hi H. unfold indexed_file, v2file. rewrite Hi, new_header_small by exact H.
  cbn [zerosN N.to_nat zeros app]. reflexivity.
Qed.

Set Default Proof Using "All".
Section Filter.
  Variable hok : bytes -> bytes -> option bool.
  Variable hdrdec : bytes -> option (list bytes * N).
  Hypothesis pragma_ok : hdrdec pragma_body = Some ([], 2).

  (* the exact state of a fault-free default-option session: ver = 1 or 2 as --version says *)
  Definition xprefix (ver : N) : bytes := if ver =? 1 then [] else pragma ++ zerosN 40.

  Record XInv (s : wstate) (ver : N) (hb : bytes) (st : list block) : Prop := mkXInv {
    x_file : ws_file s = xprefix ver ++ ld hb ++ sections st;
    x_pos : ws_pos s = blen (ld hb ++ sections st);
    x_idx : ws_idx s = ii_load (records_from (blen (ld hb)) st) [];
    x_opts : ws_opts s = filter_opts ver;
    x_nf : d_faults (ws_dev s) = [];
    x_closed : ws_closed s = false;
    x_fin : ws_finalized s = false }.

  Lemma data_base_filter ver : ver = 1 \/ ver = 2 -> data_base (filter_opts ver) = blen (xprefix ver).
  Proof. intros [->| ->]; reflexivity. Qed.

  Lemma open_new_filter ver roots : ver = 1 \/ ver = 2 ->
    exists s, open_new KBlockstore (filter_opts ver) false roots [] = Ok s /\
              XInv s ver (enc_header (Some roots) 1) [].
  Proof.
    intros Hver. set (hb := enc_header (Some roots) 1).
    assert (Hchunks : concat (header_chunks false roots) = ld hb).
    { unfold header_chunks. rewrite roots_opt_false. apply concat_ld_chunks_1. }
    destruct Hver as [-> | ->]; unfold open_new; cbn [filter_opts w_v1 N.eqb Pos.eqb negb].
    - destruct (write_chunks_nofault (header_chunks false roots) (mkdev [] [] []) (data_base (filter_opts 1)) eq_refl)
        as (dv & Hw & Hf & Hfile).
      rewrite Hw. cbn [negb]. eexists. split; [reflexivity|].
      rewrite Hchunks in *. cbn [d_file] in Hfile.
      change (data_base (filter_opts 1)) with (blen (@nil byte)) in Hfile. rewrite write_at_end in Hfile.
      constructor; cbn [ws_file ws_dev ws_pos ws_idx ws_opts ws_closed ws_finalized xprefix N.eqb Pos.eqb sections map concat];
        try reflexivity; try assumption.
      + unfold ws_file. cbn [ws_dev]. rewrite Hfile, app_nil_r. reflexivity.
      + rewrite app_nil_r. change (data_base (filter_opts 1)) with 0. lia.
    - rewrite dev_write_nofault by reflexivity. cbn [negb d_file d_log].
      destruct (write_chunks_nofault (header_chunks false roots)
                  (mkdev (write_at [] 0 pragma) [WrAt 0 pragma] []) (data_base (filter_opts 2)) eq_refl)
        as (dv & Hw & Hf & Hfile).
      rewrite Hw. cbn [negb]. eexists. split; [reflexivity|].
      rewrite Hchunks in *. cbn [d_file] in Hfile.
      change (write_at [] 0 pragma) with pragma in Hfile.
      change (data_base (filter_opts 2)) with 51 in *.
      rewrite write_at_beyond in Hfile by (try apply ld_nonempty; rewrite blen_pragma; lia).
      constructor; cbn [ws_file ws_dev ws_pos ws_idx ws_opts ws_closed ws_finalized xprefix N.eqb Pos.eqb sections map concat];
        try reflexivity; try assumption.
      + unfold ws_file. cbn [ws_dev]. rewrite Hfile, app_nil_r, <- app_assoc. reflexivity.
      + rewrite app_nil_r. lia.
  Qed.

  (* ShouldPut under the filter's options *)
  Lemma should_put_filter s ver hb st c p : XInv s ver hb st -> cid_parse c = Some p ->
    should_put (ws_opts s) (ws_idx s) c p
    = if is_identity p then Ok false
      else if max_index_cid <? blen c then Err ECidTooLarge
      else Ok (negb (existsb (same_mh c) (map fst st))).
  Proof.
    intros X Hp. rewrite (x_opts _ _ _ _ X), (x_idx _ _ _ _ X).
    unfold should_put. cbn [filter_opts w_storeid w_maxcid w_dups w_whole negb andb].
    destruct (is_identity p); [reflexivity|].
    destruct (max_index_cid <? blen c); [reflexivity|].
    unfold ii_has_multihash. rewrite ii_with_digest_load_nil.
    rewrite (has_mh_records c _ _ (mh_of_parse c p Hp)). reflexivity.
  Qed.

  Lemma put_skip s c d p : ws_closed s = false -> ws_finalized s = false -> cid_parse c = Some p ->
    should_put (ws_opts s) (ws_idx s) c p = Ok false ->
    bs_put_many s (@cons block (c, d) (@nil block)) = (s, ONil).
  Proof.
    intros Hc Hf Hp Hs. unfold bs_put_many. rewrite Hc, Hf. cbn [put_many_loop]. rewrite Hp.
    unfold put_one. rewrite Hs. reflexivity.
  Qed.

  Lemma put_refused s c d p e : ws_closed s = false -> ws_finalized s = false -> cid_parse c = Some p ->
    should_put (ws_opts s) (ws_idx s) c p = Err e ->
    bs_put_many s (@cons block (c, d) (@nil block)) = (s, OErr e).
  Proof.
    intros Hc Hf Hp Hs. unfold bs_put_many. rewrite Hc, Hf. cbn [put_many_loop]. rewrite Hp.
    unfold put_one. rewrite Hs. reflexivity.
  Qed.

  Lemma put_stores s ver hb st c d p : ver = 1 \/ ver = 2 -> XInv s ver hb st -> cid_parse c = Some p ->
    should_put (ws_opts s) (ws_idx s) c p = Ok true ->
    exists s', bs_put_many s (@cons block (c, d) (@nil block)) = (s', ONil) /\ XInv s' ver hb (st ++ [(c, d)]).
  Proof.
    intros Hver X Hp Hs. destruct X as [Hfile Hpos Hidx Hopts Hnf Hcl Hfin].
    unfold bs_put_many. rewrite Hcl, Hfin. cbn [put_many_loop]. rewrite Hp.
    unfold put_one. rewrite Hs.
    destruct (write_chunks_nofault (ld_chunks [c; d]) (ws_dev s) (data_base (ws_opts s) + ws_pos s) Hnf)
      as (dv & Hw & Hf' & Hfile').
    rewrite Hw. rewrite concat_ld_chunks_2 in *. rewrite blen_enc_section.
    eexists. split; [reflexivity|].
    assert (Hoff : data_base (ws_opts s) + ws_pos s = blen (ws_file s)).
    { rewrite Hopts, data_base_filter by exact Hver. rewrite Hfile, Hpos, (blen_app (xprefix ver)). reflexivity. }
    unfold ws_file in Hoff. rewrite Hoff in Hfile'. rewrite write_at_end in Hfile'.
    constructor; unfold ws_file, set_idx, set_dev; cbn [ws_closed ws_finalized ws_roots ws_opts ws_pos ws_dev ws_idx];
      try assumption.
    - unfold ws_file in Hfile. rewrite Hfile', Hfile, sections_app. cbn [sections map concat fst snd].
      rewrite app_nil_r, <- !app_assoc. reflexivity.
    - rewrite sections_app. cbn [sections map concat fst snd]. rewrite app_nil_r.
      rewrite Hpos, !blen_app, blen_enc_section. lia.
    - rewrite Hidx, records_from_app. cbn [records_from]. rewrite Hp. rewrite ii_load_snoc.
      rewrite Hpos, blen_app. reflexivity.
  Qed.

  (* the store keeps the first block of every multihash, and no identity block *)
  Lemma put_each_spec ver hb : ver = 1 \/ ver = 2 -> forall chosen s st seen,
    XInv s ver hb st ->
    (forall x, existsb (same_mh x) seen = existsb (same_mh x) (map fst st)) ->
    Forall (blk_ok default_maxs) chosen -> cids_indexable chosen ->
    exists s', put_each s chosen = (s', true) /\ XInv s' ver hb (st ++ dedup_from seen chosen).
  Proof.
    intros Hver. induction chosen as [|[c d] t IH]; intros s st seen X Hseen Hok Hix.
    - exists s. cbn [put_each dedup_from]. rewrite app_nil_r. auto.
    - inversion Hok as [|? ? Hb Hok']; subst. inversion Hix as [|? ? Hck Hix']; subst. cbn [fst] in Hck.
      destruct (cid_rd_ok_parse c (proj1 Hb)) as (p & Hp & _).
      pose proof (should_put_filter s ver hb st c p X Hp) as Hsp.
      replace (max_index_cid <? blen c) with false in Hsp by lia.
      assert (Hdd : dedup_from seen ((c, d) :: t)
                    = if is_identity p || existsb (same_mh c) (map fst st) then dedup_from seen t
                      else (c, d) :: dedup_from (c :: seen) t).
      { cbn [dedup_from fst]. unfold is_identity_cid. rewrite Hp, Hseen. reflexivity. }
      rewrite Hdd. cbn [put_each].
      destruct (is_identity p) eqn:Eid.
      + cbn [orb]. destruct (IH s st seen X Hseen Hok' Hix') as (s2 & Hpe & X2).
        exists s2. split; [|exact X2].
        rewrite (put_skip s c d p (x_closed _ _ _ _ X) (x_fin _ _ _ _ X) Hp Hsp). exact Hpe.
      + cbn [orb]. destruct (existsb (same_mh c) (map fst st)) eqn:Ex; cbn [negb] in Hsp.
        * destruct (IH s st seen X Hseen Hok' Hix') as (s2 & Hpe & X2).
          exists s2. split; [|exact X2].
          rewrite (put_skip s c d p (x_closed _ _ _ _ X) (x_fin _ _ _ _ X) Hp Hsp). exact Hpe.
        * destruct (put_stores s ver hb st c d p Hver X Hp Hsp) as (s1 & Hput & X1).
          destruct (IH s1 (st ++ [(c, d)]) (c :: seen) X1) as (s2 & Hpe & X2); try assumption.
          { intros x. cbn [existsb]. rewrite map_app, existsb_app. cbn [map fst existsb].
            rewrite orb_false_r, Hseen. apply orb_comm. }
          exists s2. split; [rewrite Hput; exact Hpe|]. rewrite <- app_assoc in X2. exact X2.
  Qed.

  (* ---- Finalize ------------------------------------------------------------------------------------------ *)
  Definition filter_index (hb : bytes) (st : list block) : index :=
    idx_load (ii_load (records_from (blen (ld hb)) st) []) (IdxMh []).

  Lemma finalize_v1 s hb st : XInv s 1 hb st ->
    exists s', bs_finalize s = (s', ONil) /\ ws_file s' = payload_hb hb st.
  Proof.
    intros X. unfold bs_finalize, bs_finalize_ro. rewrite (x_opts _ _ _ _ X). cbn [filter_opts w_v1 N.eqb Pos.eqb].
    unfold bs_close. cbn [set_flags ws_opts ws_finalized ws_closed]. rewrite (x_opts _ _ _ _ X).
    cbn [filter_opts w_v1 N.eqb Pos.eqb negb andb]. rewrite (x_closed _ _ _ _ X).
    eexists. split; [reflexivity|]. unfold ws_file. cbn [set_flags ws_dev].
    pose proof (x_file _ _ _ _ X) as Hf. unfold ws_file in Hf. rewrite Hf. reflexivity.
  Qed.

  Lemma finalize_v2 s hb st : XInv s 2 hb st -> 51 + blen (payload_hb hb st) < two64 ->
    exists s', bs_finalize s = (s', ONil) /\
      ws_file s' = v2file 0 0 0 (51 + blen (payload_hb hb st)) (payload_hb hb st)
                          (idx_write (filter_index hb st)).
  Proof.
    intros X Hfit. destruct X as [Hfile Hpos Hidx Hopts Hnf Hcl Hfin].
    set (P := payload_hb hb st) in *.
    assert (HposP : ws_pos s = blen P) by (rewrite Hpos; reflexivity).
    unfold bs_finalize, bs_finalize_ro. rewrite Hopts. cbn [filter_opts w_v1 N.eqb Pos.eqb].
    rewrite Hcl, Hfin. unfold store_finalize.
    cbn [set_flags ws_opts ws_pos ws_idx ws_dev]. rewrite Hopts.
    cbn [filter_opts w_storeid w_codec]. unfold ii_flatten. cbn [idx_new codec_mh_sorted codec_sorted N.eqb Pos.eqb].
    set (h := set_fully_indexed false (with_data_size (ws_pos s) (hdr_of (filter_opts 2)))).
    assert (Hh : h = mkv2 0 0 51 (blen P) (51 + blen P)).
    { unfold h, hdr_of, filter_opts, new_header, with_data_size, set_fully_indexed.
      cbn [w_dpad w_ipad N.ltb N.compare h_hi h_lo h_doff h_dsize h_ioff N.land].
      rewrite HposP. change (wrap64 (51 + 0)) with 51.
      rewrite wrap64_small by lia. f_equal. lia. }
    set (fi := idx_load (ii_flatten_records (ws_idx s)) (IdxMh [])).
    destruct (write_chunks_nofault (idx_chunks fi) (ws_dev s) (h_ioff h) Hnf) as (dv1 & Hw1 & Hf1 & Hfile1).
    rewrite Hw1. cbn [negb].
    destruct (write_chunks_nofault (v2hdr_chunks h) dv1 pragma_size Hf1) as (dv2 & Hw2 & Hf2 & Hfile2).
    rewrite Hw2.
    unfold bs_close. cbn [set_dev set_flags ws_opts ws_finalized ws_closed]. rewrite Hopts.
    cbn [filter_opts w_v1 N.eqb Pos.eqb negb andb].
    eexists. split; [reflexivity|].
    unfold ws_file. cbn [set_dev set_flags ws_dev].
    rewrite Hfile2, Hfile1, concat_idx_chunks, concat_v2hdr_chunks.
    unfold ws_file in Hfile. rewrite Hfile. cbn [xprefix N.eqb Pos.eqb].
    assert (Hio : h_ioff h = blen ((pragma ++ zerosN 40) ++ ld hb ++ sections st)).
    { rewrite Hh. cbn [h_ioff]. rewrite blen_app, zerosN_40_blen. reflexivity. }
    rewrite Hio, write_at_end.
    replace (((pragma ++ zerosN 40) ++ ld hb ++ sections st) ++ idx_write fi)
      with (pragma ++ zerosN 40 ++ (ld hb ++ sections st) ++ idx_write fi) by (rewrite <- !app_assoc; reflexivity).
    change pragma_size with (blen pragma). rewrite write_at_mid.
    rewrite (drop_app_eq (zerosN 40) _ (blen (enc_v2hdr h))) by (rewrite blen_enc_v2hdr; reflexivity).
    unfold v2file. cbn [zerosN N.to_nat zeros app]. rewrite Hh.
    unfold fi, filter_index, ii_flatten_records. rewrite Hidx. reflexivity.
  Qed.

  (* ---- the command ---------------------------------------------------------------------------------------- *)
  Definition filter_roots (sel : list bytes) (inv : bool) (roots : list bytes) : list bytes :=
    filter (match_filter sel inv) roots.
  Definition filter_hb (sel : list bytes) (inv : bool) (roots : list bytes) : bytes :=
    enc_header (Some (filter_roots sel inv roots)) 1.

  Lemma chosen_ok sel inv bs : blocks_ok bs -> cids_indexable bs ->
    Forall (blk_ok default_maxs) (filter (fun b => match_filter sel inv (fst b)) bs) /\
    cids_indexable (filter (fun b => match_filter sel inv (fst b)) bs).
  Proof.
    intros Hb Hix. split; apply Forall_forall; intros x Hx; apply filter_In in Hx; destruct Hx as [Hin _].
    - exact (proj1 (Forall_forall _ _) Hb x Hin).
    - exact (proj1 (Forall_forall _ _) Hix x Hin).
  Qed.

  (* car filter --version 1: whatever the output file was before, it is the CARv1 of the kept blocks *)
  Theorem filter_car_v1 sel inv hb roots bs file outf :
    hdr_ok hdrdec hb roots -> blocks_ok bs -> hashes_ok hok bs -> cids_indexable bs ->
    valid_input hb bs file ->
    filter_car hok hdrdec sel inv 1 false file outf
    = (true, Some (payload_hb (filter_hb sel inv roots) (filter_spec sel inv bs))).
  Proof.
    intros Hh Hb Hg Hix Hv.
    destruct (br_open_valid hok hdrdec pragma_ok hb roots bs file Hh Hv) as (v & a & b & Ho & _).
    unfold filter_car. rewrite Ho. cbn [N.eqb Pos.eqb orb negb].
    destruct (open_new_filter 1 (filter_roots sel inv roots) (or_introl eq_refl)) as (s0 & Hopen & X0).
    fold (filter_roots sel inv roots). rewrite Hopen.
    rewrite (scan_all_valid hok hdrdec pragma_ok bs Hb Hg). cbn [s_blocks s_end].
    destruct (chosen_ok sel inv bs Hb Hix) as (Hcb & Hcx).
    destruct (put_each_spec 1 _ (or_introl eq_refl) _ s0 [] [] X0 (fun _ => eq_refl) Hcb Hcx) as (s1 & Hpe & X1).
    rewrite Hpe. cbn [app] in X1.
    destruct (finalize_v1 s1 _ _ X1) as (s2 & Hfin & Hfile). rewrite Hfin, Hfile. reflexivity.
  Qed.

  (* car filter --version 2 *)
  Theorem filter_car_v2 sel inv hb roots bs file outf :
    hdr_ok hdrdec hb roots -> blocks_ok bs -> hashes_ok hok bs -> cids_indexable bs ->
    valid_input hb bs file ->
    51 + blen (payload_hb (filter_hb sel inv roots) (filter_spec sel inv bs)) < two64 ->
    filter_car hok hdrdec sel inv 2 false file outf
    = (true, Some (v2file 0 0 0 (51 + blen (payload_hb (filter_hb sel inv roots) (filter_spec sel inv bs)))
                          (payload_hb (filter_hb sel inv roots) (filter_spec sel inv bs))
                          (idx_write (filter_index (filter_hb sel inv roots) (filter_spec sel inv bs))))).
  Proof.
    intros Hh Hb Hg Hix Hv Hfit.
    destruct (br_open_valid hok hdrdec pragma_ok hb roots bs file Hh Hv) as (v & a & b & Ho & _).
    unfold filter_car. rewrite Ho. cbn [N.eqb Pos.eqb orb negb].
    destruct (open_new_filter 2 (filter_roots sel inv roots) (or_intror eq_refl)) as (s0 & Hopen & X0).
    fold (filter_roots sel inv roots). rewrite Hopen.
    rewrite (scan_all_valid hok hdrdec pragma_ok bs Hb Hg). cbn [s_blocks s_end].
    destruct (chosen_ok sel inv bs Hb Hix) as (Hcb & Hcx).
    destruct (put_each_spec 2 _ (or_intror eq_refl) _ s0 [] [] X0 (fun _ => eq_refl) Hcb Hcx) as (s1 & Hpe & X1).
    rewrite Hpe. cbn [app] in X1.
    destruct (finalize_v2 s1 _ _ X1 Hfit) as (s2 & Hfin & Hfile). rewrite Hfin, Hfile. reflexivity.
  Qed.
End Filter.
