(* C19 groundwork: the root-module header reader on constructed payloads, what a "valid input
   archive" is (a CARv1 payload, bare or inside any CARv2 container), and what carv2.NewReader /
   DataReader / the BlockReader make of it. *)
From GoCar Require Import Bytes Varint Cid Header Frame V2Header Scan Index Store CliCmds.
From GoCarProofs Require Import BytesFacts VarintFacts CidFacts HeaderFacts ScanFacts ScanTrunc ScanTruncV2 StoreInv.
Ltac Zify.zify_post_hook ::= Z.div_mod_to_equations.

(* ---- encoding/binary.ReadUvarint reads back what PutUvarint wrote ------------------------------- *)
Lemma read_std_put_gen : forall fuel rf n i x rest,
  (S fuel <= rf)%nat -> n < 128 ^ N.of_nat (S fuel) -> N.of_nat (S fuel) + i <= 9 ->
  read_uv_std_f rf i x (put_uv_f (S fuel) n ++ rest)
  = VOk (x + n * 2 ^ (7 * i)) rest (i + uv_size_f (S fuel) n).
Proof.
  induction fuel as [|f IH]; intros rf n i x rest Hrf Hn Hi;
    (destruct rf as [|rf']; [lia|]); cbn [put_uv_f]; rewrite (uv_size_f_S _ n); destruct (n <? 128) eqn:E.
  - cbn [app read_uv_std_f]. rewrite b2n_n2b by lia. rewrite E.
    replace ((i =? 9) && (1 <? n)) with false by lia. reflexivity.
  - change (128 ^ N.of_nat 1) with 128 in Hn. lia.
  - cbn [app read_uv_std_f]. rewrite b2n_n2b by lia. rewrite E.
    replace ((i =? 9) && (1 <? n)) with false by lia. reflexivity.
  - cbn [app read_uv_std_f].
    assert (Hm : n mod 128 < 128) by (apply N.mod_lt; lia).
    rewrite b2n_n2b by lia.
    replace (128 + n mod 128 <? 128) with false by lia.
    replace (i =? 9) with false by lia.
    assert (Hdiv : n / 128 < 128 ^ N.of_nat (S f)).
    { rewrite pow128_succ in Hn. apply N.div_lt_upper_bound; lia. }
    rewrite (IH rf' (n / 128) (i + 1) _ rest); try lia.
    f_equal; [|lia].
    replace (7 * (i + 1)) with (7 * i + 7) by lia. rewrite N.pow_add_r.
    change (2 ^ 7) with 128.
    pose proof (N.div_mod n 128).
    replace (128 + n mod 128 - 128) with (n mod 128) by lia. nia.
Qed.

Theorem read_uv_std_put_uv n rest : n < two63 ->
  read_uv_std (put_uv n ++ rest) = VOk n rest (uv_size n).
Proof.
  intros Hn. unfold read_uv_std, put_uv, uv_size.
  assert (H9 : n < 128 ^ N.of_nat 9) by (unfold two63 in Hn; change (128 ^ N.of_nat 9) with 9223372036854775808; lia).
  rewrite (put_uv_f_fuel 8 10 n) by (try lia; exact H9).
  rewrite (uv_size_f_fuel 8 10 n) by (try lia; exact H9).
  rewrite (read_std_put_gen 8 11 n 0 0 rest); try lia; try exact H9.
  f_equal. cbn. lia.
Qed.

Lemma ld_nonempty' hb rest : ld hb ++ rest <> [].
Proof. pose proof (ld_nonempty hb). destruct (ld hb); [congruence|discriminate]. Qed.

(* root-module util.LdRead on a length-prefixed frame *)
Lemma ld_read_root_ld hb rest : blen hb <= root_max_section ->
  ld_read_root (ld hb ++ rest) = Ok (hb, rest).
Proof.
  intros Hmax. unfold ld_read_root.
  destruct (ld hb ++ rest) as [|b0 t0] eqn:E; [exact (False_ind _ (ld_nonempty' _ _ E))|].
  rewrite <- E. unfold ld. rewrite <- app_assoc.
  rewrite read_uv_std_put_uv by (unfold root_max_section, two63 in *; lia).
  rewrite wrap64_small by (unfold root_max_section, two64 in *; lia).
  replace (root_max_section <? blen hb) with false by lia.
  replace (blen (hb ++ rest) <? blen hb) with false by (rewrite blen_app; lia).
  rewrite take_app, drop_app. reflexivity.
Qed.

Lemma blen_ld_pos hb : 1 <= blen (ld hb).
Proof. rewrite blen_ld. unfold ld_size. pose proof (uv_size_pos (blen hb)). lia. Qed.

Lemma enc_sections_app a b : enc_sections (a ++ b) = enc_sections a ++ enc_sections b.
Proof. unfold enc_sections. rewrite map_app, concat_app. reflexivity. Qed.
Lemma enc_sections_cons c d t : enc_sections ((c, d) :: t) = enc_section c d ++ enc_sections t.
Proof. reflexivity. Qed.
Lemma enc_sections_sections bs : enc_sections bs = sections bs.
Proof. reflexivity. Qed.

(* any CARv2 around a payload: characteristics hi/lo, data padding dpad, any IndexOffset field,
   anything (index padding, an index, garbage) after the payload *)
Definition v2file (hi lo dpad ioff : N) (payload trailer : bytes) : bytes :=
  pragma ++ enc_v2hdr (mkv2 hi lo (51 + dpad) (blen payload) ioff) ++ zerosN dpad ++ payload ++ trailer.

Lemma payload_nonempty hb bs : 1 <= blen (payload_hb hb bs).
Proof. unfold payload_hb. rewrite blen_app. pose proof (blen_ld_pos hb). lia. Qed.

Lemma v2file_hdr_ok hi lo dpad ioff payload trailer :
  hi < two64 -> lo < two64 -> ioff < two63 -> 1 <= blen payload ->
  51 + dpad + blen payload + blen trailer < two63 ->
  v2hdr_ok (mkv2 hi lo (51 + dpad) (blen payload) ioff).
Proof. intros. unfold v2hdr_ok. cbn [h_hi h_lo h_doff h_dsize h_ioff]. unfold two63, two64 in *. lia. Qed.

Lemma blen_v2_prefix h dpad : blen (pragma ++ enc_v2hdr h ++ zerosN dpad) = 51 + dpad.
Proof. rewrite !blen_app, blen_enc_v2hdr, blen_zerosN. change (blen pragma) with 11. lia. Qed.

Lemma v2file_split hi lo dpad ioff payload trailer :
  v2file hi lo dpad ioff payload trailer
  = (pragma ++ enc_v2hdr (mkv2 hi lo (51 + dpad) (blen payload) ioff) ++ zerosN dpad) ++ payload ++ trailer.
Proof. unfold v2file. rewrite <- !app_assoc. reflexivity. Qed.

Lemma blen_v2file hi lo dpad ioff payload trailer :
  blen (v2file hi lo dpad ioff payload trailer) = 51 + dpad + blen payload + blen trailer.
Proof. rewrite v2file_split, blen_app, blen_v2_prefix, blen_app. lia. Qed.


Set Default Proof Using "All".
Section Base.
  Variable hok : bytes -> bytes -> option bool.
  Variable hdrdec : bytes -> option (list bytes * N).
  Hypothesis pragma_ok : hdrdec pragma_body = Some ([], 2).

  (* the header bytes hb of a payload: what the oracle makes of them, and their size *)
  Definition hdr_ok (hb : bytes) (roots : list bytes) : Prop :=
    hdrdec hb = Some (roots, 1) /\ blen hb <= default_maxh.

  Lemma read_header_hb hb roots v rest maxh :
    hdrdec hb = Some (roots, v) -> blen hb <= maxh -> blen hb < two63 ->
    read_header hdrdec maxh (ld hb ++ rest) = Ok (roots, v, rest, ld_size (blen hb)).
  Proof.
    intros Hd Hmax H63. unfold read_header. rewrite ld_read_ld; try assumption; [|discriminate].
    rewrite Hd. reflexivity.
  Qed.

  Lemma hdr_ok_63 hb roots : hdr_ok hb roots -> blen hb < two63.
  Proof. intros [_ H]. unfold default_maxh, two63 in *. lia. Qed.

  Lemma root_read_header_hb hb roots rest : hdr_ok hb roots ->
    root_read_header hdrdec (ld hb ++ rest) = Ok (hb, roots, 1, rest).
  Proof.
    intros [Hd Hmax]. unfold root_read_header.
    rewrite ld_read_root_ld by (unfold root_max_section, default_maxh in *; lia).
    rewrite Hd. reflexivity.
  Qed.

  (* ---- valid input archives -------------------------------------------------------------------- *)
  (* blocks every reader and walker of the tool accepts: well-formed CID, section within the default
     MaxAllowedSectionSize *)
  Definition blocks_ok (bs : list block) : Prop := Forall (blk_ok default_maxs) bs.

  Inductive valid_input (hb : bytes) (bs : list block) : bytes -> Prop :=
  | VI_v1 : blen (payload_hb hb bs) < two63 -> valid_input hb bs (payload_hb hb bs)
  | VI_v2 hi lo dpad ioff trailer :
      hi < two64 -> lo < two64 -> ioff < two63 ->
      51 + dpad + blen (payload_hb hb bs) + blen trailer < two63 ->
      valid_input hb bs (v2file hi lo dpad ioff (payload_hb hb bs) trailer).

  (* carv2.NewReader on a CARv2 container *)
  Lemma new_reader_v2 hi lo dpad ioff payload trailer :
    v2hdr_ok (mkv2 hi lo (51 + dpad) (blen payload) ioff) ->
    new_reader hdrdec (v2file hi lo dpad ioff payload trailer)
    = Ok (mkcr 2 (mkv2 hi lo (51 + dpad) (blen payload) ioff)).
  Proof.
    intros Hh. unfold new_reader, v2file.
    rewrite (read_header_pragma hok hdrdec pragma_ok) by (unfold default_maxh; lia).
    cbn [N.eqb Pos.eqb].
    change 11 with (blen pragma). rewrite drop_app.
    rewrite <- (blen_enc_v2hdr (mkv2 hi lo (51 + dpad) (blen payload) ioff)) at 1. rewrite take_app.
    rewrite <- (app_nil_r (enc_v2hdr _)). rewrite read_v2hdr_enc by exact Hh. reflexivity.
  Qed.

  Lemma data_view_v2 hi lo dpad ioff payload trailer :
    data_view (mkcr 2 (mkv2 hi lo (51 + dpad) (blen payload) ioff)) (v2file hi lo dpad ioff payload trailer)
    = payload.
  Proof.
    unfold data_view. cbn [cr_ver cr_hdr h_doff h_dsize N.eqb Pos.eqb].
    rewrite v2file_split. rewrite <- (blen_v2_prefix (mkv2 hi lo (51 + dpad) (blen payload) ioff) dpad) at 1.
    rewrite drop_app, take_app. reflexivity.
  Qed.

  Lemma new_reader_v1 hb roots bs : hdr_ok hb roots ->
    new_reader hdrdec (payload_hb hb bs) = Ok (mkcr 1 zero_v2hdr).
  Proof.
    intros Hh. unfold new_reader, payload_hb.
    rewrite (read_header_hb hb roots 1) by (try apply Hh; eapply hdr_ok_63; exact Hh).
    reflexivity.
  Qed.

  (* what every command that goes through carv2.NewReader + DataReader sees *)
  Definition reader_of (hb : bytes) (bs : list block) (file : bytes) (r : creader) : Prop :=
    new_reader hdrdec file = Ok r /\ data_view r file = payload_hb hb bs /\
    ((cr_ver r = 1 /\ cr_hdr r = zero_v2hdr /\ file = payload_hb hb bs /\ blen (payload_hb hb bs) < two63) \/
     (cr_ver r = 2 /\ exists hi lo dpad ioff trailer,
        cr_hdr r = mkv2 hi lo (51 + dpad) (blen (payload_hb hb bs)) ioff /\
        file = v2file hi lo dpad ioff (payload_hb hb bs) trailer /\
        hi < two64 /\ lo < two64 /\ ioff < two63 /\
        51 + dpad + blen (payload_hb hb bs) + blen trailer < two63)).

  Lemma valid_reader hb roots bs file : hdr_ok hb roots -> valid_input hb bs file ->
    exists r, reader_of hb bs file r.
  Proof.
    intros Hh [H0|hi lo dpad ioff trailer H1 H2 H3 H4].
    - exists (mkcr 1 zero_v2hdr). split; [eapply new_reader_v1; exact Hh|].
      split; [reflexivity|]. left. auto.
    - pose proof (payload_nonempty hb bs) as Hp.
      assert (Hok : v2hdr_ok (mkv2 hi lo (51 + dpad) (blen (payload_hb hb bs)) ioff))
        by (apply (v2file_hdr_ok hi lo dpad ioff _ trailer); assumption).
      exists (mkcr 2 (mkv2 hi lo (51 + dpad) (blen (payload_hb hb bs)) ioff)).
      split; [apply new_reader_v2; exact Hok|]. split; [apply data_view_v2|].
      right. split; [reflexivity|]. exists hi, lo, dpad, ioff, trailer. auto 10.
  Qed.

  (* Reader.Roots *)
  Lemma reader_roots_valid hb roots bs file r : hdr_ok hb roots -> reader_of hb bs file r ->
    reader_roots hdrdec r file = Ok roots.
  Proof.
    intros Hh (_ & Hdv & _). unfold reader_roots. rewrite Hdv. unfold payload_hb.
    rewrite (read_header_hb hb roots 1) by (try apply Hh; eapply hdr_ok_63; exact Hh). reflexivity.
  Qed.

  (* ---- the BlockReader on a valid input ------------------------------------------------------------ *)
  Lemma br_open_valid hb roots bs file : hdr_ok hb roots -> valid_input hb bs file ->
    exists v a b, br_open hdrdec default_ropts file = Ok (v, roots, enc_sections bs, a, b) /\
                  (v = 1 \/ v = 2).
  Proof.
    intros Hh [H0|hi lo dpad ioff trailer H1 H2 H3 H4].
    - exists 1. do 2 eexists. unfold br_open, payload_hb. cbn [o_maxh default_ropts].
      rewrite (read_header_hb hb roots 1) by (try apply Hh; eapply hdr_ok_63; exact Hh).
      cbn [N.eqb Pos.eqb]. split; [reflexivity|auto].
    - pose proof (payload_nonempty hb bs) as Hp.
      assert (Hok : v2hdr_ok (mkv2 hi lo (51 + dpad) (blen (payload_hb hb bs)) ioff))
        by (apply (v2file_hdr_ok hi lo dpad ioff _ trailer); assumption).
      exists 2. do 2 eexists. unfold br_open, v2file. cbn [o_maxh default_ropts].
      rewrite (read_header_pragma hok hdrdec pragma_ok) by lia. cbn [N.eqb Pos.eqb].
      rewrite read_v2hdr_enc by exact Hok. cbn [h_doff h_dsize].
      replace (51 + dpad - 51) with dpad by lia.
      rewrite <- (blen_zerosN dpad) at 1. rewrite drop_app, take_app.
      unfold payload_hb at 1.
      rewrite (read_header_hb hb roots 1) by (try apply Hh; eapply hdr_ok_63; exact Hh).
      cbn [N.eqb Pos.eqb]. split; [reflexivity|auto].
  Qed.

  Definition hashes_ok (bs : list block) : Prop := Forall (hash_good hok) bs.

  Lemma scan_all_valid bs : blocks_ok bs -> hashes_ok bs ->
    scan_all hok default_ropts (enc_sections bs) = mkscan bs EEof.
  Proof.
    intros Hb Hh. apply (scan_all_sections hok hdrdec).
    - cbn [o_maxs default_ropts]. eapply Forall_impl; [|exact Hb]. intros b. apply blk_ok_block_ok.
    - intros _. exact Hh.
  Qed.

  Lemma br_read_all_valid hb roots bs file :
    hdr_ok hb roots -> blocks_ok bs -> hashes_ok bs -> valid_input hb bs file ->
    exists v, br_read_all hok hdrdec default_ropts file = Ok (v, roots, mkscan bs EEof) /\ (v = 1 \/ v = 2).
  Proof.
    intros Hh Hb Hg Hv. destruct (br_open_valid hb roots bs file Hh Hv) as (v & a & b & Ho & Hver).
    exists v. unfold br_read_all. rewrite Ho. rewrite scan_all_valid by assumption. auto.
  Qed.

  (* version-exact variants *)
  Lemma br_read_all_payload hb roots bs :
    hdr_ok hb roots -> blocks_ok bs -> hashes_ok bs ->
    br_read_all hok hdrdec default_ropts (payload_hb hb bs) = Ok (1, roots, mkscan bs EEof).
  Proof.
    intros Hh Hb Hg. unfold br_read_all, br_open, payload_hb. cbn [o_maxh default_ropts].
    rewrite (read_header_hb hb roots 1) by (try apply Hh; eapply hdr_ok_63; exact Hh).
    cbn [N.eqb Pos.eqb]. fold default_ropts. rewrite scan_all_valid by assumption. reflexivity.
  Qed.

  Lemma br_read_all_v2file hb roots bs hi lo dpad ioff trailer :
    hdr_ok hb roots -> blocks_ok bs -> hashes_ok bs ->
    hi < two64 -> lo < two64 -> ioff < two63 ->
    51 + dpad + blen (payload_hb hb bs) + blen trailer < two63 ->
    br_read_all hok hdrdec default_ropts (v2file hi lo dpad ioff (payload_hb hb bs) trailer)
    = Ok (2, roots, mkscan bs EEof).
  Proof.
    intros Hh Hb Hg H1 H2 H3 H4.
    pose proof (payload_nonempty hb bs) as Hp.
    assert (Hok : v2hdr_ok (mkv2 hi lo (51 + dpad) (blen (payload_hb hb bs)) ioff))
      by (apply (v2file_hdr_ok hi lo dpad ioff _ trailer); assumption).
    unfold br_read_all, br_open, v2file. cbn [o_maxh default_ropts].
    rewrite (read_header_pragma hok hdrdec pragma_ok) by lia. cbn [N.eqb Pos.eqb].
    rewrite read_v2hdr_enc by exact Hok. cbn [h_doff h_dsize].
    replace (51 + dpad - 51) with dpad by lia.
    rewrite <- (blen_zerosN dpad) at 1. rewrite drop_app, take_app.
    unfold payload_hb at 1.
    rewrite (read_header_hb hb roots 1) by (try apply Hh; eapply hdr_ok_63; exact Hh).
    cbn [N.eqb Pos.eqb]. fold default_ropts. rewrite scan_all_valid by assumption. reflexivity.
  Qed.

  (* ---- car list / car root ------------------------------------------------------------------------- *)
  Theorem list_car_valid hb roots bs file :
    hdr_ok hb roots -> blocks_ok bs -> hashes_ok bs -> valid_input hb bs file ->
    list_car hok hdrdec file = (true, map fst bs).
  Proof.
    intros Hh Hb Hg Hv. destruct (br_read_all_valid hb roots bs file Hh Hb Hg Hv) as (v & Hr & _).
    unfold list_car. rewrite Hr. reflexivity.
  Qed.

  Theorem root_car_valid hb roots bs file :
    hdr_ok hb roots -> valid_input hb bs file ->
    root_car hdrdec file = (true, roots).
  Proof.
    intros Hh Hv. destruct (br_open_valid hb roots bs file Hh Hv) as (v & a & b & Ho & _).
    unfold root_car. rewrite Ho. reflexivity.
  Qed.
End Base.
