(* C13, round 3: cmd/car/lib/inspect.go.  CliCmds.inspect_car (the model C19 uses for
   `car inspect`) is Inspect.inspect_file with the CLI's fixed options
   (ZeroLengthSectionAsEOF(true), default limits) followed by the CARv1 --full trailing-data check;
   hence C13's iff covers the CLI path. *)
From GoCar Require Import Bytes Varint Cid Header Frame V2Header Scan Index Store CliCmds Inspect.
From GoCarProofs Require Import BytesFacts VarintFacts CidFacts InspectParse InspectFacts InspectStats InspectC13.

(* lib.InspectCar: carv2.NewReader(hw, carv2.ZeroLengthSectionAsEOF(true)) *)
Definition cli_opts : ropts := mkropts true default_maxh default_maxs false.

Definition to_rdr (r : creader) : rdr := mkrdr (cr_ver r) (cr_hdr r).

(* the Stats value behind the CLI's per-section record *)
Definition sec_step (roots : list bytes) (a : iacc) (x : isec) : iacc :=
  iacc_step roots (fst (fst x)) (cid_parts (fst (fst x))) (snd (fst x)) (snd x) a.
Definition stats_of_istats (s : istats) : stats :=
  finish_stats (mkrdr (is_ver s) (is_hdr s)) (is_roots s)
               (fold_left (sec_step (is_roots s)) (is_secs s) (iacc0 (is_roots s))) (is_idx_codec s).

Lemma take_take a b (s : bytes) : take a (take b s) = take (N.min a b) s.
Proof. rewrite !take_firstn, firstn_firstn. f_equal. lia. Qed.

(* Header.ReadFrom looks at 40 bytes only *)
Lemma read_v2hdr_prefix a b : blen a = 40 ->
  read_v2hdr (a ++ b) = match read_v2hdr a with Ok (h, _) => Ok (h, b) | Err e => Err e end.
Proof.
  intros Ha. unfold read_v2hdr. rewrite blen_app, Ha.
  replace (40 + blen b <? 16) with false by lia. replace (40 + blen b <? 40) with false by lia.
  change (40 <? 16) with false. change (40 <? 40) with false. cbv iota.
  assert (T : forall k, k + 8 <= 40 -> take 8 (drop k (a ++ b)) = take 8 (drop k a)).
  { intros k Hk. rewrite drop_app_le by lia. apply take_app_le. rewrite blen_drop. lia. }
  replace (take 8 (a ++ b)) with (take 8 a) by (symmetry; apply take_app_le; lia).
  rewrite !T by lia.
  replace (drop 40 (a ++ b)) with b by (rewrite <- Ha; symmetry; apply drop_app).
  destruct (as_int64 (le_dec (take 8 (drop 16 a))) <? 51)%Z; [reflexivity|].
  destruct (as_int64 (le_dec (take 8 (drop 24 a))) <=? 0)%Z; [reflexivity|].
  destruct (as_int64 (le_dec (take 8 (drop 32 a))) <? 0)%Z; reflexivity.
Qed.

Lemma read_v2hdr_take40 s :
  read_v2hdr (take 40 s) = match read_v2hdr s with Ok (h, _) => Ok (h, []) | Err e => Err e end.
Proof.
  destruct (blen s <? 40) eqn:E.
  - rewrite take_ge by lia. unfold read_v2hdr. destruct (blen s <? 16); [reflexivity|]. rewrite E. reflexivity.
  - rewrite <- (take_drop_id 40 s) at 2. rewrite read_v2hdr_prefix by (rewrite blen_take; lia).
    destruct (read_v2hdr (take 40 s)) as [[h r]|e] eqn:Eh; [|reflexivity].
    f_equal. f_equal. unfold read_v2hdr in Eh.
    destruct (blen (take 40 s) <? 16); [discriminate|]. destruct (blen (take 40 s) <? 40); [discriminate|].
    destruct (as_int64 (le_dec (take 8 (drop 16 (take 40 s)))) <? 51)%Z; [discriminate|].
    destruct (as_int64 (le_dec (take 8 (drop 24 (take 40 s)))) <=? 0)%Z; [discriminate|].
    destruct (as_int64 (le_dec (take 8 (drop 32 (take 40 s)))) <? 0)%Z; [discriminate|].
    inversion Eh. apply drop_ge. rewrite blen_take. lia.
Qed.

Section Oracles.
  Variable hok : bytes -> bytes -> option bool.
  Variable hdrdec : bytes -> option (list bytes * N).

  Lemma cli_new_reader file :
    CliCmds.new_reader hdrdec file
    = match Inspect.new_reader hdrdec cli_opts file with
      | Ok rd => Ok (mkcr (r_version rd) (r_hdr rd))
      | Err e => Err e
      end.
  Proof.
    unfold CliCmds.new_reader, Inspect.new_reader. change (o_maxh cli_opts) with default_maxh.
    destruct (read_header hdrdec default_maxh file) as [[[[roots v] rest] used]|e]; [|reflexivity].
    destruct (v =? 1); [reflexivity|]. destruct (v =? 2); [|reflexivity].
    destruct (negb (used =? 11)); [reflexivity|].
    rewrite read_v2hdr_take40. destruct (read_v2hdr (drop 11 file)) as [[h r]|e]; reflexivity.
  Qed.

  (* the two loops, same fuel: position-based with a section list / stream-based with the
     running variables *)
  Definition acc_of (roots : list bytes) (acc : list isec) : iacc :=
    fold_left (sec_step roots) (rev acc) (iacc0 roots).

  Lemma acc_of_cons roots x acc : acc_of roots (x :: acc) = sec_step roots (acc_of roots acc) x.
  Proof. unfold acc_of. cbn [rev]. rewrite fold_left_app. reflexivity. Qed.

  Lemma cli_loop full roots dv : forall fuel pos acc,
    insp_loop hok fuel full cli_opts roots (drop pos dv) (acc_of roots acc)
    = match inspect_loop hok fuel full dv pos acc with
      | Ok (acc', _) => Ok (acc_of roots acc')
      | Err e => Err e
      end.
  Proof.
    induction fuel as [|f IH]; intros pos acc; [reflexivity|].
    cbn [insp_loop inspect_loop]. change (o_zeof cli_opts) with true. change (o_maxs cli_opts) with default_maxs.
    destruct (read_uv (drop pos dv)) as [l r1 n1| | | |] eqn:Euv; try reflexivity.
    rewrite andb_true_r. destruct (l =? 0); [reflexivity|].
    destruct (default_maxs <? l); [reflexivity|].
    destruct (cid_from_reader r1) as [n c p rest| |k] eqn:Ec; try reflexivity.
    destruct (l <? n) eqn:Eln; [reflexivity|].
    destruct (read_uv_inv _ _ _ _ Euv) as (Hs & Hn1 & _).
    destruct (cid_from_reader_inv _ _ _ _ _ Ec) as (Hok & _ & Hr1 & Hc & Hn).
    assert (Hd1 : drop (pos + n1) dv = r1).
    { rewrite <- drop_drop, Hs, Hn1, <- blen_put_uv. apply drop_app. }
    assert (Hd2 : drop (pos + n1 + n) dv = rest).
    { rewrite <- drop_drop, Hd1. rewrite Hr1 at 1. rewrite Hn. apply drop_app. }
    assert (Hstep : iacc_step roots c p n (l - n) (acc_of roots acc) = acc_of roots ((c, n, l - n) :: acc)).
    { rewrite acc_of_cons. unfold sec_step. cbn [fst snd].
      replace (cid_parts c) with p by (rewrite Hc; symmetry; apply cid_parts_enc; exact Hok). reflexivity. }
    destruct full.
    - destruct (blen rest <? l - n) eqn:Esh; [reflexivity|].
      unfold verify. destruct (hash_matches hok c p (take (l - n) rest)) as [[|]|]; try reflexivity.
      rewrite Hstep. rewrite <- (IH (pos + n1 + n + blen (take (l - n) rest)) ((c, n, l - n) :: acc)).
      f_equal. rewrite blen_take. replace (N.min (l - n) (blen rest)) with (l - n) by lia.
      rewrite <- drop_drop, Hd2. reflexivity.
    - rewrite Hstep. rewrite <- (IH (pos + n1 + l) ((c, n, l - n) :: acc)).
      f_equal. replace (pos + n1 + l) with (pos + n1 + n + (l - n)) by lia.
      rewrite <- drop_drop, Hd2. reflexivity.
  Qed.

  (* the result of Inspect's loop does not depend on the fuel once there is enough of it *)
  Lemma insp_loop_fuel_mono v o roots : forall f1 f2 s a,
    (length s < f1)%nat -> (length s < f2)%nat ->
    insp_loop hok f1 v o roots s a = insp_loop hok f2 v o roots s a.
  Proof.
    induction f1 as [|f1 IH]; intros f2 s a H1 H2; [lia|]. destruct f2 as [|f2]; [lia|].
    cbn [insp_loop].
    destruct (read_uv s) as [l rest n| | | |] eqn:Euv; try reflexivity.
    destruct ((l =? 0) && o_zeof o); [reflexivity|]. destruct (o_maxs o <? l); [reflexivity|].
    destruct (cid_from_reader rest) as [cn c p after| |k] eqn:Ec; try reflexivity.
    destruct (l <? cn); [reflexivity|].
    destruct (read_uv_ok_len _ _ _ _ Euv) as (Hlen & Hn1).
    destruct (cid_from_reader_inv _ _ _ _ _ Ec) as (_ & _ & Hs & _ & _).
    assert (Hshort : (S (length (drop (l - cn) after)) < S (length s))%nat).
    { assert (X : blen (drop (l - cn) after) <= blen after) by (rewrite blen_drop; lia).
      assert (Y : blen rest = blen (cid_enc p) + blen after) by (rewrite Hs at 1; apply blen_app).
      unfold blen in *. lia. }
    destruct v.
    - destruct (blen after <? l - cn); [reflexivity|].
      destruct (verify hok c p (take (l - cn) after)) as [[]|e]; [|reflexivity]. apply IH; lia.
    - apply IH; lia.
  Qed.

  Lemma read_header_used_le maxh s roots v rest used :
    read_header hdrdec maxh s = Ok (roots, v, rest, used) -> (length rest <= length s)%nat.
  Proof.
    intros H. rewrite (read_header_rest hdrdec _ _ _ _ _ _ H).
    assert (X : blen (drop used s) <= blen s) by (rewrite blen_drop; lia). unfold blen in X. lia.
  Qed.

  Definition res_map {A B} (f : A -> B) (r : res A) : res B :=
    match r with Ok a => Ok (f a) | Err e => Err e end.

  (* Reader.Inspect as the CLI's model has it = Inspect.inspect with the CLI's options *)
  Theorem cli_reader_inspect full r file :
    cr_ver r = 1 \/ cr_ver r = 2 ->
    Inspect.inspect hok hdrdec cli_opts (to_rdr r) file full
    = res_map stats_of_istats (reader_inspect hok hdrdec full r file).
  Proof.
    intros Hver.
    unfold Inspect.inspect, reader_inspect, data_window, data_view, to_rdr. cbn [r_version r_hdr].
    change (o_maxh cli_opts) with default_maxh.
    set (dv := if cr_ver r =? 2 then take (h_dsize (cr_hdr r)) (drop (h_doff (cr_hdr r)) file) else file).
    destruct (read_header hdrdec default_maxh dv) as [[[[roots hv] rest] used]|e] eqn:Eh; [|reflexivity].
    destruct ((cr_ver r =? 2) && negb (hv =? 1)); [reflexivity|].
    pose proof (read_header_rest hdrdec _ _ _ _ _ _ Eh) as Hrest.
    pose proof (read_header_used_le _ _ _ _ _ _ Eh) as Hle.
    rewrite (insp_loop_fuel_mono full cli_opts roots (S (length rest)) (S (length dv)) rest (iacc0 roots)) by lia.
    pose proof (cli_loop full roots dv (S (length dv)) used []) as Hl.
    change (acc_of roots []) with (iacc0 roots) in Hl. rewrite <- Hrest in Hl. rewrite Hl.
    destruct (inspect_loop hok (S (length dv)) full dv used []) as [[acc endpos]|e]; [|reflexivity].
    unfold index_codec. cbn [r_version r_hdr].
    replace (negb (cr_ver r =? 1)) with (cr_ver r =? 2) by (destruct Hver as [-> | ->]; reflexivity).
    unfold stats_of_istats, acc_of.
    destruct ((cr_ver r =? 2) && has_index (cr_hdr r)); [|reflexivity].
    destruct (read_uv (drop (h_ioff (cr_hdr r)) file)); reflexivity.
  Qed.

  Lemma cli_new_reader_version file r : CliCmds.new_reader hdrdec file = Ok r -> cr_ver r = 1 \/ cr_ver r = 2.
  Proof.
    unfold CliCmds.new_reader.
    destruct (read_header hdrdec default_maxh file) as [[[[roots v] rest] used]|e]; [|discriminate].
    destruct (v =? 1); [intros H; inversion H; left; reflexivity|]. destruct (v =? 2); [|discriminate].
    destruct (negb (used =? 11)); [discriminate|].
    destruct (read_v2hdr (take 40 (drop 11 file))) as [[h r']|e]; [|discriminate].
    intros H; inversion H; right; reflexivity.
  Qed.

  (* lib.InspectCar = NewReader + Inspect with the CLI's options, then the CARv1 --full
     trailing-data check *)
  Theorem cli_inspect_car full file :
    match inspect_car hok hdrdec full file with
    | Ok ist => inspect_file hok hdrdec cli_opts file full = Ok (stats_of_istats ist)
    | Err e =>
        inspect_file hok hdrdec cli_opts file full = Err e \/
        (e = EOther /\ full = true /\
         exists ist, inspect_file hok hdrdec cli_opts file full = Ok (stats_of_istats ist) /\
                     is_ver ist = 1 /\ is_end ist < blen file)
    end.
  Proof.
    unfold inspect_car, inspect_file. rewrite cli_new_reader.
    destruct (Inspect.new_reader hdrdec cli_opts file) as [rd|e] eqn:En; [|left; reflexivity].
    assert (Hver : r_version rd = 1 \/ r_version rd = 2).
    { apply (cli_new_reader_version file (mkcr (r_version rd) (r_hdr rd))). rewrite cli_new_reader, En. reflexivity. }
    pose proof (cli_reader_inspect full (mkcr (r_version rd) (r_hdr rd)) file Hver) as Hri.
    unfold to_rdr in Hri. cbn [cr_ver cr_hdr] in Hri. destruct rd as [ver h]. cbn [r_version r_hdr] in *.
    rewrite Hri.
    destruct (reader_inspect hok hdrdec full (mkcr ver h) file) as [ist|e]; cbn [res_map]; [|left; reflexivity].
    destruct ((is_ver ist =? 1) && full && (is_end ist <? blen file)) eqn:Ec; [|reflexivity].
    right. apply andb_true_iff in Ec. destruct Ec as (Ec & E3). apply andb_true_iff in Ec. destruct Ec as (E1 & E2).
    split; [reflexivity|]. split; [exact E2|]. exists ist. split; [reflexivity|]. split; lia.
  Qed.

  (* so C13's iff speaks about `car inspect --full`: when it succeeds, the verifying scan of the
     same file is clean and the report is the statistics of the scanned blocks *)
  Theorem cli_inspect_full_agrees_with_scan file ist :
    inspect_car hok hdrdec true file = Ok ist ->
    exists rd roots blocks codec,
      Inspect.new_reader hdrdec cli_opts file = Ok rd /\
      br_read_all hok hdrdec cli_opts file = Ok (r_version rd, roots, mkscan blocks EEof) /\
      index_codec rd file = Ok codec /\
      stats_of_istats ist = stats_of (r_version rd) (r_hdr rd) roots blocks codec.
  Proof.
    intros H. pose proof (cli_inspect_car true file) as Hc. rewrite H in Hc.
    unfold inspect_file in Hc. destruct (Inspect.new_reader hdrdec cli_opts file) as [rd|e] eqn:En; [|discriminate].
    assert (Hcap : o_maxs cli_opts <= max_digest_alloc) by (vm_compute; congruence).
    destruct (proj1 (c13_iff hok hdrdec cli_opts file rd Hcap En (stats_of_istats ist)) Hc)
      as (roots & blocks & codec & Hb & Hi & Hst).
    exists rd, roots, blocks, codec. split; [reflexivity|]. split; [exact Hb|]. split; [exact Hi|exact Hst].
  Qed.
End Oracles.

(* non-vacuity: `car inspect --full` on the Ex archive, and the one way the CLI differs from the
   library call (bytes after a zero-length section of a CARv1) *)
From GoCarProofs Require Import BlockReaderPosC14.
Module ExCli.
  Import Ex.
  Definition payload := enc_payload roots bs.
  Example cli_inspect_accepts :
    match inspect_car hok dec_header_canon true payload with
    | Ok ist => (is_ver ist, length (is_secs ist), is_end ist) = (1, 3%nat, blen payload) /\
                inspect_file hok dec_header_canon cli_opts payload true = Ok (stats_of_istats ist)
    | Err _ => False
    end.
  Proof. vm_compute. split; reflexivity. Qed.
  Example cli_inspect_trailing_data :
    inspect_car hok dec_header_canon true (payload ++ [x00; xff]) = Err EOther /\
    match inspect_file hok dec_header_canon cli_opts (payload ++ [x00; xff]) true with
    | Ok t => t_count t = 3
    | Err _ => False
    end.
  Proof. split; vm_compute; reflexivity. Qed.
End ExCli.
