(* C01 reader histories: interleaved readers are independent; after the last block a reader answers io.EOF
   for ever; on a constructed archive a reader's history is the roots, then the blocks, then io.EOF. *)
From GoCar Require Import Bytes Varint Cid Header Frame V2Header Scan ReadOnly ReaderHist.
From GoCarProofs Require Import BytesFacts VarintFacts CidFacts HeaderFacts ScanFacts ReadOnlyFacts
  ReadOnlyRefine ReadOnlyRoundTrip.

Section Multi.
  Variables (S A Op : Type) (step : Op -> S -> S * A).

  Lemma nth_error_set_nth_same (l : list S) : forall i x s, nth_error l i = Some s -> nth_error (set_nth S i x l) i = Some x.
  Proof.
    induction l as [|y t IH]; intros [|i] x s H; cbn in *; try discriminate; [reflexivity|]. eapply IH; exact H.
  Qed.
  Lemma nth_error_set_nth_other (l : list S) : forall i j x, i <> j -> nth_error (set_nth S i x l) j = nth_error l j.
  Proof.
    induction l as [|y t IH]; intros [|i] [|j] x H; cbn; try reflexivity; try congruence. apply IH. congruence.
  Qed.

  (* the answers reader i gives inside any interleaving = the answers it gives alone to its own operations *)
  Theorem run_multi_independent : forall sched sts i s,
    nth_error sts i = Some s ->
    proj i (run_multi S A Op step sts sched) = run_one S A Op step s (proj i sched).
  Proof.
    unfold proj. induction sched as [|[j op] t IH]; intros sts i s Hi; [reflexivity|]. cbn [run_multi].
    destruct (nth_error sts j) as [sj|] eqn:Ej.
    - destruct (step op sj) as [s' a] eqn:Es. cbn [filter fst map snd].
      destruct (Nat.eqb j i) eqn:Eji.
      + apply Nat.eqb_eq in Eji. subst j. rewrite Hi in Ej. inversion Ej; subst sj.
        cbn [map snd run_one]. rewrite Es. f_equal.
        apply IH. eapply nth_error_set_nth_same. exact Hi.
      + apply IH. rewrite nth_error_set_nth_other; [exact Hi|]. apply Nat.eqb_neq. exact Eji.
    - cbn [filter fst]. destruct (Nat.eqb j i) eqn:Eji.
      + apply Nat.eqb_eq in Eji. subst j. congruence.
      + apply IH. exact Hi.
  Qed.
End Multi.

Section Single.
  Variable hok : bytes -> bytes -> option bool.
  Variable hdrdec : bytes -> option (list bytes * N).

  (* what one reader answers alone on a stream of sections: the blocks in order, then io.EOF every time *)
  Fixpoint nexts (n : nat) : list rhop := match n with O => [] | Datatypes.S k => HNext :: nexts k end.

  Definition block_ok_for (k : rkind) (o : ropts) (b : block) : Prop :=
    match k with
    | KRoot => root_block_ok b /\ hash_good hok b
    | KCarv1 => block_ok (o_maxs o) b /\ hash_good hok b
    | KBlock => block_ok (o_maxs o) b /\ (o_trusted o = false -> hash_good hok b)
    end.

  Lemma rh_next_section k o c d rest : block_ok_for k o (c, d) ->
    rh_next_block hok k o (enc_section c d ++ rest) = Ok ((c, d), rest).
  Proof.
    destruct k; cbn [block_ok_for rh_next_block]; intros [H1 H2].
    - apply next_block_root_section; assumption.
    - apply next_block_section; [exact H1|intros _; exact H2].
    - apply next_block_section; assumption.
  Qed.

  Lemma rh_next_end k o : rh_next_block hok k o [] = Err EEof.
  Proof. destruct k; reflexivity. Qed.

  Theorem run_one_sections k o file : forall bs extra,
    Forall (block_ok_for k o) bs ->
    run_one rhstate rhans rhop (rh_step hok hdrdec k o) (mkrh file (Some (enc_sections bs))) (nexts (length bs + extra))
    = map HBlock bs ++ repeat (HErr EEof) extra.
  Proof.
    induction bs as [|[c d] bs IH]; intros extra Hok.
    - cbn [length Nat.add enc_sections map concat app]. induction extra as [|e IHe]; [reflexivity|].
      cbn [nexts run_one rh_step rh_stream repeat]. rewrite rh_next_end. f_equal. exact IHe.
    - cbn [length Nat.add nexts run_one rh_step rh_stream]. rewrite enc_sections_cons. cbn [fst snd].
      rewrite (rh_next_section k o c d (enc_sections bs) (Forall_inv Hok)). cbn [map app]. f_equal.
      apply IH. exact (Forall_inv_tail Hok).
  Qed.

  (* Open on a constructed CARv1 payload *)
  Theorem rh_open_payload k o ro bs :
    hdrdec (enc_header ro 1) = Some (hdr_roots ro, 1) ->
    blen (enc_header ro 1) <= (match k with KRoot => root_max_section | _ => o_maxh o end) ->
    blen (enc_header ro 1) < two63 ->
    (match k with KBlock => True | _ => hdr_roots ro <> [] end) ->
    rh_open hdrdec k o (ld (enc_header ro 1) ++ enc_sections bs) = Ok (hdr_roots ro, enc_sections bs).
  Proof.
    intros Hg Hm H63 Hne. destruct k; cbn [rh_open].
    - unfold read_header_root. rewrite ld_read_root_ld by exact Hm. rewrite Hg. cbn [N.eqb Pos.eqb negb].
      destruct (hdr_roots ro); [congruence|reflexivity].
    - rewrite (read_header_ld hdrdec) by assumption. cbn [N.eqb Pos.eqb negb].
      destruct (hdr_roots ro); [congruence|reflexivity].
    - unfold br_open. rewrite (read_header_ld hdrdec) by assumption. reflexivity.
  Qed.

  (* a whole single-reader history on a constructed CARv1: roots, the blocks, io.EOF for every further Next *)
  Theorem rh_history_payload k o ro bs extra :
    hdrdec (enc_header ro 1) = Some (hdr_roots ro, 1) ->
    blen (enc_header ro 1) <= (match k with KRoot => root_max_section | _ => o_maxh o end) ->
    blen (enc_header ro 1) < two63 ->
    (match k with KBlock => True | _ => hdr_roots ro <> [] end) ->
    Forall (block_ok_for k o) bs ->
    run_one rhstate rhans rhop (rh_step hok hdrdec k o)
            (mkrh (ld (enc_header ro 1) ++ enc_sections bs) None) (HOpen :: nexts (length bs + extra))
    = HRoots (hdr_roots ro) :: map HBlock bs ++ repeat (HErr EEof) extra.
  Proof.
    intros Hg Hm H63 Hne Hok. cbn [run_one rh_step rh_file].
    rewrite (rh_open_payload k o ro bs Hg Hm H63 Hne). f_equal. apply run_one_sections. exact Hok.
  Qed.

  (* the v2 BlockReader opened on a CARv2 container: the same roots, the stream is the sections *)
  Theorem rh_open_v2 o ro bs chi clo dpad ipad ib :
    hdrdec (enc_header ro 1) = Some (hdr_roots ro, 1) ->
    blen (enc_header ro 1) <= o_maxh o -> blen (enc_header ro 1) < two63 ->
    hdrdec pragma_body = Some ([], 2) -> 10 <= o_maxh o ->
    chi < two64 -> clo < two64 ->
    blen (v2_file chi clo dpad ipad (payload_np ro bs 0) ib) < two63 ->
    rh_open hdrdec KBlock o (v2_file chi clo dpad ipad (payload_np ro bs 0) ib) = Ok (hdr_roots ro, enc_sections bs).
  Proof.
    intros Hg Hmax H63 Hpr Hmh Hchi Hclo Hlen.
    set (payload := payload_np ro bs 0) in *.
    set (ioff := match ib with Some _ => 51 + dpad + blen payload + ipad | None => 0 end).
    set (h := mkv2 chi clo (51 + dpad) (blen payload) ioff).
    assert (Hpay : 0 < blen payload).
    { unfold payload. rewrite payload_np_split, !blen_app, blen_ld. unfold ld_size.
      pose proof (uv_size_pos (blen (enc_header ro 1))). lia. }
    pose proof (v2_file_len chi clo dpad ipad payload ib _ ioff h eq_refl eq_refl eq_refl) as Hl.
    cbn [rh_open]. unfold br_open.
    assert (Hfile : v2_file chi clo dpad ipad payload ib
                    = ld pragma_body ++ enc_v2hdr h ++ zerosN dpad ++ payload ++ zerosN ipad ++ match ib with Some x => x | None => [] end)
      by reflexivity.
    rewrite Hfile. unfold read_header at 1. rewrite ld_read_ld; [|cbn; unfold two63; lia|exact Hmh|discriminate].
    rewrite Hpr. cbn [N.eqb Pos.eqb].
    rewrite read_v2hdr_enc; cbn [h_hi h_lo h_doff h_dsize h_ioff h]; try assumption; try lia;
      [|unfold ioff; destruct ib; lia].
    replace (51 + dpad - 51) with (blen (zerosN dpad)) by (rewrite blen_zerosN; lia).
    rewrite drop_app, take_app.
    unfold payload at 1. rewrite payload_np_split.
    rewrite (read_header_ld hdrdec) by assumption. cbn [N.eqb Pos.eqb].
    change (zerosN 0) with (@nil byte). rewrite app_nil_r. reflexivity.
  Qed.

  Theorem rh_history_v2 o ro bs extra chi clo dpad ipad ib :
    hdrdec (enc_header ro 1) = Some (hdr_roots ro, 1) ->
    blen (enc_header ro 1) <= o_maxh o -> blen (enc_header ro 1) < two63 ->
    hdrdec pragma_body = Some ([], 2) -> 10 <= o_maxh o ->
    chi < two64 -> clo < two64 ->
    blen (v2_file chi clo dpad ipad (payload_np ro bs 0) ib) < two63 ->
    Forall (block_ok_for KBlock o) bs ->
    run_one rhstate rhans rhop (rh_step hok hdrdec KBlock o)
            (mkrh (v2_file chi clo dpad ipad (payload_np ro bs 0) ib) None) (HOpen :: nexts (length bs + extra))
    = HRoots (hdr_roots ro) :: map HBlock bs ++ repeat (HErr EEof) extra.
  Proof.
    intros Hg Hm H63 Hpr Hmh Hchi Hclo Hlen Hok. cbn [run_one rh_step rh_file].
    rewrite (rh_open_v2 o ro bs chi clo dpad ipad ib Hg Hm H63 Hpr Hmh Hchi Hclo Hlen). f_equal.
    apply run_one_sections. exact Hok.
  Qed.

  (* ---- several readers ---------------------------------------------------------------------------------- *)
  (* readers of one kind over any files, any interleaving of Open and Next (Next again after io.EOF included):
     reader i answers what it answers alone *)
  Theorem rh_readers_independent k o : forall sched sts i s,
    nth_error sts i = Some s ->
    proj i (run_multi rhstate rhans rhop (rh_step hok hdrdec k o) sts sched)
    = run_one rhstate rhans rhop (rh_step hok hdrdec k o) s (proj i sched).
  Proof. exact (run_multi_independent rhstate rhans rhop (rh_step hok hdrdec k o)). Qed.

  (* hence: inside any interleaving with any other readers (over any other archives, valid or not), the reader
     over a constructed archive that is opened and then asked Next past the end answers its roots, its blocks,
     and io.EOF every further time *)
  Theorem rh_interleaved_history k o ro bs extra sts sched i :
    hdrdec (enc_header ro 1) = Some (hdr_roots ro, 1) ->
    blen (enc_header ro 1) <= (match k with KRoot => root_max_section | _ => o_maxh o end) ->
    blen (enc_header ro 1) < two63 ->
    (match k with KBlock => True | _ => hdr_roots ro <> [] end) ->
    Forall (block_ok_for k o) bs ->
    nth_error sts i = Some (mkrh (ld (enc_header ro 1) ++ enc_sections bs) None) ->
    proj i sched = HOpen :: nexts (length bs + extra) ->
    proj i (run_multi rhstate rhans rhop (rh_step hok hdrdec k o) sts sched)
    = HRoots (hdr_roots ro) :: map HBlock bs ++ repeat (HErr EEof) extra.
  Proof.
    intros Hg Hm H63 Hne Hok Hi Hs. rewrite (rh_readers_independent k o sched sts i _ Hi), Hs.
    apply rh_history_payload; assumption.
  Qed.

  (* ---- positioned sources ------------------------------------------------------------------------------- *)
  Lemma positioned_at_car pre file : positioned (pre ++ file) (blen pre) = file.
  Proof. apply drop_app. Qed.

  (* the three v2 entry points that accept a positioned seekable source (NewBlockReader, ReadVersion,
     LoadIndex / GenerateIndex) answer for a CAR behind a preamble what they answer for the CAR alone -- in
     particular the generated index holds offsets relative to the CAR, not to the source *)
  Theorem positioned_entry_points o q pre file :
    br_read_all hok hdrdec o (positioned (pre ++ file) (blen pre)) = br_read_all hok hdrdec o file /\
    read_header hdrdec (o_maxh o) (positioned (pre ++ file) (blen pre)) = read_header hdrdec (o_maxh o) file /\
    gen_flat hdrdec q 0 (positioned (pre ++ file) (blen pre)) = gen_flat hdrdec q 0 file.
  Proof. rewrite positioned_at_car. repeat split. Qed.
End Single.
