(* C03 additions: (a) LoadIndex over a payload with ANY header bytes the decoder accepts as version 1
   (in particular the nil-roots header a2 "roots" f6 "version" 01 that go-car writes for a nil root
   slice); (b) the code AS FOUND, on the inputs where it does satisfy the property (the _partial
   theorems: seekable source, and either some section or nothing after the payload). *)
From Coq Require Import Permutation Sorting.Sorted.
From GoCar Require Import Bytes Varint Cid Header Frame V2Header Scan Index IndexGen.
From GoCarProofs Require Import BytesFacts VarintFacts CidFacts HeaderFacts ScanFacts
  IndexKv IndexSort IndexCompact IndexSearch IndexRoundtrip IndexLoad IndexCanon IndexGenFacts.

Section AnyHeader.
  Variable hdrdec : bytes -> option (list bytes * N).

  Lemma read_header_ld maxh hb r rest :
    hdrdec hb = Some (r, 1) -> blen hb <= maxh -> blen hb < two63 ->
    read_header hdrdec maxh (ld hb ++ rest) = Ok (r, 1, rest, ld_size (blen hb)).
  Proof.
    intros Hd Hmax H63. unfold read_header. rewrite ld_read_ld; try assumption; [|discriminate].
    rewrite Hd. reflexivity.
  Qed.

  Theorem load_index_v1_any_header k o hb r bs :
    hdrdec hb = Some (r, 1) -> blen hb <= g_maxh o -> blen hb < two63 ->
    Forall gblock_ok bs -> Forall (cid_fits o) bs ->
    blen (ld hb ++ enc_sections bs) < two63 ->
    load_index hdrdec k o (ld hb ++ enc_sections bs) = Ok (section_recs o (ld_size (blen hb)) bs).
  Proof.
    intros Hd Hmax H63 Hok Hfit Hall. unfold load_index, load_index_gen. cbn [fx_counted fx_topcheck repaired].
    rewrite (read_header_ld (g_maxh o) hb r _ Hd Hmax H63).
    change (1 =? 1) with true. cbv iota.
    set (hl := ld_size (blen hb)).
    assert (Est0 : advance_raw k true hl (mkrs 0 0) = mkrs hl hl) by (destruct k; reflexivity).
    rewrite Est0.
    set (all := ld hb ++ enc_sections bs) in *.
    set (pre := ld hb).
    assert (Hpre : blen pre = hl) by (unfold pre, hl; apply blen_ld).
    assert (Eall : all = pre ++ enc_sections bs ++ []) by (unfold all, pre; rewrite app_nil_r; reflexivity).
    assert (Hfuel : exists f, S (length all) = (length bs + S f)%nat).
    { exists (length all - length bs)%nat.
      assert (length bs <= length all)%nat.
      { rewrite Eall, !app_length. pose proof (length_enc_sections bs). lia. }
      lia. }
    destruct Hfuel as (f & ->). rewrite <- Hpre.
    rewrite (li_loop_through k o all 0 0 Hall bs pre [] [] (S f) Eall Hok Hfit ltac:(lia) ltac:(left; reflexivity)).
    rewrite li_loop_end_eof.
    - rewrite app_nil_r, rev_involutive, N.sub_0_r. reflexivity.
    - rewrite Eall, !blen_app, blen_nil. lia.
  Qed.
End AnyHeader.

(* the nil-roots header: the canonical decoder reads it as "no roots, version 1" *)
Theorem load_index_v1_nil_roots k o bs :
  blen (enc_header None 1) <= g_maxh o ->
  Forall gblock_ok bs -> Forall (cid_fits o) bs ->
  blen (ld (enc_header None 1) ++ enc_sections bs) < two63 ->
  load_index dec_header_canon k o (ld (enc_header None 1) ++ enc_sections bs)
  = Ok (section_recs o 18 bs).
Proof.
  intros Hmax Hok Hfit Hall.
  rewrite (load_index_v1_any_header dec_header_canon k o (enc_header None 1) [] bs); try assumption.
  - reflexivity.
  - apply dec_header_enc_nil. unfold two64. lia.
  - cbv. reflexivity.
Qed.

Example nil_roots_header_bytes :
  ld (enc_header None 1) = [x11; xa2; x65; x72; x6f; x6f; x74; x73; xf6; x67; x76; x65; x72; x73; x69; x6f; x6e; x01].
Proof. reflexivity. Qed.

(* ---- (b) the code as found ---------------------------------------------------------------------------- *)
(* one iteration of the as-found loop (end-of-payload test AFTER the section) *)
Lemma li_step_as_found k o all doff dsize pre c d rest p f acc :
  blen all < two63 -> all = pre ++ enc_section c d ++ rest ->
  cid_ok p -> c = cid_enc p -> blen (c_digest p) + 8 <= max_width -> blen c + blen d < two63 ->
  li_loop (S f) false k o all doff dsize (mkrs (blen pre) (blen pre)) acc
  = if indexed o p && (g_max_cid o <? blen c) then Err ECidTooLarge
    else
      let acc' := if indexed o p then mkrec c (c_mhcode p) (c_digest p) (blen pre - doff) :: acc else acc in
      let st3 := mkrs (blen pre + section_size c d) (blen pre + section_size c d) in
      if payload_end doff dsize st3 then Ok (rev acc') else li_loop f false k o all doff dsize st3 acc'.
Proof.
  intros Hall Eall Hp Ec Hcap Hlen.
  cbn [li_loop andb]. unfold view. cbn [rs_pos rs_woff].
  set (len := blen c + blen d).
  assert (Ev : drop (blen pre) all = put_uv len ++ c ++ d ++ rest).
  { rewrite Eall, drop_app. unfold enc_section. rewrite <- !app_assoc. reflexivity. }
  rewrite Ev, read_uv_put_uv by exact Hlen.
  pose proof (cid_enc_nonempty p Hp) as Hne. rewrite <- Ec in Hne.
  replace (len =? 0) with false by (unfold len; lia).
  unfold advance. cbn [rs_pos rs_woff].
  assert (Ev2 : drop (blen pre + uv_size len) all = c ++ d ++ rest).
  { rewrite Eall. unfold enc_section. fold len.
    replace (pre ++ (put_uv len ++ c ++ d) ++ rest) with ((pre ++ put_uv len) ++ c ++ d ++ rest)
      by (rewrite <- !app_assoc; reflexivity).
    replace (blen pre + uv_size len) with (blen (pre ++ put_uv len)) by (rewrite blen_app, blen_put_uv; reflexivity).
    apply drop_app. }
  rewrite Ev2. rewrite Ec at 1.
  rewrite cid_from_reader_enc; [|exact Hp|unfold max_width, max_digest_alloc in *; lia].
  rewrite <- Ec.
  destruct (indexed o p && (g_max_cid o <? blen c)); [reflexivity|].
  assert (Eall_len : blen all = blen pre + (uv_size len + blen c + blen d) + blen rest).
  { rewrite Eall. unfold enc_section. rewrite !blen_app, blen_put_uv. fold len. lia. }
  assert (Hsize : section_size c d = uv_size len + blen c + blen d).
  { unfold section_size, ld_size. fold len. unfold len. lia. }
  assert (Est3 : seek_cur k all (Z.of_N len - Z.of_N (blen c))%Z
                   (mkrs (blen pre + uv_size len + blen c) (blen pre + uv_size len + blen c))
                 = Ok (mkrs (blen pre + section_size c d) (blen pre + section_size c d))).
  { unfold seek_cur. cbn [rs_pos rs_woff]. destruct k.
    - replace (Z.of_N (blen pre + uv_size len + blen c) + (Z.of_N len - Z.of_N (blen c)) <? 0)%Z with false by (unfold len; lia).
      replace (Z.of_N two63 <=? Z.of_N (blen pre + uv_size len + blen c) + (Z.of_N len - Z.of_N (blen c)))%Z
        with false by (unfold len in *; lia).
      f_equal. rewrite Hsize. unfold len. f_equal; lia.
    - destruct (Z.of_N len - Z.of_N (blen c) <=? 0)%Z eqn:E.
      + f_equal. rewrite Hsize. unfold len in *. f_equal; lia.
      + replace (blen all - (blen pre + uv_size len + blen c) <? Z.to_N (Z.of_N len - Z.of_N (blen c))) with false
          by (unfold len in *; lia).
        unfold advance. cbn [rs_pos rs_woff]. f_equal. rewrite Hsize. unfold len in *. f_equal; lia. }
  rewrite Est3. cbn [negb andb]. reflexivity.
Qed.

(* the whole as-found loop over the sections, under the guard: nothing follows the sections, or
   (CARv2) the payload ends with the last of at least one section *)
Lemma li_loop_as_found_sections k o all doff dsize : blen all < two63 ->
  forall bs pre post acc fuel,
    all = pre ++ enc_sections bs ++ post ->
    Forall gblock_ok bs -> Forall (cid_fits o) bs -> doff <= blen pre -> (length bs < fuel)%nat ->
    ((post = [] /\ (dsize = 0 \/ bs = [])) \/
     (dsize <> 0 /\ dsize + doff = blen pre + blen (enc_sections bs) /\ bs <> [])) ->
    li_loop fuel false k o all doff dsize (mkrs (blen pre) (blen pre)) acc
    = Ok (rev acc ++ flat_map (rec_of_section o) (sections_at (blen pre - doff) bs)).
Proof.
  intros Hall. induction bs as [|[c d] t IH]; intros pre post acc fuel Eall Hok Hfit Hdoff Hf Hend.
  - destruct fuel as [|f]; [cbn in Hf; lia|].
    destruct Hend as [(Hp & _)|(_ & _ & Hne)]; [|congruence]. subst post.
    cbn [li_loop andb enc_sections map concat app] in *. unfold view. cbn [rs_pos].
    rewrite Eall, app_nil_r, drop_all. cbn [read_uv read_uv_f]. cbn [sections_at flat_map]. rewrite app_nil_r. reflexivity.
  - destruct fuel as [|f]; [cbn in Hf; lia|].
    pose proof (Forall_inv Hok) as Hb. pose proof (Forall_inv_tail Hok) as Hok'.
    pose proof (Forall_inv Hfit) as Hf1. pose proof (Forall_inv_tail Hfit) as Hfit'.
    destruct Hb as (p & Hp & Ec & Hcap & Hlen). cbn [fst snd] in *.
    rewrite enc_sections_cons in Eall. cbn [fst snd] in Eall. rewrite <- app_assoc in Eall.
    rewrite (li_step_as_found k o all doff dsize pre c d (enc_sections t ++ post) p f acc Hall Eall Hp Ec Hcap Hlen).
    assert (Hparse : cid_parse c = Some p) by (rewrite Ec; apply cid_parse_enc, Hp).
    assert (Hnot : indexed o p && (g_max_cid o <? blen c) = false).
    { destruct (indexed o p) eqn:Ei; [|reflexivity]. cbn [andb].
      unfold cid_fits, section_indexed in Hf1. cbn [fst] in Hf1. rewrite Hparse in Hf1. specialize (Hf1 Ei). lia. }
    rewrite Hnot. cbv zeta.
    cbn [sections_at flat_map fst snd]. rewrite (rec_of_section_parse o _ c d p Hparse).
    set (acc' := if indexed o p then mkrec c (c_mhcode p) (c_digest p) (blen pre - doff) :: acc else acc).
    assert (Hacc : rev acc' = rev acc ++ (if indexed o p then [mkrec c (c_mhcode p) (c_digest p) (blen pre - doff)] else [])).
    { unfold acc'. destruct (indexed o p); cbn [rev]; [reflexivity|rewrite app_nil_r; reflexivity]. }
    rewrite blen_enc_sections_cons in Hend. cbn [fst snd] in Hend.
    pose proof (section_size_pos c d) as Hsz.
    destruct t as [|b2 t'].
    + (* last section *)
      cbn [enc_sections map concat] in *. rewrite blen_nil in Hend. cbn [sections_at flat_map]. rewrite app_nil_r.
      destruct Hend as [(Hp0 & [Hz|Hnil])|(Hnz & Hsum & _)]; try congruence.
      * subst post dsize. unfold payload_end. cbn [N.eqb negb andb].
        destruct f as [|f']; [cbn in Hf; lia|].
        cbn [li_loop andb]. unfold view. cbn [rs_pos].
        rewrite Eall. cbn [app]. rewrite app_nil_r.
        replace (blen pre + section_size c d) with (blen (pre ++ enc_section c d)) by (rewrite blen_app, blen_enc_section; reflexivity).
        rewrite drop_all. cbn [read_uv read_uv_f]. rewrite Hacc. reflexivity.
      * unfold payload_end. cbn [rs_woff]. replace (dsize =? 0) with false by lia.
        replace (dsize <=? blen pre + section_size c d - doff) with true by lia. cbn [negb andb].
        rewrite Hacc. reflexivity.
    + (* more sections follow: the payload end is not reached *)
      assert (Hmore : 1 <= blen (enc_sections (b2 :: t'))).
      { rewrite blen_enc_sections_cons. pose proof (section_size_pos (fst b2) (snd b2)). lia. }
      assert (Hpe : payload_end doff dsize (mkrs (blen pre + section_size c d) (blen pre + section_size c d)) = false).
      { unfold payload_end. cbn [rs_woff]. destruct Hend as [(Hp0 & [Hz|Hnil])|(Hnz & Hsum & _)]; try congruence.
        - subst dsize. reflexivity.
        - replace (dsize <=? blen pre + section_size c d - doff) with false by lia. apply andb_false_r. }
      rewrite Hpe.
      assert (Eall' : all = (pre ++ enc_section c d) ++ enc_sections (b2 :: t') ++ post) by (rewrite <- app_assoc; exact Eall).
      specialize (IH (pre ++ enc_section c d) post acc' f Eall' Hok' Hfit').
      rewrite blen_app, blen_enc_section in IH. rewrite IH.
      * rewrite Hacc, <- app_assoc.
        replace (blen pre + section_size c d - doff) with (blen pre - doff + section_size c d) by lia. reflexivity.
      * lia.
      * cbn [length] in *. lia.
      * destruct Hend as [(Hp0 & [Hz|Hnil])|(Hnz & Hsum & _)]; try congruence.
        -- left. split; [exact Hp0|left; exact Hz].
        -- right. split; [exact Hnz|]. split; [lia|discriminate].
Qed.

Section AsFound.
  Variable hdrdec : bytes -> option (list bytes * N).

  (* CARv1 through a seekable source: the code as found already satisfied the property *)
  Theorem load_index_as_found_seek_v1 o roots bs :
    hdr_fits hdrdec o roots -> Forall gblock_ok bs -> Forall (cid_fits o) bs ->
    blen (enc_payload roots bs) < two63 ->
    load_index_gen hdrdec as_found SrcSeek o (enc_payload roots bs) = Ok (section_recs o (hlen_of roots) bs).
  Proof.
    intros (Hg & Hmax & H63) Hok Hfit Hall. unfold load_index_gen. cbn [fx_counted fx_topcheck as_found].
    unfold enc_payload at 1. rewrite (read_header_payload hdrdec (g_maxh o) roots (enc_sections bs) Hg Hmax H63).
    change (1 =? 1) with true. cbv iota. fold (hlen_of roots).
    assert (Est0 : advance_raw SrcSeek false (hlen_of roots) (mkrs 0 0) = mkrs (hlen_of roots) (hlen_of roots)) by reflexivity.
    rewrite Est0.
    set (all := enc_payload roots bs) in *.
    set (pre := ld (enc_header (Some roots) 1)).
    assert (Hpre : blen pre = hlen_of roots) by (unfold pre, hlen_of; apply blen_ld).
    assert (Eall : all = pre ++ enc_sections bs ++ []) by (unfold all, enc_payload, pre; rewrite app_nil_r; reflexivity).
    rewrite <- Hpre.
    rewrite (li_loop_as_found_sections SrcSeek o all 0 0 Hall bs pre [] [] (S (length all)) Eall Hok Hfit).
    - cbn [rev app]. rewrite N.sub_0_r. reflexivity.
    - lia.
    - rewrite Eall, !app_length. pose proof (length_enc_sections bs). lia.
    - left. split; [reflexivity|left; reflexivity].
  Qed.

  (* CARv2 through a seekable source, under the guard "some section, or nothing after the payload" *)
  Theorem load_index_as_found_seek_v2 o hi lo ioff pad roots bs trailer :
    (bs <> [] \/ trailer = []) ->
    pragma_good hdrdec o -> hdr_fits hdrdec o roots -> Forall gblock_ok bs -> Forall (cid_fits o) bs ->
    hi < two64 -> lo < two64 -> ioff < two63 ->
    blen (v2_container hi lo ioff pad (enc_payload roots bs) trailer) < two63 ->
    load_index_gen hdrdec as_found SrcSeek o (v2_container hi lo ioff pad (enc_payload roots bs) trailer)
    = Ok (section_recs o (hlen_of roots) bs).
  Proof.
    intros Hguard ((r & Hprag) & Hmaxp) (Hg & Hmax & H63) Hok Hfit Hhi Hlo Hio Hall.
    set (payload := enc_payload roots bs) in *.
    set (h := mkv2 hi lo (51 + blen pad) (blen payload) ioff).
    assert (Hpay : 0 < blen payload).
    { unfold payload. rewrite blen_payload_split. unfold hlen_of, ld_size. pose proof (uv_size_pos (blen (enc_header (Some roots) 1))). lia. }
    assert (Hcont : blen (v2_container hi lo ioff pad payload trailer) = 51 + blen pad + blen payload + blen trailer).
    { unfold v2_container. rewrite !blen_app, blen_enc_v2hdr. change (blen pragma) with 11. lia. }
    assert (Hh : v2hdr_ok h).
    { unfold v2hdr_ok, h. cbn [h_hi h_lo h_doff h_dsize h_ioff]. rewrite Hcont in Hall. repeat split; try assumption; lia. }
    unfold load_index_gen. cbn [fx_counted fx_topcheck as_found].
    set (all := v2_container hi lo ioff pad payload trailer) in *.
    assert (Eall0 : all = ld pragma_body ++ (enc_v2hdr h ++ pad ++ payload ++ trailer)) by reflexivity.
    assert (Hrp : read_header hdrdec (g_maxh o) all = Ok (r, 2, enc_v2hdr h ++ pad ++ payload ++ trailer, 11)).
    { rewrite Eall0. unfold read_header. rewrite ld_read_ld; [|cbv; reflexivity|change (blen pragma_body) with 10; lia|discriminate].
      rewrite Hprag. reflexivity. }
    rewrite Hrp. change (2 =? 1) with false. change (2 =? 2) with true. cbv iota.
    change (advance_raw SrcSeek false 11 (mkrs 0 0)) with (mkrs 11 11).
    assert (Ev0 : view all (mkrs 11 11) = enc_v2hdr h ++ pad ++ payload ++ trailer).
    { unfold view. cbn [rs_pos]. rewrite Eall0. change 11 with (blen (ld pragma_body)). apply drop_app. }
    rewrite Ev0, (read_v2hdr_enc h _ Hh).
    change (advance_raw SrcSeek false 40 (mkrs 11 11)) with (mkrs 51 51). cbn [h_doff h_dsize h seek_start].
    set (pre0 := ld pragma_body ++ enc_v2hdr h ++ pad).
    assert (Hpre0 : blen pre0 = 51 + blen pad).
    { unfold pre0. rewrite !blen_app, blen_enc_v2hdr. change (blen (ld pragma_body)) with 11. lia. }
    assert (Eall1 : all = pre0 ++ payload ++ trailer).
    { rewrite Eall0. unfold pre0. rewrite <- !app_assoc. reflexivity. }
    assert (Ev2 : view all (mkrs (51 + blen pad) (51 + blen pad)) = payload ++ trailer).
    { unfold view. cbn [rs_pos]. rewrite Eall1, <- Hpre0. apply drop_app. }
    rewrite Ev2. unfold payload at 1, enc_payload. rewrite <- app_assoc.
    rewrite (read_header_payload hdrdec (g_maxh o) roots _ Hg Hmax H63).
    change (1 =? 1) with true. cbn [negb]. cbv iota. fold (hlen_of roots).
    unfold advance. cbn [rs_pos rs_woff].
    set (pre := pre0 ++ ld (enc_header (Some roots) 1)).
    assert (Hpre : blen pre = 51 + blen pad + hlen_of roots).
    { unfold pre. rewrite blen_app, Hpre0, blen_ld. reflexivity. }
    assert (Eall : all = pre ++ enc_sections bs ++ trailer).
    { rewrite Eall1. unfold pre, payload, enc_payload. rewrite <- !app_assoc. reflexivity. }
    rewrite <- Hpre.
    rewrite (li_loop_as_found_sections SrcSeek o all (51 + blen pad) (blen payload) Hall bs pre trailer []
               (S (length all)) Eall Hok Hfit).
    - cbn [rev app]. unfold section_recs. replace (blen pre - (51 + blen pad)) with (hlen_of roots) by lia. reflexivity.
    - lia.
    - rewrite Eall, !app_length. pose proof (length_enc_sections bs). lia.
    - destruct bs as [|b t].
      + destruct Hguard as [Hne|Ht]; [congruence|]. left. split; [exact Ht|right; reflexivity].
      + right. split; [lia|]. split; [|discriminate].
        rewrite Hpre. unfold payload. rewrite blen_payload_split. lia.
  Qed.
End AsFound.
