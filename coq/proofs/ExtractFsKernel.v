(* filepath.EvalSymlinks agrees with the kernel's own resolution of the same string:
   the directory the containment theorem speaks of is the one stat(2) reaches. *)
From GoCar Require Import Bytes ExtractFs.
From GoCarProofs Require Import BytesFacts ExtractFsFacts ExtractFsEval.

Local Open Scope nat_scope.

(* symlink(2) refuses an empty target, so no link has one *)
Definition links_nonempty (fs : fsmap) : Prop := forall p, look fs p <> Some (NLink []).

Lemma removelast_app_ne {A} (a b : list A) : b <> [] -> removelast (a ++ b) = a ++ removelast b.
Proof. intro H. apply removelast_app. exact H. Qed.

Lemma phys_push_dotdot cwd dest c :
  is_dotdot c = true -> phys_of cwd (n_push dest c) = removelast (phys_of cwd dest).
Proof.
  intro Hdd. unfold n_push.
  assert (Ht : (is_empty c || is_dot c)%bool = false).
  { apply is_dotdot_eq in Hdd. subst c. reflexivity. }
  rewrite Ht, Hdd. rewrite !phys_of_nbase. destruct (n_names dest) eqn:En.
  - destruct (n_abs dest) eqn:Ea.
    + rewrite En, app_nil_r. unfold nbase. rewrite Ea. reflexivity.
    + cbn [n_names]. rewrite !app_nil_r. unfold nbase. cbn [n_abs n_ups]. rewrite Ea.
      unfold Nat.iter. cbn [nat_rect]. reflexivity.
  - cbn [n_names]. change (nbase cwd (mknp (n_abs dest) (n_ups dest) (removelast (n :: l)))) with (nbase cwd dest).
    rewrite removelast_app_ne by discriminate. reflexivity.
Qed.

Lemma eval_go_kernel_step links fs cwd :
  links_nonempty fs ->
  (forall l, links = S l -> forall rem dest d klinks,
      alldirs fs cwd dest -> eval_go l fs cwd dest rem = Some d ->
      kwalk klinks fs true (phys_of cwd dest) rem = KOk (phys_of cwd d) (look fs (phys_of cwd d)) \/
      kwalk klinks fs true (phys_of cwd dest) rem = KErr ELOOP) ->
  forall rem dest d klinks,
    alldirs fs cwd dest -> eval_go links fs cwd dest rem = Some d ->
    kwalk klinks fs true (phys_of cwd dest) rem = KOk (phys_of cwd d) (look fs (phys_of cwd d)) \/
    kwalk klinks fs true (phys_of cwd dest) rem = KErr ELOOP.
Proof.
  intros Hne IHl rem; induction rem as [|c rest IH]; intros dest d klinks Hinv H.
  { rewrite eval_go_nil in H. inversion H; subst. left. apply kwalk_nil. }
  rewrite eval_go_cons in H. rewrite kwalk_cons.
  destruct (is_empty c || is_dot c)%bool eqn:E1; [apply IH; assumption|].
  destruct (is_dotdot c) eqn:E2.
  { rewrite <- (phys_push_dotdot cwd dest c E2). apply IH; [|exact H].
    apply alldirs_push_dotdot; assumption. }
  cbn zeta in H.
  destruct (k_lstat _ _ _) as [p [n|]|e] eqn:El; try discriminate.
  cbn [n_abs] in El.
  apply lstat_snoc in El; [|exact Hinv|apply normalb_false_cases; assumption].
  destruct El as [[Hn [Hlen Hz]] [Hp Hlook]]. rewrite Hlen. cbn zeta.
  assert (Hb : nbase cwd (mknp (n_abs dest) (n_ups dest) (n_names dest ++ [c])) = nbase cwd dest)
    by reflexivity.
  assert (Hphys : phys_of cwd (mknp (n_abs dest) (n_ups dest) (n_names dest ++ [c])) = phys_of cwd dest ++ [c]).
  { rewrite !phys_of_nbase. cbn [n_names]. rewrite Hb, app_assoc. reflexivity. }
  assert (Hpp : p = phys_of cwd dest ++ [c]).
  { rewrite Hp, phys_of_nbase, app_assoc. reflexivity. }
  rewrite <- Hpp. rewrite <- Hlook.
  destruct n as [|dd|t].
  - (* directory *)
    rewrite Hpp, <- Hphys. apply IH; [|exact H].
    unfold alldirs. cbn [n_names]. rewrite Hb.
    apply dirchain_snoc; [exact Hinv|repeat split; assumption|rewrite <- Hp; symmetry; exact Hlook].
  - (* regular file *)
    destruct rest; [|discriminate]. rewrite eval_go_nil in H. inversion H; subst d.
    left. rewrite Hphys, <- Hpp, <- Hlook. reflexivity.
  - (* symbolic link: the kernel follows it too *)
    destruct links as [|l]; [discriminate|].
    replace (match rest with [] => negb true | _ :: _ => false end) with false by (destruct rest; reflexivity).
    destruct klinks as [|kl]; [right; reflexivity|].
    destruct t as [|b t'].
    { exfalso. apply (Hne p). symmetry. exact Hlook. }
    specialize (IHl l eq_refl (split_slash (b :: t') ++ rest)
                    (if is_abs (b :: t') then np_root else dest) d kl).
    destruct (is_abs (b :: t')).
    + apply IHl; [unfold alldirs; cbn; constructor|exact H].
    + apply IHl; [exact Hinv|exact H].
Qed.

Lemma eval_go_kernel : forall links fs cwd, links_nonempty fs -> forall rem dest d klinks,
  alldirs fs cwd dest -> eval_go links fs cwd dest rem = Some d ->
  kwalk klinks fs true (phys_of cwd dest) rem = KOk (phys_of cwd d) (look fs (phys_of cwd d)) \/
  kwalk klinks fs true (phys_of cwd dest) rem = KErr ELOOP.
Proof.
  induction links as [|l IHl]; intros fs cwd Hne; apply eval_go_kernel_step; try exact Hne.
  - intros l0 E; discriminate.
  - intros l0 E; inversion E; subst. apply IHl. exact Hne.
Qed.

(* what the output-directory argument resolves to for EvalSymlinks is what it resolves to for the
   kernel (stat: following every link), unless the kernel gives up after MAXSYMLINKS links *)
Theorem eval_symlinks_is_kernel_resolution fs cwd outdir root klinks :
  (forall p, look fs p <> Some (NLink [])) ->
  eval_symlinks_str fs cwd outdir = Some root ->
  kwalk klinks fs true (k_start cwd (is_abs outdir)) (split_slash outdir)
    = KOk (phys_of cwd root) (look fs (phys_of cwd root)) \/
  kwalk klinks fs true (k_start cwd (is_abs outdir)) (split_slash outdir) = KErr ELOOP.
Proof.
  intros Hne H. unfold eval_symlinks_str, eval_symlinks in H.
  destruct (is_abs outdir).
  - pose proof (eval_go_kernel max_eval_links fs cwd Hne (split_slash outdir) np_root root klinks) as K.
    apply K; [unfold alldirs; cbn; constructor|exact H].
  - pose proof (eval_go_kernel max_eval_links fs cwd Hne (split_slash outdir) np_here root klinks) as K.
    assert (Hs : phys_of cwd np_here = cwd) by (unfold phys_of; cbn; apply app_nil_r).
    rewrite Hs in K. apply K; [unfold alldirs; cbn; constructor|exact H].
Qed.
