(* C11, InsertionIndex.Marshal / Unmarshal as the code is: the round trip holds for the empty index
   only; for every non-empty index Unmarshal of Marshal's output never succeeds (it panics as soon as
   the CBOR decoder accepts the first record), Marshal forgets the CIDs, and the reported byte count
   is the constant 8. *)
From GoCar Require Import Bytes Varint Cid Header Index.
From GoCarProofs Require Import BytesFacts VarintFacts IndexKv IndexSort IndexCompact IndexRoundtrip.

Lemma ii_marshal_split ii rest :
  ii_marshal ii ++ rest
  = le_enc 8 (N.of_nat (length ii)) ++ (concat (map (fun r => ii_rec_cbor (r_off r)) ii) ++ rest).
Proof. unfold ii_marshal. rewrite <- app_assoc. reflexivity. Qed.

Lemma ii_count_field ii rest : N.of_nat (length ii) < two63 ->
  blen (ii_marshal ii ++ rest) <? 8 = false /\
  le_dec (take 8 (ii_marshal ii ++ rest)) = N.of_nat (length ii) /\
  drop 8 (ii_marshal ii ++ rest) = concat (map (fun r => ii_rec_cbor (r_off r)) ii) ++ rest.
Proof.
  intros Hn. rewrite ii_marshal_split.
  assert (H8 : N.of_nat (length ii) < 256 ^ N.of_nat 8)
    by (unfold two63 in Hn; change (256 ^ N.of_nat 8) with 18446744073709551616; lia).
  destruct (le_field 8 _ (concat (map (fun r => ii_rec_cbor (r_off r)) ii) ++ rest) H8) as [E1 E2].
  change (N.of_nat 8) with 8 in E1, E2. split; [|split; assumption].
  rewrite blen_app, blen_le_enc. lia.
Qed.

Section Dec.
  Variable recdec : bytes -> res bytes.

  (* the empty index round-trips, trailing bytes untouched *)
  Theorem ii_unmarshal_marshal_nil rest : ii_unmarshal recdec (ii_marshal [] ++ rest) = Ok ([], rest).
  Proof.
    unfold ii_unmarshal. destruct (ii_count_field [] rest ltac:(cbv; reflexivity)) as (E0 & E1 & E2).
    rewrite E0, E1, E2. reflexivity.
  Qed.

  (* a non-empty index never does, whatever the CBOR decoder makes of the record *)
  Theorem ii_roundtrip_never ii rest : ii <> [] -> N.of_nat (length ii) < two63 ->
    forall r, ii_unmarshal recdec (ii_marshal ii ++ rest) <> Ok r.
  Proof.
    intros Hne Hn r. unfold ii_unmarshal. destruct (ii_count_field ii rest Hn) as (E0 & E1 & E2).
    rewrite E0, E1, E2.
    assert (Hl : N.of_nat (length ii) <> 0) by (destruct ii; [congruence|cbn [length]; lia]).
    replace (N.of_nat (length ii) =? 0) with false by lia.
    replace (two63 <=? N.of_nat (length ii)) with false by lia. cbn [orb].
    destruct (recdec _); discriminate.
  Qed.

  (* ... and with a decoder that accepts what the encoder wrote, the outcome is the panic *)
  Theorem ii_roundtrip_panics ii rest : ii <> [] -> N.of_nat (length ii) < two63 ->
    (forall off tl, recdec (ii_rec_cbor off ++ tl) = Ok tl) ->
    ii_unmarshal recdec (ii_marshal ii ++ rest) = Err EPanic.
  Proof.
    intros Hne Hn Hdec. unfold ii_unmarshal. destruct (ii_count_field ii rest Hn) as (E0 & E1 & E2).
    rewrite E0, E1, E2.
    assert (Hl : N.of_nat (length ii) <> 0) by (destruct ii; [congruence|cbn [length]; lia]).
    replace (N.of_nat (length ii) =? 0) with false by lia.
    replace (two63 <=? N.of_nat (length ii)) with false by lia. cbn [orb].
    destruct ii as [|r t]; [congruence|]. cbn [map concat]. rewrite <- app_assoc, Hdec. reflexivity.
  Qed.
End Dec.

(* Marshal depends on the offsets only: the CIDs are not in the bytes *)
Theorem ii_marshal_forgets_cids ii ii' : map r_off ii = map r_off ii' -> ii_marshal ii = ii_marshal ii'.
Proof.
  intros H. unfold ii_marshal.
  assert (Hl : length ii = length ii') by (rewrite <- (map_length r_off ii), H, map_length; reflexivity).
  rewrite Hl. f_equal. rewrite <- (map_map r_off ii_rec_cbor ii), <- (map_map r_off ii_rec_cbor ii'), H. reflexivity.
Qed.

Lemma ii_rec_cbor_nonempty off : 1 <= blen (ii_rec_cbor off).
Proof. unfold ii_rec_cbor. rewrite blen_app. change (blen [xa2; x63; x43; x69; x64; xa0; x66; x4f; x66; x66; x73; x65; x74]) with 13. lia. Qed.

(* the reported count is right for the empty index only *)
Theorem ii_marshal_len_right_iff_empty ii : ii_marshal_len ii = blen (ii_marshal ii) <-> ii = [].
Proof.
  unfold ii_marshal_len, ii_marshal. rewrite blen_app, blen_le_enc. split.
  - destruct ii as [|r t]; [reflexivity|]. cbn [map concat]. rewrite blen_app.
    pose proof (ii_rec_cbor_nonempty (r_off r)) as Hne. intros Heq. lia.
  - intros ->. reflexivity.
Qed.

(* witnesses (also corpus/C11/insertion-cbor.case) *)
Definition iic_rec (d : bytes) (off : N) : irec := mkrec ([x01; x55; x12; x04] ++ d) 18 d off.
Definition iic_a : iidx := ii_load [iic_rec [xaa; xbb; xcc; xdd] 300] [].
Definition iic_b : iidx := ii_load [iic_rec [x00; x01; x02; x03] 300] [].

Lemma ii_roundtrip_refuted :
  exists ii, (exists rs, ii = ii_load rs []) /\
             forall recdec r, ii_unmarshal recdec (ii_marshal ii) <> Ok r.
Proof.
  exists iic_a. split; [eexists; reflexivity|]. intros recdec r.
  rewrite <- (app_nil_r (ii_marshal iic_a)). apply ii_roundtrip_never; [discriminate|cbv; reflexivity].
Qed.

Lemma ii_marshal_not_injective_refuted :
  exists ii ii', ii <> ii' /\ ii_marshal ii = ii_marshal ii' /\
                 ii_getall [xaa; xbb; xcc; xdd] ii <> ii_getall [xaa; xbb; xcc; xdd] ii'.
Proof. exists iic_a, iic_b. split; [discriminate|]. split; [reflexivity|]. vm_compute. discriminate. Qed.

Lemma ii_marshal_len_refuted : exists ii, ii_marshal_len ii = 8 /\ blen (ii_marshal ii) = 24.
Proof. exists iic_a. split; vm_compute; reflexivity. Qed.

Example iic_bytes :
  ii_marshal iic_a = le_enc 8 1 ++ [xa2; x63; x43; x69; x64; xa0; x66; x4f; x66; x66; x73; x65; x74; x19; x01; x2c].
Proof. vm_compute. reflexivity. Qed.
