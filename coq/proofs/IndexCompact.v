(* The compact bucket layout: record i of a bucket of width w lives at bytes [i*w, (i+1)*w). *)
From Coq Require Import Permutation Sorting.Sorted.
From GoCar Require Import Bytes Varint Cid Index.
From GoCarProofs Require Import BytesFacts VarintFacts IndexKv IndexSort.

Definition rec_bytes (r : irec) : bytes := r_digest r ++ le_enc 8 (r_off r).

Lemma compact_cons r l : compact (r :: l) = rec_bytes r ++ compact l.
Proof. reflexivity. Qed.

Lemma blen_le_enc w n : blen (le_enc w n) = N.of_nat w.
Proof. unfold blen. rewrite le_enc_length. reflexivity. Qed.

Lemma blen_rec_bytes r : blen (rec_bytes r) = rec_width r.
Proof. unfold rec_bytes, rec_width. rewrite blen_app, blen_le_enc. lia. Qed.

(* all records of a bucket have the bucket's width *)
Definition all_width (w : N) (l : list irec) : Prop := Forall (fun r => rec_width r = w) l.
Definition offs_ok (l : list irec) : Prop := Forall (fun r => r_off r < two64) l.

Lemma blen_compact w l : all_width w l -> blen (compact l) = N.of_nat (length l) * w.
Proof.
  induction 1 as [|r l Hr Hl IH]; [reflexivity|].
  rewrite compact_cons, blen_app, blen_rec_bytes, IH, Hr. cbn [length]. lia.
Qed.

Lemma compact_app a b : compact (a ++ b) = compact a ++ compact b.
Proof. unfold compact. rewrite map_app, concat_app. reflexivity. Qed.

Lemma drop_compact w l : all_width w l -> forall i,
  drop (N.of_nat i * w) (compact l) = compact (skipn i l).
Proof.
  induction 1 as [|r l Hr Hl IH]; intros i.
  - destruct i; cbn [skipn]; [rewrite drop_0; reflexivity|]. destruct (N.of_nat (S i) * w); reflexivity.
  - destruct i as [|i]; cbn [skipn].
    + rewrite drop_0. reflexivity.
    + rewrite compact_cons. rewrite drop_app_ge by (rewrite blen_rec_bytes, Hr; lia).
      rewrite blen_rec_bytes, Hr. replace (N.of_nat (S i) * w - w) with (N.of_nat i * w) by lia. apply IH.
Qed.

Lemma swi_count_compact w l : 8 <= w -> all_width w l -> swi_count (w, compact l) = N.of_nat (length l).
Proof.
  intros Hw Hl. unfold swi_count. cbn [fst snd]. rewrite (blen_compact w l Hl).
  rewrite N.div_mul by lia. reflexivity.
Qed.

Lemma le_dec_enc8 n : n < two64 -> le_dec (le_enc 8 n) = n.
Proof. intros H. apply le_dec_enc. exact H. Qed.

(* reading record i *)
Lemma swi_digest_at_compact w l i r t : all_width w l -> skipn i l = r :: t ->
  swi_digest_at (w, compact l) (N.of_nat i) = r_digest r.
Proof.
  intros Hl Hs. unfold swi_digest_at. cbn [fst snd]. rewrite (drop_compact w l Hl), Hs, compact_cons.
  assert (Hr : rec_width r = w).
  { unfold all_width in Hl. rewrite Forall_forall in Hl. apply Hl.
    rewrite <- (firstn_skipn i l), Hs. apply in_or_app. right. left. reflexivity. }
  unfold rec_bytes. rewrite <- app_assoc.
  replace (w - 8) with (blen (r_digest r)) by (unfold rec_width in Hr; lia). apply take_app.
Qed.

Lemma swi_off_at_compact w l i r t : all_width w l -> skipn i l = r :: t -> r_off r < two64 ->
  swi_off_at (w, compact l) (N.of_nat i) = r_off r.
Proof.
  intros Hl Hs Ho. unfold swi_off_at. cbn [fst snd].
  rewrite <- drop_drop. rewrite (drop_compact w l Hl), Hs, compact_cons.
  assert (Hr : rec_width r = w).
  { unfold all_width in Hl. rewrite Forall_forall in Hl. apply Hl.
    rewrite <- (firstn_skipn i l), Hs. apply in_or_app. right. left. reflexivity. }
  unfold rec_bytes. rewrite <- app_assoc.
  replace (w - 8) with (blen (r_digest r)) by (unfold rec_width in Hr; lia). rewrite drop_app.
  replace 8 with (blen (le_enc 8 (r_off r))) by apply blen_le_enc. rewrite take_app.
  apply le_dec_enc8. exact Ho.
Qed.

Lemma skipn_S_cons {A} i (l : list A) x t : skipn i l = x :: t -> skipn (S i) l = t.
Proof.
  revert l. induction i as [|i IH]; intros l H; cbn [skipn] in *.
  - subst. reflexivity.
  - destruct l as [|y l]; [discriminate|]. cbn [skipn]. apply IH. exact H.
Qed.

Lemma skipn_length_nil {A} i (l : list A) : skipn i l = [] -> (length l <= i)%nat.
Proof.
  revert l. induction i as [|i IH]; intros l H; cbn [skipn] in *.
  - subst. cbn. lia.
  - destruct l as [|y l]; [cbn; lia|]. cbn [length]. apply IH in H. lia.
Qed.

Lemma skipn_cons_length {A} i (l : list A) x t : skipn i l = x :: t -> (i < length l)%nat.
Proof.
  intros H. destruct (Nat.lt_ge_cases i (length l)) as [Hl|Hl]; [exact Hl|].
  rewrite skipn_all2 in H by exact Hl. discriminate.
Qed.

(* forEachDigest over a compact bucket lists the records in stored order *)
Lemma swi_foreach_f_compact w l : 8 <= w -> all_width w l -> offs_ok l ->
  forall t i fuel, skipn i l = t -> (length t < fuel)%nat ->
  swi_foreach_f fuel (w, compact l) (N.of_nat i) = map entry_of t.
Proof.
  intros Hw Hl Ho. induction t as [|r t IH]; intros i fuel Hs Hf.
  - destruct fuel; [cbn in Hf; lia|]. cbn [swi_foreach_f]. rewrite swi_count_compact by assumption.
    apply skipn_length_nil in Hs. replace (N.of_nat i <? N.of_nat (length l)) with false by lia. reflexivity.
  - destruct fuel; [cbn in Hf; lia|]. cbn [swi_foreach_f]. rewrite swi_count_compact by assumption.
    pose proof (skipn_cons_length _ _ _ _ Hs) as Hi.
    replace (N.of_nat i <? N.of_nat (length l)) with true by lia.
    rewrite (swi_digest_at_compact w l i r t Hl Hs).
    rewrite (swi_off_at_compact w l i r t Hl Hs).
    + cbn [map]. f_equal. replace (N.of_nat i + 1) with (N.of_nat (S i)) by lia.
      apply IH; [eapply skipn_S_cons; exact Hs|cbn in Hf; lia].
    + unfold offs_ok in Ho. rewrite Forall_forall in Ho. apply Ho.
      rewrite <- (firstn_skipn i l), Hs. apply in_or_app. right. left. reflexivity.
Qed.

Lemma length_compact_ge w l : 8 <= w -> all_width w l -> (length l <= length (compact l))%nat.
Proof.
  intros Hw Hl. pose proof (blen_compact w l Hl) as H. unfold blen in H. nia.
Qed.

Theorem swi_foreach_compact w l : 8 <= w -> all_width w l -> offs_ok l ->
  swi_foreach (w, compact l) = map entry_of l.
Proof.
  intros Hw Hl Ho. unfold swi_foreach. cbn [snd].
  apply (swi_foreach_f_compact w l Hw Hl Ho l 0%nat); [reflexivity|].
  pose proof (length_compact_ge w l Hw Hl). lia.
Qed.

Lemma compact_entries_of l : compact_entries (map entry_of l) = compact l.
Proof.
  unfold compact_entries, compact. rewrite map_map. reflexivity.
Qed.
