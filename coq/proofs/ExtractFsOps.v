(* The mutating operations (MkdirAll, Symlink, guarded Create) on a path whose parent passed
   resolvePath's check change the file system at most at the physical location of that path. *)
From GoCar Require Import Bytes ExtractFs.
From GoCarProofs Require Import BytesFacts ExtractFsFacts ExtractFsEval.

Local Open Scope nat_scope.

(* what may be put where: a new object at a free location, or new contents of a regular file *)
Definition compatible (o : option node) (n : node) : Prop :=
  match o, n with
  | None, _ => True
  | Some (NFile _), NFile _ => True
  | _, _ => False
  end.

Definition step_at (fs : fsmap) (p : phys) (fs' : fsmap) : Prop :=
  fs' = fs \/ exists n, fs' = fs_set fs p n /\ compatible (look fs p) n.

(* the working directory and its ancestors are directories *)
Definition cwd_ok (fs : fsmap) (cwd : phys) : Prop :=
  forall k, look fs (Nat.iter k (@removelast name) cwd) = Some NDir.

Lemma good_cases fs cwd g :
  good fs cwd g ->
  alldirs fs cwd g \/
  exists init last d0,
    n_names g = init ++ [last] /\ dirchain fs (nbase cwd g) init /\ name_ok last /\
    look fs (nbase cwd g ++ init ++ [last]) = Some (NFile d0).
Proof.
  intros [E|[init [last [n [E [Hd [Hok [Hl Hn]]]]]]]].
  - left. unfold alldirs. rewrite E. constructor.
  - rewrite phys_of_nbase, E in Hl. destruct n as [|d0|t]; [left|right|contradiction].
    + unfold alldirs. rewrite E. apply dirchain_snoc; assumption.
    + exists init, last, d0. auto.
Qed.

Lemma alldirs_look fs cwd g : cwd_ok fs cwd -> alldirs fs cwd g -> look fs (phys_of cwd g) = Some NDir.
Proof.
  intros Hc H. unfold alldirs in H. rewrite phys_of_nbase.
  destruct (list_snoc_cases (n_names g)) as [E|[init [last E]]]; rewrite E in *.
  - rewrite app_nil_r. unfold nbase. destruct (n_abs g); [reflexivity|apply Hc].
  - apply dirchain_last in H. apply H.
Qed.

Lemma names_ok_no_nul names tail :
  Forall name_ok names -> existsb has_nul (names ++ tail) = existsb has_nul tail.
Proof.
  induction 1 as [|c l [_ [_ Hz]] _ IH]; [reflexivity|]. cbn. rewrite Hz. exact IH.
Qed.

Lemma ndir_snoc (j : npath) init leaf :
  n_names j = init ++ [leaf] -> ndir j = mknp (n_abs j) (n_ups j) init.
Proof.
  intro E. unfold ndir. rewrite E. rewrite removelast_snoc.
  destruct (init ++ [leaf]) eqn:E'; [destruct init; discriminate|reflexivity].
Qed.

Lemma n_comps_snoc (j : npath) init leaf :
  n_names j = init ++ [leaf] -> n_comps j = n_comps (mknp (n_abs j) (n_ups j) init) ++ [leaf].
Proof. intro E. unfold n_comps. cbn [n_abs n_ups n_names]. rewrite E, app_assoc. reflexivity. Qed.

(* walking past a good path *)
Lemma walk_good links fs follow cwd g tail p n :
  good fs cwd g -> tail <> [] ->
  kwalk links fs follow (nbase cwd g) (n_names g ++ tail) = KOk p n ->
  alldirs fs cwd g /\ kwalk links fs follow (phys_of cwd g) tail = KOk p n.
Proof.
  intros Hg Ht H. destruct (good_cases _ _ _ Hg) as [Ha|[init [last [d0 [E [Hd [Hok Hl]]]]]]].
  - split; [exact Ha|]. rewrite kwalk_dirchain in H by exact Ha. exact H.
  - exfalso. rewrite E, <- app_assoc in H. rewrite kwalk_dirchain in H by exact Hd.
    cbn [app] in H. rewrite kwalk_cons in H. destruct Hok as [Hn [Hlen _]].
    apply normalb_true in Hn as [H1 H2]. rewrite H1, H2, Hlen in H. cbn zeta in H.
    rewrite <- app_assoc in H. rewrite Hl in H. destruct tail; [contradiction|discriminate].
Qed.

Lemma kwalk_leaf_not_long links fs follow cur c tail p n :
  normalb c = true -> kwalk links fs follow cur (c :: tail) = KOk p n -> name_too_long c = false.
Proof.
  intros Hn H. rewrite kwalk_cons in H. apply normalb_true in Hn as [H1 H2]. rewrite H1, H2 in H.
  destruct (name_too_long c); [discriminate|reflexivity].
Qed.

(* where a path that passed resolvePath resolves to *)
Lemma resolve_target fs cwd (j : npath) follow p n :
  names_normal j -> good fs cwd (ndir j) ->
  (follow = true -> n_names j <> [] -> forall t, look fs (phys_of cwd j) <> Some (NLink t)) ->
  k_resolve fs follow (k_start cwd (n_abs j)) (n_comps j) = KOk p n ->
  p = phys_of cwd j /\ n = look fs p.
Proof.
  intros Hnn Hg Hnl H. rewrite k_resolve_npath0 in H.
  destruct (existsb has_nul (n_names j)); [discriminate|].
  destruct (list_snoc_cases (n_names j)) as [E|[init [leaf E]]].
  - rewrite E in H. rewrite kwalk_nil in H. inversion H; subst.
    rewrite phys_of_nbase, E, app_nil_r. auto.
  - rewrite (ndir_snoc _ _ _ E) in Hg.
    assert (Hb : nbase cwd (mknp (n_abs j) (n_ups j) init) = nbase cwd j) by reflexivity.
    rewrite E in H.
    assert (Hw := walk_good max_symlinks fs follow cwd (mknp (n_abs j) (n_ups j) init) [leaf] p n Hg).
    cbn [n_names] in Hw. rewrite Hb in Hw. specialize (Hw ltac:(discriminate) H).
    destruct Hw as [Ha Hw]. rewrite phys_of_nbase in Hw. cbn [n_names] in Hw. rewrite Hb in Hw.
    assert (Hleaf : normalb leaf = true).
    { unfold names_normal in Hnn. rewrite E in Hnn. apply Forall_app in Hnn as [_ Hnn].
      inversion Hnn; assumption. }
    assert (Hphys : phys_of cwd j = (nbase cwd j ++ init) ++ [leaf]).
    { rewrite phys_of_nbase, E, app_assoc. reflexivity. }
    destruct follow.
    + apply kwalk_leaf_follow_nolink in Hw; [|exact Hleaf|].
      * rewrite Hphys. exact Hw.
      * rewrite <- Hphys. apply Hnl; [reflexivity|]. rewrite E. destruct init; discriminate.
    + apply kwalk_leaf_nofollow in Hw; [|exact Hleaf]. rewrite Hphys. destruct Hw as [A [B _]]. auto.
Qed.

Lemma step_refl fs p : step_at fs p fs.
Proof. left; reflexivity. Qed.

Lemma k_mkdir_step fs cwd j fs' ok :
  names_normal j -> good fs cwd (ndir j) ->
  k_mkdir fs (k_start cwd (n_abs j)) (n_comps j) = (fs', ok) -> step_at fs (phys_of cwd j) fs'.
Proof.
  intros Hn Hg H. unfold k_mkdir in H.
  destruct (k_resolve fs false _ _) as [p [n|]|e] eqn:R; inversion H; subst; try apply step_refl.
  apply resolve_target in R; [|exact Hn|exact Hg|discriminate]. destruct R as [Hp Hl]. subst p.
  right. exists NDir. split; [reflexivity|]. rewrite <- Hl. exact I.
Qed.

Lemma k_symlink_step fs cwd j tg fs' ok :
  names_normal j -> good fs cwd (ndir j) ->
  k_symlink fs tg (k_start cwd (n_abs j)) (n_comps j) = (fs', ok) -> step_at fs (phys_of cwd j) fs'.
Proof.
  intros Hn Hg H. unfold k_symlink in H.
  destruct (is_empty tg || has_nul tg || (4095 <? blen tg)%N)%bool; [inversion H; apply step_refl|].
  destruct (k_resolve fs false _ _) as [p [n|]|e] eqn:R; inversion H; subst; try apply step_refl.
  apply resolve_target in R; [|exact Hn|exact Hg|discriminate]. destruct R as [Hp Hl]. subst p.
  right. exists (NLink tg). split; [reflexivity|]. rewrite <- Hl. exact I.
Qed.

(* lstat sees a final symbolic link whenever open() would have followed one *)
Lemma lstat_sees_link fs cwd (j : npath) t p n :
  names_normal j -> good fs cwd (ndir j) -> n_names j <> [] ->
  k_resolve fs true (k_start cwd (n_abs j)) (n_comps j) = KOk p n ->
  look fs (phys_of cwd j) = Some (NLink t) ->
  k_lstat fs (k_start cwd (n_abs j)) (n_comps j) = KOk (phys_of cwd j) (Some (NLink t)).
Proof.
  intros Hnn Hg Hne H Hl. unfold k_lstat. rewrite k_resolve_npath0 in *.
  destruct (existsb has_nul (n_names j)); [discriminate|].
  destruct (list_snoc_cases (n_names j)) as [E|[init [leaf E]]]; [contradiction|].
  rewrite (ndir_snoc _ _ _ E) in Hg.
  assert (Hb : nbase cwd (mknp (n_abs j) (n_ups j) init) = nbase cwd j) by reflexivity.
  rewrite E in *.
  assert (Hw := walk_good max_symlinks fs true cwd (mknp (n_abs j) (n_ups j) init) [leaf] p n Hg).
  cbn [n_names] in Hw. rewrite Hb in Hw. specialize (Hw ltac:(discriminate) H).
  destruct Hw as [Ha Hw]. rewrite phys_of_nbase in Hw. cbn [n_names] in Hw. rewrite Hb in Hw.
  assert (Hleaf : normalb leaf = true).
  { unfold names_normal in Hnn. rewrite E in Hnn. apply Forall_app in Hnn as [_ Hnn].
    inversion Hnn; assumption. }
  unfold alldirs in Ha. cbn [n_names] in Ha. rewrite Hb in Ha.
  rewrite kwalk_dirchain by exact Ha.
  assert (Hphys : phys_of cwd j = (nbase cwd j ++ init) ++ [leaf]).
  { rewrite phys_of_nbase, E, app_assoc. reflexivity. }
  rewrite Hphys in *.
  apply kwalk_leaf_link; [exact Hleaf| |exact Hl].
  eapply kwalk_leaf_not_long; [exact Hleaf|exact Hw].
Qed.

Lemma extract_file_step fs cwd j d complete fs' ok :
  names_normal j -> good fs cwd (ndir j) ->
  extract_file true fs cwd j d complete = (fs', ok) -> step_at fs (phys_of cwd j) fs'.
Proof.
  intros Hn Hg H. unfold extract_file in H. cbn [andb] in H.
  destruct (match k_lstat fs (k_start cwd (n_abs j)) (n_comps j) with
            | KOk _ (Some (NLink _)) => true | _ => false end) eqn:G.
  { inversion H; apply step_refl. }
  destruct (k_create fs (k_start cwd (n_abs j)) (n_comps j) d) as [fs1 ok1] eqn:C.
  inversion H; subst fs1. clear H. unfold k_create in C.
  destruct (k_resolve fs true _ _) as [p [n|]|e] eqn:R.
  3: inversion C; apply step_refl.
  - (* the target exists *)
    assert (Hnl : n_names j <> [] -> forall t, look fs (phys_of cwd j) <> Some (NLink t)).
    { intros Hne t Hl. erewrite lstat_sees_link in G; try eassumption. discriminate. }
    destruct (list_snoc_cases (n_names j)) as [E|[init [leaf E]]].
    + (* the path is the directory the walk started from *)
      assert (R' := R). apply resolve_target in R'; [|exact Hn|exact Hg|].
      2:{ intros _ Hne. rewrite E in Hne. contradiction. }
      destruct R' as [Hp Hl]. subst p.
      destruct n as [|d0|t]; inversion C; subst; try apply step_refl.
      right. exists (NFile d). split; [reflexivity|]. rewrite <- Hl. exact I.
    + apply resolve_target in R; [|exact Hn|exact Hg|intros _; exact Hnl].
      destruct R as [Hp Hl]. subst p.
      destruct n as [|d0|t]; inversion C; subst; try apply step_refl.
      right. exists (NFile d). split; [reflexivity|]. rewrite <- Hl. exact I.
  - (* the target does not exist: created *)
    assert (Hnl : n_names j <> [] -> forall t, look fs (phys_of cwd j) <> Some (NLink t)).
    { intros Hne t Hl. erewrite lstat_sees_link in G; try eassumption. discriminate. }
    inversion C; subst.
    destruct (list_snoc_cases (n_names j)) as [E|[init [leaf E]]].
    + assert (R' := R). apply resolve_target in R'; [|exact Hn|exact Hg|].
      2:{ intros _ Hne. rewrite E in Hne. contradiction. }
      destruct R' as [Hp Hl]. subst p.
      right. exists (NFile d). split; [reflexivity|]. rewrite <- Hl. exact I.
    + apply resolve_target in R; [|exact Hn|exact Hg|intros _; exact Hnl].
      destruct R as [Hp Hl]. subst p.
      right. exists (NFile d). split; [reflexivity|]. rewrite <- Hl. exact I.
Qed.

(* ---- os.MkdirAll ---- *)
Lemma mkdir_all_go_eq fs start abs rcomps trailing :
  mkdir_all_go fs start abs rcomps trailing =
  let kc := rev rcomps ++ (if trailing then [[]] else []) in
  match k_stat fs start kc with
  | KOk _ (Some NDir) => (fs, true)
  | KOk _ (Some _) => (fs, false)
  | _ =>
    let '(fs1, ok1) :=
      match rcomps with
      | [] => (fs, true)
      | _ :: par =>
        if (abs || (match par with [] => false | _ => true end))%bool
        then mkdir_all_go fs start abs par true else (fs, true)
      end in
    if negb ok1 then (fs1, false)
    else
      let '(fs2, ok2) := k_mkdir fs1 start kc in
      if ok2 then (fs2, true)
      else match k_lstat fs2 start kc with
           | KOk _ (Some NDir) => (fs2, true)
           | _ => (fs2, false)
           end
  end.
Proof. destruct rcomps; reflexivity. Qed.

(* MkdirAll("<g>/") on a chain of existing directories: nothing to do *)
Lemma mkdir_all_parent_dirs fs cwd g :
  cwd_ok fs cwd -> alldirs fs cwd g ->
  mkdir_all_go fs (k_start cwd (n_abs g)) (n_abs g) (rev (n_comps g)) true = (fs, true).
Proof.
  intros Hc Ha. rewrite mkdir_all_go_eq. cbn zeta. rewrite rev_involutive.
  unfold k_stat. rewrite k_resolve_npath.
  rewrite names_ok_no_nul by (eapply dirchain_names_ok; exact Ha). cbn [existsb has_nul orb].
  rewrite kwalk_dirchain by exact Ha. rewrite kwalk_cons. cbn [is_empty orb]. rewrite kwalk_nil.
  rewrite <- phys_of_nbase. rewrite (alldirs_look _ _ _ Hc Ha). reflexivity.
Qed.

(* MkdirAll("<g>/") where g passed EvalSymlinks: the file system is not touched *)
Lemma mkdir_all_parent_unchanged fs cwd g fs' ok :
  cwd_ok fs cwd -> good fs cwd g ->
  mkdir_all_go fs (k_start cwd (n_abs g)) (n_abs g) (rev (n_comps g)) true = (fs', ok) -> fs' = fs.
Proof.
  intros Hc Hg H. destruct (good_cases _ _ _ Hg) as [Ha|[init [last [d0 [E [Hd [Hok Hl]]]]]]].
  - rewrite mkdir_all_parent_dirs in H by assumption. inversion H; reflexivity.
  - (* the last component is a regular file: stat and mkdir of "<g>/" fail with ENOTDIR *)
    assert (Hwalk : forall follow,
      k_resolve fs follow (k_start cwd (n_abs g)) (n_comps g ++ [[]]) = KErr ENOTDIR).
    { intro follow. rewrite k_resolve_npath. rewrite E.
      rewrite names_ok_no_nul.
      2:{ apply Forall_app; split; [eapply dirchain_names_ok; exact Hd|constructor; [exact Hok|constructor]]. }
      cbn [existsb has_nul orb]. rewrite <- app_assoc. rewrite kwalk_dirchain by exact Hd.
      cbn [app]. rewrite kwalk_cons. destruct Hok as [Hn [Hlen _]].
      apply normalb_true in Hn as [H1 H2]. rewrite H1, H2, Hlen. cbn zeta.
      rewrite <- app_assoc. rewrite Hl. reflexivity. }
    rewrite mkdir_all_go_eq in H. cbn zeta in H. rewrite rev_involutive in H.
    unfold k_stat in H. rewrite Hwalk in H.
    pose (g' := mknp (n_abs g) (n_ups g) init).
    assert (Hc' : n_comps g = n_comps g' ++ [last]) by (apply n_comps_snoc; exact E).
    rewrite Hc' in H. rewrite rev_unit in H.
    assert (Hpar : (if (n_abs g || (match rev (n_comps g') with [] => false | _ => true end))%bool
                    then mkdir_all_go fs (k_start cwd (n_abs g)) (n_abs g) (rev (n_comps g')) true
                    else (fs, true)) = (fs, true)).
    { destruct (n_abs g || _)%bool; [|reflexivity].
      apply (mkdir_all_parent_dirs fs cwd g' Hc). exact Hd. }
    rewrite Hpar in H. cbn [negb] in H.
    rewrite <- Hc' in H. unfold k_mkdir, k_lstat in H. rewrite Hwalk in H.
    cbn beta iota zeta in H. rewrite Hwalk in H.
    inversion H; reflexivity.
Qed.

Lemma mkdir_all_step fs cwd j fs' ok :
  cwd_ok fs cwd -> names_normal j -> good fs cwd (ndir j) ->
  mkdir_all fs cwd j = (fs', ok) -> step_at fs (phys_of cwd j) fs'.
Proof.
  intros Hc Hn Hg H. unfold mkdir_all in H. rewrite mkdir_all_go_eq in H. cbn zeta in H.
  rewrite rev_involutive, app_nil_r in H.
  destruct (list_snoc_cases (n_names j)) as [E|[init [leaf E]]].
  - (* the path is an ancestor of the working directory (or "/"): it exists *)
    assert (Ha : alldirs fs cwd j) by (unfold alldirs; rewrite E; constructor).
    unfold k_stat in H. rewrite k_resolve_npath0 in H. rewrite E in H. cbn [existsb] in H.
    rewrite kwalk_nil in H.
    pose proof (alldirs_look _ _ _ Hc Ha) as Hl. rewrite phys_of_nbase, E, app_nil_r in Hl.
    rewrite Hl in H. inversion H. apply step_refl.
  - destruct (k_stat fs (k_start cwd (n_abs j)) (n_comps j)) as [p0 [[|d0|t0]|]|e0] eqn:S;
      try (inversion H; apply step_refl).
    all: assert (Hg' : good fs cwd (mknp (n_abs j) (n_ups j) init))
           by (rewrite <- (ndir_snoc _ _ _ E); exact Hg).
    all: rewrite (n_comps_snoc _ _ _ E) in H; rewrite rev_unit in H.
    all: destruct (if (n_abs j || _)%bool then _ else _) as [fs1 ok1] eqn:P.
    all: assert (Hfs1 : fs1 = fs).
    1,3: destruct (n_abs j || _)%bool;
         [eapply (mkdir_all_parent_unchanged fs cwd (mknp (n_abs j) (n_ups j) init)); eassumption
         |inversion P; reflexivity].
    all: subst fs1.
    all: destruct ok1; cbn [negb] in H; [|inversion H; apply step_refl].
    all: rewrite <- (n_comps_snoc _ _ _ E) in H.
    all: destruct (k_mkdir fs (k_start cwd (n_abs j)) (n_comps j)) as [fs2 ok2] eqn:M.
    all: apply k_mkdir_step in M; [|exact Hn|exact Hg].
    all: destruct ok2; [inversion H; subst; exact M|].
    all: destruct (k_lstat fs2 _ _) as [? [[| |]|]|]; inversion H; subst; exact M.
Qed.
