(* C04 and the readers' size limits (MaxAllowedSectionSize, MaxAllowedHeaderSize).
   - the reference map with limits (StoreSpec.spec_step_lim) IS the plain reference map as long as every
     stored section is within the limit (length EQUAL to the limit included) and the header fits;
   - beyond the limit: a freshly put block whose section is longer than the limit is refused by Get and
     GetSize with ESectionTooLarge while Has answers true -- what the code at HEAD does (strict >). *)
From GoCar Require Import Bytes Varint Cid Header Frame V2Header Scan Index Store StoreSpec.
From GoCarProofs Require Import BytesFacts VarintFacts CidFacts HeaderFacts ScanFacts StoreInv StoreSpecFacts StoreSpecCor.

Definition within (o : wopts) (b : bytes * bytes) : Prop := cid_parse (fst b) <> None -> sec_len b <= w_maxs o.

Lemma m_find_lookup o bs k kp : cid_parse k = Some kp -> Forall (within o) bs ->
  m_find o bs k kp = match m_lookup o bs k with Some b => Ok b | None => Err ENotFound end.
Proof.
  intros Hk. induction 1 as [|b t Hb _ IH]; [reflexivity|]. cbn [m_find]. unfold m_lookup in *. cbn [find].
  unfold within in Hb.
  destruct (cid_parse (fst b)) as [p|] eqn:Hp.
  - destruct (bytes_eqb (c_digest p) (c_digest kp)) eqn:Ed.
    + assert (Hb' : sec_len b <= w_maxs o) by (apply Hb; congruence).
      replace (w_maxs o <? sec_len b) with false by lia.
      destruct (same_key (w_whole o) (fst b) k); [reflexivity|exact IH].
    + assert (Hs : same_key (w_whole o) (fst b) k = false).
      { unfold same_key. rewrite Hp, Hk, Ed. destruct (w_whole o); [|apply andb_false_r].
        destruct (bytes_eqb (fst b) k) eqn:E; [|reflexivity]. apply bytes_eqb_eq in E. rewrite E, Hk in Hp.
        inversion Hp; subst. rewrite bytes_eqb_refl in Ed. discriminate. }
      rewrite Hs. exact IH.
  - assert (Hs : same_key (w_whole o) (fst b) k = false).
    { unfold same_key. rewrite Hp. destruct (w_whole o); [|reflexivity].
      destruct (bytes_eqb (fst b) k) eqn:E; [|reflexivity]. apply bytes_eqb_eq in E. rewrite E in Hp. congruence. }
    rewrite Hs. exact IH.
Qed.

(* within the limits the map with limits is the map *)
Lemma spec_step_lim_eq f o roots hlen m op :
  Forall (within o) (m_blocks m) -> hlen <= w_maxh o ->
  spec_step_lim f o roots hlen m op = spec_step f o roots m op.
Proof.
  intros Hw Hh.
  assert (Hr : m_roots_lim o roots hlen = OKeys roots) by (unfold m_roots_lim; replace (w_maxh o <? hlen) with false by lia; reflexivity).
  assert (Hg : forall c, m_get_lim o m c = m_get o m c).
  { intros c. unfold m_get_lim, m_get. destruct (cid_parse c) as [p|] eqn:Hp; [|reflexivity].
    rewrite (m_find_lookup o _ c p Hp Hw). destruct (m_lookup o (m_blocks m) c); reflexivity. }
  assert (Hz : forall c, m_getsize_lim o m c = m_getsize o m c).
  { intros c. unfold m_getsize_lim, m_getsize. destruct (cid_parse c) as [p|] eqn:Hp; [|reflexivity].
    rewrite (m_find_lookup o _ c p Hp Hw). destruct (m_lookup o (m_blocks m) c); reflexivity. }
  destruct op; try reflexivity; unfold spec_step_lim; destruct f as [|r|]; cbn [spec_step]; rewrite ?Hg, ?Hz, ?Hr; reflexivity.
Qed.

Lemma trace_lim_eq f o roots hlen ops : forall m,
  Forall (within o) (m_blocks m ++ puts_of ops) -> hlen <= w_maxh o ->
  trace (spec_step_lim f o roots hlen) m ops = trace (spec_step f o roots) m ops.
Proof.
  induction ops as [|op t IH]; intros m Hw Hh; [reflexivity|]. cbn [trace].
  change (op :: t) with ([op] ++ t) in Hw. rewrite puts_of_app, app_assoc in Hw.
  apply Forall_app in Hw. destruct Hw as (Hw1 & Hw2).
  rewrite spec_step_lim_eq; [|apply Forall_app in Hw1; apply Hw1|exact Hh].
  pose proof (spec_step_blocks_incl f o roots m op) as Hincl.
  destruct (spec_step f o roots m op) as [m' r]. cbn [fst] in Hincl. f_equal. apply IH; [|exact Hh].
  apply Forall_app. split; [|exact Hw2]. rewrite Forall_forall in *. intros x Hx. apply Hw1. apply Hincl. exact Hx.
Qed.

Lemma puts_within o ops : Forall (op_ok o) ops ->
  Forall (within o) (puts_of ops).
Proof.
  induction 1 as [|op t Hop _ IH]; [constructor|]. change (op :: t) with ([op] ++ t). rewrite puts_of_app.
  apply Forall_app. split; [|exact IH].
  destruct op as [c d|l|c|c|c| | | | | | ]; cbn [puts_of flat_map app]; try apply Forall_nil.
  - apply Forall_cons; [|apply Forall_nil]. unfold within. cbn [fst]. intros Hp. destruct (Hop Hp) as (_ & H & _). exact H.
  - rewrite app_nil_r. cbn [op_ok] in Hop. eapply Forall_impl; [|exact Hop]. intros b Hb Hp. destruct (Hb Hp) as (_ & H & _). exact H.
Qed.

(* the refinement theorem against the map with limits: under the hypotheses of C04_refines_map (every put
   section within MaxAllowedSectionSize -- equality included -- and the header within MaxAllowedHeaderSize) *)
Theorem refines_map_lim hdrdec k o nilroots roots :
  base_fits o ->
  hdrdec (enc_header (roots_opt nilroots roots) 1) = Some (roots, 1) ->
  blen (enc_header (roots_opt nilroots roots) 1) <= w_maxh o ->
  blen (enc_header (roots_opt nilroots roots) 1) < two63 ->
  forall s0, open_new k o nilroots roots [] = Ok s0 ->
  forall f ops, hist_ok o nilroots roots ops ->
  outs (trace (impl_step hdrdec f) s0 ops)
  = outs (trace (spec_step_lim f o roots (blen (enc_header (roots_opt nilroots roots) 1))) m_empty ops).
Proof.
  intros H1 H2 H3 H4 s0 Ho f ops Hh.
  rewrite (refines_map hdrdec k o nilroots roots H1 H2 H3 H4 s0 Ho f ops Hh).
  rewrite trace_lim_eq; [reflexivity| |exact H3]. cbn [m_empty m_blocks app]. apply puts_within. apply Hh.
Qed.

(* ---- beyond the limit ------------------------------------------------------------------------------------- *)
(* no stored block carries the digest of p *)
Definition fresh_digest (p : cidp) (bs : stored_blocks) : Prop :=
  Forall (fun b => forall q, cid_parse (fst b) = Some q -> bytes_eqb (c_digest q) (c_digest p) = false) bs.

Lemma fresh_no_candidates p bs : fresh_digest p bs -> forall pos,
  filter (has_digest (c_digest p)) (records_from pos bs) = [].
Proof.
  induction 1 as [|[c d] t Hb _ IH]; intros pos; [reflexivity|]. cbn [records_from].
  destruct (cid_parse c) as [q|] eqn:Hq; [|apply IH]. cbn [filter]. unfold has_digest at 1. cbn [r_digest].
  rewrite (Hb q Hq). apply IH.
Qed.

(* FindCid at a section that is longer than the limit: both the ReadNode path and the size-only path
   refuse it (lengths EQUAL to the limit pass: read_node_section, find_cid_sections_rb, find_cid_sections_sz) *)
Lemma find_cid_oversize view pre c d rest more key kp whole zeof maxs rb :
  view = pre ++ enc_section c d ++ rest -> maxs < blen c + blen d -> blen c + blen d < two63 ->
  find_cid view (blen pre :: more) key kp whole zeof maxs rb = Err ESectionTooLarge.
Proof.
  intros Hv Hbig H63. cbn [find_cid]. rewrite (view_at view pre _ Hv). unfold enc_section. rewrite <- !app_assoc.
  destruct rb.
  - unfold read_node, ld_read, ld_read_size. rewrite read_uv_put_uv by exact H63.
    assert (Hz : (blen c + blen d =? 0) = false) by lia. rewrite Hz. cbn [andb].
    replace (maxs <? blen c + blen d) with true by lia. reflexivity.
  - unfold raw_uv. rewrite read_uv_put_uv by exact H63. replace (maxs <? blen c + blen d) with true by lia. reflexivity.
Qed.

(* a block with a fresh digest, accepted by Put although its section is longer than MaxAllowedSectionSize:
   Has says yes, Get and GetSize refuse with ESectionTooLarge *)
Theorem oversize_put_then_read s hb bs c d p :
  Inv s hb bs -> no_faults s -> cid_parse c = Some p -> fresh_digest p bs ->
  should_put (ws_opts s) (ws_idx s) c p = Ok true ->
  w_maxs (ws_opts s) < blen c + blen d -> blen c + blen d < two63 ->
  ws_closed s = false -> negb (w_storeid (ws_opts s)) && is_identity p = false ->
  let s' := fst (put_one s c d p) in
  snd (put_one s c d p) = ONil /\
  bs_has s' c = OBool true /\
  bs_get s' c = OErr ESectionTooLarge /\
  (is_identity p = false -> bs_getsize s' c = OErr ESectionTooLarge) /\
  st_get s' true c = OErr ESectionTooLarge.
Proof.
  intros HI Hnf Hp Hfresh Hsp Hbig H63 Hcl Hid. cbn zeta.
  destruct (put_one_inv s hb bs c d p HI Hnf Hp Hsp) as (s' & Hpo & HI' & _ & Hc' & _ & _ & Ho' & _).
  rewrite Hpo. cbn [fst snd]. split; [reflexivity|].
  assert (Hcand : ii_with_digest (c_digest p) (ws_idx s')
                  = [mkrec c (c_mhcode p) (c_digest p) (blen (ld hb) + blen (sections bs))]).
  { rewrite (inv_with_digest _ _ _ _ HI'), records_from_app, filter_app, (fresh_no_candidates p bs Hfresh).
    cbn [records_from app]. rewrite Hp. cbn [filter]. unfold has_digest. cbn [r_digest]. rewrite bytes_eqb_refl. reflexivity. }
  destruct (inv_view _ _ _ HI') as (post & Hv).
  assert (Hfind : forall rb, ws_find s' c p rb = Err ESectionTooLarge).
  { intros rb. unfold ws_find, ii_getall. rewrite Hcand. cbn [map r_off].
    replace (blen (ld hb) + blen (sections bs)) with (blen (ld hb ++ sections bs)) by (rewrite blen_app; reflexivity).
    apply (find_cid_oversize (ws_view s') (ld hb ++ sections bs) c d post); [|rewrite Ho'; exact Hbig|exact H63].
    rewrite Hv, sections_app. cbn [sections map concat fst snd]. rewrite app_nil_r, <- !app_assoc. reflexivity. }
  rewrite <- Ho' in Hid.
  repeat split.
  - unfold bs_has. rewrite Hp, Hc', Hcl. f_equal. unfold store_has. rewrite Hid.
    unfold ii_has_exact_cid, ii_has_multihash. rewrite Hcand. cbn [existsb r_cid r_code]. rewrite bytes_eqb_refl, N.eqb_refl.
    destruct (w_whole (ws_opts s')); reflexivity.
  - unfold bs_get. rewrite Hp, Hid, Hc', Hcl, Hfind. reflexivity.
  - intros Hni. unfold bs_getsize. rewrite Hp, Hni, Hc', Hcl, Hfind. reflexivity.
  - unfold st_get. cbn [negb]. rewrite Hp, Hid, Hc', Hcl, Hfind. reflexivity.
Qed.

(* Roots with a header over MaxAllowedHeaderSize: refused with EHeaderTooLarge; a header of exactly the
   maximum is read (step_sim's Roots case, hypothesis blen hb <= w_maxh) *)
Theorem roots_header_over_limit hdrdec s hb bs :
  Inv s hb bs -> ws_closed s = false -> w_maxh (ws_opts s) < blen hb -> blen hb < two63 ->
  bs_roots hdrdec s = OErr EHeaderTooLarge.
Proof.
  intros HI Hc Hbig H63. unfold bs_roots. rewrite Hc. destruct (inv_view _ _ _ HI) as (post & Hv). rewrite Hv.
  unfold read_header, ld_read, ld_read_size, ld. rewrite <- app_assoc, read_uv_put_uv by exact H63.
  rewrite andb_false_r. replace (w_maxh (ws_opts s) <? blen hb) with true by lia. reflexivity.
Qed.

(* ---- non-vacuity: a section of EXACTLY the maximum is read back, one byte more is refused ---------------- *)
From GoCarProofs Require Import StoreSpecExamples.
(* |ex_cA| + |ex_data| = 36 + 4 = 40 *)
Definition exl_o (maxs maxh : N) : wopts := mkwopts 0 0 1025 false 2048 false false false false maxh maxs.
Definition exl_ops : list sop := [OpPut ex_cA ex_data; OpHas ex_cA; OpGetSize ex_cA; OpGet ex_cA; OpRoots].

Example C04_example_section_limit :
  (forall s, open_new KBlockstore (exl_o 40 58) false ex_roots [] = Ok s ->
     outs (trace (impl_step dec_header_canon FBs) s exl_ops) = [ONil; OBool true; OSize 4; OBytes ex_data; OKeys ex_roots]) /\
  (forall s, open_new KBlockstore (exl_o 39 57) false ex_roots [] = Ok s ->
     outs (trace (impl_step dec_header_canon FBs) s exl_ops)
     = [ONil; OBool true; OErr ESectionTooLarge; OErr ESectionTooLarge; OErr EHeaderTooLarge]) /\
  blen (enc_header (roots_opt false ex_roots) 1) = 58.
Proof.
  split; [|split]; try (intros s H; vm_compute in H; apply Ok_inj in H; subst s); vm_compute; reflexivity.
Qed.
