(* MonitorReduce.v -- the reduction from micro-steps to atomic sections, for programs with data
   (single RW mutex, sections not nested, no goroutine creation; Monitor.v section Data).
   Every execution of the micro-step machine, in which the reads and writes of different threads
   interleave arbitrarily, is simulated by an execution of the atomic-section machine, in which
   each critical section runs from its acquire to its release in ONE step and there is no lock
   state at all: the atomic machine takes a section's step when the micro-step machine performs
   that section's release (so the sections are ordered by their releases, each between its call's
   first and last action), threads that hold no lock are in the same state in both machines, and
   whenever no writer is inside a section the two stores are equal.  In particular every
   terminated micro-step execution ends with the store and the return values of a sequence of
   atomically executed sections.  Hypothesis: the lock discipline [pok] on every thread. *)
From Coq Require Import List Arith Bool Lia.
Import ListNotations.
From GoCar Require Import Monitor.
From GoCarProofs Require Import MonitorDRF.

Section Reduce.
Variables V R : Type.
Variable exempt : nat -> bool.
Notation prog := (prog V R).
Notation store := (store V).
Notation dthread := (dthread V R).
Notation dcfg := (dcfg V R).
Notation acfg := (acfg V R).
Notation pok := (pok V R exempt).
Notation dstep := (dstep V R).
Notation dsteps := (dsteps V R).
Notation astep := (astep V R exempt).
Notation asteps := (asteps V R exempt).
Notation sec_run := (sec_run V R).

Definition seq (s1 s2 : store) : Prop := forall f, s1 f = s2 f.
Definition sres_eq (a b : store * prog) : Prop := snd a = snd b /\ seq (fst a) (fst b).

Lemma seq_refl s : seq s s. Proof. intro; reflexivity. Qed.
Lemma seq_sym s t : seq s t -> seq t s. Proof. intros H f. symmetry. apply H. Qed.
Lemma seq_trans s t u : seq s t -> seq t u -> seq s u.
Proof. intros H1 H2 f. rewrite H1. apply H2. Qed.
Lemma sres_eq_refl a : sres_eq a a. Proof. split; [reflexivity|apply seq_refl]. Qed.
Lemma sres_eq_sym a b : sres_eq a b -> sres_eq b a.
Proof. intros [H1 H2]. split; [auto|apply seq_sym; auto]. Qed.
Lemma sres_eq_trans a b c : sres_eq a b -> sres_eq b c -> sres_eq a c.
Proof. intros [H1 H2] [H3 H4]. split; [congruence|eapply seq_trans; eauto]. Qed.

Lemma supd_ext s1 s2 f v : seq s1 s2 -> seq (supd V s1 f v) (supd V s2 f v).
Proof. intros H x. unfold supd. destruct (Nat.eqb x f); auto. Qed.

Lemma sec_run_ext p : forall s1 s2, seq s1 s2 -> sres_eq (sec_run s1 p) (sec_run s2 p).
Proof.
  induction p as [r|md k IH|md k IH|f k IH|f v k IH]; intros s1 s2 H; cbn.
  - split; [reflexivity|exact H].
  - split; [reflexivity|exact H].
  - split; [reflexivity|exact H].
  - rewrite (H f). apply IH. exact H.
  - apply IH. apply supd_ext. exact H.
Qed.

(* ---- lock-state invariant of the micro-step machine ---------------------------------------- *)
Definition count {A} (p : A -> bool) (l : list A) : nat := length (filter p l).
Lemma count_app {A} (p : A -> bool) a b : count p (a ++ b) = count p a + count p b.
Proof. unfold count. rewrite filter_app, app_length. reflexivity. Qed.
Lemma count_cons {A} (p : A -> bool) x l : count p (x :: l) = (if p x then 1 else 0) + count p l.
Proof. unfold count. cbn. destruct (p x); reflexivity. Qed.
Lemma count_zero {A} (p : A -> bool) l : count p l = 0 -> forall x, In x l -> p x = false.
Proof.
  induction l as [|y l IH]; intros H x []; subst; rewrite count_cons in H.
  - destruct (p x); [discriminate|reflexivity].
  - apply IH; auto. destruct (p y); [discriminate|exact H].
Qed.

Definition dW (t : dthread) : bool := match dh V R t with Some MW => true | _ => false end.
Definition dR (t : dthread) : bool := match dh V R t with Some MR => true | _ => false end.

Definition LI (c : dcfg) : Prop :=
  count dW (dts V R c) = (if dwl V R c then 1 else 0) /\
  count dR (dts V R c) = drc V R c /\
  (dwl V R c = true -> drc V R c = 0) /\
  Forall (fun t => pok (dh V R t) (dp V R t)) (dts V R c).

(* ---- the simulation relation ----------------------------------------------------------------- *)
(* sc / sa: the stores of the micro-step and of the atomic machine *)
Definition trel (sc sa : store) (t : dthread) (p : prog) : Prop :=
  match dh V R t with
  | None => p = dp V R t
  | Some md => exists k0, p = PAcq V R md k0 /\ sres_eq (sec_run sa k0) (sec_run sc (dp V R t))
  end.

Definition Rsim (c : dcfg) (a : acfg) : Prop :=
  Forall2 (trel (dst V R c) (ast V R a)) (dts V R c) (ats V R a) /\
  (forall f, exempt f = true -> dst V R c f = ast V R a f) /\
  (dwl V R c = false -> seq (dst V R c) (ast V R a)) /\
  LI c.

Lemma Forall2_mid_inv {A B} (P : A -> B -> Prop) l x r ys :
  Forall2 P (l ++ x :: r) ys ->
  exists l' y r', ys = l' ++ y :: r' /\ Forall2 P l l' /\ P x y /\ Forall2 P r r'.
Proof.
  intro H. apply Forall2_app_inv_l in H as (l' & m & Hl & Hm & ->).
  inversion Hm as [|? y ? r' Hxy Hr]; subst. exists l', y, r'. auto.
Qed.

Lemma Forall2_mid_intro {A B} (P : A -> B -> Prop) l x r l' y r' :
  Forall2 P l l' -> P x y -> Forall2 P r r' -> Forall2 P (l ++ x :: r) (l' ++ y :: r').
Proof. intros. apply Forall2_app; auto. Qed.

Lemma Forall2_impl_in {A B} (P Q : A -> B -> Prop) l l' :
  Forall2 P l l' -> (forall x y, In x l -> P x y -> Q x y) -> Forall2 Q l l'.
Proof.
  induction 1 as [|x y l l' Hxy _ IH]; intro H; constructor.
  - apply H; [left; reflexivity|exact Hxy].
  - apply IH. intros a b Ha. apply H. right. exact Ha.
Qed.

Lemma trel_none sc sa sc' sa' t p : dh V R t = None -> trel sc sa t p -> trel sc' sa' t p.
Proof. unfold trel. intros ->. auto. Qed.

(* while a thread holds the lock exclusively everybody else holds nothing *)
Lemma writer_alone c l t r :
  LI c -> dts V R c = l ++ t :: r -> dh V R t = Some MW ->
  dwl V R c = true /\ forall u, In u l \/ In u r -> dh V R u = None.
Proof.
  intros (HW & HR & Hex & _) E Ht. rewrite E in HW, HR.
  rewrite count_app, count_cons in HW, HR. unfold dW at 2 in HW. unfold dR at 2 in HR. rewrite Ht in HW, HR.
  destruct (dwl V R c) eqn:Ew; [|lia]. split; [reflexivity|].
  specialize (Hex eq_refl). rewrite Hex in HR.
  assert (count dW l = 0 /\ count dW r = 0 /\ count dR l = 0 /\ count dR r = 0) as (A & B & C & D) by lia.
  intros u [Hu|Hu].
  - pose proof (count_zero _ _ A u Hu) as H1. pose proof (count_zero _ _ C u Hu) as H2.
    unfold dW, dR in *. destruct (dh V R u) as [[|]|]; auto; discriminate.
  - pose proof (count_zero _ _ B u Hu) as H1. pose proof (count_zero _ _ D u Hu) as H2.
    unfold dW, dR in *. destruct (dh V R u) as [[|]|]; auto; discriminate.
Qed.

(* while somebody holds the lock shared nobody holds it exclusively *)
Lemma reader_no_writer c l t r :
  LI c -> dts V R c = l ++ t :: r -> dh V R t = Some MR -> dwl V R c = false.
Proof.
  intros (HW & HR & Hex & _) E Ht. rewrite E in HR. rewrite count_app, count_cons in HR.
  unfold dR at 2 in HR. rewrite Ht in HR. destruct (dwl V R c); [|reflexivity].
  specialize (Hex eq_refl). lia.
Qed.

Ltac cnorm := rewrite ?count_app, ?count_cons in *.

Lemma LI_step c c' : LI c -> dstep c c' -> LI c'.
Proof.
  intros (HW & HR & Hex & Hok) Hs.
  destruct Hs as [l r h k c E Hw Hr|l r h k c E Hw|l r h k c E|l r h k c E|l r h f k c E|l r h f v k c E];
    rewrite E in *; apply Forall_mid in Hok as (Hl & Hx & Hrr); cbn [dh dp] in Hx; cbn [pok] in Hx;
    unfold LI; cbn [dwl drc dst dts]; cnorm; unfold dW at 2, dR at 2; unfold dW at 2 in HW; unfold dR at 2 in HR;
    cbn [dh] in *.
  - destruct Hx as [-> Hk]. rewrite Hw in HW. repeat split; try lia.
    apply Forall_mid; repeat split; auto.
  - destruct Hx as [-> Hk]. rewrite Hw in *. repeat split; try lia; try discriminate.
    apply Forall_mid; repeat split; auto.
  - destruct Hx as [-> Hk]. destruct (dwl V R c); [|lia]. specialize (Hex eq_refl).
    repeat split; try lia; try discriminate. apply Forall_mid; repeat split; auto.
  - destruct Hx as [-> Hk]. repeat split; try lia.
    + intro Hw. specialize (Hex Hw). lia.
    + apply Forall_mid; repeat split; auto.
  - destruct Hx as [_ Hk]. repeat split; auto. apply Forall_mid; repeat split; auto. apply Hk.
  - destruct Hx as (_ & -> & Hk). repeat split; auto. apply Forall_mid; repeat split; auto.
Qed.

Lemma trel_store_ext sc sa sa' t p : seq sa' sa -> trel sc sa t p -> trel sc sa' t p.
Proof.
  intro H. unfold trel. destruct (dh V R t) as [md|]; [|auto].
  intros (k0 & -> & Hs). exists k0. split; [reflexivity|].
  eapply sres_eq_trans; [apply sec_run_ext; exact H|exact Hs].
Qed.

(* one micro-step is matched by no step or by one step of the atomic machine *)
Lemma sim_step c a c' :
  Rsim c a -> dstep c c' -> exists a', (a' = a \/ astep a a') /\ Rsim c' a'.
Proof.
  intros (HF & Hexm & Hseq & HLI) Hs.
  pose proof (LI_step _ _ HLI Hs) as HLI'.
  pose proof HLI as (_ & _ & _ & Hok).
  destruct Hs as [l r h k c E Hw Hr|l r h k c E Hw|l r h k c E|l r h k c E|l r h f k c E|l r h f v k c E];
    pose proof E as E0; rewrite E in HF, Hok;
    apply Forall2_mid_inv in HF as (l' & y & r' & Ea & Hl & Hx & Hrr);
    apply Forall_mid in Hok as (_ & Hp & _); cbn [dh dp pok] in Hp; unfold trel in Hx; cbn [dh dp] in Hx.
  - (* acquire exclusive: the atomic machine waits *)
    destruct Hp as [-> Hk]. subst y. exists a. split; [auto|].
    split; [|split; [exact Hexm|split; [discriminate|exact HLI']]].
    cbn [dts dst]. rewrite Ea. apply Forall2_mid_intro; auto.
    unfold trel. cbn [dh dp]. exists k. split; [reflexivity|].
    apply sec_run_ext. apply seq_sym. apply Hseq. exact Hw.
  - (* acquire shared *)
    destruct Hp as [-> Hk]. subst y. exists a. split; [auto|].
    split; [|split; [exact Hexm|split; [intros _; apply Hseq; exact Hw|exact HLI']]].
    cbn [dts dst]. rewrite Ea. apply Forall2_mid_intro; auto.
    unfold trel. cbn [dh dp]. exists k. split; [reflexivity|].
    apply sec_run_ext. apply seq_sym. apply Hseq. exact Hw.
  - (* release exclusive: the atomic machine runs the whole section now *)
    destruct Hp as [-> Hk]. destruct Hx as (k0 & -> & Hs1 & Hs2). cbn [sec_run fst snd] in Hs1, Hs2.
    destruct (writer_alone c l _ r HLI E0 eq_refl) as [_ Hnone].
    exists {| ast := fst (sec_run (ast V R a) k0); ats := l' ++ snd (sec_run (ast V R a) k0) :: r' |}.
    split; [right; eapply ASec; eauto|].
    split; [|split; [|split; [|exact HLI']]]; cbn [dts dst ast ats dwl].
    + apply Forall2_mid_intro.
      * eapply Forall2_impl_in; [exact Hl|]. intros u q Hu. apply trel_none. apply Hnone. auto.
      * unfold trel. cbn [dh dp]. exact Hs1.
      * eapply Forall2_impl_in; [exact Hrr|]. intros u q Hu. apply trel_none. apply Hnone. auto.
    + intros f0 _. symmetry. apply Hs2.
    + intros _. apply seq_sym. exact Hs2.
  - (* release shared: the reader's section ran on an unchanging store *)
    destruct Hp as [-> Hk]. destruct Hx as (k0 & -> & Hs1 & Hs2). cbn [sec_run fst snd] in Hs1, Hs2.
    pose proof (reader_no_writer c l _ r HLI E0 eq_refl) as Hnw. specialize (Hseq Hnw).
    assert (seq (fst (sec_run (ast V R a) k0)) (ast V R a)) as Hsame
      by (eapply seq_trans; [exact Hs2|exact Hseq]).
    exists {| ast := fst (sec_run (ast V R a) k0); ats := l' ++ snd (sec_run (ast V R a) k0) :: r' |}.
    split; [right; eapply ASec; eauto|].
    split; [|split; [|split; [|exact HLI']]]; cbn [dts dst ast ats dwl].
    + apply Forall2_mid_intro.
      * eapply Forall2_impl_in; [exact Hl|]. intros u q _. apply trel_store_ext. exact Hsame.
      * unfold trel. cbn [dh dp]. exact Hs1.
      * eapply Forall2_impl_in; [exact Hrr|]. intros u q _. apply trel_store_ext. exact Hsame.
    + intros f0 _. symmetry. apply Hs2.
    + intros _. apply seq_sym. exact Hs2.
  - (* read *)
    destruct Hp as [Hf Hk]. destruct h as [md|].
    + (* inside a section: the atomic machine waits *)
      destruct Hx as (k0 & -> & Hsec). exists a. split; [auto|].
      split; [|split; [exact Hexm|split; [exact Hseq|exact HLI']]].
      cbn [dts dst]. rewrite Ea. apply Forall2_mid_intro; auto.
      unfold trel. cbn [dh dp]. exists k0. split; [reflexivity|exact Hsec].
    + (* outside: only fields that are never written; both machines read the same value *)
      destruct Hf as [Hf|Hf]; [|congruence]. subst y.
      exists {| ast := ast V R a; ats := l' ++ k (ast V R a f) :: r' |}.
      split; [right; eapply ARd; eauto|].
      split; [|split; [exact Hexm|split; [exact Hseq|exact HLI']]].
      cbn [dts dst ast ats]. apply Forall2_mid_intro; auto.
      unfold trel. cbn [dh dp]. rewrite (Hexm f Hf). reflexivity.
  - (* write: only inside an exclusive section; everybody else holds nothing *)
    destruct Hp as (Hf & -> & Hk). destruct Hx as (k0 & -> & Hsec).
    destruct (writer_alone c l _ r HLI E0 eq_refl) as [Hwl Hnone].
    exists a. split; [auto|].
    split; [|split; [|split; [|exact HLI']]]; cbn [dts dst dwl].
    + rewrite Ea. apply Forall2_mid_intro.
      * eapply Forall2_impl_in; [exact Hl|]. intros u q Hu. apply trel_none. apply Hnone. auto.
      * unfold trel. cbn [dh dp]. exists k0. split; [reflexivity|exact Hsec].
      * eapply Forall2_impl_in; [exact Hrr|]. intros u q Hu. apply trel_none. apply Hnone. auto.
    + intros f0 Hf0. unfold supd. destruct (Nat.eqb_spec f0 f) as [->|_]; [congruence|auto].
    + rewrite Hwl. discriminate.
Qed.

Lemma sim_steps c a c' :
  Rsim c a -> dsteps c c' -> exists a', asteps a a' /\ Rsim c' a'.
Proof.
  intros HR Hs. induction Hs as [|c0 c1 c2 _ IH Hstep]; [exists a; split; [constructor|exact HR]|].
  destruct (IH HR) as (a1 & Ha1 & HR1). destruct (sim_step _ _ _ HR1 Hstep) as (a2 & [->|Ha2] & HR2).
  - exists a1. auto.
  - exists a2. split; [econstructor; eauto|exact HR2].
Qed.

Lemma Rsim_init s ps : Forall (pok None) ps -> Rsim (dinit V R s ps) (ainit V R s ps).
Proof.
  intro Hp. unfold Rsim, dinit, ainit. cbn [dts dst ast ats dwl drc].
  split; [|split; [auto|split; [intros _; apply seq_refl|]]].
  - induction ps as [|p ps IH]; cbn; constructor; [reflexivity|]. apply IH. inversion Hp; auto.
  - unfold LI. cbn [dts dwl drc]. repeat split; try discriminate.
    + clear. induction ps as [|p ps IH]; cbn; auto.
    + clear. induction ps as [|p ps IH]; cbn; auto.
    + induction Hp; cbn; constructor; auto.
Qed.

(* The reduction theorem: whatever the micro-step machine reaches, the atomic-section machine
   reaches a state that agrees with it on every thread that is outside a critical section and, when
   no writer is inside one, on the whole store. *)
Theorem micro_steps_reduce_to_atomic_sections s ps c :
  Forall (pok None) ps ->
  dsteps (dinit V R s ps) c ->
  exists a, asteps (ainit V R s ps) a /\
    Forall2 (fun t p => dh V R t = None -> p = dp V R t) (dts V R c) (ats V R a) /\
    (dwl V R c = false -> forall f, dst V R c f = ast V R a f).
Proof.
  intros Hp Hs. destruct (sim_steps _ _ _ (Rsim_init s ps Hp) Hs) as (a & Ha & HF & _ & Hseq & _).
  exists a. repeat split; auto.
  eapply Forall2_impl_in; [exact HF|]. intros t p _ Ht Hn. unfold trel in Ht. rewrite Hn in Ht. exact Ht.
Qed.

(* in particular: a terminated execution (every call has returned) ends with the store and the
   results of an execution of atomically executed sections *)
Corollary terminated_runs_are_atomic s ps c rs :
  Forall (pok None) ps ->
  dsteps (dinit V R s ps) c ->
  dts V R c = map (fun r => {| dh := None; dp := PRet V R r |}) rs ->
  exists a, asteps (ainit V R s ps) a /\ ats V R a = map (PRet V R) rs /\
            forall f, dst V R c f = ast V R a f.
Proof.
  intros Hp Hs Hfin. destruct (sim_steps _ _ _ (Rsim_init s ps Hp) Hs) as (a & Ha & HF & _ & Hseq & HLI).
  exists a. split; [exact Ha|].
  assert (ats V R a = map (PRet V R) rs) as Hats.
  { rewrite Hfin in HF. clear - HF. revert HF. generalize (ats V R a). induction rs as [|r rs IH]; intros ps' H; inversion H; subst; cbn.
    - reflexivity.
    - unfold trel in H2. cbn in H2. subst. f_equal. apply IH. assumption. }
  split; [exact Hats|]. apply Hseq.
  destruct HLI as (HW & _). rewrite Hfin in HW. destruct (dwl V R c); [|reflexivity].
  exfalso. clear - HW. assert (count dW (map (fun r => {| dh := None; dp := PRet V R r |}) rs) = 0) as Z
    by (induction rs; cbn; auto). lia.
Qed.

Variable v0 : V.   (* values exist *)
Lemma ptrace_exists p : exists t, ptrace V R p t.
Proof.
  induction p as [r|md k [t IH]|md k [t IH]|f k IH|f v k [t IH]].
  - eexists. constructor.
  - eexists. constructor. exact IH.
  - eexists. constructor. exact IH.
  - destruct (IH v0) as [t Ht]. eexists. econstructor. exact Ht.
  - eexists. constructor. exact IH.
Qed.

(* the discipline on resumptions follows from the discipline on their act traces (what the
   translator extracts): single mutex 0, every field guarded by it *)
Lemma pok_of_traces listed tbl p : forall h : option mode,
  (forall t, ptrace V R p t ->
     ok (fun _ => 0) exempt listed tbl (match h with Some md => [(0, md)] | None => [] end) t = true) ->
  pok h p.
Proof.
  induction p as [r|md k IH|md k IH|f k IH|f v k IH]; intros h H; cbn [pok].
  - specialize (H [] (pt_ret V R r)). destruct h; [discriminate|reflexivity].
  - assert (h = None) as ->.
    { destruct (ptrace_exists k) as [t Ht]. specialize (H _ (pt_acq V R md k t Ht)).
      rewrite ok_cons in H. cbn in H. destruct h; [discriminate|reflexivity]. }
    split; [reflexivity|]. apply IH. intros t Ht. specialize (H _ (pt_acq V R md k t Ht)).
    rewrite ok_cons in H. cbn in H. exact H.
  - assert (h = Some md) as ->.
    { destruct (ptrace_exists k) as [t Ht]. specialize (H _ (pt_rel V R md k t Ht)).
      rewrite ok_cons in H. cbn in H. destruct h as [md'|]; [|discriminate]. cbn in H.
      destruct (mode_eqb md md') eqn:E; [|discriminate]. apply mode_eqb_eq in E. congruence. }
    split; [reflexivity|]. apply IH. intros t Ht. specialize (H _ (pt_rel V R md k t Ht)).
    rewrite ok_cons in H. cbn in H. destruct md; cbn in H; exact H.
  - split.
    + destruct (ptrace_exists (k v0)) as [t Ht].
      specialize (H _ (pt_rd V R f k v0 t Ht)). rewrite ok_cons in H. cbn in H.
      destruct (exempt f); [auto|]. right. destruct h; [discriminate|]. cbn in H. discriminate.
    + intro v. apply IH. intros t Ht. specialize (H _ (pt_rd V R f k v t Ht)).
      rewrite ok_cons in H. cbn in H. destruct (exempt f || holdsAny _ 0); [exact H|discriminate].
  - destruct (ptrace_exists k) as [t Ht]. pose proof (H _ (pt_wr V R f v k t Ht)) as H0.
    rewrite ok_cons in H0. cbn in H0. destruct (exempt f) eqn:Ef; cbn in H0; [discriminate|].
    split; [reflexivity|]. destruct h as [[|]|]; cbn in H0; try discriminate.
    split; [reflexivity|]. apply IH. intros t' Ht'. specialize (H _ (pt_wr V R f v k t' Ht')).
    rewrite ok_cons in H. cbn in H. rewrite Ef in H. cbn in H. exact H.
Qed.
End Reduce.

(* ---- non-vacuity ------------------------------------------------------------------------------
   Two calls that increment a counter (field 1) under the exclusive lock and return the value they
   saw, and one call that reads it under the shared lock after looking at a never-written field 0. *)
Definition ex_exempt (f : nat) : bool := Nat.eqb f 0.
Definition ex_inc : prog nat nat :=
  PAcq nat nat MW (PRd nat nat 1 (fun v => PWr nat nat 1 (S v) (PRel nat nat MW (PRet nat nat v)))).
Definition ex_get : prog nat nat :=
  PRd nat nat 0 (fun _ => PAcq nat nat MR (PRd nat nat 1 (fun v => PRel nat nat MR (PRet nat nat v)))).

Example ex_progs_disciplined : Forall (pok nat nat ex_exempt None) [ex_inc; ex_get; ex_inc].
Proof.
  assert (pok nat nat ex_exempt None ex_inc) as Hinc.
  { cbn. split; [reflexivity|]. split; [right; discriminate|]. intro v. repeat split; reflexivity. }
  assert (pok nat nat ex_exempt None ex_get) as Hget.
  { cbn. split; [left; reflexivity|]. intros _. split; [reflexivity|]. split; [right; discriminate|].
    intro v. split; reflexivity. }
  constructor; [exact Hinc|constructor; [exact Hget|constructor; [exact Hinc|constructor]]].
Qed.

(* a reachable micro-step configuration in which the first call is in the middle of its section
   (it has read the counter, not yet written it) while the reader has done its unlocked read *)
Example ex_progs_interleave :
  exists c, dsteps nat nat (dinit nat nat (fun _ => 7) [ex_inc; ex_get; ex_inc]) c /\
            dwl nat nat c = true /\ length (dts nat nat c) = 3.
Proof.
  eexists. split.
  - eapply dsteps_trans; [eapply dsteps_trans; [eapply dsteps_trans; [apply dsteps_refl|]|]|].
    + eapply (DRd nat nat [_] [_] None 0). reflexivity.
    + eapply (DAcqW nat nat [] [_; _] None); reflexivity.
    + eapply (DRd nat nat [] [_; _] (Some MW) 1). reflexivity.
  - split; reflexivity.
Qed.
