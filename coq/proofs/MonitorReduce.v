(* MonitorReduce.v -- the reduction from micro-steps to atomic sections, for programs with data
   (Monitor.v section Data): one outer RW mutex (mutex 0) per object, inner mutexes taken only
   inside an exclusive outer section (DeferredCarWriter.lk -> StorageCar.mu), hand-off of a shared
   section to a new goroutine that finishes it (ReadOnly.AllKeysChan), goroutines started inside an
   exclusive section that do nothing before they lock or return (ReadWrite.AllKeysChan).
   Every execution of the micro-step machine, in which the reads and writes of different threads
   interleave arbitrarily, is simulated by an execution of the atomic-section machine, in which
   each critical section runs from the acquisition of mutex 0 to its release in ONE step and
   there is no lock state at all.  The atomic machine takes a section's step when the micro-step
   machine performs that section's release of mutex 0 -- or, for a shared section that is handed
   off, at the hand-off (the store cannot change while a shared section is open) -- i.e. between
   the call's first and last action.  Threads that hold no lock are in the same state in both
   machines, and whenever no writer is inside a section the two stores are equal.
   Hypothesis: the lock discipline [pok] on every thread. *)
From Coq Require Import List Arith Bool Lia.
Import ListNotations.
From GoCar Require Import Monitor.
From GoCarProofs Require Import MonitorDRF.

Section Reduce.
Variables V R : Type.
Variable exempt : nat -> bool.
Variable guard : nat -> nat.
Notation prog := (prog V R).
Notation store := (store V).
Notation dthread := (dthread V R).
Notation dcfg := (dcfg V R).
Notation acfg := (acfg V R).
Notation pok := (pok V R exempt guard).
Notation dstep := (dstep V R).
Notation dsteps := (dsteps V R).
Notation astep := (astep V R exempt).
Notation asteps := (asteps V R exempt).
Notation sec_run := (sec_run V R).
Notation quiet := (quiet V R).

Definition seq (s1 s2 : store) : Prop := forall f, s1 f = s2 f.
(* two section runs agree: same continuation, same store, and the goroutines of the first are
   [pend] (already started) followed by those of the second *)
Definition sec3_eq (a b : store * prog * list prog) (pend : list prog) : Prop :=
  snd (fst a) = snd (fst b) /\ seq (fst (fst a)) (fst (fst b)) /\ snd a = pend ++ snd b.

Lemma seq_refl s : seq s s. Proof. intro; reflexivity. Qed.
Lemma seq_sym s t : seq s t -> seq t s. Proof. intros H f. symmetry. apply H. Qed.
Lemma seq_trans s t u : seq s t -> seq t u -> seq s u.
Proof. intros H1 H2 f. rewrite H1. apply H2. Qed.
Lemma sec3_eq_trans a b c pend : sec3_eq a b [] -> sec3_eq b c pend -> sec3_eq a c pend.
Proof.
  intros (H1 & H2 & H3) (H4 & H5 & H6). repeat split; [congruence|eapply seq_trans; eauto|].
  rewrite H3. cbn. exact H6.
Qed.

Lemma supd_ext s1 s2 f v : seq s1 s2 -> seq (supd V s1 f v) (supd V s2 f v).
Proof. intros H x. unfold supd. destruct (Nat.eqb x f); auto. Qed.

Lemma sec_run_ext p : forall s1 s2, seq s1 s2 -> sec3_eq (sec_run s1 p) (sec_run s2 p) [].
Proof.
  induction p as [r|m md k IH|m md k IH|f k IH|f v k IH|c IHc k IHk|c IHc k IHk]; intros s1 s2 H; cbn [Monitor.sec_run].
  - repeat split; auto.
  - destruct (Nat.eqb m 0); [repeat split; auto|apply IH; exact H].
  - destruct (Nat.eqb m 0); [repeat split; auto|apply IH; exact H].
  - rewrite (H f). apply IH. exact H.
  - apply IH. apply supd_ext. exact H.
  - destruct (IHk _ _ H) as (H1 & H2 & H3).
    destruct (sec_run s1 k) as [[a1 b1] c1], (sec_run s2 k) as [[a2 b2] c2]. cbn in *.
    subst. repeat split; auto.
  - destruct (IHc _ _ H) as (H1 & H2 & H3).
    destruct (sec_run s1 c) as [[a1 b1] c1], (sec_run s2 c) as [[a2 b2] c2]. cbn in *.
    subst. repeat split; auto.
Qed.

(* ---- held sets that the discipline produces --------------------------------------------------- *)
Definition hwf (h : held) : Prop := h = [] \/ hget h 0 = Some MW \/ h = [(0, MR)].

Lemma hwf_none h : hwf h -> hget h 0 = None -> h = [].
Proof. intros [H|[H|H]] Hn; [auto|congruence|subst; discriminate]. Qed.

Lemma hwf_W h m : hwf h -> holdsW h m = true -> holdsW h 0 = true.
Proof.
  unfold holdsW. intros [->|[H| ->]] Hm.
  - cbn in Hm. discriminate.
  - rewrite H. reflexivity.
  - destruct m; cbn in Hm; discriminate.
Qed.

Lemma hwf_any h m : hwf h -> holdsAny h m = true -> holdsAny h 0 = true.
Proof.
  unfold holdsAny. intros [->|[H| ->]] Hm.
  - cbn in Hm. discriminate.
  - rewrite H. reflexivity.
  - reflexivity.
Qed.

(* ---- lock-state invariant of the micro-step machine (outer mutex) ---------------------------- *)
Definition count {A} (p : A -> bool) (l : list A) : nat := length (filter p l).
Lemma count_app {A} (p : A -> bool) a b : count p (a ++ b) = count p a + count p b.
Proof. unfold count. rewrite filter_app, app_length. reflexivity. Qed.
Lemma count_cons {A} (p : A -> bool) x l : count p (x :: l) = (if p x then 1 else 0) + count p l.
Proof. unfold count. cbn. destruct (p x); reflexivity. Qed.
Lemma count_nil {A} (p : A -> bool) : count p [] = 0. Proof. reflexivity. Qed.
Lemma count_zero {A} (p : A -> bool) l : count p l = 0 -> forall x, In x l -> p x = false.
Proof.
  induction l as [|y l IH]; intros H x []; subst; rewrite count_cons in H.
  - destruct (p x); [discriminate|reflexivity].
  - apply IH; auto. destruct (p y); [discriminate|exact H].
Qed.

Definition dW (t : dthread) : bool := holdsW (dh V R t) 0.
Definition dR (t : dthread) : bool := holdsR (dh V R t) 0.
Definition tinv (t : dthread) : Prop := (exists ho, pok ho (dh V R t) (dp V R t)) /\ hwf (dh V R t).

Definition LI (c : dcfg) : Prop :=
  count dW (dts V R c) = (if wl (dlk V R c 0) then 1 else 0) /\
  count dR (dts V R c) = rc (dlk V R c 0) /\
  (wl (dlk V R c 0) = true -> rc (dlk V R c 0) = 0) /\
  Forall tinv (dts V R c).

Ltac cnorm := repeat (progress (rewrite ?count_app, ?count_cons, ?count_nil in * )).

Lemma upd_same l m v : upd l m v m = v.
Proof. unfold upd. rewrite Nat.eqb_refl. reflexivity. Qed.
Lemma upd_other l m v m0 : m0 <> m -> upd l m v m0 = l m0.
Proof. unfold upd. intro H. destruct (Nat.eqb_spec m0 m); [congruence|reflexivity]. Qed.

Lemma hget_cons_other m md h : m <> 0 -> hget ((m, md) :: h) 0 = hget h 0.
Proof. intro H. cbn. destruct (Nat.eqb_spec m 0); [congruence|reflexivity]. Qed.

Lemma LI_step c c' : LI c -> dstep c c' -> LI c'.
Proof.
  intros (HW & HR & Hex & Hok) Hs.
  destruct Hs as [l r h k c m E Hw Hr|l r h k c m E Hw|l r h k c m E|l r h k c m E
                 |l r h f k c E|l r h f v k c E|l r h ch k c E|l r h ch k c E];
    rewrite E in *; apply Forall_mid in Hok as (Hl & [[ho Hx] Hwf] & Hrr); cbn [dh dp] in Hx, Hwf;
    cbn [Monitor.pok] in Hx; unfold LI; cbn [dlk dst dts]; cnorm; unfold dW at 2, dR at 2;
    unfold dW at 2 in HW; unfold dR at 2 in HR; cbn [dh] in *.
  - (* AcqW *) destruct Hx as [Hm Hk]. destruct (Nat.eqb_spec m 0) as [->|Hne].
    + subst h. rewrite upd_same. cbn [wl rc]. rewrite Hw in HW. unfold holdsW, holdsR in *. cbn in *.
      repeat split; try lia. apply Forall_mid; repeat split; auto; [eauto|right; left; reflexivity].
    + destruct Hm as [H0 Hn]. rewrite upd_other by auto. unfold holdsW, holdsR in *.
      rewrite hget_cons_other by exact Hne. repeat split; auto.
      apply Forall_mid; repeat split; auto; [eauto|].
      right; left. cbn [dh]. rewrite hget_cons_other by exact Hne. destruct (hget h 0) as [[|]|]; try discriminate; reflexivity.
  - (* AcqR *) destruct Hx as [Hm Hk]. destruct (Nat.eqb_spec m 0) as [->|Hne].
    + subst h. rewrite upd_same. cbn [wl rc]. rewrite Hw in *. unfold holdsW, holdsR in *. cbn in *.
      repeat split; try lia; try discriminate.
      apply Forall_mid; repeat split; auto; [eauto|right; right; reflexivity].
    + destruct Hm as [H0 Hn]. rewrite upd_other by auto. unfold holdsW, holdsR in *.
      rewrite hget_cons_other by exact Hne. repeat split; auto.
      apply Forall_mid; repeat split; auto; [eauto|].
      right; left. cbn [dh]. rewrite hget_cons_other by exact Hne. destruct (hget h 0) as [[|]|]; try discriminate; reflexivity.
  - (* RelW *) destruct Hx as (Hg & H0 & Hk). destruct (Nat.eqb_spec m 0) as [->|Hne].
    + rewrite (H0 eq_refl) in *. rewrite upd_same. cbn [wl rc]. unfold holdsW, holdsR in *. cbn in *.
      destruct (wl (dlk V R c 0)); [|lia]. specialize (Hex eq_refl).
      repeat split; try lia; try discriminate. apply Forall_mid; repeat split; auto; [eauto|left; reflexivity].
    + rewrite upd_other by auto. unfold holdsW, holdsR in *. rewrite hget_hdel_other by auto.
      repeat split; auto. apply Forall_mid; repeat split; auto; [eauto|].
      destruct Hwf as [->|[Hw0| ->]]; [discriminate|right; left; cbn [dh]; rewrite hget_hdel_other by auto; exact Hw0|].
      destruct m; [congruence|cbn in Hg; discriminate].
  - (* RelR *) destruct Hx as (Hg & H0 & Hk). destruct (Nat.eqb_spec m 0) as [->|Hne].
    + rewrite (H0 eq_refl) in *. rewrite upd_same. cbn [wl rc]. unfold holdsW, holdsR in *. cbn in *.
      repeat split; try lia.
      * intro Hw. specialize (Hex Hw). lia.
      * apply Forall_mid; repeat split; auto; [eauto|left; reflexivity].
    + rewrite upd_other by auto. unfold holdsW, holdsR in *. rewrite hget_hdel_other by auto.
      repeat split; auto. apply Forall_mid; repeat split; auto; [eauto|].
      destruct Hwf as [->|[Hw0| ->]]; [discriminate|right; left; cbn [dh]; rewrite hget_hdel_other by auto; exact Hw0|].
      destruct m; [congruence|cbn in Hg; discriminate].
  - (* Rd *) destruct Hx as [_ Hk]. repeat split; auto. apply Forall_mid; repeat split; auto. eauto.
  - (* Wr *) destruct Hx as (_ & _ & Hk). repeat split; auto. apply Forall_mid; repeat split; auto. eauto.
  - (* Spawn *) destruct Hx as (_ & _ & Hc & Hk).
    change (dW {| dh := []; dp := ch |}) with false. change (dR {| dh := []; dp := ch |}) with false.
    change (if false then 1 else 0) with 0 in *.
    repeat split; try lia; auto.
    apply Forall_mid; repeat split; auto; [eauto|]. apply Forall_app. split; auto.
    constructor; [|constructor]. split; [eauto|left; reflexivity].
  - (* Handoff *) destruct Hx as (_ & -> & Hc & Hk).
    change (dW {| dh := [(0, MR)]; dp := ch |}) with false. change (dR {| dh := [(0, MR)]; dp := ch |}) with true.
    change (holdsW [] 0) with false. change (holdsR [] 0) with false.
    change (holdsW [(0, MR)] 0) with false in HW. change (holdsR [(0, MR)] 0) with true in HR.
    change (if true then 1 else 0) with 1 in *. change (if false then 1 else 0) with 0 in *.
    repeat split; try lia; auto.
    apply Forall_mid; repeat split; auto; [eauto|left; reflexivity|]. apply Forall_app. split; auto.
    constructor; [|constructor]. split; [eauto|right; right; reflexivity].
Qed.

(* ---- the simulation relation ------------------------------------------------------------------- *)
Definition mkth (p : prog) : dthread := {| dh := []; dp := p |}.

(* sc / sa: the stores of the micro-step and of the atomic machine; pend: the goroutines the current
   exclusive section has started so far (they exist in the micro-step machine only) *)
Definition trel (sc sa : store) (pend : list prog) (t : dthread) (p : prog) : Prop :=
  match hget (dh V R t) 0 with
  | None => p = dp V R t
  | Some MW => exists k0, p = PAcq V R 0 MW k0 /\ sec3_eq (sec_run sa k0) (sec_run sc (dp V R t)) pend
  | Some MR =>
      (* the atomic machine has not run the section yet ... *)
      (exists k0, p = PAcq V R 0 MR k0 /\ sec3_eq (sec_run sa k0) (sec_run sc (dp V R t)) [])
      (* ... or it ran it at the hand-off, and this is the goroutine finishing it *)
      \/ (pok false (dh V R t) (dp V R t) /\ p = snd (fst (sec_run sc (dp V R t))))
  end.

Definition Rsim (c : dcfg) (a : acfg) : Prop :=
  exists main pend,
    dts V R c = main ++ map mkth pend /\
    Forall2 (trel (dst V R c) (ast V R a) pend) main (ats V R a) /\
    Forall quiet pend /\
    (wl (dlk V R c 0) = false -> pend = []) /\
    (forall f, exempt f = true -> dst V R c f = ast V R a f) /\
    (wl (dlk V R c 0) = false -> seq (dst V R c) (ast V R a)) /\
    LI c.

Lemma Forall2_mid_inv {A B} (P : A -> B -> Prop) l x r ys :
  Forall2 P (l ++ x :: r) ys ->
  exists l' y r', ys = l' ++ y :: r' /\ Forall2 P l l' /\ P x y /\ Forall2 P r r'.
Proof.
  intro H. apply Forall2_app_inv_l in H as (l' & m & Hl & Hm & ->).
  inversion Hm as [|? y ? r' Hxy Hr]; subst. exists l', y, r'. auto.
Qed.

Lemma Forall2_mid_intro {A B} (P : A -> B -> Prop) l x r l' y r' :
  Forall2 P l l' -> P x y -> Forall2 P r r' -> Forall2 P (l ++ x :: r) (l' ++ y :: r').
Proof. intros. apply Forall2_app; auto. Qed.

Lemma Forall2_impl_in {A B} (P Q : A -> B -> Prop) l l' :
  Forall2 P l l' -> (forall x y, In x l -> P x y -> Q x y) -> Forall2 Q l l'.
Proof.
  induction 1 as [|x y l l' Hxy _ IH]; intro H; constructor.
  - apply H; [left; reflexivity|exact Hxy].
  - apply IH. intros a b Ha. apply H. right. exact Ha.
Qed.

Lemma Forall2_mkth sc sa pend ps : Forall2 (trel sc sa pend) (map mkth ps) ps.
Proof. induction ps; cbn; constructor; auto. reflexivity. Qed.

Lemma trel_none sc sa pend sc' sa' pend' t p :
  hget (dh V R t) 0 = None -> trel sc sa pend t p -> trel sc' sa' pend' t p.
Proof. unfold trel. intros ->. auto. Qed.

Lemma trel_store_ext sc sa sa' pend t p : seq sa' sa -> trel sc sa pend t p -> trel sc sa' pend t p.
Proof.
  intro H. unfold trel. destruct (hget (dh V R t) 0) as [[|]|]; [| |auto].
  - intros [(k0 & -> & Hs)|Hr]; [left|right; exact Hr]. exists k0. split; [reflexivity|].
    eapply sec3_eq_trans; [apply sec_run_ext; exact H|exact Hs].
  - intros (k0 & -> & Hs). exists k0. split; [reflexivity|].
    eapply sec3_eq_trans; [apply sec_run_ext; exact H|exact Hs].
Qed.

Lemma app_split {A} (l : list A) t r a b :
  l ++ t :: r = a ++ b ->
  (exists r1, a = l ++ t :: r1 /\ r = r1 ++ b) \/ (exists l2, l = a ++ l2 /\ b = l2 ++ t :: r).
Proof.
  revert a. induction l as [|x l IH]; intros a E.
  - destruct a as [|y a]; cbn in E.
    + right. exists []. cbn. auto.
    + inversion E; subst. left. exists a. auto.
  - destruct a as [|y a]; cbn in E.
    + right. exists (x :: l). cbn. auto.
    + inversion E as [[Hx E']]; subst. destruct (IH _ E') as [(r1 & -> & ->)|(l2 & -> & ->)].
      * left. exists r1. auto.
      * right. exists l2. auto.
Qed.

(* the thread that takes a step is never one of the goroutines waiting for the section to end *)
Lemma actor_main c main pend l t r :
  dts V R c = main ++ map mkth pend -> dts V R c = l ++ t :: r ->
  Forall quiet pend -> (wl (dlk V R c 0) = false -> pend = []) -> Forall tinv (dts V R c) ->
  (~ quiet (dp V R t) \/
   exists m md k, dp V R t = PAcq V R m md k /\ (m = 0 -> wl (dlk V R c 0) = false)) ->
  exists r1, main = l ++ t :: r1 /\ r = r1 ++ map mkth pend.
Proof.
  intros Em E Hq Hp Hinv Hact. rewrite Em in E.
  destruct (app_split _ _ _ _ _ (eq_sym E)) as [H|(l2 & -> & Hb)]; [exact H|exfalso].
  assert (In t (map mkth pend)) as Hin by (rewrite Hb; apply in_or_app; right; left; reflexivity).
  apply in_map_iff in Hin as (p & <- & Hp0).
  rewrite Forall_forall in Hq. specialize (Hq _ Hp0).
  destruct Hact as [Hn|(m & md & k & Hd & Hm)]; [apply Hn; exact Hq|].
  cbn in Hd. subst p.
  destruct (Nat.eq_dec m 0) as [->|Hne].
  - rewrite (Hp (Hm eq_refl)) in Hp0. destruct Hp0.
  - rewrite Forall_forall in Hinv.
    assert (In (mkth (PAcq V R m md k)) (dts V R c)) as Hi
      by (rewrite Em; apply in_or_app; right; apply in_map; exact Hp0).
    destruct (Hinv _ Hi) as [[ho Hk] _]. cbn in Hk. destruct Hk as [Hk _].
    destruct (Nat.eqb_spec m 0); [congruence|]. destruct Hk as [Hk _]. discriminate.
Qed.

(* while a thread holds the outer lock exclusively everybody else holds nothing *)
Lemma writer_alone c l t r :
  LI c -> dts V R c = l ++ t :: r -> hget (dh V R t) 0 = Some MW ->
  wl (dlk V R c 0) = true /\ forall u, In u l \/ In u r -> hget (dh V R u) 0 = None.
Proof.
  intros (HW & HR & Hex & _) E Ht. rewrite E in HW, HR. cnorm.
  unfold dW at 2 in HW. unfold dR at 2 in HR. unfold holdsW, holdsR in HW, HR. rewrite Ht in HW, HR.
  destruct (wl (dlk V R c 0)) eqn:Ew; [|lia]. split; [reflexivity|].
  specialize (Hex eq_refl). rewrite Hex in HR.
  assert (count dW l = 0 /\ count dW r = 0 /\ count dR l = 0 /\ count dR r = 0) as (A & B & C & D) by lia.
  intros u [Hu|Hu].
  - pose proof (count_zero _ _ A u Hu) as H1. pose proof (count_zero _ _ C u Hu) as H2.
    unfold dW, dR, holdsW, holdsR in *. destruct (hget (dh V R u) 0) as [[|]|]; auto; discriminate.
  - pose proof (count_zero _ _ B u Hu) as H1. pose proof (count_zero _ _ D u Hu) as H2.
    unfold dW, dR, holdsW, holdsR in *. destruct (hget (dh V R u) 0) as [[|]|]; auto; discriminate.
Qed.

Lemma reader_no_writer c l t r :
  LI c -> dts V R c = l ++ t :: r -> hget (dh V R t) 0 = Some MR -> wl (dlk V R c 0) = false.
Proof.
  intros (HW & HR & Hex & _) E Ht. rewrite E in HR. cnorm.
  unfold dR at 2 in HR. unfold holdsR in HR. rewrite Ht in HR. destruct (wl (dlk V R c 0)); [|reflexivity].
  specialize (Hex eq_refl). lia.
Qed.

(* a shared section writes nothing, and once handed off starts no goroutine *)
Lemma sec_run_reader p : forall ho s, pok ho [(0, MR)] p ->
  fst (fst (sec_run s p)) = s /\ (ho = false -> snd (sec_run s p) = []).
Proof.
  induction p as [r|m md k IH|m md k IH|f k IH|f v k IH|c IHc k IHk|c IHc k IHk]; intros ho s H; cbn [Monitor.pok] in H; cbn [Monitor.sec_run].
  - discriminate.
  - destruct H as [H _]. destruct (Nat.eqb m 0); [discriminate|]. destruct H as [H _]. discriminate.
  - destruct H as (Hg & _ & Hk). destruct (Nat.eqb_spec m 0) as [->|Hne]; [auto|].
    destruct m; [congruence|discriminate].
  - destruct H as [_ Hk]. apply (IH _ ho). apply Hk.
  - destruct H as (_ & Hw & _). unfold holdsW in Hw. cbn in Hw. destruct (guard f); discriminate.
  - destruct H as (Hw & _). discriminate.
  - destruct H as (-> & _ & Hc & _). destruct (IHc false s Hc) as [H1 _].
    destruct (sec_run s c) as [[s' pc] sp]. cbn in *. split; [exact H1|discriminate].
Qed.

Lemma mid_assoc {A} (l : list A) x r b : l ++ x :: r ++ b = (l ++ x :: r) ++ b.
Proof. rewrite <- app_assoc. reflexivity. Qed.

Lemma holdsW_get h : holdsW h 0 = true -> hget h 0 = Some MW.
Proof. unfold holdsW. destruct (hget h 0) as [[|]|]; congruence. Qed.

(* a thread that holds an inner mutex holds the outer one exclusively *)
Lemma inner_held h m md : hwf h -> m <> 0 -> hget h m = Some md -> hget h 0 = Some MW.
Proof.
  intros [->|[H| ->]] Hne Hg; [discriminate|exact H|].
  destruct m; [congruence|discriminate].
Qed.

(* one micro-step is matched by no step or by one step of the atomic machine *)
Lemma sim_step c a c' :
  Rsim c a -> dstep c c' -> exists a', (a' = a \/ astep a a') /\ Rsim c' a'.
Proof.
  intros (main & pend & Em & HF & Hq & Hpe & Hexm & Hseq & HLI) Hs.
  pose proof (LI_step _ _ HLI Hs) as HLI'.
  pose proof HLI as (_ & _ & _ & Hinv).
  destruct Hs as [l r h k c m E Hw Hr|l r h k c m E Hw|l r h k c m E|l r h k c m E
                 |l r h f k c E|l r h f v k c E|l r h ch k c E|l r h ch k c E];
    pose proof Hinv as Hinv0; rewrite E in Hinv0; apply Forall_mid in Hinv0 as (_ & [[ho Hp] Hwf] & _);
    cbn [dh dp] in Hp, Hwf; cbn [Monitor.pok] in Hp;
    (destruct (actor_main c main pend l _ r Em E Hq Hpe Hinv) as (r1 & -> & ->);
     [first [ right; do 3 eexists; split; [reflexivity|intro; subst; assumption]
            | left; cbn; tauto ]|]);
    pose proof E as E0; rewrite mid_assoc in E0;
    apply Forall2_mid_inv in HF as (l' & y & r1' & Ea & Hl & Hx & Hrr);
    unfold trel in Hx; cbn [dh dp] in Hx.
  - (* acquire exclusive *)
    destruct Hp as [Hm Hk]. destruct (Nat.eqb_spec m 0) as [->|Hne].
    + (* the outer lock: the atomic machine waits *)
      subst h. cbn in Hx. subst y. rewrite (Hpe Hw) in *. exists a. split; [auto|].
      exists (l ++ {| dh := [(0, MW)]; dp := k |} :: r1), []. cbn [dlk dst dts].
      split; [cbn; rewrite !app_nil_r; reflexivity|].
      split; [|split; [constructor|split; [rewrite upd_same; discriminate|
              split; [exact Hexm|split; [rewrite upd_same; discriminate|exact HLI']]]]].
      rewrite Ea. apply Forall2_mid_intro; auto.
      unfold trel. cbn. exists k. split; [reflexivity|].
      apply sec_run_ext. apply seq_sym. apply Hseq. exact Hw.
    + (* an inner lock, inside an exclusive section *)
      destruct Hm as [H0 Hn]. apply holdsW_get in H0. rewrite H0 in Hx. destruct Hx as (k0 & -> & Hsec).
      exists a. split; [auto|].
      exists (l ++ {| dh := (m, MW) :: h; dp := k |} :: r1), pend. cbn [dlk dst dts].
      split; [apply mid_assoc|]. rewrite upd_other by auto.
      split; [|split; [exact Hq|split; [exact Hpe|split; [exact Hexm|split; [exact Hseq|exact HLI']]]]].
      rewrite Ea. apply Forall2_mid_intro; auto.
      unfold trel. cbn [dh dp]. rewrite hget_cons_other by exact Hne. rewrite H0.
      exists k0. split; [reflexivity|]. cbn [Monitor.sec_run] in Hsec.
      destruct (Nat.eqb_spec m 0); [congruence|exact Hsec].
  - (* acquire shared *)
    destruct Hp as [Hm Hk]. destruct (Nat.eqb_spec m 0) as [->|Hne].
    + subst h. cbn in Hx. subst y. rewrite (Hpe Hw) in *. exists a. split; [auto|].
      exists (l ++ {| dh := [(0, MR)]; dp := k |} :: r1), []. cbn [dlk dst dts].
      split; [cbn; rewrite !app_nil_r; reflexivity|].
      split; [|split; [constructor|split; [auto|
              split; [exact Hexm|split; [intros _; apply Hseq; exact Hw|exact HLI']]]]].
      rewrite Ea. apply Forall2_mid_intro; auto.
      unfold trel. cbn. left. exists k. split; [reflexivity|].
      apply sec_run_ext. apply seq_sym. apply Hseq. exact Hw.
    + destruct Hm as [H0 Hn]. apply holdsW_get in H0. rewrite H0 in Hx. destruct Hx as (k0 & -> & Hsec).
      exists a. split; [auto|].
      exists (l ++ {| dh := (m, MR) :: h; dp := k |} :: r1), pend. cbn [dlk dst dts].
      split; [apply mid_assoc|]. rewrite upd_other by auto.
      split; [|split; [exact Hq|split; [exact Hpe|split; [exact Hexm|split; [exact Hseq|exact HLI']]]]].
      rewrite Ea. apply Forall2_mid_intro; auto.
      unfold trel. cbn [dh dp]. rewrite hget_cons_other by exact Hne. rewrite H0.
      exists k0. split; [reflexivity|]. cbn [Monitor.sec_run] in Hsec.
      destruct (Nat.eqb_spec m 0); [congruence|exact Hsec].
  - (* release exclusive *)
    destruct Hp as (Hg & H0 & Hk). destruct (Nat.eqb_spec m 0) as [->|Hne].
    + (* the outer lock: the atomic machine runs the whole section now *)
      rewrite (H0 eq_refl) in *. cbn in Hx. destruct Hx as (k0 & -> & Hs1 & Hs2 & Hs3).
      cbn [Monitor.sec_run fst snd] in Hs1, Hs2, Hs3. cbn in Hs1, Hs2, Hs3. rewrite app_nil_r in Hs3.
      destruct (writer_alone c l _ (r1 ++ map mkth pend) HLI E eq_refl) as [_ Hnone].
      exists {| ast := fst (fst (sec_run (ast V R a) k0));
                ats := l' ++ snd (fst (sec_run (ast V R a) k0)) :: r1' ++ snd (sec_run (ast V R a) k0) |}.
      split; [right; eapply ASec; eauto|].
      exists (l ++ {| dh := []; dp := k |} :: r1 ++ map mkth pend), []. cbn [dlk dst dts ast ats].
      split; [cbn; rewrite app_nil_r; reflexivity|].
      split; [|split; [constructor|split; [auto|split; [|split; [|exact HLI']]]]].
      * rewrite Hs3. apply Forall2_mid_intro.
        -- eapply Forall2_impl_in; [exact Hl|]. intros u q Hu. apply trel_none. apply Hnone. auto.
        -- unfold trel. cbn. exact Hs1.
        -- apply Forall2_app; [|apply Forall2_mkth].
           eapply Forall2_impl_in; [exact Hrr|]. intros u q Hu. apply trel_none. apply Hnone.
           right. apply in_or_app. auto.
      * intros f0 _. symmetry. apply Hs2.
      * intros _. apply seq_sym. exact Hs2.
    + (* an inner lock *)
      pose proof (inner_held _ _ _ Hwf Hne Hg) as Hh0. rewrite Hh0 in Hx. destruct Hx as (k0 & -> & Hsec).
      exists a. split; [auto|].
      exists (l ++ {| dh := hdel h m; dp := k |} :: r1), pend. cbn [dlk dst dts].
      split; [apply mid_assoc|]. rewrite upd_other by auto.
      split; [|split; [exact Hq|split; [exact Hpe|split; [exact Hexm|split; [exact Hseq|exact HLI']]]]].
      rewrite Ea. apply Forall2_mid_intro; auto.
      unfold trel. cbn [dh dp]. rewrite hget_hdel_other by auto. rewrite Hh0.
      exists k0. split; [reflexivity|]. cbn [Monitor.sec_run] in Hsec.
      destruct (Nat.eqb_spec m 0); [congruence|exact Hsec].
  - (* release shared *)
    destruct Hp as (Hg & H0 & Hk). destruct (Nat.eqb_spec m 0) as [->|Hne].
    + rewrite (H0 eq_refl) in *. cbn in Hx.
      pose proof (reader_no_writer c l _ (r1 ++ map mkth pend) HLI E eq_refl) as Hnw.
      rewrite (Hpe Hnw) in *. specialize (Hseq Hnw).
      destruct Hx as [(k0 & -> & Hs1 & Hs2 & Hs3)|[_ ->]].
      * (* the atomic machine runs the section now; it ran on an unchanging store *)
        cbn [Monitor.sec_run fst snd] in Hs1, Hs2, Hs3. cbn in Hs1, Hs2, Hs3.
        assert (seq (fst (fst (sec_run (ast V R a) k0))) (ast V R a)) as Hsame
          by (eapply seq_trans; [exact Hs2|exact Hseq]).
        exists {| ast := fst (fst (sec_run (ast V R a) k0));
                  ats := l' ++ snd (fst (sec_run (ast V R a) k0)) :: r1' ++ snd (sec_run (ast V R a) k0) |}.
        split; [right; eapply ASec; eauto|].
        exists (l ++ {| dh := []; dp := k |} :: r1), []. cbn [dlk dst dts ast ats].
        split; [cbn; rewrite !app_nil_r; reflexivity|].
        split; [|split; [constructor|split; [auto|split; [|split; [|exact HLI']]]]].
        -- rewrite Hs3, app_nil_r. apply Forall2_mid_intro.
           ++ eapply Forall2_impl_in; [exact Hl|]. intros u q _. apply trel_store_ext. exact Hsame.
           ++ unfold trel. cbn. exact Hs1.
           ++ eapply Forall2_impl_in; [exact Hrr|]. intros u q _. apply trel_store_ext. exact Hsame.
        -- intros f0 _. symmetry. apply Hs2.
        -- intros _. apply seq_sym. exact Hs2.
      * (* the section was run at the hand-off: this goroutine has caught up *)
        exists a. split; [auto|].
        exists (l ++ {| dh := []; dp := k |} :: r1), []. cbn [dlk dst dts].
        split; [cbn; rewrite !app_nil_r; reflexivity|]. rewrite upd_same. cbn [wl].
        split; [|split; [constructor|split; [auto|split; [exact Hexm|split; [intros _; exact Hseq|exact HLI']]]]].
        rewrite Ea. apply Forall2_mid_intro; auto. unfold trel. cbn. reflexivity.
    + pose proof (inner_held _ _ _ Hwf Hne Hg) as Hh0. rewrite Hh0 in Hx. destruct Hx as (k0 & -> & Hsec).
      exists a. split; [auto|].
      exists (l ++ {| dh := hdel h m; dp := k |} :: r1), pend. cbn [dlk dst dts].
      split; [apply mid_assoc|]. rewrite upd_other by auto.
      split; [|split; [exact Hq|split; [exact Hpe|split; [exact Hexm|split; [exact Hseq|exact HLI']]]]].
      rewrite Ea. apply Forall2_mid_intro; auto.
      unfold trel. cbn [dh dp]. rewrite hget_hdel_other by auto. rewrite Hh0.
      exists k0. split; [reflexivity|]. cbn [Monitor.sec_run] in Hsec.
      destruct (Nat.eqb_spec m 0); [congruence|exact Hsec].
  - (* read *)
    destruct Hp as [Hf Hk]. destruct (hget h 0) as [[|]|] eqn:Eh.
    + (* in a shared section *)
      exists a. split; [auto|]. exists (l ++ {| dh := h; dp := k (dst V R c f) |} :: r1), pend.
      cbn [dlk dst dts]. split; [apply mid_assoc|].
      split; [|split; [exact Hq|split; [exact Hpe|split; [exact Hexm|split; [exact Hseq|exact HLI']]]]].
      rewrite Ea. apply Forall2_mid_intro; auto. unfold trel. cbn [dh dp]. rewrite Eh.
      destruct Hx as [(k0 & -> & Hsec)|[Hpk ->]].
      * left. exists k0. split; [reflexivity|exact Hsec].
      * right. split; [|reflexivity]. cbn [Monitor.pok] in Hpk. apply Hpk.
    + (* in an exclusive section *)
      destruct Hx as (k0 & -> & Hsec).
      exists a. split; [auto|]. exists (l ++ {| dh := h; dp := k (dst V R c f) |} :: r1), pend.
      cbn [dlk dst dts]. split; [apply mid_assoc|].
      split; [|split; [exact Hq|split; [exact Hpe|split; [exact Hexm|split; [exact Hseq|exact HLI']]]]].
      rewrite Ea. apply Forall2_mid_intro; auto. unfold trel. cbn [dh dp]. rewrite Eh.
      exists k0. split; [reflexivity|exact Hsec].
    + (* outside: only fields that are never written; both machines read the same value *)
      pose proof (hwf_none _ Hwf Eh) as ->. subst y.
      destruct Hf as [Hf|Hf]; [|discriminate].
      exists {| ast := ast V R a; ats := l' ++ k (ast V R a f) :: r1' |}.
      split; [right; eapply ARd; eauto|].
      exists (l ++ {| dh := []; dp := k (dst V R c f) |} :: r1), pend. cbn [dlk dst dts ast ats].
      split; [apply mid_assoc|].
      split; [|split; [exact Hq|split; [exact Hpe|split; [exact Hexm|split; [exact Hseq|exact HLI']]]]].
      apply Forall2_mid_intro; auto. unfold trel. cbn. rewrite (Hexm f Hf). reflexivity.
  - (* write: only inside an exclusive section; everybody else holds nothing *)
    destruct Hp as (Hf & Hw & Hk). pose proof (holdsW_get _ (hwf_W _ _ Hwf Hw)) as Hh0.
    rewrite Hh0 in Hx. destruct Hx as (k0 & -> & Hsec).
    destruct (writer_alone c l _ (r1 ++ map mkth pend) HLI E Hh0) as [Hwl Hnone].
    exists a. split; [auto|]. exists (l ++ {| dh := h; dp := k |} :: r1), pend.
    cbn [dlk dst dts]. split; [apply mid_assoc|].
    split; [|split; [exact Hq|split; [exact Hpe|split; [|split; [rewrite Hwl; discriminate|exact HLI']]]]].
    + rewrite Ea. apply Forall2_mid_intro.
      * eapply Forall2_impl_in; [exact Hl|]. intros u q Hu. apply trel_none. apply Hnone. auto.
      * unfold trel. cbn [dh dp]. rewrite Hh0. exists k0. split; [reflexivity|exact Hsec].
      * eapply Forall2_impl_in; [exact Hrr|]. intros u q Hu. apply trel_none. apply Hnone.
        right. apply in_or_app. auto.
    + intros f0 Hf0. unfold supd. destruct (Nat.eqb_spec f0 f) as [->|_]; [congruence|auto].
  - (* a goroutine is started inside an exclusive section: it waits, the atomic machine creates it
       when it runs the section *)
    destruct Hp as (Hw & Hqc & Hc & Hk). pose proof (holdsW_get _ Hw) as Hh0.
    rewrite Hh0 in Hx. destruct Hx as (k0 & -> & Hs1 & Hs2 & Hs3).
    destruct (writer_alone c l _ (r1 ++ map mkth pend) HLI E Hh0) as [Hwl Hnone].
    exists a. split; [auto|]. exists (l ++ {| dh := h; dp := k |} :: r1), (pend ++ [ch]).
    cbn [dlk dst dts].
    split; [rewrite map_app; cbn; rewrite <- !app_assoc; reflexivity|].
    split; [|split; [apply Forall_app; split; [exact Hq|constructor; [exact Hqc|constructor]]|
            split; [rewrite Hwl; discriminate|split; [exact Hexm|split; [exact Hseq|exact HLI']]]]].
    rewrite Ea. apply Forall2_mid_intro.
    + eapply Forall2_impl_in; [exact Hl|]. intros u q Hu. apply trel_none. apply Hnone. auto.
    + unfold trel. cbn [dh dp]. rewrite Hh0. exists k0. split; [reflexivity|].
      cbn [Monitor.sec_run] in Hs1, Hs2, Hs3.
      destruct (sec_run (dst V R c) k) as [[s2 p2] sp2]. cbn in *.
      repeat split; auto. rewrite Hs3, <- app_assoc. reflexivity.
    + eapply Forall2_impl_in; [exact Hrr|]. intros u q Hu. apply trel_none. apply Hnone.
      right. apply in_or_app. auto.
  - (* hand-off of a shared section: the atomic machine runs the whole section now *)
    destruct Hp as (-> & -> & Hc & Hk). cbn in Hx.
    pose proof (reader_no_writer c l _ (r1 ++ map mkth pend) HLI E eq_refl) as Hnw.
    rewrite (Hpe Hnw) in *. specialize (Hseq Hnw).
    destruct Hx as [(k0 & -> & Hs1 & Hs2 & Hs3)|[Hpk _]]; [|cbn in Hpk; destruct Hpk; discriminate].
    cbn [Monitor.sec_run] in Hs1, Hs2, Hs3.
    destruct (sec_run_reader ch false (dst V R c) Hc) as [Hst Hsp]. specialize (Hsp eq_refl).
    destruct (sec_run (dst V R c) ch) as [[s2 pc] sp2] eqn:Esc. cbn in Hst, Hsp, Hs1, Hs2, Hs3. subst s2 sp2.
    cbn in Hs3.
    assert (seq (fst (fst (sec_run (ast V R a) k0))) (ast V R a)) as Hsame
      by (eapply seq_trans; [exact Hs2|exact Hseq]).
    exists {| ast := fst (fst (sec_run (ast V R a) k0));
              ats := l' ++ snd (fst (sec_run (ast V R a) k0)) :: r1' ++ snd (sec_run (ast V R a) k0) |}.
    split; [right; eapply ASec; eauto|].
    exists (l ++ {| dh := []; dp := k |} :: r1 ++ [{| dh := [(0, MR)]; dp := ch |}]), [].
    cbn [dlk dst dts ast ats].
    split; [cbn; rewrite !app_nil_r; reflexivity|].
    split; [|split; [constructor|split; [auto|split; [|split; [|exact HLI']]]]].
    + rewrite Hs3. apply Forall2_mid_intro.
      * eapply Forall2_impl_in; [exact Hl|]. intros u q _. apply trel_store_ext. exact Hsame.
      * unfold trel. cbn. exact Hs1.
      * apply Forall2_app.
        -- eapply Forall2_impl_in; [exact Hrr|]. intros u q _. apply trel_store_ext. exact Hsame.
        -- constructor; [|constructor]. unfold trel. cbn [dh dp]. cbn. right.
           split; [exact Hc|]. rewrite Esc. reflexivity.
    + intros f0 _. symmetry. apply Hs2.
    + intros _. apply seq_sym. exact Hs2.
Qed.

Lemma sim_steps c a c' :
  Rsim c a -> dsteps c c' -> exists a', asteps a a' /\ Rsim c' a'.
Proof.
  intros HR Hs. induction Hs as [|c0 c1 c2 _ IH Hstep]; [exists a; split; [constructor|exact HR]|].
  destruct (IH HR) as (a1 & Ha1 & HR1). destruct (sim_step _ _ _ HR1 Hstep) as (a2 & [->|Ha2] & HR2).
  - exists a1. auto.
  - exists a2. split; [econstructor; eauto|exact HR2].
Qed.

Lemma Rsim_init s ps : Forall (pok true []) ps -> Rsim (dinit V R s ps) (ainit V R s ps).
Proof.
  intro Hp. exists (map mkth ps), []. unfold dinit, ainit. cbn [dts dst dlk ast ats wl rc].
  split; [cbn; rewrite app_nil_r; reflexivity|].
  split; [apply Forall2_mkth|]. split; [constructor|]. split; [auto|]. split; [auto|].
  split; [intros _; apply seq_refl|].
  unfold LI. cbn [dts dlk wl rc]. repeat split; try discriminate.
  - clear. induction ps as [|p ps IH]; cbn; auto.
  - clear. induction ps as [|p ps IH]; cbn; auto.
  - induction Hp; cbn; constructor; auto. split; [eauto|left; reflexivity].
Qed.

(* The reduction theorem: whatever the micro-step machine reaches, the atomic-section machine
   reaches a state that agrees with it on every thread that is outside a critical section and, when
   no writer is inside one, on the whole store.  ([pend]: goroutines an open exclusive section has
   already started; the atomic machine creates them when it runs that section.) *)
Theorem micro_steps_reduce_to_atomic_sections s ps c :
  Forall (pok true []) ps ->
  dsteps (dinit V R s ps) c ->
  exists a main pend, asteps (ainit V R s ps) a /\
    dts V R c = main ++ map mkth pend /\
    Forall2 (fun t p => hget (dh V R t) 0 = None -> p = dp V R t) main (ats V R a) /\
    (wl (dlk V R c 0) = false -> pend = [] /\ forall f, dst V R c f = ast V R a f).
Proof.
  intros Hp Hs. destruct (sim_steps _ _ _ (Rsim_init s ps Hp) Hs) as (a & Ha & main & pend & Em & HF & _ & Hpe & _ & Hseq & _).
  exists a, main, pend. repeat split; auto.
  - eapply Forall2_impl_in; [exact HF|]. intros t p _ Ht Hn. unfold trel in Ht. rewrite Hn in Ht. exact Ht.
  - apply Hseq. assumption.
Qed.

(* in particular: a terminated execution (every call has returned, every goroutine has ended) ends
   with the store and the results of an execution of atomically executed sections *)
Corollary terminated_runs_are_atomic s ps c rs :
  Forall (pok true []) ps ->
  dsteps (dinit V R s ps) c ->
  dts V R c = map (fun r => {| dh := []; dp := PRet V R r |}) rs ->
  exists a, asteps (ainit V R s ps) a /\ ats V R a = map (PRet V R) rs /\
            forall f, dst V R c f = ast V R a f.
Proof.
  intros Hp Hs Hfin.
  destruct (sim_steps _ _ _ (Rsim_init s ps Hp) Hs) as (a & Ha & main & pend & Em & HF & _ & Hpe & _ & Hseq & HLI).
  assert (wl (dlk V R c 0) = false) as Hwl.
  { destruct HLI as (HW & _). rewrite Hfin in HW. destruct (wl (dlk V R c 0)); [|reflexivity].
    exfalso. clear - HW. assert (count dW (map (fun r => {| dh := []; dp := PRet V R r |}) rs) = 0) as Z
      by (induction rs; cbn; auto). lia. }
  rewrite (Hpe Hwl) in Em. cbn in Em. rewrite app_nil_r in Em. subst main.
  exists a. split; [exact Ha|]. split; [|apply Hseq; exact Hwl].
  rewrite Hfin in HF. clear - HF. revert HF. generalize (ats V R a).
  induction rs as [|r rs IH]; intros ps' H; inversion H; subst; cbn; [reflexivity|].
  match goal with Ht : trel _ _ _ _ _ |- _ => unfold trel in Ht; cbn in Ht; subst end.
  f_equal. apply IH. assumption.
Qed.
(* ---- from act traces to resumptions ---------------------------------------------------------------
   The discipline on resumptions follows from what is checked on their act traces ([ok] and the shape
   check, which is what harness/lockfacts extracts and MonitorFacts.v computes), for resumptions that
   start no goroutine. *)
Variable v0 : V.   (* values exist *)
Notation ptrace := (ptrace V R).
Notation nospawn := (nospawn V R).

Lemma ptrace_exists p : nospawn p -> exists t, ptrace p t.
Proof.
  induction p as [r|m md k IH|m md k IH|f k IH|f v k IH|c _ k _|c _ k _]; cbn; intro Hn; try tauto.
  - eexists. constructor.
  - destruct (IH Hn) as [t Ht]. eexists. constructor. exact Ht.
  - destruct (IH Hn) as [t Ht]. eexists. constructor. exact Ht.
  - destruct (IH v0 (Hn v0)) as [t Ht]. eexists. econstructor. exact Ht.
  - destruct (IH Hn) as [t Ht]. eexists. constructor. exact Ht.
Qed.

Lemma single_held h md : length h = 1 -> hget h 0 = Some md -> h = [(0, md)].
Proof.
  destruct h as [|[x y] [|]]; cbn; try discriminate. intros _.
  destruct (Nat.eqb_spec x 0) as [->|]; [|discriminate]. congruence.
Qed.

Lemma pok_of_traces listed tbl p : forall ho h,
  nospawn p ->
  (forall t, ptrace p t ->
     ok guard exempt listed tbl h t = true /\ shape_code tbl h t = true) ->
  pok ho h p.
Proof.
  induction p as [r|m md k IH|m md k IH|f k IH|f v k IH|c _ k _|c _ k _]; intros ho h Hn H; cbn [Monitor.pok]; cbn in Hn; try tauto.
  - destruct (H [] (pt_ret V R r)) as [Ho _]. apply ok_nil in Ho. exact Ho.
  - destruct (ptrace_exists k Hn) as [t0 Ht0].
    destruct (H _ (pt_acq V R m md k t0 Ht0)) as [Ho Hs]. rewrite ok_cons in Ho. cbn [Monitor.step_ok] in Ho; cbn [Monitor.shape_code Monitor.shape_act Monitor.hnext] in Hs.
    destruct (forallb (fun e => fst e <? m) h) eqn:Ef; [|discriminate].
    apply andb_prop in Hs as [Hs _]. split.
    + destruct (Nat.eqb_spec m 0) as [->|Hne].
      * destruct h as [|[x y] h']; [reflexivity|]. cbn in Ef. destruct (x <? 0) eqn:E; [|discriminate].
        apply Nat.ltb_lt in E. lia.
      * cbn in Hs. split; [exact Hs|apply hget_lt_none; exact Ef].
    + apply IH; [exact Hn|]. intros t Ht. destruct (H _ (pt_acq V R m md k t Ht)) as [Ho' Hs'].
      rewrite ok_cons in Ho'. cbn [Monitor.step_ok] in Ho'; cbn [Monitor.shape_code Monitor.shape_act Monitor.hnext] in Hs'. rewrite Ef in Ho'. apply andb_prop in Hs' as [_ Hs'']. auto.
  - destruct (ptrace_exists k Hn) as [t0 Ht0].
    destruct (H _ (pt_rel V R m md k t0 Ht0)) as [Ho Hs]. rewrite ok_cons in Ho. cbn [Monitor.step_ok] in Ho; cbn [Monitor.shape_code Monitor.shape_act Monitor.hnext] in Hs.
    destruct (hget h m) as [md'|] eqn:Eg; [|discriminate].
    destruct (mode_eqb md md') eqn:Em; [|discriminate]. apply mode_eqb_eq in Em. subst md'.
    apply andb_prop in Hs as [Hs _]. split; [reflexivity|]. split.
    + intros ->. cbn in Hs. apply Nat.eqb_eq in Hs. apply single_held; assumption.
    + apply IH; [exact Hn|]. intros t Ht. destruct (H _ (pt_rel V R m md k t Ht)) as [Ho' Hs'].
      rewrite ok_cons in Ho'. cbn [Monitor.step_ok] in Ho'; cbn [Monitor.shape_code Monitor.shape_act Monitor.hnext] in Hs'. rewrite Eg in Ho'.
      replace (mode_eqb md md) with true in Ho' by (destruct md; reflexivity).
      apply andb_prop in Hs' as [_ Hs'']. auto.
  - split.
    + destruct (ptrace_exists (k v0) (Hn v0)) as [t0 Ht0].
      destruct (H _ (pt_rd V R f k v0 t0 Ht0)) as [Ho _]. rewrite ok_cons in Ho. cbn [Monitor.step_ok] in Ho.
      destruct (exempt f); [auto|]. right. cbn in Ho. destruct (holdsAny h (guard f)); [reflexivity|discriminate].
    + intro v. apply IH; [apply Hn|]. intros t Ht. destruct (H _ (pt_rd V R f k v t Ht)) as [Ho' Hs'].
      rewrite ok_cons in Ho'. cbn [Monitor.step_ok] in Ho'; cbn [Monitor.shape_code Monitor.shape_act Monitor.hnext] in Hs'. destruct (exempt f || holdsAny h (guard f)); [auto|discriminate].
  - destruct (ptrace_exists k Hn) as [t0 Ht0].
    destruct (H _ (pt_wr V R f v k t0 Ht0)) as [Ho _]. rewrite ok_cons in Ho. cbn [Monitor.step_ok] in Ho.
    destruct (exempt f) eqn:Ef; cbn in Ho; [discriminate|].
    destruct (holdsW h (guard f)) eqn:Ew; [|discriminate]. repeat split; auto.
    apply IH; [exact Hn|]. intros t Ht. destruct (H _ (pt_wr V R f v k t Ht)) as [Ho' Hs'].
    rewrite ok_cons in Ho'. cbn [Monitor.step_ok] in Ho'; cbn [Monitor.shape_code Monitor.shape_act Monitor.hnext] in Hs'. rewrite Ef, Ew in Ho'. cbn in Ho'. auto.
Qed.
End Reduce.

(* ---- non-vacuity ------------------------------------------------------------------------------
   field 0: never written; field 1: a counter guarded by the outer mutex 0; field 2: guarded by the
   inner mutex 1 (taken only inside an exclusive outer section). *)
Definition ex_exempt (f : nat) : bool := Nat.eqb f 0.
Definition ex_guard (f : nat) : nat := if Nat.eqb f 2 then 1 else 0.
Notation xp := (prog nat nat).
(* increment the counter under the exclusive lock and return the value seen *)
Definition ex_inc : xp :=
  PAcq _ _ 0 MW (PRd _ _ 1 (fun v => PWr _ _ 1 (S v) (PRel _ _ 0 MW (PRet _ _ v)))).
(* read the counter under the shared lock after looking at the never-written field *)
Definition ex_get : xp :=
  PRd _ _ 0 (fun _ => PAcq _ _ 0 MR (PRd _ _ 1 (fun v => PRel _ _ 0 MR (PRet _ _ v)))).
(* the nested pair (DeferredCarWriter.Put -> StorageCar.Put): outer lock, then the inner one around
   the inner object's field *)
Definition ex_nested : xp :=
  PAcq _ _ 0 MW (PRd _ _ 1 (fun v =>
    PAcq _ _ 1 MW (PWr _ _ 2 v (PRel _ _ 1 MW (PRel _ _ 0 MW (PRet _ _ v)))))).
(* lock hand-off (ReadOnly.AllKeysChan): take the shared lock, read, start a goroutine that keeps
   reading under the inherited lock and releases it; the caller returns at once *)
Definition ex_handoff : xp :=
  PAcq _ _ 0 MR (PRd _ _ 1 (fun v =>
    PHandoff _ _ (PRd _ _ 1 (fun w => PRel _ _ 0 MR (PRet _ _ w))) (PRet _ _ v))).
(* a goroutine started inside an exclusive section (ReadWrite.AllKeysChan after the repair): the
   section takes a snapshot, the goroutine only returns it *)
Definition ex_spawn : xp :=
  PAcq _ _ 0 MW (PRd _ _ 1 (fun v => PSpawn _ _ (PRet _ _ v) (PRel _ _ 0 MW (PRet _ _ 0)))).

Example ex_progs_disciplined :
  Forall (pok nat nat ex_exempt ex_guard true []) [ex_inc; ex_get; ex_nested; ex_handoff; ex_spawn].
Proof.
  assert (pok nat nat ex_exempt ex_guard true [] ex_inc) as H1.
  { cbn. split; [reflexivity|]. split; [right; reflexivity|]. intro v. repeat split; reflexivity. }
  assert (pok nat nat ex_exempt ex_guard true [] ex_get) as H2.
  { cbn. split; [left; reflexivity|]. intros _. split; [reflexivity|]. split; [right; reflexivity|].
    intro v. repeat split; reflexivity. }
  assert (pok nat nat ex_exempt ex_guard true [] ex_nested) as H3.
  { cbn. split; [reflexivity|]. split; [right; reflexivity|]. intro v.
    split; [split; reflexivity|]. repeat split; try reflexivity. intro H; discriminate. }
  assert (pok nat nat ex_exempt ex_guard true [] ex_handoff) as H4.
  { cbn. split; [reflexivity|]. split; [right; reflexivity|]. intro v.
    repeat split; try reflexivity. right; reflexivity. }
  assert (pok nat nat ex_exempt ex_guard true [] ex_spawn) as H5.
  { cbn. split; [reflexivity|]. split; [right; reflexivity|]. intro v. repeat split; reflexivity. }
  repeat (constructor; [assumption|]). constructor.
Qed.

(* a reachable micro-step configuration: the nested call is inside both locks, having read the counter *)
Example ex_progs_interleave :
  exists c, dsteps nat nat (dinit nat nat (fun _ => 7) [ex_inc; ex_get; ex_nested]) c /\
            wl (dlk nat nat c 0) = true /\ wl (dlk nat nat c 1) = true /\ length (dts nat nat c) = 3.
Proof.
  eexists. split.
  - eapply dsteps_trans; [eapply dsteps_trans; [eapply dsteps_trans; [eapply dsteps_trans; [apply dsteps_refl|]|]|]|].
    + eapply (DRd nat nat [_] [_] [] 0). reflexivity.
    + eapply (DAcqW nat nat [_; _] [] [] _ _ 0); reflexivity.
    + eapply (DRd nat nat [_; _] [] [(0, MW)] 1). reflexivity.
    + eapply (DAcqW nat nat [_; _] [] [(0, MW)] _ _ 1); reflexivity.
  - repeat split; reflexivity.
Qed.
