(* C07: histories of read-only blockstore operations containing Close.  After Close every query that
   reaches the index answers errClosed; the identity short cuts (taken before the closed check) and Roots
   (which never checks it) keep answering; Close is idempotent. *)
From GoCar Require Import Bytes Varint Cid Header Frame V2Header Scan Index Store ReadOnly.
From GoCarProofs Require Import BytesFacts HeaderFacts ScanFacts ReadOnlyFacts ReadOnlyRefine ReadOnlyOpen ReadOnlyMain.

Definition is_rclose (op : roop) : bool := match op with RClose => true | _ => false end.

Section Close.
  Variable hdrdec : bytes -> option (list bytes * N).

  (* what one operation must answer, given whether the store has been closed (and whether closing it
     closed the backing: OpenReadOnly's mmap) *)
  Definition step_spec (o : qopts) (wid : bool) (ro : option (list bytes)) (bs : list block) (npad : N)
             (closed mmap : bool) (op : roop) (a : roans) : Prop :=
    match op with
    | RHas key => forall kp, cid_parse key = Some kp -> id_guard o wid kp = true ->
        a = AOut (if shortcut o kp then OBool true
                  else if closed then OErr EClosed else OBool (ref_has o key kp bs))
    | RGet key => forall kp, cid_parse key = Some kp -> id_guard o wid kp = true ->
        exists r, a = AOut r /\
          (if shortcut o kp then r = OBytes (c_digest kp)
           else if closed then r = OErr EClosed else get_spec o key kp bs r)
    | RGetSize key => forall kp, cid_parse key = Some kp ->
        exists r, a = AOut r /\
          (if is_identity kp then r = OSize (Z.of_N (blen (c_digest kp)))
           else if closed then r = OErr EClosed else getsize_spec o key kp bs r)
    | RKeys => a = AKeys (if closed then KOpenErr EClosed else KKeys (ref_keys (q_whole o) bs) None)
    | RRoots => a = AOut (if closed && mmap then OErr EOther else OKeys (hdr_roots ro))
    | RClose => a = AOut ONil
    (* the refused write methods and HashOnRead: fixed answers, open or closed *)
    | RPut _ _ | RPutMany _ | RDelete _ => a = AReadOnly
    | RHashOnRead _ => a = AOut ONil
    (* Index().GetAll: only offsets of sections of the payload, and the offset of every section carrying the
       key that the index in use records (all but identity sections of an index without identity entries) *)
    | RIndexGetAll key => forall kp, cid_parse key = Some kp ->
        exists offs, a = AOffs offs /\
          (forall off, In off offs -> exists b, In b bs /\ sec_at (payload_np ro bs npad) off b) /\
          (forall b, In b bs -> carries false key kp b = true -> (is_identity kp = true -> wid = true) ->
                     exists off, In off offs /\ sec_at (payload_np ro bs npad) off b)
    end.

  Fixpoint run_spec (o : qopts) (wid : bool) (ro : option (list bytes)) (bs : list block) (npad : N)
           (closed mmap : bool) (ops : list roop) (anss : list roans) : Prop :=
    match ops, anss with
    | [], [] => True
    | op :: t, a :: u => step_spec o wid ro bs npad closed mmap op a /\
                         run_spec o wid ro bs npad (closed || is_rclose op) mmap t u
    | _, _ => False
    end.

  Lemma ss_step_spec ss o wid ro bs npad op :
    arch_ok hdrdec o ro bs npad -> opened (ss_st ss) o wid ro bs npad ->
    blen (payload_np ro bs npad) < two63 ->
    step_spec o wid ro bs npad (ss_closed ss) (ss_mmap ss) op (snd (ss_step hdrdec ss op)) /\
    ss_st (fst (ss_step hdrdec ss op)) = ss_st ss /\ ss_mmap (fst (ss_step hdrdec ss op)) = ss_mmap ss /\
    ss_closed (fst (ss_step hdrdec ss op)) = (ss_closed ss || is_rclose op).
  Proof.
    intros Ha Hop H63. pose proof Hop as (_ & Hopts & _).
    destruct op as [key|key|key| | | |key data|blks|key|en|key]; cbn [ss_step fst snd is_rclose step_spec];
      rewrite ?orb_false_r, ?orb_true_r; (split; [|repeat split; reflexivity]).
    - intros kp Hk Hg. unfold ss_has. rewrite Hk, Hopts. fold (shortcut o kp).
      destruct (shortcut o kp) eqn:Es; [reflexivity|]. destruct (ss_closed ss); [reflexivity|].
      rewrite (ro_has_spec hdrdec (ss_st ss) o wid ro bs npad key kp Ha Hop H63 Hk Hg).
      unfold ref_has. fold (shortcut o kp). rewrite Es. reflexivity.
    - intros kp Hk Hg. unfold ss_get. rewrite Hk, Hopts. fold (shortcut o kp). eexists. split; [reflexivity|].
      pose proof (ro_get_spec hdrdec (ss_st ss) o wid ro bs npad key kp Ha Hop H63 Hk Hg) as Hs.
      unfold get_spec in Hs. destruct (shortcut o kp) eqn:Es; [reflexivity|].
      destruct (ss_closed ss); [reflexivity|]. unfold get_spec. rewrite Es. exact Hs.
    - intros kp Hk. unfold ss_getsize. rewrite Hk. eexists. split; [reflexivity|].
      pose proof (ro_getsize_spec hdrdec (ss_st ss) o wid ro bs npad key kp Ha Hop H63 Hk) as Hs.
      unfold getsize_spec in Hs. destruct (is_identity kp) eqn:Ei; [reflexivity|].
      destruct (ss_closed ss); [reflexivity|]. unfold getsize_spec. rewrite Ei. exact Hs.
    - destruct (ss_closed ss); [reflexivity|].
      rewrite (ro_keys_spec hdrdec (ss_st ss) o wid ro bs npad Ha Hop H63). reflexivity.
    - destruct (ss_closed ss && ss_mmap ss); [reflexivity|].
      rewrite (ro_roots_spec hdrdec (ss_st ss) o wid ro bs npad Ha Hop). reflexivity.
    - reflexivity.
    - reflexivity.
    - reflexivity.
    - reflexivity.
    - reflexivity.
    - intros kp Hk. rewrite Hk. eexists. split; [reflexivity|].
      destruct Hop as (_ & _ & Hs & Hc). split.
      + intros off Hoff. destruct (Hs kp off Hoff) as (r & Hr & Hro).
        destruct (payload_records_sound wid ro bs npad r Hr) as (b & p & Hsec & Hb & _).
        exists b. split; [exact Hb|]. rewrite <- Hro. exact Hsec.
      + intros b Hb Hcar Hwid. unfold carries in Hcar. destruct (cid_parse (fst b)) as [p|] eqn:Ep; [|discriminate].
        destruct (key_matches_mh false key kp (fst b) p Hk Ep Hcar) as [Hcode Hdig].
        assert (Hkeep : (wid || negb (is_identity p)) = true).
        { unfold is_identity in *. rewrite Hcode. destruct (c_mhcode kp =? 0) eqn:E0; [|apply orb_true_r].
          rewrite (Hwid eq_refl). reflexivity. }
        destruct (payload_records_complete wid ro bs npad b p Hb Ep Hkeep) as (off & Hr & Hsec).
        exists off. split; [|exact Hsec]. exact (Hc kp _ Hr Hcode Hdig).
  Qed.

  Theorem ss_run_spec o wid ro bs npad : forall ops ss,
    arch_ok hdrdec o ro bs npad -> opened (ss_st ss) o wid ro bs npad ->
    blen (payload_np ro bs npad) < two63 ->
    run_spec o wid ro bs npad (ss_closed ss) (ss_mmap ss) ops (ss_run hdrdec ss ops).
  Proof.
    induction ops as [|op t IH]; intros ss Ha Hop H63; [exact I|]. cbn [ss_run run_spec].
    destruct (ss_step_spec ss o wid ro bs npad op Ha Hop H63) as (Hs & Hst & Hmm & Hcl).
    destruct (ss_step hdrdec ss op) as [ss' a] eqn:E. cbn [fst snd] in *. split; [exact Hs|].
    rewrite <- Hcl, <- Hmm. apply IH; try assumption. rewrite Hst. exact Hop.
  Qed.

  (* C07 over histories: open, then any sequence of Has/Get/GetSize/AllKeysChan/Roots/Close *)
  Theorem ro_history_refines o ct ro bs npad file sup si :
    file_ok hdrdec o ct ro bs npad file -> supplied_ok hdrdec sup si ro bs npad ->
    exists s, ro_open hdrdec o file si = Ok s /\
      forall mmap ops, run_spec o (index_wid o ct sup) ro bs npad false mmap ops (ss_run hdrdec (mkss s false mmap) ops).
  Proof.
    intros Hfo Hsup. destruct (ro_open_ok hdrdec o ct ro bs npad file sup si Hfo Hsup) as (s & Hs & Hop).
    exists s. split; [exact Hs|]. intros mmap ops.
    apply (ss_run_spec o (index_wid o ct sup) ro bs npad ops (mkss s false mmap) (fo_arch _ _ _ _ _ _ _ Hfo) Hop
                       (file_payload_bound hdrdec o ct ro bs npad file Hfo)).
  Qed.
End Close.

(* a history on the example archive of ReadOnlyMain: ask, try to write, close, ask again, close again *)
Example ex_history :
  match ro_open dec_header_canon (ex_opts true) ex_file None with
  | Ok s => ss_run dec_header_canon (mkss s false true)
              [RHas (ex_cid 113 x01); RPut (ex_cid 85 x09) [x01]; RHashOnRead true; RHas (ex_cid 113 x01);
               RIndexGetAll (ex_cid 85 x02); RIndexGetAll (ex_cid 85 x09); RClose;
               RHas (ex_cid 113 x01); RGet ex_idcid; RGetSize ex_idcid; RKeys; RRoots;
               RDelete (ex_cid 113 x01); RPutMany [(ex_cid 85 x09, [])]; RIndexGetAll (ex_cid 85 x02); RClose]
            = [AOut (OBool true); AReadOnly; AOut ONil; AOut (OBool true); AOffs [144]; AOffs []; AOut ONil;
               AOut (OErr EClosed); AOut (OErr EClosed); AOut (OSize 1);
               AKeys (KOpenErr EClosed); AOut (OErr EOther); AReadOnly; AReadOnly; AOffs [144]; AOut ONil]
  | Err _ => False
  end.
Proof. vm_compute. reflexivity. Qed.

Theorem C07_history_full o ct ro bs npad file sup si :
  car_file ct ro bs npad = Some file -> roots_ok (hdr_roots ro) -> limits_ok o ro bs npad ->
  blen file < two63 -> (q_codec o = codec_sorted \/ q_codec o = codec_mh_sorted) ->
  match ct with
  | CV1 => True
  | CV2 chi clo _ _ emb => chi < two64 /\ clo < two64 /\ 10 <= q_maxh o /\
                           (emb <> None -> N.of_nat (length bs) < two31)
  end ->
  match sup with
  | None => si = None
  | Some og => limits_ok og ro bs npad /\
               exists i, gen_flat dec_header_canon og 0 (payload_np ro bs npad) = Ok i /\ si = Some i
  end ->
  exists s, ro_open dec_header_canon o file si = Ok s /\
    forall mmap ops, run_spec o (index_wid o ct sup) ro bs npad false mmap ops
                              (ss_run dec_header_canon (mkss s false mmap) ops).
Proof.
  intros Hf Hr Hl H63 Hc Hv Hs. pose proof (car_file_payload_le ct ro bs npad file Hf) as Hle.
  apply (ro_history_refines dec_header_canon o ct ro bs npad file sup si);
    [apply mk_file_ok; assumption|apply mk_supplied_ok; try assumption; lia].
Qed.

Lemma ss_step_stutter hdrdec ss op : op <> RClose -> fst (ss_step hdrdec ss op) = ss.
Proof. destruct op; intros H; try reflexivity. congruence. Qed.

(* index offsets that are not int64: the walk FindCid performs only ever visits offsets below 2^63, and
   when it reaches a larger one without having found the key the answer is an error, never a block *)
Lemma int64_prefix_bound offs : Forall (fun off => off < two63) (fst (int64_prefix offs)).
Proof.
  induction offs as [|off t IH]; cbn [int64_prefix]; [constructor|].
  destruct (off <? two63) eqn:E; [|constructor].
  destruct (int64_prefix t) as [p bad]. cbn [fst] in *. constructor; [lia|exact IH].
Qed.

Lemma ro_find_beyond_int64 s key kp rb :
  snd (int64_prefix (ridx_getall (s_idx s) kp)) = true ->
  find_cid (s_view s) (fst (int64_prefix (ridx_getall (s_idx s) kp))) key kp
           (q_whole (s_opts s)) (q_zeof (s_opts s)) (q_maxs (s_opts s)) rb = Err ENotFound ->
  ro_find s key kp rb = Err (if s_v2 s then EEof else EOther).
Proof.
  unfold ro_find. destruct (int64_prefix (ridx_getall (s_idx s) kp)) as [offs bad]. cbn [fst snd].
  intros -> ->. reflexivity.
Qed.
