(* C16, part 4: the theorems (closed over every front-end, option set, history and fault script),
   non-vacuity examples, and the refutation of the unrepaired Put. *)
From GoCar Require Import Bytes Varint Cid Header Frame V2Header Index Store Fault.
From GoCarProofs Require Import BytesFacts VarintFacts CidFacts HeaderFacts ScanFacts StoreInv FaultDev FaultWf FaultInv.

(* ---- (1) a write call that fails makes the operation fail ------------------------------------------------- *)
Definition nf (s : wstate) : nat := nfaults (d_faults (ws_dev s)).

Lemma put_one_nf s c d p s' out : put_one s c d p = (s', out) -> is_err out = false -> nf s' = nf s.
Proof.
  unfold put_one. destruct (should_put _ _ _ _) as [[|]|e]; try (intros H; inversion H; subst; intros; try reflexivity; discriminate).
  destruct (write_chunks _ _ _) as [[dv abs] ok] eqn:Ew. destruct (write_chunks_nfaults _ _ _ _ _ _ Ew) as [Hok _].
  destruct ok.
  - intros H; inversion H; subst. intros _. unfold nf. cbn [set_idx set_dev ws_dev]. apply Hok. reflexivity.
  - destruct (abs =? _); [intros H; inversion H; subst; discriminate|].
    destruct (ws_kind s) as [|[|]]; try (destruct (dev_try_truncate _ _) as [dv' [|]]);
      intros H; inversion H; subst; discriminate.
Qed.

Lemma loop_nf : forall blks s s' out, put_many_loop s blks = (s', out) -> is_err out = false -> nf s' = nf s.
Proof.
  induction blks as [|[c d] t IH]; intros s s' out H He; cbn [put_many_loop] in H; [inversion H; reflexivity|].
  destruct (cid_parse c) as [p|]; [|inversion H; subst; discriminate].
  destruct (put_one s c d p) as [s1 r1] eqn:Ep. destruct r1; try (inversion H; subst; try discriminate; apply (put_one_nf _ _ _ _ _ _ Ep); reflexivity).
  rewrite (IH _ _ _ H He). apply (put_one_nf _ _ _ _ _ _ Ep). reflexivity.
Qed.

Lemma bs_put_many_nf s blks s' out : bs_put_many s blks = (s', out) -> is_err out = false -> nf s' = nf s.
Proof.
  unfold bs_put_many. destruct (ws_closed s); [intros H; inversion H; reflexivity|].
  destruct (ws_finalized s); [intros H; inversion H; reflexivity|]. apply loop_nf.
Qed.

Lemma fbs_put_many_nf s blks s' out : fbs_put_many s blks = (s', out) -> is_err out = false -> nf s' = nf s.
Proof.
  unfold fbs_put_many. destruct (ws_closed s || ws_finalized s); [apply bs_put_many_nf|].
  destruct (bs_sticky s); [intros H; inversion H; reflexivity|apply bs_put_many_nf].
Qed.

Lemma store_finalize_nf s s' out : store_finalize s = (s', out) -> is_err out = false -> nf s' = nf s.
Proof.
  unfold store_finalize. destruct (ii_flatten _ _); [|intros H; inversion H; reflexivity].
  destruct (write_chunks (ws_dev s) _ _) as [[dv1 a1] ok1] eqn:E1. destruct (write_chunks_nfaults _ _ _ _ _ _ E1) as [Hok1 _].
  destruct ok1; cbn [negb]; [|intros H; inversion H; subst; discriminate].
  destruct (write_chunks dv1 _ _) as [[dv2 a2] ok2] eqn:E2. destruct (write_chunks_nfaults _ _ _ _ _ _ E2) as [Hok2 _].
  intros H; inversion H; subst. destruct ok2; [|discriminate]. intros _. unfold nf. cbn [set_dev ws_dev].
  rewrite Hok2, Hok1; reflexivity.
Qed.

Lemma bs_finalize_ro_nf s s' out : bs_finalize_ro s = (s', out) ->
  (out = ONil \/ is_err out = true) /\ (is_err out = false -> nf s' = nf s).
Proof.
  unfold bs_finalize_ro. destruct (w_v1 _); [intros H; inversion H; split; [left|]; reflexivity|].
  destruct (ws_closed s); [intros H; inversion H; split; [right|]; reflexivity|].
  destruct (ws_finalized s); [intros H; inversion H; split; [right|]; reflexivity|].
  intros H. split; [exact (store_finalize_out _ _ _ H)|]. intros He. rewrite (store_finalize_nf _ _ _ H He). reflexivity.
Qed.

Lemma fbs_finalize_ro_nf s s' out : fbs_finalize_ro s = (s', out) ->
  (out = ONil \/ is_err out = true) /\ (is_err out = false -> nf s' = nf s).
Proof.
  unfold fbs_finalize_ro. destruct (bs_sticky s); [intros H; inversion H; split; [right|]; reflexivity|].
  apply bs_finalize_ro_nf.
Qed.

Lemma bs_close_nf s s' out : bs_close s = (s', out) -> nf s' = nf s.
Proof.
  unfold bs_close. destruct (_ && _); [intros H; inversion H; reflexivity|].
  destruct (ws_closed s); intros H; inversion H; reflexivity.
Qed.

Theorem fault_reports_error hdrdec kn s op s' out :
  fstep hdrdec kn s op = (s', out) -> fault_hit s s' = true -> is_err out = true.
Proof.
  intros H Hhit. destruct (is_err out) eqn:He; [reflexivity|exfalso].
  assert (Hnf : nf s' = nf s).
  { unfold fstep in H. destruct op; try (inversion H; subst; reflexivity).
    - revert H. destruct (kn =? 0); intros H; [apply (fbs_put_many_nf _ _ _ _ H He)|].
      unfold st_put in H. destruct (cid_parse c); [|inversion H; reflexivity].
      destruct (ws_closed s); [inversion H; reflexivity|]. destruct (ws_finalized s); [inversion H; reflexivity|].
      apply (put_one_nf _ _ _ _ _ _ H He).
    - apply (fbs_put_many_nf _ _ _ _ H He).
    - revert H. destruct (kn =? 0); intros H.
      + unfold fbs_finalize in H. destruct (fbs_finalize_ro s) as [s1 r1] eqn:E1. destruct (bs_close s1) as [s2 r2] eqn:E2.
        inversion H; subst s' out. rewrite (bs_close_nf _ _ _ E2).
        destruct (fbs_finalize_ro_nf _ _ _ E1) as [Hr Hn]. apply Hn.
        destruct r1; try reflexivity; destruct Hr; try discriminate; exact He.
      + unfold st_finalize in H. destruct (ws_finalized s); [inversion H; reflexivity|].
        destruct (ws_closed s); [inversion H; reflexivity|]. destruct (w_v1 _); [inversion H; reflexivity|].
        rewrite (store_finalize_nf _ _ _ H He). reflexivity.
    - destruct (fbs_finalize_ro_nf _ _ _ H) as [_ Hn]. apply Hn. exact He.
    - apply (bs_close_nf _ _ _ H). }
  unfold fault_hit in Hhit. fold (nf s') (nf s) in Hhit. rewrite Hnf in Hhit.
  rewrite Nat.ltb_irrefl in Hhit. discriminate.
Qed.

(* ---- (2) the session theorems ------------------------------------------------------------------------------- *)
Lemma fits_of_bound o n : 51 + w_dpad o + w_ipad o + n < two63 -> base_fits o.
Proof. unfold base_fits, two63, two64. lia. Qed.

Lemma payload_fpayload nilroots roots st : payload nilroots roots st = fpayload nilroots roots st.
Proof. reflexivity. Qed.

Section Closed.
  Variable hdrdec : bytes -> option (list bytes * N).

  Lemma session_inv kn o nilroots roots faults ops s0 sn tr :
    base_fits o -> hdr_ok nilroots roots ->
    forallb (op_okb kn) ops = true -> ops_small ops ->
    fopen kn o nilroots roots faults = Ok s0 ->
    frun hdrdec kn s0 ops = (sn, tr) ->
    FInv kn o nilroots roots sn (acked o nilroots roots ops (map obs_of tr)).
  Proof.
    intros Hfit Hh Hok Hsm Hopen Hrun.
    destruct (fopen_clean hdrdec kn o nilroots roots Hfit Hh faults s0 Hopen) as (HI0 & _).
    exact (run_inv hdrdec kn o nilroots roots Hfit Hh ops s0 [] sn tr HI0 Hok Hsm Hrun).
  Qed.

  Theorem no_poison kn o nilroots roots faults pre op s0 sn tr :
    hdr_ok nilroots roots ->
    forallb (op_okb kn) (pre ++ [op]) = true -> ops_small (pre ++ [op]) ->
    fopen kn o nilroots roots faults = Ok s0 ->
    frun hdrdec kn s0 (pre ++ [op]) = (sn, tr) ->
    is_finalize op = true -> snd (last tr (s0, ONil)) = ONil ->
    51 + w_dpad o + w_ipad o
       + blen (fpayload nilroots roots (acked o nilroots roots (pre ++ [op]) (map obs_of tr))) < two63 ->
    wf_final (ws_file sn) = Some (roots, acked o nilroots roots (pre ++ [op]) (map obs_of tr)).
  Proof.
    intros Hh Hok Hsm Hopen Hrun Hfin Hlast Hb.
    pose proof (fits_of_bound _ _ Hb) as Hfit.
    rewrite frun_app in Hrun. destruct (frun hdrdec kn s0 pre) as [s1 t1] eqn:E1.
    cbn [frun] in Hrun. destruct (fstep hdrdec kn s1 op) as [s2 o2] eqn:E2.
    inversion Hrun; subst sn tr. clear Hrun.
    rewrite last_last in Hlast. cbn [snd] in Hlast. subst o2.
    rewrite forallb_app in Hok. apply andb_true_iff in Hok. destruct Hok as [Hok1 Hok2].
    cbn [forallb] in Hok2. rewrite andb_true_r in Hok2.
    unfold ops_small in Hsm. apply Forall_app in Hsm. destruct Hsm as [Hsm1 Hsm2]. inversion Hsm2 as [|? ? Hsmop _]; subst.
    pose proof (session_inv kn o nilroots roots faults pre s0 s1 t1 Hfit Hh Hok1 Hsm1 Hopen E1) as HI1.
    destruct (step_inv hdrdec kn o nilroots roots Hfit Hh _ _ _ _ _ HI1 Hok2 Hsmop E2) as [_ Hclaim].
    unfold acked in *. rewrite map_app in *. cbn [map] in *.
    rewrite acked_from_app in * by (rewrite map_length; symmetry; apply (frun_length hdrdec kn _ _ _ _ E1)).
    cbn [acked_from] in *.
    apply Hclaim; [exact Hfin|reflexivity|]. rewrite payload_fpayload. exact Hb.
  Qed.

  (* CARv1 mode: complete at every moment, not only after Finalize *)
  Theorem v1_always_wellformed kn o nilroots roots faults ops s0 sn tr :
    base_fits o -> hdr_ok nilroots roots ->
    forallb (op_okb kn) ops = true -> ops_small ops ->
    fopen kn o nilroots roots faults = Ok s0 ->
    frun hdrdec kn s0 ops = (sn, tr) ->
    w_v1 o = true -> sticky kn sn = false ->
    wf_final (ws_file sn) = Some (roots, acked o nilroots roots ops (map obs_of tr)).
  Proof.
    intros Hfit Hh Hok Hsm Hopen Hrun Hv1 Hns.
    apply (finv_v1_wf kn o nilroots roots Hh); [|exact Hv1|exact Hns].
    apply (session_inv kn o nilroots roots faults ops s0 sn tr); assumption.
  Qed.

  (* a Put / PutMany that returned success found no sticky write error and set none *)
  Lemma put_one_ok_roots s c d p s' : put_one s c d p = (s', ONil) ->
    ws_roots s' = ws_roots s /\ ws_finalized s' = ws_finalized s.
  Proof.
    unfold put_one. destruct (should_put _ _ _ _) as [[|]|e]; try discriminate.
    - destruct (write_chunks _ _ _) as [[dv abs] ok]. destruct ok.
      + intros H; inversion H; subst. split; reflexivity.
      + destruct (abs =? _); [discriminate|].
        destruct (ws_kind s) as [|[|]]; try (destruct (dev_try_truncate _ _) as [dv' [|]]); discriminate.
    - intros H; inversion H; subst. split; reflexivity.
  Qed.
  Lemma loop_ok_roots : forall blks s s', put_many_loop s blks = (s', ONil) -> ws_roots s' = ws_roots s.
  Proof.
    induction blks as [|[c d] t IH]; intros s s' H; cbn [put_many_loop] in H; [inversion H; reflexivity|].
    destruct (cid_parse c) as [p|]; [|discriminate]. destruct (put_one s c d p) as [s1 r1] eqn:Ep.
    destruct r1; try discriminate. rewrite (IH _ _ H). apply (put_one_ok_roots _ _ _ _ _ Ep).
  Qed.
  Lemma put_ok_not_sticky kn s op s' :
    (exists c d, op = FPut c d) \/ (exists bs, op = FPutMany bs) -> op_okb kn op = true ->
    fstep hdrdec kn s op = (s', ONil) -> sticky kn s' = false.
  Proof.
    intros Hop Hok. unfold fstep, sticky. destruct (kn =? 0) eqn:Ekn.
    - assert (Hbs : forall blks, fbs_put_many s blks = (s', ONil) -> bs_sticky s' = false).
      { intros blks. unfold fbs_put_many, bs_put_many. destruct (ws_closed s); [discriminate|].
        destruct (ws_finalized s); [discriminate|]. cbn [orb]. destruct (bs_sticky s) eqn:Es; [discriminate|].
        intros H. unfold bs_sticky in *. rewrite (loop_ok_roots _ _ _ H). exact Es. }
      destruct Hop as [(c & d & ->) | (bs & ->)]; apply Hbs.
    - destruct Hop as [(c & d & ->) | (bs & ->)]; [|unfold op_okb in Hok; rewrite Ekn in Hok; discriminate].
      unfold st_put. destruct (cid_parse c) as [p|]; [|discriminate]. destruct (ws_closed s); [discriminate|].
      destruct (ws_finalized s) eqn:Ef; [discriminate|]. intros H.
      rewrite (proj2 (put_one_ok_roots _ _ _ _ _ H)). exact Ef.
  Qed.

  Theorem v1_complete_after_successful_put kn o nilroots roots faults pre op s0 sn tr :
    base_fits o -> hdr_ok nilroots roots ->
    forallb (op_okb kn) (pre ++ [op]) = true -> ops_small (pre ++ [op]) ->
    fopen kn o nilroots roots faults = Ok s0 ->
    frun hdrdec kn s0 (pre ++ [op]) = (sn, tr) ->
    w_v1 o = true -> (exists c d, op = FPut c d) \/ (exists bs, op = FPutMany bs) ->
    snd (last tr (s0, ONil)) = ONil ->
    wf_final (ws_file sn) = Some (roots, acked o nilroots roots (pre ++ [op]) (map obs_of tr)).
  Proof.
    intros Hfit Hh Hok Hsm Hopen Hrun Hv1 Hop Hlast.
    apply (v1_always_wellformed kn o nilroots roots faults (pre ++ [op]) s0 sn tr); try assumption.
    rewrite frun_app in Hrun. destruct (frun hdrdec kn s0 pre) as [s1 t1].
    cbn [frun] in Hrun. destruct (fstep hdrdec kn s1 op) as [s2 o2] eqn:E2.
    inversion Hrun; subst sn tr. clear Hrun. rewrite last_last in Hlast. cbn [snd] in Hlast. subst o2.
    rewrite forallb_app in Hok. apply andb_true_iff in Hok. destruct Hok as [_ Hok]. cbn [forallb] in Hok.
    rewrite andb_true_r in Hok.
    exact (put_ok_not_sticky kn s1 op s2 Hop Hok E2).
  Qed.

  (* a Put that returns an error: index untouched; file untouched, or -- plain io.Writer only -- the
     sticky write error is set *)
  Theorem failed_put_changes_nothing kn o nilroots roots faults ops s0 sn tr c d s' out :
    base_fits o -> hdr_ok nilroots roots ->
    forallb (op_okb kn) ops = true -> ops_small ops -> blk_small (c, d) ->
    fopen kn o nilroots roots faults = Ok s0 ->
    frun hdrdec kn s0 ops = (sn, tr) ->
    fstep hdrdec kn sn (FPut c d) = (s', out) -> is_err out = true ->
    ws_idx s' = ws_idx sn /\ (ws_file s' = ws_file sn \/ sticky kn s' = true).
  Proof.
    intros Hfit Hh Hok Hsm Hsmb Hopen Hrun Hstep He.
    pose proof (session_inv kn o nilroots roots faults ops s0 sn tr Hfit Hh Hok Hsm Hopen Hrun) as HI.
    exact (put_err_unchanged hdrdec kn o nilroots roots Hfit sn _ c d s' out HI Hsmb Hstep He).
  Qed.
End Closed.

(* the sticky write error refuses every later Put, PutMany, Finalize and FinalizeReadOnly: error, file
   and index untouched, the error stays (StorageCar.Finalize also marks the store closed) *)
Theorem sticky_error_refuses hdrdec kn s op s' out :
  sticky kn s = true -> op_okb kn op = true ->
  (exists c d, op = FPut c d) \/ (exists bs, op = FPutMany bs) \/ op = FFinalize \/ op = FFinalizeRO ->
  fstep hdrdec kn s op = (s', out) ->
  is_err out = true /\ ws_file s' = ws_file s /\ ws_idx s' = ws_idx s /\ sticky kn s' = true.
Proof.
  intros Hst Hok Hop. unfold fstep, sticky in *. destruct (kn =? 0) eqn:Ekn.
  - assert (Hpm : forall blks, fbs_put_many s blks = (s', out) ->
              is_err out = true /\ ws_file s' = ws_file s /\ ws_idx s' = ws_idx s /\ bs_sticky s' = true).
    { intros blks. unfold fbs_put_many, bs_put_many.
      destruct (ws_closed s); [intros H; inversion H; subst; repeat split; try reflexivity; exact Hst|].
      destruct (ws_finalized s); [intros H; inversion H; subst; repeat split; try reflexivity; exact Hst|].
      cbn [orb]. rewrite Hst. intros H; inversion H; subst; repeat split; try reflexivity; exact Hst. }
    assert (Hro : forall s1 r1, fbs_finalize_ro s = (s1, r1) -> s1 = s /\ is_err r1 = true).
    { intros s1 r1. unfold fbs_finalize_ro. rewrite Hst. intros H; inversion H; split; reflexivity. }
    destruct Hop as [(c & d & ->) | [(bs & ->) | [-> | ->]]]; try apply Hpm.
    + unfold fbs_finalize. pose proof (Hro (fst (fbs_finalize_ro s)) (snd (fbs_finalize_ro s)) (surjective_pairing _)) as Hx.
      destruct (fbs_finalize_ro s) as [s1 r1]. cbn [fst snd] in Hx. destruct Hx as [-> Hr1].
      destruct (bs_close s) as [s2 r2] eqn:E2. intros H; inversion H; subst s' out.
      assert (Hc : ws_file s2 = ws_file s /\ ws_idx s2 = ws_idx s /\ ws_roots s2 = ws_roots s).
      { revert E2. unfold bs_close. destruct (_ && _); [intros E; inversion E; repeat split; reflexivity|].
        destruct (ws_closed s); intros E; inversion E; repeat split; reflexivity. }
      destruct Hc as (Hf & Hi & Hr). split; [destruct r1; try discriminate; reflexivity|].
      split; [exact Hf|]. split; [exact Hi|]. unfold bs_sticky in *. rewrite Hr. exact Hst.
    + intros H. destruct (Hro _ _ H) as [-> Hr1]. repeat split; try reflexivity; assumption.
  - unfold op_okb in Hok. rewrite Ekn in Hok. cbn [orb] in Hok.
    destruct Hop as [(c & d & ->) | [(bs & ->) | [-> | ->]]]; try discriminate.
    + unfold st_put. destruct (cid_parse c); [|intros H; inversion H; subst; repeat split; try reflexivity; exact Hst].
      destruct (ws_closed s); [intros H; inversion H; subst; repeat split; try reflexivity; exact Hst|].
      rewrite Hst. intros H; inversion H; subst; repeat split; try reflexivity; exact Hst.
    + unfold st_finalize. rewrite Hst. intros H; inversion H; subst. repeat split; reflexivity.
Qed.

(* ---- (3) instances: hypotheses are satisfiable, the unrepaired Put is refuted ---------------------------------- *)
Definition ex_opts (v1 : bool) : wopts :=
  mkwopts 0 0 1025 false 2048 true false false v1 default_maxh default_maxs.
(* identity CIDs "a", "b" (raw codec) and their data; StoreIdentityCIDs is on *)
Definition ex_c1 : bytes := [x01; x55; x00; x01; x61].
Definition ex_c2 : bytes := [x01; x55; x00; x01; x62].
Definition ex_ops : list fop := [FPut ex_c1 [x61]; FPut ex_c2 [x62]; FFinalize].
(* storage on a file, CARv2: open = pragma, header varint, header; the first Put's length varint gets
   out, its CID write fails with nothing written *)
Definition ex_faults : list (option N) := [None; None; None; None; Some 0].

Lemma ex_hdr_ok : hdr_ok false [].
Proof. split; [split; [constructor|unfold two64; cbn; lia]|vm_compute; reflexivity]. Qed.
Lemma ex_small : ops_small ex_ops.
Proof. repeat constructor; unfold blk_small; vm_compute; reflexivity. Qed.

Definition ex_run (kn : N) (v1 : bool) (faults : list (option N)) :=
  match fopen kn (ex_opts v1) false [] faults with
  | Ok s0 => Some (frun dec_header_canon kn s0 ex_ops)
  | Err _ => None
  end.
Definition ex_run_v0 (kn : N) (v1 : bool) (faults : list (option N)) :=
  match fopen kn (ex_opts v1) false [] faults with
  | Ok s0 => Some (frun_v0 kn s0 ex_ops)
  | Err _ => None
  end.

(* the hypotheses of no_poison hold on this faulted session and its conclusion is what it says:
   the first Put fails, the second and Finalize succeed, the file holds exactly the second block *)
Example no_poison_instance :
  match ex_run 1 false ex_faults with
  | Some (sn, tr) =>
      map snd tr = [OErr EOther; ONil; ONil] /\
      fault_hit (fst (nth 0 tr (sn, ONil))) (fst (nth 0 tr (sn, ONil))) = false /\
      acked (ex_opts false) false [] ex_ops (map obs_of tr) = [(ex_c2, [x62])] /\
      wf_final (ws_file sn) = Some ([], [(ex_c2, [x62])])
  | None => False
  end.
Proof. vm_compute. repeat split; reflexivity. Qed.

(* the same session on a plain io.Writer (CARv1): the sticky error refuses the rest *)
Example stream_instance :
  match ex_run 3 true [None; None; None; Some 0] with
  | Some (sn, tr) => map snd tr = [OErr EOther; OErr EOther; OErr EOther] /\ ws_finalized sn = true
  | None => False
  end.
Proof. vm_compute. repeat split; reflexivity. Qed.

(* before the fix: the same two sessions ended with a successful Finalize (CARv2 on a file) or with
   successful later Puts (stream) and a file that does not parse *)
Theorem unrepaired_put_refuted :
  exists kn v1 faults,
    match ex_run_v0 kn v1 faults with
    | Some (sn, tr) =>
        map snd tr = [OErr EOther; ONil; ONil] /\ wf_final (ws_file sn) = None
    | None => False
    end.
Proof. exists 1, false, ex_faults. vm_compute. split; reflexivity. Qed.

Theorem unrepaired_put_refuted_stream :
  match ex_run_v0 3 true [None; None; None; Some 0] with
  | Some (sn, tr) => map snd tr = [OErr EOther; ONil; ONil] /\ wf_final (ws_file sn) = None
  | None => False
  end.
Proof. vm_compute. split; reflexivity. Qed.

(* the theorems applied to the instance: every hypothesis is discharged on it *)
Example no_poison_applies : forall s0 sn tr,
  fopen 1 (ex_opts false) false [] ex_faults = Ok s0 ->
  frun dec_header_canon 1 s0 ex_ops = (sn, tr) ->
  wf_final (ws_file sn) = Some ([], [(ex_c2, [x62])]).
Proof.
  intros s0 sn tr Hopen Hrun.
  assert (Hack : acked (ex_opts false) false [] ex_ops (map obs_of tr) = [(ex_c2, [x62])]).
  { vm_compute in Hopen. inversion Hopen; subst s0. vm_compute in Hrun. inversion Hrun; subst. vm_compute. reflexivity. }
  rewrite <- Hack.
  apply (no_poison dec_header_canon 1 (ex_opts false) false [] ex_faults [FPut ex_c1 [x61]; FPut ex_c2 [x62]] FFinalize s0 sn tr).
  - exact ex_hdr_ok.
  - reflexivity.
  - exact ex_small.
  - exact Hopen.
  - exact Hrun.
  - reflexivity.
  - vm_compute in Hopen. inversion Hopen; subst s0. vm_compute in Hrun. inversion Hrun; subst. reflexivity.
  - change ([FPut ex_c1 [x61]; FPut ex_c2 [x62]] ++ [FFinalize]) with ex_ops. rewrite Hack. vm_compute. reflexivity.
Qed.

Lemma ex_fits v1 : base_fits (ex_opts v1).
Proof. vm_compute. reflexivity. Qed.

Example failed_put_applies : forall s0 s' out,
  fopen 0 (ex_opts true) false [] [None; None; None; Some 3] = Ok s0 ->
  fstep dec_header_canon 0 s0 (FPut ex_c1 [x61]) = (s', out) ->
  is_err out = true /\ ws_idx s' = ws_idx s0 /\ ws_file s' = ws_file s0.
Proof.
  intros s0 s' out Hopen Hstep.
  assert (He : is_err out = true /\ sticky 0 s' = false).
  { pose proof Hopen as Ho. vm_compute in Ho. inversion Ho; subst s0. clear Ho Hopen.
    vm_compute in Hstep. inversion Hstep; subst. split; reflexivity. }
  destruct He as [He Hns]. split; [exact He|].
  assert (Hsm : blk_small (ex_c1, [x61])) by (vm_compute; reflexivity).
  destruct (failed_put_changes_nothing dec_header_canon 0 (ex_opts true) false [] [None; None; None; Some 3] [] s0 s0 []
              ex_c1 [x61] s' out (ex_fits true) ex_hdr_ok eq_refl (Forall_nil _) Hsm Hopen eq_refl Hstep He)
    as [Hi [Hf|Hst]].
  - split; assumption.
  - rewrite Hst in Hns. discriminate.
Qed.

Example v1_applies : forall s0 sn tr,
  fopen 2 (ex_opts true) false [] [None; None; None; Some 2] = Ok s0 ->
  frun dec_header_canon 2 s0 [FPut ex_c1 [x61]; FPut ex_c2 [x62]] = (sn, tr) ->
  wf_final (ws_file sn) = Some ([], [(ex_c2, [x62])]).
Proof.
  intros s0 sn tr Hopen Hrun.
  assert (Hack : acked (ex_opts true) false [] [FPut ex_c1 [x61]; FPut ex_c2 [x62]] (map obs_of tr) = [(ex_c2, [x62])]
                 /\ sticky 2 sn = false).
  { pose proof Hopen as Ho. vm_compute in Ho. inversion Ho; subst s0. clear Ho Hopen.
    vm_compute in Hrun. inversion Hrun; subst. vm_compute. split; reflexivity. }
  destruct Hack as [Hack Hns]. rewrite <- Hack.
  assert (Hsm : ops_small [FPut ex_c1 [x61]; FPut ex_c2 [x62]])
    by (repeat constructor; unfold blk_small; vm_compute; reflexivity).
  exact (v1_always_wellformed dec_header_canon 2 (ex_opts true) false [] [None; None; None; Some 2]
           [FPut ex_c1 [x61]; FPut ex_c2 [x62]] s0 sn tr
           (ex_fits true) ex_hdr_ok eq_refl Hsm Hopen Hrun eq_refl Hns).
Qed.

(* the Truncate of the rewind fails too (or the writer has none): blockstore, CARv2.  The first Put's
   CID write is cut after 3 bytes, the Truncate entry is a fault: the sticky write error makes the
   second Put and Finalize fail; nothing claims success *)
Example truncate_fails_instance :
  match ex_run 0 false [None; None; None; None; Some 3; Some 0] with
  | Some (sn, tr) =>
      map snd tr = [OErr EOther; OErr EOther; OErr EOther] /\ sticky 0 sn = true /\ ws_idx sn = []
  | None => False
  end.
Proof. vm_compute. repeat split; reflexivity. Qed.

(* ... and a storage on a WriterAt in CARv2 mode whose writer cannot truncate *)
Example truncate_missing_instance :
  match ex_run 2 false [None; None; None; None; Some 3; Some 0] with
  | Some (sn, tr) =>
      map snd tr = [OErr EOther; OErr EOther; OErr EOther] /\ sticky 2 sn = true /\ ws_closed sn = true
  | None => False
  end.
Proof. vm_compute. repeat split; reflexivity. Qed.

(* ... the same target as its own model kind: no Truncate entry is consumed at all *)
Example notrunc_kind_instance :
  match ex_run 4 false [None; None; None; None; Some 3] with
  | Some (sn, tr) =>
      map snd tr = [OErr EOther; OErr EOther; OErr EOther] /\ sticky 4 sn = true /\ ws_closed sn = true /\
      d_faults (ws_dev sn) = []
  | None => False
  end.
Proof. vm_compute. repeat split; reflexivity. Qed.
