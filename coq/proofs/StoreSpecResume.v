(* C04 across reopen: composing the map refinement (StoreSpecFacts.v) with C12's resume model
   (ResumeInv.v).  Whatever file a session left behind -- unfinalized after Discard, or finalized --
   reopening it (store.ResumableVersion + store.Resume) yields a store that refines the reference map
   PRE-LOADED with the blocks of the file; and a session of Puts and queries, ended by Discard or
   Finalize and reopened, continues as the map would with the same blocks and fresh flags. *)
From GoCar Require Import Bytes Varint Cid Header Frame V2Header Scan Index Store StoreSpec Crash.
From GoCarProofs Require Import BytesFacts VarintFacts CidFacts HeaderFacts ScanFacts StoreInv StoreSpecFacts.
From GoCarProofs Require ResumeFacts ResumeInv.

Lemma blk_ok_stored_ok maxs b : blk_ok maxs b -> ResumeFacts.stored_ok b.
Proof. intros (Hc & _). destruct (cid_rd_ok_parse _ Hc) as (p & Hp & _ & _ & Hd). exists p. auto. Qed.

Section Resumed.
  Variable hdrdec : bytes -> option (list bytes * N).
  Variables (k : skind) (o : wopts) (nilroots : bool) (roots : list bytes).
  Let hb := enc_header (roots_opt nilroots roots) 1.
  Hypothesis Hpar : ResumeInv.params_ok hdrdec o nilroots roots.

  (* C12's invariant (exact file, open flags) implies the C04 simulation relation with the same blocks *)
  Lemma R_of_resume_inv s st :
    ResumeInv.Inv k o nilroots roots s st -> Forall (blk_ok (w_maxs o)) st ->
    R o roots hb s (mkm st false false).
  Proof.
    intros [Hfile Hidx Hpos Hcl Hfin Hroots Hopts Hkind Hfaults Hcids Hfits] Hok.
    assert (H64 : 51 + w_dpad o < two64) by (unfold ResumeInv.fits, two63, two64 in *; lia).
    unfold R. cbn [m_blocks m_closed m_finalized]. repeat (split; [|try assumption]); try assumption.
    constructor.
    - exists (if w_v1 o then [] else ResumeInv.v2_prefix o), []. rewrite Hfile, Hopts. split.
      + unfold ResumeInv.base_file. fold hb. unfold sections, enc_sections. rewrite app_nil_r, <- !app_assoc. reflexivity.
      + destruct (w_v1 o) eqn:Ev; [rewrite data_base_v1 by exact Ev; reflexivity|].
        rewrite data_base_v2 by assumption. unfold ResumeInv.v2_prefix. rewrite blen_app, blen_zerosN, blen_pragma. lia.
    - rewrite Hpos. unfold ResumeInv.hsz, ResumeInv.hdr. fold hb. rewrite blen_app, blen_ld. reflexivity.
    - rewrite Hidx. unfold ResumeInv.idx_of, ResumeInv.hsz, ResumeInv.hdr. fold hb. rewrite blen_ld. reflexivity.
  Qed.

  (* (A) any file a cut left behind reopens into a store that refines the map pre-loaded with its blocks *)
  Theorem refines_map_resumed (c : cut) (st : list block) f ops :
    Forall (blk_ok (w_maxs o)) st -> ResumeInv.fits o nilroots roots st ->
    Forall (op_ok o) ops ->
    51 + w_dpad o + w_ipad o + ld_size (blen hb) + blen (enc_sections st) + ops_size ops < two64 ->
    exists s, reopen hdrdec k o nilroots roots (ResumeInv.cut_file o nilroots roots c st) = inl s /\
              outs (trace (impl_step hdrdec f) s ops) = outs (trace (spec_step f o roots) (mkm st false false) ops).
  Proof.
    intros Hok Hfit Hops Hsz.
    assert (Hso : Forall ResumeFacts.stored_ok st) by (eapply Forall_impl; [|exact Hok]; intros b; apply blk_ok_stored_ok).
    destruct (ResumeInv.reopen_after_cut hdrdec k o nilroots roots Hpar c st Hso Hfit) as (log & Hre).
    exists (ResumeInv.resumed_state k o nilroots roots log st). split; [exact Hre|].
    pose proof (R_of_resume_inv _ st (ResumeInv.resumed_state_inv k o nilroots roots log st Hso Hfit) Hok) as HR.
    destruct Hpar as [Hdec _ Hmaxh _].
    refine (proj1 (trace_sim hdrdec o roots hb Hdec Hmaxh _ f ops _ _ HR Hops _)).
    - unfold ResumeInv.fits, ResumeInv.hsz, ResumeInv.hdr, ld_size in Hfit. fold hb in Hfit. unfold two63 in *. lia.
    - unfold StoreSpecFacts.fits. cbn [ResumeInv.resumed_state ws_pos]. unfold ResumeInv.hsz, ResumeInv.hdr. fold hb. lia.
  Qed.

  (* ---- (B) a session, a cut, a reopen, and on ------------------------------------------------------------ *)
  (* the operations of a running session: Puts and queries (no lifecycle call before the cut) *)
  Definition session_op (op : sop) : bool :=
    match op with OpPut _ _ | OpPutMany _ | OpHas _ | OpGet _ | OpGetSize _ | OpKeys | OpRoots => true | _ => false end.
  (* the front-end the handle was made with *)
  Definition front_of_kind (f : front) : Prop :=
    match f with FSt _ => exists w, k = KStorage w | _ => k = KBlockstore end.

  Lemma put_is_fe_put f s c d : front_of_kind f -> ws_kind s = k ->
    impl_step hdrdec f s (OpPut c d) = fe_put s (c, d).
  Proof.
    intros Hf Hk. unfold fe_put. rewrite Hk. destruct f as [|r|]; cbn [impl_step front_of_kind] in *;
      try (rewrite Hf; reflexivity). destruct Hf as (w & ->). reflexivity.
  Qed.

  (* the stored list C12's abs_put computes is the reference map's *)
  Lemma abs_put_map s m c d p :
    R o roots hb s m -> ResumeInv.Inv k o nilroots roots s (m_blocks m) -> cid_parse c = Some p ->
    ResumeInv.abs_put o nilroots roots (m_blocks m) (c, d) = m_blocks (fst (m_put_one o m c d p)).
  Proof.
    intros HR HI Hp. pose proof HR as (HIm & _).
    unfold ResumeInv.abs_put. cbn [fst snd]. rewrite Hp. rewrite <- (ResumeInv.inv_idx _ _ _ _ _ _ HI).
    rewrite (should_put_spec o s hb (m_blocks m) c p HIm (R_parses o roots hb s m HR) Hp). unfold m_put_one.
    destruct (negb (w_storeid o) && is_identity p); [reflexivity|].
    destruct (w_maxcid o <? blen c); [reflexivity|].
    destruct (negb (w_dups o) && m_present o (m_blocks m) c); reflexivity.
  Qed.

  (* PutMany on a running session: C12's invariant follows the map block by block *)
  Lemma put_loop_rinv l : forall s m,
    R o roots hb s m -> ResumeInv.Inv k o nilroots roots s (m_blocks m) -> Forall (put_ok o) l ->
    51 + w_dpad o + w_ipad o + ws_pos s + blks_size l < two63 ->
    ResumeInv.Inv k o nilroots roots (fst (put_many_loop s l)) (m_blocks (fst (m_put_loop o m l))).
  Proof.
    destruct Hpar as [Hdec Hprag Hmaxh Hcidmax].
    induction l as [|[c d] t IH]; intros s m HR HI Hall Hsz; [exact HI|].
    assert (Hh63 : blen hb < two63).
    { pose proof (ResumeInv.inv_fits _ _ _ _ _ _ HI) as Hfit. unfold ResumeInv.fits, ResumeInv.hsz, ResumeInv.hdr, ld_size in Hfit.
      fold hb in Hfit. lia. }
    inversion Hall as [|? ? Hput Hall']; subst. cbn [put_many_loop m_put_loop blks_size fold_right fst snd] in *.
    fold (blks_size t) in Hsz.
    destruct (cid_parse c) as [p|] eqn:Hp; [|exact HI].
    destruct (put_one_sim o roots hb Hmaxh Hh63 s m c d p HR Hp Hput) as (s' & m' & r & H1 & H2 & HR' & Hpos).
    pose proof (abs_put_map s m c d p HR HI Hp) as Habs. rewrite H2 in Habs. cbn [fst] in Habs.
    assert (HI' : ResumeInv.Inv k o nilroots roots s' (m_blocks m')).
    { rewrite <- Habs. replace s' with (fst (put_one s c d p)) by (rewrite H1; reflexivity).
      apply (ResumeInv.put_one_inv hdrdec k o nilroots roots (ResumeInv.Build_params_ok _ _ _ _ Hdec Hprag Hmaxh Hcidmax)); [exact HI|exact Hp|].
      rewrite Habs. destruct HR' as ([_ Hp' _] & _). unfold ResumeInv.fits, ResumeInv.hsz, ResumeInv.hdr. fold hb.
      rewrite blen_app, blen_ld in Hp'. unfold sections in Hp'. unfold enc_sections. lia. }
    rewrite H1, H2. destruct r; try exact HI'. apply IH; try assumption. lia.
  Qed.

  Lemma session_step f s m op :
    front_of_kind f -> R o roots hb s m -> ResumeInv.Inv k o nilroots roots s (m_blocks m) ->
    op_ok o op -> session_op op = true ->
    51 + w_dpad o + w_ipad o + ws_pos s + op_size op < two63 ->
    ResumeInv.Inv k o nilroots roots (fst (impl_step hdrdec f s op)) (m_blocks (fst (spec_step f o roots m op))).
  Proof.
    intros Hf HR HI Hop Hs Hsz.
    destruct Hpar as [Hdec Hprag Hmaxh Hcidmax].
    assert (Hh63 : blen hb < two63).
    { pose proof (ResumeInv.inv_fits _ _ _ _ _ _ HI) as Hfit. unfold ResumeInv.fits, ResumeInv.hsz, ResumeInv.hdr, ld_size in Hfit.
      fold hb in Hfit. lia. }
    destruct op as [c d|l|c|c|c| | | | | | ]; try discriminate Hs;
      try (destruct f; cbn [impl_step spec_step fst]; exact HI).
    2:{ (* PutMany (blockstore variants; the storage front-end does not offer it) *)
      pose proof HR as (_ & _ & _ & Hcm & Hfm & _).
      rewrite (ResumeInv.inv_closed _ _ _ _ _ _ HI) in Hcm. rewrite (ResumeInv.inv_fin _ _ _ _ _ _ HI) in Hfm.
      destruct f as [|r0|]; cbn [impl_step spec_step fst]; try exact HI;
        unfold bs_put_many, m_put_many; rewrite (ResumeInv.inv_closed _ _ _ _ _ _ HI), (ResumeInv.inv_fin _ _ _ _ _ _ HI), <- Hcm, <- Hfm;
        apply put_loop_rinv; try assumption; cbn [op_size] in Hsz; exact Hsz. }
    (* Put *)
    rewrite (put_is_fe_put f s c d Hf (ResumeInv.inv_kind _ _ _ _ _ _ HI)).
    destruct (step_sim hdrdec o roots hb Hdec Hmaxh Hh63 f s m (OpPut c d) HR Hop) as (s' & m' & r & H1 & H2 & HR' & Hpos).
    { unfold StoreSpecFacts.fits. unfold two63, two64 in *. lia. }
    rewrite H2. cbn [fst].
    (* the stored list C12's abs_put computes is the map's *)
    assert (Habs : ResumeInv.abs_put o nilroots roots (m_blocks m) (c, d) = m_blocks m').
    { pose proof HR as (HIm & _ & Hokm & Hcm & Hfm & _).
      rewrite (ResumeInv.inv_closed _ _ _ _ _ _ HI) in Hcm. rewrite (ResumeInv.inv_fin _ _ _ _ _ _ HI) in Hfm.
      unfold ResumeInv.abs_put. cbn [fst snd].
      assert (Hone : forall p, cid_parse c = Some p ->
                m_blocks (fst (m_put_one o m c d p)) =
                match should_put o (ResumeInv.idx_of nilroots roots (m_blocks m)) c p with Ok true => m_blocks m ++ [(c, d)] | _ => m_blocks m end).
      { intros p Hp. rewrite <- (ResumeInv.inv_idx _ _ _ _ _ _ HI).
        rewrite (should_put_spec o s hb (m_blocks m) c p HIm (R_parses o roots hb s m HR) Hp). unfold m_put_one.
        destruct (negb (w_storeid o) && is_identity p); [reflexivity|].
        destruct (w_maxcid o <? blen c); [reflexivity|].
        destruct (negb (w_dups o) && m_present o (m_blocks m) c); reflexivity. }
      destruct f as [|r0|]; cbn [spec_step] in H2.
      - unfold m_put_many in H2. rewrite <- Hcm, <- Hfm in H2. cbn [m_put_loop] in H2.
        destruct (cid_parse c) as [p|] eqn:Hp; [|inversion H2; reflexivity].
        specialize (Hone p eq_refl). destruct (m_put_one o m c d p) as [m1 r1]. cbn [fst] in Hone.
        destruct r1; inversion H2; subst; exact (eq_sym Hone).
      - unfold m_st_put in H2. destruct (cid_parse c) as [p|] eqn:Hp; [|inversion H2; reflexivity].
        rewrite <- Hcm, <- Hfm in H2. specialize (Hone p eq_refl). destruct (m_put_one o m c d p) as [m1 r1].
        inversion H2; subst. exact (eq_sym Hone).
      - unfold m_put_many in H2. rewrite <- Hcm, <- Hfm in H2. cbn [m_put_loop] in H2.
        destruct (cid_parse c) as [p|] eqn:Hp; [|inversion H2; reflexivity].
        specialize (Hone p eq_refl). destruct (m_put_one o m c d p) as [m1 r1]. cbn [fst] in Hone.
        destruct r1; inversion H2; subst; exact (eq_sym Hone). }
    rewrite <- Habs. apply (ResumeInv.fe_put_inv hdrdec k o nilroots roots (ResumeInv.Build_params_ok _ _ _ _ Hdec Hprag Hmaxh Hcidmax)); [exact HI|].
    (* size: the new payload is the writer position *)
    rewrite Habs. destruct HR' as ([_ Hp' _] & _). unfold ResumeInv.fits, ResumeInv.hsz, ResumeInv.hdr. fold hb.
    rewrite blen_app, blen_ld in Hp'. unfold sections in Hp'. unfold enc_sections.
    cbn [op_size] in *. lia.
  Qed.

  Lemma session_run f ops : forall s m,
    front_of_kind f -> R o roots hb s m -> ResumeInv.Inv k o nilroots roots s (m_blocks m) ->
    Forall (fun op => session_op op = true) ops -> Forall (op_ok o) ops ->
    51 + w_dpad o + w_ipad o + ws_pos s + ops_size ops < two63 ->
    R o roots hb (last (map fst (trace (impl_step hdrdec f) s ops)) s)
                 (last (map fst (trace (spec_step f o roots) m ops)) m) /\
    ResumeInv.Inv k o nilroots roots (last (map fst (trace (impl_step hdrdec f) s ops)) s)
                 (m_blocks (last (map fst (trace (spec_step f o roots) m ops)) m)).
  Proof.
    induction ops as [|op t IH]; intros s m Hf HR HI Hs Hok Hsz; [split; assumption|].
    inversion Hs as [|? ? Hs1 Hs']; inversion Hok as [|? ? Hok1 Hok']; subst.
    cbn [ops_size fold_right] in Hsz. fold (ops_size t) in Hsz.
    pose proof (session_step f s m op Hf HR HI Hok1 Hs1 ltac:(lia)) as HI'.
    destruct Hpar as [Hdec Hprag Hmaxh Hcidmax].
    assert (Hh63 : blen hb < two63).
    { pose proof (ResumeInv.inv_fits _ _ _ _ _ _ HI) as Hfit. unfold ResumeInv.fits, ResumeInv.hsz, ResumeInv.hdr, ld_size in Hfit.
      fold hb in Hfit. lia. }
    destruct (step_sim hdrdec o roots hb Hdec Hmaxh Hh63 f s m op HR Hok1) as (s' & m' & r & H1 & H2 & HR' & Hpos).
    { unfold StoreSpecFacts.fits. unfold two63, two64 in *. lia. }
    cbn [trace]. rewrite H1, H2 in *. cbn [fst map] in *. rewrite !last_cons_default.
    apply IH; try assumption. lia.
  Qed.

  (* (B) from an empty file: a session of Puts and queries, ended by Discard or Finalize; the file reopens,
     and the reopened store continues exactly as the reference map holding the session's blocks, with
     fresh flags -- for every continuation, lifecycle calls included *)
  Theorem refines_map_across_reopen f (c : cut) ops1 ops2 s0 :
    front_of_kind f -> ResumeInv.kind_ok k o ->
    open_new k o nilroots roots [] = Ok s0 ->
    Forall (fun op => session_op op = true) ops1 -> Forall (op_ok o) ops1 -> Forall (op_ok o) ops2 ->
    51 + w_dpad o + w_ipad o + ld_size (blen hb) + ops_size ops1 + ops_size ops2 < two63 ->
    let s1 := last (map fst (trace (impl_step hdrdec f) s0 ops1)) s0 in
    let m1 := last (map fst (trace (spec_step f o roots) m_empty ops1)) m_empty in
    exists s2, reopen hdrdec k o nilroots roots (ws_file (end_seg c s1)) = inl s2 /\
               outs (trace (impl_step hdrdec f) s2 ops2)
               = outs (trace (spec_step f o roots) (mkm (m_blocks m1) false false) ops2).
  Proof.
    intros Hf Hk Hopen Hs1 Hok1 Hok2 Hsz s1 m1.
    assert (Hfit0 : ResumeInv.fits o nilroots roots []).
    { unfold ResumeInv.fits, ResumeInv.hsz, ResumeInv.hdr. fold hb. cbn [enc_sections map concat]. rewrite blen_nil. lia. }
    rewrite (ResumeInv.open_new_eq k o nilroots roots Hk Hfit0) in Hopen. apply Ok_inj in Hopen. subst s0.
    pose proof (ResumeInv.open_state_inv k o nilroots roots Hfit0) as HI0.
    pose proof (R_of_resume_inv _ [] HI0 (Forall_nil _)) as HR0. change (mkm [] false false) with m_empty in HR0.
    destruct (session_run f ops1 _ m_empty Hf HR0 HI0 Hs1 Hok1) as (HR1 & HI1).
    { cbn [ResumeInv.open_state ws_pos]. unfold ResumeInv.hsz, ResumeInv.hdr. fold hb. lia. }
    fold s1 m1 in HR1, HI1.
    rewrite (ResumeInv.end_seg_file k o nilroots roots s1 (m_blocks m1) c HI1).
    pose proof HR1 as (HIm & _ & Hokm & _).
    apply refines_map_resumed; try assumption.
    - exact (ResumeInv.inv_fits _ _ _ _ _ _ HI1).
    - pose proof (ResumeInv.inv_fits _ _ _ _ _ _ HI1) as Hfit1.
      (* the payload so far is bounded by what ops1 put *)
      assert (Hp : blen (enc_sections (m_blocks m1)) <= ops_size ops1).
      { destruct HIm as [_ Hpos _]. rewrite blen_app, blen_ld in Hpos. fold (sections (m_blocks m1)) . unfold sections in Hpos.
        assert (G : forall ops s m, R o roots hb s m -> Forall (op_ok o) ops ->
                      StoreSpecFacts.fits o s (ops_size ops) ->
                      ws_pos (last (map fst (trace (impl_step hdrdec f) s ops)) s) <= ws_pos s + ops_size ops).
        { destruct Hpar as [Hdec Hprag Hmaxh Hcidmax].
          assert (Hh63 : blen hb < two63) by (unfold ResumeInv.fits, ResumeInv.hsz, ResumeInv.hdr, ld_size in Hfit0; fold hb in Hfit0; lia).
          induction ops as [|x t IH]; intros s m HRs Hall Hfit; [cbn; lia|].
          inversion Hall as [|? ? Hx Hall']; subst. cbn [ops_size fold_right] in *. fold (ops_size t) in *.
          destruct (step_sim hdrdec o roots hb Hdec Hmaxh Hh63 f s m x HRs Hx) as (sa & ma & ra & E1 & _ & HRa & Hpa).
          { unfold StoreSpecFacts.fits in *. lia. }
          cbn [trace]. rewrite E1. cbn [map fst]. rewrite last_cons_default.
          specialize (IH sa ma HRa Hall'). assert (StoreSpecFacts.fits o sa (ops_size t)) by (unfold StoreSpecFacts.fits in *; lia).
          specialize (IH H). lia. }
        specialize (G ops1 _ m_empty HR0 Hok1). fold s1 in G. cbn [ResumeInv.open_state ws_pos] in G.
        unfold ResumeInv.hsz, ResumeInv.hdr in G. fold hb in G. unfold enc_sections.
        assert (StoreSpecFacts.fits o (ResumeInv.open_state k o nilroots roots) (ops_size ops1)).
        { unfold StoreSpecFacts.fits. cbn [ResumeInv.open_state ws_pos]. unfold ResumeInv.hsz, ResumeInv.hdr. fold hb. unfold two63, two64 in *. lia. }
        specialize (G H). lia. }
      unfold two63, two64 in *. lia.
  Qed.
End Resumed.

(* the same with the parameter record of ResumeInv written out *)
Definition mk_params hdrdec o nilroots roots H1 H2 H3 H4 : ResumeInv.params_ok hdrdec o nilroots roots :=
  ResumeInv.Build_params_ok hdrdec o nilroots roots H1 H2 H3 H4.
Definition refines_map_resumed_x hdrdec k o nilroots roots H1 H2 H3 H4 :=
  refines_map_resumed hdrdec k o nilroots roots (mk_params hdrdec o nilroots roots H1 H2 H3 H4).
Definition refines_map_across_reopen_x hdrdec k o nilroots roots H1 H2 H3 H4 :=
  refines_map_across_reopen hdrdec k o nilroots roots (mk_params hdrdec o nilroots roots H1 H2 H3 H4).

(* ---- non-vacuity: StoreSpecExamples' store, a session, Finalize, reopen, and on ------------------------- *)
From GoCarProofs Require Import StoreSpecExamples.
Definition exr_ops1 : list sop := [OpPut ex_cA ex_data; OpHas ex_cA; OpPut ex_cI ex_digest; OpKeys].
Definition exr_ops2 : list sop := [OpHas ex_cI; OpPut ex_cA ex_data; OpPut ex_cX ex_data; OpGet ex_cX; OpKeys; OpFinalize; OpHas ex_cA].

Example C04_example_across_reopen :
  exists s2,
    reopen dec_header_canon KBlockstore ex_o false ex_roots
           (ws_file (end_seg CFinalize (last (map fst (trace (impl_step dec_header_canon FBs) ex_s0 exr_ops1)) ex_s0))) = inl s2 /\
    outs (trace (impl_step dec_header_canon FBs) s2 exr_ops2)
    = [OBool true; ONil; ONil; OBytes ex_data; OKeys [raw_cid ex_pA; raw_cid ex_pI; raw_cid ex_pX]; ONil; OErr EClosed].
Proof.
  destruct (refines_map_across_reopen_x dec_header_canon KBlockstore ex_o false ex_roots) with
    (f := FBs) (c := CFinalize) (ops1 := exr_ops1) (ops2 := exr_ops2) (s0 := ex_s0) as (s2 & H1 & H2).
  - apply hdr_canon_ok. exact ex_roots_ok.
  - exists []. reflexivity.
  - vm_compute. congruence.
  - vm_compute. congruence.
  - reflexivity.
  - reflexivity.
  - exact ex_open.
  - repeat constructor.
  - unfold exr_ops1. repeat (apply Forall_cons; [first [exact I | ex_put]|]). apply Forall_nil.
  - unfold exr_ops2. repeat (apply Forall_cons; [first [exact I | ex_put]|]). apply Forall_nil.
  - vm_compute. reflexivity.
  - exists s2. split; [exact H1|]. rewrite H2. vm_compute. reflexivity.
Qed.
