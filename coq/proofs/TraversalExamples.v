(* C15: the defect of the counting loader as it was (refuted / partial), and concrete
   non-trivial instances showing that the hypotheses of every C15 theorem are satisfiable.
   The instance is the "diamond with a repeated leaf" also replayed against the real code
   (corpus/C15). *)
From GoCar Require Import Bytes Varint Cid Header Frame V2Header Scan Index Traversal.
From GoCarProofs Require Import BytesFacts VarintFacts CidFacts HeaderFacts ScanFacts TraversalSpec TraversalV2 TraversalRoot.

(* CIDv1, identity multihash: 01 <codec> 00 <len> <digest> *)
Definition ex_root : bytes := [x01; x71; x00; x01; x72].          (* dag-cbor, digest "r" *)
Definition ex_mid : bytes := [x01; x71; x00; x01; x6d].           (* dag-cbor, digest "m" *)
Definition ex_leaf : bytes := [x01; x55; x00; x02; x61; x62].     (* raw, digest "ab" *)
Definition ex_rootd : bytes := [xa2; x61; x61; x00; x61; x62; x01].
Definition ex_midd : bytes := [xa1; x61; x78; x05].
Definition ex_leafd : bytes := [x61; x62].

Definition ld_of (c d : bytes) : load := mkload c d (blen d) true.
(* walk with link-visit-once off: root, leaf (via l0), mid, leaf again (via mid) *)
Definition ex_loads : list load :=
  [ld_of ex_root ex_rootd; ld_of ex_leaf ex_leafd; ld_of ex_mid ex_midd; ld_of ex_leaf ex_leafd].

Lemma ex_cid_ok_root : cid_bytes_ok ex_root.
Proof. exists (mkcid 1 113 0 [x72]). split; [right; cbn; unfold two63, max_int32; repeat split; lia|reflexivity]. Qed.
Lemma ex_cid_ok_mid : cid_bytes_ok ex_mid.
Proof. exists (mkcid 1 113 0 [x6d]). split; [right; cbn; unfold two63, max_int32; repeat split; lia|reflexivity]. Qed.
Lemma ex_cid_ok_leaf : cid_bytes_ok ex_leaf.
Proof. exists (mkcid 1 85 0 [x61; x62]). split; [right; cbn; unfold two63, max_int32; repeat split; lia|reflexivity]. Qed.

Example ex_loads_ok :
  Forall load_ok ex_loads /\ Forall reads_all ex_loads /\ has_repeat [] (blocks_of ex_loads) = true.
Proof.
  split; [|split; [|reflexivity]].
  - repeat constructor; cbn [l_cid ld_of]; auto using ex_cid_ok_root, ex_cid_ok_mid, ex_cid_ok_leaf.
  - repeat constructor.
Qed.

Example ex_first_occ :
  first_occ (blocks_of ex_loads) = [(ex_root, ex_rootd); (ex_leaf, ex_leafd); (ex_mid, ex_midd)].
Proof. reflexivity. Qed.

Definition ex_order (l : list (bytes * N)) : list (bytes * N) := rev l.   (* some map iteration order *)
Definition id_order (l : list (bytes * N)) : list (bytes * N) := l.

(* TraverseV1 on the instance: three sections, 3rd load of the leaf not written again *)
Example ex_traverse_v1 :
  traverse_v1 ex_order ex_root (mktrace ex_loads true)
  = (enc_payload [ex_root] [(ex_root, ex_rootd); (ex_leaf, ex_leafd); (ex_mid, ex_midd)], 59, None).
Proof. vm_compute. reflexivity. Qed.

Definition ex_opts : topts := mktopts 7 3 0.   (* paddings 7 / 3, default index codec *)

Example ex_selective_write_hyps :
  no_wrap (apply_opts ex_opts) (blen (enc_payload [ex_root] (first_occ (blocks_of ex_loads)))) = true
  /\ exists w, selective_write ex_order true ex_root ex_opts (mktrace ex_loads true) (mktrace ex_loads true) = Some w
               /\ w_err w = None /\ w_n w = blen (w_bytes w) /\ w_n w = 190.
Proof.
  split; [vm_compute; reflexivity|].
  eexists. split; [vm_compute; reflexivity|]. split; [reflexivity|]. split; vm_compute; reflexivity.
Qed.

Example ex_traverse_to_file :
  exists file, traverse_to_file ex_order ex_root ex_opts (mktrace ex_loads true) = (file, None)
               /\ blen file = 190
               /\ take 59 (drop 58 file) = enc_payload [ex_root] (first_occ (blocks_of ex_loads)).
Proof. eexists. split; [vm_compute; reflexivity|]. split; vm_compute; reflexivity. Qed.

Example ex_offset_impossible :
  snd (write_v2_header (mktopts (two64 - 1) 0 0) 59) = Some TOffsetImpossible.
Proof. apply write_v2_header_wraps; cbn [o_dpad]; unfold two64; lia. Qed.

(* ---- the loader as it was: refuted, and what did hold --------------------------------------------- *)
(* The witness is the load sequence recorded from the real code in corpus/C15/
   dup-loads-size-mismatch.case: a dag-cbor root {l0: leaf, l1: leaf} (sha2-256 CIDs) walked
   with AllowDuplicatePuts(true) opens root, leaf, leaf.  The unrepaired counting loader announces
   323 bytes, the teeing loader writes 254: WriteTo returns 305 = 51 + 254 and ErrSizeMismatch --
   exactly what the implementation did before the fix (header data size 0x143, count 0x131). *)
Definition wit_root : bytes := [x01; x71; x12; x20; x5f; x33; x7e; x80; x44; xdf; xc5; x6c; x83; x2f; x97; x4f; x93; x48; x0a; x84; xce; xed; x19; x7c; xbc; x57; xb8; x27; x01; x3b; x74; x74; x3a; x0c; x87; xdc].
Definition wit_c0 : bytes := [x01; x71; x12; x20; x5f; x33; x7e; x80; x44; xdf; xc5; x6c; x83; x2f; x97; x4f; x93; x48; x0a; x84; xce; xed; x19; x7c; xbc; x57; xb8; x27; x01; x3b; x74; x74; x3a; x0c; x87; xdc].
Definition wit_d0 : bytes := [xa2; x62; x6c; x30; xd8; x2a; x58; x25; x00; x01; x55; x12; x20; x2e; x65; xb9; xe1; x79; xb0; xa9; x12; x0e; xe2; x89; xca; x80; xbf; x4d; x28; x0e; x4c; x79; x5d; x60; xe0; xa8; xd4; x08; x85; xb0; x04; x9c; x91; x92; x0a; x62; x6c; x31; xd8; x2a; x58; x25; x00; x01; x55; x12; x20; x2e; x65; xb9; xe1; x79; xb0; xa9; x12; x0e; xe2; x89; xca; x80; xbf; x4d; x28; x0e; x4c; x79; x5d; x60; xe0; xa8; xd4; x08; x85; xb0; x04; x9c; x91; x92; x0a].
Definition wit_c1 : bytes := [x01; x55; x12; x20; x2e; x65; xb9; xe1; x79; xb0; xa9; x12; x0e; xe2; x89; xca; x80; xbf; x4d; x28; x0e; x4c; x79; x5d; x60; xe0; xa8; xd4; x08; x85; xb0; x04; x9c; x91; x92; x0a].
Definition wit_d1 : bytes := [x6c; x65; x61; x66; x20; x62; x6c; x6f; x63; x6b; x20; x73; x68; x61; x72; x65; x64; x20; x62; x79; x20; x74; x77; x6f; x20; x70; x61; x72; x65; x6e; x74; x73].
Definition wit_c2 : bytes := [x01; x55; x12; x20; x2e; x65; xb9; xe1; x79; xb0; xa9; x12; x0e; xe2; x89; xca; x80; xbf; x4d; x28; x0e; x4c; x79; x5d; x60; xe0; xa8; xd4; x08; x85; xb0; x04; x9c; x91; x92; x0a].
Definition wit_d2 : bytes := [x6c; x65; x61; x66; x20; x62; x6c; x6f; x63; x6b; x20; x73; x68; x61; x72; x65; x64; x20; x62; x79; x20; x74; x77; x6f; x20; x70; x61; x72; x65; x6e; x74; x73].
Definition wit_loads : list load := [ld_of wit_c0 wit_d0; ld_of wit_c1 wit_d1; ld_of wit_c2 wit_d2].

Lemma wit_cid_ok0 : cid_bytes_ok wit_c0.
Proof.
  exists (mkcid 1 113 18 (drop 4 wit_c0)). split; [|vm_compute; reflexivity].
  right. repeat split; vm_compute; try reflexivity; try discriminate.
Qed.
Lemma wit_cid_ok1 : cid_bytes_ok wit_c1.
Proof.
  exists (mkcid 1 85 18 (drop 4 wit_c1)). split; [|vm_compute; reflexivity].
  right. repeat split; vm_compute; try reflexivity; try discriminate.
Qed.

Example wit_loads_ok : Forall load_ok wit_loads /\ Forall reads_all wit_loads.
Proof.
  split.
  - repeat constructor; cbn [l_cid ld_of]; auto using wit_cid_ok0, wit_cid_ok1.
  - repeat constructor.
Qed.

Example wit_numbers :
  new_selective_writer false wit_root (mktrace wit_loads true) = Some 323
  /\ new_selective_writer true wit_root (mktrace wit_loads true) = Some 254
  /\ option_map (fun w => (w_n w, w_err w))
        (selective_write id_order false wit_root (mktopts 0 0 0) (mktrace wit_loads true) (mktrace wit_loads true))
     = Some (305, Some TSizeMismatch).
Proof. repeat split; vm_compute; reflexivity. Qed.

Theorem selective_write_unfixed_refuted :
  exists order root o ls w,
    Forall load_ok ls /\ Forall reads_all ls /\
    selective_write order false root o (mktrace ls true) (mktrace ls true) = Some w /\
    w_err w = Some TSizeMismatch.
Proof.
  exists id_order, wit_root, (mktopts 0 0 0), wit_loads. eexists.
  destruct wit_loads_ok as (H1 & H2).
  split; [exact H1|]. split; [exact H2|]. split; [vm_compute; reflexivity|reflexivity].
Qed.

(* executable guard: no CID is opened twice in the counting walk *)
Theorem selective_write_unfixed_partial order root o ls1 tr2 :
  has_repeat [] (blocks_of ls1) = false ->
  selective_write order false root o (mktrace ls1 true) tr2
  = selective_write order true root o (mktrace ls1 true) tr2.
Proof.
  intros H. unfold selective_write, new_selective_writer. cbn [t_ok t_loads].
  rewrite counting_unfixed_norepeat by exact H. reflexivity.
Qed.

Example ex_partial_guard : has_repeat [] (blocks_of [ld_of ex_root ex_rootd; ld_of ex_leaf ex_leafd]) = false.
Proof. reflexivity. Qed.

(* ---- root module instances ---------------------------------------------------------------------------- *)
Definition ex_store (c : bytes) : option bytes :=
  if bytes_eqb c ex_root then Some ex_rootd
  else if bytes_eqb c ex_leaf then Some ex_leafd
  else if bytes_eqb c ex_mid then Some ex_midd else None.

Example ex_store_agrees :
  Forall (fun b => ex_store (fst b) = Some (snd b)) (first_occ (blocks_of ex_loads)).
Proof. repeat constructor. Qed.

(* two callbacks registered with Write, the same two with Prepare (used by Dump) *)
Example ex_selective_car :
  exists out evs size,
    sc_write 2 [ex_root; ex_mid] (blocks_of ex_loads) true = (out, evs, true)
    /\ sc_prepare [ex_root; ex_mid] (blocks_of ex_loads) true = Some (size, [ex_root; ex_mid], [ex_root; ex_leaf; ex_mid])
    /\ sc_dump 2 ex_store [ex_root; ex_mid] [ex_root; ex_leaf; ex_mid] = (out, evs, true)
    /\ size = blen out /\ size = 68
    /\ map fst evs = [0; 1; 0; 1; 0; 1]%nat
    /\ map cb_off (reports 0 evs) = [36; 49; 58] /\ map cb_size (reports 0 evs) = [13; 9; 10]
    /\ map cb_off (reports 1 evs) = [36; 49; 58] /\ map cb_size (reports 1 evs) = [13; 9; 10].
Proof. do 3 eexists. repeat split; vm_compute; reflexivity. Qed.

(* three callbacks for Write, one for Prepare/Dump: callback 0 is told the same by both *)
Example ex_selective_car_3_1 :
  reports 0 (snd (fst (sc_dump 1 ex_store [ex_root; ex_mid] [ex_root; ex_leaf; ex_mid])))
  = reports 0 (snd (fst (sc_write 3 [ex_root; ex_mid] (blocks_of ex_loads) true)))
  /\ length (snd (fst (sc_write 3 [ex_root; ex_mid] (blocks_of ex_loads) true))) = 9%nat
  /\ snd (fst (sc_write 0 [ex_root; ex_mid] (blocks_of ex_loads) true)) = [].
Proof. repeat split; vm_compute; reflexivity. Qed.

Example ex_write_car :
  write_car None (blocks_of ex_loads) true
  = (ld (enc_header None 1) ++ enc_sections [(ex_root, ex_rootd); (ex_leaf, ex_leafd); (ex_mid, ex_midd)], true).
Proof. vm_compute. reflexivity. Qed.

(* hypotheses of C15_index_records_locate and C15_traverse_v1_reads_back are satisfiable *)
Example ex_index_record : In (ex_leaf, 40) (v1_recs ex_root ex_loads).
Proof. vm_compute. right. left. reflexivity. Qed.

Example ex_archive_ok :
  archive_ok (fun _ _ => None) dec_header_canon (mkropts false 33554432 8388608 true)
             [ex_root] (first_occ (blocks_of ex_loads)).
Proof.
  split.
  - apply hdr_good_canon. split; [|cbn; unfold two64; lia].
    constructor; [|constructor]. split; [exact ex_cid_ok_root|vm_compute; reflexivity].
  - split; [vm_compute; discriminate|]. split; [vm_compute; reflexivity|]. split.
    + rewrite ex_first_occ. repeat constructor; cbn [fst snd];
        auto using ex_cid_ok_root, ex_cid_ok_mid, ex_cid_ok_leaf; vm_compute; try reflexivity; discriminate.
    + cbn [o_trusted]. discriminate.
Qed.

(* two Dag entries sharing one cidSet: (root, narrow selector: opens root and leaf), then (mid, ...:
   opens mid and leaf again) -- the later entry contributes mid; nothing is written twice *)
Definition ex_dags : list (bytes * trace) :=
  [(ex_root, mktrace [ld_of ex_root ex_rootd; ld_of ex_leaf ex_leafd] true);
   (ex_mid, mktrace [ld_of ex_mid ex_midd; ld_of ex_leaf ex_leafd] true)].

Example ex_dags_hyps :
  Forall (fun d => t_ok (snd d) = true) ex_dags
  /\ Forall (fun d => exists x rest, blocks_of (t_loads (snd d)) = (fst d, x) :: rest) ex_dags.
Proof.
  split; [repeat constructor|].
  constructor; [cbn; do 2 eexists; reflexivity|]. constructor; [cbn; do 2 eexists; reflexivity|constructor].
Qed.

Example ex_dags_write :
  sc_write_dags 2 ex_dags = sc_write 2 [ex_root; ex_mid] (blocks_of ex_loads) true
  /\ sc_prepare_dags ex_dags = Some (68, [ex_root; ex_mid], [ex_root; ex_leaf; ex_mid])
  /\ sc_gets_dags ex_dags = [ex_root; ex_leaf; ex_mid; ex_leaf].
Proof. repeat split; vm_compute; reflexivity. Qed.

(* a failing second walk: Write keeps the prefix and reports the error, Prepare fails *)
Example ex_dags_failed :
  let ds := [(ex_root, mktrace [ld_of ex_root ex_rootd] true); (ex_mid, mktrace [] false); (ex_leaf, mktrace [ld_of ex_leaf ex_leafd] true)] in
  snd (sc_write_dags 1 ds) = false /\ sc_prepare_dags ds = None /\ sc_gets_dags ds = [ex_root].
Proof. repeat split; vm_compute; reflexivity. Qed.

(* paddings above the allocation limit (hypotheses of the wrap / panic statements are satisfiable):
   index padding 2^64-50 with an index: data offset 58 fits, index offset wraps, WriteTo panics after
   the payload; data padding 2^64-52: header out (index offset wrapped), then the panic *)
Example ex_index_offset_wraps :
  let o := mktopts 7 (two64 - 50) codec_mh_sorted in
  two64 <= 51 + o_dpad o + 0 + o_ipad o
  /\ w_err (write_to ex_order ex_root o 0 (mktrace ex_loads true)) = Some TPanic
  /\ blen (w_bytes (write_to ex_order ex_root o 0 (mktrace ex_loads true))) = 117
  /\ snd (write_v2_header (mktopts (two64 - 52) 0 codec_mh_sorted) 59) = Some TPanic
  /\ w_err (write_to ex_order ex_root (mktopts 7 (two64 - 100) codec_none) 0 (mktrace ex_loads true)) = None.
Proof. cbv zeta. split; [vm_compute; intro X; discriminate X|]. repeat split; vm_compute; reflexivity. Qed.

(* a history: SelectiveCar.Write into a destination that fails at its 4th Write call (short write:
   half of the leaf's CID is accepted), then the fault-free Write / Prepare of the same Dags *)
Example ex_history :
  fst (sc_history 6 true ex_dags 2 ex_dags)
  = ((take 53 (enc_payload [ex_root; ex_mid] [(ex_root, ex_rootd); (ex_leaf, ex_leafd)]), false),
     sc_write_dags 2 ex_dags)
  /\ snd (sc_history 6 true ex_dags 2 ex_dags) = Some (68, [ex_root; ex_mid], [ex_root; ex_leaf; ex_mid])
  /\ fault_write 99 true (hdr_chunks ex_rootd ++ flat_map sec_chunks [(ex_leaf, ex_leafd)])
     = (ld ex_rootd ++ enc_section ex_leaf ex_leafd, false).
Proof. repeat split; vm_compute; reflexivity. Qed.
