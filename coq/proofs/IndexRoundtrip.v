(* C11 round trip: index.ReadFrom (index.WriteTo i) = i for every well-formed index, the byte
   count the writers report equals the bytes written, and whatever ReadFrom accepts is itself
   well-formed (so it round-trips too). *)
From Coq Require Import Permutation Sorting.Sorted.
From GoCar Require Import Bytes Varint Cid Index.
From GoCarProofs Require Import BytesFacts VarintFacts IndexKv IndexSort IndexCompact.

(* ---- well-formed indexes (what Load produces and what Unmarshal accepts) ------------------- *)
Definition swi_wf (b : N * bytes) : Prop :=
  8 <= fst b /\ fst b <= max_width /\ blen (snd b) <= max_alloc.
Definition mwi_wf (m : mwi) : Prop :=
  kv_sorted m /\ Forall swi_wf m /\ N.of_nat (length m) < two31.
Definition mh_wf (m : mhidx) : Prop :=
  kv_sorted m /\ Forall (fun cm => fst cm < two64 /\ mwi_wf (snd cm)) m /\ N.of_nat (length m) < two31.
Definition idx_wf (i : index) : Prop :=
  match i with IdxSorted m => mwi_wf m | IdxMh m => mh_wf m end.

(* ---- little-endian fields ------------------------------------------------------------------ *)
Lemma le_field w n rest : n < 256 ^ N.of_nat w ->
  le_dec (take (N.of_nat w) (le_enc w n ++ rest)) = n /\ drop (N.of_nat w) (le_enc w n ++ rest) = rest.
Proof.
  intros H. rewrite <- (blen_le_enc w n). rewrite take_app, drop_app. split; [apply le_dec_enc; exact H|reflexivity].
Qed.

Lemma swi_unmarshal_marshal b rest : swi_wf b ->
  swi_unmarshal (swi_marshal b ++ rest) = Ok (b, rest).
Proof.
  destruct b as [w data]. intros (Hw1 & Hw2 & Hd). cbn [fst snd] in *.
  unfold swi_unmarshal, swi_marshal. cbn [fst snd]. rewrite <- !app_assoc.
  assert (H4 : w < 256 ^ N.of_nat 4) by (unfold max_width in Hw2; change (256 ^ N.of_nat 4) with 4294967296; lia).
  assert (H8 : blen data < 256 ^ N.of_nat 8)
    by (unfold max_alloc in Hd; change (256 ^ N.of_nat 8) with 18446744073709551616; lia).
  replace (blen (le_enc 4 w ++ le_enc 8 (blen data) ++ data ++ rest) <? 4) with false
    by (rewrite blen_app, blen_le_enc; lia).
  destruct (le_field 4 w (le_enc 8 (blen data) ++ data ++ rest) H4) as [E1 E2].
  change (N.of_nat 4) with 4 in E1, E2. rewrite E1, E2.
  replace (blen (le_enc 8 (blen data) ++ data ++ rest) <? 8) with false
    by (rewrite blen_app, blen_le_enc; lia).
  destruct (le_field 8 (blen data) (data ++ rest) H8) as [E3 E4].
  change (N.of_nat 8) with 8 in E3, E4. rewrite E3, E4.
  replace (w <? 8) with false by lia. replace (max_width <? w) with false by lia.
  replace (two63 <=? blen data) with false by (unfold two63, max_alloc in *; lia).
  replace ((0 <? blen data) && (blen (data ++ rest) =? 0)) with false by (rewrite blen_app; lia).
  replace (blen (data ++ rest) <? blen data) with false by (rewrite blen_app; lia).
  rewrite take_app, drop_app. reflexivity.
Qed.

Lemma kv_sorted_app_lt {A} (acc : list (N * A)) b bs :
  kv_sorted (acc ++ b :: bs) -> Forall (fun x => fst x < fst b) acc.
Proof.
  intros H. apply kv_sorted_app_inv in H. destruct H as (_ & _ & H).
  apply Forall_forall. intros x Hx. apply H; [exact Hx|left; reflexivity].
Qed.

Lemma swis_unmarshal_marshal bs : forall fuel acc rest,
  Forall swi_wf bs -> kv_sorted (acc ++ bs) -> (length bs < fuel)%nat ->
  swis_unmarshal fuel (N.of_nat (length bs)) (concat (map swi_marshal bs) ++ rest) acc
  = Ok (acc ++ bs, rest).
Proof.
  induction bs as [|b bs IH]; intros fuel acc rest Hwf Hs Hf; (destruct fuel as [|fuel]; [cbn in Hf; lia|]).
  - cbn [swis_unmarshal length]. change (N.of_nat 0 =? 0) with true. cbv iota. rewrite app_nil_r. reflexivity.
  - cbn [swis_unmarshal length map concat]. replace (N.of_nat (S (length bs)) =? 0) with false by lia.
    inversion Hwf as [|? ? Hb Hwf']; subst. rewrite <- app_assoc.
    rewrite swi_unmarshal_marshal by exact Hb.
    replace (N.of_nat (S (length bs)) - 1) with (N.of_nat (length bs)) by lia.
    destruct b as [w data]. cbn [fst snd].
    rewrite (kv_put_above w data acc) by (apply (kv_sorted_app_lt acc (w, data) bs Hs)).
    rewrite IH; [|exact Hwf'|rewrite <- app_assoc; exact Hs|cbn in Hf; lia].
    rewrite <- app_assoc. reflexivity.
Qed.

Lemma length_concat_swi bs : (length bs <= length (concat (map swi_marshal bs)))%nat.
Proof.
  induction bs as [|b bs IH]; cbn [map concat length]; [lia|]. rewrite app_length.
  unfold swi_marshal at 1. rewrite !app_length, !le_enc_length. lia.
Qed.

Theorem mwi_unmarshal_marshal m rest : mwi_wf m ->
  mwi_unmarshal (mwi_marshal m ++ rest) = Ok (m, rest).
Proof.
  intros (Hs & Hwf & Hlen). unfold mwi_unmarshal, mwi_marshal. rewrite <- app_assoc.
  replace (blen (le_enc 4 (N.of_nat (length m)) ++ concat (map swi_marshal m) ++ rest) <? 4) with false
    by (rewrite blen_app, blen_le_enc; lia).
  assert (H4 : N.of_nat (length m) < 256 ^ N.of_nat 4)
    by (unfold two31 in Hlen; change (256 ^ N.of_nat 4) with 4294967296; lia).
  destruct (le_field 4 _ (concat (map swi_marshal m) ++ rest) H4) as [E1 E2].
  change (N.of_nat 4) with 4 in E1, E2. rewrite E1, E2.
  replace (two31 <=? N.of_nat (length m)) with false by lia.
  rewrite (swis_unmarshal_marshal m _ [] rest Hwf Hs); [reflexivity|].
  rewrite !app_length, le_enc_length. pose proof (length_concat_swi m). lia.
Qed.

(* ---- multihash index ------------------------------------------------------------------------ *)
Definition mwci_marshal (cm : N * mwi) : bytes := le_enc 8 (fst cm) ++ mwi_marshal (snd cm).

Lemma mh_marshal_eq m :
  mh_marshal m = le_enc 4 (N.of_nat (length m)) ++ concat (map mwci_marshal m).
Proof. reflexivity. Qed.

Lemma mwcis_unmarshal_marshal cs : forall fuel acc rest,
  Forall (fun cm => fst cm < two64 /\ mwi_wf (snd cm)) cs -> kv_sorted (acc ++ cs) -> (length cs < fuel)%nat ->
  mwcis_unmarshal fuel (N.of_nat (length cs)) (concat (map mwci_marshal cs) ++ rest) acc
  = Ok (acc ++ cs, rest).
Proof.
  induction cs as [|c cs IH]; intros fuel acc rest Hwf Hs Hf; (destruct fuel as [|fuel]; [cbn in Hf; lia|]).
  - cbn [mwcis_unmarshal length]. change (N.of_nat 0 =? 0) with true. cbv iota. rewrite app_nil_r. reflexivity.
  - cbn [mwcis_unmarshal length map concat]. replace (N.of_nat (S (length cs)) =? 0) with false by lia.
    inversion Hwf as [|? ? [Hc Hm] Hwf']; subst. destruct c as [code w]. cbn [fst snd] in *.
    change (mwci_marshal (code, w)) with (le_enc 8 code ++ mwi_marshal w). rewrite <- !app_assoc.
    replace (blen (le_enc 8 code ++ mwi_marshal w ++ concat (map mwci_marshal cs) ++ rest) <? 8) with false
      by (rewrite blen_app, blen_le_enc; lia).
    assert (H8 : code < 256 ^ N.of_nat 8) by (unfold two64 in Hc; change (256 ^ N.of_nat 8) with 18446744073709551616; lia).
    destruct (le_field 8 code (mwi_marshal w ++ concat (map mwci_marshal cs) ++ rest) H8) as [E1 E2].
    change (N.of_nat 8) with 8 in E1, E2. rewrite E1, E2.
    rewrite mwi_unmarshal_marshal by exact Hm.
    replace (N.of_nat (S (length cs)) - 1) with (N.of_nat (length cs)) by lia.
    rewrite (kv_put_above code w acc) by (apply (kv_sorted_app_lt acc (code, w) cs Hs)).
    rewrite IH; [|exact Hwf'|rewrite <- app_assoc; exact Hs|cbn in Hf; lia].
    rewrite <- app_assoc. reflexivity.
Qed.

Lemma length_concat_mwci cs : (length cs <= length (concat (map mwci_marshal cs)))%nat.
Proof.
  induction cs as [|c cs IH]; cbn [map concat length]; [lia|]. rewrite app_length.
  unfold mwci_marshal at 1. rewrite !app_length, !le_enc_length. lia.
Qed.

Theorem mh_unmarshal_marshal m rest : mh_wf m ->
  mh_unmarshal (mh_marshal m ++ rest) = Ok (m, rest).
Proof.
  intros (Hs & Hwf & Hlen). unfold mh_unmarshal. rewrite mh_marshal_eq, <- app_assoc.
  replace (blen (le_enc 4 (N.of_nat (length m)) ++ concat (map mwci_marshal m) ++ rest) <? 4) with false
    by (rewrite blen_app, blen_le_enc; lia).
  assert (H4 : N.of_nat (length m) < 256 ^ N.of_nat 4)
    by (unfold two31 in Hlen; change (256 ^ N.of_nat 4) with 4294967296; lia).
  destruct (le_field 4 _ (concat (map mwci_marshal m) ++ rest) H4) as [E1 E2].
  change (N.of_nat 4) with 4 in E1, E2. rewrite E1, E2.
  replace (two31 <=? N.of_nat (length m)) with false by lia.
  rewrite (mwcis_unmarshal_marshal m _ [] rest Hwf Hs); [reflexivity|].
  rewrite !app_length, le_enc_length. pose proof (length_concat_mwci m). lia.
Qed.

(* ---- index.WriteTo / index.ReadFrom ----------------------------------------------------------- *)
Theorem idx_read_write i rest : idx_wf i -> idx_read (idx_write i ++ rest) = Ok (i, rest).
Proof.
  intros Hwf. unfold idx_read, idx_write. rewrite <- app_assoc.
  destruct i as [m|m]; cbn [idx_codec idx_marshal idx_wf] in *.
  - rewrite read_uv_put_uv by (unfold codec_sorted, two63; lia).
    change (codec_sorted =? codec_sorted) with true. cbv iota.
    rewrite mwi_unmarshal_marshal by exact Hwf. reflexivity.
  - rewrite read_uv_put_uv by (unfold codec_mh_sorted, two63; lia).
    change (codec_mh_sorted =? codec_sorted) with false.
    change (codec_mh_sorted =? codec_mh_sorted) with true. cbv iota.
    rewrite mh_unmarshal_marshal by exact Hwf. reflexivity.
Qed.

(* ---- the reported length ------------------------------------------------------------------------ *)
Lemma blen_swi_marshal b : blen (swi_marshal b) = swi_marshal_len b.
Proof. unfold swi_marshal, swi_marshal_len. rewrite !blen_app, !blen_le_enc. lia. Qed.

Lemma mwi_len_fold m : forall a,
  fold_left (fun l b => l + swi_marshal_len b) m a = a + blen (concat (map swi_marshal m)).
Proof.
  induction m as [|b m IH]; intros a; cbn [fold_left map concat]; [rewrite blen_nil; lia|].
  rewrite IH, blen_app, blen_swi_marshal. lia.
Qed.

Lemma blen_mwi_marshal m : blen (mwi_marshal m) = mwi_marshal_len m.
Proof.
  unfold mwi_marshal, mwi_marshal_len. rewrite mwi_len_fold, blen_app, blen_le_enc. lia.
Qed.

Lemma mh_len_fold m : forall a,
  fold_left (fun l cm => l + (8 + mwi_marshal_len (snd cm))) m a = a + blen (concat (map mwci_marshal m)).
Proof.
  induction m as [|c m IH]; intros a; cbn [fold_left map concat]; [rewrite blen_nil; lia|].
  rewrite IH, blen_app. unfold mwci_marshal at 2. rewrite blen_app, blen_le_enc, blen_mwi_marshal. lia.
Qed.

Lemma blen_mh_marshal m : blen (mh_marshal m) = mh_marshal_len m.
Proof.
  rewrite mh_marshal_eq. unfold mh_marshal_len. rewrite mh_len_fold, blen_app, blen_le_enc. lia.
Qed.

Theorem idx_write_len_correct i : idx_write_len i = blen (idx_write i).
Proof.
  unfold idx_write_len, idx_write. rewrite blen_app, blen_put_uv.
  destruct i; cbn [idx_marshal idx_marshal_len]; [rewrite blen_mwi_marshal|rewrite blen_mh_marshal]; reflexivity.
Qed.

(* ---- what Unmarshal accepts is well-formed ------------------------------------------------------- *)
Lemma swi_unmarshal_wf s b rest : swi_unmarshal s = Ok (b, rest) -> swi_wf b.
Proof.
  unfold swi_unmarshal. intros H.
  destruct (blen s <? 4); [discriminate|]. destruct (blen (drop 4 s) <? 8); [discriminate|].
  destruct (le_dec (take 4 s) <? 8) eqn:E1; [discriminate|].
  destruct (max_width <? le_dec (take 4 s)) eqn:E2; [discriminate|].
  destruct (two63 <=? le_dec (take 8 (drop 4 s))) eqn:E3; [discriminate|].
  destruct ((0 <? le_dec (take 8 (drop 4 s))) && (blen (drop 8 (drop 4 s)) =? 0)); [discriminate|].
  destruct (blen (drop 8 (drop 4 s)) <? le_dec (take 8 (drop 4 s))) eqn:E4; [discriminate|].
  inversion H; subst. unfold swi_wf. cbn [fst snd]. rewrite blen_take. unfold max_alloc, two63 in *. lia.
Qed.

Lemma kv_put_length {A} k (v : A) m : (length (kv_put k v m) <= S (length m))%nat.
Proof.
  induction m as [|[k0 v0] t IH]; cbn [kv_put length]; [lia|].
  destruct (k <? k0); [cbn [length]; lia|]. destruct (k =? k0); cbn [length]; lia.
Qed.

Lemma swis_unmarshal_wf fuel : forall count s acc m rest,
  swis_unmarshal fuel count s acc = Ok (m, rest) ->
  kv_sorted acc -> Forall swi_wf acc ->
  kv_sorted m /\ Forall swi_wf m /\ N.of_nat (length m) <= N.of_nat (length acc) + count.
Proof.
  induction fuel as [|fuel IH]; intros count s acc m rest H Hs Hwf; cbn [swis_unmarshal] in H; [discriminate|].
  destruct (count =? 0) eqn:E.
  - inversion H; subst. split; [exact Hs|]. split; [exact Hwf|lia].
  - destruct (swi_unmarshal s) as [[b r]|e] eqn:U; [|discriminate].
    pose proof (swi_unmarshal_wf _ _ _ U) as Hb.
    destruct (IH _ _ _ _ _ H) as (R1 & R2 & R3).
    + apply kv_put_sorted. exact Hs.
    + apply kv_put_forall; [destruct b; exact Hb|exact Hwf].
    + split; [exact R1|]. split; [exact R2|].
      pose proof (kv_put_length (fst b) (snd b) acc). lia.
Qed.

Lemma mwi_unmarshal_wf s m rest : mwi_unmarshal s = Ok (m, rest) -> mwi_wf m.
Proof.
  unfold mwi_unmarshal. intros H. destruct (blen s <? 4); [discriminate|].
  destruct (two31 <=? le_dec (take 4 s)) eqn:E; [discriminate|].
  destruct (swis_unmarshal_wf _ _ _ _ _ _ H I (Forall_nil _)) as (R1 & R2 & R3).
  split; [exact R1|]. split; [exact R2|]. cbn [length] in R3. lia.
Qed.

Lemma le_dec_bound bs : le_dec bs < 256 ^ blen bs.
Proof.
  induction bs as [|b t IH]; [cbn; lia|].
  cbn [le_dec]. rewrite blen_cons. pose proof (b2n_lt b).
  replace (1 + blen t) with (N.succ (blen t)) by lia. rewrite N.pow_succ_r'. lia.
Qed.

Lemma mwcis_unmarshal_wf fuel : forall count s acc m rest,
  mwcis_unmarshal fuel count s acc = Ok (m, rest) ->
  kv_sorted acc -> Forall (fun cm => fst cm < two64 /\ mwi_wf (snd cm)) acc ->
  kv_sorted m /\ Forall (fun cm => fst cm < two64 /\ mwi_wf (snd cm)) m /\
  N.of_nat (length m) <= N.of_nat (length acc) + count.
Proof.
  induction fuel as [|fuel IH]; intros count s acc m rest H Hs Hwf; cbn [mwcis_unmarshal] in H; [discriminate|].
  destruct (count =? 0) eqn:E.
  - inversion H; subst. split; [exact Hs|]. split; [exact Hwf|lia].
  - destruct (blen s <? 8) eqn:E8; [discriminate|].
    destruct (mwi_unmarshal (drop 8 s)) as [[w r]|e] eqn:U; [|discriminate].
    pose proof (mwi_unmarshal_wf _ _ _ U) as Hw.
    destruct (IH _ _ _ _ _ H) as (R1 & R2 & R3).
    + apply kv_put_sorted. exact Hs.
    + apply kv_put_forall; [|exact Hwf]. cbn [fst snd]. split; [|exact Hw].
      pose proof (le_dec_bound (take 8 s)) as Hb. rewrite blen_take in Hb.
      replace (N.min 8 (blen s)) with 8 in Hb by lia. exact Hb.
    + split; [exact R1|]. split; [exact R2|].
      pose proof (kv_put_length (le_dec (take 8 s)) w acc). lia.
Qed.

Lemma mh_unmarshal_wf s m rest : mh_unmarshal s = Ok (m, rest) -> mh_wf m.
Proof.
  unfold mh_unmarshal. intros H. destruct (blen s <? 4); [discriminate|].
  destruct (two31 <=? le_dec (take 4 s)) eqn:E; [discriminate|].
  destruct (mwcis_unmarshal_wf _ _ _ _ _ _ H I (Forall_nil _)) as (R1 & R2 & R3).
  split; [exact R1|]. split; [exact R2|]. cbn [length] in R3. lia.
Qed.

Theorem idx_read_wf s i rest : idx_read s = Ok (i, rest) -> idx_wf i.
Proof.
  unfold idx_read. intros H. destruct (read_uv s) as [codec r n| | | |]; try discriminate.
  destruct (codec =? codec_sorted).
  - destruct (mwi_unmarshal r) as [[m r']|e] eqn:U; [|discriminate]. inversion H; subst.
    apply (mwi_unmarshal_wf _ _ _ U).
  - destruct (codec =? codec_mh_sorted); [|discriminate].
    destruct (mh_unmarshal r) as [[m r']|e] eqn:U; [|discriminate]. inversion H; subst.
    apply (mh_unmarshal_wf _ _ _ U).
Qed.

(* whatever ReadFrom accepts round-trips exactly *)
Corollary idx_read_then_roundtrip s i rest rest' :
  idx_read s = Ok (i, rest) -> idx_read (idx_write i ++ rest') = Ok (i, rest').
Proof. intros H. apply idx_read_write. eapply idx_read_wf. exact H. Qed.
