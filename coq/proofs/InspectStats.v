(* C13, part 2: Inspect's running variables, folded over the scanned blocks, are the statistics
   [stats_of] computes from the block list. *)
From GoCar Require Import Bytes Varint Cid Header Frame V2Header Scan Inspect.
From GoCarProofs Require Import BytesFacts InspectFacts.

(* ---- simple fields ------------------------------------------------------------------------ *)
Lemma fold_count roots bs : forall a,
  a_count (fold_left (blk_step roots) bs a) = a_count a + N.of_nat (length bs).
Proof.
  induction bs as [|b bs IH]; intros a; cbn [fold_left length]; [lia|].
  rewrite IH. unfold blk_step, iacc_step.
  destruct (if a_present_count a <? N.of_nat (length roots) then _ else _). cbn [a_count]. lia.
Qed.

Lemma fold_codecs roots bs : forall a,
  a_codecs (fold_left (blk_step roots) bs a)
  = fold_left (fun m k => count_add k m) (map (fun b => c_codec (cid_parts (fst b))) bs) (a_codecs a).
Proof.
  induction bs as [|b bs IH]; intros a; cbn [fold_left map]; [reflexivity|].
  rewrite IH. unfold blk_step, iacc_step.
  destruct (if a_present_count a <? N.of_nat (length roots) then _ else _). reflexivity.
Qed.

Lemma fold_mhtypes roots bs : forall a,
  a_mhtypes (fold_left (blk_step roots) bs a)
  = fold_left (fun m k => count_add k m) (map (fun b => c_mhcode (cid_parts (fst b))) bs) (a_mhtypes a).
Proof.
  induction bs as [|b bs IH]; intros a; cbn [fold_left map]; [reflexivity|].
  rewrite IH. unfold blk_step, iacc_step.
  destruct (if a_present_count a <? N.of_nat (length roots) then _ else _). reflexivity.
Qed.

Lemma fold_tot_cid roots bs : forall a,
  a_tot_cid (fold_left (blk_step roots) bs a) = a_tot_cid a + list_sum (map (fun b => blen (fst b)) bs).
Proof.
  induction bs as [|b bs IH]; intros a; cbn [fold_left map list_sum]; [lia|].
  rewrite IH. unfold blk_step, iacc_step.
  destruct (if a_present_count a <? N.of_nat (length roots) then _ else _). cbn [a_tot_cid]. lia.
Qed.
Lemma fold_tot_blk roots bs : forall a,
  a_tot_blk (fold_left (blk_step roots) bs a) = a_tot_blk a + list_sum (map (fun b => blen (snd b)) bs).
Proof.
  induction bs as [|b bs IH]; intros a; cbn [fold_left map list_sum]; [lia|].
  rewrite IH. unfold blk_step, iacc_step.
  destruct (if a_present_count a <? N.of_nat (length roots) then _ else _). cbn [a_tot_blk]. lia.
Qed.

Lemma fold_max_cid roots bs : forall a,
  a_max_cid (fold_left (blk_step roots) bs a) = N.max (a_max_cid a) (list_max (map (fun b => blen (fst b)) bs)).
Proof.
  induction bs as [|b bs IH]; intros a; cbn [fold_left map list_max]; [lia|].
  rewrite IH. unfold blk_step, iacc_step.
  destruct (if a_present_count a <? N.of_nat (length roots) then _ else _). cbn [a_max_cid].
  destruct (a_max_cid a <? blen (fst b)) eqn:E; lia.
Qed.
Lemma fold_max_blk roots bs : forall a,
  a_max_blk (fold_left (blk_step roots) bs a) = N.max (a_max_blk a) (list_max (map (fun b => blen (snd b)) bs)).
Proof.
  induction bs as [|b bs IH]; intros a; cbn [fold_left map list_max]; [lia|].
  rewrite IH. unfold blk_step, iacc_step.
  destruct (if a_present_count a <? N.of_nat (length roots) then _ else _). cbn [a_max_blk].
  destruct (a_max_blk a <? blen (snd b)) eqn:E; lia.
Qed.

Lemma list_min_comm d x l : list_min (N.min x d) l = N.min x (list_min d l).
Proof. induction l as [|y l IH]; cbn [list_min]; [reflexivity|]. rewrite IH. lia. Qed.

Lemma fold_min_cid roots bs : forall a,
  a_min_cid (fold_left (blk_step roots) bs a) = list_min (a_min_cid a) (map (fun b => blen (fst b)) bs).
Proof.
  induction bs as [|b bs IH]; intros a; cbn [fold_left map list_min]; [reflexivity|].
  rewrite IH. unfold blk_step, iacc_step.
  destruct (if a_present_count a <? N.of_nat (length roots) then _ else _). cbn [a_min_cid].
  rewrite <- list_min_comm. f_equal. destruct (blen (fst b) <? a_min_cid a) eqn:E; lia.
Qed.
Lemma fold_min_blk roots bs : forall a,
  a_min_blk (fold_left (blk_step roots) bs a) = list_min (a_min_blk a) (map (fun b => blen (snd b)) bs).
Proof.
  induction bs as [|b bs IH]; intros a; cbn [fold_left map list_min]; [reflexivity|].
  rewrite IH. unfold blk_step, iacc_step.
  destruct (if a_present_count a <? N.of_nat (length roots) then _ else _). cbn [a_min_blk].
  rewrite <- list_min_comm. f_equal. destruct (blen (snd b) <? a_min_blk a) eqn:E; lia.
Qed.

(* the initial math.MaxUint64 disappears once there is an element below it *)
Lemma list_min_bounded M x t : x <= M -> Forall (fun y => y <= M) t ->
  N.min x (list_min M t) = list_min x t.
Proof.
  intros Hx Ht. revert x Hx. induction Ht as [|y t Hy Ht IH]; intros x Hx; cbn [list_min]; [lia|].
  rewrite <- (IH x Hx). lia.
Qed.

(* ---- roots present ------------------------------------------------------------------------ *)
Fixpoint cnt_true (l : list bool) : N :=
  match l with [] => 0 | b :: t => (if b then 1 else 0) + cnt_true t end.

Lemma cnt_true_le l : cnt_true l <= N.of_nat (length l).
Proof. induction l as [|b l IH]; cbn [cnt_true length]; [lia|]. destruct b; lia. Qed.

Lemma cnt_true_full l : (N.of_nat (length l) =? cnt_true l) = forallb (fun b => b) l.
Proof.
  induction l as [|b l IH]; [reflexivity|]. cbn [cnt_true length forallb].
  pose proof (cnt_true_le l). destruct b; cbn [andb].
  - rewrite <- IH. destruct (N.of_nat (length l) =? cnt_true l) eqn:E; lia.
  - lia.
Qed.

Lemma cnt_true_all_false {A} (l : list A) : cnt_true (map (fun _ => false) l) = 0.
Proof. induction l; cbn; [reflexivity|]. exact IHl. Qed.

(* mark_roots sets flag i to (flag i || c == roots[i]) and returns how many it newly set *)
Lemma mark_roots_spec c : forall roots present, length present = length roots ->
  fst (mark_roots c roots present)
  = map (fun rp => snd rp || bytes_eqb c (fst rp)) (combine roots present) /\
  cnt_true (fst (mark_roots c roots present)) = cnt_true present + snd (mark_roots c roots present).
Proof.
  induction roots as [|r roots IH]; intros present Hlen.
  - destruct present; [|discriminate]. cbn. split; [reflexivity|lia].
  - destruct present as [|p present]; [discriminate|]. cbn [mark_roots combine map fst snd].
    destruct (IH present ltac:(cbn in Hlen; lia)) as (H1 & H2).
    destruct (mark_roots c roots present) as [ps k]. cbn [fst snd] in *.
    destruct p; cbn [negb andb orb].
    + cbn [fst snd cnt_true]. rewrite H1. split; [reflexivity|]. rewrite <- H1, H2. lia.
    + destruct (bytes_eqb c r); cbn [fst snd cnt_true]; rewrite H1; (split; [reflexivity|]); rewrite <- H1, H2; lia.
Qed.

Definition seen (cs : list bytes) (r : bytes) : bool := existsb (fun c => bytes_eqb c r) cs.

Definition present_inv (roots : list bytes) (cs : list bytes) (a : iacc) : Prop :=
  a_present a = map (seen cs) roots /\ a_present_count a = cnt_true (a_present a).

Lemma combine_map_self {A B} (f : A -> B) l : combine l (map f l) = map (fun x => (x, f x)) l.
Proof. induction l; cbn; [reflexivity|]. f_equal. exact IHl. Qed.

Lemma seen_snoc cs c r : seen (cs ++ [c]) r = seen cs r || bytes_eqb c r.
Proof. unfold seen. rewrite existsb_app. cbn. rewrite orb_false_r. reflexivity. Qed.

Lemma present_step roots cs a b : present_inv roots cs a ->
  present_inv roots (cs ++ [fst b]) (blk_step roots a b).
Proof.
  intros (Hp & Hc). unfold blk_step, iacc_step.
  destruct (a_present_count a <? N.of_nat (length roots)) eqn:Eg.
  - destruct (mark_roots_spec (fst b) roots (a_present a)) as (H1 & H2).
    { rewrite Hp, map_length. reflexivity. }
    destruct (mark_roots (fst b) roots (a_present a)) as [ps k]. cbn [fst snd] in *.
    unfold present_inv. cbn [a_present a_present_count]. split.
    + rewrite H1, Hp, combine_map_self, map_map. apply map_ext. intros r. cbn [fst snd].
      symmetry. apply seen_snoc.
    + rewrite H2, Hc. reflexivity.
  - (* every root already seen: the loop is skipped, and it would have changed nothing *)
    unfold present_inv. cbn [a_present a_present_count]. split; [|lia].
    rewrite Hp. apply map_ext_in. intros r Hr. rewrite seen_snoc.
    assert (Hall : forallb (fun x => x) (a_present a) = true).
    { rewrite <- cnt_true_full. pose proof (cnt_true_le (a_present a)) as Hle.
      assert (Hl : length (a_present a) = length roots) by (rewrite Hp, map_length; reflexivity).
      rewrite Hl in *. lia. }
    rewrite forallb_forall in Hall. rewrite (Hall (seen cs r)); [reflexivity|].
    rewrite Hp. apply in_map. exact Hr.
Qed.

Lemma present_fold roots bs : forall cs a, present_inv roots cs a ->
  present_inv roots (cs ++ map fst bs) (fold_left (blk_step roots) bs a).
Proof.
  induction bs as [|b bs IH]; intros cs a H; cbn [fold_left map]; [rewrite app_nil_r; exact H|].
  replace (cs ++ fst b :: map fst bs) with ((cs ++ [fst b]) ++ map fst bs) by (rewrite <- app_assoc; reflexivity).
  apply IH. apply present_step. exact H.
Qed.

Lemma present_inv0 roots : present_inv roots [] (iacc0 roots).
Proof.
  unfold present_inv, iacc0. cbn [a_present a_present_count]. split.
  - apply map_ext. reflexivity.
  - rewrite cnt_true_all_false. reflexivity.
Qed.

Lemma existsb_map {A B} (f : B -> bool) (g : A -> B) l : existsb f (map g l) = existsb (fun x => f (g x)) l.
Proof. induction l; cbn; [reflexivity|]. rewrite IHl. reflexivity. Qed.

Lemma forallb_map {A B} (f : B -> bool) (g : A -> B) l : forallb f (map g l) = forallb (fun x => f (g x)) l.
Proof. induction l; cbn; [reflexivity|]. rewrite IHl. reflexivity. Qed.

Lemma forallb_ext' {A} (f g : A -> bool) l : (forall x, f x = g x) -> forallb f l = forallb g l.
Proof. intros H. induction l; cbn; [reflexivity|]. rewrite H, IHl. reflexivity. Qed.

(* ---- all together --------------------------------------------------------------------------- *)
Theorem finish_stats_fold rd roots bs codec M :
  Forall (fun b => blen (fst b) + blen (snd b) <= M) bs -> M <= max_uint64 ->
  finish_stats rd roots (fold_left (blk_step roots) bs (iacc0 roots)) codec
  = stats_of (r_version rd) (r_hdr rd) roots bs codec.
Proof.
  intros Hsmall HM. unfold finish_stats, stats_of.
  set (F := fold_left (blk_step roots) bs (iacc0 roots)).
  assert (Hcount : a_count F = N.of_nat (length bs)) by (unfold F; rewrite fold_count; reflexivity).
  destruct (present_fold roots bs [] (iacc0 roots) (present_inv0 roots)) as (Hp & Hc). fold F in Hp, Hc.
  cbn [app] in Hp.
  assert (Hpres : (N.of_nat (length roots) =? a_present_count F) = roots_all_present roots bs).
  { rewrite Hc, Hp. rewrite <- (map_length (seen (map fst bs)) roots) at 1.
    rewrite cnt_true_full, forallb_map. unfold roots_all_present, seen.
    apply forallb_ext'. intros r. apply existsb_map. }
  rewrite Hcount, Hpres.
  unfold F. rewrite fold_codecs, fold_mhtypes, fold_tot_cid, fold_tot_blk, fold_max_cid, fold_max_blk,
    fold_min_cid, fold_min_blk.
  cbn [iacc0 a_codecs a_mhtypes a_tot_cid a_tot_blk a_max_cid a_max_blk a_min_cid a_min_blk].
  rewrite !N.add_0_l, !N.max_0_l.
  destruct bs as [|b bs]; [reflexivity|].
  replace (0 <? N.of_nat (length (b :: bs))) with true by (cbn [length]; lia).
  inversion Hsmall as [|? ? Hb Hbs]; subst.
  f_equal; try reflexivity.
  all: try (unfold list_avg; cbn [map length]; rewrite ?map_length; reflexivity).
  all: cbn [map list_min list_min0]; apply list_min_bounded; [lia|];
    apply Forall_map; eapply Forall_impl; [|exact Hbs]; cbn beta; intros; lia.
Qed.
