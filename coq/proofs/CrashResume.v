(* C06: Resume on the images a crash can leave before Finalize begins -- a file of complete sections
   followed by a torn section head; a torn open phase; the device log replays to the file. *)
From GoCar Require Import Bytes Varint Cid Header Frame V2Header Index Scan Store Crash.
From GoCarProofs Require Import BytesFacts VarintFacts CidFacts ResumeFacts ResumeInv ResumeReject CrashImage CrashScan.

Section R.
  Variable hdrdec : bytes -> option (list bytes * N).
  Variables (k : skind) (o : wopts) (nilroots : bool) (roots : list bytes).
  Hypothesis Hpar : params_ok hdrdec o nilroots roots.

  Notation live_file := (live_file o nilroots roots).
  Notation base_file := (base_file o nilroots roots).
  Notation fits := (fits o nilroots roots).
  Notation hdr := (hdr nilroots roots).
  Notation hsz := (hsz nilroots roots).

  (* Resume on a live file with arbitrary bytes behind the complete sections: everything up to
     the section loop goes as on the live file itself *)
  Lemma resume_live_tail st tail : Forall stored_ok st -> fits st ->
    resume hdrdec k true o roots (live_file st ++ tail) [] =
      let dv := mkdev (live_file st ++ tail) (if w_v1 o then [] else zero_hdr_log) [] in
      let view := ld hdr ++ enc_sections st ++ tail in
      match resume_scan (S (length view)) (w_zeof o) (data_base o) view hsz [] with
      | Err e => inr (e, dv)
      | Ok (ii, pos) => inl (mkws dv ii pos false false roots o k)
      end.
  Proof.
    intros Hc Hfit. pose proof (fits_mono _ _ _ _ Hfit) as Hfit0. pose proof (fits_nil_64 _ _ _ Hfit0) as Hf0.
    assert (H64 : 51 + w_dpad o < two64) by (unfold two63, two64 in *; lia).
    destruct Hpar as [Hhdr [r0 Hprag] Hmaxh Hcid].
    assert (Hp10 : 10 <= w_maxh o) by (pose proof (hdr_ge_10 nilroots roots); unfold ResumeInv.hdr in *; lia).
    unfold resume, ResumeInv.live_file, ResumeInv.base_file.
    destruct (w_v1 o) eqn:Ev.
    - cbn [app]. rewrite <- !app_assoc.
      rewrite (read_payload_header hdrdec o nilroots roots Hpar) by assumption.
      cbn [N.eqb Pos.eqb andb orb negb].
      rewrite data_base_v1 by exact Ev. rewrite drop_0.
      rewrite (read_payload_header hdrdec o nilroots roots Hpar) by assumption.
      rewrite header_matches_refl. cbn [negb].
      cbv beta iota zeta delta [d_file].
      rewrite drop_0.
      rewrite <- hdr_len_nil with (nilroots := nilroots). reflexivity.
    - unfold v2_prefix. rewrite pragma_is_ld at 1. rewrite <- !app_assoc.
      rewrite (read_header_ld hdrdec (w_maxh o) pragma_body r0 2) by
        (try exact Hprag; rewrite blen_pragma_body; try exact Hp10; unfold two63; lia).
      cbn [N.eqb Pos.eqb andb orb negb].
      rewrite data_base_v2 by assumption.
      rewrite (drop_app_len pragma_size pragma) by reflexivity.
      rewrite zerosN_add, zero_hdr_enc, <- !app_assoc.
      rewrite read_v2hdr_enc by (repeat split; reflexivity).
      cbn [h_doff]. replace (as_int64 0 <? 51)%Z with true by reflexivity. cbv iota.
      assert (Hpre0 : blen (pragma ++ enc_v2hdr (mkv2 0 0 0 0 0) ++ zerosN (w_dpad o)) = 51 + w_dpad o)
        by (rewrite !blen_app, blen_pragma, blen_enc_v2hdr, blen_zerosN; lia).
      replace (pragma ++ enc_v2hdr (mkv2 0 0 0 0 0) ++ zerosN (w_dpad o) ++ ld hdr ++ enc_sections st ++ tail)
        with ((pragma ++ enc_v2hdr (mkv2 0 0 0 0 0) ++ zerosN (w_dpad o)) ++ ld hdr ++ enc_sections st ++ tail)
        by (rewrite <- !app_assoc; reflexivity).
      rewrite (drop_app_len _ _ _ Hpre0).
      rewrite (read_payload_header hdrdec o nilroots roots Hpar) by assumption.
      rewrite header_matches_refl. cbn [negb].
      rewrite write_chunks_nofault by reflexivity.
      cbv beta iota zeta delta [d_file d_log negb].
      rewrite v2hdr_chunks_concat.
      rewrite <- !app_assoc.
      replace pragma_size with (blen pragma) by reflexivity.
      rewrite write_at_inside by reflexivity.
      replace (pragma ++ enc_v2hdr (mkv2 0 0 0 0 0) ++ zerosN (w_dpad o) ++ ld hdr ++ enc_sections st ++ tail)
        with ((pragma ++ enc_v2hdr (mkv2 0 0 0 0 0) ++ zerosN (w_dpad o)) ++ ld hdr ++ enc_sections st ++ tail)
        by (rewrite <- !app_assoc; reflexivity).
      rewrite (drop_app_len _ _ _ Hpre0).
      rewrite <- hdr_len_nil with (nilroots := nilroots).
      rewrite app_nil_r. reflexivity.
  Qed.

  (* complete sections followed by a torn section head: refused, file bytes unchanged *)
  Lemma resume_torn_head st c d p i : Forall stored_ok st -> fits (st ++ [(c, d)]) ->
    cid_parse c = Some p -> 0 < i -> i < uv_size (blen c + blen d) + blen c ->
    exists e log, resume hdrdec k true o roots (live_file st ++ take i (enc_section c d)) [] =
                  inr (e, mkdev (live_file st ++ take i (enc_section c d)) log []).
  Proof.
    intros Hc Hfit Hp Hi0 Hi.
    assert (Hfit' : fits st).
    { unfold ResumeInv.fits in *. rewrite enc_sections_app, blen_app in Hfit. lia. }
    rewrite (resume_live_tail st _ Hc Hfit'). cbv zeta.
    set (tail := take i (enc_section c d)).
    set (view := ld hdr ++ enc_sections st ++ tail).
    pose proof (enc_sections_len st) as Hl.
    assert (Hlen : (length st <= length view)%nat).
    { unfold view. rewrite !app_length. unfold block in *. lia. }
    replace (S (length view)) with (length st + S (length view - length st))%nat by lia.
    replace hsz with (blen (ld hdr)) by (rewrite blen_ld_eq; reflexivity).
    unfold view. rewrite resume_scan_sections_tail; [|exact Hc|].
    2:{ unfold ResumeInv.fits in Hfit'. rewrite blen_ld_eq. fold hsz.
        destruct (w_v1 o) eqn:Ev; [rewrite data_base_v1 by exact Ev; lia|].
        rewrite data_base_v2 by (try exact Ev; unfold two63, two64 in *; lia). lia. }
    assert (Hsz : blen c + blen d < two63).
    { unfold ResumeInv.fits in Hfit. rewrite enc_sections_app, blen_app in Hfit.
      cbn [enc_sections map concat fst snd] in Hfit. rewrite app_nil_r, blen_enc_section_eq in Hfit.
      unfold section_size, ld_size in Hfit. lia. }
    destruct (resume_scan_torn_head (w_zeof o) (data_base o) (length (ld hdr ++ enc_sections st ++ tail) - length st)
                (ld hdr ++ enc_sections st ++ tail) (blen (ld hdr) + blen (enc_sections st))
                (ii_load (records_from (blen (ld hdr)) st) []) c d p i Hp Hsz Hi0 Hi) as (e & He).
    { rewrite app_assoc. rewrite <- blen_app. rewrite drop_app. reflexivity. }
    rewrite He. eexists. eexists. reflexivity.
  Qed.

  (* ---- torn open phase: a proper prefix of the file a fresh open writes is refused by the checks -- *)
  Lemma checks_torn_open m : fits [] -> m < blen base_file ->
    exists e, resume_checks hdrdec true o roots (take m base_file) = Err e.
  Proof.
    intros Hfit0 Hm. pose proof (fits_nil_64 _ _ _ Hfit0) as Hf0.
    assert (H64 : 51 + w_dpad o < two64) by (unfold two63, two64 in *; lia).
    pose proof (hdr_lt63 o nilroots roots Hfit0) as H63.
    destruct Hpar as [Hhdr [r0 Hprag] Hmaxh Hcid].
    assert (Hp10 : 10 <= w_maxh o) by (pose proof (hdr_ge_10 nilroots roots); unfold ResumeInv.hdr in *; lia).
    unfold resume_checks. unfold ResumeInv.base_file in *. destruct (w_v1 o) eqn:Ev.
    - cbn [app] in *. destruct (read_header_torn hdrdec (w_maxh o) hdr m H63 Hm) as (e & He).
      exists e. rewrite He. reflexivity.
    - unfold v2_prefix in *. rewrite <- app_assoc in *. rewrite !blen_app, blen_pragma, blen_zerosN in Hm.
      destruct (m <? 11) eqn:E11.
      + (* inside the pragma *)
        destruct (read_header_torn hdrdec (w_maxh o) pragma_body m) as (e & He);
          [rewrite blen_pragma_body; unfold two63; lia|rewrite <- pragma_is_ld, blen_pragma; lia|].
        exists e.
        rewrite take_app_le by (rewrite blen_pragma; lia).
        rewrite pragma_is_ld.
        rewrite He. reflexivity.
      + assert (Hld : 1 <= blen (ld hdr)).
        { rewrite blen_ld_eq. unfold ld_size. pose proof (uv_size_pos (blen hdr)). lia. }
        destruct (read_header_torn hdrdec (w_maxh o) hdr (m - (51 + w_dpad o)) H63) as (e & He); [lia|].
        eexists.
        rewrite take_app_ge by (rewrite blen_pragma; lia). rewrite blen_pragma.
        rewrite pragma_is_ld at 1.
        rewrite (read_header_ld hdrdec (w_maxh o) pragma_body r0 2) by
          (try exact Hprag; rewrite blen_pragma_body; try exact Hp10; unfold two63; lia).
        cbn [N.eqb Pos.eqb andb orb negb].
        rewrite (drop_app_len pragma_size pragma) by reflexivity.
        rewrite data_base_v2 by assumption.
        (* the CARv2 header area is zero or short: not a header *)
        assert (Hprobe : exists e', read_v2hdr (take (m - 11) (zerosN (40 + w_dpad o) ++ ld hdr)) = Err e').
        { destruct (m - 11 <? 40) eqn:E40.
          - unfold read_v2hdr. rewrite blen_take, blen_app, blen_zerosN.
            destruct (N.min (m - 11) (40 + w_dpad o + blen (ld hdr)) <? 16) eqn:E16; [eexists; reflexivity|].
            replace (N.min (m - 11) (40 + w_dpad o + blen (ld hdr)) <? 40) with true by lia.
            eexists; reflexivity.
          - rewrite zerosN_add, <- app_assoc. rewrite take_app_ge by (rewrite blen_zerosN; lia).
            rewrite zero_hdr_enc. rewrite read_v2hdr_enc by (repeat split; reflexivity).
            eexists; reflexivity. }
        destruct Hprobe as (e' & ->).
        (* the inner header is missing or cut *)
        replace (drop (51 + w_dpad o) (pragma ++ take (m - 11) (zerosN (40 + w_dpad o) ++ ld hdr)))
          with (take (m - (51 + w_dpad o)) (ld hdr)).
        * rewrite He. reflexivity.
        * rewrite drop_app_ge by (rewrite blen_pragma; lia). rewrite blen_pragma.
          replace (51 + w_dpad o - 11) with (40 + w_dpad o) by lia.
          destruct (m - 11 <=? 40 + w_dpad o) eqn:Ez.
          -- rewrite take_app_le by (rewrite blen_zerosN; lia).
             rewrite drop_ge by (rewrite blen_take, blen_zerosN; lia).
             replace (m - (51 + w_dpad o)) with 0 by lia. rewrite take_0. reflexivity.
          -- rewrite take_app_ge by (rewrite blen_zerosN; lia). rewrite blen_zerosN.
             rewrite drop_app_len by apply blen_zerosN. f_equal. lia.
  Qed.
End R.

(* ---- the device log replays to the file ------------------------------------------------------------ *)
Definition dev_ok (f0 : bytes) (dv : dev) : Prop := replay f0 (writes_of dv) = d_file dv.

Lemma dev_ok_init f faults : dev_ok f (mkdev f [] faults).
Proof. reflexivity. Qed.

Lemma dev_ok_step f0 dv w : dev_ok f0 dv ->
  dev_ok f0 (mkdev (apply_wr (d_file dv) w) (w :: d_log dv) (d_faults dv)).
Proof.
  unfold dev_ok, writes_of. cbn [d_log d_file rev]. intros H. rewrite replay_app, H. reflexivity.
Qed.

Lemma dev_ok_write f0 dv off d : dev_ok f0 dv -> dev_ok f0 (fst (fst (dev_write dv off d))).
Proof.
  intros H. unfold dev_write. destruct (d_faults dv) as [|[kk|] rest]; cbn [fst];
    unfold dev_ok, writes_of in *; cbn [d_log d_file rev]; rewrite replay_app, H; reflexivity.
Qed.

Lemma dev_ok_chunks chunks : forall f0 dv abs, dev_ok f0 dv -> dev_ok f0 (fst (fst (write_chunks dv abs chunks))).
Proof.
  induction chunks as [|c t IH]; intros f0 dv abs H; cbn [write_chunks]; [exact H|].
  pose proof (dev_ok_write f0 dv abs c H) as H1.
  destruct (dev_write dv abs c) as [[dv' n] [|]]; cbn [fst] in *; [apply IH; exact H1|exact H1].
Qed.

Lemma dev_ok_truncate f0 dv n : dev_ok f0 dv -> dev_ok f0 (dev_truncate dv n).
Proof. intros H. unfold dev_truncate. apply (dev_ok_step f0 dv (Trunc n) H). Qed.

(* whatever Resume returns, its device's log replays the given file into the device's file *)
Lemma resume_dev_ok hdrdec k ct o roots file faults s :
  resume hdrdec k ct o roots file faults = inl s -> dev_ok file (ws_dev s).
Proof.
  unfold resume.
  destruct (read_header hdrdec (w_maxh o) file) as [[[[r ver] rest] n]|e0]; [|discriminate].
  destruct (negb (((ver =? 1) && w_v1 o) || ((ver =? 2) && negb (w_v1 o)))); [discriminate|].
  destruct (if w_v1 o then Ok None
            else if negb ct then Err EOther
            else match read_v2hdr (drop pragma_size file) with
                 | Ok (h, _) => if negb (h_doff h =? data_base o) then Err EOther else Ok (Some h)
                 | Err _ => Ok None
                 end) as [hin|e1]; [|discriminate].
  destruct (read_header hdrdec (w_maxh o) (drop (data_base o) file)) as [[[[hroots hver] rest2] n2]|e2]; [|discriminate].
  destruct (negb (header_matches hroots hver roots)); [discriminate|].
  set (dv0 := mkdev file [] faults).
  set (dv1 := match hin with Some h => dev_truncate dv0 (wrap64 (h_doff h + h_dsize h)) | None => dv0 end).
  assert (H1 : dev_ok file dv1).
  { unfold dv1. destruct hin; [apply dev_ok_truncate|]; apply dev_ok_init. }
  destruct (w_v1 o).
  - cbn [negb].
    destruct (resume_scan _ _ _ _ _ _) as [[ii pos]|e]; [|discriminate].
    intros H. injection H as <-. exact H1.
  - pose proof (dev_ok_chunks (v2hdr_chunks (mkv2 0 0 0 0 0)) file dv1 pragma_size H1) as H2.
    destruct (write_chunks dv1 pragma_size (v2hdr_chunks (mkv2 0 0 0 0 0))) as [[d n3] ok]. cbn [fst] in H2.
    destruct (negb ok); [discriminate|].
    destruct (resume_scan _ _ _ _ _ _) as [[ii pos]|e]; [|discriminate].
    intros H. injection H as <-. exact H2.
Qed.
