(* C05 well-formedness: the reference decoder reads a constructed payload back, the index written by
   Finalize reads back and resolves exactly the sections, hence wf_parse of the layout returns the
   roots and the stored blocks. *)
From Coq Require Import Sorting.Sorted Sorting.Permutation.
From GoCar Require Import Bytes Varint Cid Header Frame V2Header Scan Index Store Wf.
From GoCarProofs Require Import BytesFacts VarintFacts CidFacts HeaderFacts ScanFacts
     FinalBytes FinalOrder FinalIndex FinalStore FinalCid.
From GoCarProofs Require IndexSort IndexLoad IndexRoundtrip.

(* a block a writer can be handed: the key is a CID as go-cid produces it, and LdWrite can frame
   the section (its length varint buffer has 8 bytes) *)
Definition two56 : N := 72057594037927936.
Definition put_ok (b : block) : Prop :=
  cid_bytes_ok (fst b) /\ blen (fst b) + blen (snd b) < two56.

Lemma put_ok_frameable b : put_ok b -> frameable b.
Proof. intros [_ H]. exact H. Qed.

(* ---- sections of a constructed payload ----------------------------------------------------------- *)
Fixpoint secs_of (pos : N) (bs : list block) : list rsec :=
  match bs with
  | [] => []
  | (c, d) :: t =>
    match cid_parse c with
    | Some p => mksec c p d pos :: secs_of (pos + section_size c d) t
    | None => secs_of (pos + section_size c d) t
    end
  end.

Definition rec_of_sec (s : rsec) : irec := mkrec (s_cid s) (c_mhcode (s_p s)) (c_digest (s_p s)) (s_off s).

Lemma records_from_secs bs : forall pos, records_from pos bs = map rec_of_sec (secs_of pos bs).
Proof.
  induction bs as [|[c d] t IH]; intros pos; cbn [records_from secs_of map]; [reflexivity|].
  destruct (cid_parse c); cbn [map]; rewrite IH; reflexivity.
Qed.

Lemma secs_of_blocks bs : Forall put_ok bs -> forall pos, map sec_block (secs_of pos bs) = bs.
Proof.
  induction 1 as [|[c d] t [Hc _] _ IH]; intros pos; cbn [secs_of map]; [reflexivity|].
  cbn [fst] in Hc. destruct (cid_from_bytes_ok c [] Hc) as (p & _ & Hp). rewrite Hp. cbn [map sec_block s_cid s_data].
  rewrite IH. reflexivity.
Qed.

Lemma secs_of_length bs : Forall put_ok bs -> forall pos, length (secs_of pos bs) = length bs.
Proof. intros H pos. rewrite <- (secs_of_blocks bs H pos) at 2. rewrite map_length. reflexivity. Qed.

Lemma ref_sections_S f s pos : s <> [] ->
  ref_sections (S f) s pos =
  match read_uv s with
  | VOk len rest n =>
    if blen rest <? len then None else
    let buf := take len rest in
    match cid_from_bytes buf with
    | None => None
    | Some (k, p) =>
      match ref_sections f (drop len rest) (pos + n + len) with
      | Some l => Some (mksec (take k buf) p (drop k buf) pos :: l)
      | None => None
      end
    end
  | _ => None
  end.
Proof. destruct s; [congruence|reflexivity]. Qed.

Lemma enc_section_nonempty c d rest : enc_section c d ++ rest <> [].
Proof.
  unfold enc_section. intros H. apply app_eq_nil in H. destruct H as [H _].
  apply app_eq_nil in H. destruct H as [H _]. exact (put_uv_nonempty _ H).
Qed.

Lemma ref_sections_enc bs : Forall put_ok bs -> forall fuel pos, (length bs < fuel)%nat ->
  ref_sections fuel (enc_sections bs) pos = Some (secs_of pos bs).
Proof.
  induction 1 as [|[c d] t [Hc Hlen] _ IH]; intros fuel pos Hfuel; (destruct fuel as [|f]; [cbn in Hfuel; lia|]).
  - reflexivity.
  - cbn [fst snd] in *. unfold enc_sections. cbn [map concat fst snd]. fold (enc_sections t).
    rewrite ref_sections_S by apply enc_section_nonempty.
    unfold enc_section. rewrite <- !app_assoc.
    assert (H63 : blen c + blen d < two63) by (unfold two56, two63 in *; lia).
    rewrite read_uv_put_uv by exact H63.
    replace (blen (c ++ d ++ enc_sections t) <? blen c + blen d) with false by (rewrite !blen_app; lia).
    assert (Htake : take (blen c + blen d) (c ++ d ++ enc_sections t) = c ++ d).
    { rewrite app_assoc. rewrite <- blen_app. apply take_app. }
    assert (Hdrop : drop (blen c + blen d) (c ++ d ++ enc_sections t) = enc_sections t).
    { rewrite app_assoc. rewrite <- blen_app. apply drop_app. }
    cbv zeta. rewrite Htake, Hdrop.
    destruct (cid_from_bytes_ok c d Hc) as (p & Hfb & Hp). rewrite Hfb.
    rewrite take_app, drop_app.
    replace (pos + uv_size (blen c + blen d) + (blen c + blen d)) with (pos + section_size c d)
      by (unfold section_size, ld_size; lia).
    rewrite IH by (cbn [length] in Hfuel; lia).
    cbn [secs_of]. rewrite Hp. reflexivity.
Qed.

(* the root lists a header can carry and the canonical decoder reads back *)
Definition roots_of (ro : option (list bytes)) : list bytes := match ro with Some r => r | None => [] end.
Definition ro_ok (ro : option (list bytes)) : Prop :=
  roots_ok (roots_of ro) /\ blen (enc_header ro 1) < two63.

Lemma dec_header_ro ro : ro_ok ro -> dec_header_canon (enc_header ro 1) = Some (roots_of ro, 1).
Proof.
  intros [Hr _]. destruct ro as [r|]; cbn [roots_of] in *.
  - apply dec_header_enc; [exact Hr|unfold two64; lia].
  - apply dec_header_enc_nil. unfold two64; lia.
Qed.

Theorem ref_scan_payload ro bs : ro_ok ro -> Forall put_ok bs ->
  ref_scan (payload_opt ro bs) = Some (roots_of ro, secs_of (hdr_len ro) bs).
Proof.
  intros Hro Hbs. unfold ref_scan, payload_opt, ld. rewrite <- app_assoc.
  rewrite read_uv_put_uv by apply Hro.
  replace (blen (enc_header ro 1 ++ enc_sections bs) <? blen (enc_header ro 1)) with false by (rewrite blen_app; lia).
  rewrite take_app, drop_app, (dec_header_ro ro Hro). cbn [N.eqb Pos.eqb].
  replace (uv_size (blen (enc_header ro 1)) + blen (enc_header ro 1)) with (hdr_len ro) by (unfold hdr_len, ld_size; lia).
  rewrite ref_sections_enc; [reflexivity|exact Hbs|].
  rewrite app_length. pose proof (enc_sections_length (fun _ _ => None) (fun _ => None) bs). lia.
Qed.

(* ---- the CARv2 header fields read back ------------------------------------------------------------------ *)
Lemma v2hdr_fields h rest :
  h_hi h < two64 -> h_lo h < two64 -> h_doff h < two64 -> h_dsize h < two64 -> h_ioff h < two64 ->
  let s := enc_v2hdr h ++ rest in
  le_dec (take 8 s) = h_hi h /\ le_dec (take 8 (drop 8 s)) = h_lo h /\
  le_dec (take 8 (drop 16 s)) = h_doff h /\ le_dec (take 8 (drop 24 s)) = h_dsize h /\
  le_dec (take 8 (drop 32 s)) = h_ioff h.
Proof.
  intros H1 H2 H3 H4 H5 s. unfold s, enc_v2hdr. rewrite <- !app_assoc.
  assert (E : forall n X, n < two64 -> le_dec (take 8 (le_enc 8 n ++ X)) = n /\ drop 8 (le_enc 8 n ++ X) = X).
  { intros n X Hn. apply (le_dec_enc_take 8 n X). exact Hn. }
  set (X4 := le_enc 8 (h_ioff h) ++ rest).
  set (X3 := le_enc 8 (h_dsize h) ++ X4).
  set (X2 := le_enc 8 (h_doff h) ++ X3).
  set (X1 := le_enc 8 (h_lo h) ++ X2).
  destruct (E (h_hi h) X1 H1) as [A1 D1]. destruct (E (h_lo h) X2 H2) as [A2 D2].
  destruct (E (h_doff h) X3 H3) as [A3 D3]. destruct (E (h_dsize h) X4 H4) as [A4 D4].
  destruct (E (h_ioff h) rest H5) as [A5 D5].
  assert (D16 : drop 16 (le_enc 8 (h_hi h) ++ X1) = X2) by (rewrite <- (drop_drop 8 8), D1; exact D2).
  assert (D24 : drop 24 (le_enc 8 (h_hi h) ++ X1) = X3) by (rewrite <- (drop_drop 8 16), D16; exact D3).
  assert (D32 : drop 32 (le_enc 8 (h_hi h) ++ X1) = X4) by (rewrite <- (drop_drop 8 24), D24; exact D4).
  rewrite D1, D16, D24, D32. auto.
Qed.

Lemma all_zero_zerosN n : all_zero (zerosN n) = true.
Proof. unfold all_zero, zerosN. induction (N.to_nat n); cbn; [reflexivity|assumption]. Qed.

(* ---- what is stored ----------------------------------------------------------------------------------- *)
Lemma spec_batch_inv (Q : block -> Prop) stop o ro b :
  (forall x stored p, In x b -> cid_parse (fst x) = Some p ->
                      should_put o (idx_of ro stored) (fst x) p = Ok true -> Q x) ->
  forall stored, Forall Q stored -> Forall Q (spec_batch stop o ro stored b).
Proof.
  induction b as [|x t IH]; intros HQ stored Hs; cbn [spec_batch]; [exact Hs|].
  assert (Hs' : Forall Q (fst (spec_put o ro stored x))).
  { unfold spec_put. destruct (cid_parse (fst x)) as [p|] eqn:Hp; [|exact Hs].
    destruct (should_put o (idx_of ro stored) (fst x) p) as [[|]|e] eqn:E; cbn [fst]; try exact Hs.
    apply Forall_app. split; [exact Hs|]. constructor; [|constructor].
    apply (HQ x stored p); [left; reflexivity|exact Hp|exact E]. }
  destruct (spec_put o ro stored x) as [stored' refused]. cbn [fst] in Hs'.
  destruct (refused && stop); [exact Hs'|].
  apply IH; [|exact Hs']. intros y st p Hy. apply HQ. right. exact Hy.
Qed.

Lemma spec_stored_inv (Q : block -> Prop) k o ro h :
  (forall x stored p, In x (concat h) -> cid_parse (fst x) = Some p ->
                      should_put o (idx_of ro stored) (fst x) p = Ok true -> Q x) ->
  Forall Q (spec_stored k o ro h).
Proof.
  intros HQ. unfold spec_stored.
  assert (G : forall stored, Forall Q stored -> Forall Q (fold_left (spec_batch (stops k) o ro) h stored)).
  { revert HQ. induction h as [|b t IH]; intros HQ stored Hs; cbn [fold_left]; [exact Hs|].
    apply IH.
    - intros x st p Hx. apply HQ. cbn [concat]. apply in_or_app. right. exact Hx.
    - apply spec_batch_inv; [|exact Hs]. intros x st p Hx. apply HQ. cbn [concat]. apply in_or_app. left. exact Hx. }
  apply G. constructor.
Qed.

Lemma should_put_true o ii c p : should_put o ii c p = Ok true ->
  (w_storeid o || negb (is_identity p)) = true /\ blen c <= w_maxcid o.
Proof.
  unfold should_put. destruct (negb (w_storeid o) && is_identity p) eqn:E1; [discriminate|].
  destruct (w_maxcid o <? blen c) eqn:E2; [discriminate|]. intros _. split; [|lia].
  destruct (w_storeid o); [reflexivity|]. cbn in *. rewrite E1. reflexivity.
Qed.

Definition stored_ok (o : wopts) (b : block) : Prop :=
  put_ok b /\ blen (fst b) <= w_maxcid o /\
  forall p, cid_parse (fst b) = Some p -> (w_storeid o || negb (is_identity p)) = true.

Lemma spec_stored_ok k o ro h : Forall (Forall frameable) h -> Forall (stored_ok o) (spec_stored k o ro h).
Proof.
  intros Hh. apply spec_stored_inv. intros x stored p Hx Hp Hs.
  destruct (should_put_true _ _ _ _ Hs) as [H1 H2].
  split; [|split; [exact H2|]].
  - split; [exact (cid_parse_ok _ _ Hp)|].
    apply in_concat in Hx. destruct Hx as (b & Hb & Hxb). rewrite Forall_forall in Hh.
    specialize (Hh b Hb). rewrite Forall_forall in Hh. exact (Hh x Hxb).
  - intros p' Hp'. rewrite Hp in Hp'. inversion Hp'; subst. exact H1.
Qed.

(* ---- the index of the stored blocks --------------------------------------------------------------------- *)
Lemma cid_digest_le p : blen (c_digest p) <= blen (cid_enc p).
Proof.
  unfold cid_enc, mh_enc. destruct (c_ver p =? 0); rewrite !blen_app; lia.
Qed.

Lemma secs_of_props o bs : Forall (stored_ok o) bs -> forall pos,
  Forall (fun s => pos <= s_off s /\ s_off s < pos + blen (enc_sections bs) /\
                   blen (c_digest (s_p s)) <= w_maxcid o /\ c_mhcode (s_p s) < two63 /\
                   indexable (w_storeid o) s = true) (secs_of pos bs).
Proof.
  induction 1 as [|[c d] t (Hput & Hmax & Hid) _ IH]; intros pos; cbn [secs_of]; [constructor|].
  cbn [fst snd] in *. destruct Hput as [Hc Hlen]. cbn [fst snd] in *.
  destruct Hc as (q & Hq & Hce). assert (Hp : cid_parse c = Some q) by (rewrite Hce; apply cid_parse_enc; exact Hq).
  rewrite Hp.
  assert (Hsz : blen (enc_sections (((c, d) : block) :: t)) = section_size c d + blen (enc_sections t)).
  { unfold enc_sections. cbn [map concat fst snd]. rewrite blen_app, blen_enc_section. reflexivity. }
  assert (Hpos : 1 <= section_size c d).
  { unfold section_size, ld_size. pose proof (uv_size_pos (blen c + blen d)). lia. }
  constructor.
  - cbn [s_off s_p]. rewrite Hsz. split; [lia|]. split; [lia|]. split; [|split].
    + pose proof (cid_digest_le q) as Hdl. rewrite <- Hce in Hdl. lia.
    + destruct Hq as [(_ & _ & Hm & _)|(_ & _ & Hm & _)]; [rewrite Hm; unfold two63; lia|exact Hm].
    + unfold indexable. cbn [s_p]. apply Hid. exact Hp.
  - specialize (IH (pos + section_size c d)). rewrite Hsz. eapply Forall_impl; [|exact IH].
    intros s (H1 & H2 & H3). split; [lia|]. split; [lia|exact H3].
Qed.

Lemma forallb_perm {A} (f : A -> bool) l l' : Permutation l l' -> forallb f l' = true -> forallb f l = true.
Proof.
  intros Hp H. rewrite forallb_forall in *. intros x Hx. apply H. eapply Permutation_in; eassumption.
Qed.

Lemma filter_all {A} (f : A -> bool) l : Forall (fun x => f x = true) l -> filter f l = l.
Proof. induction 1 as [|x l Hx _ IH]; cbn [filter]; [reflexivity|]. rewrite Hx, IH. reflexivity. Qed.

(* ---- an index loaded from the records of the indexable sections resolves exactly those sections ----------
   General form: [recs] is any arrangement (insertion order, payload order, a Go map's iteration order)
   of one record per indexable section.  Lookups and the Marshal/Unmarshal round trip are C11's theorems. *)
Section IndexGen.
  Variables (storeid : bool) (codec : N) (secs : list rsec) (recs : list irec) (i0 fi : index).
  Hypothesis Hperm : Permutation recs (map rec_of_sec (filter (indexable storeid) secs)).
  Hypothesis Hok : Forall IndexLoad.rec_ok recs.
  Hypothesis Hnew : idx_new codec = Some i0.
  Hypothesis Hfi : fi = idx_load recs i0.
  Hypothesis Hsmall : blen (idx_write fi) < two63.
  Hypothesis Hcodes : codec = codec_mh_sorted -> N.of_nat (n_codes recs) < two31.

  Lemma g_offs_ok : offs_ok recs.
  Proof. unfold offs_ok. eapply Forall_impl; [|exact Hok]. intros r (H & _). exact H. Qed.

  Lemma g_codec_cases : (codec = codec_sorted /\ fi = IdxSorted (mwi_load recs [])) \/
                        (codec = codec_mh_sorted /\ fi = IdxMh (mh_load recs [])).
  Proof.
    pose proof Hnew as H'. unfold idx_new in H'. rewrite Hfi.
    destruct (codec =? codec_sorted) eqn:E1.
    - left. split; [lia|]. inversion H'. reflexivity.
    - destruct (codec =? codec_mh_sorted) eqn:E2; [|discriminate].
      right. split; [lia|]. inversion H'. reflexivity.
  Qed.

  (* all compacted records are inside the marshalled index, hence within one Go allocation *)
  Lemma g_recs_in_index : IndexLoad.recs_fit recs.
  Proof.
    unfold IndexLoad.recs_fit, max_alloc. pose proof Hsmall as Hsm. unfold idx_write in Hsm. rewrite blen_app in Hsm.
    destruct g_codec_cases as [[_ E]|[_ E]]; rewrite E in Hsm; cbn [idx_marshal] in Hsm.
    - pose proof (compact_le_mwi recs). unfold two63 in *. lia.
    - pose proof (compact_le_mh recs). unfold two63 in *. lia.
  Qed.

  Lemma g_index_good : IndexRoundtrip.idx_wf fi /\ idx_codec fi = codec.
  Proof.
    split.
    - rewrite Hfi.
      apply (IndexLoad.idx_load_fresh_wf sort_by_digest IndexSort.sort_by_digest_contract codec i0 recs Hnew Hok).
      split; [exact g_recs_in_index|]. exact Hcodes.
    - destruct g_codec_cases as [[Hc E]|[Hc E]]; rewrite E; cbn [idx_codec]; symmetry; exact Hc.
  Qed.

  Lemma g_entries_perm :
    Permutation (idx_entries fi)
                (map (fun r => ((if codec =? codec_sorted then None else Some (r_code r)), r_digest r, r_off r)) recs).
  Proof.
    pose proof g_offs_ok as Ho.
    destruct g_codec_cases as [[Hc E]|[Hc E]]; rewrite E; cbn [idx_entries]; rewrite Hc.
    - cbn [N.eqb codec_sorted Pos.eqb].
      eapply Permutation_trans; [apply Permutation_map; apply mwi_foreach_load; exact Ho|].
      rewrite map_map. apply Permutation_refl.
    - change (codec_mh_sorted =? codec_sorted) with false. cbv iota.
      eapply Permutation_trans; [apply Permutation_map; apply mh_foreach_load; exact Ho|].
      rewrite map_map. apply Permutation_refl.
  Qed.

  Lemma g_getall_finds s : In s secs -> indexable storeid s = true ->
    In (s_off s) (idx_getall fi (c_mhcode (s_p s)) (c_digest (s_p s))).
  Proof.
    intros Hs Hix.
    assert (Hr : In (rec_of_sec s) recs).
    { apply (Permutation_in _ (Permutation_sym Hperm)). apply in_map. apply filter_In. auto. }
    pose proof (IndexLoad.idx_getall_load sort_by_digest IndexSort.sort_by_digest_contract codec i0 recs
                  (c_mhcode (s_p s)) (c_digest (s_p s)) Hnew Hok g_recs_in_index) as Hp.
    rewrite Hfi. apply (Permutation_in _ (Permutation_sym Hp)).
    destruct (codec =? codec_sorted).
    - unfold spec_offsets_digest. apply (in_map r_off _ (rec_of_sec s)). apply filter_In. split; [exact Hr|].
      cbn [rec_of_sec r_digest]. apply bytes_eqb_refl.
    - unfold spec_offsets_mh. apply (in_map r_off _ (rec_of_sec s)). apply filter_In. split; [exact Hr|].
      cbn [rec_of_sec r_digest r_code]. rewrite N.eqb_refl, bytes_eqb_refl. reflexivity.
  Qed.

  Theorem g_index_exact : index_exact storeid fi secs = true.
  Proof.
    unfold index_exact. apply andb_true_iff. split; [apply andb_true_iff; split|].
    - apply (forallb_perm _ _ _ g_entries_perm). apply forallb_forall. intros e He.
      apply in_map_iff in He. destruct He as (r & <- & Hr).
      apply (Permutation_in _ Hperm) in Hr. apply in_map_iff in Hr. destruct Hr as (s & <- & Hs).
      apply filter_In in Hs. destruct Hs as [Hs _].
      unfold entry_points_at, rec_of_sec. cbn [r_code r_digest r_off]. apply existsb_exists. exists s. split; [exact Hs|].
      rewrite N.eqb_refl, bytes_eqb_refl. cbn [andb]. destruct (codec =? codec_sorted); [reflexivity|apply N.eqb_refl].
    - apply forallb_forall. intros s Hs. apply filter_In in Hs. destruct Hs as [Hs Hix].
      unfold sec_resolvable. apply existsb_exists.
      exists (s_off s). split; [apply g_getall_finds; assumption|apply N.eqb_refl].
    - rewrite (Permutation_length g_entries_perm), map_length, (Permutation_length Hperm), map_length.
      apply N.eqb_refl.
  Qed.
End IndexGen.

(* ---- a CARv2 container around a constructed payload, closed by such an index, is well-formed ------------------ *)
Theorem wf_finished_container exact o ro bs hi fi :
  ro_ok ro -> Forall put_ok bs -> w_v1 o = false ->
  flag_ok exact (w_storeid o) hi = true ->
  let P := payload_opt ro bs in
  let file := pragma ++ enc_v2hdr (mkv2 hi 0 (51 + w_dpad o) (blen P) (51 + w_dpad o + blen P + w_ipad o)) ++
              zerosN (w_dpad o) ++ P ++ zerosN (w_ipad o) ++ idx_write fi in
  blen file < two63 ->
  IndexRoundtrip.idx_wf fi -> idx_codec fi = w_codec o ->
  index_exact (w_storeid o) fi (secs_of (hdr_len ro) bs) = true ->
  wf_finished exact o file = Some (roots_of ro, bs).
Proof.
  intros Hro Hput Hv Hflag P file Hlen Hgood Hcodec Hexact. unfold file in *. clear file.
  unfold wf_finished. rewrite Hv.
  set (h := mkv2 hi 0 (51 + w_dpad o) (blen P) (51 + w_dpad o + blen P + w_ipad o)) in *.
  set (I := idx_write fi) in *.
  assert (HL : blen (pragma ++ enc_v2hdr h ++ zerosN (w_dpad o) ++ P ++ zerosN (w_ipad o) ++ I) =
               51 + w_dpad o + blen P + w_ipad o + blen I).
  { rewrite !blen_app, blen_pragma, blen_enc_v2hdr, !blen_zerosN. lia. }
  rewrite HL in Hlen.
  change pragma_size with (blen pragma). rewrite take_app, bytes_eqb_refl. cbn [negb].
  rewrite HL. replace (51 + w_dpad o + blen P + w_ipad o + blen I <? 51) with false by lia.
  rewrite drop_app.
  assert (Hhi : hi < two64).
  { unfold flag_ok, fully_indexed_bit, two64 in *. destruct exact; [destruct (w_storeid o)|]; lia. }
  assert (Hf : h_hi h < two64 /\ h_lo h < two64 /\ h_doff h < two64 /\ h_dsize h < two64 /\ h_ioff h < two64).
  { unfold h. cbn [h_hi h_lo h_doff h_dsize h_ioff]. unfold two63, two64 in *. repeat split; lia. }
  destruct Hf as (F1 & F2 & F3 & F4 & F5).
  destruct (v2hdr_fields h (zerosN (w_dpad o) ++ P ++ zerosN (w_ipad o) ++ I) F1 F2 F3 F4 F5)
    as (E1 & E2 & E3 & E4 & E5).
  rewrite E1, E2, E3, E4, E5.
  change (h_hi h) with hi.
  change (h_lo h) with 0. change (h_doff h) with (51 + w_dpad o). change (h_dsize h) with (blen P).
  change (h_ioff h) with (51 + w_dpad o + blen P + w_ipad o).
  rewrite Hflag, !N.eqb_refl. cbn [andb negb].
  replace (51 + w_dpad o + blen P + w_ipad o + blen I <? 51 + w_dpad o + blen P + w_ipad o) with false by lia.
  assert (D51 : drop 51 (pragma ++ enc_v2hdr h ++ zerosN (w_dpad o) ++ P ++ zerosN (w_ipad o) ++ I) =
                zerosN (w_dpad o) ++ P ++ zerosN (w_ipad o) ++ I).
  { rewrite app_assoc. replace 51 with (blen (pragma ++ enc_v2hdr h)) by (rewrite blen_app, blen_pragma, blen_enc_v2hdr; reflexivity).
    apply drop_app. }
  rewrite D51. rewrite <- (blen_zerosN (w_dpad o)) at 1. rewrite take_app, all_zero_zerosN. cbn [negb].
  assert (Ddoff : drop (51 + w_dpad o) (pragma ++ enc_v2hdr h ++ zerosN (w_dpad o) ++ P ++ zerosN (w_ipad o) ++ I) =
                  P ++ zerosN (w_ipad o) ++ I).
  { rewrite <- (drop_drop (w_dpad o) 51), D51. rewrite <- (blen_zerosN (w_dpad o)) at 1. apply drop_app. }
  assert (Dend : drop (51 + w_dpad o + blen P) (pragma ++ enc_v2hdr h ++ zerosN (w_dpad o) ++ P ++ zerosN (w_ipad o) ++ I) =
                 zerosN (w_ipad o) ++ I).
  { rewrite <- (drop_drop (blen P) (51 + w_dpad o)), Ddoff. apply drop_app. }
  rewrite Dend. rewrite <- (blen_zerosN (w_ipad o)) at 1. rewrite take_app, all_zero_zerosN. cbn [negb].
  rewrite Ddoff, take_app.
  unfold P at 1. rewrite (ref_scan_payload ro bs Hro Hput).
  assert (Dio : drop (51 + w_dpad o + blen P + w_ipad o) (pragma ++ enc_v2hdr h ++ zerosN (w_dpad o) ++ P ++ zerosN (w_ipad o) ++ I) = I).
  { rewrite <- (drop_drop (w_ipad o) (51 + w_dpad o + blen P)), Dend. rewrite <- (blen_zerosN (w_ipad o)) at 1. apply drop_app. }
  rewrite Dio.
  unfold I. rewrite <- (app_nil_r (idx_write fi)). rewrite (IndexRoundtrip.idx_read_write fi [] Hgood).
  rewrite Hcodec, N.eqb_refl. cbn [andb]. rewrite Hexact.
  rewrite (secs_of_blocks bs Hput). reflexivity.
Qed.

(* ---- the instance for store.Finalize: every stored section is indexable --------------------------------------- *)
Definition wf_opts (o : wopts) : Prop := w_maxcid o + 8 <= max_width.

Lemma stored_ok_put o bs : Forall (stored_ok o) bs -> Forall put_ok bs.
Proof. apply Forall_impl. intros b (H & _). exact H. Qed.

Section IndexExact.
  Variables (o : wopts) (ro : option (list bytes)) (bs : list block) (fi : index).
  Hypothesis Hbs : Forall (stored_ok o) bs.
  Hypothesis Hmaxcid : w_maxcid o + 8 <= max_width.
  Hypothesis Hpay : blen (payload_opt ro bs) < two63.
  Hypothesis Hfi : final_index o ro bs = Some fi.
  Hypothesis Hsmall : blen (idx_write fi) < two63.
  Hypothesis Hcodes : w_codec o = codec_mh_sorted -> N.of_nat (n_codes (idx_of ro bs)) < two31.

  Let secs := secs_of (hdr_len ro) bs.
  Let recs := idx_of ro bs.

  Lemma secs_facts : Forall (fun s => s_off s < two64 /\ blen (c_digest (s_p s)) + 8 <= max_width /\
                                      c_mhcode (s_p s) < two64 /\ indexable (w_storeid o) s = true) secs.
  Proof.
    pose proof (secs_of_props o bs Hbs (hdr_len ro)) as H. eapply Forall_impl; [|exact H].
    intros s (H1 & H2 & H3 & H4 & H5). pose proof Hpay as Hp. rewrite blen_payload_opt in Hp.
    unfold two63, two64 in *. repeat split; try lia. exact H5.
  Qed.

  Lemma secs_all_indexable : filter (indexable (w_storeid o)) secs = secs.
  Proof. apply filter_all. eapply Forall_impl; [|exact secs_facts]. intros s (_ & _ & _ & H). exact H. Qed.

  Lemma recs_perm : Permutation recs (map rec_of_sec (filter (indexable (w_storeid o)) secs)).
  Proof. rewrite secs_all_indexable. unfold recs, idx_of, secs. rewrite <- records_from_secs. apply ii_load_perm. Qed.

  Lemma recs_rec_ok : Forall IndexLoad.rec_ok recs.
  Proof.
    rewrite Forall_forall. intros r Hr. apply (Permutation_in _ recs_perm) in Hr. rewrite secs_all_indexable in Hr.
    apply in_map_iff in Hr. destruct Hr as (s & <- & Hs).
    pose proof secs_facts as Hf. rewrite Forall_forall in Hf. destruct (Hf s Hs) as (H1 & H2 & H3 & _).
    unfold IndexLoad.rec_ok, rec_width, rec_of_sec. cbn [r_digest r_off r_code]. auto.
  Qed.

  Lemma new_codec : exists i0, idx_new (w_codec o) = Some i0 /\ fi = idx_load recs i0.
  Proof.
    pose proof Hfi as H'. unfold final_index, ii_flatten in H'. fold recs in H'. unfold ii_flatten_records in H'.
    destruct (idx_new (w_codec o)) as [i0|]; [|discriminate]. exists i0. split; [reflexivity|].
    inversion H'. reflexivity.
  Qed.

  Lemma final_index_good : IndexRoundtrip.idx_wf fi /\ idx_codec fi = w_codec o.
  Proof.
    destruct new_codec as (i0 & Hnew & E).
    exact (g_index_good (w_codec o) recs i0 fi recs_rec_ok Hnew E Hsmall Hcodes).
  Qed.

  Lemma getall_finds s : In s secs -> In (s_off s) (idx_getall fi (c_mhcode (s_p s)) (c_digest (s_p s))).
  Proof.
    intros Hs. destruct new_codec as (i0 & Hnew & E).
    apply (g_getall_finds (w_storeid o) (w_codec o) secs recs i0 fi recs_perm recs_rec_ok Hnew E Hsmall Hcodes s Hs).
    pose proof secs_facts as Hf. rewrite Forall_forall in Hf. apply (Hf s Hs).
  Qed.

  Theorem index_exact_layout : index_exact (w_storeid o) fi secs = true.
  Proof.
    destruct new_codec as (i0 & Hnew & E).
    exact (g_index_exact (w_storeid o) (w_codec o) secs recs i0 fi recs_perm recs_rec_ok Hnew E Hsmall Hcodes).
  Qed.
End IndexExact.

Theorem wf_parse_layout o ro bs fi :
  wf_opts o -> ro_ok ro -> Forall (stored_ok o) bs ->
  blen (layout o ro bs fi) < two63 ->
  (w_v1 o = false -> final_index o ro bs = Some fi /\
                     (w_codec o = codec_mh_sorted -> N.of_nat (n_codes (idx_of ro bs)) < two31)) ->
  wf_parse o (layout o ro bs fi) = Some (roots_of ro, bs).
Proof.
  intros Hwo Hro Hbs Hlen Hidx. pose proof (stored_ok_put o bs Hbs) as Hput.
  unfold wf_parse. destruct (w_v1 o) eqn:Hv.
  - unfold wf_finished, layout. rewrite Hv.
    rewrite (ref_scan_payload ro bs Hro Hput). rewrite (secs_of_blocks bs Hput). reflexivity.
  - destruct (Hidx eq_refl) as [Hfi Hcodes]. clear Hidx.
    assert (Hlay : layout o ro bs fi =
      pragma ++ enc_v2hdr (mkv2 (if w_storeid o then fully_indexed_bit else 0) 0 (51 + w_dpad o) (blen (payload_opt ro bs))
                                (51 + w_dpad o + blen (payload_opt ro bs) + w_ipad o)) ++
      zerosN (w_dpad o) ++ payload_opt ro bs ++ zerosN (w_ipad o) ++ idx_write fi).
    { unfold layout. rewrite Hv. reflexivity. }
    rewrite Hlay in Hlen |- *.
    assert (HL : blen (payload_opt ro bs) < two63 /\ blen (idx_write fi) < two63).
    { rewrite !blen_app, blen_pragma, blen_enc_v2hdr, !blen_zerosN in Hlen. lia. }
    destruct HL as [HP63 HI63].
    destruct (final_index_good o ro bs fi Hbs Hwo HP63 Hfi HI63 Hcodes) as [Hgood Hcodec].
    apply wf_finished_container; try assumption.
    + unfold flag_ok. apply N.eqb_refl.
    + exact (index_exact_layout o ro bs fi Hbs Hwo HP63 Hfi HI63 Hcodes).
Qed.
