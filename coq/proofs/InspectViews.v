(* C13, round 6: views handed out by a Reader (DataReader of a CARv1, IndexReader: internal
   io.offsetReadSeeker; model C02Extra.ors) are positioned views of their parent.  A nested view
   (NewOffsetReadSeeker over an offsetReadSeeker) starts at the parent's BASE plus the offset, wherever
   the parent's stream cursor stands, and what it delivers is the underlying bytes from there. *)
From GoCar Require Import Bytes Varint Cid Header Frame V2Header Scan C02Extra.
From GoCarProofs Require Import BytesFacts.

(* NewOffsetReadSeeker(parent, off) for a parent that is itself an offsetReadSeeker *)
Definition ors_nested (parent : ors) (off : N) : ors :=
  mkors (or_base parent + off) (or_base parent + off).

(* no operation moves the base *)
Lemma ors_step_base data st op : or_base (snd (ors_step data st op)) = or_base st.
Proof.
  destruct op as [n| |n off|x|x|x|]; cbn [ors_step read_at]; try reflexivity.
  all: destruct (or_off st <? x); reflexivity.
Qed.

Fixpoint ors_run (data : bytes) (st : ors) (ops : list ors_op) : ors :=
  match ops with [] => st | op :: ops' => ors_run data (snd (ors_step data st op)) ops' end.

Lemma ors_run_base data : forall ops st, or_base (ors_run data st ops) = or_base st.
Proof. induction ops as [|op ops IH]; intros st; [reflexivity|]. cbn [ors_run]. rewrite IH. apply ors_step_base. Qed.

(* the nested view does not depend on how the parent was used as a stream before *)
Theorem ors_nested_cursor_independent data parent ops off :
  ors_nested (ors_run data parent ops) off = ors_nested parent off.
Proof. unfold ors_nested. rewrite ors_run_base. reflexivity. Qed.

(* ... and it reads the underlying bytes from base + off: as a stream and positioned *)
Theorem ors_nested_reads data parent off n k :
  fst (fst (ors_step data (ors_nested parent off) (OrRead n))) = take n (drop (or_base parent + off) data) /\
  fst (fst (ors_step data (ors_nested parent off) (OrReadAt n k))) = take n (drop (k + (or_base parent + off)) data).
Proof. split; reflexivity. Qed.

Theorem ors_nested_view data parent ops off n k :
  ors_nested (ors_run data parent ops) off = ors_nested parent off /\
  fst (fst (ors_step data (ors_nested parent off) (OrRead n))) = take n (drop (or_base parent + off) data) /\
  fst (fst (ors_step data (ors_nested parent off) (OrReadAt n k)))
  = take n (drop (k + (or_base parent + off)) data).
Proof. split; [apply ors_nested_cursor_independent|apply ors_nested_reads]. Qed.
