(* C19 round 2: the executable guards of the formerly partial theorems ([index_answers],
   [candidates_sound], [candidates_ok]) hold of every index the producers write.  Built on the
   index theory that came with C05/C07 (proofs/FinalIndex.v: Marshal/Unmarshal round trip of a loaded
   index; proofs/ReadOnlyIndex.v: GetAll on a loaded index = exactly the records carrying the key). *)
From Coq Require Import Sorting.Sorted Permutation.
From GoCar Require Import Bytes Varint Cid Header Frame V2Header Scan Index Store CliCmds.
From GoCarProofs Require Import BytesFacts VarintFacts CidFacts HeaderFacts ScanFacts StoreInv CliBase CliWalk CliFilter CliGet.
From GoCarProofs Require FinalIndex ReadOnlyIndex IndexSort.

(* ---- records of a payload and the blocks they stand for ------------------------------------------ *)
Lemma section_size_ge1 c d : 1 <= section_size c d.
Proof. unfold section_size, ld_size. pose proof (uv_size_pos (blen c + blen d)). lia. Qed.

Lemma records_from_off_ge bs : forall pos r, In r (records_from pos bs) ->
  pos <= r_off r /\ r_off r < pos + blen (sections bs).
Proof.
  induction bs as [|[c d] t IH]; intros pos r H; [destruct H|].
  cbn [records_from] in H. rewrite sections_cons, blen_app, blen_enc_section.
  pose proof (section_size_ge1 c d).
  assert (Htail : In r (records_from (pos + section_size c d) t) ->
                  pos <= r_off r /\ r_off r < pos + (section_size c d + blen (sections t))).
  { intros Hin. destruct (IH _ _ Hin). lia. }
  destruct (cid_parse c) as [p|]; [|exact (Htail H)].
  destruct H as [<-|H]; [cbn [r_off]; lia|exact (Htail H)].
Qed.

(* a record sits at the start of the section of a block with its CID *)
Lemma records_from_block_at bs : forall pos r, In r (records_from pos bs) ->
  exists d p, block_at pos bs (r_off r) = Some (r_cid r, d) /\ In (r_cid r, d) bs /\
              cid_parse (r_cid r) = Some p /\ r_code r = c_mhcode p /\ r_digest r = c_digest p.
Proof.
  induction bs as [|[c d] t IH]; intros pos r H; [destruct H|].
  cbn [records_from] in H. cbn [block_at fst snd].
  pose proof (section_size_ge1 c d) as H1.
  assert (Htail : In r (records_from (pos + section_size c d) t) ->
    exists d0 p, (if r_off r =? pos then Some (c, d) else block_at (pos + section_size c d) t (r_off r)) = Some (r_cid r, d0) /\
                 In (r_cid r, d0) ((c, d) :: t) /\ cid_parse (r_cid r) = Some p /\
                 r_code r = c_mhcode p /\ r_digest r = c_digest p).
  { intros Hin. destruct (records_from_off_ge _ _ _ Hin) as [Hge _].
    replace (r_off r =? pos) with false by lia.
    destruct (IH _ _ Hin) as (d0 & p & Hb & Hi & Hp). exists d0, p. split; [exact Hb|]. split; [right; exact Hi|exact Hp]. }
  destruct (cid_parse c) as [p|] eqn:Ep; [|exact (Htail H)].
  destruct H as [<-|H]; [|exact (Htail H)].
  cbn [r_off r_cid r_code r_digest]. rewrite N.eqb_refl. exists d, p. split; [reflexivity|].
  split; [left; reflexivity|]. auto.
Qed.

(* every block with a parseable CID has its record *)
Lemma block_has_record bs : forall pos c d p, In (c, d) bs -> cid_parse c = Some p ->
  exists off, In (mkrec c (c_mhcode p) (c_digest p) off) (records_from pos bs).
Proof.
  induction bs as [|[c0 d0] t IH]; intros pos c d p Hin Hp; [destruct Hin|].
  cbn [records_from]. destruct Hin as [E|Hin].
  - inversion E; subst. rewrite Hp. exists pos. left. reflexivity.
  - destruct (IH (pos + section_size c0 d0) c d p Hin Hp) as (off & Ho). exists off.
    destruct (cid_parse c0); [right|]; exact Ho.
Qed.

Lemma regen_from_in pos bs r : In r (regen_from pos bs) <-> In r (records_from pos bs) /\ r_code r <> 0.
Proof.
  unfold regen_from. rewrite filter_In. split; intros [H1 H2]; split; try exact H1.
  - intros E. rewrite E in H2. discriminate.
  - destruct (r_code r =? 0) eqn:E; [apply N.eqb_eq in E; contradiction|reflexivity].
Qed.

Lemma length_records_from (bs : list block) : forall pos, (length (records_from pos bs) <= length bs)%nat.
Proof.
  induction bs as [|[c d] t IH]; intros pos; cbn [records_from length]; [lia|].
  specialize (IH (pos + section_size c d)). destruct (cid_parse c); cbn [length]; lia.
Qed.

Lemma length_sections_ge (bs : list block) : N.of_nat (length bs) <= blen (sections bs).
Proof.
  induction bs as [|[c d] t IH]; [cbn; lia|]. rewrite sections_cons, blen_app, blen_enc_section.
  pose proof (section_size_ge1 c d). cbn [length]. lia.
Qed.

(* ---- the size limits of an index hold for the records of blocks the tool accepts --------------------- *)
Lemma digest_in_cid p : blen (c_digest p) <= blen (cid_enc p).
Proof.
  unfold cid_enc, mh_enc. destruct (c_ver p =? 0); rewrite !blen_app; lia.
Qed.

Lemma records_fit bs pos : Forall (blk_ok default_maxs) bs -> pos + blen (sections bs) < two64 ->
  Forall FinalIndex.rec_fits (records_from pos bs).
Proof.
  intros Hb Hsz. apply Forall_forall. intros r Hr.
  destruct (records_from_off_ge _ _ _ Hr) as [_ Hlt].
  destruct (records_from_block_at _ _ _ Hr) as (d & p & _ & Hin & Hp & Hc & Hd).
  pose proof (proj1 (Forall_forall _ _) Hb _ Hin) as (Hcid & Hmax & _). cbn [fst snd] in *.
  destruct (cid_rd_ok_parse _ Hcid) as (p' & Hp' & Hok & Henc & _). rewrite Hp in Hp'. inversion Hp'; subst p'.
  unfold FinalIndex.rec_fits. rewrite Hd, Hc. split; [|split].
  - pose proof (digest_in_cid p). rewrite <- Henc in H. unfold default_maxs, max_width in *. lia.
  - lia.
  - destruct Hok as [(_ & _ & Hm & _)|(_ & _ & Hm & _)]; unfold two63, two64 in *; lia.
Qed.

Lemma forall_perm {A} (P : A -> Prop) l l' : Permutation l l' -> Forall P l -> Forall P l'.
Proof. intros Hp H. apply Forall_forall. intros x Hx. apply (proj1 (Forall_forall _ _) H). apply (Permutation_in _ (Permutation_sym Hp) Hx). Qed.

(* ---- a freshly loaded index: lookups and read-back ------------------------------------------------------ *)
Definition fresh (i0 : index) : Prop := i0 = IdxSorted [] \/ i0 = IdxMh [].

Lemma idx_new_fresh codec i0 : idx_new codec = Some i0 -> fresh i0.
Proof.
  unfold idx_new. destruct (codec =? codec_sorted); [intros H; inversion H; left; reflexivity|].
  destruct (codec =? codec_mh_sorted); [intros H; inversion H; right; reflexivity|discriminate].
Qed.

Definition key_of_index (i0 : index) (code : N) (r : irec) (kc : N) (kd : bytes) : Prop :=
  r_digest r = kd /\ match i0 with IdxMh _ => r_code r = kc | IdxSorted _ => True end.

(* GetAll on a loaded index = the offsets of exactly the records carrying the key *)
Lemma getall_fresh i0 recs code d off : fresh i0 -> ReadOnlyIndex.recs_ok recs ->
  (In off (idx_getall (idx_load recs i0) code d) <->
   exists r, In r recs /\ r_off r = off /\ r_digest r = d /\
             match i0 with IdxMh _ => r_code r = code | IdxSorted _ => True end).
Proof.
  intros [-> | ->] Hok; cbn [idx_load idx_getall].
  - rewrite (ReadOnlyIndex.mwi_getall_spec recs d off Hok).
    split; intros (r & H1 & H2 & H3); exists r; tauto.
  - rewrite (ReadOnlyIndex.mh_getall_spec recs code d off Hok).
    split; [intros (r & H1 & H2 & H3 & H4)|intros (r & H1 & H2 & H3 & H4)]; exists r; tauto.
Qed.

(* index.WriteTo then index.ReadFrom gives the loaded index back.  [codes_fit]: the multihash codec
   stores the number of distinct hash codes in an int32 *)
Definition codes_fit (i0 : index) (recs : list irec) : Prop :=
  match i0 with IdxMh _ => N.of_nat (FinalIndex.n_codes recs) < two31 | IdxSorted _ => True end.

Lemma roundtrip_fresh i0 recs rest : fresh i0 -> Forall FinalIndex.rec_fits recs ->
  blen (idx_write (idx_load recs i0)) < two63 -> codes_fit i0 recs ->
  idx_read (idx_write (idx_load recs i0) ++ rest) = Ok (idx_load recs i0, rest).
Proof.
  intros Hf Hfit Hsz Hc. apply FinalIndex.idx_read_write.
  unfold idx_write in Hsz. rewrite blen_app in Hsz.
  destruct Hf as [-> | ->]; cbn [idx_load FinalIndex.idx_good idx_marshal codes_fit] in *.
  - apply FinalIndex.mwi_load_good; [exact Hfit|]. apply FinalIndex.mwi_marshal_small. lia.
  - apply FinalIndex.mh_load_good; [exact Hfit| |exact Hc]. apply FinalIndex.mh_marshal_small. lia.
Qed.

Lemma codes_fit_by_length i0 recs : N.of_nat (length recs) < two31 -> codes_fit i0 recs.
Proof.
  intros H. destruct i0; cbn [codes_fit]; [exact I|]. pose proof (FinalIndex.n_codes_le recs). lia.
Qed.

(* ---- record lists that describe a payload ------------------------------------------------------------------ *)
(* every record is one of the payload's section records; every non-identity block has its record *)
Definition describes (recs : list irec) (hb : bytes) (bs : list block) : Prop :=
  (forall r, In r recs -> In r (records_from (blen (ld hb)) bs)) /\
  (forall c d p, In (c, d) bs -> cid_parse c = Some p -> is_identity p = false ->
     exists off, In (mkrec c (c_mhcode p) (c_digest p) off) recs).

Lemma regen_describes hb bs : describes (regen_records_hb hb bs) hb bs.
Proof.
  split.
  - intros r Hr. apply regen_from_in in Hr. apply Hr.
  - intros c d p Hin Hp Hid. destruct (block_has_record bs (blen (ld hb)) c d p Hin Hp) as (off & Ho).
    exists off. apply regen_from_in. split; [exact Ho|]. cbn [r_code]. unfold is_identity in Hid. lia.
Qed.

Lemma all_describes hb bs : describes (all_records_hb hb bs) hb bs.
Proof.
  split; [intros r Hr; exact Hr|].
  intros c d p Hin Hp _. exact (block_has_record bs (blen (ld hb)) c d p Hin Hp).
Qed.

Lemma describes_perm recs recs' hb bs : Permutation recs recs' -> describes recs hb bs -> describes recs' hb bs.
Proof.
  intros Hp [H1 H2]. split.
  - intros r Hr. apply H1. apply (Permutation_in _ (Permutation_sym Hp) Hr).
  - intros c d p Hin Hpp Hid. destruct (H2 c d p Hin Hpp Hid) as (off & Ho). exists off.
    apply (Permutation_in _ Hp Ho).
Qed.

Lemma describes_recs_ok recs hb bs : describes recs hb bs -> NoDup recs \/ True ->
  blen (payload_hb hb bs) < two63 -> (length recs <= length bs)%nat -> ReadOnlyIndex.recs_ok recs.
Proof.
  intros [H1 _] _ Hsz Hlen. split.
  - apply Forall_forall. intros r Hr. destruct (records_from_off_ge _ _ _ (H1 r Hr)) as [_ Hlt].
    unfold payload_hb in Hsz. rewrite blen_app in Hsz. change (enc_sections bs) with (sections bs) in Hsz.
    unfold two63, two64 in *. lia.
  - pose proof (length_sections_ge bs). unfold payload_hb in Hsz. rewrite blen_app in Hsz.
    change (enc_sections bs) with (sections bs) in Hsz.
    assert (N.of_nat (length recs) < two63) by lia. unfold two63 in *.
    change (2 ^ 69) with 590295810358705651712. lia.
Qed.

Lemma describes_fit recs hb bs : describes recs hb bs -> Forall (blk_ok default_maxs) bs ->
  blen (payload_hb hb bs) < two63 -> Forall FinalIndex.rec_fits recs.
Proof.
  intros [H1 _] Hb Hsz. apply Forall_forall. intros r Hr.
  apply (proj1 (Forall_forall _ _) (records_fit bs (blen (ld hb)) Hb
           ltac:(unfold payload_hb in Hsz; rewrite blen_app in Hsz; change (enc_sections bs) with (sections bs) in Hsz; unfold two63, two64 in *; lia))).
  apply H1. exact Hr.
Qed.

(* ---- the guards ------------------------------------------------------------------------------------------------- *)
Section Guards.
  Variables (recs : list irec) (hb : bytes) (bs : list block) (i0 : index).
  Hypothesis Hfresh : fresh i0.
  Hypothesis Hdesc : describes recs hb bs.
  Hypothesis Hblocks : Forall (blk_ok default_maxs) bs.
  Hypothesis Hsize : blen (payload_hb hb bs) < two63.
  Hypothesis Hlen : (length recs <= length bs)%nat.

  Let Hrok : ReadOnlyIndex.recs_ok recs := describes_recs_ok recs hb bs Hdesc (or_intror I) Hsize Hlen.

  (* soundness: every candidate offset the index yields is the start of a section *)
  Lemma own_candidates_sound code d :
    candidates_sound hb bs (idx_getall (idx_load recs i0) code d) = true.
  Proof.
    unfold candidates_sound. apply forallb_forall. intros off Hin.
    apply (getall_fresh i0 recs code d off Hfresh Hrok) in Hin. destruct Hin as (r & Hr & Ho & _).
    destruct (records_from_block_at _ _ _ (proj1 Hdesc r Hr)) as (d0 & p & Hb & _).
    unfold cand_block. rewrite <- Ho, Hb. reflexivity.
  Qed.

  (* completeness: a present non-identity key has a candidate whose block carries its multihash *)
  Lemma own_candidates_ok key kp :
    cid_parse key = Some kp -> is_identity kp = false ->
    existsb (fun b => same_mh (fst b) key) bs = true ->
    candidates_ok hb bs (idx_getall (idx_load recs i0) (c_mhcode kp) (c_digest kp)) key = true.
  Proof.
    intros Hk Hid Hex. unfold candidates_ok. rewrite own_candidates_sound. cbn [andb].
    apply existsb_exists in Hex. destruct Hex as ([c d] & Hin & Hsm). cbn [fst] in Hsm.
    pose proof (proj1 (Forall_forall _ _) Hblocks _ Hin) as (Hcid & _). cbn [fst] in Hcid.
    destruct (cid_rd_ok_parse c Hcid) as (p & Hp & _).
    unfold same_mh in Hsm. rewrite (mh_of_parse c p Hp), (mh_of_parse key kp Hk) in Hsm.
    apply andb_true_iff in Hsm. destruct Hsm as [Hc Hd]. apply N.eqb_eq in Hc. apply bytes_eqb_eq in Hd.
    assert (Hidp : is_identity p = false) by (unfold is_identity in *; rewrite Hc; exact Hid).
    destruct (proj2 Hdesc c d p Hin Hp Hidp) as (off & Ho).
    apply existsb_exists. exists off. split.
    - apply (getall_fresh i0 recs _ _ off Hfresh Hrok). exists (mkrec c (c_mhcode p) (c_digest p) off).
      cbn [r_off r_digest r_code]. repeat split; try assumption. destruct i0; [exact I|exact Hc].
    - destruct (records_from_block_at _ _ _ (proj1 Hdesc _ Ho)) as (d0 & p0 & Hb & _).
      cbn [r_off r_cid] in Hb. unfold cand_matches, cand_block. rewrite Hb. cbn [fst].
      unfold same_mh. rewrite (mh_of_parse c p Hp), (mh_of_parse key kp Hk), Hc, Hd, N.eqb_refl, bytes_eqb_refl. reflexivity.
  Qed.

  (* verify's question: the index, written and read back, answers for the CID of every block *)
  Lemma own_index_answers :
    blen (idx_write (idx_load recs i0)) < two63 -> codes_fit i0 recs ->
    index_answers (idx_write (idx_load recs i0)) (map fst bs) = true.
  Proof.
    intros Hw Hc. unfold index_answers.
    rewrite <- (app_nil_r (idx_write (idx_load recs i0))).
    rewrite (roundtrip_fresh i0 recs [] Hfresh (describes_fit recs hb bs Hdesc Hblocks Hsize) Hw Hc).
    apply forallb_forall. intros c Hc'. apply in_map_iff in Hc'. destruct Hc' as ([c0 d] & <- & Hin). cbn [fst].
    pose proof (proj1 (Forall_forall _ _) Hblocks _ Hin) as (Hcid & _). cbn [fst] in Hcid.
    destruct (cid_rd_ok_parse c0 Hcid) as (p & Hp & _).
    unfold idx_knows. rewrite Hp. destruct (is_identity p) eqn:Hid; [reflexivity|]. cbn [orb].
    destruct (proj2 Hdesc c0 d p Hin Hp Hid) as (off & Ho).
    assert (Hg : In off (idx_getall (idx_load recs i0) (c_mhcode p) (c_digest p))).
    { apply (getall_fresh i0 recs _ _ off Hfresh Hrok). exists (mkrec c0 (c_mhcode p) (c_digest p) off).
      cbn [r_off r_digest r_code]. repeat split; try assumption. destruct i0; [exact I|reflexivity]. }
    destruct (idx_getall (idx_load recs i0) (c_mhcode p) (c_digest p)); [destruct Hg|reflexivity].
  Qed.
End Guards.
