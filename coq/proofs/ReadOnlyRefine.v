(* C07: the opened read-only store refines the reference answers computed from the section list.
   Part 1 (this file): everything that depends on the index only through "GetAll returns exactly
   offsets of records, and every record with the key's multihash" (idx_correct). *)
From GoCar Require Import Bytes Varint Cid Header Frame V2Header Scan Index Store ReadOnly.
From GoCarProofs Require Import BytesFacts VarintFacts CidFacts HeaderFacts ScanFacts ReadOnlyFacts.

(* what the refinement needs from an index built over records [recs] *)
Definition idx_correct (x : ridx) (recs : list irec) : Prop :=
  (forall kp off, In off (ridx_getall x kp) -> exists r, In r recs /\ r_off r = off) /\
  (forall kp r, In r recs -> r_code r = c_mhcode kp -> r_digest r = c_digest kp ->
                In (r_off r) (ridx_getall x kp)).

(* sections with equal multihash carry equal bytes (true of hash-consistent archives) *)
Definition consistent (bs : list block) : Prop :=
  forall b1 b2 p1 p2, In b1 bs -> In b2 bs ->
    cid_parse (fst b1) = Some p1 -> cid_parse (fst b2) = Some p2 ->
    c_mhcode p1 = c_mhcode p2 -> c_digest p1 = c_digest p2 -> snd b1 = snd b2.

Lemma sec_at_unique view off maxs b1 b2 :
  sec_at view off b1 -> sec_at view off b2 -> block_ok maxs b1 -> block_ok maxs b2 -> b1 = b2.
Proof.
  intros (pre1 & rest1 & Hv1 & Ho1) (pre2 & rest2 & Hv2 & Ho2) Hb1 Hb2.
  assert (Hd1 : drop off view = enc_section (fst b1) (snd b1) ++ rest1) by (rewrite Hv1, <- Ho1; apply drop_app).
  assert (Hd2 : drop off view = enc_section (fst b2) (snd b2) ++ rest2) by (rewrite Hv2, <- Ho2; apply drop_app).
  destruct b1 as [c1 d1], b2 as [c2 d2]. cbn [fst snd] in *.
  destruct (read_node_section false maxs c1 d1 rest1 Hb1) as (p1 & _ & Hr1).
  destruct (read_node_section false maxs c2 d2 rest2 Hb2) as (p2 & _ & Hr2).
  rewrite <- Hd1 in Hr1. rewrite <- Hd2 in Hr2. rewrite Hr1 in Hr2. inversion Hr2; subst. reflexivity.
Qed.

Lemma key_matches_mh whole key kp c p :
  cid_parse key = Some kp -> cid_parse c = Some p ->
  key_matches whole key kp c p = true -> c_mhcode p = c_mhcode kp /\ c_digest p = c_digest kp.
Proof.
  intros Hk Hc. unfold key_matches. destruct whole.
  - intros H. apply bytes_eqb_eq in H. subst c. rewrite Hk in Hc. inversion Hc; subst. split; reflexivity.
  - intros H. apply andb_true_iff in H. destruct H as [H1 H2]. apply bytes_eqb_eq in H2. split; [lia|exact H2].
Qed.

Section Refine.
  Variable hdrdec : bytes -> option (list bytes * N).

  (* a constructed archive within the limits of the options it is opened with *)
  Record arch_ok (o : qopts) (ro : option (list bytes)) (bs : list block) (npad : N) : Prop := {
    ao_hdr : hdrdec (enc_header ro 1) = Some (hdr_roots ro, 1);
    ao_hmax : blen (enc_header ro 1) <= q_maxh o;
    ao_h63 : blen (enc_header ro 1) < two63;
    ao_blocks : Forall (rblock_ok (q_maxs o) (q_maxcid o)) bs;
    ao_npad : npad = 0 \/ q_zeof o = true }.

  Definition hdr_len (ro : option (list bytes)) : N := ld_size (blen (enc_header ro 1)).

  Lemma blen_enc_header_roots ro v : blen (enc_header (Some (hdr_roots ro)) v) = blen (enc_header ro v).
  Proof. destruct ro as [r|]; reflexivity. Qed.

  Lemma read_header_ld maxh ro rest :
    hdrdec (enc_header ro 1) = Some (hdr_roots ro, 1) ->
    blen (enc_header ro 1) <= maxh -> blen (enc_header ro 1) < two63 ->
    read_header hdrdec maxh (ld (enc_header ro 1) ++ rest)
    = Ok (hdr_roots ro, 1, rest, ld_size (blen (enc_header ro 1))).
  Proof.
    intros Hg Hmax H63. unfold read_header. rewrite ld_read_ld; try assumption; [|discriminate].
    rewrite Hg. reflexivity.
  Qed.

  Lemma payload_np_split roots bs npad :
    payload_np roots bs npad = ld (enc_header roots 1) ++ enc_sections bs ++ zerosN npad.
  Proof. unfold payload_np. rewrite <- app_assoc. reflexivity. Qed.

  Lemma payload_read_header o roots bs npad : arch_ok o roots bs npad ->
    read_header hdrdec (q_maxh o) (payload_np roots bs npad)
    = Ok (hdr_roots roots, 1, enc_sections bs ++ zerosN npad, hdr_len roots).
  Proof.
    intros H. rewrite payload_np_split. apply read_header_ld; [apply (ao_hdr _ _ _ _ H)|apply (ao_hmax _ _ _ _ H)|apply (ao_h63 _ _ _ _ H)].
  Qed.

  (* LoadIndex over the payload yields exactly the section records *)
  Lemma load_records_payload o base roots bs npad : arch_ok o roots bs npad ->
    base + blen (payload_np roots bs npad) < two63 ->
    load_records hdrdec o base (payload_np roots bs npad)
    = Ok (payload_records (q_storeid o) roots bs).
  Proof.
    intros H Hb. unfold load_records. rewrite (payload_read_header o roots bs npad H).
    cbn [N.eqb Pos.eqb]. unfold hdr_len. rewrite <- blen_ld.
    rewrite (li_scan_sections o base (payload_np roots bs npad) npad bs (ld (enc_header roots 1)) []).
    - unfold payload_records. rewrite blen_ld. reflexivity.
    - apply (ao_blocks _ _ _ _ H).
    - apply payload_np_split.
    - apply (ao_npad _ _ _ _ H).
    - exact Hb.
    - pose proof (enc_sections_length (fun _ _ => None) hdrdec bs). rewrite payload_np_split, !app_length. lia.
  Qed.

  (* every record points at a section of the payload; every kept section has its record *)
  Lemma payload_records_sound withid roots bs npad r :
    In r (payload_records withid roots bs) ->
    exists b p, sec_at (payload_np roots bs npad) (r_off r) b /\ In b bs /\ cid_parse (fst b) = Some p /\
                r = mkrec (fst b) (c_mhcode p) (c_digest p) (r_off r).
  Proof.
    unfold payload_records. rewrite sect_records_in. intros (b & p & Hin & Hp & _ & Hr).
    rewrite <- blen_ld in Hin.
    destruct (locate_sec_at bs (ld (enc_header roots 1)) (zerosN npad) (payload_np roots bs npad)
                (payload_np_split roots bs npad) (r_off r) b Hin) as [Hs Hb].
    exists b, p. repeat split; assumption.
  Qed.

  Lemma payload_records_complete withid roots bs npad b p :
    In b bs -> cid_parse (fst b) = Some p -> (withid || negb (is_identity p)) = true ->
    exists off, In (mkrec (fst b) (c_mhcode p) (c_digest p) off) (payload_records withid roots bs) /\
                sec_at (payload_np roots bs npad) off b.
  Proof.
    intros Hin Hp Hk. destruct (locate_complete bs (hdr_len roots) b Hin) as (off & Hl).
    exists off. split.
    - unfold payload_records. rewrite sect_records_in. exists b, p. cbn [r_off]. repeat split; assumption.
    - unfold hdr_len in Hl. rewrite <- blen_ld in Hl.
      apply (locate_sec_at bs (ld (enc_header roots 1)) (zerosN npad) _ (payload_np_split roots bs npad) off b Hl).
  Qed.

  (* ---- FindCid against a correct index over the payload ------------------------------------------- *)
  Lemma cands_exist view maxs (bs : list block) : forall offs,
    (forall off, In off offs -> exists b, cand_ok view maxs (off, b) /\ In b bs) ->
    exists cands, map fst cands = offs /\ Forall (cand_ok view maxs) cands /\
                  Forall (fun x => In (snd x) bs) cands.
  Proof.
    induction offs as [|off offs IH]; intros H.
    - exists []. repeat split; constructor.
    - destruct (H off (or_introl eq_refl)) as (b & Hc & Hb).
      destruct IH as (cands & Hm & Hf & Hi); [intros o' Ho'; apply H; right; exact Ho'|].
      exists ((off, b) :: cands). cbn [map fst]. rewrite Hm. repeat split; constructor; assumption.
  Qed.

  (* the store states the theorems talk about: backing = the payload, options o, index correct for
     the records of the sections kept under identity setting wid *)
  Definition opened (s : rostate) (o : qopts) (wid : bool) (roots : option (list bytes)) (bs : list block) (npad : N) : Prop :=
    s_view s = payload_np roots bs npad /\ s_opts s = o /\
    idx_correct (s_idx s) (payload_records wid roots bs).

  Definition recorded (wid : bool) (kp : cidp) : Prop := is_identity kp = true -> wid = true.

  Lemma int64_prefix_all offs : Forall (fun off => off < two63) offs -> int64_prefix offs = (offs, false).
  Proof.
    induction 1 as [|off t H _ IH]; [reflexivity|]. cbn [int64_prefix].
    replace (off <? two63) with true by lia. rewrite IH. reflexivity.
  Qed.

  Lemma ro_find_spec s o wid roots bs npad key kp rb :
    arch_ok o roots bs npad -> opened s o wid roots bs npad ->
    blen (payload_np roots bs npad) < two63 ->
    cid_parse key = Some kp -> recorded wid kp ->
    match ro_find s key kp rb with
    | Ok (data, doff, n) =>
        exists c d, In (c, d) bs /\ carries (q_whole o) key kp (c, d) = true /\
                    n = Z.of_N (blen d) /\ (rb = true -> data = d) /\
                    (rb = false -> take (blen d) (drop doff (s_view s)) = d)
    | Err ENotFound => forall b, In b bs -> carries (q_whole o) key kp b = false
    | Err _ => False
    end.
  Proof.
    intros Ha (Hview & Hopts & Hs & Hc) H63 Hk Hrec. unfold ro_find. rewrite Hopts.
    set (view := s_view s) in *.
    set (offs := ridx_getall (s_idx s) kp) in *.
    assert (Hint : int64_prefix offs = (offs, false)).
    { apply int64_prefix_all. rewrite Forall_forall. intros off Hoff.
      destruct (Hs kp off Hoff) as (r & Hr & Hro).
      destruct (payload_records_sound wid roots bs npad r Hr) as (b & p & (pre & rest & Hv & Hpre) & _).
      rewrite <- Hro, <- Hpre. rewrite Hv, blen_app in H63. lia. }
    rewrite Hint.
    assert (Hcand : forall off, In off offs -> exists b, cand_ok view (q_maxs o) (off, b) /\ In b bs).
    { intros off Hoff. destruct (Hs kp off Hoff) as (r & Hr & Hro).
      destruct (payload_records_sound wid roots bs npad r Hr) as (b & p & Hsec & Hb & Hp & _).
      exists b. split; [|exact Hb]. split; cbn [fst snd].
      - rewrite <- Hro. rewrite Hview. exact Hsec.
      - exists (q_maxcid o). pose proof (ao_blocks _ _ _ _ Ha) as Hall. rewrite Forall_forall in Hall. apply Hall. exact Hb. }
    destruct (cands_exist view (q_maxs o) bs offs Hcand) as (cands & Hm & Hf & Hi).
    rewrite <- Hm. rewrite (find_cid_cands view key kp (q_whole o) (q_zeof o) (q_maxs o) rb cands Hf).
    destruct (find (fun x => carries (q_whole o) key kp (snd x)) cands) as [x|] eqn:Ef.
    - apply find_some in Ef. destruct Ef as [Hin Hcar].
      destruct x as [off [c d]]. unfold found_of. cbn [fst snd] in *.
      replace (Z.of_N (blen d) =? -1)%Z with false by lia.
      exists c, d. rewrite Forall_forall in Hi. specialize (Hi _ Hin). cbn [snd] in Hi.
      repeat split; try assumption.
      + intros ->. reflexivity.
      + intros ->. rewrite Forall_forall in Hf. destruct (Hf _ Hin) as [Hsec (mc & Hb)]. cbn [fst snd] in *.
        apply sec_at_data; [exact Hsec|]. destruct Hb as (p & _ & _ & _ & _ & _ & Hb63). exact Hb63.
    - intros b Hb. destruct (carries (q_whole o) key kp b) eqn:Ecar; [exfalso|reflexivity].
      unfold carries in Ecar. destruct (cid_parse (fst b)) as [p|] eqn:Ep; [|discriminate].
      destruct (key_matches_mh _ _ _ _ _ Hk Ep Ecar) as [Hcode Hdig].
      assert (Hkeep : (wid || negb (is_identity p)) = true).
      { unfold recorded, is_identity in *. destruct (c_mhcode p =? 0) eqn:E0; [|apply orb_true_r].
        rewrite Hrec; [reflexivity|]. rewrite <- Hcode. exact E0. }
      destruct (payload_records_complete wid roots bs npad b p Hb Ep Hkeep) as (off & Hr & Hsec).
      pose proof (Hc kp _ Hr Hcode Hdig) as Hoff. cbn [r_off] in Hoff. fold offs in Hoff.
      rewrite <- Hm in Hoff. apply in_map_iff in Hoff. destruct Hoff as (x & Hx & Hxin).
      pose proof (find_none _ _ Ef x Hxin) as Hnone. cbn beta in Hnone.
      rewrite Forall_forall in Hf. destruct (Hf x Hxin) as [Hsx (mc & Hbx)].
      assert (Hall : Forall (rblock_ok (q_maxs o) (q_maxcid o)) bs) by apply (ao_blocks _ _ _ _ Ha).
      rewrite Forall_forall in Hall.
      assert (snd x = b).
      { apply (sec_at_unique view off (q_maxs o)).
        - rewrite <- Hx. exact Hsx.
        - rewrite Hview. exact Hsec.
        - eapply rblock_block_ok; exact Hbx.
        - eapply rblock_block_ok; apply Hall; exact Hb. }
      subst b. unfold carries in Hnone. rewrite Ep, Ecar in Hnone. discriminate.
  Qed.

  (* ---- the queries ------------------------------------------------------------------------------- *)
  Definition shortcut (o : qopts) (kp : cidp) : bool := negb (q_storeid o) && is_identity kp.
  (* the guard of the partial theorems, as an executable boolean: an identity key looked up under
     StoreIdentityCIDs needs an index that has identity entries *)
  Definition id_guard (o : qopts) (wid : bool) (kp : cidp) : bool :=
    negb (q_storeid o && is_identity kp) || wid.

  Lemma guard_recorded o wid kp : id_guard o wid kp = true -> shortcut o kp = false -> recorded wid kp.
  Proof.
    unfold id_guard, shortcut, recorded. intros Hg Hs Hi. rewrite Hi in *.
    destruct (q_storeid o), wid; cbn in *; congruence.
  Qed.

  Lemma existsb_carries_false o key kp bs :
    (forall b, In b bs -> carries (q_whole o) key kp b = false) -> existsb (carries (q_whole o) key kp) bs = false.
  Proof.
    intros H. destruct (existsb (carries (q_whole o) key kp) bs) eqn:E; [|reflexivity].
    apply existsb_exists in E. destruct E as (b & Hb & Hc). rewrite (H b Hb) in Hc. discriminate.
  Qed.
  Lemma existsb_carries_true o key kp bs b :
    In b bs -> carries (q_whole o) key kp b = true -> existsb (carries (q_whole o) key kp) bs = true.
  Proof. intros Hb Hc. apply existsb_exists. exists b. split; assumption. Qed.

  Theorem ro_has_spec s o wid roots bs npad key kp :
    arch_ok o roots bs npad -> opened s o wid roots bs npad ->
    blen (payload_np roots bs npad) < two63 ->
    cid_parse key = Some kp -> id_guard o wid kp = true ->
    ro_has s key = OBool (ref_has o key kp bs).
  Proof.
    intros Ha Ho H63 Hk Hg. unfold ro_has, ref_has. rewrite Hk.
    destruct Ho as (Hv & Hopts & Hidx). rewrite Hopts. fold (shortcut o kp).
    destruct (shortcut o kp) eqn:Es; [reflexivity|]. cbn [orb].
    pose proof (ro_find_spec s o wid roots bs npad key kp false Ha (conj Hv (conj Hopts Hidx)) H63 Hk
                  (guard_recorded o wid kp Hg Es)) as Hf.
    destruct (ro_find s key kp false) as [[[data doff] n]|e].
    - destruct Hf as (c & d & Hin & Hc & Hn & _). rewrite (existsb_carries_true o key kp bs (c, d) Hin Hc).
      f_equal. lia.
    - destruct e; try contradiction. rewrite (existsb_carries_false o key kp bs Hf). reflexivity.
  Qed.

  (* Get: the bytes of A section carrying the key (or the digest, for the identity short cut) *)
  Definition get_spec (o : qopts) (key : bytes) (kp : cidp) (bs : list block) (r : out) : Prop :=
    if shortcut o kp then r = OBytes (c_digest kp)
    else (existsb (carries (q_whole o) key kp) bs = true ->
            exists c d, In (c, d) bs /\ carries (q_whole o) key kp (c, d) = true /\ r = OBytes d) /\
         (existsb (carries (q_whole o) key kp) bs = false -> r = OErr ENotFound).

  Theorem ro_get_spec s o wid roots bs npad key kp :
    arch_ok o roots bs npad -> opened s o wid roots bs npad ->
    blen (payload_np roots bs npad) < two63 ->
    cid_parse key = Some kp -> id_guard o wid kp = true ->
    get_spec o key kp bs (ro_get s key).
  Proof.
    intros Ha Ho H63 Hk Hg. unfold ro_get, get_spec. rewrite Hk.
    destruct Ho as (Hv & Hopts & Hidx). rewrite Hopts. fold (shortcut o kp).
    destruct (shortcut o kp) eqn:Es; [reflexivity|].
    pose proof (ro_find_spec s o wid roots bs npad key kp true Ha (conj Hv (conj Hopts Hidx)) H63 Hk
                  (guard_recorded o wid kp Hg Es)) as Hf.
    destruct (ro_find s key kp true) as [[[data doff] n]|e].
    - destruct Hf as (c & d & Hin & Hc & Hn & Hd & _). rewrite (Hd eq_refl). split.
      + intros _. exists c, d. repeat split; assumption.
      + intros E. rewrite (existsb_carries_true o key kp bs (c, d) Hin Hc) in E. discriminate.
    - destruct e; try contradiction. split.
      + intros E. rewrite (existsb_carries_false o key kp bs Hf) in E. discriminate.
      + intros _. reflexivity.
  Qed.

  Theorem sto_get_spec s o wid roots bs npad key kp :
    arch_ok o roots bs npad -> opened s o wid roots bs npad ->
    blen (payload_np roots bs npad) < two63 ->
    cid_parse key = Some kp -> id_guard o wid kp = true ->
    get_spec o key kp bs (sto_get s key).
  Proof.
    intros Ha Ho H63 Hk Hg. unfold sto_get, get_spec. rewrite Hk.
    destruct Ho as (Hv & Hopts & Hidx). rewrite Hopts. fold (shortcut o kp).
    destruct (shortcut o kp) eqn:Es; [reflexivity|].
    pose proof (ro_find_spec s o wid roots bs npad key kp false Ha (conj Hv (conj Hopts Hidx)) H63 Hk
                  (guard_recorded o wid kp Hg Es)) as Hf.
    destruct (ro_find s key kp false) as [[[data doff] n]|e].
    - destruct Hf as (c & d & Hin & Hc & Hn & _ & Hd). rewrite Hn.
      replace (Z.of_N (blen d) <? 0)%Z with false by lia. rewrite N2Z.id, (Hd eq_refl). split.
      + intros _. exists c, d. repeat split; assumption.
      + intros E. rewrite (existsb_carries_true o key kp bs (c, d) Hin Hc) in E. discriminate.
    - destruct e; try contradiction. split.
      + intros E. rewrite (existsb_carries_false o key kp bs Hf) in E. discriminate.
      + intros _. reflexivity.
  Qed.

  (* GetSize: every identity key short-cuts to len(digest) (also under StoreIdentityCIDs -- see
     C07_getsize_refuted); otherwise the data length of a section carrying the key *)
  Definition getsize_spec (o : qopts) (key : bytes) (kp : cidp) (bs : list block) (r : out) : Prop :=
    if is_identity kp then r = OSize (Z.of_N (blen (c_digest kp)))
    else (existsb (carries (q_whole o) key kp) bs = true ->
            exists c d, In (c, d) bs /\ carries (q_whole o) key kp (c, d) = true /\ r = OSize (Z.of_N (blen d))) /\
         (existsb (carries (q_whole o) key kp) bs = false -> r = OErr ENotFound).

  Theorem ro_getsize_spec s o wid roots bs npad key kp :
    arch_ok o roots bs npad -> opened s o wid roots bs npad ->
    blen (payload_np roots bs npad) < two63 ->
    cid_parse key = Some kp ->
    getsize_spec o key kp bs (ro_getsize s key).
  Proof.
    intros Ha Ho H63 Hk. unfold ro_getsize, getsize_spec. rewrite Hk.
    destruct (is_identity kp) eqn:Ei; [reflexivity|].
    assert (Hrec : recorded wid kp) by (unfold recorded; congruence).
    pose proof (ro_find_spec s o wid roots bs npad key kp false Ha Ho H63 Hk Hrec) as Hf.
    destruct (ro_find s key kp false) as [[[data doff] n]|e].
    - destruct Hf as (c & d & Hin & Hc & Hn & _). rewrite Hn. split.
      + intros _. exists c, d. repeat split; assumption.
      + intros E. rewrite (existsb_carries_true o key kp bs (c, d) Hin Hc) in E. discriminate.
    - destruct e; try contradiction. split.
      + intros E. rewrite (existsb_carries_false o key kp bs Hf) in E. discriminate.
      + intros _. reflexivity.
  Qed.

  (* AllKeysChan: the scan's CID sequence, no error reported *)
  Theorem ro_keys_spec s o wid roots bs npad :
    arch_ok o roots bs npad -> opened s o wid roots bs npad ->
    blen (payload_np roots bs npad) < two63 ->
    ro_keys hdrdec s = KKeys (ref_keys (q_whole o) bs) None.
  Proof.
    intros Ha (Hv & Hopts & _) H63. unfold ro_keys. rewrite Hv, Hopts.
    rewrite (payload_read_header o roots bs npad Ha).
    rewrite blen_enc_header_roots. rewrite <- blen_ld.
    rewrite (keys_scan_sections s npad bs (ld (enc_header roots 1)) []).
    - rewrite Hopts. reflexivity.
    - rewrite Hopts. apply (ao_blocks _ _ _ _ Ha).
    - rewrite Hv. apply payload_np_split.
    - rewrite Hopts. apply (ao_npad _ _ _ _ Ha).
    - rewrite Hv. exact H63.
    - pose proof (enc_sections_length (fun _ _ => None) hdrdec bs). rewrite payload_np_split, !app_length. lia.
  Qed.

  Theorem ro_roots_spec s o wid roots bs npad :
    arch_ok o roots bs npad -> opened s o wid roots bs npad ->
    ro_roots hdrdec s = OKeys (hdr_roots roots).
  Proof.
    intros Ha (Hv & Hopts & _). unfold ro_roots. rewrite Hv, Hopts.
    rewrite (payload_read_header o roots bs npad Ha). reflexivity.
  Qed.

  (* two stores over the same archive (any index sources) agree; Get on hash-consistent sections *)
  Theorem get_specs_agree o key kp bs r1 r2 :
    cid_parse key = Some kp -> consistent bs ->
    get_spec o key kp bs r1 -> get_spec o key kp bs r2 -> r1 = r2.
  Proof.
    intros Hk Hcons. unfold get_spec. destruct (shortcut o kp); [congruence|].
    intros [H1t H1f] [H2t H2f].
    destruct (existsb (carries (q_whole o) key kp) bs) eqn:E.
    - destruct (H1t eq_refl) as (c1 & d1 & Hi1 & Hc1 & ->). destruct (H2t eq_refl) as (c2 & d2 & Hi2 & Hc2 & ->).
      f_equal. unfold carries in Hc1, Hc2. cbn [fst] in *.
      destruct (cid_parse c1) as [p1|] eqn:E1; [|discriminate].
      destruct (cid_parse c2) as [p2|] eqn:E2; [|discriminate].
      destruct (key_matches_mh _ _ _ _ _ Hk E1 Hc1) as [A1 B1].
      destruct (key_matches_mh _ _ _ _ _ Hk E2 Hc2) as [A2 B2].
      apply (Hcons (c1, d1) (c2, d2) p1 p2 Hi1 Hi2 E1 E2); congruence.
    - rewrite (H1f eq_refl), (H2f eq_refl). reflexivity.
  Qed.
End Refine.
