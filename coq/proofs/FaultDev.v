(* C16, part 1: the backing device under a fault script -- what write_at / write_chunks /
   truncate_to do to a file when the writes land at or beyond its end, and fault accounting. *)
From GoCar Require Import Bytes Varint Cid Header Frame V2Header Index Store Fault.
From GoCarProofs Require Import BytesFacts VarintFacts StoreInv.

(* ---- write_at (basic facts are in StoreInv.v) ------------------------------------------------- *)
(* overwrite a middle part of equal length *)
Lemma write_at_mid_eq a b c d : blen d = blen b ->
  write_at (a ++ b ++ c) (blen a) d = a ++ d ++ c.
Proof. intros Hl. rewrite write_at_mid, Hl, drop_app. reflexivity. Qed.

Lemma truncate_to_app f w : truncate_to (f ++ w) (blen f) = f.
Proof.
  unfold truncate_to. replace (blen f <=? blen (f ++ w)) with true by (rewrite blen_app; lia).
  apply take_app.
Qed.

Lemma zerosN_add a b : zerosN (a + b) = zerosN a ++ zerosN b.
Proof.
  unfold zerosN. rewrite Nnat.N2Nat.inj_add.
  induction (N.to_nat a) as [|k IH]; cbn [zeros Nat.add app]; [reflexivity|]. rewrite IH. reflexivity.
Qed.

(* ---- one write call --------------------------------------------------------------------------- *)
Lemma dev_write_ok dv off data dv' n :
  dev_write dv off data = (dv', n, true) ->
  d_file dv' = write_at (d_file dv) off data /\ n = blen data /\
  nfaults (d_faults dv') = nfaults (d_faults dv).
Proof.
  unfold dev_write. destruct (d_faults dv) as [|[k|] rest] eqn:E; intros H; inversion H; subst; cbn [d_file d_faults].
  - repeat split; reflexivity.
  - repeat split; reflexivity.
Qed.

(* a failing call: a prefix of the data got out, one fault was consumed *)
Lemma dev_write_fail dv off data dv' n :
  dev_write dv off data = (dv', n, false) ->
  exists part, d_file dv' = write_at (d_file dv) off part /\ n = blen part /\
               S (nfaults (d_faults dv')) = nfaults (d_faults dv).
Proof.
  unfold dev_write. destruct (d_faults dv) as [|[k|] rest] eqn:E; intros H; inversion H; subst; cbn [d_file d_faults].
  exists (take k data). repeat split; reflexivity.
Qed.

(* ---- consecutive calls starting at the end of the file -------------------------------------------- *)
Lemma write_chunks_end : forall chunks dv abs dv' abs' ok,
  abs = blen (d_file dv) ->
  write_chunks dv abs chunks = (dv', abs', ok) ->
  exists w, d_file dv' = d_file dv ++ w /\ abs' = abs + blen w /\
            (ok = true -> w = concat chunks /\ nfaults (d_faults dv') = nfaults (d_faults dv)) /\
            (ok = false -> (nfaults (d_faults dv') < nfaults (d_faults dv))%nat).
Proof.
  induction chunks as [|c t IH]; intros dv abs dv' abs' ok Habs H; cbn [write_chunks] in H.
  - inversion H; subst. exists []. rewrite app_nil_r. split; [reflexivity|]. split; [rewrite blen_nil; lia|].
    split; [intros _; split; reflexivity|discriminate].
  - destruct (dev_write dv abs c) as [[dv1 n] [|]] eqn:E.
    + apply dev_write_ok in E. destruct E as (Hf & Hn & Hnf). subst n abs.
      rewrite write_at_end in Hf.
      destruct (IH dv1 (blen (d_file dv) + blen c) dv' abs' ok) as (w & Hw & Ha & Hok & Hbad); [rewrite Hf, blen_app; reflexivity|exact H|].
      exists (c ++ w). rewrite Hw, Hf, <- app_assoc. split; [reflexivity|]. split; [rewrite blen_app; lia|].
      split.
      * intros Ht. destruct (Hok Ht) as [-> Hn2]. split; [reflexivity|]. rewrite Hn2. exact Hnf.
      * intros Hfalse. specialize (Hbad Hfalse). lia.
    + inversion H; subst. apply dev_write_fail in E. destruct E as (part & Hf & Hn & Hnf). subst n.
      rewrite write_at_end in Hf.
      exists part. split; [exact Hf|]. split; [reflexivity|]. split; [discriminate|intros _; lia].
Qed.

(* fault accounting for any start offset *)
Lemma write_chunks_nfaults : forall chunks dv abs dv' abs' ok,
  write_chunks dv abs chunks = (dv', abs', ok) ->
  (ok = true -> nfaults (d_faults dv') = nfaults (d_faults dv)) /\
  (nfaults (d_faults dv') <= nfaults (d_faults dv))%nat.
Proof.
  induction chunks as [|c t IH]; intros dv abs dv' abs' ok H; cbn [write_chunks] in H.
  - inversion H; subst. split; [reflexivity|lia].
  - destruct (dev_write dv abs c) as [[dv1 n] [|]] eqn:E.
    + apply dev_write_ok in E. destruct E as (_ & _ & Hnf).
      destruct (IH _ _ _ _ _ H) as [H1 H2]. split; [intros Ht; rewrite (H1 Ht); exact Hnf|lia].
    + inversion H; subst. apply dev_write_fail in E. destruct E as (part & _ & _ & Hnf).
      split; [discriminate|lia].
Qed.

(* successful consecutive calls whose first one lands at or beyond the end of the file *)
Lemma write_chunks_beyond c t dv abs dv' abs' :
  c <> [] -> blen (d_file dv) <= abs ->
  write_chunks dv abs (c :: t) = (dv', abs', true) ->
  d_file dv' = d_file dv ++ zerosN (abs - blen (d_file dv)) ++ concat (c :: t) /\
  abs' = abs + blen (concat (c :: t)) /\
  nfaults (d_faults dv') = nfaults (d_faults dv).
Proof.
  intros Hc Habs H. cbn [write_chunks] in H.
  destruct (dev_write dv abs c) as [[dv1 n] [|]] eqn:E; [|inversion H].
  apply dev_write_ok in E. destruct E as (Hf & Hn & Hnf). subst n.
  rewrite write_at_beyond in Hf by assumption.
  destruct (write_chunks_end t dv1 (abs + blen c) dv' abs' true) as (w & Hw & Ha & Hok & _).
  - rewrite Hf, !blen_app, blen_zerosN. lia.
  - exact H.
  - destruct (Hok eq_refl) as [-> Hn2]. split; [|split; [|rewrite Hn2; exact Hnf]].
    + rewrite Hw, Hf. cbn [concat]. rewrite <- !app_assoc. reflexivity.
    + cbn [concat]. rewrite blen_app. lia.
Qed.

Lemma write_chunks_beyond' chunks c t dv abs dv' abs' :
  chunks = c :: t -> c <> [] -> blen (d_file dv) <= abs ->
  write_chunks dv abs chunks = (dv', abs', true) ->
  d_file dv' = d_file dv ++ zerosN (abs - blen (d_file dv)) ++ concat chunks /\
  abs' = abs + blen (concat chunks) /\
  nfaults (d_faults dv') = nfaults (d_faults dv).
Proof. intros ->. apply write_chunks_beyond. Qed.

(* two successful calls overwriting a middle part *)
Lemma write_chunks_mid2 a b1 b2 c x y dv dv' abs' :
  d_file dv = a ++ (b1 ++ b2) ++ c -> x <> [] -> y <> [] -> blen x = blen b1 -> blen y = blen b2 ->
  write_chunks dv (blen a) [x; y] = (dv', abs', true) ->
  d_file dv' = a ++ (x ++ y) ++ c.
Proof.
  intros Hf Hx Hy Hlx Hly H. cbn [write_chunks] in H.
  destruct (dev_write dv (blen a) x) as [[dv1 n] [|]] eqn:E1; [|inversion H].
  apply dev_write_ok in E1. destruct E1 as (Hf1 & Hn & _). subst n.
  destruct (dev_write dv1 (blen a + blen x) y) as [[dv2 n2] [|]] eqn:E2; [|inversion H].
  apply dev_write_ok in E2. destruct E2 as (Hf2 & _ & _). inversion H; subst.
  rewrite Hf, <- app_assoc, write_at_mid_eq in Hf1 by assumption.
  rewrite Hf2, Hf1.
  replace (a ++ x ++ b2 ++ c) with ((a ++ x) ++ b2 ++ c) by (rewrite <- app_assoc; reflexivity).
  replace (blen a + blen x) with (blen (a ++ x)) by (rewrite blen_app; reflexivity).
  rewrite write_at_mid_eq by assumption. rewrite <- !app_assoc. reflexivity.
Qed.

(* ---- what the chunk lists add up to ----------------------------------------------------------- *)
Lemma concat_ld_chunks2 c d : concat (ld_chunks [c; d]) = enc_section c d.
Proof.
  unfold ld_chunks, enc_section. cbn [fold_left concat]. rewrite N.add_0_l, app_nil_r. reflexivity.
Qed.
Lemma concat_header_chunks nilroots roots :
  concat (header_chunks nilroots roots) = ld (enc_header (roots_opt nilroots roots) 1).
Proof.
  unfold header_chunks, ld_chunks, ld. cbn [fold_left concat]. rewrite N.add_0_l, app_nil_r. reflexivity.
Qed.
Lemma concat_v2hdr_chunks h : concat (v2hdr_chunks h) = enc_v2hdr h.
Proof. unfold v2hdr_chunks, enc_v2hdr. cbn [concat]. rewrite app_nil_r, <- !app_assoc. reflexivity. Qed.

Lemma concat_concat_map {A} (f : A -> list bytes) l :
  concat (concat (map f l)) = concat (map (fun x => concat (f x)) l).
Proof.
  induction l as [|x l IH]; cbn [map concat]; [reflexivity|]. rewrite concat_app, IH. reflexivity.
Qed.
Lemma concat_swi_chunks b : concat (swi_chunks b) = swi_marshal b.
Proof. unfold swi_chunks, swi_marshal. cbn [concat]. rewrite app_nil_r. reflexivity. Qed.
Lemma concat_mwi_chunks m : concat (mwi_chunks m) = mwi_marshal m.
Proof.
  unfold mwi_chunks, mwi_marshal. cbn [concat]. f_equal. rewrite concat_concat_map.
  f_equal. apply map_ext. intros b. apply concat_swi_chunks.
Qed.
Lemma concat_idx_chunks i : concat (idx_chunks i) = idx_write i.
Proof.
  unfold idx_chunks, idx_write. cbn [concat]. f_equal. destruct i as [m|m]; cbn [idx_marshal].
  - apply concat_mwi_chunks.
  - unfold mh_marshal. cbn [concat]. f_equal. rewrite concat_concat_map. f_equal. apply map_ext.
    intros cm. cbn [concat]. f_equal. apply concat_mwi_chunks.
Qed.

(* ---- what writes cannot touch, whatever the script does ------------------------------------------------- *)
Lemma dev_write_any dv off data dv' n ok :
  dev_write dv off data = (dv', n, ok) ->
  exists part, d_file dv' = write_at (d_file dv) off part /\ n = blen part /\ blen part <= blen data.
Proof.
  destruct ok; intros H.
  - apply dev_write_ok in H. destruct H as (Hf & Hn & _). exists data. repeat split; try assumption. lia.
  - unfold dev_write in H. destruct (d_faults dv) as [|[k|] rest]; inversion H; subst; cbn [d_file].
    exists (take k data). repeat split. rewrite blen_take. lia.
Qed.

(* calls at or beyond the end of [a] keep [a] *)
Lemma write_chunks_keeps_prefix a : forall chunks dv abs dv' abs' ok b,
  d_file dv = a ++ b -> blen a <= abs ->
  write_chunks dv abs chunks = (dv', abs', ok) -> exists b', d_file dv' = a ++ b'.
Proof.
  induction chunks as [|c t IH]; intros dv abs dv' abs' ok b Hf Ha H; cbn [write_chunks] in H.
  - inversion H; subst. exists b. exact Hf.
  - destruct (dev_write dv abs c) as [[dv1 n] ok1] eqn:E.
    destruct (dev_write_any _ _ _ _ _ _ E) as (part & Hf1 & Hn & _).
    rewrite Hf in Hf1. destruct (write_at_keeps_prefix a b abs part Ha) as (b1 & Hb1). rewrite Hb1 in Hf1.
    destruct ok1.
    + apply (IH dv1 (abs + n) dv' abs' ok b1 Hf1); [lia|exact H].
    + inversion H; subst. exists b1. exact Hf1.
Qed.

(* calls that stay inside [pre] keep what follows it, and its length *)
Lemma write_chunks_inside_prefix rest : forall chunks dv abs dv' abs' ok pre,
  d_file dv = pre ++ rest -> abs + blen (concat chunks) <= blen pre ->
  write_chunks dv abs chunks = (dv', abs', ok) ->
  exists pre', d_file dv' = pre' ++ rest /\ blen pre' = blen pre.
Proof.
  induction chunks as [|c t IH]; intros dv abs dv' abs' ok pre Hf Ha H; cbn [write_chunks] in H.
  - inversion H; subst. exists pre. split; [exact Hf|reflexivity].
  - cbn [concat] in Ha. rewrite blen_app in Ha.
    destruct (dev_write dv abs c) as [[dv1 n] ok1] eqn:E.
    destruct (dev_write_any _ _ _ _ _ _ E) as (part & Hf1 & Hn & Hle).
    rewrite Hf in Hf1.
    destruct (write_at_inside_prefix pre rest abs part ltac:(lia)) as (pre1 & Hp1 & Hl1). rewrite Hp1 in Hf1.
    destruct ok1.
    + destruct (IH dv1 (abs + n) dv' abs' ok pre1 Hf1 ltac:(lia) H) as (pre2 & Hp2 & Hl2).
      exists pre2. split; [exact Hp2|lia].
    + inversion H; subst. exists pre1. split; [exact Hf1|exact Hl1].
Qed.
