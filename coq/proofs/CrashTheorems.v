(* C06: the statements of props/C06.v over whole sessions (Crash.csess). *)
From GoCar Require Import Bytes Varint Cid Header Frame V2Header Index Scan Store Crash.
From GoCarProofs Require Import BytesFacts VarintFacts CidFacts ResumeFacts ResumeInv ResumeReject
     CrashImage CrashScan CrashResume CrashPut CrashDev CrashPartial CrashResumePhase.

Lemma put_class_range bs : forall s kk t cl, put_class s bs kk t = Some cl ->
  cl = CBoundary \/ cl = CHead \/ cl = CData.
Proof.
  induction bs as [|[c d] r IH]; intros s kk t cl H; cbn [put_class] in H; [discriminate|].
  destruct (_ <=? kk)%nat; [eapply IH; exact H|].
  destruct kk as [|[|kk']]; injection H as <-.
  - destruct (t =? 0); auto.
  - destruct (t <? blen c); [auto|]. destruct (blen d =? 0); auto.
  - destruct (blen d <=? t); auto.
Qed.

Section T.
  Variable hdrdec : bytes -> option (list bytes * N).
  Variables (k : skind) (o : wopts) (nilroots : bool) (roots : list bytes).
  Hypothesis Hpar : params_ok hdrdec o nilroots roots.
  Hypothesis Hkind : kind_ok k o.

  Notation Inv := (Inv k o nilroots roots).
  Notation abs_puts := (abs_puts o nilroots roots).
  Notation budget := (budget o nilroots roots).
  Notation cut_file := (cut_file o nilroots roots).

  Lemma cut_file_nonempty c st : cut_file c st <> [].
  Proof.
    unfold ResumeInv.cut_file. destruct c; [apply live_file_nonempty|].
    destruct (w_v1 o); [apply live_file_nonempty|].
    destruct (ii_flatten _ _); [apply fin_file_nonempty|apply live_file_nonempty].
  Qed.

  Notation live_file := (live_file o nilroots roots).
  Notation resumed_state := (resumed_state k o nilroots roots).

  (* reopening what a segment end leaves: which file it was and which writes Resume issued *)
  Lemma reopen_cut_forms c st : Forall stored_ok st -> fits o nilroots roots st ->
    (cut_file c st = live_file st /\
     reopen hdrdec k o nilroots roots (cut_file c st) = inl (resumed_state (if w_v1 o then [] else zero_hdr_log) st)) \/
    (w_v1 o = false /\ exists fi, cut_file c st = fin_file o nilroots roots st fi /\
     reopen hdrdec k o nilroots roots (cut_file c st) =
       inl (resumed_state (zero_hdr_log ++ [Trunc (51 + w_dpad o + pos_of nilroots roots st)]) st)).
  Proof.
    intros Hc Hfit.
    assert (Hlive : reopen hdrdec k o nilroots roots (live_file st) = inl (resumed_state (if w_v1 o then [] else zero_hdr_log) st)).
    { rewrite (reopen_nonempty hdrdec k o nilroots roots) by apply live_file_nonempty.
      apply (resume_live hdrdec k o nilroots roots Hpar st Hc Hfit). }
    unfold ResumeInv.cut_file. destruct c; [left; split; [reflexivity|exact Hlive]|].
    destruct (w_v1 o) eqn:Ev; [left; split; [reflexivity|exact Hlive]|].
    destruct (ii_flatten (w_codec o) (idx_of nilroots roots st)) as [fi|]; [|left; split; [reflexivity|exact Hlive]].
    right. split; [reflexivity|]. exists fi. split; [reflexivity|].
    rewrite (reopen_nonempty hdrdec k o nilroots roots) by apply fin_file_nonempty.
    apply (resume_fin hdrdec k o nilroots roots Hpar st fi Hc Hfit Ev).
  Qed.

  (* a block whose Put returned nil is, afterwards, either an identity block that is not stored or
     present under its key in the stored list *)
  Definition present (st : list block) (b : block) : Prop :=
    exists b', In b' st /\ fst b' = fst b.

  (* the earlier processes of a session: the last one starts in the invariant state of all the
     earlier puts, its log replays the file it was given, and -- if there was an earlier process --
     it started by resuming in one of the two ways of CrashResumePhase *)
  Lemma run_segs_f_inv segs : forall s st f0 acked f0' start acked',
    Inv s st -> dev_ok f0 (ws_dev s) -> budget st (concat (map fst segs)) ->
    run_segs_f hdrdec nilroots f0 s acked segs = Some (f0', start, acked') ->
    let st' := abs_puts st (concat (map fst segs)) in
    Inv start st' /\ dev_ok f0' (ws_dev start) /\
    (segs <> [] ->
       (w_v1 o = true -> loglen start = 0%nat) /\
       (w_v1 o = false -> resumed_start k o nilroots roots f0' start st')).
  Proof.
    induction segs as [|[bs c] r IH]; intros s st f0 acked f0' start acked' HI Hdev Hb H; cbv zeta.
    - cbn [run_segs_f] in H. injection H as <- <- <-. cbn [map concat]. unfold ResumeInv.abs_puts. cbn [fold_left].
      split; [exact HI|]. split; [exact Hdev|]. intros X. congruence.
    - cbn [run_segs_f map concat fst] in *. unfold ResumeInv.budget in Hb.
      rewrite enc_sections_app, blen_app in Hb.
      assert (HI1 : Inv (run_puts s bs) (abs_puts st bs)) by (apply (run_puts_inv hdrdec k o nilroots roots Hpar); [exact HI|lia]).
      rewrite (end_seg_file k o nilroots roots _ _ c HI1) in H.
      rewrite (inv_kind _ _ _ _ _ _ HI), (inv_opts _ _ _ _ _ _ HI), (inv_roots _ _ _ _ _ _ HI) in H.
      pose proof (abs_puts_size o nilroots roots bs st) as Hsz.
      pose proof (inv_cids _ _ _ _ _ _ HI1) as Hc1. pose proof (inv_fits _ _ _ _ _ _ HI1) as Hf1.
      rewrite abs_puts_app.
      assert (Hstep : exists log, reopen hdrdec k o nilroots roots (cut_file c (abs_puts st bs)) = inl (resumed_state log (abs_puts st bs)) /\
                (w_v1 o = true -> log = []) /\
                (w_v1 o = false -> resumed_start k o nilroots roots (cut_file c (abs_puts st bs)) (resumed_state log (abs_puts st bs)) (abs_puts st bs))).
      { destruct (reopen_cut_forms c (abs_puts st bs) Hc1 Hf1) as [[Hcf Hre]|(Ev & fi & Hcf & Hre)].
        - eexists. split; [exact Hre|]. split; [intros ->; reflexivity|].
          intros Ev. rewrite Ev. apply rs_live; [exact Hcf|reflexivity].
        - eexists. split; [exact Hre|]. split; [congruence|].
          intros _. apply (rs_fin _ _ _ _ _ _ _ fi); [exact Hcf|reflexivity]. }
      destruct Hstep as (log & Hre & Hlv1 & Hlv2).
      rewrite Hre in H.
      assert (HIr : Inv (resumed_state log (abs_puts st bs)) (abs_puts st bs)) by (apply resumed_state_inv; assumption).
      assert (Hdr : dev_ok (cut_file c (abs_puts st bs)) (ws_dev (resumed_state log (abs_puts st bs)))).
      { apply (resume_dev_ok hdrdec k true o roots _ []).
        rewrite <- (reopen_nonempty hdrdec k o nilroots roots _ (cut_file_nonempty c _)). exact Hre. }
      destruct r as [|sg r'].
      + cbn [run_segs_f] in H. injection H as <- <- <-. cbn [map concat]. unfold ResumeInv.abs_puts at 1. cbn [fold_left].
        split; [exact HIr|]. split; [exact Hdr|]. intros _. split; [intros Ev; rewrite (Hlv1 Ev); reflexivity|exact Hlv2].
      + destruct (IH _ (abs_puts st bs) _ _ _ _ _ HIr Hdr ltac:(unfold ResumeInv.budget; lia) H) as (HI' & Hdev' & Hform).
        split; [exact HI'|]. split; [exact Hdev'|]. intros _. apply Hform. discriminate.
  Qed.

  Variable x : csess.
  Hypothesis Hxk : cs_kind x = k.
  Hypothesis Hxo : cs_opts x = o.
  Hypothesis Hxn : cs_nil x = nilroots.
  Hypothesis Hxr : cs_roots x = roots.
  Hypothesis Hbud : budget [] (concat (map fst (cs_pre x)) ++ cs_puts x).

  Notation open_state := (open_state k o nilroots roots).

  Lemma cs_start_inv f0 start acked_pre :
    cs_start hdrdec x = Some (f0, start, acked_pre) ->
    let st0 := abs_puts [] (concat (map fst (cs_pre x))) in
    Inv start st0 /\ dev_ok f0 (ws_dev start) /\ budget st0 (cs_puts x) /\
    (cs_pre x = [] -> f0 = [] /\ start = open_state) /\
    (cs_pre x <> [] ->
       (w_v1 o = true -> loglen start = 0%nat) /\
       (w_v1 o = false -> resumed_start k o nilroots roots f0 start st0)).
  Proof.
    unfold cs_start. rewrite Hxk, Hxo, Hxn, Hxr. cbv zeta.
    unfold ResumeInv.budget in Hbud. change (enc_sections []) with (@nil byte) in Hbud. rewrite blen_nil in Hbud.
    rewrite enc_sections_app, blen_app in Hbud.
    assert (Hfit0 : fits o nilroots roots []).
    { unfold fits. change (enc_sections []) with (@nil byte). rewrite blen_nil. lia. }
    rewrite (open_new_eq k o nilroots roots Hkind Hfit0).
    pose proof (open_state_inv k o nilroots roots Hfit0) as HI0.
    assert (Hdev0 : dev_ok [] (ws_dev open_state))
      by (apply (open_new_dev_ok k o nilroots roots [] _ (open_new_eq k o nilroots roots Hkind Hfit0))).
    intros H.
    destruct (run_segs_f_inv (cs_pre x) open_state [] [] [] f0 start acked_pre HI0 Hdev0) as (HI & Hdev & Hform);
      [unfold ResumeInv.budget; change (enc_sections []) with (@nil byte); rewrite blen_nil; unfold block in *; lia|exact H|].
    pose proof (abs_puts_size o nilroots roots (concat (map fst (cs_pre x))) []) as Hsz.
    change (enc_sections []) with (@nil byte) in Hsz. rewrite blen_nil in Hsz.
    split; [exact HI|]. split; [exact Hdev|]. split; [unfold ResumeInv.budget; unfold block in *; lia|].
    split; [|exact Hform].
    intros Epre. rewrite Epre in H. cbn [run_segs_f] in H. injection H as <- <- _. split; reflexivity.
  Qed.

  (* the log of the crashing process *)
  Lemma cs_writes_shape start st0 : Inv start st0 -> budget st0 (cs_puts x) ->
    exists F, cs_writes x start = writes_of (ws_dev start) ++ sess_writes o nilroots roots st0 (cs_puts x) ++ F /\
      loglen (cs_after_puts x start) = (loglen start + length (sess_writes o nilroots roots st0 (cs_puts x)))%nat /\
      loglen (cs_end x start) = (loglen (cs_after_puts x start) + length F)%nat.
  Proof.
    intros HI Hb. unfold cs_writes, cs_end, cs_after_puts.
    pose proof (run_puts_log hdrdec k o nilroots roots Hpar (cs_puts x) start st0 HI Hb) as Hlog.
    assert (Hl1 : loglen (run_puts start (cs_puts x)) = (loglen start + length (sess_writes o nilroots roots st0 (cs_puts x)))%nat)
      by (rewrite !loglen_writes, Hlog, app_length; reflexivity).
    destruct (cs_fin x).
    - destruct (dev_good_fe_finalize [] (run_puts start (cs_puts x))) as [_ (F & HF)].
      exists F. rewrite HF, Hlog, <- app_assoc. split; [reflexivity|]. split; [exact Hl1|].
      rewrite !loglen_writes, HF, app_length. reflexivity.
    - exists []. rewrite Hlog, app_nil_r. split; [reflexivity|]. split; [exact Hl1|]. cbn [length]. lia.
  Qed.

  (* ---- C06_partial ---------------------------------------------------------------------------- *)
  Theorem partial_thm f0 start acked_pre kk t :
    cs_start hdrdec x = Some (f0, start, acked_pre) ->
    crash_guard x start kk t = true ->
    let img := image f0 (cs_writes x start) kk t in
    refused_untouched hdrdec k o nilroots roots img \/
    resumed_exactly hdrdec k o nilroots roots (abs_puts [] (concat (map fst (cs_pre x)))) (cs_puts x) (cs_done x start kk) img.
  Proof.
    intros Hst Hg. cbv zeta.
    destruct (cs_start_inv f0 start acked_pre Hst) as (HI & Hdev & Hb & Hfresh & Hres).
    set (st0 := abs_puts [] (concat (map fst (cs_pre x)))) in *.
    destruct (cs_writes_shape start st0 HI Hb) as (F & HW & Hl1 & Hl2).
    unfold crash_guard, crash_class in Hg. unfold cs_done.
    destruct (loglen (cs_end x start) <=? kk)%nat eqn:E1; [discriminate|].
    destruct (kk <? loglen start)%nat eqn:E2.
    - (* inside the start writes *)
      destruct (cs_pre x) as [|sg pre'] eqn:Epre.
      + (* a fresh open *)
        destruct (Hfresh eq_refl) as (-> & ->).
        assert (Est : st0 = []) by (unfold st0; reflexivity). rewrite Est in *.
        rewrite HW, (open_writes_eq k o nilroots roots).
        rewrite loglen_writes, (open_writes_eq k o nilroots roots) in E2.
        apply (open_phase_crash hdrdec k o nilroots roots Hpar (cs_puts x) kk t _ Hkind Hb).
        apply Nat.ltb_lt. exact E2.
      + (* the writes Resume itself issued *)
        apply Nat.ltb_lt in E2.
        destruct (Hres ltac:(discriminate)) as (Hr1 & Hr2).
        destruct (w_v1 o) eqn:Ev; [rewrite (Hr1 eq_refl) in E2; lia|].
        rewrite HW.
        destruct (resume_phase_images hdrdec k o nilroots roots Hpar Ev f0 start st0 kk t (sess_writes o nilroots roots st0 (cs_puts x) ++ F) (Hr2 eq_refl)
                    (inv_cids _ _ _ _ _ _ HI) (inv_fits _ _ _ _ _ _ HI) E2) as (Hne & [(log & Hr)|Hr]).
        * right. exists log, 0%nat. split; [unfold block; lia|].
          rewrite (reopen_nonempty hdrdec k o nilroots roots _ Hne). cbn [firstn].
          unfold ResumeInv.abs_puts at 1. cbn [fold_left]. exact Hr.
        * left. exists EOther. eexists.
          split; [rewrite (reopen_nonempty hdrdec k o nilroots roots _ Hne); exact Hr|reflexivity].
    - apply Nat.ltb_ge in E2. apply Nat.leb_gt in E1.
      pose proof (put_phase_crash hdrdec k o nilroots roots Hpar f0 start st0 (cs_puts x) (cs_writes x start)
                    (kk - loglen start) t HI Hdev Hb (ex_intro _ F HW)) as Hpp.
      cbv zeta in Hpp. replace (loglen start + (kk - loglen start))%nat with kk in Hpp by lia.
      destruct (put_class start (cs_puts x) (kk - loglen start) t) as [cl|] eqn:Epc.
      { destruct (put_class_range _ _ _ _ _ Epc) as [->|[->| ->]]; [right; exact Hpp|left; exact Hpp|discriminate]. }
      (* all puts done: only the boundary before Finalize's first write is covered *)
      destruct ((kk =? loglen (cs_after_puts x start))%nat && (t =? 0)) eqn:E3.
      + apply andb_true_iff in E3. destruct E3 as [E3 E4]. apply Nat.eqb_eq in E3.
        right. apply Hpp; [lia|lia].
      + destruct (S kk =? loglen (cs_end x start))%nat; [|discriminate].
        destruct (t =? 0); [discriminate|]. destruct (t <? 24); discriminate.
  Qed.

  (* ---- C06_header_complete: all writes done -------------------------------------------------------- *)
  Theorem complete_thm f0 start acked_pre kk t :
    cs_start hdrdec x = Some (f0, start, acked_pre) ->
    (loglen (cs_end x start) <= kk)%nat ->
    resumed_exactly hdrdec k o nilroots roots (abs_puts [] (concat (map fst (cs_pre x)))) (cs_puts x) (length (cs_puts x))
                    (image f0 (cs_writes x start) kk t).
  Proof.
    intros Hst Hk.
    destruct (cs_start_inv f0 start acked_pre Hst) as (HI & Hdev & Hb & _).
    set (st0 := abs_puts [] (concat (map fst (cs_pre x)))) in *.
    rewrite image_all by (unfold cs_writes; rewrite <- loglen_writes; exact Hk).
    assert (Hrep : replay f0 (cs_writes x start) = ws_file (cs_end x start)).
    { unfold cs_writes, cs_end.
      pose proof (dev_good_run_puts f0 (cs_puts x) start) as [Hok1 _]. specialize (Hok1 Hdev).
      destruct (cs_fin x); [|exact Hok1].
      destruct (dev_good_fe_finalize f0 (run_puts start (cs_puts x))) as [Hok2 _]. exact (Hok2 Hok1). }
    rewrite Hrep.
    assert (HIp : Inv (run_puts start (cs_puts x)) (abs_puts st0 (cs_puts x)))
      by (apply (run_puts_inv hdrdec k o nilroots roots Hpar); [exact HI|exact Hb]).
    assert (Hfile : exists c, ws_file (cs_end x start) = cut_file c (abs_puts st0 (cs_puts x))).
    { unfold cs_end, cs_after_puts. destruct (cs_fin x).
      - exists CFinalize. apply (end_seg_file k o nilroots roots _ _ CFinalize HIp).
      - exists CDiscard. apply (inv_file _ _ _ _ _ _ HIp). }
    destruct Hfile as (c & ->).
    destruct (reopen_after_cut hdrdec k o nilroots roots Hpar c _ (inv_cids _ _ _ _ _ _ HIp) (inv_fits _ _ _ _ _ _ HIp))
      as (log & Hre).
    exists log, (length (cs_puts x)). split; [unfold block; lia|rewrite firstn_all; exact Hre].
  Qed.
End T.

(* ---- the statements in the form props/C06.v spells out ---------------------------------------------- *)
Theorem C06_partial_thm :
  forall (hdrdec : bytes -> option (list bytes * N)) (x : csess) (f0 : bytes) (start : wstate)
         (acked_pre : list (bytes * bytes)) (k : nat) (t : N),
    let o := cs_opts x in
    let hdr := enc_header (roots_opt (cs_nil x) (cs_roots x)) 1 in
    hdrdec hdr = Some (cs_roots x, 1) ->
    (exists r, hdrdec pragma_body = Some (r, 2)) ->
    blen hdr <= w_maxh o -> w_maxcid o <= max_digest_alloc ->
    match cs_kind x with KStorage false => negb (w_v1 o) | _ => false end = false ->
    51 + w_dpad o + w_ipad o + ld_size (blen hdr)
      + blen (enc_sections (concat (map fst (cs_pre x)) ++ cs_puts x)) < two63 ->
    cs_start hdrdec x = Some (f0, start, acked_pre) ->
    crash_guard x start k t = true ->
    let img := image f0 (cs_writes x start) k t in
    (exists e dv, reopen hdrdec (cs_kind x) o (cs_nil x) (cs_roots x) img = inr (e, dv) /\ d_file dv = img)
    \/
    (exists s1 j, reopen hdrdec (cs_kind x) o (cs_nil x) (cs_roots x) img = inl s1 /\
       (cs_done x start k <= j <= length (cs_puts x))%nat /\
       let sj := run_puts start (firstn j (cs_puts x)) in
       ws_file s1 = ws_file sj /\ ws_idx s1 = ws_idx sj /\ ws_pos s1 = ws_pos sj /\
       forall more, 51 + w_dpad o + w_ipad o + ws_pos sj + blen (enc_sections more) < two63 ->
         ws_file (fst (fe_finalize (run_puts s1 more))) = ws_file (fst (fe_finalize (run_puts sj more)))).
Proof.
  intros hdrdec x f0 start acked_pre k t o hdr H1 H2 H3 H5 H6 H7 Hst Hg.
  assert (Hpar : params_ok hdrdec o (cs_nil x) (cs_roots x)) by (constructor; assumption).
  assert (Hb : budget o (cs_nil x) (cs_roots x) [] (concat (map fst (cs_pre x)) ++ cs_puts x)).
  { unfold budget. change (enc_sections []) with (@nil byte). rewrite blen_nil. unfold hsz, ResumeInv.hdr. fold hdr. lia. }
  destruct (cs_start_inv hdrdec (cs_kind x) o (cs_nil x) (cs_roots x) Hpar H6 x eq_refl eq_refl eq_refl eq_refl Hb
              f0 start acked_pre Hst) as (HI & _ & Hb0 & _).
  destruct (partial_thm hdrdec (cs_kind x) o (cs_nil x) (cs_roots x) Hpar H6 x eq_refl eq_refl eq_refl eq_refl Hb
                        f0 start acked_pre k t Hst Hg) as [Hl|Hr]; [left; exact Hl|right].
  exact (resumed_exactly_weaken hdrdec (cs_kind x) o (cs_nil x) (cs_roots x) Hpar start _ _ _ _ HI Hb0 Hr).
Qed.

Theorem C06_header_complete_thm :
  forall (hdrdec : bytes -> option (list bytes * N)) (x : csess) (f0 : bytes) (start : wstate)
         (acked_pre : list (bytes * bytes)) (k : nat) (t : N),
    let o := cs_opts x in
    let hdr := enc_header (roots_opt (cs_nil x) (cs_roots x)) 1 in
    hdrdec hdr = Some (cs_roots x, 1) ->
    (exists r, hdrdec pragma_body = Some (r, 2)) ->
    blen hdr <= w_maxh o -> w_maxcid o <= max_digest_alloc ->
    match cs_kind x with KStorage false => negb (w_v1 o) | _ => false end = false ->
    51 + w_dpad o + w_ipad o + ld_size (blen hdr)
      + blen (enc_sections (concat (map fst (cs_pre x)) ++ cs_puts x)) < two63 ->
    cs_start hdrdec x = Some (f0, start, acked_pre) ->
    (loglen (cs_end x start) <= k)%nat ->
    let img := image f0 (cs_writes x start) k t in
    exists s1 j, reopen hdrdec (cs_kind x) o (cs_nil x) (cs_roots x) img = inl s1 /\
       (length (cs_puts x) <= j <= length (cs_puts x))%nat /\
       let sj := run_puts start (firstn j (cs_puts x)) in
       ws_file s1 = ws_file sj /\ ws_idx s1 = ws_idx sj /\ ws_pos s1 = ws_pos sj /\
       forall more, 51 + w_dpad o + w_ipad o + ws_pos sj + blen (enc_sections more) < two63 ->
         ws_file (fst (fe_finalize (run_puts s1 more))) = ws_file (fst (fe_finalize (run_puts sj more))).
Proof.
  intros hdrdec x f0 start acked_pre k t o hdr H1 H2 H3 H5 H6 H7 Hst Hk.
  assert (Hpar : params_ok hdrdec o (cs_nil x) (cs_roots x)) by (constructor; assumption).
  assert (Hb : budget o (cs_nil x) (cs_roots x) [] (concat (map fst (cs_pre x)) ++ cs_puts x)).
  { unfold budget. change (enc_sections []) with (@nil byte). rewrite blen_nil. unfold hsz, ResumeInv.hdr. fold hdr. lia. }
  destruct (cs_start_inv hdrdec (cs_kind x) o (cs_nil x) (cs_roots x) Hpar H6 x eq_refl eq_refl eq_refl eq_refl Hb
              f0 start acked_pre Hst) as (HI & _ & Hb0 & _).
  exact (resumed_exactly_weaken hdrdec (cs_kind x) o (cs_nil x) (cs_roots x) Hpar start _ _ _ _ HI Hb0
           (complete_thm hdrdec (cs_kind x) o (cs_nil x) (cs_roots x) Hpar H6 x eq_refl eq_refl eq_refl eq_refl Hb
                         f0 start acked_pre k t Hst Hk)).
Qed.
