(* C05 groundwork: the backing file under WriteAt (append, zero-filled hole, overwrite) and a few
   list facts. *)
From GoCar Require Import Bytes Varint Cid Header Frame V2Header Index Store.
From GoCarProofs Require Import BytesFacts VarintFacts.

Lemma zerosN_add a b : zerosN (a + b) = zerosN a ++ zerosN b.
Proof.
  unfold zerosN. rewrite Nnat.N2Nat.inj_add. induction (N.to_nat a) as [|n IH]; cbn; [reflexivity|].
  rewrite IH. reflexivity.
Qed.
Lemma zerosN_0 : zerosN 0 = [].
Proof. reflexivity. Qed.

Lemma blen_0_nil (a : bytes) : blen a = 0 -> a = [].
Proof. destruct a; [reflexivity|rewrite blen_cons; lia]. Qed.
Lemma blen_pos_cons (a : bytes) : a <> [] -> 0 < blen a.
Proof. destruct a; [congruence|rewrite blen_cons; lia]. Qed.

Lemma take_take_le n m (a : bytes) : n <= m -> take n (take m a) = take n a.
Proof.
  intros H. rewrite !take_firstn, firstn_firstn. f_equal. lia.
Qed.

Lemma drop_take_app n (a : bytes) : drop n a = drop n a.
Proof. reflexivity. Qed.

(* ---- write_at ------------------------------------------------------------------------------- *)
Lemma write_at_nil f off : write_at f off [] = f.
Proof. reflexivity. Qed.

Lemma write_at_le f off d : d <> [] -> off <= blen f ->
  write_at f off d = take off f ++ d ++ drop (off + blen d) f.
Proof.
  intros Hd H. unfold write_at. destruct d; [congruence|].
  replace (off <=? blen f) with true by lia. reflexivity.
Qed.
Lemma write_at_gt f off d : d <> [] -> blen f < off ->
  write_at f off d = f ++ zerosN (off - blen f) ++ d.
Proof.
  intros Hd H. unfold write_at. destruct d; [congruence|].
  replace (off <=? blen f) with false by lia. reflexivity.
Qed.

(* appending at or beyond the end: the hole reads back as zeros *)
Lemma write_at_beyond f off d : d <> [] -> blen f <= off ->
  write_at f off d = f ++ zerosN (off - blen f) ++ d.
Proof.
  intros Hd H. destruct (N.eq_dec off (blen f)) as [->|Hne].
  - rewrite write_at_le by (try assumption; lia). rewrite take_all, N.sub_diag, zerosN_0.
    rewrite drop_ge by lia. rewrite app_nil_r. reflexivity.
  - apply write_at_gt; [assumption|lia].
Qed.
Lemma write_at_end f d : write_at f (blen f) d = f ++ d.
Proof.
  destruct d as [|x d]; [rewrite app_nil_r; reflexivity|].
  rewrite write_at_beyond by (try discriminate; lia). rewrite N.sub_diag. reflexivity.
Qed.

(* overwriting a region in the middle *)
Lemma write_at_over a m b d : blen d = blen m -> write_at (a ++ m ++ b) (blen a) d = a ++ d ++ b.
Proof.
  intros H. destruct d as [|x d].
  - rewrite blen_nil in H. symmetry in H. apply blen_0_nil in H. subst. reflexivity.
  - rewrite write_at_le by (try discriminate; rewrite blen_app; lia).
    rewrite take_app. rewrite drop_app_ge by lia.
    replace (blen a + blen (x :: d) - blen a) with (blen m) by lia. rewrite drop_app. reflexivity.
Qed.

Lemma blen_write_at f off d : d <> [] -> blen (write_at f off d) = N.max (blen f) (off + blen d).
Proof.
  intros Hd. destruct (off <=? blen f) eqn:E.
  - rewrite write_at_le by (try assumption; lia). rewrite !blen_app, blen_take, blen_drop. lia.
  - rewrite write_at_gt by (try assumption; lia). rewrite !blen_app, blen_zerosN. lia.
Qed.

(* two consecutive Write calls through a position-tracking writer are one write of the
   concatenation *)
Lemma write_at_write_at f off c1 c2 :
  write_at (write_at f off c1) (off + blen c1) c2 = write_at f off (c1 ++ c2).
Proof.
  destruct c1 as [|x1 c1].
  { rewrite write_at_nil, blen_nil, N.add_0_r. reflexivity. }
  destruct c2 as [|x2 c2].
  { rewrite write_at_nil, app_nil_r. reflexivity. }
  set (d1 := x1 :: c1) in *. set (d2 := x2 :: c2) in *.
  assert (H1 : d1 <> []) by discriminate. assert (H2 : d2 <> []) by discriminate.
  assert (H12 : d1 ++ d2 <> []) by (unfold d1; discriminate).
  destruct (off <=? blen f) eqn:E.
  - rewrite (write_at_le f off d1) by (try assumption; lia).
    rewrite (write_at_le f off (d1 ++ d2)) by (try assumption; lia).
    set (T := take off f). set (R := drop (off + blen d1) f).
    assert (Ht : blen T = off) by (unfold T; rewrite blen_take; lia).
    rewrite write_at_le; [|assumption|rewrite !blen_app, Ht; lia].
    assert (E1 : take (off + blen d1) (T ++ d1 ++ R) = T ++ d1).
    { replace (off + blen d1) with (blen (T ++ d1)) by (rewrite blen_app; lia).
      rewrite app_assoc. apply take_app. }
    assert (E2 : drop (off + blen d1 + blen d2) (T ++ d1 ++ R) = drop (off + blen (d1 ++ d2)) f).
    { rewrite app_assoc. rewrite drop_app_ge by (rewrite blen_app; lia).
      unfold R. rewrite drop_drop. f_equal. rewrite !blen_app. lia. }
    rewrite E1, E2. rewrite <- !app_assoc. reflexivity.
  - rewrite (write_at_gt f off d1) by (try assumption; lia).
    rewrite (write_at_gt f off (d1 ++ d2)) by (try assumption; lia).
    assert (Hl : blen (f ++ zerosN (off - blen f) ++ d1) = off + blen d1).
    { rewrite !blen_app, blen_zerosN. lia. }
    rewrite <- Hl. rewrite write_at_end. rewrite <- !app_assoc. reflexivity.
Qed.

(* ---- the device without faults --------------------------------------------------------------- *)
Lemma write_chunks_nofault chunks : forall dv abs, d_faults dv = [] ->
  exists dv', write_chunks dv abs chunks = (dv', abs + blen (concat chunks), true) /\
              d_faults dv' = [] /\ d_file dv' = write_at (d_file dv) abs (concat chunks).
Proof.
  induction chunks as [|c t IH]; intros dv abs Hf; cbn [write_chunks concat].
  - exists dv. rewrite blen_nil, N.add_0_r, write_at_nil. auto.
  - unfold dev_write. rewrite Hf.
    set (dv1 := mkdev (write_at (d_file dv) abs c) (WrAt abs c :: d_log dv) []).
    destruct (IH dv1 (abs + blen c) eq_refl) as (dv' & Hw & Hf' & Hfile).
    exists dv'. rewrite Hw. split; [|split].
    + rewrite blen_app. f_equal. f_equal. lia.
    + exact Hf'.
    + rewrite Hfile. unfold dv1. cbn [d_file]. apply write_at_write_at.
Qed.

Lemma concat_ld_chunks1 x : concat (ld_chunks [x]) = ld x.
Proof. unfold ld_chunks, ld. cbn [fold_left concat]. rewrite N.add_0_l, app_nil_r. reflexivity. Qed.
Lemma concat_ld_chunks2 c d : concat (ld_chunks [c; d]) = enc_section c d.
Proof. unfold ld_chunks, enc_section. cbn [fold_left concat]. rewrite N.add_0_l, app_nil_r. reflexivity. Qed.

Lemma concat_v2hdr_chunks h : concat (v2hdr_chunks h) = enc_v2hdr h.
Proof. unfold v2hdr_chunks, enc_v2hdr. cbn [concat]. rewrite app_nil_r, <- !app_assoc. reflexivity. Qed.

Lemma blen_le_enc w n : blen (le_enc w n) = N.of_nat w.
Proof. unfold blen. rewrite le_enc_length. reflexivity. Qed.
Lemma blen_enc_v2hdr h : blen (enc_v2hdr h) = 40.
Proof. unfold enc_v2hdr. rewrite !blen_app, !blen_le_enc. reflexivity. Qed.
Lemma blen_pragma : blen pragma = 11.
Proof. reflexivity. Qed.

Lemma concat_swi_chunks b : concat (swi_chunks b) = swi_marshal b.
Proof. unfold swi_chunks, swi_marshal. cbn [concat]. rewrite app_nil_r. reflexivity. Qed.
Lemma concat_concat_map {A} (f g : A -> list bytes) (h : A -> bytes) l :
  (forall x, concat (f x) = h x) -> concat (concat (map f l)) = concat (map h l).
Proof.
  intros H. induction l as [|x l IH]; cbn [map concat]; [reflexivity|].
  rewrite concat_app, H, IH. reflexivity.
Qed.
Lemma concat_mwi_chunks m : concat (mwi_chunks m) = mwi_marshal m.
Proof.
  unfold mwi_chunks, mwi_marshal. cbn [concat]. f_equal.
  apply (concat_concat_map swi_chunks swi_chunks). apply concat_swi_chunks.
Qed.
Lemma concat_idx_chunks i : concat (idx_chunks i) = idx_write i.
Proof.
  unfold idx_chunks, idx_write. cbn [concat]. f_equal. destruct i as [m|m]; cbn [idx_marshal].
  - apply concat_mwi_chunks.
  - unfold mh_marshal. cbn [concat]. f_equal.
    apply (concat_concat_map (fun cm => le_enc 8 (fst cm) :: mwi_chunks (snd cm))
                             (fun cm => le_enc 8 (fst cm) :: mwi_chunks (snd cm))).
    intros x. cbn [concat]. rewrite concat_mwi_chunks. reflexivity.
Qed.

Lemma idx_write_nonempty i : idx_write i <> [].
Proof.
  unfold idx_write. intros H. apply app_eq_nil in H. destruct H as [H _].
  exact (put_uv_nonempty _ H).
Qed.
