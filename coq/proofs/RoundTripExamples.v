(* C01: the hypotheses of the round-trip theorems are satisfiable -- concrete writers and contents. *)
From GoCar Require Import Bytes Varint Cid Header Frame V2Header Scan Index Store ReadOnly RootLoad
  Wf Deferred Traversal.
From GoCarProofs Require Import BytesFacts VarintFacts CidFacts HeaderFacts ScanFacts StoreInv
  FinalStore FinalWf FinalMain DeferredFacts TraversalRoot
  ReadOnlyFacts ReadOnlyRefine ReadOnlyIndex ReadOnlyRoundTrip ReadOnlyOpen ReadOnlyMain ReadOnlyReaders
  RoundTripBridge RoundTripWriters RoundTrip ReaderHistFacts.
From GoCar Require Import ReaderHist.

(* blockstore.ReadWrite, CARv2, data padding 7, index padding 3, multihash-sorted index, identity CIDs
   stored, default de-duplication; the put history is ReadOnlyMain.ex_bs in two batches (duplicate section,
   same multihash under two codecs, identity block, empty block); one root *)
Definition ex_w : wopts := mkwopts 7 3 1025 false 2048 true false false false 33554432 8388608.
Definition ex_h : list batch := [firstn 2 ex_bs; skipn 2 ex_bs].
Definition ex_stored : list block := [(ex_cid 85 x01, [x0a; x0b]); (ex_idcid, [x61]); (ex_cid 85 x02, [])].

Example ex_spec_stored : spec_stored KBlockstore ex_w (Some ex_roots) ex_h = ex_stored.
Proof. vm_compute. reflexivity. Qed.

Example ex_session_fits : session_fits KBlockstore ex_w (roots_opt false ex_roots) ex_h.
Proof.
  change (roots_opt false ex_roots) with (Some ex_roots). unfold session_fits. rewrite ex_spec_stored.
  split; [numgoal|]. split; [discriminate|]. split.
  - unfold ex_h, ex_bs. cbn [firstn skipn]. repeat constructor; numgoal.
  - split; [numgoal|]. intros _. discriminate.
Qed.

Example ex_wrote : exists f, wrote f (Some ex_roots) ex_stored (writer_ct ex_w) /\ blen f < two63.
Proof.
  destruct (session_car_file KBlockstore ex_w false ex_roots ex_h ex_session_fits) as (s & outs & Hs & Hf).
  exists (ws_file s). split.
  - rewrite <- ex_spec_stored. apply (WSession KBlockstore ex_w false ex_roots ex_h s outs ex_session_fits Hs).
  - change (roots_opt false ex_roots) with (Some ex_roots) in Hf. rewrite ex_spec_stored in Hf.
    remember (ws_file s) as f eqn:Ef. clear Ef. vm_compute in Hf. inversion Hf as [Hfile]. numgoal.
Qed.

Lemma ex_stored_rblocks : Forall (rblock_ok 8388608 2048) ex_stored.
Proof.
  unfold ex_stored. apply Forall_cons; [apply ex_rblock; [lia|cbn; lia]|].
  apply Forall_cons; [apply ex_rblock_id|]. apply Forall_cons; [apply ex_rblock; [lia|cbn; lia]|]. apply Forall_nil.
Qed.

Example ex_ra_limits : ra_limits (ex_opts true) (Some ex_roots) ex_stored (writer_ct ex_w).
Proof.
  split; [apply ex_roots_ok|]. split.
  - split; [numgoal|]. split; [exact ex_stored_rblocks|left; reflexivity].
  - split; [right; reflexivity|]. split; [numgoal|]. split; [intros _; numgoal|]. split; [reflexivity|]. split.
    + unfold consistent, ex_stored. intros b1 b2 p1 p2 H1 H2.
      repeat (destruct H1 as [<-|H1]; [|]); try contradiction;
      repeat (destruct H2 as [<-|H2]; [|]); try contradiction;
      vm_compute; intros E1 E2; inversion E1; inversion E2; subst; intros; try reflexivity; try discriminate.
    + unfold id_consistent, ex_stored. intros b p Hin.
      repeat (destruct Hin as [<-|Hin]; [|]); try contradiction;
        vm_compute; intros E; inversion E; subst; intros H; try discriminate; reflexivity.
Qed.

(* the sequential readers: every block hashes to its CID according to the oracle *)
Example ex_archive_ok_stored : archive_ok_o all_hash_ok dec_header_canon default_ropts (Some ex_roots) ex_stored.
Proof.
  pose proof (ex_arch_ok true) as [H1 H2 H3 _ _]. repeat split; try assumption.
  - cbn [default_ropts o_maxs]. pose proof ex_stored_rblocks as H. rewrite Forall_forall in *. intros b Hb.
    apply (rblock_block_ok _ 2048). apply H. exact Hb.
  - intros _. unfold ex_stored. repeat constructor; intros p Hp; unfold hash_matches;
      destruct (is_identity p) eqn:Ei; try reflexivity;
      vm_compute in Hp; inversion Hp; subst; vm_compute in Ei; try discriminate; reflexivity.
Qed.

Example ex_root_blocks_stored : Forall root_block_ok [(ex_cid 85 x01, [x0a; x0b]); (ex_cid 85 x02, [])].
Proof.
  repeat constructor.
  - exists (mkcid 1 85 18 (x01 :: zeros 31)). repeat split; try reflexivity; try (apply ex_cid_ok; numgoal); numgoal.
  - exists (mkcid 1 85 18 (x02 :: zeros 31)). repeat split; try reflexivity; try (apply ex_cid_ok; numgoal); numgoal.
Qed.

(* root WriteCar over a visit sequence with repeats (two overlapping roots) *)
Definition ex_visits : list block :=
  [(ex_cid 113 x01, [x0a]); (ex_cid 85 x02, []); (ex_cid 113 x03, [x0c]); (ex_cid 85 x02, []); (ex_cid 113 x01, [x0a])].
Example ex_wrote_root :
  wrote (fst (write_car (Some [ex_cid 113 x01; ex_cid 113 x03]) ex_visits true))
        (Some [ex_cid 113 x01; ex_cid 113 x03])
        [(ex_cid 113 x01, [x0a]); (ex_cid 85 x02, []); (ex_cid 113 x03, [x0c])] CV1.
Proof.
  change [(ex_cid 113 x01, [x0a]); (ex_cid 85 x02, []); (ex_cid 113 x03, [x0c])] with (first_occ ex_visits).
  apply WRoot.
Qed.

(* the same visit sequence through a store writer with whole-CID de-duplication and identity CIDs stored *)
Definition ex_ww : wopts := mkwopts 0 0 1024 false 2048 true false true true 33554432 8388608.
Example ex_whole_store : whole_store ex_ww /\ Forall (Forall (accepted ex_ww)) [firstn 3 ex_visits; skipn 3 ex_visits].
Proof.
  split; [repeat split|]. unfold ex_visits. cbn [firstn skipn].
  repeat constructor; try (vm_compute; discriminate); numgoal.
Qed.

(* the deferred writer (DeferredFacts' example: stream target, three Puts, Close) *)
Example ex_wrote_deferred :
  exists f bs, wrote f (roots_opt false [exd_k1]) bs (writer_ct (eff_opts exd_cfg)) /\ length bs = 2%nat.
Proof.
  destruct (d_inner (d_run exd_cfg d_init exd_ops)) as [s|] eqn:E; [|vm_compute in E; discriminate].
  assert (Hfit : session_fits (dc_kind exd_cfg) (eff_opts exd_cfg) (roots_opt (dc_nilroots exd_cfg) (dc_roots exd_cfg)) [d_puts exd_ops]).
  { unfold session_fits. split; [numgoal|]. split; [reflexivity|]. split.
    - unfold exd_ops. cbn [d_puts]. repeat constructor; cbn [fst snd]; numgoal.
    - split; [numgoal|]. intros H. vm_compute in H. discriminate. }
  eexists. eexists. split.
  - apply (WDeferred exd_cfg exd_ops s eq_refl eq_refl E eq_refl Hfit).
  - vm_compute. reflexivity.
Qed.

(* ---- reader histories: two readers of each kind alive at once, the second archive has no blocks; Next is
   called again after io.EOF on both; every reader answers exactly what its own archive holds ------------- *)
Definition ex_hb2 : list block := [(ex_cid 85 x01, [x0a; x0b]); (ex_cid 85 x02, [])].
Definition ex_f1 : bytes := payload_np (Some ex_roots) ex_hb2 0.
Definition ex_f2 : bytes := payload_np (Some ex_roots) [] 0.
Definition ex_sched : list (nat * rhop) :=
  [(0, HOpen); (1, HOpen); (1, HNext); (0, HNext); (1, HNext); (0, HNext); (0, HNext); (1, HNext); (0, HNext)]%nat.

Example ex_histories : forall k,
  run_multi rhstate rhans rhop (rh_step all_hash_ok dec_header_canon k default_ropts)
            [mkrh ex_f1 None; mkrh ex_f2 None] ex_sched
  = [(0, HRoots ex_roots); (1, HRoots ex_roots); (1, HErr EEof); (0, HBlock (ex_cid 85 x01, [x0a; x0b]));
     (1, HErr EEof); (0, HBlock (ex_cid 85 x02, [])); (0, HErr EEof); (1, HErr EEof); (0, HErr EEof)]%nat.
Proof. intros []; vm_compute; reflexivity. Qed.

Example ex_history_hyps : forall k,
  Forall (block_ok_for all_hash_ok k default_ropts) ex_hb2 /\
  proj 0 ex_sched = HOpen :: nexts (length ex_hb2 + 2).
Proof.
  intros k. split; [|reflexivity].
  assert (Hb : Forall (block_ok (o_maxs default_ropts)) ex_hb2).
  { pose proof ex_archive_ok_stored as (_ & _ & _ & H & _).
    inversion H as [|? ? H1 H']; subst. inversion H' as [|? ? _ H'']; subst. unfold ex_hb2. constructor; [exact H1|exact H'']. }
  assert (Hh : Forall (hash_good all_hash_ok) ex_hb2).
  { pose proof ex_archive_ok_stored as (_ & _ & _ & _ & H). specialize (H eq_refl).
    inversion H as [|? ? H1 H']; subst. inversion H' as [|? ? _ H'']; subst. unfold ex_hb2. constructor; [exact H1|exact H'']. }
  pose proof ex_root_blocks_stored as Hr. fold ex_hb2 in Hr.
  rewrite Forall_forall in *. destruct k; cbn [block_ok_for default_ropts o_maxs o_trusted]; intros b Hin; split; auto.
Qed.

(* a positioned source: three foreign bytes, then the archive *)
Example ex_positioned :
  br_read_all all_hash_ok dec_header_canon default_ropts (positioned ([x00; x01; x02] ++ ex_f1) 3)
  = Ok (1, ex_roots, mkscan ex_hb2 EEof).
Proof. vm_compute. reflexivity. Qed.
