(* L3 / L4: framing and sequential readers round-trip on constructed archives. *)
From GoCar Require Import Bytes Varint Cid Header Frame V2Header Scan.
From GoCarProofs Require Import BytesFacts VarintFacts CidFacts HeaderFacts.

Lemma blen_ld payload : blen (ld payload) = ld_size (blen payload).
Proof. unfold ld, ld_size. rewrite blen_app, blen_put_uv. lia. Qed.
Lemma blen_enc_section c d : blen (enc_section c d) = section_size c d.
Proof. unfold enc_section, section_size, ld_size. rewrite !blen_app, blen_put_uv. lia. Qed.
Lemma enc_section_ld c d : enc_section c d = ld (c ++ d).
Proof. unfold enc_section, ld. rewrite blen_app. reflexivity. Qed.

Lemma ld_read_size_put zeof maxb l rest :
  l < two63 -> l <= maxb -> (zeof = true -> l <> 0) ->
  ld_read_size zeof maxb (put_uv l ++ rest) = Ok (l, rest, uv_size l).
Proof.
  intros H63 Hmax Hz. unfold ld_read_size. rewrite read_uv_put_uv by exact H63.
  destruct zeof.
  - replace (l =? 0) with false by (specialize (Hz eq_refl); lia). cbn [andb].
    replace (maxb <? l) with false by lia. reflexivity.
  - rewrite andb_false_r. replace (maxb <? l) with false by lia. reflexivity.
Qed.

Lemma ld_read_ld zeof maxb payload rest :
  blen payload < two63 -> blen payload <= maxb -> (zeof = true -> blen payload <> 0) ->
  ld_read zeof maxb (ld payload ++ rest) = Ok (payload, rest).
Proof.
  intros H63 Hmax Hz. unfold ld_read, ld. rewrite <- app_assoc.
  rewrite ld_read_size_put by assumption.
  replace (blen (payload ++ rest) <? blen payload) with false by (rewrite blen_app; lia).
  rewrite take_app, drop_app. reflexivity.
Qed.

(* a block the writers can emit and every reader accepts under limit maxs *)
Definition block_ok (maxs : N) (b : block) : Prop :=
  cid_bytes_ok (fst b) /\ blen (fst b) + blen (snd b) <= maxs /\ blen (fst b) + blen (snd b) < two63.

Lemma read_node_section zeof maxs c d rest :
  block_ok maxs (c, d) ->
  exists p, cid_parse c = Some p /\
            read_node zeof maxs (enc_section c d ++ rest) = Ok (c, p, d, rest).
Proof.
  intros (Hc & Hmax & H63). cbn [fst snd] in *.
  destruct (cid_from_bytes_ok c d Hc) as (p & Hfb & Hp). exists p. split; [exact Hp|].
  unfold read_node. rewrite enc_section_ld.
  rewrite ld_read_ld.
  - rewrite Hfb. rewrite take_app, drop_app. reflexivity.
  - rewrite blen_app. exact H63.
  - rewrite blen_app. exact Hmax.
  - intros _. rewrite blen_app. destruct Hc as (q & Hq & ->). pose proof (cid_enc_nonempty q Hq). lia.
Qed.

Section Oracles.
  Variable hok : bytes -> bytes -> option bool.
  Variable hdrdec : bytes -> option (list bytes * N).

  (* "data hashes to cid" according to the oracle (identity: digest = data) *)
  Definition hash_good (b : block) : Prop :=
    forall p, cid_parse (fst b) = Some p -> hash_matches hok (fst b) p (snd b) = Some true.

  Lemma next_block_section o c d rest :
    block_ok (o_maxs o) (c, d) -> (o_trusted o = false -> hash_good (c, d)) ->
    next_block hok o (enc_section c d ++ rest) = Ok ((c, d), rest).
  Proof.
    intros Hb Hh. destruct (read_node_section (o_zeof o) (o_maxs o) c d rest Hb) as (p & Hp & Hr).
    unfold next_block. rewrite Hr. destruct (o_trusted o) eqn:Et; [reflexivity|].
    unfold verify. pose proof (Hh eq_refl p Hp) as X. cbn [fst snd] in X. rewrite X. reflexivity.
  Qed.

  Lemma scan_blocks_sections o bs : 
    Forall (block_ok (o_maxs o)) bs -> (o_trusted o = false -> Forall hash_good bs) ->
    forall fuel acc, (length bs < fuel)%nat ->
    scan_blocks hok fuel o (enc_sections bs) acc = mkscan (rev acc ++ bs) EEof.
  Proof.
    intros Hok Hh. induction bs as [|[c d] bs IH]; intros fuel acc Hf.
    - destruct fuel; [cbn in Hf; lia|]. cbn. rewrite app_nil_r. reflexivity.
    - destruct fuel; [cbn in Hf; lia|]. cbn [scan_blocks].
      inversion Hok as [|? ? Hb Hok']; subst.
      unfold enc_sections. cbn [map concat fst snd]. 
      rewrite next_block_section; [|exact Hb|intros Ht; specialize (Hh Ht); inversion Hh; assumption].
      fold (enc_sections bs). rewrite IH; [|exact Hok'|intros Ht; specialize (Hh Ht); inversion Hh; assumption|cbn in Hf; lia].
      cbn [rev]. rewrite <- app_assoc. reflexivity.
  Qed.

  Lemma enc_sections_length bs : (length bs <= length (enc_sections bs))%nat.
  Proof.
    induction bs as [|[c d] bs IH]; cbn [length]; [lia|].
    unfold enc_sections. cbn [map concat fst snd]. fold (enc_sections bs). rewrite app_length.
    assert (1 <= length (enc_section c d))%nat.
    { unfold enc_section. rewrite app_length. pose proof (put_uv_nonempty (blen c + blen d)).
      destruct (put_uv (blen c + blen d)); [congruence|cbn; lia]. }
    lia.
  Qed.

  Theorem scan_all_sections o bs :
    Forall (block_ok (o_maxs o)) bs -> (o_trusted o = false -> Forall hash_good bs) ->
    scan_all hok o (enc_sections bs) = mkscan bs EEof.
  Proof.
    intros Hok Hh. unfold scan_all. rewrite scan_blocks_sections; try assumption.
    - reflexivity.
    - pose proof (enc_sections_length bs). lia.
  Qed.

  (* the header decoder (oracle) inverts the header encoder on these roots *)
  Definition hdr_good (roots : list bytes) : Prop :=
    hdrdec (enc_header (Some roots) 1) = Some (roots, 1).

  Lemma read_header_payload maxh roots rest :
    hdr_good roots -> blen (enc_header (Some roots) 1) <= maxh -> blen (enc_header (Some roots) 1) < two63 ->
    read_header hdrdec maxh (ld (enc_header (Some roots) 1) ++ rest)
    = Ok (roots, 1, rest, ld_size (blen (enc_header (Some roots) 1))).
  Proof.
    intros Hg Hmax H63. unfold read_header. rewrite ld_read_ld; try assumption; [|discriminate].
    rewrite Hg. reflexivity.
  Qed.

  Definition archive_ok (o : ropts) (roots : list bytes) (bs : list block) : Prop :=
    hdr_good roots /\ blen (enc_header (Some roots) 1) <= o_maxh o /\
    blen (enc_header (Some roots) 1) < two63 /\
    Forall (block_ok (o_maxs o)) bs /\ (o_trusted o = false -> Forall hash_good bs).

  (* L4 for the v2 BlockReader on a bare CARv1 *)
  Theorem br_read_all_v1 o roots bs : archive_ok o roots bs ->
    br_read_all hok hdrdec o (enc_payload roots bs) = Ok (1, roots, mkscan bs EEof).
  Proof.
    intros (Hg & Hmax & H63 & Hok & Hh). unfold br_read_all, br_open, enc_payload.
    rewrite read_header_payload by assumption. cbn [N.eqb Pos.eqb].
    rewrite scan_all_sections by assumption. reflexivity.
  Qed.

  Theorem carv1_read_all_v1 o roots bs : archive_ok o roots bs -> roots <> [] ->
    (Forall hash_good bs) ->
    carv1_read_all hok hdrdec o (enc_payload roots bs) = Ok (roots, mkscan bs EEof).
  Proof.
    intros (Hg & Hmax & H63 & Hok & _) Hne Hh. unfold carv1_read_all, enc_payload.
    rewrite read_header_payload by assumption. cbn [N.eqb Pos.eqb negb].
    destruct roots as [|r rs]; [congruence|].
    rewrite scan_all_sections; [reflexivity|exact Hok|intros _; exact Hh].
  Qed.
End Oracles.

(* the canonical decoder satisfies hdr_good on well-formed roots *)
Lemma hdr_good_canon roots : roots_ok roots -> hdr_good dec_header_canon roots.
Proof. intros H. unfold hdr_good. apply dec_header_enc; [exact H|unfold two64; lia]. Qed.
