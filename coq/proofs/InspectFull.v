(* C13, extension round:
   (1) Inspect(true) = Inspect(false) + every block of the (non-verifying) scan hashes to its CID;
   (2) a single corrupted byte in a block's data, or in the digest of its CID, makes Inspect(true)
       fail loudly -- under the stated non-collision hypotheses on the hash oracle. *)
From GoCar Require Import Bytes Varint Cid Header Frame V2Header Scan Inspect.
From GoCarProofs Require Import BytesFacts VarintFacts CidFacts HeaderFacts ScanFacts ScanSound
  InspectParse InspectFacts InspectStats InspectC13 InspectQuick ScanTrunc ScanTruncInspect.

Section Oracles.
  Variable hok : bytes -> bytes -> option bool.
  Variable hdrdec : bytes -> option (list bytes * N).

  (* ---- (1) the verifying scan is the non-verifying scan plus the hash checks ----------------- *)
  Lemma scan_blocks_acc o : forall fuel s acc,
    exists bs, s_blocks (scan_blocks hok fuel o s acc) = rev acc ++ bs.
  Proof.
    induction fuel as [|f IH]; intros s acc; cbn [scan_blocks].
    - exists []. cbn. rewrite app_nil_r. reflexivity.
    - destruct (next_block hok o s) as [[b rest]|e].
      + destruct (IH rest (b :: acc)) as (bs & Hb). exists (b :: bs). rewrite Hb. cbn [rev].
        rewrite <- app_assoc. reflexivity.
      + exists []. cbn. rewrite app_nil_r. reflexivity.
  Qed.

  Lemma intact_parts c p d buf n :
    cid_from_bytes buf = Some (n, p) -> c = take n buf ->
    intact hok (c, d) -> hash_matches hok c p d = Some true.
  Proof.
    intros Hfb Hc (p' & (buf' & n' & Hfb' & Hc' & _) & Hm). cbn [fst snd] in *.
    destruct (cid_from_bytes_inv _ _ _ Hfb) as (Hok & Hd & Hn).
    destruct (cid_from_bytes_inv _ _ _ Hfb') as (Hok' & Hd' & Hn').
    assert (E1 : c = cid_enc p) by (rewrite Hc, Hd, Hn; apply take_app).
    assert (E2 : c = cid_enc p') by (rewrite Hc', Hd', Hn'; apply take_app).
    assert (p = p').
    { rewrite <- (cid_parts_enc p Hok), <- (cid_parts_enc p' Hok'). rewrite <- E1, <- E2. reflexivity. }
    subst p'. exact Hm.
  Qed.

  Lemma scan_untrusted_trusted o : forall fuel s acc bs,
    scan_blocks hok fuel (untrusted o) s acc = mkscan (rev acc ++ bs) EEof <->
    (scan_blocks hok fuel (trusted o) s acc = mkscan (rev acc ++ bs) EEof /\ Forall (intact hok) bs).
  Proof.
    induction fuel as [|f IH]; intros s acc bs; cbn [scan_blocks].
    - split; [discriminate|intros (H & _); discriminate].
    - unfold next_block.
      change (o_zeof (untrusted o)) with (o_zeof o). change (o_maxs (untrusted o)) with (o_maxs o).
      change (o_zeof (trusted o)) with (o_zeof o). change (o_maxs (trusted o)) with (o_maxs o).
      change (o_trusted (untrusted o)) with false. change (o_trusted (trusted o)) with true. cbv iota.
      destruct (read_node (o_zeof o) (o_maxs o) s) as [[[[c p] d] rest]|e] eqn:Ern.
      + assert (Hparts : exists buf n, cid_from_bytes buf = Some (n, p) /\ c = take n buf /\ d = drop n buf).
        { unfold read_node in Ern. destruct (ld_read (o_zeof o) (o_maxs o) s) as [[buf r]|e]; [|discriminate].
          destruct (cid_from_bytes buf) as [[n p']|] eqn:Efb; [|discriminate]. inversion Ern; subst.
          exists buf, n. auto. }
        destruct Hparts as (buf & n & Hfb & Hc & Hd).
        unfold verify. destruct (hash_matches hok c p d) as [[|]|] eqn:Em; cbv beta iota.
        * (* the hash check passes: both go on *)
          split.
          -- intros H. destruct (scan_blocks_acc (untrusted o) f rest ((c, d) :: acc)) as (bs' & Hb).
             assert (Hx : rev acc ++ bs = rev ((c, d) :: acc) ++ bs') by (etransitivity; [symmetry; exact (f_equal s_blocks H)|exact Hb]).
             cbn [rev] in Hx. rewrite <- app_assoc in Hx. apply app_inv_head in Hx. subst bs. cbn [app] in *.
             replace (rev acc ++ (c, d) :: bs') with (rev ((c, d) :: acc) ++ bs') in H
               by (cbn [rev]; rewrite <- app_assoc; reflexivity).
             destruct (proj1 (IH rest ((c, d) :: acc) bs') H) as (Ht & Hi).
             split; [etransitivity; [exact Ht|]; cbn [rev]; rewrite <- app_assoc; reflexivity|].
             constructor; [|exact Hi]. exists p. split; [exists buf, n; cbn [fst snd]; auto|exact Em].
          -- intros (Ht & Hi). destruct (scan_blocks_acc (trusted o) f rest ((c, d) :: acc)) as (bs' & Hb).
             assert (Hx : rev acc ++ bs = rev ((c, d) :: acc) ++ bs') by (etransitivity; [symmetry; exact (f_equal s_blocks Ht)|exact Hb]).
             cbn [rev] in Hx. rewrite <- app_assoc in Hx. apply app_inv_head in Hx. subst bs. cbn [app] in *. assert (Hi' : Forall (intact hok) bs') by (inversion Hi; assumption).
             replace (rev acc ++ (c, d) :: bs') with (rev ((c, d) :: acc) ++ bs') in Ht |- *
               by (cbn [rev]; rewrite <- app_assoc; reflexivity).
             apply (proj2 (IH rest ((c, d) :: acc) bs')). split; assumption.
        * (* mismatch: the verifying scan stops; the other one returns a block that is not intact *)
          split; [discriminate|]. intros (Ht & Hi). exfalso.
          destruct (scan_blocks_acc (trusted o) f rest ((c, d) :: acc)) as (bs' & Hb).
          assert (Hx : rev acc ++ bs = rev ((c, d) :: acc) ++ bs') by (etransitivity; [symmetry; exact (f_equal s_blocks Ht)|exact Hb]).
          cbn [rev] in Hx. rewrite <- app_assoc in Hx. apply app_inv_head in Hx. subst bs. cbn [app] in *. assert (Hcd : intact hok (c, d)) by (inversion Hi; assumption).
          pose proof (intact_parts c p d buf n Hfb Hc Hcd) as X. congruence.
        * split; [discriminate|]. intros (Ht & Hi). exfalso.
          destruct (scan_blocks_acc (trusted o) f rest ((c, d) :: acc)) as (bs' & Hb).
          assert (Hx : rev acc ++ bs = rev ((c, d) :: acc) ++ bs') by (etransitivity; [symmetry; exact (f_equal s_blocks Ht)|exact Hb]).
          cbn [rev] in Hx. rewrite <- app_assoc in Hx. apply app_inv_head in Hx. subst bs. cbn [app] in *. assert (Hcd : intact hok (c, d)) by (inversion Hi; assumption).
          pose proof (intact_parts c p d buf n Hfb Hc Hcd) as X. congruence.
      + split.
        * intros H. split; [exact H|]. inversion H as [[H1 H2]].
          rewrite <- (app_nil_r (rev acc)) in H1 at 1. apply app_inv_head in H1. subst bs. constructor.
        * intros (H & _). exact H.
  Qed.

  Theorem c13_full_is_quick_plus_hashes o file rd :
    o_maxs o <= max_digest_alloc ->
    new_reader hdrdec o file = Ok rd ->
    forall st,
      inspect hok hdrdec o rd file true = Ok st <->
      (inspect hok hdrdec o rd file false = Ok st /\
       exists roots blocks,
         br_read_all hok hdrdec (trusted o) file = Ok (r_version rd, roots, mkscan blocks EEof) /\
         Forall (intact hok) blocks).
  Proof.
    intros Hcap Hnew st.
    rewrite (c13_iff hok hdrdec o file rd Hcap Hnew st), (c13_quick hok hdrdec o file rd Hcap Hnew st).
    unfold br_read_all. change (br_open hdrdec (trusted o) file) with (br_open hdrdec (untrusted o) file).
    destruct (br_open hdrdec (untrusted o) file) as [[[[[v roots0] s] a] b]|e].
    2:{ split; [intros (? & ? & ? & H & _); discriminate|intros (_ & ? & ? & H & _); discriminate]. }
    unfold scan_all. generalize (S (length s)). intros fuel.
    pose proof (fun bs => scan_untrusted_trusted o fuel s [] bs) as Hut.
    split.
    - intros (roots & blocks & codec & Hb & Hi & Hst). inversion Hb as [[Hv Hr Hs]].
      destruct (proj1 (Hut blocks) Hs) as (Ht & Hint).
      split.
      + exists roots0, blocks, EEof, codec. subst. split; [rewrite Ht; reflexivity|]. split; [exact Hi|].
        left. split; reflexivity.
      + exists roots0, blocks. subst. split; [rewrite Ht; reflexivity|exact Hint].
    - intros ((roots & blocks & e & codec & Hb & Hi & Hcase) & (roots' & blocks' & Hb' & Hint)).
      inversion Hb' as [[Hv Hr Hs]]. rewrite Hs in Hb. inversion Hb; subst roots blocks e.
      destruct Hcase as [(_ & Hst)|(He & _)]; [|discriminate].
      exists roots0, blocks', codec. subst.
      split; [rewrite (proj2 (Hut blocks') (conj Hs Hint)); reflexivity|]. split; [exact Hi|first [exact Hst|reflexivity]].
  Qed.

  (* ---- (2) one corrupted byte ---------------------------------------------------------------- *)
  (* the hash oracle does not collide on same-length data, and binds the digest *)
  Definition data_non_colliding : Prop :=
    forall c d d', hok c d = Some true -> d' <> d -> blen d' = blen d -> hok c d' = Some false.
  Definition digest_binding : Prop :=
    forall p g' d, cid_ok p -> hok (cid_enc p) d = Some true -> g' <> c_digest p -> blen g' = blen (c_digest p) ->
                   hok (cid_enc (mkcid (c_ver p) (c_codec p) (c_mhcode p) g')) d = Some false.

  Lemma flip_neq (a b : bytes) x x' : x' <> x -> a ++ x' :: b <> a ++ x :: b.
  Proof. intros Hx H. apply app_inv_head in H. inversion H. contradiction. Qed.
  Lemma flip_len (a b : bytes) x x' : blen (a ++ x' :: b) = blen (a ++ x :: b).
  Proof. rewrite !blen_app, !blen_cons. reflexivity. Qed.

  Lemma bytes_eqb_neq a b : a <> b -> bytes_eqb a b = false.
  Proof. intros H. destruct (bytes_eqb a b) eqn:E; [|reflexivity]. apply bytes_eqb_eq in E. contradiction. Qed.

  Lemma hash_bad_data_flip c d1 x x' d2 :
    data_non_colliding -> cid_bytes_ok c -> hash_good hok (c, d1 ++ x :: d2) -> x' <> x ->
    hash_bad hok (c, d1 ++ x' :: d2).
  Proof.
    intros Hnc (p0 & Hp0 & Hc) Hg Hx p Hp. cbn [fst snd] in *.
    pose proof (Hg p Hp) as Hm. cbn [fst snd] in Hm. unfold hash_matches in *.
    destruct (is_identity p).
    - inversion Hm as [E]. apply bytes_eqb_eq in E. f_equal. apply bytes_eqb_neq.
      rewrite E. intros X. symmetry in X. revert X. apply flip_neq. exact Hx.
    - apply (Hnc c (d1 ++ x :: d2)); [exact Hm|apply flip_neq; exact Hx|apply flip_len].
  Qed.

  Theorem inspect_reports_a_flipped_data_byte o roots pre c d1 x x' d2 rest :
    o_maxs o <= max_digest_alloc ->
    hdr_good hdrdec roots -> blen (enc_header (Some roots) 1) <= o_maxh o ->
    blen (enc_header (Some roots) 1) < two63 ->
    Forall (block_ok (o_maxs o)) pre -> Forall (hash_good hok) pre ->
    block_ok (o_maxs o) (c, d1 ++ x :: d2) -> hash_good hok (c, d1 ++ x :: d2) ->
    data_non_colliding -> x' <> x ->
    exists e, e <> EEof /\
      inspect_file hok hdrdec o
        (ld (enc_header (Some roots) 1) ++ enc_sections pre ++ enc_section c (d1 ++ x' :: d2) ++ rest) true = Err e.
  Proof.
    intros Hcap Hg Hmax H63 Hok Hh Hb Hgood Hnc Hx.
    apply (inspect_corrupt_v1 hok hdrdec o roots pre c (d1 ++ x' :: d2) rest Hcap Hg Hmax H63 Hok Hh).
    - destruct Hb as (Hc & H1 & H2). cbn [fst snd] in *. split; [exact Hc|]. cbn [fst snd].
      rewrite (flip_len d1 d2 x x'). split; assumption.
    - apply (hash_bad_data_flip c d1 x x' d2); try assumption. destruct Hb as (Hc & _). exact Hc.
  Qed.

  (* the same for a byte of the digest inside the CID *)
  Theorem inspect_reports_a_flipped_digest_byte o roots pre p g1 x x' g2 d rest :
    o_maxs o <= max_digest_alloc ->
    hdr_good hdrdec roots -> blen (enc_header (Some roots) 1) <= o_maxh o ->
    blen (enc_header (Some roots) 1) < two63 ->
    Forall (block_ok (o_maxs o)) pre -> Forall (hash_good hok) pre ->
    c_digest p = g1 ++ x :: g2 -> cid_ok p ->
    block_ok (o_maxs o) (cid_enc p, d) -> hash_good hok (cid_enc p, d) ->
    digest_binding -> x' <> x ->
    let p' := mkcid (c_ver p) (c_codec p) (c_mhcode p) (g1 ++ x' :: g2) in
    exists e, e <> EEof /\
      inspect_file hok hdrdec o
        (ld (enc_header (Some roots) 1) ++ enc_sections pre ++ enc_section (cid_enc p') d ++ rest) true = Err e.
  Proof.
    intros Hcap Hg Hmax H63 Hok Hh Hdig Hp Hb Hgood Hdb Hx. cbn zeta.
    set (p' := mkcid (c_ver p) (c_codec p) (c_mhcode p) (g1 ++ x' :: g2)).
    assert (Hlen : blen (c_digest p') = blen (c_digest p)) by (unfold p'; cbn [c_digest]; rewrite Hdig; apply flip_len).
    assert (Hp' : cid_ok p').
    { destruct Hp as [(A & B & C & D)|(A & B & C & D)]; [left|right]; unfold p'; cbn [c_ver c_codec c_mhcode c_digest];
        change (blen (g1 ++ x' :: g2)) with (blen (c_digest p')); rewrite Hlen; repeat split; assumption. }
    assert (Hclen : blen (cid_enc p') = blen (cid_enc p)).
    { unfold cid_enc, mh_enc. unfold p' at 1. cbn [c_ver c_codec c_mhcode]. destruct (c_ver p =? 0);
        rewrite !blen_app, Hlen; reflexivity. }
    apply (inspect_corrupt_v1 hok hdrdec o roots pre (cid_enc p') d rest Hcap Hg Hmax H63 Hok Hh).
    - destruct Hb as (_ & H1 & H2). cbn [fst snd] in *. split; [exists p'; split; [exact Hp'|reflexivity]|].
      cbn [fst snd]. rewrite Hclen. split; assumption.
    - intros q Hq. cbn [fst snd] in *. rewrite (cid_parse_enc p' Hp') in Hq. inversion Hq; subst q.
      pose proof (Hgood p (cid_parse_enc p Hp)) as Hm. cbn [fst snd] in Hm. unfold hash_matches in *.
      assert (Hid : is_identity p' = is_identity p) by reflexivity. rewrite Hid.
      assert (Hne : c_digest p' <> c_digest p) by (unfold p'; cbn [c_digest]; rewrite Hdig; apply flip_neq; exact Hx).
      destruct (is_identity p).
      + inversion Hm as [E]. apply bytes_eqb_eq in E. f_equal. apply bytes_eqb_neq. rewrite <- E. exact Hne.
      + apply (Hdb p (g1 ++ x' :: g2) d Hp Hm); [exact Hne|exact Hlen].
  Qed.
End Oracles.

(* ---- non-vacuity: an oracle that satisfies both hypotheses ("the digest is the data"), an archive
   it accepts, and the two corruptions evaluated on the model ------------------------------------ *)
Module ExFull.
  Definition toy (c d : bytes) : option bool :=
    match cid_parse c with Some p => Some (bytes_eqb (c_digest p) d) | None => Some false end.

  Lemma toy_data : data_non_colliding toy.
  Proof.
    intros c d d' H Hne _. unfold toy in *. destruct (cid_parse c) as [p|]; [|reflexivity].
    inversion H as [E]. apply bytes_eqb_eq in E. f_equal.
    destruct (bytes_eqb (c_digest p) d') eqn:E'; [|reflexivity]. apply bytes_eqb_eq in E'. congruence.
  Qed.
  Lemma toy_digest : digest_binding toy.
  Proof.
    intros p g' d Hp H Hne Hlen. unfold toy in *. rewrite (cid_parse_enc p Hp) in H.
    inversion H as [E]. apply bytes_eqb_eq in E.
    set (p' := mkcid (c_ver p) (c_codec p) (c_mhcode p) g').
    assert (Hp' : cid_ok p').
    { destruct Hp as [(A & B & C & D)|(A & B & C & D)]; [left|right]; unfold p'; cbn [c_ver c_codec c_mhcode c_digest];
        rewrite Hlen; repeat split; assumption. }
    rewrite (cid_parse_enc p' Hp'). cbn [c_digest p']. f_equal.
    destruct (bytes_eqb g' d) eqn:E'; [|reflexivity]. apply bytes_eqb_eq in E'. congruence.
  Qed.

  Definition d : bytes := [x68; x65; x6c; x6c; x6f].
  Definition p := mkcid 1 85 18 d.                          (* raw, "sha2-256" code, digest = data *)
  Definition good : bytes := enc_payload [cid_enc p] [(cid_enc p, d)].
  Definition bad_data : bytes :=
    ld (enc_header (Some [cid_enc p]) 1) ++ enc_section (cid_enc p) [x68; x65; x6c; x6c; x70].
  Definition bad_digest : bytes :=
    ld (enc_header (Some [cid_enc p]) 1) ++ enc_section (cid_enc (mkcid 1 85 18 [x68; x65; x6c; x6c; x70])) d.
  Example full_inspect_catches_both :
    (exists st, inspect_file toy dec_header_canon default_ropts good true = Ok st /\ t_count st = 1) /\
    inspect_file toy dec_header_canon default_ropts bad_data true = Err EOther /\
    inspect_file toy dec_header_canon default_ropts bad_digest true = Err EOther /\
    (* Inspect(false) does not notice either *)
    (exists st, inspect_file toy dec_header_canon default_ropts bad_data false = Ok st /\ t_count st = 1).
  Proof.
    split; [eexists; split; vm_compute; reflexivity|]. split; [vm_compute; reflexivity|].
    split; [vm_compute; reflexivity|]. eexists; split; vm_compute; reflexivity.
  Qed.
End ExFull.
