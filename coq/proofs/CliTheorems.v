(* C19: the statements of props/C19.v, assembled from the per-command and closure lemmas. *)
From GoCar Require Import Bytes Varint Cid Header Frame V2Header Scan Index Store CliCmds.
From GoCarProofs Require Import BytesFacts VarintFacts CidFacts HeaderFacts ScanFacts ScanTrunc ScanTruncV2 StoreInv
  CliBase CliWalk CliProducers CliConcat CliFilter CliClosure.

(* ---- what the filter keeps is part of what it was given -------------------------------------------- *)
Lemma dedup_from_in l : forall seen x, In x (dedup_from seen l) -> In x l.
Proof.
  induction l as [|b t IH]; intros seen x H; [exact H|]. cbn [dedup_from] in H.
  destruct (is_identity_cid (fst b) || existsb (same_mh (fst b)) seen).
  - right. eapply IH. exact H.
  - destruct H as [->|H]; [left; reflexivity|right; eapply IH; exact H].
Qed.

Lemma filter_spec_in sel inv bs x : In x (filter_spec sel inv bs) -> In x bs.
Proof.
  unfold filter_spec, dedup_blocks. intros H. apply dedup_from_in in H. apply filter_In in H. apply H.
Qed.

Lemma filter_spec_forall (P : block -> Prop) sel inv bs : Forall P bs -> Forall P (filter_spec sel inv bs).
Proof.
  intros H. apply Forall_forall. intros x Hx. apply filter_spec_in in Hx.
  exact (proj1 (Forall_forall _ _) H x Hx).
Qed.

Lemma idx_codec_small i : idx_codec i < two63.
Proof. destruct i; vm_compute; reflexivity. Qed.

Lemma idx_codec_load recs i : idx_codec (idx_load recs i) = idx_codec i.
Proof. destruct i; reflexivity. Qed.
Lemma idx_new_codec codec i : idx_new codec = Some i -> idx_codec i = codec.
Proof.
  unfold idx_new. destruct (codec =? codec_sorted) eqn:E1.
  - intros H; inversion H; subst. cbn [idx_codec]. symmetry. apply N.eqb_eq. exact E1.
  - destruct (codec =? codec_mh_sorted) eqn:E2; [|discriminate].
    intros H; inversion H; subst. cbn [idx_codec]. symmetry. apply N.eqb_eq. exact E2.
Qed.

Lemma forall_concat {A} (P : A -> Prop) (ls : list (list A)) :
  Forall (Forall P) ls -> Forall P (concat ls).
Proof.
  induction 1 as [|l t Hl _ IH]; cbn [concat]; [constructor|]. apply Forall_app. split; assumption.
Qed.

Set Default Proof Using "All".
Section Theorems.
  Variable hok : bytes -> bytes -> option bool.
  Variable hdrdec : bytes -> option (list bytes * N).
  Hypothesis pragma_ok : hdrdec pragma_body = Some ([], 2).

  (* inspect --full on the CARv2 files with an index at the end of the payload (no padding) *)
  Lemma inspect_full_indexed0 hb roots bs i :
    hdr_ok hdrdec hb roots -> blocks_ok bs -> hashes_ok hok bs ->
    51 + blen (payload_hb hb bs) + blen (idx_write i) < two63 ->
    inspect_car hok hdrdec true
      (v2file 0 0 0 (51 + blen (payload_hb hb bs)) (payload_hb hb bs) (idx_write i))
    = Ok (mkis 2 (mkv2 0 0 51 (blen (payload_hb hb bs)) (51 + blen (payload_hb hb bs)))
               roots (map isec_of bs) (idx_codec i) (blen (payload_hb hb bs))).
  Proof.
    intros Hh Hb Hg H63.
    pose proof (inspect_full_v2_indexed hok hdrdec pragma_ok hb roots bs 0 0 0 0 (idx_codec i) (idx_marshal i)
                  Hh Hb Hg) as H.
    change (zerosN 0 ++ put_uv (idx_codec i) ++ idx_marshal i) with (idx_write i) in H.
    change (put_uv (idx_codec i) ++ idx_marshal i) with (idx_write i) in H.
    replace (51 + 0 + blen (payload_hb hb bs) + 0) with (51 + blen (payload_hb hb bs)) in H by lia.
    change (51 + 0) with 51 in H.
    apply H; [unfold two64; lia|unfold two64; lia|apply idx_codec_small|lia].
  Qed.

  Lemma verify_indexed0 hb roots bs ibytes :
    hdr_ok hdrdec hb roots -> blocks_ok bs -> hashes_ok hok bs ->
    roots <> [] -> roots_present roots bs = true ->
    51 + blen (payload_hb hb bs) + blen ibytes < two63 ->
    index_answers ibytes (map fst bs) = true ->
    verify_car hok hdrdec (v2file 0 0 0 (51 + blen (payload_hb hb bs)) (payload_hb hb bs) ibytes) = Ok tt.
  Proof.
    intros Hh Hb Hg Hne Hrp H63 Hans.
    pose proof (verify_v2_indexed_guarded hok hdrdec pragma_ok hb roots bs 0 0 0 0 ibytes Hh Hb Hg Hne Hrp) as H.
    change (zerosN 0 ++ ibytes) with ibytes in H.
    replace (51 + 0 + blen (payload_hb hb bs) + 0) with (51 + blen (payload_hb hb bs)) in H by lia.
    apply H; [unfold two64; lia|unfold two64; lia|lia|exact Hans].
  Qed.

  (* ==== car filter ===================================================================================== *)
  Section FilterT.
    Variables (sel : list bytes) (inv : bool) (hb : bytes) (roots : list bytes) (bs : list block) (file : bytes).
    Hypothesis Hh : hdr_ok hdrdec hb roots.
    Hypothesis Hb : blocks_ok bs.
    Hypothesis Hg : hashes_ok hok bs.
    Hypothesis Hix : cids_indexable bs.
    Hypothesis Hv : valid_input hb bs file.
    (* the CBOR oracle decodes the header the tool writes for the filtered roots *)
    Hypothesis Hh' : hdr_ok hdrdec (filter_hb sel inv roots) (filter_roots sel inv roots).

    Let kept := filter_spec sel inv bs.
    Let hb' := filter_hb sel inv roots.
    Let roots' := filter_roots sel inv roots.

    Lemma kept_ok : blocks_ok kept /\ hashes_ok hok kept.
    Proof. split; apply filter_spec_forall; assumption. Qed.

    (* reading the output back gives the filtered roots and exactly the kept blocks, in source order *)
    Theorem filter_v1_reads_back outf :
      exists out, filter_car hok hdrdec sel inv 1 false file outf = (true, Some out) /\
        br_read_all hok hdrdec default_ropts out = Ok (1, roots', mkscan kept EEof).
    Proof.
      eexists. split; [apply (filter_car_v1 hok hdrdec pragma_ok sel inv hb roots bs file outf); assumption|].
      apply (br_read_all_payload hok hdrdec pragma_ok); [exact Hh'|apply kept_ok|apply kept_ok].
    Qed.

    Theorem filter_v2_reads_back outf :
      51 + blen (payload_hb hb' kept) + blen (idx_write (filter_index hb' kept)) < two63 ->
      exists out, filter_car hok hdrdec sel inv 2 false file outf = (true, Some out) /\
        br_read_all hok hdrdec default_ropts out = Ok (2, roots', mkscan kept EEof).
    Proof.
      intros H63. eexists. split.
      - apply (filter_car_v2 hok hdrdec pragma_ok sel inv hb roots bs file outf); try assumption.
        fold hb' kept. unfold two63, two64 in *. lia.
      - apply (br_read_all_v2file hok hdrdec pragma_ok); try (unfold two64; lia);
          [exact Hh'|apply kept_ok|apply kept_ok|fold hb' kept; unfold two63 in *; lia|fold hb' kept; lia].
    Qed.

    Theorem closed_inspect_filter_v1 outf :
      exists out st, filter_car hok hdrdec sel inv 1 false file outf = (true, Some out) /\
        inspect_car hok hdrdec true out = Ok st /\ is_count st = N.of_nat (length kept).
    Proof.
      do 2 eexists. split; [apply (filter_car_v1 hok hdrdec pragma_ok sel inv hb roots bs file outf); assumption|].
      split; [apply (inspect_full_v1 hok hdrdec pragma_ok); [exact Hh'|apply kept_ok|apply kept_ok]|].
      unfold is_count. cbn [is_secs]. rewrite map_length. reflexivity.
    Qed.

    Theorem closed_verify_filter_v1 outf :
      roots' <> [] -> roots_present roots' kept = true ->
      exists out, filter_car hok hdrdec sel inv 1 false file outf = (true, Some out) /\
        verify_car hok hdrdec out = Ok tt.
    Proof.
      intros Hne Hrp. eexists. split; [apply (filter_car_v1 hok hdrdec pragma_ok sel inv hb roots bs file outf); assumption|].
      apply (verify_v1 hok hdrdec pragma_ok _ roots'); [exact Hh'|apply kept_ok|apply kept_ok|exact Hne|exact Hrp].
    Qed.

    Theorem closed_inspect_filter_v2 outf :
      51 + blen (payload_hb hb' kept) + blen (idx_write (filter_index hb' kept)) < two63 ->
      exists out st, filter_car hok hdrdec sel inv 2 false file outf = (true, Some out) /\
        inspect_car hok hdrdec true out = Ok st /\ is_count st = N.of_nat (length kept) /\
        is_idx_codec st = codec_mh_sorted.
    Proof.
      intros H63. do 2 eexists. split.
      - apply (filter_car_v2 hok hdrdec pragma_ok sel inv hb roots bs file outf); try assumption.
        fold hb' kept. unfold two63, two64 in *. lia.
      - split; [apply inspect_full_indexed0; [exact Hh'|apply kept_ok|apply kept_ok|exact H63]|].
        unfold is_count. cbn [is_secs is_idx_codec]. rewrite map_length. split; reflexivity.
    Qed.

    (* partial: under the executable guard that the embedded index answers for every kept CID *)
    Theorem closed_verify_filter_v2_guarded outf :
      51 + blen (payload_hb hb' kept) + blen (idx_write (filter_index hb' kept)) < two63 ->
      roots' <> [] -> roots_present roots' kept = true ->
      index_answers (idx_write (filter_index hb' kept)) (map fst kept) = true ->
      exists out, filter_car hok hdrdec sel inv 2 false file outf = (true, Some out) /\
        verify_car hok hdrdec out = Ok tt.
    Proof.
      intros H63 Hne Hrp Hans. eexists. split.
      - apply (filter_car_v2 hok hdrdec pragma_ok sel inv hb roots bs file outf); try assumption.
        fold hb' kept. unfold two63, two64 in *. lia.
      - apply (verify_indexed0 _ roots'); [exact Hh'|apply kept_ok|apply kept_ok|exact Hne|exact Hrp|exact H63|exact Hans].
    Qed.
  End FilterT.

  (* ==== car index / index create / detach-index ========================================================== *)
  Section IndexT.
    Variables (hb : bytes) (roots : list bytes) (bs : list block) (file : bytes).
    Hypothesis Hh : hdr_ok hdrdec hb roots.
    Hypothesis Hre : reencode_header hb roots 1 = hb.
    Hypothesis Hb : blocks_ok bs.
    Hypothesis Hv : valid_input hb bs file.

    Let P := payload_hb hb bs.

    (* the written file = pragma, a fresh header, the input's payload byte for byte, then the index
       that car index create produces for the input -- and for the written file itself; and
       detach-index of the written file gives that index back *)
    Theorem index_codec_summary k codec :
      cids_indexable bs -> codec_of_kind k = Some codec ->
      51 + blen P < two64 ->
      exists ibytes,
        index_car hdrdec k 2 file
          = (true, Some (v2file 0 0 0 (51 + blen P) P ibytes)) /\
        index_create hdrdec k file = (true, Some ibytes) /\
        (51 + blen P + blen ibytes < two63 ->
           index_create hdrdec k (v2file 0 0 0 (51 + blen P) P ibytes) = (true, Some ibytes) /\
           detach_index hdrdec (v2file 0 0 0 (51 + blen P) P ibytes) = (true, Some ibytes)).
    Proof.
      intros Hix Hk Hfit. destruct (codec_of_kind_new k codec Hk) as (i0 & Hi0).
      exists (idx_write (idx_load (regen_records_hb hb bs) i0)).
      split; [|split].
      - rewrite (index_car_codec hok hdrdec pragma_ok hb roots bs file k codec Hh Hre Hb Hv Hk).
        rewrite (indexed_file_v2file codec hb bs i0 Hi0 Hfit). reflexivity.
      - rewrite (index_create_valid hok hdrdec pragma_ok hb roots bs file k codec Hh Hb Hix Hv Hk).
        unfold detached_index. rewrite Hi0. reflexivity.
      - intros H63. split.
        + rewrite (index_create_valid hok hdrdec pragma_ok hb roots bs _ k codec Hh Hb Hix); [| |exact Hk].
          * unfold detached_index. rewrite Hi0. reflexivity.
          * apply VI_v2; [unfold two64; lia|unfold two64; lia|fold P; lia|fold P; lia].
        + pose proof (detach_index_valid hok hdrdec pragma_ok 0 0 0 0 P
                        (idx_write (idx_load (regen_records_hb hb bs) i0))) as Hd.
          change (zerosN 0 ++ idx_write (idx_load (regen_records_hb hb bs) i0))
            with (idx_write (idx_load (regen_records_hb hb bs) i0)) in Hd.
          replace (51 + 0 + blen P + 0) with (51 + blen P) in Hd by lia.
          apply Hd; [unfold two64; lia|unfold two64; lia|apply payload_nonempty|lia].
    Qed.

    Theorem closed_inspect_index_codec k codec i0 :
      codec_of_kind k = Some codec -> idx_new codec = Some i0 -> hashes_ok hok bs ->
      51 + blen P + blen (idx_write (idx_load (regen_records_hb hb bs) i0)) < two63 ->
      exists out st, index_car hdrdec k 2 file = (true, Some out) /\
        inspect_car hok hdrdec true out = Ok st /\ is_count st = N.of_nat (length bs) /\ is_idx_codec st = codec.
    Proof.
      intros Hk Hi0 Hg H63.
      assert (Hfit : 51 + blen P < two64) by (unfold two63, two64 in *; lia).
      do 2 eexists. split.
      - rewrite (index_car_codec hok hdrdec pragma_ok hb roots bs file k codec Hh Hre Hb Hv Hk).
        rewrite (indexed_file_v2file codec hb bs i0 Hi0 Hfit). reflexivity.
      - split; [apply (inspect_full_indexed0 hb roots bs _ Hh Hb Hg H63)|].
        unfold is_count. cbn [is_secs is_idx_codec]. rewrite map_length. split; [reflexivity|].
        rewrite idx_codec_load. apply (idx_new_codec _ _ Hi0).
    Qed.

    Theorem closed_verify_index_codec_guarded k codec i0 :
      codec_of_kind k = Some codec -> idx_new codec = Some i0 ->
      hashes_ok hok bs -> roots <> [] -> roots_present roots bs = true ->
      51 + blen P + blen (idx_write (idx_load (regen_records_hb hb bs) i0)) < two63 ->
      index_answers (idx_write (idx_load (regen_records_hb hb bs) i0)) (map fst bs) = true ->
      exists out, index_car hdrdec k 2 file = (true, Some out) /\ verify_car hok hdrdec out = Ok tt.
    Proof.
      intros Hk Hi0 Hg Hne Hrp H63 Hans.
      assert (Hfit : 51 + blen P < two64) by (unfold two63, two64 in *; lia).
      eexists. split.
      - rewrite (index_car_codec hok hdrdec pragma_ok hb roots bs file k codec Hh Hre Hb Hv Hk).
        rewrite (indexed_file_v2file codec hb bs i0 Hi0 Hfit). reflexivity.
      - apply (verify_indexed0 _ roots); try assumption.
    Qed.

    (* --codec none: pragma, header with IndexOffset 0, payload; accepted by both checkers *)
    Theorem index_none_closed :
      hashes_ok hok bs -> 51 + blen P < two63 ->
      index_car hdrdec 1 2 file = (true, Some (indexless_file hb bs)) /\
      (exists st, inspect_car hok hdrdec true (indexless_file hb bs) = Ok st /\ is_count st = N.of_nat (length bs)) /\
      (roots <> [] -> roots_present roots bs = true -> verify_car hok hdrdec (indexless_file hb bs) = Ok tt).
    Proof.
      intros Hg H63. split; [apply (index_car_none hok hdrdec pragma_ok hb roots bs file Hh Hv)|].
      rewrite indexless_file_v2file. split.
      - eexists. split.
        + apply (inspect_full_v2_indexless hok hdrdec pragma_ok hb roots bs 0 0 0 []); try assumption;
            try (unfold two64; lia). rewrite blen_nil. fold P. lia.
        + unfold is_count. cbn [is_secs]. rewrite map_length. reflexivity.
      - intros Hne Hrp. apply (verify_v2_indexless hok hdrdec pragma_ok hb roots bs 0 0); try assumption;
          try (unfold two64; lia).
    Qed.

    (* --version 1: the payload, byte for byte; accepted by both checkers *)
    Theorem index_v1_closed k :
      k = 0 \/ k = 1 -> hashes_ok hok bs ->
      index_car hdrdec k 1 file = (true, Some P) /\
      (exists st, inspect_car hok hdrdec true P = Ok st /\ is_count st = N.of_nat (length bs)) /\
      (roots <> [] -> roots_present roots bs = true -> verify_car hok hdrdec P = Ok tt).
    Proof.
      intros Hk Hg. split; [apply (index_car_v1 hok hdrdec pragma_ok hb roots bs file k Hh Hv Hk)|]. split.
      - eexists. split; [apply (inspect_full_v1 hok hdrdec pragma_ok hb roots bs Hh Hb Hg)|].
        unfold is_count. cbn [is_secs]. rewrite map_length. reflexivity.
      - intros Hne Hrp. apply (verify_v1 hok hdrdec pragma_ok hb roots bs Hh Hb Hg Hne Hrp).
    Qed.
  End IndexT.

  (* ==== car concat ========================================================================================= *)
  Theorem concat_v1_closed ver x xs :
    ver <> 2 -> Forall (cin_ok hdrdec) (x :: xs) ->
    Forall (fun y => blocks_ok (cin_blocks y) /\ hashes_ok hok (cin_blocks y)) (x :: xs) ->
    let out := payload_hb (cin_hb x) (all_blocks (x :: xs)) in
    concat_car hdrdec ver (map cin_file (x :: xs)) = (true, Some out) /\
    br_read_all hok hdrdec default_ropts out = Ok (1, cin_roots x, mkscan (all_blocks (x :: xs)) EEof) /\
    (exists st, inspect_car hok hdrdec true out = Ok st /\ is_count st = N.of_nat (length (all_blocks (x :: xs)))) /\
    (roots_present (cin_roots x) (all_blocks (x :: xs)) = true -> verify_car hok hdrdec out = Ok tt).
  Proof.
    intros Hver Hok Hbl out.
    assert (Hb : blocks_ok (all_blocks (x :: xs))).
    { apply forall_concat. apply Forall_map. eapply Forall_impl; [|exact Hbl]. intros y Hy. apply Hy. }
    assert (Hg : hashes_ok hok (all_blocks (x :: xs))).
    { apply forall_concat. apply Forall_map. eapply Forall_impl; [|exact Hbl]. intros y Hy. apply Hy. }
    inversion Hok as [|? ? (Hne & Hh & _) _]; subst.
    split; [apply (concat_car_v1 hok hdrdec pragma_ok ver x xs Hver Hok)|].
    split; [apply (br_read_all_payload hok hdrdec pragma_ok _ _ _ Hh Hb Hg)|]. split.
    - eexists. split; [apply (inspect_full_v1 hok hdrdec pragma_ok _ _ _ Hh Hb Hg)|].
      unfold is_count. cbn [is_secs]. rewrite map_length. reflexivity.
    - intros Hrp. apply (verify_v1 hok hdrdec pragma_ok _ _ _ Hh Hb Hg Hne Hrp).
  Qed.
End Theorems.
