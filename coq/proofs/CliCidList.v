(* C19: the CID list syntax car filter accepts (parseCIDS): every rendering of a list of CIDs -- white
   space around each, LF or CRLF line ends, blank lines, the last line terminated or not -- parses to
   exactly those CIDs in order.  cid.Parse is the table [tab]. *)
From GoCar Require Import Bytes Varint Cid Header Frame V2Header Scan Index Store CliCmds.
From GoCarProofs Require Import BytesFacts.

(* inline white space: tab, VT, FF, CR, space -- not the newline *)
Definition inline_ws (s : bytes) : Prop := Forall (fun b => is_ws b = true /\ b2n b <> 10) s.
(* a CID in text form: not empty, no white space inside *)
Definition cid_text (t : bytes) : Prop := t <> [] /\ Forall (fun b => is_ws b = false) t.

(* one line of the list file, without its terminator: white space, optionally a CID text, white space *)
Record cline := mkcline { cl_pre : bytes; cl_txt : option bytes; cl_post : bytes }.
Definition cline_ok (l : cline) : Prop :=
  inline_ws (cl_pre l) /\ inline_ws (cl_post l) /\ match cl_txt l with Some t => cid_text t | None => True end.
Definition cline_bytes (l : cline) : bytes :=
  cl_pre l ++ match cl_txt l with Some t => t | None => [] end ++ cl_post l.
(* terminated: CRLF or LF *)
Definition cline_term (lc : cline * bool) : bytes :=
  cline_bytes (fst lc) ++ (if snd lc then [x0d] else []) ++ [x0a].

Definition texts_of (ls : list cline) : list bytes :=
  concat (map (fun l => match cl_txt l with Some t => [t] | None => [] end) ls).

Lemma ws_no_nl b : is_ws b = false -> b2n b <> 10.
Proof. unfold is_ws. intros H E. rewrite E in H. discriminate. Qed.

Lemma cline_bytes_no_nl l : cline_ok l -> Forall (fun b => b2n b <> 10) (cline_bytes l).
Proof.
  intros (H1 & H2 & H3). unfold cline_bytes. apply Forall_app; split; [|apply Forall_app; split].
  - eapply Forall_impl; [|exact H1]. intros b Hb. apply Hb.
  - destruct (cl_txt l) as [t|]; [|constructor]. eapply Forall_impl; [|exact (proj2 H3)]. intros b. apply ws_no_nl.
  - eapply Forall_impl; [|exact H2]. intros b Hb. apply Hb.
Qed.

Lemma split_lines_no_nl s : Forall (fun b => b2n b <> 10) s -> forall cur rest,
  split_lines (s ++ x0a :: rest) cur = (rev cur ++ s) :: split_lines rest [].
Proof.
  induction 1 as [|b t Hb _ IH]; intros cur rest; cbn [app split_lines].
  - change (b2n x0a =? 10) with true. cbv iota. rewrite app_nil_r. reflexivity.
  - replace (b2n b =? 10) with false by lia. rewrite IH. cbn [rev]. rewrite <- app_assoc. reflexivity.
Qed.

Lemma split_lines_last s : Forall (fun b => b2n b <> 10) s -> forall cur,
  split_lines s cur = [rev cur ++ s].
Proof.
  induction 1 as [|b t Hb _ IH]; intros cur; cbn [split_lines]; [rewrite app_nil_r; reflexivity|].
  replace (b2n b =? 10) with false by lia. rewrite IH. cbn [rev]. rewrite <- app_assoc. reflexivity.
Qed.

(* ---- TrimSpace ---- *)
Lemma trim_left_ws w s : Forall (fun b => is_ws b = true) w -> trim_left (w ++ s) = trim_left s.
Proof. induction 1 as [|b t Hb _ IH]; [reflexivity|]. cbn [app trim_left]. rewrite Hb. exact IH. Qed.

Lemma trim_left_text t s : cid_text t -> trim_left (t ++ s) = t ++ s.
Proof.
  intros [Hne Hall]. destruct t as [|b t']; [congruence|]. inversion Hall; subst.
  cbn [app trim_left]. rewrite H1. reflexivity.
Qed.

Lemma rev_text t : cid_text t -> cid_text (rev t).
Proof.
  intros [Hne Hall]. split.
  - intros E. apply (f_equal (@rev byte)) in E. rewrite rev_involutive in E. exact (Hne E).
  - apply Forall_rev. exact Hall.
Qed.

Lemma inline_is_ws w : inline_ws w -> Forall (fun b => is_ws b = true) w.
Proof. apply Forall_impl. intros b Hb. apply Hb. Qed.

Lemma trim_line w1 t w2 : Forall (fun b => is_ws b = true) w1 -> Forall (fun b => is_ws b = true) w2 ->
  cid_text t -> trim_ws (w1 ++ t ++ w2) = t.
Proof.
  intros H1 H2 Ht. unfold trim_ws. rewrite trim_left_ws by exact H1. rewrite trim_left_text by exact Ht.
  rewrite rev_app_distr. rewrite trim_left_ws by (apply Forall_rev; exact H2).
  rewrite <- (app_nil_r (rev t)). rewrite trim_left_text by (apply rev_text; exact Ht).
  rewrite app_nil_r. apply rev_involutive.
Qed.

Lemma trim_blank w : Forall (fun b => is_ws b = true) w -> trim_ws w = [].
Proof.
  intros H. unfold trim_ws. rewrite <- (app_nil_r w). rewrite trim_left_ws by exact H. reflexivity.
Qed.

(* a line's content after ReadLine + TrimSpace: its CID text, or nothing; cr = an optional '\r' *)
Lemma trim_cline l (cr : bool) : cline_ok l ->
  trim_ws (cline_bytes l ++ (if cr then [x0d] else [])) = match cl_txt l with Some t => t | None => [] end.
Proof.
  intros (H1 & H2 & H3). unfold cline_bytes.
  assert (Hcr : Forall (fun b => is_ws b = true) (cl_post l ++ (if cr then [x0d] else []))).
  { apply Forall_app. split; [apply inline_is_ws; exact H2|]. destruct cr; repeat constructor. }
  destruct (cl_txt l) as [t|].
  - rewrite <- !app_assoc. apply trim_line; [apply inline_is_ws; exact H1|exact Hcr|exact H3].
  - cbn [app]. rewrite <- app_assoc. apply trim_blank. apply Forall_app. split; [apply inline_is_ws; exact H1|exact Hcr].
Qed.

Section Parse.
  Variable tab : list (bytes * bytes).
  (* cid.Parse maps the text of every line to a CID *)
  Definition parses (t c : bytes) : Prop := cid_text_lookup tab t = Some c.

  Lemma parse_cid_lines_app a : forall b cs ds,
    parse_cid_lines tab a = Some cs -> parse_cid_lines tab b = Some ds ->
    parse_cid_lines tab (a ++ b) = Some (cs ++ ds).
  Proof.
    induction a as [|l t IH]; intros b cs ds Ha Hb; cbn [app parse_cid_lines] in *.
    - inversion Ha. exact Hb.
    - destruct (trim_ws l) as [|x xs]; [apply IH; assumption|].
      destruct (cid_text_lookup tab (x :: xs)) as [c|]; [|discriminate].
      destruct (parse_cid_lines tab t) as [cs'|] eqn:E; [|discriminate]. inversion Ha; subst.
      rewrite (IH b cs' ds eq_refl Hb). reflexivity.
  Qed.

  Lemma parse_one l (cr : bool) cids : cline_ok l ->
    match cl_txt l with Some t => exists c, parses t c /\ cids = [c] | None => cids = [] end ->
    parse_cid_lines tab [cline_bytes l ++ (if cr then [x0d] else [])] = Some cids.
  Proof.
    intros Hok Hc. cbn [parse_cid_lines]. rewrite (trim_cline l cr Hok).
    destruct (cl_txt l) as [t|] eqn:Et.
    - destruct Hc as (c & Hp & ->). destruct Hok as (_ & _ & Ht). rewrite Et in Ht.
      destruct t as [|x xs]; [destruct Ht; congruence|]. unfold parses in Hp. rewrite Hp. reflexivity.
    - subst. reflexivity.
  Qed.

  (* the CIDs of a list of lines, given what cid.Parse makes of each text *)
  Inductive lines_cids : list cline -> list bytes -> Prop :=
  | LC_nil : lines_cids [] []
  | LC_blank l ls cs : cl_txt l = None -> lines_cids ls cs -> lines_cids (l :: ls) cs
  | LC_cid l t c ls cs : cl_txt l = Some t -> parses t c -> lines_cids ls cs -> lines_cids (l :: ls) (c :: cs).

  (* terminated lines, then an optional unterminated last line *)
  Theorem parse_cids_rendered : forall (ls : list (cline * bool)) (last : option cline) cs cl,
    Forall (fun lc => cline_ok (fst lc)) ls ->
    lines_cids (map fst ls) cs ->
    match last with Some l => cline_ok l /\ lines_cids [l] cl | None => cl = [] end ->
    parse_cids tab (concat (map cline_term ls) ++ match last with Some l => cline_bytes l | None => [] end)
    = Some (cs ++ cl).
  Proof.
    unfold parse_cids.
    induction ls as [|[l cr] t IH]; intros last cs cl Hok Hcs Hlast.
    - cbn [map concat app]. inversion Hcs; subst. cbn [app].
      destruct last as [l|].
      + destruct Hlast as [Hl Hlc]. rewrite (split_lines_last _ (cline_bytes_no_nl l Hl)). cbn [rev app].
        rewrite <- (app_nil_r (cline_bytes l)). change (@nil byte) with (if false then [x0d] else []) at 1.
        apply (parse_one l false cl Hl).
        inversion Hlc as [|? ? ? Hn Hr|? ? ? ? ? Hs Hp Hr]; subst.
        * rewrite Hn. inversion Hr. reflexivity.
        * rewrite Hs. inversion Hr. eauto.
      + subst cl. reflexivity.
    - inversion Hok as [|? ? Hl Hok']; subst. cbn [fst] in Hl.
      cbn [map concat]. unfold cline_term at 1. cbn [fst snd]. rewrite <- !app_assoc.
      assert (Hnn : Forall (fun b => b2n b <> 10) (cline_bytes l ++ (if cr then [x0d] else []))).
      { apply Forall_app. split; [apply cline_bytes_no_nl; exact Hl|]. destruct cr; repeat constructor. discriminate. }
      rewrite (app_assoc (cline_bytes l)). cbn [app].
      rewrite (split_lines_no_nl _ Hnn). cbn [rev app].
      change ((cline_bytes l ++ (if cr then [x0d] else [])) :: split_lines (concat (map cline_term t) ++ match last with Some l0 => cline_bytes l0 | None => [] end) [])
        with ([cline_bytes l ++ (if cr then [x0d] else [])] ++ split_lines (concat (map cline_term t) ++ match last with Some l0 => cline_bytes l0 | None => [] end) []).
      cbn [map fst] in Hcs.
      inversion Hcs as [|? ? ? Hn Hr|? ? c ? cs' Hs Hp Hr]; subst.
      + rewrite <- (app_nil_l (cs ++ cl)). apply parse_cid_lines_app.
        * apply (parse_one l cr [] Hl). rewrite Hn. reflexivity.
        * apply IH; assumption.
      + change ((c :: cs') ++ cl) with ([c] ++ (cs' ++ cl)). apply parse_cid_lines_app.
        * apply (parse_one l cr [c] Hl). rewrite Hs. eauto.
        * apply IH; assumption.
  Qed.
End Parse.

(* Example: " <t1>\r\n\n\t<t2>" (CRLF, a blank line, no final newline) *)
Example ex_cid_list :
  let t1 := [x51; x6d] in let t2 := [x62; x61] in
  parse_cids [(t1, [x01]); (t2, [x02])]
    ([x20] ++ t1 ++ [x0d; x0a] ++ [x0a] ++ [x09] ++ t2) = Some [[x01]; [x02]].
Proof. reflexivity. Qed.

(* the command with its list as text = the command on the parsed selection *)
Lemma filter_cmd_parsed hok hdrdec tab text sel inv ver app infile outf :
  parse_cids tab text = Some sel ->
  filter_cmd hok hdrdec tab text inv ver app infile outf = filter_car hok hdrdec sel inv ver app infile outf.
Proof. intros H. unfold filter_cmd. rewrite H. reflexivity. Qed.

Lemma filter_cmd_unparsable hok hdrdec tab text inv ver app infile outf :
  parse_cids tab text = None ->
  filter_cmd hok hdrdec tab text inv ver app infile outf = (false, outf).
Proof. intros H. unfold filter_cmd. rewrite H. reflexivity. Qed.
