(* filepath.EvalSymlinks: what a successful evaluation says about the file system. *)
From GoCar Require Import Bytes ExtractFs.
From GoCarProofs Require Import BytesFacts ExtractFsFacts.

Local Open Scope nat_scope.

Definition nonlink (n : node) : Prop := match n with NLink _ => False | _ => True end.

(* every component of the clean path d is a real directory *)
Definition alldirs (fs : fsmap) (cwd : phys) (d : npath) : Prop :=
  dirchain fs (nbase cwd d) (n_names d).

(* d names an existing object that is not a symbolic link, through real directories only *)
Definition good (fs : fsmap) (cwd : phys) (d : npath) : Prop :=
  n_names d = [] \/
  exists init last n,
    n_names d = init ++ [last] /\ dirchain fs (nbase cwd d) init /\ name_ok last /\
    look fs (phys_of cwd d) = Some n /\ nonlink n.

Lemma alldirs_good fs cwd d : alldirs fs cwd d -> good fs cwd d.
Proof.
  unfold alldirs, good. intro H.
  destruct (list_snoc_cases (n_names d)) as [E|[init [last E]]]; [left; exact E|right].
  rewrite E in H. exists init, last, NDir.
  destruct (dirchain_last _ _ _ _ H) as [Hl Hok].
  split; [exact E|]. split; [eapply dirchain_app_l; exact H|]. split; [exact Hok|].
  split; [|exact I]. rewrite phys_of_nbase, E. exact Hl.
Qed.

Lemma good_names_normal fs cwd d : good fs cwd d -> names_normal d.
Proof.
  unfold good, names_normal. intros [E|[init [last [n [E [Hd [Hok _]]]]]]]; rewrite E; [constructor|].
  apply Forall_app; split.
  - apply dirchain_names_ok in Hd. eapply Forall_impl; [|exact Hd]. intros a [Ha _]. exact Ha.
  - constructor; [apply Hok|constructor].
Qed.

(* ---- resolving the string of a clean path ---- *)
Lemma existsb_repeat_dd k : existsb has_nul (repeat s_dotdot k) = false.
Proof. induction k; cbn; [reflexivity|]. exact IHk. Qed.

Lemma start_ups cwd (d : npath) :
  Nat.iter (if n_abs d then 0 else n_ups d) (@removelast name) (k_start cwd (n_abs d)) = nbase cwd d.
Proof. unfold nbase, k_start. destruct (n_abs d); reflexivity. Qed.

Lemma k_resolve_npath fs follow cwd (d : npath) tail :
  k_resolve fs follow (k_start cwd (n_abs d)) (n_comps d ++ tail) =
  if existsb has_nul (n_names d ++ tail) then KErr EINVAL
  else kwalk max_symlinks fs follow (nbase cwd d) (n_names d ++ tail).
Proof.
  unfold k_resolve, n_comps. rewrite <- !app_assoc.
  rewrite existsb_app, existsb_repeat_dd. cbn [orb].
  rewrite kwalk_ups, start_ups. reflexivity.
Qed.

Lemma k_resolve_npath0 fs follow cwd (d : npath) :
  k_resolve fs follow (k_start cwd (n_abs d)) (n_comps d) =
  if existsb has_nul (n_names d) then KErr EINVAL
  else kwalk max_symlinks fs follow (nbase cwd d) (n_names d).
Proof.
  pose proof (k_resolve_npath fs follow cwd d []) as H. rewrite !app_nil_r in H. exact H.
Qed.

Lemma lstat_snoc fs cwd dest c p n :
  alldirs fs cwd dest -> normalb c = true ->
  k_lstat fs (k_start cwd (n_abs dest))
          (n_comps (mknp (n_abs dest) (n_ups dest) (n_names dest ++ [c]))) = KOk p n ->
  name_ok c /\ p = nbase cwd dest ++ n_names dest ++ [c] /\ n = look fs p.
Proof.
  intros Hd Hn H. unfold k_lstat in H.
  pose proof (k_resolve_npath0 fs false cwd (mknp (n_abs dest) (n_ups dest) (n_names dest ++ [c]))) as R.
  cbn [n_abs n_names] in R. rewrite R in H. clear R.
  destruct (existsb has_nul (n_names dest ++ [c])) eqn:En; [discriminate|].
  change (nbase cwd (mknp (n_abs dest) (n_ups dest) (n_names dest ++ [c]))) with (nbase cwd dest) in H.
  rewrite kwalk_dirchain in H by exact Hd.
  apply kwalk_leaf_nofollow in H; [|exact Hn]. destruct H as [Hp [Hlk Hlen]].
  rewrite existsb_app in En. apply orb_false_iff in En as [_ En]. cbn in En. rewrite orb_false_r in En.
  rewrite <- app_assoc in Hp.
  repeat split; assumption.
Qed.

(* ---- eval_go: unfolding equations ---- *)
Lemma eval_go_nil links fs cwd dest : eval_go links fs cwd dest [] = Some dest.
Proof. destruct links; reflexivity. Qed.

Lemma eval_go_cons links fs cwd dest c rest :
  eval_go links fs cwd dest (c :: rest) =
  if (is_empty c || is_dot c)%bool then eval_go links fs cwd dest rest
  else if is_dotdot c then eval_go links fs cwd (n_push dest c) rest
  else
    let d := mknp (n_abs dest) (n_ups dest) (n_names dest ++ [c]) in
    match k_lstat fs (k_start cwd (n_abs d)) (n_comps d) with
    | KErr _ => None
    | KOk _ None => None
    | KOk _ (Some NDir) => eval_go links fs cwd d rest
    | KOk _ (Some (NFile _)) => match rest with [] => eval_go links fs cwd d rest | _ => None end
    | KOk _ (Some (NLink t)) =>
      match links with
      | O => None
      | S l => eval_go l fs cwd (if is_abs t then np_root else dest) (split_slash t ++ rest)
      end
    end.
Proof. destruct links; reflexivity. Qed.

Global Opaque eval_go.

Lemma alldirs_push_dotdot fs cwd dest c :
  is_dotdot c = true -> alldirs fs cwd dest -> alldirs fs cwd (n_push dest c).
Proof.
  intros Hdd H. unfold n_push.
  assert (Ht : (is_empty c || is_dot c)%bool = false).
  { apply is_dotdot_eq in Hdd. subst c. reflexivity. }
  rewrite Ht, Hdd. unfold alldirs in *.
  destruct (n_names dest) eqn:En.
  - destruct (n_abs dest) eqn:Ea.
    + rewrite En. constructor.
    + cbn. constructor.
  - unfold nbase in *. cbn [n_abs n_ups n_names]. rewrite <- En.
    apply dirchain_removelast. rewrite En. exact H.
Qed.

Lemma eval_go_good_step links fs cwd :
  (forall l, links = S l -> forall rem dest d,
      alldirs fs cwd dest -> eval_go l fs cwd dest rem = Some d -> good fs cwd d) ->
  forall rem dest d,
    alldirs fs cwd dest -> eval_go links fs cwd dest rem = Some d -> good fs cwd d.
Proof.
  intros IHl rem; induction rem as [|c rest IHrem]; intros dest d Hinv H.
  { rewrite eval_go_nil in H; inversion H; subst; apply alldirs_good; exact Hinv. }
  rewrite eval_go_cons in H.
  destruct (is_empty c || is_dot c)%bool eqn:E1; [eapply IHrem; eassumption|].
  destruct (is_dotdot c) eqn:E2;
    [eapply IHrem; [apply alldirs_push_dotdot; eassumption|exact H]|].
  cbn zeta in H.
  destruct (k_lstat _ _ _) as [p [n|]|e] eqn:El; try discriminate.
  cbn [n_abs] in El.
  apply lstat_snoc in El; [|exact Hinv|apply normalb_false_cases; assumption].
  destruct El as [Hok [Hp Hlook]].
  assert (Hb : nbase cwd (mknp (n_abs dest) (n_ups dest) (n_names dest ++ [c])) = nbase cwd dest)
    by reflexivity.
  destruct n as [|dd|t].
  - (* directory: continue *)
    eapply IHrem; [|exact H]. unfold alldirs. cbn [n_names]. rewrite Hb.
    apply dirchain_snoc; [exact Hinv|exact Hok|rewrite <- Hp; symmetry; exact Hlook].
  - (* regular file: must be the end *)
    destruct rest; [|discriminate]. rewrite eval_go_nil in H. inversion H; subst d.
    right. exists (n_names dest), c, (NFile dd). cbn [n_names]. rewrite Hb.
    split; [reflexivity|]. split; [exact Hinv|]. split; [exact Hok|]. split; [|exact I].
    rewrite phys_of_nbase. cbn [n_names]. rewrite Hb. rewrite <- Hp. symmetry. exact Hlook.
  - (* symbolic link *)
    destruct links as [|l]; [discriminate|].
    eapply (IHl l eq_refl); [|exact H].
    destruct (is_abs t); [unfold alldirs; cbn; constructor|exact Hinv].
Qed.

(* the central fact: a successful EvalSymlinks returns a path whose every component has been
   lstat'ed as a non-symlink, all but the last as directories *)
Lemma eval_go_good : forall links fs cwd rem dest d,
  alldirs fs cwd dest -> eval_go links fs cwd dest rem = Some d -> good fs cwd d.
Proof.
  induction links as [|l IHl]; intros fs cwd; apply eval_go_good_step.
  - intros l0 E; discriminate.
  - intros l0 E; inversion E; subst. apply IHl.
Qed.

Lemma eval_symlinks_good fs cwd abs comps d :
  eval_symlinks fs cwd abs comps = Some d -> good fs cwd d.
Proof.
  unfold eval_symlinks. intro H. eapply eval_go_good; [|exact H].
  destruct abs; unfold alldirs; cbn; constructor.
Qed.
