(* C16, part 2: the files the writable stores finish with satisfy wf_final and yield exactly the
   stored blocks.  CIDs are only required to be accepted by cid_parse (what Put checks). *)
From GoCar Require Import Bytes Varint Cid Header Frame V2Header Index Store Fault.
From GoCarProofs Require Import BytesFacts VarintFacts CidFacts HeaderFacts ScanFacts StoreInv FaultDev.

(* ---- parsing a CID does not depend on what follows it --------------------------------------------- *)
Lemma read_uv_f_ext t : forall fuel i x s v r n,
  read_uv_f fuel i x s = VOk v r n -> read_uv_f fuel i x (s ++ t) = VOk v (r ++ t) n.
Proof.
  induction fuel as [|f IH]; intros i x s v r n H; cbn [read_uv_f] in *; [discriminate|].
  destruct s as [|b rest]; [destruct (i =? 0); discriminate|]. cbn [app].
  destruct (((i =? 8) && (128 <=? b2n b)) || (9 <=? i)); [discriminate|].
  destruct (b2n b <? 128).
  - destruct ((b2n b =? 0) && (0 <? i)); [discriminate|]. inversion H; subst. reflexivity.
  - apply IH. exact H.
Qed.
Lemma read_uv_ext s t v r n : read_uv s = VOk v r n -> read_uv (s ++ t) = VOk v (r ++ t) n.
Proof. apply read_uv_f_ext. Qed.

Lemma mh_from_bytes_ext s t n code dig :
  mh_from_bytes s = Some (n, code, dig) -> mh_from_bytes (s ++ t) = Some (n, code, dig).
Proof.
  unfold mh_from_bytes. destruct (blen s <? 2) eqn:E2; [discriminate|].
  replace (blen (s ++ t) <? 2) with false by (rewrite blen_app; lia).
  destruct (read_uv s) as [c1 r1 n1| | | |] eqn:E; try discriminate.
  rewrite (read_uv_ext _ t _ _ _ E).
  destruct (read_uv r1) as [len r2 n2| | | |] eqn:E'; try discriminate.
  rewrite (read_uv_ext _ t _ _ _ E').
  destruct (max_int32 <? len); [discriminate|].
  destruct (blen r2 <? len) eqn:El; [discriminate|].
  replace (blen (r2 ++ t) <? len) with false by (rewrite blen_app; lia).
  rewrite take_app_le by lia. trivial.
Qed.

Lemma read_uv_single b t : b2n b < 128 -> read_uv (b :: t) = VOk (b2n b) t 1.
Proof.
  intros H. unfold read_uv. cbn [read_uv_f]. cbn [N.eqb andb orb N.leb N.compare].
  replace (b2n b <? 128) with true by lia. cbn [N.ltb N.compare andb]. rewrite andb_false_r.
  f_equal. cbn. lia.
Qed.

Lemma cid_from_bytes_ext c t n p :
  cid_from_bytes c = Some (n, p) -> cid_from_bytes (c ++ t) = Some (n, p).
Proof.
  unfold cid_from_bytes. destruct (is_v0_prefix c) eqn:Ev0.
  - (* CIDv0: at least three bytes, the same leading pair *)
    assert (Hv0 : is_v0_prefix (c ++ t) = true).
    { destruct c as [|b0 [|b1 [|b2 c']]]; try discriminate. exact Ev0. }
    rewrite Hv0. destruct (blen c <? 34) eqn:E34; [discriminate|].
    replace (blen (c ++ t) <? 34) with false by (rewrite blen_app; lia).
    intros H. inversion H; subst. do 3 f_equal.
    rewrite drop_app_le by lia. rewrite take_app_le by (rewrite blen_drop; lia). reflexivity.
  - intros H.
    assert (Hv0 : is_v0_prefix (c ++ t) = false).
    { destruct c as [|b0 c1]; [cbn in H; discriminate|].
      destruct (b2n b0 =? 18) eqn:E18; [|apply is_v0_prefix_not18; lia].
      (* leading byte 0x12 is read as version 18, which the CIDv1 branch rejects *)
      exfalso. rewrite read_uv_single in H by lia.
      replace (b2n b0 =? 1) with false in H by lia. cbn [negb] in H. discriminate. }
    rewrite Hv0.
    destruct (read_uv c) as [vers r1 n1| | | |] eqn:E; try discriminate.
    rewrite (read_uv_ext _ t _ _ _ E). destruct (negb (vers =? 1)); [discriminate|].
    destruct (read_uv r1) as [codec r2 n2| | | |] eqn:E'; try discriminate.
    rewrite (read_uv_ext _ t _ _ _ E').
    destruct (mh_from_bytes r2) as [[[n3 code] dig]|] eqn:Em; [|discriminate].
    rewrite (mh_from_bytes_ext _ t _ _ _ Em). exact H.
Qed.

Lemma cid_parse_from_bytes c p : cid_parse c = Some p -> cid_from_bytes c = Some (blen c, p).
Proof.
  unfold cid_parse. destruct (cid_from_bytes c) as [[n q]|]; [|discriminate].
  destruct (n =? blen c) eqn:E; [|discriminate]. intros H. inversion H; subst. f_equal. f_equal. lia.
Qed.

(* the strict reference reader on a section written by LdWrite *)
Lemma read_node_sect c d p rest :
  cid_parse c = Some p -> blen c + blen d < two63 ->
  read_node false two63 (enc_section c d ++ rest) = Ok (c, p, d, rest).
Proof.
  intros Hp H63. unfold read_node. rewrite enc_section_ld.
  rewrite ld_read_ld by (try rewrite blen_app; try lia; discriminate).
  rewrite (cid_from_bytes_ext c d _ _ (cid_parse_from_bytes _ _ Hp)).
  rewrite take_app, drop_app. reflexivity.
Qed.

(* ---- blocks a store holds: the CID was accepted by cid_parse, the section is below 2^63 bytes ---- *)
Definition stored_ok (b : blk) : Prop := (exists p, cid_parse (fst b) = Some p) /\ blk_small b.

Lemma enc_section_nonempty c d : enc_section c d <> [].
Proof.
  unfold enc_section. pose proof (put_uv_nonempty (blen c + blen d)).
  destruct (put_uv (blen c + blen d)); [congruence|discriminate].
Qed.

Lemma ref_sections_sections st : Forall stored_ok st ->
  forall fuel, (length st < fuel)%nat -> ref_sections fuel (sections st) = Some st.
Proof.
  induction 1 as [|[c d] t [(p & Hp) Hs] _ IH]; intros fuel Hf.
  - destruct fuel; reflexivity.
  - destruct fuel as [|f]; [cbn in Hf; lia|].
    rewrite sections_cons. cbn [fst snd] in *. unfold blk_small in Hs. cbn [fst snd] in Hs.
    destruct (enc_section c d ++ sections t) as [|x xs] eqn:E.
    + apply app_eq_nil in E. destruct E as [E _]. exfalso. exact (enc_section_nonempty _ _ E).
    + rewrite <- E. cbn [ref_sections].
      destruct (enc_section c d ++ sections t) as [|y ys] eqn:E2; [discriminate|]. rewrite <- E2.
      rewrite (read_node_sect c d p _ Hp Hs). rewrite IH by (cbn in Hf; lia). reflexivity.
Qed.

Lemma sections_length st : (length st <= length (sections st))%nat.
Proof.
  induction st as [|[c d] t IH]; [cbn; lia|]. rewrite sections_cons, app_length. cbn [length].
  pose proof (enc_section_nonempty c d). destruct (enc_section c d); [congruence|cbn [length]; lia].
Qed.

(* ---- the CARv1 header the stores write -------------------------------------------------------------- *)
(* the roots are CIDs go-cid produces and the header is below 2^63 bytes *)
Definition hdr_ok (nilroots : bool) (roots : list bytes) : Prop :=
  roots_ok roots /\ blen (enc_header (roots_opt nilroots roots) 1) < two63.

Lemma dec_header_roots_opt nilroots roots : roots_ok roots ->
  dec_header_canon (enc_header (roots_opt nilroots roots) 1) = Some (roots, 1).
Proof.
  intros Hr. unfold roots_opt. destruct roots as [|r rs].
  - destruct nilroots; [apply dec_header_enc_nil; unfold two64; lia|apply dec_header_enc; [exact Hr|unfold two64; lia]].
  - apply dec_header_enc; [exact Hr|unfold two64; lia].
Qed.

Lemma wf_v1_payload nilroots roots st :
  hdr_ok nilroots roots -> Forall stored_ok st ->
  wf_v1 (ld (enc_header (roots_opt nilroots roots) 1) ++ sections st)
  = Some (roots, st, hdr_len nilroots roots).
Proof.
  intros [Hr Hl] Hst. unfold wf_v1, read_header.
  rewrite ld_read_ld by (try lia; discriminate).
  rewrite dec_header_roots_opt by exact Hr. cbn [N.eqb Pos.eqb].
  rewrite ref_sections_sections; [reflexivity|exact Hst|]. apply Nat.lt_succ_r. apply sections_length.
Qed.

(* ---- the CARv2 header ----------------------------------------------------------------------------- *)
Lemma le_dec_take8 n rest : n < two64 -> le_dec (take 8 (le_enc 8 n ++ rest)) = n.
Proof.
  intros H. replace 8 with (blen (le_enc 8 n)) at 1 by (rewrite blen_le_enc; reflexivity).
  rewrite take_app. apply le_dec_enc. exact H.
Qed.

Lemma drop_le8 n rest : drop 8 (le_enc 8 n ++ rest) = rest.
Proof.
  replace 8 with (blen (le_enc 8 n)) at 1 by (rewrite blen_le_enc; reflexivity). apply drop_app.
Qed.

Lemma blen_enc_v2hdr h : blen (enc_v2hdr h) = 40.
Proof. unfold enc_v2hdr. rewrite !blen_app, !blen_le_enc. reflexivity. Qed.

Lemma read_v2hdr_enc h rest :
  h_hi h < two64 -> h_lo h < two64 ->
  51 <= h_doff h < two63 -> 0 < h_dsize h < two63 -> h_ioff h < two63 ->
  read_v2hdr (enc_v2hdr h ++ rest) = Ok (h, rest).
Proof.
  intros Hhi Hlo Hd Hs Hi. unfold read_v2hdr.
  assert (Hlen : blen (enc_v2hdr h ++ rest) = 40 + blen rest) by (rewrite blen_app, blen_enc_v2hdr; reflexivity).
  replace (blen (enc_v2hdr h ++ rest) <? 16) with false by lia.
  replace (blen (enc_v2hdr h ++ rest) <? 40) with false by lia.
  unfold enc_v2hdr. rewrite <- !app_assoc.
  assert (D8 : forall k a b, drop (8 + k) (le_enc 8 a ++ b) = drop k b).
  { intros k a b. rewrite drop_app_ge by (rewrite blen_le_enc; lia). rewrite blen_le_enc. f_equal. lia. }
  rewrite le_dec_take8 by exact Hhi.
  rewrite drop_le8, le_dec_take8 by exact Hlo.
  change 16 with (8 + 8). rewrite D8, drop_le8, le_dec_take8 by (unfold two63, two64 in *; lia).
  change 24 with (8 + (8 + 8)). rewrite !D8, drop_le8, le_dec_take8 by (unfold two63, two64 in *; lia).
  change 32 with (8 + (8 + (8 + 8))). rewrite !D8, drop_le8, le_dec_take8 by (unfold two63, two64 in *; lia).
  change 40 with (8 + (8 + (8 + (8 + 8)))). rewrite !D8, drop_le8.
  unfold as_int64.
  replace (h_doff h <? two63) with true by lia.
  replace (h_dsize h <? two63) with true by lia.
  replace (h_ioff h <? two63) with true by lia.
  replace (Z.of_N (h_doff h) <? 51)%Z with false by lia.
  replace (Z.of_N (h_dsize h) <=? 0)%Z with false by lia.
  replace (Z.of_N (h_ioff h) <? 0)%Z with false by lia.
  destruct h; reflexivity.
Qed.

Lemma pragma_ld : pragma = ld pragma_body.
Proof. reflexivity. Qed.

Lemma read_header_pragma rest :
  read_header dec_header_canon two63 (pragma ++ rest) = Ok ([], 2, rest, 11).
Proof.
  unfold read_header. rewrite pragma_ld.
  rewrite ld_read_ld by (try discriminate; vm_compute; reflexivity).
  rewrite dec_header_pragma. reflexivity.
Qed.

(* ---- the flattened index carries its codec ---------------------------------------------------------- *)
Lemma ii_flatten_codec codec ii fi : ii_flatten codec ii = Some fi -> idx_codec fi = codec.
Proof.
  unfold ii_flatten, idx_new.
  destruct (codec =? codec_sorted) eqn:E1.
  - intros H. inversion H; subst. cbn [idx_load idx_codec]. lia.
  - destruct (codec =? codec_mh_sorted) eqn:E2; [|discriminate].
    intros H. inversion H; subst. cbn [idx_load idx_codec]. lia.
Qed.

Lemma idx_codec_small fi : idx_codec fi < two63.
Proof. destruct fi; cbn [idx_codec]; unfold codec_sorted, codec_mh_sorted, two63; lia. Qed.

Lemma cids_eqb_refl l : cids_eqb l l = true.
Proof. induction l as [|x l IH]; [reflexivity|]. cbn [cids_eqb]. rewrite bytes_eqb_refl, IH. reflexivity. Qed.
Lemma blks_eqb_refl l : blks_eqb l l = true.
Proof. induction l as [|x l IH]; [reflexivity|]. cbn [blks_eqb]. rewrite !bytes_eqb_refl, IH. reflexivity. Qed.

(* ---- finished files ------------------------------------------------------------------------------- *)
Definition payload (nilroots : bool) (roots : list bytes) (st : list blk) : bytes :=
  ld (enc_header (roots_opt nilroots roots) 1) ++ sections st.

Lemma wf_final_v1 nilroots roots st :
  hdr_ok nilroots roots -> Forall stored_ok st ->
  wf_final (payload nilroots roots st) = Some (roots, st).
Proof.
  intros Hh Hst. unfold wf_final, payload.
  pose proof (wf_v1_payload nilroots roots st Hh Hst) as Hw. rewrite Hw.
  destruct Hh as [Hr Hl]. unfold read_header.
  rewrite ld_read_ld by (try lia; discriminate).
  rewrite dec_header_roots_opt by exact Hr. reflexivity.
Qed.

(* pragma, header, data padding, payload, index padding, index *)
Lemma wf_final_v2 nilroots roots st h dpad ipad fi codec :
  hdr_ok nilroots roots -> Forall stored_ok st ->
  h_lo h = 0 -> (h_hi h = 0 \/ h_hi h = fully_indexed_bit) ->
  h_doff h = 51 + dpad -> h_dsize h = blen (payload nilroots roots st) ->
  h_ioff h = 51 + dpad + blen (payload nilroots roots st) + ipad -> h_ioff h < two63 ->
  ii_flatten codec (idx_of (hdr_len nilroots roots) st) = Some fi ->
  wf_final (pragma ++ enc_v2hdr h ++ zerosN dpad ++ payload nilroots roots st ++ zerosN ipad ++ idx_write fi)
  = Some (roots, st).
Proof.
  intros Hh Hst Hlo Hhi Hdoff Hdsize Hioff Hi63 Hfl.
  set (P := payload nilroots roots st) in *.
  assert (HP : 0 < blen P).
  { unfold P, payload. rewrite blen_app, blen_ld. unfold ld_size. pose proof (uv_size_pos (blen (enc_header (roots_opt nilroots roots) 1))). lia. }
  unfold wf_final. rewrite read_header_pragma. cbn [N.eqb Pos.eqb negb].
  assert (Hhi64 : h_hi h < two64) by (destruct Hhi as [Hx | Hx]; rewrite Hx; unfold fully_indexed_bit, two64; lia).
  assert (Hlo64 : h_lo h < two64) by (rewrite Hlo; unfold two64; lia).
  rewrite read_v2hdr_enc by (unfold two63 in *; lia).
  rewrite Hlo. replace ((h_hi h =? 0) || (h_hi h =? fully_indexed_bit)) with true
    by (destruct Hhi as [-> | ->]; reflexivity). cbn [N.eqb andb negb].
  set (file := pragma ++ enc_v2hdr h ++ zerosN dpad ++ P ++ zerosN ipad ++ idx_write fi).
  assert (Hsplit1 : file = (pragma ++ enc_v2hdr h ++ zerosN dpad) ++ P ++ zerosN ipad ++ idx_write fi)
    by (unfold file; rewrite <- !app_assoc; reflexivity).
  assert (Hl1 : blen (pragma ++ enc_v2hdr h ++ zerosN dpad) = 51 + dpad)
    by (rewrite !blen_app, blen_enc_v2hdr, blen_zerosN, blen_pragma; lia).
  assert (Hsplit2 : file = ((pragma ++ enc_v2hdr h ++ zerosN dpad) ++ P ++ zerosN ipad) ++ idx_write fi)
    by (unfold file; rewrite <- !app_assoc; reflexivity).
  assert (Hl2 : blen ((pragma ++ enc_v2hdr h ++ zerosN dpad) ++ P ++ zerosN ipad) = h_ioff h)
    by (rewrite blen_app, Hl1, !blen_app, blen_zerosN, Hioff; lia).
  assert (Hlen : blen file = h_ioff h + blen (idx_write fi)) by (rewrite Hsplit2, blen_app, Hl2; reflexivity).
  replace (blen file <? h_doff h + h_dsize h) with false by lia.
  replace (h_ioff h <? h_doff h + h_dsize h) with false by lia.
  replace (blen file <? h_ioff h) with false by lia.
  rewrite Hdoff, Hdsize. rewrite Hsplit1 at 1. rewrite <- Hl1, drop_app, take_app.
  unfold P at 1. unfold payload. rewrite (wf_v1_payload nilroots roots st Hh Hst).
  rewrite Hsplit2, <- Hl2, drop_app.
  unfold idx_write at 1. rewrite read_uv_put_uv by apply idx_codec_small.
  rewrite (ii_flatten_codec _ _ _ Hfl), Hfl, bytes_eqb_refl. reflexivity.
Qed.

Lemma final_ok_of_wf roots st file : wf_final file = Some (roots, st) -> final_ok roots st file = true.
Proof. intros H. unfold final_ok. rewrite H, cids_eqb_refl, blks_eqb_refl. reflexivity. Qed.
