(* C04 corollaries: put-then-get, skip-only-if-present, oversize-rejected-unchanged,
   after-close-errors, file-frozen-after-finalize. *)
From GoCar Require Import Bytes Varint Cid Header Frame V2Header Scan Index Store StoreSpec.
From GoCarProofs Require Import BytesFacts VarintFacts CidFacts HeaderFacts ScanFacts StoreInv StoreSpecFacts.
From Coq Require Import Permutation.

(* ---- typestate facts that hold in EVERY state (no invariant needed) --------------------------------- *)
Lemma store_finalize_flags s : let s' := fst (store_finalize s) in
  ws_closed s' = ws_closed s /\ ws_finalized s' = ws_finalized s.
Proof.
  unfold store_finalize. destruct (ii_flatten (w_codec (ws_opts s)) (ws_idx s)) as [fi|]; [|split; reflexivity].
  destruct (write_chunks (ws_dev s) _ (idx_chunks fi)) as [[dv1 a1] ok1]. destruct ok1; cbn [negb].
  - destruct (write_chunks dv1 pragma_size _) as [[dv2 a2] ok2]. split; reflexivity.
  - split; reflexivity.
Qed.

Section AnyState.
  Variable hdrdec : bytes -> option (list bytes * N).

  (* an over-long CID is rejected and the store state is exactly what it was *)
  Lemma oversize_rejected_unchanged f s c d p :
    cid_parse c = Some p -> negb (w_storeid (ws_opts s)) && is_identity p = false ->
    w_maxcid (ws_opts s) < blen c -> ws_closed s = false -> ws_finalized s = false ->
    impl_step hdrdec f s (OpPut c d) = (s, OErr ECidTooLarge).
  Proof.
    intros Hp Hid Hbig Hc Hf.
    assert (Hsp : should_put (ws_opts s) (ws_idx s) c p = Err ECidTooLarge).
    { unfold should_put. rewrite Hid. replace (w_maxcid (ws_opts s) <? blen c) with true by lia. reflexivity. }
    destruct f as [|r|]; cbn [impl_step].
    - unfold bs_put_many. rewrite Hc, Hf. cbn [put_many_loop]. rewrite Hp.
      rewrite (put_one_unchanged s c d p _ Hsp) by discriminate. reflexivity.
    - unfold st_put. rewrite Hp, Hc, Hf. rewrite (put_one_unchanged s c d p _ Hsp) by discriminate. reflexivity.
    - unfold bs_put_many. rewrite Hc, Hf. cbn [put_many_loop]. rewrite Hp.
      rewrite (put_one_unchanged s c d p _ Hsp) by discriminate. reflexivity.
  Qed.

  (* Finalize and Discard close the store, whatever state it was in *)
  Lemma bs_finalize_ro_flags s : let s1 := fst (bs_finalize_ro s) in
    ws_closed s1 = ws_closed s /\ (ws_closed s = false -> ws_finalized s1 = true).
  Proof.
    unfold bs_finalize_ro. destruct (w_v1 (ws_opts s)); [split; reflexivity|].
    destruct (ws_closed s) eqn:Ec; [split; [exact Ec|discriminate]|].
    destruct (ws_finalized s) eqn:Ef; [split; [exact Ec|intros _; exact Ef]|].
    pose proof (store_finalize_flags (set_flags s false true)) as (H1 & H2). cbn zeta in *.
    split; [exact H1|intros _; exact H2].
  Qed.

  Lemma bs_close_closed s1 : ws_closed s1 = true \/ ws_finalized s1 = true -> ws_closed (fst (bs_close s1)) = true.
  Proof.
    intros H. unfold bs_close. destruct (ws_closed s1) eqn:Ec.
    - destruct (negb (w_v1 (ws_opts s1)) && negb (ws_finalized s1)); exact Ec.
    - destruct H as [H|H]; [discriminate|]. rewrite H. cbn [negb]. rewrite andb_false_r. reflexivity.
  Qed.

  Lemma bs_finalize_closes s : ws_closed (fst (bs_finalize s)) = true.
  Proof.
    unfold bs_finalize. pose proof (bs_finalize_ro_flags s) as (H1 & H2).
    destruct (bs_finalize_ro s) as [s1 r1]. cbn [fst] in H1, H2.
    pose proof (bs_close_closed s1) as H3. destruct (bs_close s1) as [s2 r2]. cbn [fst] in *.
    apply H3. destruct (ws_closed s) eqn:Ec; [left; congruence|right; apply H2; reflexivity].
  Qed.

  Lemma finalize_closes f s : ws_closed (fst (impl_step hdrdec f s OpFinalize)) = true.
  Proof.
    destruct f as [|r|]; cbn [impl_step]; try apply bs_finalize_closes.
    unfold st_finalize. destruct (ws_finalized s) eqn:Ef; [reflexivity|]. rewrite <- Ef. destruct (ws_closed s) eqn:Ec; [exact Ec|].
    destruct (w_v1 (ws_opts s)); [reflexivity|].
    pose proof (store_finalize_flags (set_flags s true (ws_finalized s))) as (H1 & _). exact H1.
  Qed.

  Lemma discard_closes f s : is_bs f = true -> ws_closed (fst (impl_step hdrdec f s OpDiscard)) = true.
  Proof. destruct f; [reflexivity|discriminate|reflexivity]. Qed.

  (* on a closed store every write and every non-identity lookup is an error and nothing changes *)
  Lemma after_close_errors f s c d p :
    ws_closed s = true -> cid_parse c = Some p ->
    impl_step hdrdec f s (OpPut c d) = (s, OErr EClosed) /\
    impl_step hdrdec f s (OpHas c) = (s, OErr EClosed) /\
    (is_identity p = false -> f <> FSt false -> impl_step hdrdec f s (OpGet c) = (s, OErr EClosed)) /\
    (is_bs f = true -> forall l, impl_step hdrdec f s (OpPutMany l) = (s, OErr EClosed)) /\
    (is_bs f = true -> is_identity p = false -> impl_step hdrdec f s (OpGetSize c) = (s, OErr EClosed)) /\
    (is_bs f = true -> impl_step hdrdec f s OpKeys = (s, OErr EClosed)).
  Proof.
    intros Hc Hp. destruct f as [|r|]; cbn [impl_step].
    - unfold bs_put_many, bs_has, bs_get, bs_getsize, bs_allkeys. rewrite Hc, Hp.
      repeat split; try reflexivity.
      + intros Hid _. rewrite Hid, andb_false_r. reflexivity.
      + intros _ Hid. rewrite Hid. reflexivity.
    - unfold st_put, st_has, st_get. rewrite Hc, Hp. repeat split; try reflexivity; try discriminate.
      intros Hid Hr. destruct r; [|congruence]. cbn [negb]. rewrite Hid, andb_false_r. reflexivity.
    - unfold bs_put_many, bs_has, bs_get, bs_getsize, bs_allkeys. rewrite Hc, Hp.
      repeat split; try reflexivity.
      + intros Hid _. rewrite Hid, andb_false_r. reflexivity.
      + intros _ Hid. rewrite Hid. reflexivity.
  Qed.

  (* a frozen store: closed, or (either blockstore variant) finalized *)
  Definition frozen (f : front) (s : wstate) : Prop :=
    ws_closed s = true \/ (is_bs f = true /\ ws_finalized s = true).

  Lemma frozen_step f s op : frozen f s ->
    ws_file (fst (impl_step hdrdec f s op)) = ws_file s /\ frozen f (fst (impl_step hdrdec f s op)).
  Proof.
    intros Hfr. destruct (is_bs f) eqn:Hb.
    - (* blockstore, on its own file or on the caller's *)
      assert (Hput : forall l, bs_put_many s l = (s, OErr EClosed) \/ bs_put_many s l = (s, OErr EFinalized)).
      { intros l. unfold bs_put_many. destruct (ws_closed s) eqn:Ec; [left; reflexivity|].
        destruct Hfr as [H|[_ H]]; [congruence|]. rewrite H. right. reflexivity. }
      assert (Hro : ws_file (fst (bs_finalize_ro s)) = ws_file s /\ frozen f (fst (bs_finalize_ro s))).
      { unfold bs_finalize_ro. destruct (w_v1 (ws_opts s)).
        - split; [reflexivity|]. right. split; [exact Hb|reflexivity].
        - destruct (ws_closed s) eqn:Ec; [split; [reflexivity|exact Hfr]|].
          destruct Hfr as [H|[_ H]]; [congruence|]. rewrite H. split; [reflexivity|]. right. auto. }
      assert (Hcl : forall s1, frozen f s1 -> ws_file (fst (bs_close s1)) = ws_file s1 /\ frozen f (fst (bs_close s1))).
      { intros s1 H1. unfold bs_close. destruct (negb (w_v1 (ws_opts s1)) && negb (ws_finalized s1)); [auto|].
        destruct (ws_closed s1); [auto|]. split; [reflexivity|]. left. reflexivity. }
      assert (Hfin : ws_file (fst (bs_finalize s)) = ws_file s /\ frozen f (fst (bs_finalize s))).
      { unfold bs_finalize. destruct (bs_finalize_ro s) as [s1 r1] eqn:E1. cbn [fst] in Hro.
        destruct Hro as (Hf1 & Hfr1). destruct (Hcl s1 Hfr1) as (Hf2 & Hfr2).
        destruct (bs_close s1) as [s2 r2]. cbn [fst] in *. split; [congruence|exact Hfr2]. }
      assert (Hp1 : forall l, ws_file (fst (bs_put_many s l)) = ws_file s /\ frozen f (fst (bs_put_many s l))).
      { intros l. destruct (Hput l) as [H|H]; rewrite H; split; try reflexivity; exact Hfr. }
      destruct f as [|r|]; [|discriminate Hb|];
        (destruct op as [c d|l|c|c|c| | | | | | ]; cbn [impl_step fst]; try (split; [reflexivity|exact Hfr]);
         [apply Hp1|apply Hp1|exact Hfin|exact Hro|apply Hcl; exact Hfr|split; [reflexivity|left; reflexivity]]).
    - (* storage: frozen = closed *)
      assert (Hc : ws_closed s = true) by (destruct Hfr as [H|[H _]]; [exact H|congruence]).
      destruct f as [|r|]; try discriminate Hb.
      destruct op as [c d|l|c|c|c| | | | | | ]; cbn [impl_step fst]; try (split; [reflexivity|exact Hfr]).
      + unfold st_put. destruct (cid_parse c); [rewrite Hc|]; split; try reflexivity; exact Hfr.
      + unfold st_finalize. rewrite Hc. destruct (ws_finalized s); (split; [reflexivity|]); [left; reflexivity|exact Hfr].
  Qed.

  (* ... along any continuation of the history *)
  Theorem file_frozen f ops : forall s, frozen f s ->
    Forall (fun s' => ws_file s' = ws_file s) (map fst (trace (impl_step hdrdec f) s ops)).
  Proof.
    induction ops as [|op t IH]; intros s Hfr; [constructor|]. cbn [trace].
    destruct (frozen_step f s op Hfr) as (Hfile & Hfr').
    destruct (impl_step hdrdec f s op) as [s' r]. cbn [fst map] in *. constructor; [exact Hfile|].
    specialize (IH s' Hfr'). eapply Forall_impl; [|exact IH]. intros x Hx. cbn beta in Hx. congruence.
  Qed.
End AnyState.

(* ---- facts about the map itself ------------------------------------------------------------------------------- *)
Definition puts_of (ops : list sop) : list (bytes * bytes) :=
  flat_map (fun op => match op with OpPut c d => [(c, d)] | OpPutMany l => l | _ => [] end) ops.

Lemma m_put_one_blocks o m c d p : let '(m', r) := m_put_one o m c d p in
  (m_blocks m' = m_blocks m \/ m_blocks m' = m_blocks m ++ [(c, d)]) /\
  m_closed m' = m_closed m /\ m_finalized m' = m_finalized m.
Proof.
  unfold m_put_one. destruct (negb (w_storeid o) && is_identity p); [auto|].
  destruct (w_maxcid o <? blen c); [auto|]. destruct (negb (w_dups o) && m_present o (m_blocks m) c); [auto|].
  cbn [m_set_blocks m_blocks m_closed m_finalized]. auto.
Qed.

Lemma m_put_loop_incl o l : forall m, incl (m_blocks (fst (m_put_loop o m l))) (m_blocks m ++ l).
Proof.
  induction l as [|[c d] t IH]; intros m; [cbn; rewrite app_nil_r; apply incl_refl|].
  cbn [m_put_loop]. destruct (cid_parse c) as [p|]; [|cbn [fst]; apply incl_appl, incl_refl].
  pose proof (m_put_one_blocks o m c d p) as H. destruct (m_put_one o m c d p) as [m1 r1].
  destruct H as (Hb & _).
  assert (H1 : incl (m_blocks m1) (m_blocks m ++ (c, d) :: t)).
  { destruct Hb as [-> | ->]; [apply incl_appl, incl_refl|].
    apply incl_app; [apply incl_appl, incl_refl|]. intros x [<-|[]]. apply in_or_app. right. left. reflexivity. }
  destruct r1; cbn [fst]; try exact H1.
  eapply incl_tran; [apply IH|]. apply incl_app; [exact H1|]. apply incl_appr. apply incl_tl, incl_refl.
Qed.

Lemma spec_step_blocks_incl f o roots m op :
  incl (m_blocks (fst (spec_step f o roots m op))) (m_blocks m ++ puts_of [op]).
Proof.
  assert (Hput : forall l, incl (m_blocks (fst (m_put_many o m l))) (m_blocks m ++ l)).
  { intros l. unfold m_put_many. destruct (m_closed m); [apply incl_appl, incl_refl|].
    destruct (m_finalized m); [apply incl_appl, incl_refl|]. apply m_put_loop_incl. }
  assert (Hflags : forall (x : mstate * out), m_blocks (fst x) = m_blocks m ->
            incl (m_blocks (fst x)) (m_blocks m ++ puts_of [op])).
  { intros x ->. apply incl_appl, incl_refl. }
  destruct f as [|r|]; destruct op as [c d|l|c|c|c| | | | | | ]; cbn [spec_step];
    try (apply Hflags; reflexivity).
  - cbn [puts_of flat_map app]. apply Hput.
  - cbn [puts_of flat_map app]. rewrite app_nil_r. apply Hput.
  - apply Hflags. unfold m_bs_finalize, m_bs_finalize_ro, m_bs_close.
    destruct (w_v1 o); [|destruct (m_closed m); [|destruct (m_finalized m)]];
      cbn [m_set_flags m_blocks m_closed m_finalized negb andb];
      repeat match goal with |- context [if ?b then _ else _] => destruct b end; reflexivity.
  - apply Hflags. unfold m_bs_finalize_ro.
    repeat match goal with |- context [if ?b then _ else _] => destruct b end; reflexivity.
  - apply Hflags. unfold m_bs_close.
    repeat match goal with |- context [if ?b then _ else _] => destruct b end; reflexivity.
  - cbn [puts_of flat_map app]. unfold m_st_put. destruct (cid_parse c) as [p|]; [|apply incl_appl, incl_refl].
    destruct (m_closed m); [apply incl_appl, incl_refl|].
    destruct (m_finalized m); [apply incl_appl, incl_refl|].
    pose proof (m_put_one_blocks o m c d p) as H. destruct (m_put_one o m c d p) as [m1 r1]. cbn [fst].
    destruct H as ([-> | ->] & _); [apply incl_appl, incl_refl|apply incl_refl].
  - apply Hflags. unfold m_st_finalize.
    repeat match goal with |- context [if ?b then _ else _] => destruct b end; reflexivity.
  - cbn [puts_of flat_map app]. apply Hput.
  - cbn [puts_of flat_map app]. rewrite app_nil_r. apply Hput.
  - apply Hflags. unfold m_bs_finalize, m_bs_finalize_ro, m_bs_close.
    destruct (w_v1 o); [|destruct (m_closed m); [|destruct (m_finalized m)]];
      cbn [m_set_flags m_blocks m_closed m_finalized negb andb];
      repeat match goal with |- context [if ?b then _ else _] => destruct b end; reflexivity.
  - apply Hflags. unfold m_bs_finalize_ro.
    repeat match goal with |- context [if ?b then _ else _] => destruct b end; reflexivity.
  - apply Hflags. unfold m_bs_close.
    repeat match goal with |- context [if ?b then _ else _] => destruct b end; reflexivity.
Qed.

Lemma puts_of_app a b : puts_of (a ++ b) = puts_of a ++ puts_of b.
Proof. unfold puts_of. apply flat_map_app. Qed.

Lemma spec_blocks_incl f o roots ops : forall m,
  incl (m_blocks (last (map fst (trace (spec_step f o roots) m ops)) m)) (m_blocks m ++ puts_of ops).
Proof.
  induction ops as [|op t IH]; intros m; [cbn; rewrite app_nil_r; apply incl_refl|].
  cbn [trace]. pose proof (spec_step_blocks_incl f o roots m op) as H1.
  destruct (spec_step f o roots m op) as [m1 r1]. cbn [fst map] in *. rewrite last_cons_default.
  eapply incl_tran; [apply IH|]. change (op :: t) with ([op] ++ t). rewrite puts_of_app, app_assoc.
  apply incl_app; [apply incl_appl; exact H1|apply incl_appr, incl_refl].
Qed.

Lemma same_key_refl whole c p : cid_parse c = Some p -> same_key whole c c = true.
Proof.
  intros Hp. unfold same_key. destruct whole; [apply bytes_eqb_refl|]. rewrite Hp, N.eqb_refl, bytes_eqb_refl. reflexivity.
Qed.

(* put then get on the map: the block comes back with its bytes, provided the blocks already stored
   under the same key carry the same bytes (content addressing) and an identity CID carries its data *)
Lemma m_put_then_get f o roots m c d p m' :
  f = FBs \/ f = FSt true \/ f = FBf -> cid_parse c = Some p ->
  spec_step f o roots m (OpPut c d) = (m', ONil) ->
  (is_identity p = true -> d = c_digest p) ->
  (forall b, In b (m_blocks m) -> same_key (w_whole o) (fst b) c = true -> snd b = d) ->
  snd (spec_step f o roots m' (OpGet c)) = OBytes d.
Proof.
  intros Hf Hp Hput Hid Hcons.
  assert (Hone : exists m1, m_put_one o m c d p = (m1, ONil) /\ m' = m1 /\ m_closed m = false).
  { destruct Hf as [-> | [-> | ->]]; cbn [spec_step] in Hput.
    - unfold m_put_many in Hput. destruct (m_closed m); [discriminate|]. destruct (m_finalized m); [discriminate|].
      cbn [m_put_loop] in Hput. rewrite Hp in Hput. destruct (m_put_one o m c d p) as [m1 r1].
      destruct r1; try discriminate. exists m1. inversion Hput. auto.
    - unfold m_st_put in Hput. rewrite Hp in Hput. destruct (m_closed m); [discriminate|].
      destruct (m_finalized m); [discriminate|].
      destruct (m_put_one o m c d p) as [m1 r1]. inversion Hput; subst. exists m'. auto.
    - unfold m_put_many in Hput. destruct (m_closed m); [discriminate|]. destruct (m_finalized m); [discriminate|].
      cbn [m_put_loop] in Hput. rewrite Hp in Hput. destruct (m_put_one o m c d p) as [m1 r1].
      destruct r1; try discriminate. exists m1. inversion Hput. auto. }
  destruct Hone as (m1 & Hone & -> & Hcl).
  assert (Hget : snd (spec_step f o roots m1 (OpGet c)) = m_get o m1 c) by (destruct Hf as [-> | [-> | ->]]; reflexivity).
  rewrite Hget. unfold m_get. rewrite Hp.
  pose proof (m_put_one_blocks o m c d p) as Hb. rewrite Hone in Hb. destruct Hb as (Hb & Hc1 & _).
  unfold m_put_one in Hone.
  destruct (negb (w_storeid o) && is_identity p) eqn:Eid.
  { apply andb_true_iff in Eid. rewrite (Hid (proj2 Eid)). reflexivity. }
  rewrite Hc1, Hcl.
  destruct (w_maxcid o <? blen c); [discriminate|].
  assert (Hfind : exists b, m_lookup o (m_blocks m1) c = Some b /\ snd b = d).
  { destruct (negb (w_dups o) && m_present o (m_blocks m) c) eqn:Epres.
    - inversion Hone; subst m1. apply andb_true_iff in Epres. destruct Epres as (_ & Epres).
      unfold m_present in Epres. unfold m_lookup.
      destruct (find (fun b => same_key (w_whole o) (fst b) c) (m_blocks m)) as [b|] eqn:Ef.
      + exists b. split; [reflexivity|]. apply find_some in Ef. apply Hcons; apply Ef.
      + apply existsb_exists in Epres. destruct Epres as (x & Hx & Hk). pose proof (find_none _ _ Ef x Hx). cbn beta in H. congruence.
    - inversion Hone; subst m1. cbn [m_set_blocks m_blocks]. unfold m_lookup.
      destruct (find (fun b => same_key (w_whole o) (fst b) c) (m_blocks m ++ [(c, d)])) as [b|] eqn:Ef.
      + exists b. split; [reflexivity|]. apply find_some in Ef. destruct Ef as (Hin & Hk).
        apply in_app_or in Hin. destruct Hin as [Hin|[<-|[]]]; [apply Hcons; assumption|reflexivity].
      + pose proof (find_none _ _ Ef (c, d)) as H. cbn [fst] in H.
        rewrite (same_key_refl _ c p Hp) in H. assert (In (c, d) (m_blocks m ++ [(c, d)])) by (apply in_or_app; right; left; reflexivity). specialize (H H0). discriminate. }
  destruct Hfind as (b & Hl & Hd). rewrite Hl, Hd. reflexivity.
Qed.

(* a put that answers nil and leaves the map as it was is an identity CID that is not stored, or its
   key was already present *)
Lemma m_skip_only_if_present f o roots m c d p m' :
  cid_parse c = Some p ->
  spec_step f o roots m (OpPut c d) = (m', ONil) ->
  (m_blocks m' = m_blocks m /\ (negb (w_storeid o) && is_identity p = true \/ m_present o (m_blocks m) c = true)) \/
  m_blocks m' = m_blocks m ++ [(c, d)].
Proof.
  intros Hp Hput.
  assert (Hone : m_put_one o m c d p = (m', ONil)).
  { destruct f as [|r|]; cbn [spec_step] in Hput.
    - unfold m_put_many in Hput. destruct (m_closed m); [discriminate|]. destruct (m_finalized m); [discriminate|].
      cbn [m_put_loop] in Hput. rewrite Hp in Hput. destruct (m_put_one o m c d p) as [m1 r1].
      destruct r1; try discriminate. exact Hput.
    - unfold m_st_put in Hput. rewrite Hp in Hput. destruct (m_closed m); [discriminate|].
      destruct (m_finalized m); [discriminate|]. exact Hput.
    - unfold m_put_many in Hput. destruct (m_closed m); [discriminate|]. destruct (m_finalized m); [discriminate|].
      cbn [m_put_loop] in Hput. rewrite Hp in Hput. destruct (m_put_one o m c d p) as [m1 r1].
      destruct r1; try discriminate. exact Hput. }
  unfold m_put_one in Hone.
  destruct (negb (w_storeid o) && is_identity p); [inversion Hone; subst; left; auto|].
  destruct (w_maxcid o <? blen c); [discriminate|].
  destruct (negb (w_dups o) && m_present o (m_blocks m) c) eqn:E.
  - apply andb_true_iff in E. inversion Hone; subst. left. split; [reflexivity|right; apply E].
  - inversion Hone; subst. right. reflexivity.
Qed.

(* the listing is a permutation of one key per stored block *)
Lemma m_keys_perm whole bs :
  Permutation (map (listed_key whole) (sort_by_digest (records_from 0 bs)))
              (map (listed_key whole) (records_from 0 bs)).
Proof. apply Permutation_map. apply sort_by_digest_perm. Qed.

(* ---- the corollaries on the stores (from an empty file) ----------------------------------------------------- *)
Section Cor.
  Variable hdrdec : bytes -> option (list bytes * N).
  Variables (k : skind) (o : wopts) (nilroots : bool) (roots : list bytes).
  Let hb := enc_header (roots_opt nilroots roots) 1.
  Hypothesis Hbase : base_fits o.
  Hypothesis Hdec : hdrdec hb = Some (roots, 1).
  Hypothesis Hhmax : blen hb <= w_maxh o.
  Hypothesis Hh63 : blen hb < two63.
  Variable s0 : wstate.
  Hypothesis Hopen : open_new k o nilroots roots [] = Ok s0.

  Let istep f := impl_step hdrdec f.
  Let after f ops := last (map fst (trace (istep f) s0 ops)) s0.
  Let m_after f ops := last (map fst (trace (spec_step f o roots) m_empty ops)) m_empty.

  Lemma after_abs f ops : hist_ok o nilroots roots ops -> abs (after f ops) = m_after f ops.
  Proof.
    intros H. apply (abs_R o roots hb _ _ Hh63).
    apply (reach_R hdrdec k o nilroots roots Hbase Hdec Hhmax Hh63 s0 Hopen f ops H).
  Qed.

  (* one more step after a valid history: the implementation's step is the map's step *)
  Lemma step_after f ops op : hist_ok o nilroots roots (ops ++ [op]) ->
    exists s' m' r, istep f (after f ops) op = (s', r) /\ spec_step f o roots (m_after f ops) op = (m', r) /\
                    abs (after f ops) = m_after f ops /\ abs s' = m'.
  Proof.
    intros (Hops & Hsz). apply Forall_app in Hops. destruct Hops as (Hops & Hop). inversion Hop as [|? ? Hop1 _]; subst.
    assert (Hsz' : ops_size (ops ++ [op]) = ops_size ops + op_size op).
    { clear. induction ops as [|x t IH]; cbn [app ops_size fold_right]; [lia|]. fold (ops_size (t ++ [op])). fold (ops_size t). lia. }
    assert (Hh : hist_ok o nilroots roots ops) by (split; [exact Hops|fold hb; fold hb in Hsz; lia]).
    pose proof (reach_R hdrdec k o nilroots roots Hbase Hdec Hhmax Hh63 s0 Hopen f ops Hh) as HR.
    fold hb in HR. fold (after f ops) in HR. fold (m_after f ops) in HR.
    destruct (step_sim hdrdec o roots hb Hdec Hhmax Hh63 f _ _ op HR Hop1) as (s' & m' & r & H1 & H2 & HR' & _).
    { (* size: position after ops is bounded by the header plus what ops put *)
      pose proof (trace_sim hdrdec o roots hb Hdec Hhmax Hh63 f ops) as Hts.
      assert (Hpos : ws_pos (after f ops) <= ld_size (blen hb) + ops_size ops).
      { destruct (R_open k o nilroots roots Hbase s0 Hopen) as (HR0 & Hp0). fold hb in HR0, Hp0.
        clear - Hops Hsz Hsz' HR0 Hp0 Hdec Hhmax Hh63. unfold after, istep.
        assert (G : forall ops s m, R o roots hb s m -> Forall (op_ok o) ops ->
                      fits o s (ops_size ops) ->
                      ws_pos (last (map fst (trace (impl_step hdrdec f) s ops)) s) <= ws_pos s + ops_size ops).
        { induction ops0 as [|x t IH]; intros s m HRs Hall Hfit; [cbn; lia|].
          inversion Hall as [|? ? Hx Hall']; subst. cbn [ops_size fold_right] in *. fold (ops_size t) in *.
          destruct (step_sim hdrdec o roots hb Hdec Hhmax Hh63 f s m x HRs Hx) as (s1 & m1 & r1 & E1 & _ & HR1 & Hp1).
          { unfold fits in *. lia. }
          cbn [trace]. rewrite E1. cbn [map fst]. rewrite last_cons_default.
          specialize (IH s1 m1 HR1 Hall'). assert (fits o s1 (ops_size t)) by (unfold fits in *; lia). specialize (IH H). lia. }
        specialize (G ops s0 m_empty HR0 Hops). rewrite Hp0 in G. apply G. unfold fits. rewrite Hp0. fold hb in Hsz. lia. }
      unfold fits, after, istep, hb in *. lia. }
    exists s', m', r. split; [exact H1|]. split; [exact H2|]. split.
    - apply (abs_R o roots hb _ _ Hh63 HR).
    - apply (abs_R o roots hb _ _ Hh63 HR').
  Qed.

  (* put then get *)
  Theorem put_then_get f ops c d p :
    f = FBs \/ f = FSt true \/ f = FBf -> cid_parse c = Some p ->
    hist_ok o nilroots roots (ops ++ [OpPut c d]) ->
    (is_identity p = true -> d = c_digest p) ->
    (forall b, In b (puts_of ops) -> same_key (w_whole o) (fst b) c = true -> snd b = d) ->
    forall s1, istep f (after f ops) (OpPut c d) = (s1, ONil) ->
    snd (istep f s1 (OpGet c)) = OBytes d.
  Proof.
    intros Hf Hp Hh Hid Hcons s1 Hput.
    destruct (step_after f ops (OpPut c d) Hh) as (s' & m' & r & H1 & H2 & Ha & Ha').
    rewrite Hput in H1. inversion H1; subst s' r.
    (* the get after it: relate s1 to m' once more *)
    assert (Hh2 : hist_ok o nilroots roots ((ops ++ [OpPut c d]) ++ [OpGet c])).
    { destruct Hh as (Ha1 & Ha2). split.
      - apply Forall_app. split; [exact Ha1|constructor; [exact I|constructor]].
      - replace (ops_size ((ops ++ [OpPut c d]) ++ [OpGet c])) with (ops_size (ops ++ [OpPut c d])); [exact Ha2|].
        generalize (ops ++ [OpPut c d]). clear. induction l as [|x t IH]; cbn [app ops_size fold_right op_size]; [reflexivity|].
        fold (ops_size (t ++ [OpGet c])). fold (ops_size t). lia. }
    destruct (step_after f (ops ++ [OpPut c d]) (OpGet c) Hh2) as (s2 & m2 & r2 & G1 & G2 & _ & _).
    assert (Hs1 : after f (ops ++ [OpPut c d]) = s1).
    { unfold after. rewrite trace_app. cbn [trace]. fold (after f ops). rewrite Hput.
      rewrite map_app. cbn [map fst]. rewrite last_last. reflexivity. }
    assert (Hm1 : m_after f (ops ++ [OpPut c d]) = m').
    { unfold m_after. rewrite trace_app. cbn [trace]. fold (m_after f ops). rewrite H2.
      rewrite map_app. cbn [map fst]. rewrite last_last. reflexivity. }
    rewrite Hs1 in G1. rewrite Hm1 in G2. rewrite G1. cbn [snd].
    pose proof (m_put_then_get f o roots (m_after f ops) c d p m' Hf Hp H2 Hid) as Hg.
    rewrite G2 in Hg. cbn [snd] in Hg. apply Hg.
    intros b Hb. apply Hcons. pose proof (spec_blocks_incl f o roots ops m_empty b Hb) as Hin. exact Hin.
  Qed.

  (* skip only if present (stated on the abstraction of the real states) *)
  Theorem skip_only_if_present f ops c d p :
    cid_parse c = Some p -> hist_ok o nilroots roots (ops ++ [OpPut c d]) ->
    forall s1, istep f (after f ops) (OpPut c d) = (s1, ONil) ->
    (stored_of s1 = stored_of (after f ops) /\
       (negb (w_storeid o) && is_identity p = true \/ m_present o (stored_of (after f ops)) c = true)) \/
    stored_of s1 = stored_of (after f ops) ++ [(c, d)].
  Proof.
    intros Hp Hh s1 Hput.
    destruct (step_after f ops (OpPut c d) Hh) as (s' & m' & r & H1 & H2 & Ha & Ha').
    rewrite Hput in H1. inversion H1; subst s' r.
    pose proof (m_skip_only_if_present f o roots _ c d p m' Hp H2) as Hs.
    assert (E1 : stored_of s1 = m_blocks m') by (rewrite <- Ha'; reflexivity).
    assert (E0 : stored_of (after f ops) = m_blocks (m_after f ops)) by (rewrite <- Ha; reflexivity).
    rewrite E1, E0. exact Hs.
  Qed.
End Cor.
