(* C09: bounds on every buffer the parsers materialise from an input-declared length
   (theories/Alloc.v), for ALL byte strings, option rows and oracles. *)
From GoCar Require Import Bytes Varint Cid Header Frame V2Header Scan Index Store Alloc.
From GoCarProofs Require Import BytesFacts VarintFacts Termination.

Lemma sumN_app a b : sumN (a ++ b) = sumN a + sumN b.
Proof. induction a as [|x a IH]; cbn [app sumN]; lia. Qed.

Lemma allocs_panic_false l : Forall (fun n => n <= go_max_alloc) l -> allocs_panic l = false.
Proof.
  induction 1 as [|x l Hx _ IH]; [reflexivity|]. cbn [allocs_panic existsb]. fold (allocs_panic l).
  rewrite IH. unfold make_panics. replace (go_max_alloc <? x) with false by lia. reflexivity.
Qed.
Lemma allocs_panic_true l : allocs_panic l = true <-> Exists (fun n => go_max_alloc < n) l.
Proof.
  unfold allocs_panic. rewrite existsb_exists, Exists_exists. unfold make_panics.
  split; intros (x & Hin & Hx); exists x; split; try assumption; lia.
Qed.

Lemma Forall_weaken {A} (P Q : A -> Prop) l : (forall x, P x -> Q x) -> Forall P l -> Forall Q l.
Proof. intros H F. induction F; constructor; auto. Qed.

(* ---- framing ------------------------------------------------------------------------------- *)
(* the buffer is requested only after the limit test: its size never exceeds the limit *)
Lemma ld_read_allocs_bound zeof maxb s : Forall (fun n => n <= maxb) (ld_read_allocs zeof maxb s).
Proof.
  unfold ld_read_allocs, ld_read_size.
  destruct (read_uv s) as [l r n| | | |]; try constructor.
  destruct ((l =? 0) && zeof); [constructor|].
  destruct (maxb <? l) eqn:E; [constructor|]. constructor; [lia|constructor].
Qed.
Lemma ld_read_allocs_sum zeof maxb s : sumN (ld_read_allocs zeof maxb s) <= maxb.
Proof.
  pose proof (ld_read_allocs_bound zeof maxb s) as H. unfold ld_read_allocs in *.
  destruct (ld_read_size zeof maxb s) as [[[l r] n]|]; cbn [sumN]; [|lia].
  inversion H; subst. lia.
Qed.
(* when the read succeeds the request is exactly the buffer returned, and it is backed by input *)
Lemma ld_read_allocs_ok zeof maxb s buf rest :
  ld_read zeof maxb s = Ok (buf, rest) ->
  ld_read_allocs zeof maxb s = [blen buf] /\ blen buf + blen rest < blen s.
Proof.
  unfold ld_read, ld_read_allocs. intros H.
  destruct (ld_read_size zeof maxb s) as [[[l r] n]|] eqn:E; [|discriminate].
  destruct (blen r <? l) eqn:El; [discriminate|]. inversion H; subst.
  unfold ld_read_size in E. destruct (read_uv s) as [l' r' n'| | | |] eqn:Eu; try discriminate.
  apply read_uv_consumes in Eu.
  destruct ((l' =? 0) && zeof); [discriminate|]. destruct (maxb <? l'); [discriminate|].
  inversion E; subst. rewrite blen_take, blen_drop. split; [f_equal; f_equal; lia|lia].
Qed.
(* an over-limit length is rejected with nothing requested *)
Lemma ld_read_allocs_rejected zeof maxb s e :
  ld_read_size zeof maxb s = Err e -> ld_read_allocs zeof maxb s = [].
Proof. unfold ld_read_allocs. intros ->. reflexivity. Qed.
Lemma ld_read_too_large_no_alloc zeof maxb s :
  ld_read zeof maxb s = Err ESectionTooLarge -> ld_read_allocs zeof maxb s = [].
Proof.
  unfold ld_read, ld_read_allocs. destruct (ld_read_size zeof maxb s) as [[[l r] n]|e]; [|reflexivity].
  destruct (blen r <? l); discriminate.
Qed.

Lemma ld_read_root_allocs_bound s : Forall (fun n => n <= root_max_section) (ld_read_root_allocs s).
Proof.
  unfold ld_read_root_allocs. destruct s as [|b t]; [constructor|].
  destruct (read_uv_std (b :: t)) as [l r n| | | |]; try constructor.
  destruct (root_max_section <? wrap64 l) eqn:E; [constructor|]. constructor; [lia|constructor].
Qed.
Lemma ld_read_root_allocs_ok s buf rest :
  ld_read_root s = Ok (buf, rest) ->
  ld_read_root_allocs s = [blen buf] /\ blen buf + blen rest < blen s.
Proof.
  unfold ld_read_root, ld_read_root_allocs. intros H. destruct s as [|b t]; [discriminate|].
  destruct (read_uv_std (b :: t)) as [l r n| | | |] eqn:Eu; try discriminate.
  apply read_uv_std_consumes in Eu.
  destruct (root_max_section <? wrap64 l); [discriminate|].
  destruct (blen r <? wrap64 l) eqn:El; [discriminate|]. inversion H; subst.
  rewrite blen_take, blen_drop. split; [f_equal; f_equal; lia|lia].
Qed.
Lemma ld_read_root_allocs_sum s : sumN (ld_read_root_allocs s) <= root_max_section.
Proof.
  unfold ld_read_root_allocs. destruct s as [|b t]; [cbn [sumN]; lia|].
  destruct (read_uv_std (b :: t)) as [l r n| | | |]; cbn [sumN]; try lia.
  destruct (root_max_section <? wrap64 l) eqn:E; cbn [sumN]; lia.
Qed.

(* ---- cid.CidFromReader ------------------------------------------------------------------------ *)
Lemma cfr_allocs_bound s : Forall (fun n => n <= max_digest_alloc) (cfr_allocs s).
Proof.
  unfold cfr_allocs.
  destruct (read_uv s) as [vers r1 n1| | | |]; try constructor.
  destruct (vers =? 18); [constructor|]. destruct (negb (vers =? 1)); [constructor|].
  destruct (read_uv r1) as [codec r2 n2| | | |]; try constructor.
  destruct (read_uv r2) as [code r3 n3| | | |]; try constructor.
  destruct (read_uv r3) as [mhl r4 n4| | | |]; try constructor.
  destruct (max_digest_alloc <? mhl) eqn:E; [constructor|].
  destruct (n1 + n2 + n3 + n4 + mhl <=? cid_scratch); [constructor|].
  constructor; [lia|constructor].
Qed.
Lemma cfr_allocs_sum s : sumN (cfr_allocs s) <= max_digest_alloc.
Proof.
  pose proof (cfr_allocs_bound s) as H. unfold cfr_allocs in *.
  destruct (read_uv s) as [vers r1 n1| | | |]; cbn [sumN]; try lia.
  destruct (vers =? 18); cbn [sumN]; [lia|]. destruct (negb (vers =? 1)); cbn [sumN]; [lia|].
  destruct (read_uv r1) as [codec r2 n2| | | |]; cbn [sumN]; try lia.
  destruct (read_uv r2) as [code r3 n3| | | |]; cbn [sumN]; try lia.
  destruct (read_uv r3) as [mhl r4 n4| | | |]; cbn [sumN]; try lia.
  destruct (max_digest_alloc <? mhl) eqn:E; cbn [sumN]; [lia|].
  destruct (n1 + n2 + n3 + n4 + mhl <=? cid_scratch); cbn [sumN]; lia.
Qed.
(* a CID that parses had its digest buffer backed by the bytes it was read from *)
Lemma cfr_allocs_ok s n c p rest :
  cid_from_reader s = CfrOk n c p rest -> sumN (cfr_allocs s) <= blen s.
Proof.
  unfold cid_from_reader, cfr_allocs. intros H.
  destruct (read_uv s) as [vers r1 n1| | | |] eqn:E1; try discriminate.
  apply read_uv_consumes in E1.
  destruct (vers =? 18); [cbn [sumN]; lia|].
  destruct (negb (vers =? 1)); [discriminate|].
  destruct (read_uv r1) as [codec r2 n2| | | |] eqn:E2; try discriminate.
  apply read_uv_consumes in E2.
  destruct (read_uv r2) as [code r3 n3| | | |] eqn:E3; try discriminate.
  apply read_uv_consumes in E3.
  destruct (read_uv r3) as [mhl r4 n4| | | |] eqn:E4; try discriminate.
  apply read_uv_consumes in E4.
  destruct (max_digest_alloc <? mhl); [discriminate|].
  destruct (blen r4 <? mhl) eqn:E5; [discriminate|].
  destruct (n1 + n2 + n3 + n4 + mhl <=? cid_scratch); cbn [sumN]; lia.
Qed.

(* ---- sequential readers ------------------------------------------------------------------------ *)
Section Scan.
  Variable hok : bytes -> bytes -> option bool.
  Variable hdrdec : bytes -> option (list bytes * N).

  Lemma next_block_ld_read o s b rest :
    next_block hok o s = Ok (b, rest) -> exists buf, ld_read (o_zeof o) (o_maxs o) s = Ok (buf, rest).
  Proof.
    unfold next_block, read_node. intros H.
    destruct (ld_read (o_zeof o) (o_maxs o) s) as [[buf r]|] eqn:E; [|discriminate].
    destruct (cid_from_bytes buf) as [[n q]|]; [|discriminate].
    exists buf. destruct (o_trusted o); [inversion H; reflexivity|].
    destruct (verify hok (take n buf) q (drop n buf)); inversion H; reflexivity.
  Qed.

  (* every section buffer is within MaxAllowedSectionSize *)
  Lemma scan_allocs_bound o : forall fuel s, Forall (fun n => n <= o_maxs o) (scan_allocs hok fuel o s).
  Proof.
    induction fuel as [|f IH]; intros s; cbn [scan_allocs]; [constructor|].
    apply Forall_app. split; [apply ld_read_allocs_bound|].
    destruct (next_block hok o s) as [[b rest]|]; [apply IH|constructor].
  Qed.

  (* all section buffers together: every one but possibly the last is backed by input bytes *)
  Lemma scan_allocs_sum o : forall fuel s, sumN (scan_allocs hok fuel o s) <= blen s + o_maxs o.
  Proof.
    induction fuel as [|f IH]; intros s; cbn [scan_allocs sumN]; [lia|].
    rewrite sumN_app.
    destruct (next_block hok o s) as [[b rest]|] eqn:E.
    - destruct (next_block_ld_read _ _ _ _ E) as (buf & Hb).
      destruct (ld_read_allocs_ok _ _ _ _ _ Hb) as (-> & Hlen). cbn [sumN].
      specialize (IH rest). lia.
    - pose proof (ld_read_allocs_sum (o_zeof o) (o_maxs o) s). cbn [sumN]. lia.
  Qed.

  Lemma read_header_ld_read maxh s roots v rest used :
    read_header hdrdec maxh s = Ok (roots, v, rest, used) ->
    exists hb, ld_read false maxh s = Ok (hb, rest).
  Proof.
    unfold read_header. intros H.
    destruct (ld_read false maxh s) as [[hb r]|e] eqn:E.
    - destruct (hdrdec hb) as [[rs ver]|]; [|discriminate]. inversion H; subst. eauto.
    - destruct e; discriminate.
  Qed.

  (* NewBlockReader + Next loop: every buffer is a header buffer within MaxAllowedHeaderSize or a
     section buffer within MaxAllowedSectionSize *)
  Theorem br_allocs_bound o file :
    Forall (fun n => n <= o_maxh o \/ n <= o_maxs o) (br_allocs hok hdrdec o file).
  Proof.
    unfold br_allocs.
    assert (Hh : forall s, Forall (fun n => n <= o_maxh o \/ n <= o_maxs o) (ld_read_allocs false (o_maxh o) s)).
    { intros s. eapply Forall_weaken; [|apply ld_read_allocs_bound]. cbn. intros; lia. }
    assert (Hs : forall s, Forall (fun n => n <= o_maxh o \/ n <= o_maxs o) (scan_all_allocs hok o s)).
    { intros s. eapply Forall_weaken; [|apply scan_allocs_bound]. cbn. intros; lia. }
    apply Forall_app. split; [apply Hh|].
    destruct (read_header hdrdec (o_maxh o) file) as [[[[roots v] rest] used]|]; [|constructor].
    destruct (v =? 1); [apply Hs|]. destruct (v =? 2); [|constructor].
    destruct (read_v2hdr rest) as [[h rest2]|]; [|constructor].
    apply Forall_app. split; [apply Hh|].
    destruct (read_header hdrdec (o_maxh o) _) as [[[[roots1 v1] rest3] used1]|]; [|constructor].
    destruct (v1 =? 1); [apply Hs|constructor].
  Qed.

  Lemma read_v2hdr_consumes s h rest : read_v2hdr s = Ok (h, rest) -> blen rest + 40 = blen s.
  Proof.
    unfold read_v2hdr. intros H.
    destruct (blen s <? 16) eqn:E1; [discriminate|]. destruct (blen s <? 40) eqn:E2; [discriminate|].
    destruct (as_int64 _ <? 51)%Z; [discriminate|]. destruct (as_int64 _ <=? 0)%Z; [discriminate|].
    destruct (as_int64 _ <? 0)%Z; [discriminate|]. inversion H; subst. rewrite blen_drop. lia.
  Qed.

  (* ... and all of them together never exceed the input size plus one header and one section limit *)
  Theorem br_allocs_sum o file :
    sumN (br_allocs hok hdrdec o file) <= blen file + o_maxh o + o_maxs o.
  Proof.
    unfold br_allocs. rewrite sumN_app.
    pose proof (ld_read_allocs_sum false (o_maxh o) file) as H1.
    destruct (read_header hdrdec (o_maxh o) file) as [[[[roots v] rest] used]|] eqn:E; [|cbn [sumN]; lia].
    destruct (read_header_ld_read _ _ _ _ _ _ E) as (hb & Hb).
    destruct (ld_read_allocs_ok _ _ _ _ _ Hb) as (-> & Hlen). cbn [sumN].
    destruct (v =? 1).
    { pose proof (scan_allocs_sum o (S (length rest)) rest). unfold scan_all_allocs. lia. }
    destruct (v =? 2); [|cbn [sumN]; lia].
    destruct (read_v2hdr rest) as [[h rest2]|] eqn:E2; [|cbn [sumN]; lia].
    apply read_v2hdr_consumes in E2.
    set (vis := take (h_dsize h) (drop (h_doff h - 51) rest2)).
    assert (Hvis : blen vis <= blen rest2) by (subst vis; rewrite blen_take, blen_drop; lia).
    rewrite sumN_app.
    pose proof (ld_read_allocs_sum false (o_maxh o) vis) as H2.
    destruct (read_header hdrdec (o_maxh o) vis) as [[[[roots1 v1] rest3] used1]|] eqn:E3; [|cbn [sumN]; lia].
    destruct (read_header_ld_read _ _ _ _ _ _ E3) as (hb1 & Hb1).
    destruct (ld_read_allocs_ok _ _ _ _ _ Hb1) as (-> & Hlen1). cbn [sumN].
    destruct (v1 =? 1); [|cbn [sumN]; lia].
    pose proof (scan_allocs_sum o (S (length rest3)) rest3). unfold scan_all_allocs. lia.
  Qed.

  Theorem carv1_allocs_bound o file :
    Forall (fun n => n <= o_maxh o \/ n <= o_maxs o) (carv1_allocs hok hdrdec o file).
  Proof.
    unfold carv1_allocs. apply Forall_app. split.
    { eapply Forall_weaken; [|apply ld_read_allocs_bound]. cbn. intros; lia. }
    destruct (read_header hdrdec (o_maxh o) file) as [[[[roots v] rest] used]|]; [|constructor].
    destruct (negb (v =? 1)); [constructor|]. destruct roots; [constructor|].
    eapply Forall_weaken; [|apply scan_allocs_bound]. cbn. intros; lia.
  Qed.
  Theorem carv1_allocs_sum o file :
    sumN (carv1_allocs hok hdrdec o file) <= blen file + o_maxh o + o_maxs o.
  Proof.
    unfold carv1_allocs. rewrite sumN_app.
    pose proof (ld_read_allocs_sum false (o_maxh o) file) as H1.
    destruct (read_header hdrdec (o_maxh o) file) as [[[[roots v] rest] used]|] eqn:E; [|cbn [sumN]; lia].
    destruct (read_header_ld_read _ _ _ _ _ _ E) as (hb & Hb).
    destruct (ld_read_allocs_ok _ _ _ _ _ Hb) as (-> & Hlen). cbn [sumN].
    destruct (negb (v =? 1)); [cbn [sumN]; lia|]. destruct roots; [cbn [sumN]; lia|].
    pose proof (scan_allocs_sum (mkropts (o_zeof o) (o_maxh o) (o_maxs o) false) (S (length rest)) rest) as Hs.
    cbn [o_maxs] in Hs. unfold scan_all_allocs. lia.
  Qed.

  (* ---- root module ---- *)
  Lemma next_block_root_ld_read s b rest :
    next_block_root hok s = Ok (b, rest) ->
    exists buf n c p after, ld_read_root s = Ok (buf, rest) /\ cid_from_reader buf = CfrOk n c p after.
  Proof.
    unfold next_block_root, read_node_root. intros H.
    destruct (ld_read_root s) as [[buf r]|] eqn:E; [|discriminate].
    destruct (cid_from_reader buf) as [n c p after| |] eqn:Ec; try discriminate.
    exists buf, n, c, p, after. destruct (verify hok c p after); inversion H; subst; auto.
  Qed.

  Lemma scan_root_allocs_bound : forall fuel s,
    Forall (fun n => n <= root_max_section \/ n <= max_digest_alloc) (scan_root_allocs hok fuel s).
  Proof.
    induction fuel as [|f IH]; intros s; cbn [scan_root_allocs]; [constructor|].
    apply Forall_app. split.
    { eapply Forall_weaken; [|apply ld_read_root_allocs_bound]. cbn. intros; lia. }
    apply Forall_app. split.
    { destruct (ld_read_root s) as [[buf r]|]; [|constructor].
      eapply Forall_weaken; [|apply cfr_allocs_bound]. cbn. intros; lia. }
    destruct (next_block_root hok s) as [[b rest]|]; [apply IH|constructor].
  Qed.

  Lemma scan_root_allocs_sum : forall fuel s,
    sumN (scan_root_allocs hok fuel s) <= 2 * blen s + root_max_section + max_digest_alloc.
  Proof.
    induction fuel as [|f IH]; intros s; cbn [scan_root_allocs sumN]; [lia|].
    rewrite !sumN_app.
    destruct (next_block_root hok s) as [[b rest]|] eqn:E.
    - destruct (next_block_root_ld_read _ _ _ E) as (buf & n & c & p & after & Hb & Hc).
      rewrite Hb. destruct (ld_read_root_allocs_ok _ _ _ Hb) as (-> & Hlen). cbn [sumN].
      pose proof (cfr_allocs_ok _ _ _ _ _ Hc). specialize (IH rest). lia.
    - cbn [sumN]. pose proof (ld_read_root_allocs_sum s).
      destruct (ld_read_root s) as [[buf r]|]; [pose proof (cfr_allocs_sum buf)|cbn [sumN]]; lia.
  Qed.

  Theorem root_allocs_bound file :
    Forall (fun n => n <= root_max_section \/ n <= max_digest_alloc) (root_allocs hok hdrdec file).
  Proof.
    unfold root_allocs. apply Forall_app. split.
    { eapply Forall_weaken; [|apply ld_read_root_allocs_bound]. cbn. intros; lia. }
    destruct (read_header_root hdrdec file) as [[[roots v] rest]|]; [|constructor].
    destruct (negb (v =? 1)); [constructor|]. destruct roots; [constructor|]. apply scan_root_allocs_bound.
  Qed.
  Theorem root_allocs_sum file :
    sumN (root_allocs hok hdrdec file) <= 2 * blen file + 2 * root_max_section + max_digest_alloc.
  Proof.
    unfold root_allocs. rewrite sumN_app. pose proof (ld_read_root_allocs_sum file) as H1.
    destruct (read_header_root hdrdec file) as [[[roots v] rest]|] eqn:E; [|cbn [sumN]; lia].
    unfold read_header_root in E. destruct (ld_read_root file) as [[hb r]|] eqn:Eb; [|discriminate].
    destruct (hdrdec hb) as [[rs ver]|]; [|discriminate]. inversion E; subst.
    destruct (ld_read_root_allocs_ok _ _ _ Eb) as (_ & Hlen).
    destruct (negb (v =? 1)); [cbn [sumN]; lia|]. destruct roots; [cbn [sumN]; lia|].
    pose proof (scan_root_allocs_sum (S (length rest)) rest). lia.
  Qed.
End Scan.
