(* C19: the three section walkers the commands bring along (car index's copying walker, LoadIndex
   behind `car index create` / get-block, Reader.Inspect behind `car inspect`) on constructed
   payloads: each sees exactly the sections that were written, at the offsets they were written. *)
From GoCar Require Import Bytes Varint Cid Header Frame V2Header Scan Index Store CliCmds.
From GoCarProofs Require Import BytesFacts VarintFacts CidFacts HeaderFacts ScanFacts ScanTrunc ScanTruncV2 StoreInv CliBase.

(* non-identity records of the sections of bs laid out from offset pos *)
Definition regen_from (pos : N) (bs : list block) : list irec :=
  filter (fun r => negb (r_code r =? 0)) (records_from pos bs).

Lemma regen_records_hb_from hb bs : regen_records_hb hb bs = regen_from (blen (ld hb)) bs.
Proof. reflexivity. Qed.

Lemma regen_from_cons pos c d p t : cid_parse c = Some p ->
  regen_from pos ((c, d) :: t)
  = (if is_identity p then [] else [mkrec c (c_mhcode p) (c_digest p) pos]) ++ regen_from (pos + section_size c d) t.
Proof.
  intros Hp. unfold regen_from. cbn [records_from]. rewrite Hp. cbn [filter r_code].
  unfold is_identity. destruct (c_mhcode p =? 0); reflexivity.
Qed.

(* what a block hypothesis gives about the front of a stream that starts with its section *)
Lemma section_front c d rest : blk_ok default_maxs (c, d) ->
  exists p, cid_parse c = Some p /\
    enc_section c d ++ rest = put_uv (blen c + blen d) ++ c ++ d ++ rest /\
    read_uv (put_uv (blen c + blen d) ++ c ++ d ++ rest)
      = VOk (blen c + blen d) (c ++ d ++ rest) (uv_size (blen c + blen d)) /\
    cid_from_reader (c ++ d ++ rest) = CfrOk (blen c) c p (d ++ rest) /\
    2 <= blen c /\ blen c + blen d <= default_maxs /\ blen c + blen d < two63.
Proof.
  intros (Hc & Hmax & H63). cbn [fst snd] in *.
  destruct (cid_rd_ok_parse c Hc) as (p & Hp & Hcok & Hce & Hdig).
  exists p. split; [exact Hp|]. split; [unfold enc_section; rewrite <- !app_assoc; reflexivity|].
  split; [apply read_uv_put_uv; exact H63|].
  split.
  - rewrite Hce at 1. rewrite cid_from_reader_enc by assumption. rewrite <- Hce. reflexivity.
  - split; [rewrite Hce; apply cid_enc_nonempty; exact Hcok|]. split; assumption.
Qed.

Lemma read_uv_nil : read_uv [] = VEof.
Proof. reflexivity. Qed.

(* ---- car index: the copying walker -------------------------------------------------------------- *)
Lemma ix_walk_sections : forall bs fuel off,
  Forall (blk_ok default_maxs) bs -> (length bs < fuel)%nat ->
  ix_walk fuel (enc_sections bs) off = (enc_sections bs, regen_from off bs, None).
Proof.
  induction bs as [|[c d] t IH]; intros fuel off Hok Hf; (destruct fuel as [|f]; [cbn in Hf; lia|]).
  - reflexivity.
  - inversion Hok as [|? ? Hb Hok']; subst.
    destruct (section_front c d (enc_sections t) Hb) as (p & Hp & Hsplit & Hru & Hcr & Hc2 & Hmax & H63).
    rewrite enc_sections_cons. rewrite Hsplit. cbn [ix_walk]. rewrite Hru.
    replace (blen c + blen d =? 0) with false by lia.
    rewrite Hcr.
    replace (blen c + blen d - blen c) with (blen d) by lia.
    rewrite take_app, drop_app.
    replace (blen d <? blen d) with false by lia.
    rewrite IH by (try exact Hok'; cbn in Hf; lia).
    erewrite regen_from_cons by exact Hp.
    unfold section_size, ld_size.
    replace (off + (blen c + blen d) + uv_size (blen c + blen d)) with (off + (blen c + blen d + uv_size (blen c + blen d))) by lia.
    reflexivity.
Qed.

(* ---- carv2.LoadIndex: the seeking walker ------------------------------------------------------------ *)
Definition cids_indexable (bs : list block) : Prop :=
  Forall (fun b => blen (fst b) <= max_index_cid) bs.

Lemma li_walk_sections bad base : forall bs view pre acc fuel,
  view = pre ++ enc_sections bs -> (forall q, q <= blen view -> bad q = false) ->
  Forall (blk_ok default_maxs) bs -> cids_indexable bs ->
  base + blen view < two63 -> (length bs < fuel)%nat ->
  li_walk fuel bad base view (blen pre) acc = Ok (rev acc ++ regen_from (blen pre) bs).
Proof.
  induction bs as [|[c d] t IH]; intros view pre acc fuel Hv Hbad Hok Hix Hb63 Hf;
    (destruct fuel as [|f]; [cbn in Hf; lia|]); cbn [li_walk].
  - rewrite Hbad by (rewrite Hv, blen_app; lia).
    rewrite Hv. cbn [enc_sections map concat]. rewrite app_nil_r, drop_all, read_uv_nil.
    unfold regen_from. cbn [records_from filter]. rewrite app_nil_r. reflexivity.
  - inversion Hok as [|? ? Hb Hok']; subst. inversion Hix as [|? ? Hc2k Hix']; subst. cbn [fst] in Hc2k.
    destruct (section_front c d (enc_sections t) Hb) as (p & Hp & Hsplit & Hru & Hcr & Hc2 & Hmax & H63).
    rewrite Hbad by (rewrite blen_app; lia).
    rewrite drop_app. rewrite enc_sections_cons, Hsplit, Hru.
    replace (blen c + blen d =? 0) with false by lia.
    rewrite Hcr.
    replace (max_index_cid <? blen c) with false by lia. rewrite andb_false_r.
    pose proof Hb63 as Hb63'. rewrite enc_sections_cons, !blen_app, blen_enc_section in Hb63'.
    unfold section_size, ld_size in Hb63'.
    replace (two63 <=? base + blen pre + uv_size (blen c + blen d) + (blen c + blen d)) with false by lia.
    replace (blen pre + uv_size (blen c + blen d) + (blen c + blen d)) with (blen (pre ++ enc_section c d))
      by (rewrite blen_app, blen_enc_section; unfold section_size, ld_size; lia).
    rewrite (IH _ (pre ++ enc_section c d)).
    + erewrite regen_from_cons by exact Hp.
      rewrite blen_app, blen_enc_section.
      destruct (is_identity p); cbn [rev app]; rewrite <- ?app_assoc; reflexivity.
    + rewrite <- app_assoc, Hsplit. reflexivity.
    + intros q Hq. apply Hbad. rewrite enc_sections_cons, Hsplit. exact Hq.
    + exact Hok'.
    + exact Hix'.
    + rewrite enc_sections_cons, Hsplit in Hb63. exact Hb63.
    + cbn in Hf. lia.
Qed.

Set Default Proof Using "All".
Section Walk.
  Variable hok : bytes -> bytes -> option bool.
  Variable hdrdec : bytes -> option (list bytes * N).
  Hypothesis pragma_ok : hdrdec pragma_body = Some ([], 2).

  (* ---- Reader.Inspect(true) ------------------------------------------------------------------------- *)
  Definition isec_of (b : block) : isec := (fst b, blen (fst b), blen (snd b)).

  Lemma inspect_loop_sections : forall bs view pre acc fuel,
    view = pre ++ enc_sections bs -> blocks_ok bs -> hashes_ok hok bs -> (length bs < fuel)%nat ->
    inspect_loop hok fuel true view (blen pre) acc = Ok (rev (map isec_of bs) ++ acc, blen view).
  Proof.
    induction bs as [|[c d] t IH]; intros view pre acc fuel Hv Hok Hh Hf;
      (destruct fuel as [|f]; [cbn in Hf; lia|]); cbn [inspect_loop].
    - rewrite Hv. cbn [enc_sections map concat]. rewrite app_nil_r, drop_all, read_uv_nil. reflexivity.
    - inversion Hok as [|? ? Hb Hok']; subst. inversion Hh as [|? ? Hg Hh']; subst.
      destruct (section_front c d (enc_sections t) Hb) as (p & Hp & Hsplit & Hru & Hcr & Hc2 & Hmax & H63).
      rewrite drop_app. rewrite enc_sections_cons, Hsplit, Hru.
      replace (blen c + blen d =? 0) with false by lia.
      replace (default_maxs <? blen c + blen d) with false by lia.
      rewrite Hcr.
      replace (blen c + blen d <? blen c) with false by lia.
      replace (blen c + blen d - blen c) with (blen d) by lia.
      replace (blen (d ++ enc_sections t) <? blen d) with false by (rewrite blen_app; lia).
      rewrite take_app.
      pose proof (Hg p Hp) as Hm. cbn [fst snd] in Hm. rewrite Hm.
      replace (blen pre + uv_size (blen c + blen d) + blen c + blen d) with (blen (pre ++ enc_section c d))
        by (rewrite blen_app, blen_enc_section; unfold section_size, ld_size; lia).
      rewrite (IH _ (pre ++ enc_section c d)).
      + cbn [map rev]. rewrite <- app_assoc. reflexivity.
      + rewrite <- app_assoc, Hsplit. reflexivity.
      + exact Hok'.
      + exact Hh'.
      + cbn in Hf. lia.
  Qed.

  Lemma length_payload_ge hb bs : (length bs < S (length (payload_hb hb bs)))%nat.
  Proof.
    unfold payload_hb. rewrite app_length. pose proof (enc_sections_length hok hdrdec bs). lia.
  Qed.

  (* Reader.Inspect(true) on whatever reader shows the payload *)
  Lemma reader_inspect_payload hb roots bs r file :
    hdr_ok hdrdec hb roots -> blocks_ok bs -> hashes_ok hok bs ->
    data_view r file = payload_hb hb bs ->
    reader_inspect hok hdrdec true r file
    = if (cr_ver r =? 2) && has_index (cr_hdr r) then
        match read_uv (drop (h_ioff (cr_hdr r)) file) with
        | VOk codec _ _ => Ok (mkis (cr_ver r) (cr_hdr r) roots (map isec_of bs) codec (blen (payload_hb hb bs)))
        | VEof => Err EEof
        | VUnexpectedEof => Err EUnexpectedEof
        | VOverflow | VNotMinimal => Err EOther
        end
      else Ok (mkis (cr_ver r) (cr_hdr r) roots (map isec_of bs) 0 (blen (payload_hb hb bs))).
  Proof.
    intros Hh Hb Hg Hdv. unfold reader_inspect. rewrite Hdv. unfold payload_hb at 1.
    rewrite (read_header_hb hok hdrdec pragma_ok hb roots 1) by (try apply Hh; eapply (hdr_ok_63 hok hdrdec pragma_ok); exact Hh).
    change (1 =? 1) with true. cbn [negb]. rewrite andb_false_r.
    rewrite <- blen_ld.
    rewrite (inspect_loop_sections bs (payload_hb hb bs) (ld hb) [] _ eq_refl Hb Hg (length_payload_ge hb bs)).
    rewrite app_nil_r, rev_involutive. reflexivity.
  Qed.
End Walk.
