(* MonitorLive.v -- the deadlock clause as far as the model carries it: under the lock
   discipline (in particular: mutexes acquired in strictly increasing order, nobody finishes
   holding a lock) no reachable configuration is stuck: as long as some thread has code left,
   some thread can take a step.  Blocking operations (Blk: channel operations, user callbacks)
   are steps that are always enabled in this model; the discipline confines them to sections
   that hold no lock, or to explicitly listed sites. *)
From Coq Require Import List Arith Bool Lia.
Import ListNotations.
From GoCar Require Import Monitor.
From GoCarProofs Require Import MonitorDRF.

Lemma expands_exists p : exists cd, expands p cd.
Proof.
  induction p as [|[l|alts] p [cd IH]].
  - exists []. constructor.
  - exists (l ++ cd). constructor. exact IH.
  - exists cd. constructor. exact IH.
Qed.

Definition acq_target (t : thread) : option nat :=
  match code t with Acq m _ :: _ => Some m | _ => None end.

Lemma classify (l : list thread) :
  (exists t a k, In t l /\ code t = a :: k /\ forall m md, a <> Acq m md) \/
  (forall t, In t l -> code t = [] \/ exists m md k, code t = Acq m md :: k).
Proof.
  induction l as [|t l [IH|IH]].
  - right. intros t [].
  - left. destruct IH as (u & a & k & Hin & Hc & Hn). exists u, a, k. cbn. auto.
  - destruct (code t) as [|a k] eqn:Ec.
    + right. intros u [<-|Hu]; auto.
    + destruct a as [m md|m md|f|f|i|i|s].
      1: { right. intros u [<-|Hu]; auto. right. eauto. }
      all: left; exists t; eexists; exists k; cbn; repeat split; eauto; intros; discriminate.
Qed.

Lemma max_target (l : list thread) :
  (exists t m, In t l /\ acq_target t = Some m) ->
  exists t m, In t l /\ acq_target t = Some m /\
              forall t' m', In t' l -> acq_target t' = Some m' -> m' <= m.
Proof.
  induction l as [|t l IH]; intros (u & m & Hin & Hm); [destruct Hin|].
  destruct (acq_target t) as [mt|] eqn:Et.
  - assert ((exists u m, In u l /\ acq_target u = Some m) \/ ~ (exists u m, In u l /\ acq_target u = Some m)) as [Hex|Hno].
    { clear. induction l as [|x l [IHl|IHl]].
      - right. intros (u & m & [] & _).
      - left. destruct IHl as (u & m & Hu & Hm). exists u, m. cbn. auto.
      - destruct (acq_target x) as [mx|] eqn:Ex.
        + left. exists x, mx. cbn. auto.
        + right. intros (u & m & [<-|Hu] & Hm); [congruence|]. apply IHl. eauto. }
    + destruct (IH Hex) as (v & mv & Hv & Emv & Hmax).
      destruct (le_lt_dec mt mv).
      * exists v, mv. cbn. repeat split; auto. intros t' m' [<-|Ht'] Em'; [rewrite Et in Em'; inversion Em'; lia|eauto].
      * exists t, mt. cbn. repeat split; auto. intros t' m' [<-|Ht'] Em'; [rewrite Et in Em'; inversion Em'; lia|].
        specialize (Hmax _ _ Ht' Em'). lia.
    + exists t, mt. cbn. repeat split; auto. intros t' m' [<-|Ht'] Em'; [rewrite Et in Em'; inversion Em'; lia|].
      exfalso. apply Hno. eauto.
  - destruct Hin as [<-|Hin]; [congruence|].
    destruct (IH (ex_intro _ u (ex_intro _ m (conj Hin Hm)))) as (v & mv & Hv & Emv & Hmax).
    exists v, mv. cbn. repeat split; auto. intros t' m' [<-|Ht'] Em'; [congruence|eauto].
Qed.

Section Env.
Variable guard : nat -> nat.
Variable exempt : nat -> bool.
Variable listed : nat -> bool.
Variable tbl : list (held * path).
Notation Inv := (Inv guard exempt listed tbl).
Notation step := (step tbl).
Hypothesis Htbl : tbl_ok guard exempt listed tbl = true.

Lemma can_step_other c l h a k r :
  ts c = l ++ {| th := h; code := a :: k |} :: r -> (forall m md, a <> Acq m md) ->
  exists c', step c (length l) a c'.
Proof.
  intros E Hn. destruct a as [m md|m [|]|f|f|i|i|s].
  - exfalso. eapply Hn. reflexivity.
  - eexists. eapply SRelR. exact E.
  - eexists. eapply SRelW. exact E.
  - eexists. eapply SRd. exact E.
  - eexists. eapply SWr. exact E.
  - destruct (expands_exists (snd (entry tbl i))) as [cd Hcd]. eexists. eapply SSpawn; eauto.
  - destruct (expands_exists (snd (entry tbl i))) as [cd Hcd]. eexists. eapply SHandoff; eauto.
  - eexists. eapply SBlk. exact E.
Qed.

Theorem inv_progress c :
  Inv c -> (exists t, In t (ts c) /\ code t <> []) -> exists i a c', step c i a c'.
Proof.
  intros Hi (t0 & Hin0 & Hc0).
  destruct (classify (ts c)) as [(t & a & k & Hin & Hc & Hn)|Hall].
  - apply in_split in Hin as (l & r & E). destruct t as [h cd]. cbn in Hc. subst cd.
    destruct (can_step_other c l h a k r E Hn) as [c' Hs]. eauto.
  - assert (exists t m, In t (ts c) /\ acq_target t = Some m) as Hex.
    { destruct (Hall _ Hin0) as [H|(m & md & k & H)]; [congruence|].
      exists t0, m. unfold acq_target. rewrite H. auto. }
    destruct (max_target _ Hex) as (t & m & Hin & Et & Hmax).
    unfold acq_target in Et. destruct (code t) as [|[m1 md| | | | | |] k] eqn:Ec; try discriminate.
    inversion Et; subst m1. clear Et.
    pose proof Hin as Hin'. apply in_split in Hin' as (l & r & E). destruct t as [h cd]. cbn in Ec. subst cd.
    (* a holder of m would itself be waiting for a larger mutex *)
    assert (forall u, In u (ts c) -> holdsAny (th u) m = true -> False) as Hnohold.
    { intros u Hu Hh.
      destruct (Hall _ Hu) as [Hfin|(mu & mdu & ku & Hcu)].
      - pose proof (inv_holder_unfinished guard exempt listed tbl c u Hi Hu Hfin) as Hnil.
        rewrite Hnil in Hh. discriminate.
      - destruct (tinv_at guard exempt listed tbl c u Hi Hu) as [Ho _].
        rewrite Hcu, ok_cons in Ho. cbn [Monitor.step_ok] in Ho.
        destruct (forallb (fun e => fst e <? mu) (th u)) eqn:Ef; [|discriminate Ho].
        unfold holdsAny in Hh. destruct (hget (th u) m) as [mdh|] eqn:Eg; [|discriminate].
        pose proof (hget_some_lt _ _ _ _ Ef Eg) as Hlt.
        assert (acq_target u = Some mu) as Etu by (unfold acq_target; rewrite Hcu; reflexivity).
        specialize (Hmax _ _ Hu Etu). lia. }
    destruct Hi as [Hts Hl]. destruct (Hl m) as (HW & HR & Hexcl).
    assert (wl (lk c m) = false) as Hwl.
    { destruct (wl (lk c m)); [|reflexivity]. exfalso.
      destruct (cnt_pos_ex (pW m) (ts c)) as (u & Hu & Pu); [lia|].
      apply (Hnohold u Hu). unfold pW, holdsW, holdsAny in *. destruct (hget (th u) m) as [[|]|]; auto; discriminate. }
    assert (rc (lk c m) = 0) as Hrc.
    { destruct (rc (lk c m)) eqn:Er; [reflexivity|]. exfalso.
      destruct (cnt_pos_ex (pR m) (ts c)) as (u & Hu & Pu); [lia|].
      apply (Hnohold u Hu). unfold pR, holdsR, holdsAny in *. destruct (hget (th u) m) as [[|]|]; auto; discriminate. }
    destruct md.
    + do 3 eexists. eapply SAcqR; eauto.
    + do 3 eexists. eapply SAcqW; eauto.
Qed.
End Env.

(* packaged: from the initial configuration of disciplined threads no stuck state is reachable *)
Theorem discipline_no_deadlock guard exempt listed tbl progs c :
  tbl_ok guard exempt listed tbl = true ->
  Forall (fun p => ok guard exempt listed tbl [] p = true) progs ->
  steps tbl (init progs) c ->
  (exists t, In t (ts c) /\ code t <> []) ->
  exists i a c', step tbl c i a c'.
Proof.
  intros Ht Hp Hs Hex. eapply inv_progress; eauto. eapply steps_inv; eauto using init_inv.
Qed.
