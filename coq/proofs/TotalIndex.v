(* C09: index.ReadFrom (repaired bucket reader) and store.Resume -- buffer bounds for ALL byte
   strings; the unrepaired pre-allocation is refuted at the end. *)
From GoCar Require Import Bytes Varint Cid Header Frame V2Header Scan Index Store Alloc.
From GoCarProofs Require Import BytesFacts VarintFacts Termination TotalAlloc.

(* ---- readBucket ------------------------------------------------------------------------------ *)
Lemma bucket_allocs_stop f n avail c :
  avail <? c = true \/ n <=? c = true -> sumN (bucket_allocs f n avail c) <= c.
Proof.
  destruct f as [|f]; cbn [bucket_allocs sumN]; [lia|]. intros [H|H].
  - rewrite H. cbn [sumN]. lia.
  - destruct (avail <? c); [cbn [sumN]; lia|]. rewrite H. cbn [sumN]. lia.
Qed.

(* no buffer is larger than the declared length *)
Lemma bucket_allocs_le_n n avail : forall f c, c <= n -> Forall (fun a => a <= n) (bucket_allocs f n avail c).
Proof.
  induction f as [|f IH]; intros c Hc; cbn [bucket_allocs]; constructor; [exact Hc|].
  destruct (avail <? c); [constructor|]. destruct (n <=? c); [constructor|]. apply IH. lia.
Qed.

(* a buffer is grown only after the previous one was filled: at most twice what the reader delivered *)
Lemma bucket_allocs_grow n avail : forall f c,
  Forall (fun a => a <= c \/ a <= 2 * avail) (bucket_allocs f n avail c).
Proof.
  induction f as [|f IH]; intros c; cbn [bucket_allocs]; constructor; [lia|].
  destruct (avail <? c) eqn:E; [constructor|]. destruct (n <=? c); [constructor|].
  eapply Forall_weaken; [|apply IH]. cbv beta. intros a [H|H]; lia.
Qed.

(* all buffers of one bucket together: at most four times what the reader delivered for it *)
Lemma bucket_allocs_sum n avail : forall f c, c <= n -> c <= avail ->
  sumN (bucket_allocs f n avail c) + c <= 4 * N.min avail n.
Proof.
  induction f as [|f IH]; intros c Hn Ha; cbn [bucket_allocs sumN]; [lia|].
  replace (avail <? c) with false by lia.
  destruct (n <=? c) eqn:En; [cbn [sumN]; lia|].
  destruct (N.min n (2 * c) <=? avail) eqn:Ec.
  - destruct (N.min n (2 * c) =? 2 * c) eqn:E2.
    + specialize (IH (N.min n (2 * c))). lia.
    + pose proof (bucket_allocs_stop f n avail (N.min n (2 * c))) as Hs. lia.
  - pose proof (bucket_allocs_stop f n avail (N.min n (2 * c))) as Hs. lia.
Qed.

Lemma read_bucket_allocs_sum n avail :
  sumN (read_bucket_allocs n avail) <= idx_chunk + 4 * N.min avail n.
Proof.
  unfold read_bucket_allocs.
  destruct (avail <? N.min n idx_chunk) eqn:E.
  - pose proof (bucket_allocs_stop bucket_fuel n avail (N.min n idx_chunk)). lia.
  - pose proof (bucket_allocs_sum n avail bucket_fuel (N.min n idx_chunk)). lia.
Qed.
Lemma read_bucket_allocs_sum_ok n avail : n <= avail ->
  sumN (read_bucket_allocs n avail) <= 4 * n.
Proof.
  intros H. unfold read_bucket_allocs.
  pose proof (bucket_allocs_sum n avail bucket_fuel (N.min n idx_chunk)). lia.
Qed.
Lemma read_bucket_allocs_bound n avail :
  Forall (fun a => a <= idx_chunk \/ a <= 2 * avail) (read_bucket_allocs n avail).
Proof.
  unfold read_bucket_allocs. eapply Forall_weaken; [|apply bucket_allocs_grow]. cbv beta. intros a [H|H]; lia.
Qed.
Lemma read_bucket_allocs_le_n n avail : Forall (fun a => a <= n) (read_bucket_allocs n avail).
Proof. unfold read_bucket_allocs. apply bucket_allocs_le_n. lia. Qed.

(* the log is complete: 64 rounds of doubling reach every length below 2^63, more fuel changes nothing *)
Lemma bucket_allocs_stable n avail : forall g c, n <= c * 2 ^ N.of_nat g ->
  forall f, (S g <= f)%nat -> bucket_allocs f n avail c = bucket_allocs (S g) n avail c.
Proof.
  induction g as [|g IH]; intros c Hc f Hf.
  - destruct f as [|f]; [lia|]. cbn [bucket_allocs]. cbn in Hc.
    destruct (avail <? c); [reflexivity|]. replace (n <=? c) with true by lia. reflexivity.
  - destruct f as [|f]; [lia|]. cbn [bucket_allocs].
    destruct (avail <? c); [reflexivity|]. destruct (n <=? c) eqn:En; [reflexivity|].
    f_equal. apply IH; [|lia].
    rewrite Nat2N.inj_succ, N.pow_succ_r' in Hc.
    destruct (N.min n (2 * c) =? n) eqn:Em.
    + assert (1 <= 2 ^ N.of_nat g) by (apply N.lt_pred_le, N.neq_0_lt_0, N.pow_nonzero; lia). nia.
    + nia.
Qed.
Lemma bucket_fuel_enough n avail f : n < two63 -> (bucket_fuel <= f)%nat ->
  bucket_allocs f n avail (N.min n idx_chunk) = read_bucket_allocs n avail.
Proof.
  intros Hn Hf. unfold read_bucket_allocs, bucket_fuel in *. apply bucket_allocs_stable; [|exact Hf].
  change (2 ^ N.of_nat 63) with two63. unfold two63, idx_chunk in *. lia.
Qed.

(* ---- singleWidthIndex.Unmarshal ------------------------------------------------------------------ *)
Lemma swi_allocs_bound s : Forall (fun a => a <= idx_chunk \/ a <= 2 * blen s) (swi_allocs s).
Proof.
  unfold swi_allocs. cbv zeta. destruct (blen s <? 4); [constructor|]. destruct (blen (drop 4 s) <? 8); [constructor|].
  destruct (le_dec (take 4 s) <? 8); [constructor|]. destruct (max_width <? _); [constructor|]. destruct (two63 <=? _); [constructor|].
  eapply Forall_weaken; [|apply read_bucket_allocs_bound]. cbv beta. rewrite !blen_drop. intros a [H|H]; lia.
Qed.
Lemma swi_allocs_sum s : sumN (swi_allocs s) <= idx_chunk + 4 * blen s.
Proof.
  unfold swi_allocs. cbv zeta. destruct (blen s <? 4); [cbn [sumN]; lia|]. destruct (blen (drop 4 s) <? 8); [cbn [sumN]; lia|].
  destruct (le_dec (take 4 s) <? 8); [cbn [sumN]; lia|]. destruct (max_width <? _); [cbn [sumN]; lia|].
  destruct (two63 <=? _); [cbn [sumN]; lia|].
  pose proof (read_bucket_allocs_sum (le_dec (take 8 (drop 4 s))) (blen (drop 8 (drop 4 s)))) as H.
  rewrite !blen_drop in *. lia.
Qed.
(* a bucket that was read completely cost at most four times its size, and its bytes are consumed *)
Lemma swi_allocs_sum_ok s b rest : swi_unmarshal s = Ok (b, rest) ->
  sumN (swi_allocs s) + 4 * blen rest <= 4 * blen s.
Proof.
  unfold swi_unmarshal, swi_allocs. cbv zeta. intros H.
  destruct (blen s <? 4) eqn:E1; [discriminate|]. destruct (blen (drop 4 s) <? 8) eqn:E2; [discriminate|].
  destruct (le_dec (take 4 s) <? 8); [discriminate|]. destruct (max_width <? _); [discriminate|].
  destruct (two63 <=? _); [discriminate|].
  destruct ((0 <? _) && _); [discriminate|].
  destruct (blen (drop 8 (drop 4 s)) <? le_dec (take 8 (drop 4 s))) eqn:E3; [discriminate|].
  inversion H; subst.
  pose proof (read_bucket_allocs_sum_ok (le_dec (take 8 (drop 4 s))) (blen (drop 8 (drop 4 s)))) as Hs.
  rewrite !blen_drop in *. lia.
Qed.

Lemma swis_allocs_bound : forall fuel count s,
  Forall (fun a => a <= idx_chunk \/ a <= 2 * blen s) (swis_allocs fuel count s).
Proof.
  induction fuel as [|f IH]; intros count s; cbn [swis_allocs]; [constructor|].
  destruct (count =? 0); [constructor|]. apply Forall_app. split; [apply swi_allocs_bound|].
  destruct (swi_unmarshal s) as [[b rest]|] eqn:E; [|constructor].
  apply swi_unmarshal_consumes in E. eapply Forall_weaken; [|apply IH]. cbv beta. intros a [H|H]; lia.
Qed.
Lemma swis_allocs_sum : forall fuel count s, sumN (swis_allocs fuel count s) <= idx_chunk + 4 * blen s.
Proof.
  induction fuel as [|f IH]; intros count s; cbn [swis_allocs sumN]; [lia|].
  destruct (count =? 0); [cbn [sumN]; lia|]. rewrite sumN_app.
  destruct (swi_unmarshal s) as [[b rest]|] eqn:E.
  - apply swi_allocs_sum_ok in E. specialize (IH (count - 1) rest). lia.
  - pose proof (swi_allocs_sum s). cbn [sumN]. lia.
Qed.
(* ... and what a successful run of buckets cost is covered by the bytes it consumed *)
Lemma swis_allocs_sum_ok : forall fuel count s m m' rest, swis_unmarshal fuel count s m = Ok (m', rest) ->
  sumN (swis_allocs fuel count s) + 4 * blen rest <= 4 * blen s.
Proof.
  induction fuel as [|f IH]; intros count s m m' rest H; cbn [swis_unmarshal] in H; [discriminate|].
  cbn [swis_allocs]. destruct (count =? 0); [inversion H; subst; cbn [sumN]; lia|].
  destruct (swi_unmarshal s) as [[b r]|] eqn:E; [|discriminate].
  rewrite sumN_app. apply swi_allocs_sum_ok in E. apply IH in H. lia.
Qed.

Lemma mwi_allocs_bound s : Forall (fun a => a <= idx_chunk \/ a <= 2 * blen s) (mwi_allocs s).
Proof.
  unfold mwi_allocs. destruct (blen s <? 4); [constructor|]. destruct (two31 <=? _); [constructor|].
  eapply Forall_weaken; [|apply swis_allocs_bound]. cbv beta. rewrite blen_drop. intros a [H|H]; lia.
Qed.
Lemma mwi_allocs_sum s : sumN (mwi_allocs s) <= idx_chunk + 4 * blen s.
Proof.
  unfold mwi_allocs. destruct (blen s <? 4); [cbn [sumN]; lia|]. destruct (two31 <=? _); [cbn [sumN]; lia|].
  pose proof (swis_allocs_sum (S (length s)) (le_dec (take 4 s)) (drop 4 s)) as H. rewrite blen_drop in H. lia.
Qed.
Lemma mwi_allocs_sum_ok s m rest : mwi_unmarshal s = Ok (m, rest) ->
  sumN (mwi_allocs s) + 4 * blen rest <= 4 * blen s.
Proof.
  unfold mwi_unmarshal, mwi_allocs. intros H. destruct (blen s <? 4) eqn:E; [discriminate|].
  destruct (two31 <=? _); [discriminate|]. apply swis_allocs_sum_ok in H. rewrite blen_drop in H. lia.
Qed.

Lemma mwcis_allocs_bound : forall fuel count s,
  Forall (fun a => a <= idx_chunk \/ a <= 2 * blen s) (mwcis_allocs fuel count s).
Proof.
  induction fuel as [|f IH]; intros count s; cbn [mwcis_allocs]; [constructor|].
  destruct (count =? 0); [constructor|]. destruct (blen s <? 8); [constructor|].
  apply Forall_app. split.
  { eapply Forall_weaken; [|apply mwi_allocs_bound]. cbv beta. rewrite blen_drop. intros a [H|H]; lia. }
  destruct (mwi_unmarshal (drop 8 s)) as [[w rest]|] eqn:E; [|constructor].
  apply mwi_unmarshal_consumes in E. rewrite blen_drop in E.
  eapply Forall_weaken; [|apply IH]. cbv beta. intros a [H|H]; lia.
Qed.
Lemma mwcis_allocs_sum : forall fuel count s, sumN (mwcis_allocs fuel count s) <= idx_chunk + 4 * blen s.
Proof.
  induction fuel as [|f IH]; intros count s; cbn [mwcis_allocs sumN]; [lia|].
  destruct (count =? 0); [cbn [sumN]; lia|]. destruct (blen s <? 8) eqn:E8; [cbn [sumN]; lia|].
  rewrite sumN_app.
  destruct (mwi_unmarshal (drop 8 s)) as [[w rest]|] eqn:E.
  - apply mwi_allocs_sum_ok in E. rewrite blen_drop in E. specialize (IH (count - 1) rest). lia.
  - pose proof (mwi_allocs_sum (drop 8 s)) as H. rewrite blen_drop in H. cbn [sumN]. lia.
Qed.

Lemma mh_allocs_bound s : Forall (fun a => a <= idx_chunk \/ a <= 2 * blen s) (mh_allocs s).
Proof.
  unfold mh_allocs. destruct (blen s <? 4); [constructor|]. destruct (two31 <=? _); [constructor|].
  eapply Forall_weaken; [|apply mwcis_allocs_bound]. cbv beta. rewrite blen_drop. intros a [H|H]; lia.
Qed.
Lemma mh_allocs_sum s : sumN (mh_allocs s) <= idx_chunk + 4 * blen s.
Proof.
  unfold mh_allocs. destruct (blen s <? 4); [cbn [sumN]; lia|]. destruct (two31 <=? _); [cbn [sumN]; lia|].
  pose proof (mwcis_allocs_sum (S (length s)) (le_dec (take 4 s)) (drop 4 s)) as H. rewrite blen_drop in H. lia.
Qed.

(* index.ReadFrom: every bucket buffer is at most bucketChunk or twice what the reader delivered,
   and all of them together at most bucketChunk + 4 |input| -- whatever lengths the bytes declare *)
Theorem idx_allocs_bound s : Forall (fun a => a <= idx_chunk \/ a <= 2 * blen s) (idx_allocs s).
Proof.
  unfold idx_allocs. destruct (read_uv s) as [codec rest n| | | |] eqn:E; try constructor.
  apply read_uv_consumes in E.
  destruct (codec =? codec_sorted).
  { eapply Forall_weaken; [|apply mwi_allocs_bound]. cbv beta. intros a [H|H]; lia. }
  destruct (codec =? codec_mh_sorted); [|constructor].
  eapply Forall_weaken; [|apply mh_allocs_bound]. cbv beta. intros a [H|H]; lia.
Qed.
Theorem idx_allocs_sum s : sumN (idx_allocs s) <= idx_chunk + 4 * blen s.
Proof.
  unfold idx_allocs. destruct (read_uv s) as [codec rest n| | | |] eqn:E; cbn [sumN]; try lia.
  apply read_uv_consumes in E.
  destruct (codec =? codec_sorted); [pose proof (mwi_allocs_sum rest); lia|].
  destruct (codec =? codec_mh_sorted); [pose proof (mh_allocs_sum rest); lia|cbn [sumN]; lia].
Qed.
Theorem idx_allocs_no_panic s : 2 * blen s <= go_max_alloc -> allocs_panic (idx_allocs s) = false.
Proof.
  intros H. apply allocs_panic_false. eapply Forall_weaken; [|apply idx_allocs_bound]. cbv beta.
  unfold idx_chunk, go_max_alloc in *. intros a [Ha|Ha]; lia.
Qed.

(* ---- before the repair: make([]byte, dataLen) for any dataLen < 2^63 --------------------------- *)
(* the 18-byte witness of DESIGN.md section 6 #9: codec 0x0400, one bucket, width 8, dataLen 2^63-1 *)
Definition idx_prealloc_witness : bytes :=
  [x80; x08; x01; x00; x00; x00; x08; x00; x00; x00;
   xff; xff; xff; xff; xff; xff; xff; x7f].
Lemma swi_allocs_unrepaired_panics :
  allocs_panic (swi_allocs_unrepaired (drop 6 idx_prealloc_witness)) = true.
Proof. vm_compute. reflexivity. Qed.
(* the same bytes through the repaired reader: one empty-handed request of bucketChunk bytes, then EOF *)
Lemma idx_witness_repaired :
  idx_allocs idx_prealloc_witness = [idx_chunk] /\ idx_read idx_prealloc_witness = Err EEof.
Proof. vm_compute. split; reflexivity. Qed.

(* ---- store.Resume ---------------------------------------------------------------------------------- *)
Lemma resume_scan_allocs_bound zeof base view : forall fuel pos,
  Forall (fun a => a <= max_digest_alloc) (resume_scan_allocs fuel zeof base view pos).
Proof.
  induction fuel as [|f IH]; intros pos; cbn [resume_scan_allocs]; [constructor|].
  destruct (read_uv (drop pos view)) as [len r1 n1| | | |]; try constructor.
  destruct (len =? 0); [constructor|]. apply Forall_app. split; [apply cfr_allocs_bound|].
  destruct (cid_from_reader r1) as [n c p rest| |]; try constructor.
  destruct ((n <=? len) && _); [constructor|apply IH].
Qed.

Section Resume.
  Variable hdrdec : bytes -> option (list bytes * N).
  (* OpenReadWrite on arbitrary bytes: the version probe's and the payload header's buffer are within
     the configured header limit, every CID digest buffer within go-cid's constant *)
  Theorem resume_allocs_bound k ct o roots file faults :
    Forall (fun a => a <= w_maxh o \/ a <= max_digest_alloc)
           (resume_allocs hdrdec k ct o roots file faults).
  Proof.
    unfold resume_allocs. apply Forall_app. split.
    { eapply Forall_weaken; [|apply ld_read_allocs_bound]. cbn. intros; lia. }
    destruct (read_header hdrdec (w_maxh o) file) as [[[[rs ver] rest] used]|]; [|constructor].
    destruct (negb _); [constructor|].
    match goal with |- context [match ?p with Ok _ => _ | Err _ => _ end] => destruct p as [hin|] end; [|constructor].
    apply Forall_app. split.
    { eapply Forall_weaken; [|apply ld_read_allocs_bound]. cbn. intros; lia. }
    destruct (read_header hdrdec (w_maxh o) (drop (data_base o) file)) as [[[[hroots hver] rest'] used']|]; [|constructor].
    destruct (negb (header_matches hroots hver roots)); [constructor|].
    match goal with |- context [let '(_, _) := ?p in _] => destruct p as [dv2 ok2] end.
    destruct (negb ok2); [constructor|].
    eapply Forall_weaken; [|apply resume_scan_allocs_bound]. cbn. intros; lia.
  Qed.
End Resume.
