(* C06, class resume-phase: a crash inside the writes Resume itself issues (Truncate, header zeroing)
   when the crashing process started by resuming.  Every such image is the start file with a zeroed
   prefix of the 40 header bytes (after the truncation, if the file was finalized); Resume on it is
   refused untouched or rebuilds exactly the state the crashed process started in. *)
From GoCar Require Import Bytes Varint Cid Header Frame V2Header Index Scan Store Crash.
From GoCarProofs Require Import BytesFacts VarintFacts CidFacts ResumeFacts ResumeInv ResumeReject
     CrashImage CrashScan CrashResume.

(* ---- the 40 header bytes as raw groups ------------------------------------------------------------- *)
Lemma read_v2hdr_groups A g3 B rest : blen A = 16 -> blen g3 = 8 -> blen B = 16 ->
  read_v2hdr (A ++ g3 ++ B ++ rest) =
    let doff := le_dec g3 in let dsize := le_dec (take 8 B) in let ioff := le_dec (drop 8 B) in
    if (as_int64 doff <? 51)%Z then Err EOther
    else if (as_int64 dsize <=? 0)%Z then Err EOther
    else if (as_int64 ioff <? 0)%Z then Err EOther
    else Ok (mkv2 (le_dec (take 8 A)) (le_dec (drop 8 A)) doff dsize ioff, rest).
Proof.
  intros HA Hg HB. unfold read_v2hdr.
  assert (Hl : blen (A ++ g3 ++ B ++ rest) = 40 + blen rest) by (rewrite !blen_app; lia).
  replace (blen (A ++ g3 ++ B ++ rest) <? 16) with false by lia.
  replace (blen (A ++ g3 ++ B ++ rest) <? 40) with false by lia.
  set (s := A ++ g3 ++ B ++ rest).
  assert (T8 : take 8 s = take 8 A) by (unfold s; apply take_app_le; lia).
  assert (D8 : drop 8 s = drop 8 A ++ g3 ++ B ++ rest) by (unfold s; apply drop_app_le; lia).
  assert (D16 : drop 16 s = g3 ++ B ++ rest) by (unfold s; apply drop_app_len; exact HA).
  assert (D24 : drop 24 s = B ++ rest).
  { replace (drop 24 s) with (drop 8 (drop 16 s)) by (rewrite drop_drop; reflexivity).
    rewrite D16. apply drop_app_len; exact Hg. }
  assert (D32 : drop 32 s = drop 8 B ++ rest).
  { replace (drop 32 s) with (drop 8 (drop 24 s)) by (rewrite drop_drop; reflexivity).
    rewrite D24. apply drop_app_le. lia. }
  assert (D40 : drop 40 s = rest).
  { replace (drop 40 s) with (drop 16 (drop 24 s)) by (rewrite drop_drop; reflexivity).
    rewrite D24. apply drop_app_len; exact HB. }
  rewrite T8, D8, D16, D24, D32, D40.
  rewrite (take_app_len 8 (drop 8 A)) by (rewrite blen_drop; lia).
  rewrite (take_app_len 8 g3) by exact Hg.
  rewrite (take_app_le 8 B) by lia.
  rewrite (take_app_len 8 (drop 8 B)) by (rewrite blen_drop; lia).
  reflexivity.
Qed.

(* ---- a zeroed prefix ------------------------------------------------------------------------------------ *)
Definition zp (n : N) (h : bytes) : bytes := zerosN (N.min n (blen h)) ++ drop n h.

Lemma blen_zp n h : blen (zp n h) = blen h.
Proof. unfold zp. rewrite blen_app, blen_zerosN, blen_drop. lia. Qed.
Lemma zp_0 h : zp 0 h = h.
Proof. unfold zp. rewrite N.min_0_l, drop_0. reflexivity. Qed.
Lemma zp_all n h : blen h <= n -> zp n h = zerosN (blen h).
Proof. intros H. unfold zp. rewrite N.min_r by exact H. rewrite drop_ge by exact H. apply app_nil_r. Qed.
Lemma zp_app n x y : zp n (x ++ y) = zp n x ++ zp (n - blen x) y.
Proof.
  unfold zp. rewrite blen_app. destruct (n <=? blen x) eqn:E.
  - rewrite drop_app_le by lia. replace (n - blen x) with 0 by lia.
    rewrite N.min_0_l, drop_0. rewrite !N.min_l by lia. cbn [zerosN zeros N.to_nat app]. rewrite <- app_assoc. reflexivity.
  - rewrite drop_app_ge by lia. rewrite (drop_ge n x) by lia. rewrite app_nil_r.
    rewrite (N.min_r n (blen x)) by lia.
    replace (N.min n (blen x + blen y)) with (blen x + N.min (n - blen x) (blen y)) by lia.
    rewrite zerosN_add, <- app_assoc. reflexivity.
Qed.
Lemma take_zerosN t n : take t (zerosN n) = zerosN (N.min t n).
Proof.
  destruct (t <=? n) eqn:E.
  - rewrite N.min_l by lia. replace n with (t + (n - t)) at 1 by lia. rewrite zerosN_add.
    apply take_app_len. apply blen_zerosN.
  - rewrite N.min_r by lia. apply take_ge. rewrite blen_zerosN. lia.
Qed.
Lemma drop_zerosN n m : drop n (zerosN m) = zerosN (m - n).
Proof.
  destruct (n <=? m) eqn:E.
  - replace (zerosN m) with (zerosN n ++ zerosN (m - n)) by (rewrite <- zerosN_add; f_equal; lia).
    apply drop_app_len. apply blen_zerosN.
  - rewrite drop_ge by (rewrite blen_zerosN; lia). replace (m - n) with 0 by lia. reflexivity.
Qed.
Lemma zp_zeros n m : zp n (zerosN m) = zerosN m.
Proof.
  unfold zp. rewrite blen_zerosN, drop_zerosN, <- zerosN_add. f_equal. lia.
Qed.
Lemma zp_zp a m h : zp (a + m) h = zerosN (N.min a (blen h)) ++ zp m (drop a h).
Proof.
  unfold zp. rewrite blen_drop, drop_drop.
  replace (N.min (a + m) (blen h)) with (N.min a (blen h) + N.min m (blen h - a)) by lia.
  rewrite zerosN_add, <- app_assoc. reflexivity.
Qed.

(* writing m zeros at offset a of the header area zeroes m more bytes *)
Lemma write_zero_zp pre a m h rest : a + m <= blen h ->
  write_at (pre ++ zp a h ++ rest) (blen pre + a) (zerosN m) = pre ++ zp (a + m) h ++ rest.
Proof.
  intros Hle.
  assert (Hz : zp a h = zerosN a ++ drop a h) by (unfold zp; rewrite N.min_l by lia; reflexivity).
  assert (Hd : drop a h = take m (drop a h) ++ drop (a + m) h)
    by (rewrite <- drop_drop; symmetry; apply take_drop_id).
  rewrite Hz, Hd, <- !app_assoc.
  replace (pre ++ zerosN a ++ take m (drop a h) ++ drop (a + m) h ++ rest)
    with ((pre ++ zerosN a) ++ take m (drop a h) ++ (drop (a + m) h ++ rest)) by (rewrite <- !app_assoc; reflexivity).
  replace (blen pre + a) with (blen (pre ++ zerosN a)) by (rewrite blen_app, blen_zerosN; reflexivity).
  rewrite write_at_inside by (rewrite blen_take, blen_drop, blen_zerosN; lia).
  unfold zp. rewrite N.min_l by lia. rewrite zerosN_add, <- !app_assoc. reflexivity.
Qed.

(* what Header.ReadFrom makes of a valid header with a zeroed prefix: whenever it still validates
   with the right data offset, the data size is the original one *)
Lemma zp_read h n rest : v2_fields_ok h ->
  match read_v2hdr (zp n (enc_v2hdr h) ++ rest) with
  | Err _ => True
  | Ok (h', r) => r = rest /\ h_dsize h' = h_dsize h
  end.
Proof.
  intros (H1 & H2 & H3 & H4 & H5). unfold enc_v2hdr.
  set (e1 := le_enc 8 (h_hi h)). set (e2 := le_enc 8 (h_lo h)). set (e3 := le_enc 8 (h_doff h)).
  set (e4 := le_enc 8 (h_dsize h)). set (e5 := le_enc 8 (h_ioff h)).
  assert (L1 : blen e1 = 8) by apply blen_le_enc. assert (L2 : blen e2 = 8) by apply blen_le_enc.
  assert (L3 : blen e3 = 8) by apply blen_le_enc. assert (L4 : blen e4 = 8) by apply blen_le_enc.
  assert (L5 : blen e5 = 8) by apply blen_le_enc.
  replace (e1 ++ e2 ++ e3 ++ e4 ++ e5) with ((e1 ++ e2) ++ e3 ++ (e4 ++ e5)) by (rewrite <- !app_assoc; reflexivity).
  rewrite (zp_app n (e1 ++ e2)), (zp_app _ e3). rewrite blen_app, L1, L2, L3. rewrite <- !app_assoc.
  rewrite read_v2hdr_groups by (rewrite blen_zp, ?blen_app; lia).
  cbv zeta.
  destruct (n <=? 24) eqn:E.
  - replace (n - (8 + 8) - 8) with 0 by lia. rewrite zp_0.
    rewrite (take_app_len 8 e4) by exact L4.
    destruct (as_int64 (le_dec (zp (n - (8 + 8)) e3)) <? 51)%Z; [exact I|].
    destruct (as_int64 (le_dec e4) <=? 0)%Z; [exact I|].
    destruct (as_int64 (le_dec (drop 8 (e4 ++ e5))) <? 0)%Z; [exact I|].
    split; [reflexivity|]. cbn [h_dsize]. unfold e4. apply le_dec_enc. change (256 ^ N.of_nat 8) with two64. exact H4.
  - rewrite (zp_all (n - (8 + 8)) e3) by lia. rewrite L3.
    replace (le_dec (zerosN 8)) with 0 by reflexivity.
    replace (as_int64 0 <? 51)%Z with true by reflexivity. exact I.
Qed.

Section RP.
  Variable hdrdec : bytes -> option (list bytes * N).
  Variables (k : skind) (o : wopts) (nilroots : bool) (roots : list bytes).
  Hypothesis Hpar : params_ok hdrdec o nilroots roots.
  Hypothesis Hv2 : w_v1 o = false.

  Notation live_file := (live_file o nilroots roots).
  Notation fits := (fits o nilroots roots).
  Notation hdr := (hdr nilroots roots).
  Notation hsz := (hsz nilroots roots).
  Notation pos_of := (pos_of nilroots roots).
  Notation resumed_state := (resumed_state k o nilroots roots).

  (* a file of complete sections behind ANY 40 bytes in the header area *)
  Definition hfile (H : bytes) (st : list block) : bytes :=
    pragma ++ H ++ zerosN (w_dpad o) ++ ld hdr ++ enc_sections st.

  Lemma hfile_zeros st : hfile (zerosN 40) st = live_file st.
  Proof. unfold hfile. rewrite live_file_v2 by exact Hv2. reflexivity. Qed.

  Lemma resume_hfile H st : blen H = 40 -> Forall stored_ok st -> fits st ->
    match read_v2hdr (H ++ zerosN (w_dpad o) ++ ld hdr ++ enc_sections st) with
    | Err _ => resume hdrdec k true o roots (hfile H st) [] = inl (resumed_state zero_hdr_log st)
    | Ok (h, _) =>
        (h_doff h <> 51 + w_dpad o ->
           resume hdrdec k true o roots (hfile H st) [] = inr (EOther, mkdev (hfile H st) [] [])) /\
        (h_doff h = 51 + w_dpad o -> h_dsize h = pos_of st ->
           resume hdrdec k true o roots (hfile H st) [] =
             inl (resumed_state (zero_hdr_log ++ [Trunc (51 + w_dpad o + pos_of st)]) st))
    end.
  Proof.
    intros HH Hc Hfit. pose proof (fits_mono _ _ _ _ Hfit) as Hfit0. pose proof (fits_nil_64 _ _ _ Hfit0) as Hf0.
    assert (H64 : 51 + w_dpad o < two64) by (unfold two63, two64 in *; lia).
    pose proof Hfit as Hfit'. unfold ResumeInv.fits in Hfit'.
    assert (Hpos : pos_of st = hsz + blen (enc_sections st)) by reflexivity.
    destruct Hpar as [Hhdr [r0 Hprag] Hmaxh Hcid].
    assert (Hp10 : 10 <= w_maxh o) by (pose proof (hdr_ge_10 nilroots roots); unfold ResumeInv.hdr in *; lia).
    assert (Hpre : blen (pragma ++ H ++ zerosN (w_dpad o)) = 51 + w_dpad o)
      by (rewrite !blen_app, blen_pragma, blen_zerosN; lia).
    assert (Hpre0 : blen (pragma ++ zerosN 40 ++ zerosN (w_dpad o)) = 51 + w_dpad o)
      by (rewrite !blen_app, blen_pragma, !blen_zerosN; lia).
    assert (Hassoc : forall X, pragma ++ X ++ zerosN (w_dpad o) ++ ld hdr ++ enc_sections st =
                               (pragma ++ X ++ zerosN (w_dpad o)) ++ ld hdr ++ enc_sections st)
      by (intros X; rewrite <- !app_assoc; reflexivity).
    (* the common tail: header zeroing on a file of the right length, then the rescan *)
    assert (Htail : forall dv1log,
      (let '(dv2, ok2) :=
         let '(d, _, ok) := write_chunks (mkdev (hfile H st) dv1log []) pragma_size (v2hdr_chunks (mkv2 0 0 0 0 0)) in (d, ok) in
       if negb ok2 then inr (EOther, dv2)
       else let view2 := drop (51 + w_dpad o) (d_file dv2) in
            match resume_scan (S (length view2)) (w_zeof o) (51 + w_dpad o) view2
                              (ld_size (blen (enc_header (Some roots) 1))) [] with
            | Err e => inr (e, dv2)
            | Ok (ii, pos) => inl (mkws dv2 ii pos false false roots o k)
            end) = inl (resumed_state (zero_hdr_log ++ dv1log) st)).
    { intros dv1log. rewrite write_chunks_nofault by reflexivity.
      cbv beta iota zeta delta [d_file d_log negb].
      rewrite zero_hdr_chunks. unfold hfile.
      replace pragma_size with (blen pragma) by reflexivity.
      rewrite write_at_inside by (rewrite blen_zerosN; exact HH).
      rewrite Hassoc. rewrite (drop_app_len _ _ _ Hpre0).
      rewrite <- hdr_len_nil with (nilroots := nilroots). fold hdr. fold hsz.
      replace hsz with (blen (ld hdr)) at 1 by (rewrite blen_ld_eq; reflexivity).
      rewrite resume_scan_sections.
      - rewrite blen_ld_eq. fold hsz. unfold ResumeInv.resumed_state, ResumeInv.live_file, base_file, v2_prefix, idx_of, zero_hdr_log.
        rewrite Hv2. rewrite zerosN_add, <- !app_assoc. reflexivity.
      - exact Hc.
      - rewrite blen_ld_eq; fold hsz; lia.
      - rewrite app_length; pose proof (enc_sections_len st) as Hl; unfold block in *; lia. }
    unfold resume.
    assert (Hrd0 : read_header hdrdec (w_maxh o) (hfile H st) =
                   Ok (r0, 2, H ++ zerosN (w_dpad o) ++ ld hdr ++ enc_sections st, ld_size (blen pragma_body))).
    { unfold hfile. rewrite pragma_is_ld at 1.
      apply (read_header_ld hdrdec (w_maxh o) pragma_body r0 2);
        [exact Hprag|rewrite blen_pragma_body; exact Hp10|rewrite blen_pragma_body; unfold two63; lia]. }
    rewrite Hrd0. rewrite Hv2. cbn [N.eqb Pos.eqb andb orb negb].
    assert (Hdp : drop pragma_size (hfile H st) = H ++ zerosN (w_dpad o) ++ ld hdr ++ enc_sections st)
      by (unfold hfile; apply drop_app_len; reflexivity).
    rewrite Hdp. rewrite data_base_v2 by assumption.
    destruct (read_v2hdr (H ++ zerosN (w_dpad o) ++ ld hdr ++ enc_sections st)) as [[h r]|e] eqn:Erd.
    - split.
      + intros Hne. replace (h_doff h =? 51 + w_dpad o) with false by lia. reflexivity.
      + intros Heq Hds. rewrite Heq, N.eqb_refl. cbn [negb].
        unfold hfile at 1. rewrite Hassoc. rewrite (drop_app_len _ _ _ Hpre).
        rewrite (read_payload_header hdrdec o nilroots roots Hpar) by assumption.
        rewrite header_matches_refl. cbn [negb].
        unfold dev_truncate. cbn [d_file d_log d_faults]. rewrite Heq, Hds.
        unfold wrap64. rewrite N.mod_small by (unfold two63, two64 in *; lia).
        assert (Hlen : blen (hfile H st) = 51 + w_dpad o + pos_of st).
        { unfold hfile. rewrite Hassoc, blen_app, Hpre, blen_app, blen_ld_eq. fold hsz. lia. }
        rewrite <- Hlen at 1. rewrite truncate_to_all.
        apply Htail.
    - unfold hfile at 1. rewrite Hassoc. rewrite (drop_app_len _ _ _ Hpre).
      rewrite (read_payload_header hdrdec o nilroots roots Hpar) by assumption.
      rewrite header_matches_refl. cbn [negb].
      rewrite <- (app_nil_r zero_hdr_log). apply Htail.
  Qed.

  (* ---- the images of the header-zeroing writes ----------------------------------------------------- *)
  Definition zero_writes : list wr := chunk_log pragma_size (v2hdr_chunks (mkv2 0 0 0 0 0)).
  Lemma zero_writes_rev : rev zero_hdr_log = zero_writes.
  Proof. unfold zero_hdr_log, zero_writes. apply rev_involutive. Qed.

  Lemma hfile_write_zeros H st a m : blen H = 40 -> a + m <= 40 ->
    write_at (hfile (zp a H) st) (11 + a) (zerosN m) = hfile (zp (a + m) H) st.
  Proof.
    intros HH Hle. unfold hfile. rewrite <- blen_pragma. apply write_zero_zp. lia.
  Qed.

  Lemma zero_writes_image H st kk t R : blen H = 40 -> (kk < 2)%nat ->
    exists n, image (hfile H st) (zero_writes ++ R) kk t = hfile (zp n H) st.
  Proof.
    intros HH Hk. unfold zero_writes, v2hdr_chunks. cbn [chunk_log app].
    change (le_enc 8 (h_hi (mkv2 0 0 0 0 0)) ++ le_enc 8 (h_lo (mkv2 0 0 0 0 0))) with (zerosN 16).
    change (le_enc 8 (h_doff (mkv2 0 0 0 0 0)) ++ le_enc 8 (h_dsize (mkv2 0 0 0 0 0)) ++ le_enc 8 (h_ioff (mkv2 0 0 0 0 0)))
      with (zerosN 24).
    rewrite blen_zerosN. change (pragma_size + 16) with (11 + 16). change pragma_size with (11 + 0).
    replace (hfile H st) with (hfile (zp 0 H) st) by (rewrite zp_0; reflexivity).
    destruct kk as [|[|kk']]; [| |lia]; cbn [image apply_torn apply_wr].
    - rewrite take_zerosN. rewrite hfile_write_zeros by (try exact HH; lia). eexists; reflexivity.
    - rewrite hfile_write_zeros by (try exact HH; lia).
      rewrite take_zerosN. rewrite hfile_write_zeros by (try exact HH; lia). eexists; reflexivity.
  Qed.

  (* Resume on a header area with a zeroed prefix, when the original 40 bytes are harmless in the
     sense of [zp_read]: refused untouched, or the state of the stored blocks st *)
  Lemma resume_zp H0 st n : blen H0 = 40 -> Forall stored_ok st -> fits st ->
    (forall m rest, match read_v2hdr (zp m H0 ++ rest) with
                    | Err _ => True
                    | Ok (h', _) => h_dsize h' = pos_of st
                    end) ->
    (exists log, resume hdrdec k true o roots (hfile (zp n H0) st) [] = inl (resumed_state log st)) \/
    resume hdrdec k true o roots (hfile (zp n H0) st) [] = inr (EOther, mkdev (hfile (zp n H0) st) [] []).
  Proof.
    intros HH Hc Hfit Hq.
    pose proof (resume_hfile (zp n H0) st ltac:(rewrite blen_zp; exact HH) Hc Hfit) as Hr.
    specialize (Hq n (zerosN (w_dpad o) ++ ld hdr ++ enc_sections st)).
    destruct (read_v2hdr (zp n H0 ++ zerosN (w_dpad o) ++ ld hdr ++ enc_sections st)) as [[h r]|e].
    - destruct Hr as [Hne Heq]. destruct (h_doff h =? 51 + w_dpad o) eqn:E.
      + left. eexists. apply Heq; [lia|exact Hq].
      + right. apply Hne. lia.
    - left. eexists. exact Hr.
  Qed.

  Lemma zeros_harmless st m rest :
    match read_v2hdr (zp m (zerosN 40) ++ rest) with Err _ => True | Ok (h', _) => h_dsize h' = pos_of st end.
  Proof.
    rewrite zp_zeros, zero_hdr_enc. rewrite read_v2hdr_enc by (repeat split; reflexivity). exact I.
  Qed.

  Lemma fin_hdr_harmless st m rest : fits st ->
    match read_v2hdr (zp m (enc_v2hdr (fin_hdr o nilroots roots st)) ++ rest) with
    | Err _ => True | Ok (h', _) => h_dsize h' = pos_of st end.
  Proof.
    intros Hfit. pose proof (zp_read (fin_hdr o nilroots roots st) m rest (fin_hdr_fields_ok o nilroots roots st Hfit)) as Hz.
    destruct (read_v2hdr _) as [[h' r]|e]; [|exact I]. destruct Hz as [_ Hz]. exact Hz.
  Qed.

  Lemma fin_file_hfile st fi :
    fin_file o nilroots roots st fi =
      hfile (enc_v2hdr (fin_hdr o nilroots roots st)) st ++ zerosN (w_ipad o) ++ concat (idx_chunks fi).
  Proof. unfold ResumeInv.fin_file, hfile. rewrite <- !app_assoc. reflexivity. Qed.

  Lemma blen_hfile H st : blen H = 40 -> blen (hfile H st) = 51 + w_dpad o + pos_of st.
  Proof.
    intros HH. unfold hfile, ResumeInv.pos_of, ResumeInv.hsz. rewrite !blen_app, blen_pragma, blen_zerosN, blen_ld_eq, HH. lia.
  Qed.

  (* ---- the two ways a process can have started by resuming ------------------------------------------ *)
  Inductive resumed_start (f0 : bytes) (start : wstate) (st : list block) : Prop :=
  | rs_live : f0 = live_file st -> start = resumed_state zero_hdr_log st -> resumed_start f0 start st
  | rs_fin fi : f0 = fin_file o nilroots roots st fi ->
      start = resumed_state (zero_hdr_log ++ [Trunc (51 + w_dpad o + pos_of st)]) st -> resumed_start f0 start st.

  (* every crash image inside Resume's own writes: refused untouched, or resumed into the stored
     blocks st -- the state the crashed process itself had started in *)
  Theorem resume_phase_images f0 start st kk t R :
    resumed_start f0 start st -> Forall stored_ok st -> fits st ->
    (kk < loglen start)%nat ->
    let img := image f0 (writes_of (ws_dev start) ++ R) kk t in
    img <> [] /\
    ((exists log, resume hdrdec k true o roots img [] = inl (resumed_state log st)) \/
     resume hdrdec k true o roots img [] = inr (EOther, mkdev img [] [])).
  Proof.
    intros Hrs Hc Hfit Hk. cbv zeta.
    assert (Hne : forall H, hfile H st <> []) by (intros H; unfold hfile; discriminate).
    destruct Hrs as [Hf0 Hs|fi Hf0 Hs]; subst f0 start.
    - (* started on a non-finalized file: zeros written over zeros *)
      assert (Hw : writes_of (ws_dev (resumed_state zero_hdr_log st)) = zero_writes) by apply zero_writes_rev.
      assert (Hl : loglen (resumed_state zero_hdr_log st) = 2%nat) by reflexivity.
      rewrite Hw. rewrite Hl in Hk. rewrite <- hfile_zeros.
      destruct (zero_writes_image (zerosN 40) st kk t R (blen_zerosN 40) Hk) as (n & ->).
      split; [apply Hne|].
      apply resume_zp; [apply blen_zerosN|exact Hc|exact Hfit|intros; apply zeros_harmless].
    - (* started on a finalized file: Truncate, then the zeroing *)
      set (tr := Trunc (51 + w_dpad o + pos_of st)) in *.
      assert (Hw : writes_of (ws_dev (resumed_state (zero_hdr_log ++ [tr]) st)) = tr :: zero_writes).
      { unfold ResumeInv.resumed_state, writes_of. cbn [ws_dev d_log]. rewrite rev_app_distr, zero_writes_rev. reflexivity. }
      assert (Hl : loglen (resumed_state (zero_hdr_log ++ [tr]) st) = 3%nat) by reflexivity.
      rewrite Hw. rewrite Hl in Hk. cbn [app]. clear Hw Hl. subst tr.
      destruct kk as [|kk'].
      + (* the truncation has not happened: the finalized file itself *)
        cbn [image apply_torn]. split; [apply fin_file_nonempty|]. left. eexists.
        apply (resume_fin hdrdec k o nilroots roots Hpar st fi Hc Hfit Hv2).
      + cbn [image apply_wr]. rewrite fin_file_hfile.
        rewrite <- (blen_hfile (enc_v2hdr (fin_hdr o nilroots roots st)) st (blen_enc_v2hdr _)).
        rewrite truncate_to_app.
        destruct (zero_writes_image (enc_v2hdr (fin_hdr o nilroots roots st)) st kk' t R (blen_enc_v2hdr _)) as (n & ->); [lia|].
        split; [apply Hne|].
        apply resume_zp; [apply blen_enc_v2hdr|exact Hc|exact Hfit|intros; apply fin_hdr_harmless; exact Hfit].
  Qed.
End RP.
