(* C06: the writes of the Put phase are appends of whole sections; where a crash point falls
   (Crash.put_class) determines the image: a live file of the first j puts, possibly followed by a
   torn section head. *)
From GoCar Require Import Bytes Varint Cid Header Frame V2Header Index Scan Store Crash.
From GoCarProofs Require Import BytesFacts VarintFacts CidFacts ResumeFacts ResumeInv CrashImage.

(* the three writes of one stored section (util.LdWrite through the OffsetWriteSeeker) *)
Definition put_wr (e : N) (c d : bytes) : list wr := chunk_log e (ld_chunks [c; d]).

Lemma put_wr_length e c d : length (put_wr e c d) = 3%nat.
Proof. reflexivity. Qed.
Lemma put_wr_appends e c d : appends e (put_wr e c d).
Proof. unfold put_wr, ld_chunks. cbn [chunk_log appends]. repeat split. Qed.
Lemma put_wr_stream e c d : stream (put_wr e c d) = enc_section c d.
Proof.
  unfold put_wr, ld_chunks, enc_section. cbn [chunk_log stream fold_left]. rewrite app_nil_r.
  replace (0 + blen c + blen d) with (blen c + blen d) by lia. reflexivity.
Qed.
Lemma put_wr_replay f c d : replay f (put_wr (blen f) c d) = f ++ enc_section c d.
Proof.
  pose proof (image_appends (put_wr (blen f) c d) f 3 0 (put_wr_appends _ c d)) as H.
  rewrite image_all in H by (rewrite put_wr_length; lia). rewrite H, put_wr_stream.
  apply take_ge. rewrite blen_app.
  unfold put_wr, ld_chunks. cbn [chunk_log img_len fold_left]. unfold enc_section. rewrite !blen_app.
  replace (0 + blen c + blen d) with (blen c + blen d) by lia. lia.
Qed.

Section P.
  Variable hdrdec : bytes -> option (list bytes * N).
  Variables (k : skind) (o : wopts) (nilroots : bool) (roots : list bytes).
  Hypothesis Hpar : params_ok hdrdec o nilroots roots.

  Notation Inv := (Inv k o nilroots roots).
  Notation live_file := (live_file o nilroots roots).
  Notation fits := (fits o nilroots roots).
  Notation abs_put := (abs_put o nilroots roots).
  Notation abs_puts := (abs_puts o nilroots roots).
  Notation budget := (budget o nilroots roots).

  Definition stored_now (st : list block) (b : block) : bool :=
    match cid_parse (fst b) with
    | None => false
    | Some p => match should_put o (idx_of nilroots roots st) (fst b) p with Ok true => true | _ => false end
    end.

  Lemma abs_put_stored st b : abs_put st b = if stored_now st b then st ++ [b] else st.
  Proof.
    unfold ResumeInv.abs_put, stored_now. destruct (cid_parse (fst b)); [|reflexivity].
    destruct (should_put _ _ _ _) as [[|]|]; reflexivity.
  Qed.

  Lemma live_file_snoc st c d : live_file (st ++ [(c, d)]) = live_file st ++ enc_section c d.
  Proof.
    unfold ResumeInv.live_file. rewrite enc_sections_app, <- app_assoc.
    cbn [enc_sections map concat fst snd]. rewrite app_nil_r. reflexivity.
  Qed.

  (* the log after one Put *)
  Lemma fe_put_log s st c d : Inv s st -> fits (abs_put st (c, d)) ->
    writes_of (ws_dev (fst (fe_put s (c, d)))) =
      writes_of (ws_dev s) ++ (if stored_now st (c, d) then put_wr (blen (live_file st)) c d else []).
  Proof.
    intros HI Hfit.
    assert (Hone : forall p, cid_parse c = Some p ->
              writes_of (ws_dev (fst (put_one s c d p))) =
              writes_of (ws_dev s) ++ (if stored_now st (c, d) then put_wr (blen (live_file st)) c d else [])).
    { intros p Hp. unfold stored_now. cbn [fst]. rewrite Hp.
      destruct HI as [Hfile Hidx Hpos Hcl Hfin Hroots Hopts Hkind Hfaults Hcids Hfits].
      assert (H64 : 51 + w_dpad o < two64) by (unfold ResumeInv.fits, two63, two64 in *; lia).
      unfold put_one. rewrite Hopts, Hidx.
      destruct (should_put o (idx_of nilroots roots st) c p) as [[|]|e] eqn:Es; try (rewrite app_nil_r; reflexivity).
      rewrite write_chunks_nofault by exact Hfaults. cbv beta iota zeta. cbn [fst set_idx set_dev ws_dev].
      unfold writes_of. cbn [d_log]. rewrite rev_app_distr, rev_involutive.
      unfold put_wr. f_equal. f_equal.
      unfold ResumeInv.live_file. rewrite Hpos, blen_app, blen_base_file by exact H64. lia. }
    unfold fe_put. destruct (ws_kind s).
    - unfold bs_put_many. rewrite (inv_closed _ _ _ _ _ _ HI), (inv_fin _ _ _ _ _ _ HI). cbn [put_many_loop].
      destruct (cid_parse c) as [p|] eqn:Ep.
      + specialize (Hone p eq_refl). destruct (put_one s c d p) as [s' [| | | | |]]; exact Hone.
      + unfold stored_now. cbn [fst]. rewrite Ep, app_nil_r. reflexivity.
    - unfold st_put. cbn [fst snd]. destruct (cid_parse c) as [p|] eqn:Ep.
      + rewrite (inv_closed _ _ _ _ _ _ HI), (inv_fin _ _ _ _ _ _ HI). apply Hone. reflexivity.
      + unfold stored_now. cbn [fst]. rewrite Ep, app_nil_r. reflexivity.
  Qed.

  Lemma loglen_writes s : loglen s = length (writes_of (ws_dev s)).
  Proof. unfold loglen, writes_of. rewrite rev_length. reflexivity. Qed.

  Lemma fe_put_loglen s st c d : Inv s st -> fits (abs_put st (c, d)) ->
    (loglen (fst (fe_put s (c, d))) - loglen s)%nat = if stored_now st (c, d) then 3%nat else 0%nat.
  Proof.
    intros HI Hfit. rewrite !loglen_writes, (fe_put_log s st c d HI Hfit), app_length.
    destruct (stored_now st (c, d)); [rewrite put_wr_length|cbn [length]]; lia.
  Qed.

  (* the writes of a sequence of puts, as a function of the stored list *)
  Fixpoint sess_writes (st : list block) (puts : list block) : list wr :=
    match puts with
    | [] => []
    | b :: r => (if stored_now st b then put_wr (blen (live_file st)) (fst b) (snd b) else [])
                ++ sess_writes (abs_put st b) r
    end.

  Lemma run_puts_log puts : forall s st, Inv s st -> budget st puts ->
    writes_of (ws_dev (run_puts s puts)) = writes_of (ws_dev s) ++ sess_writes st puts.
  Proof.
    induction puts as [|[c d] r IH]; intros s st HI Hb; [cbn; rewrite app_nil_r; reflexivity|].
    unfold run_puts. cbn [fold_left]. fold (run_puts (fst (fe_put s (c, d))) r).
    unfold ResumeInv.budget in Hb. change ((c, d) :: r) with ([(c, d)] ++ r) in Hb.
    rewrite enc_sections_app, blen_app in Hb.
    pose proof (abs_put_size o nilroots roots st (c, d)) as Hsz.
    assert (Hfit : fits (abs_put st (c, d))) by (unfold ResumeInv.fits; unfold block in *; lia).
    rewrite (IH _ (abs_put st (c, d))); [|apply (fe_put_inv hdrdec k o nilroots roots Hpar); assumption|unfold ResumeInv.budget; unfold block in *; lia].
    rewrite (fe_put_log s st c d HI Hfit). cbn [sess_writes fst snd]. rewrite <- app_assoc. reflexivity.
  Qed.

  (* ---- where the crash point falls => what the image is ---------------------------------------- *)
  Definition image_spec (st : list block) (puts : list block) (s : wstate) (kk : nat) (t : N) (img : bytes)
             (cl : option cclass) : Prop :=
    match cl with
    | None => (length (sess_writes st puts) <= kk)%nat
    | Some CBoundary =>
        exists j, (done_puts s puts kk <= j <= length puts)%nat /\ img = live_file (abs_puts st (firstn j puts))
    | Some CHead =>
        exists j c d p i, (done_puts s puts kk <= j <= length puts)%nat /\
          img = live_file (abs_puts st (firstn j puts)) ++ take i (enc_section c d) /\
          cid_parse c = Some p /\ 0 < i /\ i < uv_size (blen c + blen d) + blen c /\
          fits (abs_puts st (firstn j puts) ++ [(c, d)])
    | Some _ => True
    end.

  Lemma image_spec_shift st b r s s' kk t img cl :
    abs_put st b = st -> done_puts s (b :: r) kk = S (done_puts s' r kk) ->
    image_spec st r s' kk t img cl -> image_spec st (b :: r) s kk t img cl.
  Proof.
    intros Hst Hd H. unfold image_spec in *.
    assert (Hsw : sess_writes st (b :: r) = sess_writes st r).
    { cbn [sess_writes]. rewrite Hst. rewrite abs_put_stored in Hst.
      destruct (stored_now st b); [|reflexivity].
      exfalso. assert (length (st ++ [b]) = length st) by (rewrite Hst; reflexivity).
      rewrite app_length in H0. cbn in H0. lia. }
    assert (Hfn : forall j, abs_puts st (firstn (S j) (b :: r)) = abs_puts st (firstn j r)).
    { intros j. cbn [firstn]. unfold ResumeInv.abs_puts. cbn [fold_left]. rewrite Hst. reflexivity. }
    destruct cl as [[]|]; try exact H.
    - destruct H as (j & Hj & Hi). exists (S j). rewrite Hd, Hfn. cbn [length]. split; [lia|exact Hi].
    - destruct H as (j & c & d & p & i & Hj & Hi & Hrest). exists (S j), c, d, p, i.
      rewrite Hd, Hfn. cbn [length]. split; [lia|]. split; [exact Hi|exact Hrest].
    - rewrite Hsw. exact H.
  Qed.

  Lemma image_spec_shift_stored st b r s s' kk t img cl :
    abs_put st b = st ++ [b] -> (3 <= kk)%nat ->
    done_puts s (b :: r) kk = S (done_puts s' r (kk - 3)) ->
    sess_writes st (b :: r) = put_wr (blen (live_file st)) (fst b) (snd b) ++ sess_writes (st ++ [b]) r ->
    image_spec (st ++ [b]) r s' (kk - 3) t img cl -> image_spec st (b :: r) s kk t img cl.
  Proof.
    intros Hst Hk Hd Hsw H. unfold image_spec in *.
    assert (Hfn : forall j, abs_puts st (firstn (S j) (b :: r)) = abs_puts (st ++ [b]) (firstn j r)).
    { intros j. cbn [firstn]. unfold ResumeInv.abs_puts. cbn [fold_left]. rewrite Hst. reflexivity. }
    destruct cl as [[]|]; try exact H.
    - destruct H as (j & Hj & Hi). exists (S j). rewrite Hd, Hfn. cbn [length]. split; [lia|exact Hi].
    - destruct H as (j & c & d & p & i & Hj & Hi & Hrest). exists (S j), c, d, p, i.
      rewrite Hd, Hfn. cbn [length]. split; [lia|]. split; [exact Hi|exact Hrest].
    - rewrite Hsw, app_length, put_wr_length. lia.
  Qed.

  Lemma stored_now_parse st b : stored_now st b = true -> exists p, cid_parse (fst b) = Some p.
  Proof. unfold stored_now. destruct (cid_parse (fst b)) as [p|]; [eexists; reflexivity|discriminate]. Qed.

  Lemma take_app_add (a b0 : bytes) i : take (blen a + i) (a ++ b0) = a ++ take i b0.
  Proof. rewrite take_app_ge by lia. f_equal. f_equal. lia. Qed.

  Theorem put_phase puts : forall s st F kk t, Inv s st -> budget st puts ->
    image_spec st puts s kk t (image (live_file st) (sess_writes st puts ++ F) kk t) (put_class s puts kk t).
  Proof.
    induction puts as [|[c d] r IH]; intros s st F kk t HI Hb.
    - cbn [put_class image_spec sess_writes length]. lia.
    - unfold ResumeInv.budget in Hb. change (@cons block (c, d) r) with (@app block [(c, d)] r) in Hb.
      rewrite enc_sections_app, blen_app in Hb.
      pose proof (abs_put_size o nilroots roots st (c, d)) as Hsz.
      assert (Hfit : fits (abs_put st (c, d))) by (unfold ResumeInv.fits; unfold block in *; lia).
      pose proof (fe_put_inv hdrdec k o nilroots roots Hpar s st (c, d) HI Hfit) as HI'.
      pose proof (fe_put_loglen s st c d HI Hfit) as Hn.
      cbn [put_class]. rewrite Hn.
      assert (Hdone : done_puts s (@cons block (c, d) r) kk =
                      if ((if stored_now st (c, d) then 3 else 0) <=? kk)%nat
                      then S (done_puts (fst (fe_put s (c, d))) r (kk - (if stored_now st (c, d) then 3 else 0)))
                      else O).
      { cbn [done_puts]. rewrite Hn. reflexivity. }
      rewrite abs_put_stored in *.
      destruct (stored_now st (c, d)) eqn:Est.
      + (* the section is written: three appends *)
        assert (Hsw : sess_writes st (@cons block (c, d) r) =
                      put_wr (blen (live_file st)) c d ++ sess_writes (st ++ [(c, d)]) r).
        { cbn [sess_writes fst snd]. rewrite Est, abs_put_stored, Est. reflexivity. }
        destruct (3 <=? kk)%nat eqn:E3.
        * rewrite Hsw, <- app_assoc.
          apply (image_spec_shift_stored st (c, d) r s (fst (fe_put s (c, d))) kk t);
            [rewrite abs_put_stored, Est; reflexivity|apply Nat.leb_le; exact E3|exact Hdone|exact Hsw|].
          assert (Himg : forall W, image (live_file st) (put_wr (blen (live_file st)) c d ++ W) kk t
                                    = image (live_file (st ++ [(c, d)])) W (kk - 3) t).
          { intros W. replace kk with (length (put_wr (blen (live_file st)) c d) + (kk - 3))%nat at 1
              by (rewrite put_wr_length; apply Nat.leb_le in E3; lia).
            rewrite image_app, put_wr_replay, <- live_file_snoc. reflexivity. }
          rewrite Himg.
          apply IH; [exact HI'|]. unfold ResumeInv.budget. rewrite enc_sections_app, blen_app. unfold block in *. lia.
        * rewrite Hsw, <- app_assoc. rewrite image_prefix by (rewrite put_wr_length; lia).
          rewrite image_appends by apply put_wr_appends. rewrite put_wr_stream.
          destruct (stored_now_parse _ _ Est) as (p & Hp). cbn [fst] in Hp.
          pose proof (cid_parse_len c p Hp) as Hc2.
          pose proof (uv_size_pos (blen c + blen d)) as Huv.
          assert (Hfit1 : fits (abs_puts st (firstn 0 (@cons block (c, d) r)) ++ [(c, d)])) by exact Hfit.
          assert (Hst1 : abs_puts st (firstn 1 (@cons block (c, d) r)) = st ++ [(c, d)]).
          { cbn [firstn]. unfold ResumeInv.abs_puts. cbn [fold_left]. rewrite abs_put_stored, Est. reflexivity. }
          assert (Hsec : blen (enc_section c d) = uv_size (blen c + blen d) + blen c + blen d).
          { rewrite blen_enc_section_eq. unfold section_size, ld_size. lia. }
          unfold put_wr, ld_chunks. cbn [fold_left chunk_log img_len].
          replace (0 + blen c + blen d) with (blen c + blen d) by lia. rewrite blen_put_uv.
          rewrite take_app_add.
          destruct kk as [|[|[|kk']]]; [| | |lia]; cbn [image_spec].
          -- (* inside / before the length varint *)
             destruct (t =? 0) eqn:Et.
             ++ exists 0%nat. split; [rewrite Hdone; cbn [length]; lia|].
                replace (N.min t (uv_size (blen c + blen d))) with 0 by lia. rewrite take_0, app_nil_r. reflexivity.
             ++ exists 0%nat, c, d, p, (N.min t (uv_size (blen c + blen d))).
                split; [rewrite Hdone; cbn [length]; lia|]. split; [reflexivity|].
                split; [exact Hp|]. split; [lia|]. split; [lia|exact Hfit1].
          -- (* inside the CID *)
             destruct (t <? blen c) eqn:Et.
             ++ exists 0%nat, c, d, p, (uv_size (blen c + blen d) + N.min t (blen c)).
                split; [rewrite Hdone; cbn [length]; lia|]. split; [reflexivity|].
                split; [exact Hp|]. split; [lia|]. split; [lia|exact Hfit1].
             ++ destruct (blen d =? 0) eqn:Ed; [|exact I].
                exists 1%nat. split; [rewrite Hdone; cbn [length]; lia|].
                rewrite Hst1, live_file_snoc. f_equal. apply take_ge. lia.
          -- (* inside the data *)
             destruct (blen d <=? t) eqn:Et; [|exact I].
             exists 1%nat. split; [rewrite Hdone; cbn [length]; lia|].
             rewrite Hst1, live_file_snoc. f_equal. apply take_ge. lia.
      + (* nothing written: skipped or rejected *)
        replace (0 <=? kk)%nat with true by (symmetry; apply Nat.leb_le; lia).
        replace (kk - 0)%nat with kk by lia.
        apply (image_spec_shift st (c, d) r s (fst (fe_put s (c, d))) kk t);
          [rewrite abs_put_stored, Est; reflexivity| |].
        * rewrite Hdone. replace (0 <=? kk)%nat with true by (symmetry; apply Nat.leb_le; lia).
          replace (kk - 0)%nat with kk by lia. reflexivity.
        * assert (Hsw : sess_writes st (@cons block (c, d) r) = sess_writes st r).
          { cbn [sess_writes]. rewrite Est, abs_put_stored, Est. reflexivity. }
          rewrite Hsw. apply IH; [exact HI'|]. unfold ResumeInv.budget. unfold block in *. lia.
  Qed.
End P.
