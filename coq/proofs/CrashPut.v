(* C06: the writes of the Put phase are appends of whole sections; where a crash point falls
   (Crash.put_class) determines the image: a live file of the first j puts, possibly followed by a
   torn section head. *)
From GoCar Require Import Bytes Varint Cid Header Frame V2Header Index Scan Store Crash.
From GoCarProofs Require Import BytesFacts VarintFacts CidFacts ResumeFacts ResumeInv CrashImage.

(* the three writes of one stored section (util.LdWrite through the OffsetWriteSeeker) *)
Definition put_wr (e : N) (c d : bytes) : list wr := chunk_log e (ld_chunks [c; d]).

Lemma put_wr_length e c d : length (put_wr e c d) = 3%nat.
Proof. reflexivity. Qed.
Lemma put_wr_appends e c d : appends e (put_wr e c d).
Proof. unfold put_wr, ld_chunks. cbn [chunk_log appends]. repeat split. Qed.
Lemma put_wr_stream e c d : stream (put_wr e c d) = enc_section c d.
Proof.
  unfold put_wr, ld_chunks, enc_section. cbn [chunk_log stream fold_left]. rewrite app_nil_r.
  replace (0 + blen c + blen d) with (blen c + blen d) by lia. reflexivity.
Qed.
Lemma put_wr_replay f c d : replay f (put_wr (blen f) c d) = f ++ enc_section c d.
Proof.
  pose proof (image_appends (put_wr (blen f) c d) f 3 0 (put_wr_appends _ c d)) as H.
  rewrite image_all in H by (rewrite put_wr_length; lia). rewrite H, put_wr_stream.
  apply take_ge. rewrite blen_app.
  unfold put_wr, ld_chunks. cbn [chunk_log img_len fold_left]. unfold enc_section. rewrite !blen_app.
  replace (0 + blen c + blen d) with (blen c + blen d) by lia. lia.
Qed.

Section P.
  Variable hdrdec : bytes -> option (list bytes * N).
  Variables (k : skind) (o : wopts) (nilroots : bool) (roots : list bytes).
  Hypothesis Hpar : params_ok hdrdec o nilroots roots.

  Notation Inv := (Inv k o nilroots roots).
  Notation live_file := (live_file o nilroots roots).
  Notation fits := (fits o nilroots roots).
  Notation abs_put := (abs_put o nilroots roots).
  Notation abs_puts := (abs_puts o nilroots roots).
  Notation budget := (budget o nilroots roots).

  Definition stored_now (st : list block) (b : block) : bool :=
    match cid_parse (fst b) with
    | None => false
    | Some p => match should_put o (idx_of nilroots roots st) (fst b) p with Ok true => true | _ => false end
    end.

  Lemma abs_put_stored st b : abs_put st b = if stored_now st b then st ++ [b] else st.
  Proof.
    unfold ResumeInv.abs_put, stored_now. destruct (cid_parse (fst b)); [|reflexivity].
    destruct (should_put _ _ _ _) as [[|]|]; reflexivity.
  Qed.

  Lemma live_file_snoc st c d : live_file (st ++ [(c, d)]) = live_file st ++ enc_section c d.
  Proof.
    unfold ResumeInv.live_file. rewrite enc_sections_app, <- app_assoc.
    cbn [enc_sections map concat fst snd]. rewrite app_nil_r. reflexivity.
  Qed.

  (* the log after one Put *)
  Lemma fe_put_log s st c d : Inv s st -> fits (abs_put st (c, d)) ->
    writes_of (ws_dev (fst (fe_put s (c, d)))) =
      writes_of (ws_dev s) ++ (if stored_now st (c, d) then put_wr (blen (live_file st)) c d else []).
  Proof.
    intros HI Hfit.
    assert (Hone : forall p, cid_parse c = Some p ->
              writes_of (ws_dev (fst (put_one s c d p))) =
              writes_of (ws_dev s) ++ (if stored_now st (c, d) then put_wr (blen (live_file st)) c d else [])).
    { intros p Hp. unfold stored_now. cbn [fst]. rewrite Hp.
      destruct HI as [Hfile Hidx Hpos Hcl Hfin Hroots Hopts Hkind Hfaults Hcids Hfits].
      assert (H64 : 51 + w_dpad o < two64) by (unfold ResumeInv.fits, two63, two64 in *; lia).
      unfold put_one. rewrite Hopts, Hidx.
      destruct (should_put o (idx_of nilroots roots st) c p) as [[|]|e] eqn:Es; try (rewrite app_nil_r; reflexivity).
      rewrite write_chunks_nofault by exact Hfaults. cbv beta iota zeta. cbn [fst set_idx set_dev ws_dev].
      unfold writes_of. cbn [d_log]. rewrite rev_app_distr, rev_involutive.
      unfold put_wr. f_equal. f_equal.
      unfold ResumeInv.live_file. rewrite Hpos, blen_app, blen_base_file by exact H64. lia. }
    unfold fe_put. destruct (ws_kind s).
    - unfold bs_put_many. rewrite (inv_closed _ _ _ _ _ _ HI), (inv_fin _ _ _ _ _ _ HI). cbn [put_many_loop].
      destruct (cid_parse c) as [p|] eqn:Ep.
      + specialize (Hone p eq_refl). destruct (put_one s c d p) as [s' [| | | | |]]; exact Hone.
      + unfold stored_now. cbn [fst]. rewrite Ep, app_nil_r. reflexivity.
    - unfold st_put. cbn [fst snd]. destruct (cid_parse c) as [p|] eqn:Ep.
      + rewrite (inv_closed _ _ _ _ _ _ HI), (inv_fin _ _ _ _ _ _ HI). apply Hone. reflexivity.
      + unfold stored_now. cbn [fst]. rewrite Ep, app_nil_r. reflexivity.
  Qed.

  Lemma loglen_writes s : loglen s = length (writes_of (ws_dev s)).
  Proof. unfold loglen, writes_of. rewrite rev_length. reflexivity. Qed.

  Lemma fe_put_loglen s st c d : Inv s st -> fits (abs_put st (c, d)) ->
    (loglen (fst (fe_put s (c, d))) - loglen s)%nat = if stored_now st (c, d) then 3%nat else 0%nat.
  Proof.
    intros HI Hfit. rewrite !loglen_writes, (fe_put_log s st c d HI Hfit), app_length.
    destruct (stored_now st (c, d)); [rewrite put_wr_length|cbn [length]]; lia.
  Qed.

  (* the writes of a sequence of puts, as a function of the stored list *)
  Fixpoint sess_writes (st : list block) (puts : list block) : list wr :=
    match puts with
    | [] => []
    | b :: r => (if stored_now st b then put_wr (blen (live_file st)) (fst b) (snd b) else [])
                ++ sess_writes (abs_put st b) r
    end.

  Lemma run_puts_log puts : forall s st, Inv s st -> budget st puts ->
    writes_of (ws_dev (run_puts s puts)) = writes_of (ws_dev s) ++ sess_writes st puts.
  Proof.
    induction puts as [|[c d] r IH]; intros s st HI Hb; [cbn; rewrite app_nil_r; reflexivity|].
    unfold run_puts. cbn [fold_left]. fold (run_puts (fst (fe_put s (c, d))) r).
    unfold ResumeInv.budget in Hb. change ((c, d) :: r) with ([(c, d)] ++ r) in Hb.
    rewrite enc_sections_app, blen_app in Hb.
    pose proof (abs_put_size o nilroots roots st (c, d)) as Hsz.
    assert (Hfit : fits (abs_put st (c, d))) by (unfold ResumeInv.fits; unfold block in *; lia).
    rewrite (IH _ (abs_put st (c, d))); [|apply (fe_put_inv hdrdec k o nilroots roots Hpar); assumption|unfold ResumeInv.budget; unfold block in *; lia].
    rewrite (fe_put_log s st c d HI Hfit). cbn [sess_writes fst snd]. rewrite <- app_assoc. reflexivity.
  Qed.

  (* ---- where the crash point falls => what the image is ---------------------------------------- *)
  Definition image_spec (st : list block) (puts : list block) (s : wstate) (kk : nat) (t : N) (img : bytes)
             (cl : option cclass) : Prop :=
    match cl with
    | None => (length (sess_writes st puts) <= kk)%nat
    | Some CBoundary =>
        exists j, (done_puts s puts kk <= j <= length puts)%nat /\ img = live_file (abs_puts st (firstn j puts))
    | Some CHead =>
        exists j c d p i, (done_puts s puts kk <= j <= length puts)%nat /\
          img = live_file (abs_puts st (firstn j puts)) ++ take i (enc_section c d) /\
          cid_parse c = Some p /\ 0 < i /\ i < uv_size (blen c + blen d) + blen c /\
          fits (abs_puts st (firstn j puts) ++ [(c, d)])
    | Some _ => True
    end.

  Lemma image_spec_shift st b r s s' kk t img cl :
    abs_put st b = st -> done_puts s (b :: r) kk = S (done_puts s' r kk) ->
    image_spec st r s' kk t img cl -> image_spec st (b :: r) s kk t img cl.
  Proof.
    intros Hst Hd H. unfold image_spec in *.
    assert (Hsw : sess_writes st (b :: r) = sess_writes st r).
    { cbn [sess_writes]. rewrite Hst. rewrite abs_put_stored in Hst.
      destruct (stored_now st b); [|reflexivity].
      exfalso. assert (length (st ++ [b]) = length st) by (rewrite Hst; reflexivity).
      rewrite app_length in H0. cbn in H0. lia. }
    assert (Hfn : forall j, abs_puts st (firstn (S j) (b :: r)) = abs_puts st (firstn j r)).
    { intros j. cbn [firstn]. unfold ResumeInv.abs_puts. cbn [fold_left]. rewrite Hst. reflexivity. }
    destruct cl as [[]|]; try exact H.
    - destruct H as (j & Hj & Hi). exists (S j). rewrite Hd, Hfn. cbn [length]. split; [lia|exact Hi].
    - destruct H as (j & c & d & p & i & Hj & Hi & Hrest). exists (S j), c, d, p, i.
      rewrite Hd, Hfn. cbn [length]. split; [lia|]. split; [exact Hi|exact Hrest].
    - rewrite Hsw. exact H.
  Qed.
End P.
