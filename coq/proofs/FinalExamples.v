(* C05: concrete instances.  (1) the hypotheses of the C05 theorems are satisfiable on a non-trivial
   session (three CID flavours, a duplicate put, data and index padding, identity CIDs stored) and
   the conclusions are re-checked there by evaluation; (2) the witness that refutes the verifier
   clause for archives without roots. *)
From GoCar Require Import Bytes Varint Cid Header Frame V2Header Scan Index Store Wf.
From GoCarProofs Require Import BytesFacts VarintFacts CidFacts HeaderFacts ScanFacts
     FinalBytes FinalOrder FinalIndex FinalStore FinalWf FinalAccept FinalWide FinalMain.

Definition ex_dig1 : bytes :=
  [x8f; x43; x43; x46; x64; x8f; x6b; x96; xdf; x89; xdd; xa9; x01; xc5; x17; x6b; x10; xa6; xd8; x39; x61;
   xdd; x3c; x1a; xc8; x8b; x59; xb2; xdc; x32; x7a; xa4].                      (* sha2-256 "hi" *)
Definition ex_p1 : cidp := mkcid 1 85 18 ex_dig1.                                (* CIDv1 raw sha2-256 *)
Definition ex_c1 : bytes := cid_enc ex_p1.
Definition ex_d1 : bytes := [x68; x69].
Definition ex_p2 : cidp := mkcid 1 85 0 [x61; x62; x63].                         (* identity CID *)
Definition ex_c2 : bytes := cid_enc ex_p2.
Definition ex_d2 : bytes := [x61; x62; x63].
Definition ex_dig3 : bytes :=
  [x6d; x9c; x54; xde; xe5; x66; x0c; x46; x88; x6f; x32; xd8; x0e; x57; xe9; xdd; x0f; xfa; x57; xee; x0c;
   xd2; xa7; x62; xb0; x36; xd9; xc8; xe0; xc3; xa3; x3a].                      (* sha2-256 of 200 zero bytes *)
Definition ex_p3 : cidp := mkcid 0 112 18 ex_dig3.                               (* CIDv0 *)
Definition ex_c3 : bytes := cid_enc ex_p3.
Definition ex_d3 : bytes := zerosN 200.                                          (* section length 234: 2-byte varint *)

(* data padding 7, index padding 3, multihash-sorted index, identity CIDs stored *)
Definition ex_o : wopts := mkwopts 7 3 1025 false 2048 true false false false default_maxh default_maxs.
Definition ex_roots : list bytes := [ex_c1; ex_c3].
Definition ex_h : list batch := [[(ex_c1, ex_d1)]; [(ex_c2, ex_d2); (ex_c1, ex_d1); (ex_c3, ex_d3)]].
Definition ex_hok : bytes -> bytes -> option bool := fun _ _ => Some true.

Definition ex_file : bytes :=
  match session KBlockstore ex_o false ex_roots ex_h with
  | Ok (s, _, _) => ws_file s
  | Err _ => []
  end.

Example ex_stored :
  spec_stored KBlockstore ex_o (Some ex_roots) ex_h = [(ex_c1, ex_d1); (ex_c2, ex_d2); (ex_c3, ex_d3)].
Proof. vm_compute. reflexivity. Qed.

Example ex_session_ok :
  exists s outs, session KBlockstore ex_o false ex_roots ex_h = Ok (s, outs, ONil) /\ ws_file s = ex_file /\
                 blen (ws_file s) = 590.
Proof. vm_compute. eexists. eexists. split; [reflexivity|]. split; reflexivity. Qed.

Lemma ex_cid_ok1 : cid_bytes_ok ex_c1.
Proof. exists ex_p1. split; [|reflexivity]. right. vm_compute. repeat split; discriminate. Qed.
Lemma ex_cid_ok2 : cid_bytes_ok ex_c2.
Proof. exists ex_p2. split; [|reflexivity]. right. vm_compute. repeat split; discriminate. Qed.
Lemma ex_cid_ok3 : cid_bytes_ok ex_c3.
Proof. exists ex_p3. split; [|reflexivity]. left. vm_compute. repeat split. Qed.

Ltac num := vm_compute; (reflexivity || discriminate).
Ltac each := repeat match goal with |- Forall _ _ => first [apply Forall_nil | apply Forall_cons] end.

(* the hash oracle of the examples accepts everything; identity CIDs are not an oracle matter *)
Lemma ex_hash_good c d : (forall p, cid_parse c = Some p -> is_identity p = true -> c_digest p = d) ->
  hash_good ex_hok (c, d).
Proof.
  intros H p Hp. unfold hash_matches, ex_hok. cbn [fst snd] in *.
  destruct (is_identity p) eqn:E; [|reflexivity]. rewrite (H p Hp E). rewrite bytes_eqb_refl. reflexivity.
Qed.
Lemma ex_id1 p : cid_parse ex_c1 = Some p -> is_identity p = true -> c_digest p = ex_d1.
Proof. intros Hp E. vm_compute in Hp. inversion Hp; subst. vm_compute in E. discriminate. Qed.
Lemma ex_id2 p : cid_parse ex_c2 = Some p -> is_identity p = true -> c_digest p = ex_d2.
Proof. intros Hp E. vm_compute in Hp. inversion Hp; subst. reflexivity. Qed.
Lemma ex_id3 p : cid_parse ex_c3 = Some p -> is_identity p = true -> c_digest p = ex_d3.
Proof. intros Hp E. vm_compute in Hp. inversion Hp; subst. vm_compute in E. discriminate. Qed.

(* the hypotheses of c05_layout / c05_wf / c05_inspect_accepts / c05_verify_accepts_partial hold here *)
Example ex_hyps :
  51 + w_dpad ex_o + w_ipad ex_o < two64 /\ w_ipad ex_o < two63 /\ w_maxcid ex_o + 8 <= max_width /\
  roots_ok ex_roots /\
  Forall (Forall (fun b : block => blen (fst b) + blen (snd b) < 2 ^ 56)) ex_h /\
  blen ex_file < two63 /\
  N.of_nat (length (group_by r_code (ii_load (records_from (ld_size (blen (enc_header (Some ex_roots) 1)))
     (spec_stored KBlockstore ex_o (Some ex_roots) ex_h)) []))) < two31 /\
  dec_header_canon pragma_body = Some ([], 2) /\
  dec_header_canon (enc_header (Some ex_roots) 1) = Some (ex_roots, 1) /\
  blen (enc_header (Some ex_roots) 1) <= o_maxh default_ropts /\
  Forall (Forall (fun b : block => blen (fst b) + blen (snd b) <= o_maxs default_ropts)) ex_h /\
  Forall (Forall (hash_good ex_hok)) ex_h /\
  incl ex_roots (map fst (spec_stored KBlockstore ex_o (Some ex_roots) ex_h)) /\ ex_roots <> [].
Proof.
  assert (Hsz : forall c d : bytes, blen c + blen d <= 1000 -> blen c + blen d < 2 ^ 56)
    by (intros; change (2 ^ 56) with 72057594037927936; lia).
  split; [num|]. split; [num|]. split; [num|].
  split. { split; [|num]. each; (split; [first [apply ex_cid_ok1 | apply ex_cid_ok3]|num]). }
  split. { each; cbn [fst snd]; apply Hsz; num. }
  split; [num|]. split; [num|]. split; [num|]. split; [num|]. split; [num|].
  split. { each; num. }
  split. { each; [apply ex_hash_good, ex_id1 | apply ex_hash_good, ex_id2 | apply ex_hash_good, ex_id1 | apply ex_hash_good, ex_id3]. }
  split; [|discriminate].
  rewrite ex_stored. intros x [<-|[<-|[]]]; cbn [map fst In]; auto.
Qed.

(* the LdWrite guard on this history, and on any history of blocks of realistic size *)
Example ex_history_ok : history_ok ex_h = true.
Proof. vm_compute. reflexivity. Qed.

(* the conclusions, re-checked by evaluation on this instance *)
Example ex_layout :
  let payload := ld (enc_header (Some ex_roots) 1) ++ enc_sections [(ex_c1, ex_d1); (ex_c2, ex_d2); (ex_c3, ex_d3)] in
  exists fi, ii_flatten 1025 (idx_of (Some ex_roots) [(ex_c1, ex_d1); (ex_c2, ex_d2); (ex_c3, ex_d3)]) = Some fi /\
  ex_file = pragma ++ enc_v2hdr (mkv2 128 0 58 (blen payload) (58 + blen payload + 3)) ++ zerosN 7 ++ payload ++
            zerosN 3 ++ idx_write fi.
Proof. eexists. split; [vm_compute; reflexivity|vm_compute; reflexivity]. Qed.

Example ex_wf :
  wf_parse ex_o ex_file = Some (ex_roots, [(ex_c1, ex_d1); (ex_c2, ex_d2); (ex_c3, ex_d3)]).
Proof. vm_compute. reflexivity. Qed.

Example ex_inspect : inspect_check ex_hok dec_header_canon default_ropts true ex_file = Ok tt.
Proof. vm_compute. reflexivity. Qed.

Example ex_verify : verify_check ex_hok dec_header_canon ex_file = Ok tt.
Proof. vm_compute. reflexivity. Qed.

(* CARv1 mode and the sorted (digest-only) codec, same puts through the storage front-end *)
Definition ex_o1 : wopts := mkwopts 0 0 1024 false 2048 false false false true default_maxh default_maxs.
Definition ex_file1 : bytes :=
  match session (KStorage false) ex_o1 false ex_roots ex_h with
  | Ok (s, _, _) => ws_file s
  | Err _ => []
  end.
Example ex_v1_session :
  exists s outs, session (KStorage false) ex_o1 false ex_roots ex_h = Ok (s, outs, ONil) /\ ws_file s = ex_file1.
Proof. vm_compute. eexists. eexists. split; reflexivity. Qed.
Example ex_v1 :
  ex_file1 = ld (enc_header (Some ex_roots) 1) ++ enc_sections [(ex_c1, ex_d1); (ex_c3, ex_d3)] /\
  wf_car ex_o1 ex_file1 = true /\
  inspect_check ex_hok dec_header_canon default_ropts true ex_file1 = Ok tt /\
  verify_check ex_hok dec_header_canon ex_file1 = Ok tt.
Proof. repeat split; vm_compute; reflexivity. Qed.

(* an index codec the library does not know *)
Example ex_unknown_codec :
  exists s outs, session KBlockstore (mkwopts 0 0 85 false 2048 false false false false default_maxh default_maxs)
                         false ex_roots ex_h = Ok (s, outs, OErr EOther).
Proof. vm_compute. eexists. eexists. reflexivity. Qed.

(* ---- the verifier refuses an archive without roots ------------------------------------------------------------ *)
(* same puts, no roots: every hypothesis of c05_verify_accepts_partial except [roots <> []] holds (no root is
   missing from the blocks), and VerifyCar's model answers "no roots listed in car header" *)
Definition ex_o0 : wopts := mkwopts 0 0 1025 false 2048 false false false false default_maxh default_maxs.

Definition ex_file0 : bytes :=
  match session KBlockstore ex_o0 false [] [[(ex_c1, ex_d1)]] with
  | Ok (s, _, _) => ws_file s
  | Err _ => []
  end.

Theorem verify_no_roots_refuted :
  exists (k : skind) (o : wopts) (nilroots : bool) (roots : list bytes) (h : list batch) s outs,
    session k (apply_wopts o) nilroots roots h = Ok (s, outs, ONil) /\
    51 + w_dpad o + w_ipad o < two64 /\ w_ipad o < two63 /\
    Forall (Forall (fun b : block => blen (fst b) + blen (snd b) < 2 ^ 56)) h /\
    blen (ws_file s) < two63 /\
    dec_header_canon pragma_body = Some ([], 2) /\
    dec_header_canon (enc_header (roots_opt nilroots roots) 1) = Some (roots, 1) /\
    Forall (Forall (fun b : block => blen (fst b) + blen (snd b) <= o_maxs default_ropts)) h /\
    Forall (Forall (hash_good ex_hok)) h /\
    incl roots (map fst (spec_stored k (apply_wopts o) (roots_opt nilroots roots) h)) /\
    wf_car (apply_wopts o) (ws_file s) = true /\
    inspect_check ex_hok dec_header_canon default_ropts true (ws_file s) = Ok tt /\
    verify_check ex_hok dec_header_canon (ws_file s) = Err EOther.
Proof.
  assert (Hs : exists s outs, session KBlockstore ex_o0 false [] [[(ex_c1, ex_d1)]] = Ok (s, outs, ONil) /\ ws_file s = ex_file0).
  { vm_compute. eexists. eexists. split; reflexivity. }
  destruct Hs as (s & outs & Hs & Hf).
  exists KBlockstore, ex_o0, false, [], [[(ex_c1, ex_d1)]], s, outs. change (apply_wopts ex_o0) with ex_o0. rewrite Hf.
  assert (Hsz : forall c d : bytes, blen c + blen d <= 1000 -> blen c + blen d < 2 ^ 56)
    by (intros; change (2 ^ 56) with 72057594037927936; lia).
  split; [exact Hs|].
  split; [num|]. split; [num|].
  split. { each. cbn [fst snd]. apply Hsz; num. }
  split; [num|]. split; [num|]. split; [num|].
  split. { each. num. }
  split. { each. apply ex_hash_good. apply ex_id1. }
  split. { intros x []. }
  split; [num|]. split; num.
Qed.
